// C19 correspondence harness: runs the real OpenPGP codecs of /repo (CallasDonnerhackeFinneyShawThayerRFC4880) on
// generated inputs; prints one REC per call (inputs + observed result) for the model driver (PgpCodecModel.v is the
// reference written from RFC 4880), evaluates the round-trip / refusal properties on the implementation itself
// (PROPFAIL), and prints GPGCASE lines (emitted artefacts + what GnuPG must report about them) for checks/C19.py.
#include "common.hh"
#include <dlfcn.h>
#include <libTMCG_config.h>
#include <algorithm>
#include <map>
#include <set>
#define private public
#define protected public
#include <libTMCG.hh>
#undef private
#undef protected
using namespace verif;
typedef CallasDonnerhackeFinneyShawThayerRFC4880 PGP;
typedef tmcg_openpgp_octets_t oct;

// ---- observe the octets given to gcry_md_hash_buffer (fingerprint framing) ---------------------------------
static bool g_cap = false; static std::string g_hash_in; static int g_hash_algo = 0;
extern "C" void gcry_md_hash_buffer(int algo, void *digest, const void *buffer, size_t length) {
	typedef void (*fn_t)(int, void*, const void*, size_t);
	static fn_t real = (fn_t)dlsym(RTLD_NEXT, "gcry_md_hash_buffer");
	if (g_cap) { g_hash_in.assign((const char*)buffer, length); g_hash_algo = algo; }
	real(algo, digest, buffer, length);
}

static std::string S(const oct &o) { return std::string(o.begin(), o.end()); }
static oct O(const std::string &s) { return oct(s.begin(), s.end()); }
static oct rnd_oct(size_t n) { oct r(n); for (size_t i = 0; i < n; i++) r[i] = (unsigned char)gen().next(); return r; }
static oct rnd_oct_biased(size_t n) {
	oct r(n); unsigned m = gen().below(4);
	for (size_t i = 0; i < n; i++) {
		switch (m) { case 0: r[i] = 0; break; case 1: r[i] = 0xFF; break; default: r[i] = (unsigned char)gen().next(); }
		if (gen().below(16) == 0) r[i] = (unsigned char)gen().next();
	}
	return r;
}
static std::string hexz(gcry_mpi_t m) {
	unsigned char *buf = NULL; size_t n = 0;
	gcry_mpi_aprint(GCRYMPI_FMT_HEX, &buf, &n, m); std::string r((char*)buf); gcry_free(buf);
	size_t i = 0; while (i + 1 < r.size() && r[i] == '0') i++; r = r.substr(i);
	for (auto &c : r) c = tolower(c);
	return r;
}
static gcry_mpi_t mpi_bits(unsigned bits) {   // random integer with exactly `bits` bits (0 -> zero)
	gcry_mpi_t m = gcry_mpi_new(bits + 8);
	if (bits == 0) { gcry_mpi_set_ui(m, 0); return m; }
	oct b = rnd_oct((bits + 7) / 8);
	unsigned top = (bits - 1) % 8; b[0] &= (unsigned char)((1u << (top + 1)) - 1); b[0] |= (unsigned char)(1u << top);
	gcry_mpi_t t = NULL; gcry_mpi_scan(&t, GCRYMPI_FMT_USG, b.data(), b.size(), NULL); gcry_mpi_set(m, t); gcry_mpi_release(t);
	return m;
}
static gcry_mpi_t mpi_from_oct(const oct &b) {
	gcry_mpi_t t = NULL; gcry_mpi_scan(&t, GCRYMPI_FMT_USG, b.data(), b.size(), NULL);
	if (!t) t = gcry_mpi_new(8);
	return t;
}
static bool mpi_eq(gcry_mpi_t a, gcry_mpi_t b) { return a && b && gcry_mpi_cmp(a, b) == 0; }

static uint64_t g_cases = 0;

// ============================================================================================================
// Radix-64, CRC-24
// ============================================================================================================
static void r64_case(const oct &in) {
	for (int lb = 0; lb < 2; lb++) {
		std::string out; PGP::Radix64Encode(in, out, lb == 1);
		Rec("r64enc").d(lb).b(S(in)).b(out);
		oct back; PGP::Radix64Decode(out, back);
		if (back != in) propfail("r64-roundtrip", "Radix64Decode(Radix64Encode(x,lb=" + std::to_string(lb) + ")) != x for x=" + xb(S(in)));
		if (lb == 1) {   // RFC 4880 6.3: lines of at most 76 characters, pad never alone on a line
			size_t ll = 0; bool bad = false;
			for (size_t i = 0; i < out.size(); i++) {
				if (out[i] == '\r' || out[i] == '\n') { ll = 0; continue; }
				if (out[i] == '=' && ll == 0) bad = true;
				if (++ll > 76) bad = true;
			}
			if (!out.empty() && (out.back() == '\n')) bad = true;
			if (bad) propfail("r64-lines", "line structure violates RFC 4880 6.3 for x=" + xb(S(in)));
		}
		g_cases++;
	}
}
static void r64dec_case(const std::string &text) {
	oct out; PGP::Radix64Decode(text, out);
	Rec("r64dec").b(text).b(S(out));
	g_cases++;
}
static std::string mutate_text(std::string t) {
	static const char INS[] = "=\r\n \t-:A/+z09\0\x80\xff!=";
	unsigned n = 1 + gen().below(3);
	for (unsigned k = 0; k < n; k++) {
		size_t pos = t.empty() ? 0 : gen().below(t.size() + 1);
		char c = INS[gen().below(sizeof(INS) - 1)];
		switch (gen().below(5)) {
		case 0: if (pos < t.size()) t[pos] = c; break;
		case 1: t.insert(t.begin() + pos, c); break;
		case 2: if (pos < t.size()) t.erase(pos, 1); break;
		case 3: t = t.substr(0, pos); break;
		case 4: if (pos < t.size()) t[pos] = (char)gen().next(); break;
		}
	}
	return t;
}
static void crc_case(const oct &in) {
	oct c; PGP::CRC24Compute(in, c);
	Rec("crc24").b(S(in)).b(S(c));
	std::string e; PGP::CRC24Encode(in, e);
	Rec("crc24enc").b(S(in)).b(e);
	// independent bit-serial polynomial division (RFC 4880 6.1 wording: generator 0x864CFB, init 0xB704CE)
	uint32_t reg = 0xB704CE;
	for (unsigned char ch : in) for (int bit = 7; bit >= 0; bit--) {
		uint32_t inb = (ch >> bit) & 1u; uint32_t top = (reg >> 23) & 1u; reg = (reg << 1) & 0xFFFFFF;
		if (top ^ inb) reg ^= 0x864CFB;
	}
	if (c.size() != 3 || c[0] != ((reg >> 16) & 0xFF) || c[1] != ((reg >> 8) & 0xFF) || c[2] != (reg & 0xFF))
		propfail("crc24-reference", "CRC24Compute differs from the bit-serial reference for x=" + xb(S(in)));
	g_cases++;
}

// ============================================================================================================
// Armor
// ============================================================================================================
static const int ARM_TYPES[] = { 1, 2, 5, 6 };
static void armor_case(int type, const oct &in, const std::string &comment, bool version, bool gpgcase) {
	std::string arm; PGP::ArmorEncode((tmcg_openpgp_armor_t)type, comment, in, arm, version);
	Rec("armenc").d(type).t(version ? xb(std::string("LibTMCG " VERSION)) : std::string("-")).b(comment).b(S(in)).b(arm);
	oct back; tmcg_openpgp_armor_t t = PGP::ArmorDecode(arm, back);
	Rec("armdec").b(arm).t(t == 0 ? std::string("0") : std::to_string((int)t) + ":" + xb(S(back)));
	bool plain_comment = comment.find('\n') == comment.npos && comment.find("-----") == comment.npos;
	if (plain_comment && (type == 1 || type == 2 || type == 5 || type == 6)) {
		if (in.empty()) {
			if ((int)t != type || back != in) propfail("armor-empty-roundtrip", "ArmorDecode(ArmorEncode(type=" + std::to_string(type) + ", empty data)) returns " + std::to_string((int)t));
		} else if ((int)t != type || back != in)
			propfail("armor-roundtrip", "ArmorDecode(ArmorEncode(type=" + std::to_string(type) + ",x)) = " + std::to_string((int)t) + " for x=" + xb(S(in)) + " comment=" + xb(comment));
	}
	if (gpgcase && plain_comment && !in.empty()) printf("GPGARMOR %s %s\n", xb(arm).c_str(), xb(S(in)).c_str());
	g_cases++;
	if (in.empty() || !plain_comment) return;
	// refusal: wrong checksum, nested block, missing separator
	{
		std::string bad = arm; size_t cp = bad.rfind("\r\n=");
		if (cp != bad.npos) {
			size_t k = cp + 3 + gen().below(4); char o = bad[k];
			do { bad[k] = tmcg_openpgp_tRadix64[gen().below(64)]; } while (bad[k] == o);
			oct b2; tmcg_openpgp_armor_t t2 = PGP::ArmorDecode(bad, b2);
			Rec("armdec").b(bad).t(t2 == 0 ? std::string("0") : std::to_string((int)t2) + ":" + xb(S(b2)));
			if (t2 != 0) propfail("armor-accepts-wrong-checksum", "checksum character changed, still decoded: " + xb(bad));
		}
	}
	{
		std::string bad = arm; size_t cp = bad.find("\r\n\r\n");
		if (cp != bad.npos) {
			size_t dl = cp + 4 + gen().below(std::max<size_t>(1, bad.rfind("\r\n=") - cp - 4));   // change one data character
			if (dl < bad.size() && bad[dl] != '\r' && bad[dl] != '\n' && bad[dl] != '=') {
				char o = bad[dl]; do { bad[dl] = tmcg_openpgp_tRadix64[gen().below(64)]; } while (bad[dl] == o);
				oct b2; tmcg_openpgp_armor_t t2 = PGP::ArmorDecode(bad, b2);
				Rec("armdec").b(bad).t(t2 == 0 ? std::string("0") : std::to_string((int)t2) + ":" + xb(S(b2)));
				// a changed data character changes the decoded octets (possibly only pad bits) => either refused or same data
				if (t2 != 0 && b2 != in) propfail("armor-accepts-corrupt-data", "data character changed, decoded to different octets and accepted: " + xb(bad));
			}
		}
	}
	{
		std::string inner; PGP::ArmorEncode((tmcg_openpgp_armor_t)type, "", in, inner, false);
		std::string bad = arm; size_t cp = bad.find("\r\n\r\n");
		if (cp != bad.npos) {
			bad.insert(cp + 4, inner);
			oct b2; tmcg_openpgp_armor_t t2 = PGP::ArmorDecode(bad, b2);
			Rec("armdec").b(bad).t(t2 == 0 ? std::string("0") : std::to_string((int)t2) + ":" + xb(S(b2)));
			if (t2 != 0) propfail("armor-accepts-nested", "nested block accepted: " + xb(bad));
		}
	}
	{
		std::string bad = arm; size_t cp = bad.find("\r\n\r\n");
		if (cp != bad.npos) {
			bad.erase(cp, 2);   // header line directly followed by data: no blank line
			oct b2; tmcg_openpgp_armor_t t2 = PGP::ArmorDecode(bad, b2);
			Rec("armdec").b(bad).t(t2 == 0 ? std::string("0") : std::to_string((int)t2) + ":" + xb(S(b2)));
			if (t2 != 0 && bad.find("\n\n") == bad.npos && bad.find("\r\n\r\n") == bad.npos)
				propfail("armor-accepts-missing-separator", "no blank line, still decoded: " + xb(bad));
		}
	}
	for (int k = 0; k < 2; k++) {
		std::string bad = mutate_text(arm);
		oct b2; tmcg_openpgp_armor_t t2 = PGP::ArmorDecode(bad, b2);
		Rec("armdec").b(bad).t(t2 == 0 ? std::string("0") : std::to_string((int)t2) + ":" + xb(S(b2)));
	}
}

// ============================================================================================================
// Packet length, tag, body extraction
// ============================================================================================================
static void lenenc_case(size_t n) {
	oct out; PGP::PacketLengthEncode(n, out);
	Rec("lenenc").u(n).b(S(out));
	if (n <= 0xFFFFFFFFUL) {
		oct in = out; in.push_back(0xAA); in.push_back(0x55);
		uint32_t len = 0xDEADBEEF; bool part = true;
		size_t h = PGP::PacketLengthDecode(in, true, 0, len, part);
		if (h != out.size() || len != n || part) propfail("pktlen-roundtrip", "PacketLengthDecode(PacketLengthEncode(" + hx(n) + ")) gives len=" + hx(len) + " head=" + hx(h));
		size_t want = n < 192 ? 1 : (n < 8384 ? 2 : 5);
		if (out.size() != want) propfail("pktlen-form", "length " + hx(n) + " encoded in " + hx(out.size()) + " octets");
	}
	g_cases++;
}
static std::string lendec_tok(const oct &in, bool nf, unsigned lt) {
	uint32_t len = 0; bool part = false;
	size_t h = PGP::PacketLengthDecode(in, nf, (tmcg_openpgp_byte_t)lt, len, part);
	if (h == 0) return "0";
	if (h == 42 && !nf && lt == 3) return "I:" + hx(len);
	if (part) return "P:" + hx(len);
	return "D:" + hx(len) + ":" + hx(h);
}
static void lendec_case(const oct &in, bool nf, unsigned lt) {
	Rec("lendec").b(S(in)).d(nf).d(lt).t(lendec_tok(in, nf, lt));
	g_cases++;
}
static void bodyext_case(const oct &in) {
	oct out; tmcg_openpgp_byte_t tag = PGP::PacketBodyExtract(in, 0, out);
	Rec("bodyext").b(S(in)).t(tag == 0 ? std::string("0") : hx(tag) + ":" + xb(S(out)));
	g_cases++;
}

// ============================================================================================================
// MPI, string
// ============================================================================================================
static void mpi_case(gcry_mpi_t m) {
	oct out; size_t sum = gen().below(65536); size_t sum0 = sum;
	PGP::PacketMPIEncode(m, out, sum);
	Rec("mpienc").t(hexz(m)).u(sum0).t(xb(S(out)) + ":" + hx(sum));
	oct in = out; in.push_back(0x77);
	gcry_mpi_t back = NULL; size_t s2 = sum0;
	size_t n = PGP::PacketMPIDecode(in, back, s2);
	if (n != out.size() || !mpi_eq(back, m) || s2 != sum) propfail("mpi-roundtrip", "PacketMPIDecode(PacketMPIEncode(" + hexz(m) + ")) differs");
	if (gcry_mpi_cmp_ui(m, 0) != 0 && (out.size() < 3 || out[2] == 0)) propfail("mpi-leading-zero", "encoding of " + hexz(m) + " starts with a zero octet");
	gcry_mpi_release(back);
	g_cases++;
}
static void mpidec_case(const oct &in) {
	gcry_mpi_t v = NULL; size_t sum = gen().below(65536), sum0 = sum;
	size_t n = PGP::PacketMPIDecode(in, v, sum);
	Rec("mpidec").b(S(in)).u(sum0).t(n == 0 ? "0:" + hx(sum) : hexz(v) + ":" + hx(n) + ":" + hx(sum));
	if (n > in.size()) propfail("mpi-consumed", "PacketMPIDecode consumed more than the input: " + xb(S(in)));
	gcry_mpi_release(v);
	g_cases++;
}
static void str_case(const std::string &s) {
	oct out; PGP::PacketStringEncode(s, out);
	Rec("strenc").b(s).b(S(out));
	std::string back; oct in = out; in.push_back(1);
	size_t n = PGP::PacketStringDecode(in, back);
	Rec("strdec").b(S(in)).t(n == 0 ? std::string("0") : xb(back) + ":" + hx(n));
	if (!s.empty() && (n != out.size() || back != s)) propfail("string-roundtrip", "PacketStringDecode(PacketStringEncode(x)) differs for x=" + xb(s));
	g_cases++;
}

// ============================================================================================================
// S2K
// ============================================================================================================
static const int S2K_HASHES[] = { TMCG_OPENPGP_HASHALGO_SHA1, TMCG_OPENPGP_HASHALGO_RMD160, TMCG_OPENPGP_HASHALGO_SHA256,
	TMCG_OPENPGP_HASHALGO_SHA384, TMCG_OPENPGP_HASHALGO_SHA512, TMCG_OPENPGP_HASHALGO_SHA224 };
static uint32_t ref_count(unsigned c) { return (16u + (c & 15u)) << ((c >> 4) + 6); }   // RFC 4880 3.7.1.3
// the octets instance number nzp hashes: nzp zeros, then salt||passphrase repeated up to count (at least once in full)
static std::string ref_stream(uint32_t count, size_t nzp, const std::string &data) {
	std::string r(nzp, '\0'); size_t total = std::max<size_t>(count, data.size());
	while (total >= data.size()) { r += data; total -= data.size(); }
	r += data.substr(0, total);
	return r;
}
static std::string ref_s2k(int halgo, size_t sklen, const std::string &pw, const std::string &salt, bool iter, unsigned c) {
	int a = PGP::AlgorithmHashGCRY((tmcg_openpgp_hashalgo_t)halgo); size_t dl = gcry_md_get_algo_dlen(a);
	std::string key; std::string data = salt + pw;
	for (size_t inst = 0; key.size() < sklen; inst++) {
		std::string st = ref_stream(iter ? ref_count(c) : 0, inst, data);
		gcry_md_hd_t hd; gcry_md_open(&hd, a, 0); gcry_md_write(hd, st.data(), st.size());
		key += std::string((const char*)gcry_md_read(hd, a), dl); gcry_md_close(hd);
	}
	return key.substr(0, sklen);
}
static void s2k_case(int halgo, size_t sklen, const std::string &pw, const oct &salt, bool iter, unsigned c, bool also_kdf) {
	tmcg_openpgp_secure_string_t p; for (char ch : pw) p += ch;
	tmcg_openpgp_secure_octets_t out;
	PGP::S2KCompute((tmcg_openpgp_hashalgo_t)halgo, sklen, p, salt, iter, (tmcg_openpgp_byte_t)c, out);
	std::string got(out.begin(), out.end());
	std::string want = ref_s2k(halgo, sklen, pw, S(salt), iter, c);
	std::string sel = std::string(iter ? "iter" : "salted");
	if (got != want) propfail("s2k-" + sel, "S2KCompute(hash=" + std::to_string(halgo) + ",sklen=" + std::to_string(sklen) + ",count octet=" + std::to_string(c) + ",pw=" + xb(pw) + ") differs from the RFC 4880 3.7.1 reference");
	if (also_kdf && !pw.empty()) {
		std::vector<unsigned char> k(sklen);
		int a = PGP::AlgorithmHashGCRY((tmcg_openpgp_hashalgo_t)halgo);
		gcry_error_t e = gcry_kdf_derive(pw.data(), pw.size(), iter ? GCRY_KDF_ITERSALTED_S2K : GCRY_KDF_SALTED_S2K, a, salt.data(), 8,
			iter ? ref_count(c) : 0, sklen, k.data());
		if (!e && std::string(k.begin(), k.end()) != got)
			propfail("s2k-gcrypt-" + sel, "S2KCompute(hash=" + std::to_string(halgo) + ",sklen=" + std::to_string(sklen) + ",count octet=" + std::to_string(c) + ") differs from gcry_kdf_derive");
	}
	g_cases++;
}

// ============================================================================================================
// fingerprints
// ============================================================================================================
static std::string md(int algo, const std::string &s) {
	gcry_md_hd_t hd; gcry_md_open(&hd, algo, 0); gcry_md_write(hd, s.data(), s.size());
	std::string r((const char*)gcry_md_read(hd, algo), gcry_md_get_algo_dlen(algo)); gcry_md_close(hd); return r;
}
static void fpr_case(const oct &body) {
	oct f4, f5, k4, k5;
	g_cap = true; g_hash_in.clear(); PGP::FingerprintCompute(body, f4); g_cap = false;
	Rec("fpr4").b(S(body)).b(g_hash_in);
	std::string fr; fr += (char)0x99; fr += (char)((body.size() >> 8) & 0xFF); fr += (char)(body.size() & 0xFF); fr += S(body);
	if (S(f4) != md(GCRY_MD_SHA1, fr)) propfail("fingerprint-v4", "FingerprintCompute != SHA1(0x99||len2||body) for body=" + xb(S(body)));
	g_cap = true; g_hash_in.clear(); PGP::FingerprintComputeV5(body, f5); g_cap = false;
	Rec("fpr5").b(S(body)).b(g_hash_in);
	std::string fr5; fr5 += (char)0x9A; for (int sft = 24; sft >= 0; sft -= 8) fr5 += (char)((body.size() >> sft) & 0xFF); fr5 += S(body);
	if (S(f5) != md(GCRY_MD_SHA256, fr5)) propfail("fingerprint-v5", "FingerprintComputeV5 != SHA256(0x9A||len4||body) for body=" + xb(S(body)));
	PGP::KeyidCompute(body, k4); PGP::KeyidComputeV5(body, k5);
	Rec("keyid4").b(S(f4)).b(S(k4));
	Rec("keyid5").b(S(f5)).b(S(k5));
	std::string plain, kid; PGP::FingerprintConvertPlain(f4, plain); PGP::KeyidConvert(k4, kid);
	std::string hexu; { static const char *d = "0123456789ABCDEF"; for (unsigned char c : f4) { hexu += d[c >> 4]; hexu += d[c & 15]; } }
	if (plain != hexu || kid != hexu.substr(24)) propfail("fingerprint-convert", "hex form of fingerprint/keyid wrong for body=" + xb(S(body)));
	g_cases++;
}

// ============================================================================================================
// packets: model-compared encoders + re-decoding by the library's PacketDecode (PROPFAIL) + gpg cases
// ============================================================================================================
struct Dec {
	tmcg_openpgp_packet_ctx_t ctx; tmcg_openpgp_byte_t tag; oct rest, cur;
	tmcg_openpgp_notations_t nota; tmcg_openpgp_multiple_octets_t emb, rfp;
	explicit Dec(const oct &pkt, const oct &trail = oct()) {
		rest = pkt; rest.insert(rest.end(), trail.begin(), trail.end());
		tag = PGP::PacketDecode(rest, 0, ctx, cur, nota, emb, rfp);
	}
	~Dec() { PGP::PacketContextRelease(ctx); }
};
static void gpgcase(const char *kind, const oct &pkt, const std::vector<std::string> &expect) {
	std::string e; for (size_t i = 0; i < expect.size(); i++) { if (i) e += "|"; e += xb(expect[i]); }
	printf("GPGCASE %s %s %s\n", kind, xb(S(pkt)).c_str(), e.c_str());
}
static std::string up(std::string s) { for (auto &c : s) c = toupper(c); return s; }
static std::string hexs(const oct &o) { std::string r = xb(S(o)).substr(1); return r; }
#define PF(key, what) propfail(key, std::string(what) + " packet=" + xb(S(pkt)))

// decode side, field for field: PacketDecode on the packet, every context field the model knows as one token
static std::string mpis_tok(std::initializer_list<gcry_mpi_t> l) { std::string r; for (auto m : l) { if (!r.empty()) r += ","; r += hexz(m); } return r; }
static std::string pdec_tok(const oct &pkt) {
	Dec d(pkt); const tmcg_openpgp_packet_ctx_t &c = d.ctx;
	if (d.tag == 0) return "err";
	if (d.tag >= 0xFA) return "unsup";
	std::string t = std::to_string((int)d.tag) + "|";
	auto B = [](const tmcg_openpgp_byte_t *p, size_t n) { return xb(std::string((const char*)p, n)); };
	switch (d.tag) {
	case 1: t += B(c.keyid, 8) + "|" + hx(c.pkalgo) + "|";
		if (c.pkalgo == 1 || c.pkalgo == 2) t += mpis_tok({ c.me }); else if (c.pkalgo == 16) t += mpis_tok({ c.gk, c.myk }); else t += mpis_tok({ c.ecepk }) + "|" + B(c.rkw, c.rkwlen);
		break;
	case 2:
		if (c.version == 3) t += "3|" + hx(c.type) + "|" + hx(c.sigcreationtime) + "|" + B(c.issuer, 8) + "|" + hx(c.pkalgo) + "|" + hx(c.hashalgo) + "|" + B(c.left, 2) + "|";
		else t += hx(c.version) + "|" + hx(c.type) + "|" + hx(c.pkalgo) + "|" + hx(c.hashalgo) + "|" + B(c.hspd, c.hspdlen) + "|" + B(c.left, 2) + "|";
		if (c.pkalgo == 1 || c.pkalgo == 3) t += mpis_tok({ c.md }); else t += mpis_tok({ c.r, c.s });
		break;
	case 3: { std::string s2k = hx(c.s2k_type) + ":" + hx(c.s2k_hashalgo); if (c.s2k_type != 0) s2k += ":" + B(c.s2k_salt, 8); if (c.s2k_type == 3) s2k += ":" + hx(c.s2k_count);
		if (c.version == 4) t += "4|" + hx(c.skalgo) + "|" + s2k + "|" + B(c.encdata, c.encdatalen);
		else t += "5|" + hx(c.skalgo) + "|" + hx(c.aeadalgo) + "|" + s2k + "|" + B(c.iv, PGP::AlgorithmIVLength(c.aeadalgo)) + "|" + B(c.encdata, c.encdatalen);
		break; }
	case 6: case 14: t += hx(c.version) + "|" + hx(c.keycreationtime) + "|" + hx(c.pkalgo) + "|";
		if (c.pkalgo <= 3) t += mpis_tok({ c.n, c.e }); else if (c.pkalgo == 16) t += mpis_tok({ c.p, c.g, c.y }); else if (c.pkalgo == 17) t += mpis_tok({ c.p, c.q, c.g, c.y });
		else if (c.pkalgo == 18) t += B(c.curveoid, c.curveoidlen) + ":" + hexz(c.ecpk) + ":" + hx(c.kdf_hashalgo) + ":" + hx(c.kdf_skalgo);
		else t += B(c.curveoid, c.curveoidlen) + ":" + hexz(c.ecpk);
		break;
	case 8: t += hx(c.compalgo) + "|" + B(c.compdata, c.compdatalen); break;
	case 9: t += B(c.encdata, c.encdatalen); break;
	case 11: t += hx(c.dataformat) + "|" + B(c.datafilename, c.datafilenamelen) + "|" + hx(c.datatime) + "|" + B(c.data, c.datalen); break;
	case 13: t += B(c.uiddata, c.uiddatalen); break;
	case 18: t += B(c.encdata, c.encdatalen); break;
	case 19: t += B(c.mdc_hash, 20); break;
	case 20: t += hx(c.skalgo) + "|" + hx(c.aeadalgo) + "|" + hx(c.chunksize) + "|" + B(c.iv, PGP::AlgorithmIVLength(c.aeadalgo)) + "|" + B(c.encdata, c.encdatalen); break;
	default: return "notmodelled";
	}
	return t;
}
static oct reframe(unsigned tag, const oct &body) { oct p; PGP::PacketTagEncode(tag, p); PGP::PacketLengthEncode(body.size(), p); p.insert(p.end(), body.begin(), body.end()); return p; }
static void pdec_case(const oct &pkt) {
	std::string tk = pdec_tok(pkt);
	Rec("pdec").b(S(pkt)).t(tk); g_cases++;
	// encode side, octet for octet: the model re-encodes the decoded fields (packet_of) and must obtain this packet
	if (tk != "err" && tk != "unsup" && tk != "notmodelled") Rec("penc").b(S(pkt)).t("same");
	// the same packet with its body cut at a generated position (every decoder's "too short" tests)
	oct body; tmcg_openpgp_byte_t tag = PGP::PacketBodyExtract(pkt, 0, body);
	if (tag && !body.empty()) for (int k = 0; k < 2; k++) {
		size_t cut = (k == 0 && body.size() > 24) ? gen().below(24) : gen().below(body.size());
		oct b2(body.begin(), body.begin() + cut); oct p2 = reframe(tag, b2);
		Rec("pdec").b(S(p2)).t(pdec_tok(p2)); g_cases++;
	}
}
static void pk_uid(const std::string &uid, bool gpg) {
	oct pkt; PGP::PacketUidEncode(uid, pkt);
	Rec("pk_uid").b(uid).b(S(pkt)); bodyext_case(pkt); pdec_case(pkt);
	oct trail = rnd_oct(gen().below(3));
	Dec d(pkt, trail);
	if (d.tag != 13 || d.ctx.uiddatalen != uid.size() || memcmp(d.ctx.uiddata, uid.data(), uid.size()) || d.rest != trail || d.cur != pkt)
		PF("packet-roundtrip-uid", "user ID packet does not decode to the encoded fields");
	if (gpg && !uid.empty()) {
		bool printable = true; for (unsigned char c : uid) if (c < 0x20 || c > 0x7e || c == '"' || c == '\\') printable = false;
		if (printable) gpgcase("uid", pkt, { ":user ID packet: \"" + uid + "\"" });
	}
	g_cases++;
}
static void pk_lit(const oct &data, bool gpg) {
	oct pkt; PGP::PacketLitEncode(data, pkt);
	size_t hl = 1 + (1 + 1 + 4 + data.size() < 192 ? 1 : (1 + 1 + 4 + data.size() < 8384 ? 2 : 5));
	uint32_t tm = 0; if (pkt.size() >= hl + 6) tm = (pkt[hl + 2] << 24) | (pkt[hl + 3] << 16) | (pkt[hl + 4] << 8) | pkt[hl + 5];
	Rec("pk_lit").u(tm).b(S(data)).b(S(pkt)); bodyext_case(pkt); pdec_case(pkt);
	Dec d(pkt);
	if (d.tag != 11 || d.ctx.dataformat != 0x62 || d.ctx.datafilenamelen != 0 || d.ctx.datatime != tm || d.ctx.datalen != data.size() ||
	    (data.size() && memcmp(d.ctx.data, data.data(), data.size())) || !d.rest.empty())
		PF(data.empty() ? "packet-roundtrip-literal-empty" : "packet-roundtrip-literal", "literal data packet does not decode to the encoded fields");
	uint32_t now = (uint32_t)time(NULL);
	if (tm > now || now - tm > 3600) PF("packet-literal-time", "literal data packet carries a date that is not the current time");
	if (gpg) gpgcase("lit", pkt, { ":literal data packet:", "mode b (62), created " + std::to_string(tm) + ", name=\"\",", "raw data: " + std::to_string(data.size()) + " bytes" });
	g_cases++;
}
static void pk_sed_seipd_mdc_aead(const oct &data) {
	{ oct pkt; PGP::PacketSedEncode(data, pkt); Rec("pk_sed").b(S(data)).b(S(pkt)); bodyext_case(pkt); pdec_case(pkt);
	  Dec d(pkt);
	  if (data.empty() ? false : (d.tag != 9 || d.ctx.encdatalen != data.size() || memcmp(d.ctx.encdata, data.data(), data.size()) || !d.rest.empty()))
		PF("packet-roundtrip-sed", "symmetrically encrypted data packet does not decode to the encoded fields"); }
	{ oct pkt; PGP::PacketSeipdEncode(data, pkt); Rec("pk_seipd").b(S(data)).b(S(pkt)); bodyext_case(pkt); pdec_case(pkt);
	  Dec d(pkt);
	  if (data.empty() ? false : (d.tag != 18 || d.ctx.version != 1 || d.ctx.encdatalen != data.size() || memcmp(d.ctx.encdata, data.data(), data.size()) || !d.rest.empty()))
		PF("packet-roundtrip-seipd", "SEIPD packet does not decode to the encoded fields"); }
	{ oct h = rnd_oct(20); oct pkt; PGP::PacketMdcEncode(h, pkt); Rec("pk_mdc").b(S(h)).b(S(pkt)); bodyext_case(pkt); pdec_case(pkt);
	  Dec d(pkt);
	  if (d.tag != 19 || memcmp(d.ctx.mdc_hash, h.data(), 20) || !d.rest.empty())
		PF("packet-roundtrip-mdc", "MDC packet does not decode to the encoded fields"); }
	{
		static const int AE[] = { TMCG_OPENPGP_AEADALGO_EAX, TMCG_OPENPGP_AEADALGO_OCB };
		int ae = AE[gen().below(2)]; unsigned cs = gen().below(57); int sk = 7 + gen().below(3);
		size_t ivl = (ae == TMCG_OPENPGP_AEADALGO_EAX) ? 16 : 15; oct iv = rnd_oct(ivl);
		oct pkt; PGP::PacketAeadEncode((tmcg_openpgp_skalgo_t)sk, (tmcg_openpgp_aeadalgo_t)ae, cs, iv, data, pkt);
		Rec("pk_aead").u(sk).u(ae).u(cs).b(S(iv)).b(S(data)).b(S(pkt)); bodyext_case(pkt); pdec_case(pkt);
		if (!data.empty()) {
			Dec d(pkt);
			if (d.tag != 20 || d.ctx.version != 1 || d.ctx.skalgo != sk || d.ctx.aeadalgo != ae || d.ctx.chunksize != cs || memcmp(d.ctx.iv, iv.data(), ivl) ||
			    d.ctx.encdatalen != data.size() || memcmp(d.ctx.encdata, data.data(), data.size()) || !d.rest.empty())
				PF("packet-roundtrip-aead", "AEAD encrypted data packet does not decode to the encoded fields");
		}
	}
	g_cases += 4;
}
static void pk_pkesk(bool gpg) {
	oct keyid = rnd_oct(8);
	{ gcry_mpi_t me = mpi_bits(40 + gen().below(2100));
	  oct pkt; PGP::PacketPkeskEncode(keyid, me, pkt);
	  Rec("pk_pkesk_rsa").b(S(keyid)).t(hexz(me)).b(S(pkt)); bodyext_case(pkt); pdec_case(pkt);
	  Dec d(pkt);
	  if (d.tag != 1 || d.ctx.version != 3 || memcmp(d.ctx.keyid, keyid.data(), 8) || d.ctx.pkalgo != TMCG_OPENPGP_PKALGO_RSA || !mpi_eq(d.ctx.me, me) || !d.rest.empty())
		PF("packet-roundtrip-pkesk-rsa", "PKESK (RSA) packet does not decode to the encoded fields");
	  if (gpg) gpgcase("pkesk", pkt, { ":pubkey enc packet: version 3, algo 1, keyid " + up(hexs(keyid)), "data: [" + std::to_string(gcry_mpi_get_nbits(me)) + " bits]" });
	  gcry_mpi_release(me); }
	{ gcry_mpi_t gk = mpi_bits(40 + gen().below(2100)), myk = mpi_bits(40 + gen().below(2100));
	  oct pkt; PGP::PacketPkeskEncode(keyid, gk, myk, pkt);
	  Rec("pk_pkesk_elg").b(S(keyid)).t(hexz(gk)).t(hexz(myk)).b(S(pkt)); bodyext_case(pkt); pdec_case(pkt);
	  Dec d(pkt);
	  if (d.tag != 1 || d.ctx.version != 3 || memcmp(d.ctx.keyid, keyid.data(), 8) || d.ctx.pkalgo != TMCG_OPENPGP_PKALGO_ELGAMAL || !mpi_eq(d.ctx.gk, gk) || !mpi_eq(d.ctx.myk, myk) || !d.rest.empty())
		PF("packet-roundtrip-pkesk-elgamal", "PKESK (ElGamal) packet does not decode to the encoded fields");
	  if (gpg) gpgcase("pkesk", pkt, { ":pubkey enc packet: version 3, algo 16, keyid " + up(hexs(keyid)), "data: [" + std::to_string(gcry_mpi_get_nbits(gk)) + " bits]", "data: [" + std::to_string(gcry_mpi_get_nbits(myk)) + " bits]" });
	  gcry_mpi_release(gk); gcry_mpi_release(myk); }
	{ gcry_mpi_t epk = mpi_bits(263); size_t rl = 24 + 8 * gen().below(5); /* AES key wrap output: 24..56 octets */ oct rk = rnd_oct(rl); tmcg_openpgp_byte_t rkw[256]; memset(rkw, 0, sizeof rkw); memcpy(rkw, rk.data(), rl);
	  oct pkt; PGP::PacketPkeskEncode(keyid, epk, rl, rkw, pkt);
	  Rec("pk_pkesk_ecdh").b(S(keyid)).t(hexz(epk)).b(S(rk)).b(S(pkt)); bodyext_case(pkt); pdec_case(pkt);
	  Dec d(pkt);
	  if (d.tag != 1 || d.ctx.version != 3 || memcmp(d.ctx.keyid, keyid.data(), 8) || d.ctx.pkalgo != TMCG_OPENPGP_PKALGO_ECDH || !mpi_eq(d.ctx.ecepk, epk) || d.ctx.rkwlen != rl || memcmp(d.ctx.rkw, rkw, rl) || !d.rest.empty())
		PF("packet-roundtrip-pkesk-ecdh", "PKESK (ECDH) packet does not decode to the encoded fields");
	  gcry_mpi_release(epk); }
	g_cases += 3;
}
static void pk_subpkt() {
	unsigned type = gen().below(128); bool crit = gen().coin();
	static const size_t L[] = { 0, 1, 4, 190, 191, 192, 8382, 8383, 8384 };
	oct data = rnd_oct(gen().below(3) ? gen().below(40) : L[gen().below(9)]);
	oct out; PGP::SubpacketEncode(type, crit, data, out);
	Rec("pk_subpkt").u(type).d(crit).b(S(data)).b(S(out));
	g_cases++;
}
static const int SIG_HASHES[] = { TMCG_OPENPGP_HASHALGO_SHA256, TMCG_OPENPGP_HASHALGO_SHA384, TMCG_OPENPGP_HASHALGO_SHA512, TMCG_OPENPGP_HASHALGO_SHA224, TMCG_OPENPGP_HASHALGO_SHA1, TMCG_OPENPGP_HASHALGO_RMD160 };
static void pk_sig(bool gpg) {
	static const int PKA[] = { TMCG_OPENPGP_PKALGO_RSA, TMCG_OPENPGP_PKALGO_DSA, TMCG_OPENPGP_PKALGO_ECDSA, TMCG_OPENPGP_PKALGO_EDDSA };
	int pka = PKA[gen().below(4)]; int ha = SIG_HASHES[gen().below(6)];
	time_t sigtime = 1 + gen().below(0xFFFFFFFEUL); time_t exp = gen().coin() ? 0 : 1 + gen().below(100000000);
	oct issuer = rnd_oct(gen().coin() ? 20 : 8); oct flags; flags.push_back(1 << gen().below(6));
	oct left = rnd_oct(2);
	unsigned kind = gen().below(7);
	oct hashed; int type = 0; std::string policy = gen().coin() ? "" : "https://example.org/policy";
	switch (kind) {
	case 0: type = 0x13; PGP::PacketSigPrepareSelfSignature((tmcg_openpgp_signature_t)type, (tmcg_openpgp_pkalgo_t)pka, (tmcg_openpgp_hashalgo_t)ha, sigtime, exp, flags, issuer, gen().coin(), hashed); break;
	case 1: type = 0x18; PGP::PacketSigPrepareSelfSignature((tmcg_openpgp_signature_t)type, (tmcg_openpgp_pkalgo_t)pka, (tmcg_openpgp_hashalgo_t)ha, sigtime, exp, flags, issuer, gen().coin(), hashed); break;
	case 2: type = gen().coin() ? 0x00 : 0x01; PGP::PacketSigPrepareDetachedSignature((tmcg_openpgp_signature_t)type, (tmcg_openpgp_pkalgo_t)pka, (tmcg_openpgp_hashalgo_t)ha, sigtime, exp, policy, issuer, hashed); break;
	case 3: type = 0x20; PGP::PacketSigPrepareRevocationSignature((tmcg_openpgp_signature_t)type, (tmcg_openpgp_pkalgo_t)pka, (tmcg_openpgp_hashalgo_t)ha, sigtime, (tmcg_openpgp_revcode_t)(gen().below(4)), "reason text", issuer, hashed); break;
	case 4: type = 0x10 + gen().below(4); PGP::PacketSigPrepareCertificationSignature((tmcg_openpgp_signature_t)type, (tmcg_openpgp_pkalgo_t)pka, (tmcg_openpgp_hashalgo_t)ha, sigtime, exp, policy, issuer, hashed); break;
	case 5: type = 0x1F; PGP::PacketSigPrepareDesignatedRevoker((tmcg_openpgp_pkalgo_t)pka, (tmcg_openpgp_hashalgo_t)ha, sigtime, flags, issuer, TMCG_OPENPGP_PKALGO_DSA, rnd_oct(20), gen().coin(), hashed); break;
	case 6: { type = 0x00; issuer = rnd_oct(32); PGP::PacketSigPrepareDetachedSignatureV5((tmcg_openpgp_signature_t)type, (tmcg_openpgp_pkalgo_t)pka, (tmcg_openpgp_hashalgo_t)ha, sigtime, exp, policy, issuer, hashed); break; }
	}
	Rec("sigprep").d(kind).b(S(hashed)).t(hashed.size() >= 6 && hashed[0] >= 4 && hashed[1] == type && hashed[2] == pka && hashed[3] == ha && (size_t)((hashed[4] << 8) + hashed[5]) + 6 == hashed.size() ? "ok" : "bad");
	gcry_mpi_t r = mpi_bits(100 + gen().below(2000)), s = mpi_bits(100 + gen().below(300));
	oct pkt;
	if (pka == TMCG_OPENPGP_PKALGO_RSA) { PGP::PacketSigEncode(hashed, left, r, pkt); Rec("pk_sig").b(S(hashed)).b(S(left)).t(hexz(r)).b(S(pkt)); }
	else { PGP::PacketSigEncode(hashed, left, r, s, pkt); Rec("pk_sig").b(S(hashed)).b(S(left)).t(hexz(r) + "," + hexz(s)).b(S(pkt)); }
	bodyext_case(pkt); pdec_case(pkt);
	Dec d(pkt);
	bool ok = d.tag == 2 && d.ctx.version == hashed[0] && d.ctx.type == type && d.ctx.pkalgo == pka && d.ctx.hashalgo == ha &&
		d.ctx.sigcreationtime == (uint32_t)sigtime && d.ctx.left[0] == left[0] && d.ctx.left[1] == left[1] && d.rest.empty() &&
		d.ctx.hspdlen == hashed.size() - 6 && !memcmp(d.ctx.hspd, hashed.data() + 6, hashed.size() - 6);
	if (ok && pka == TMCG_OPENPGP_PKALGO_RSA) ok = mpi_eq(d.ctx.md, r); else if (ok) ok = mpi_eq(d.ctx.r, r) && mpi_eq(d.ctx.s, s);
	if (ok && (kind == 0 || kind == 1)) ok = d.ctx.keyexpirationtime == (uint32_t)exp && d.ctx.keyflagslen == 1 && d.ctx.keyflags[0] == flags[0] && d.ctx.featureslen == 1 && (d.ctx.features[0] & 1);
	if (ok && (kind == 2 || kind == 4 || kind == 6)) ok = d.ctx.sigexpirationtime == (uint32_t)exp && std::string((const char*)d.ctx.policyuri) == policy;
	if (ok && kind != 6) { const unsigned char *kid = issuer.size() == 20 ? issuer.data() + 12 : issuer.data(); ok = !memcmp(d.ctx.issuer, kid, 8); }
	if (ok && kind != 6 && issuer.size() == 20) ok = d.ctx.issuerkeyversion == 4 && !memcmp(d.ctx.issuerfingerprint, issuer.data(), 20);
	if (ok && kind == 6) ok = d.ctx.issuerkeyversion == 5 && !memcmp(d.ctx.issuerfingerprint, issuer.data(), 32);
	if (!ok) PF("packet-roundtrip-signature-kind" + std::to_string(kind), "signature packet does not decode to the encoded fields");
	if (gpg && kind != 6 && (pka == TMCG_OPENPGP_PKALGO_RSA || pka == TMCG_OPENPGP_PKALGO_DSA)) {
		const unsigned char *kid = issuer.size() == 20 ? issuer.data() + 12 : issuer.data();
		char cls[8]; snprintf(cls, sizeof cls, "0x%02x", type); char dg[32]; snprintf(dg, sizeof dg, "begin of digest %02x %02x", left[0], left[1]);
		gpgcase("sig", pkt, { ":signature packet: algo " + std::to_string(pka) + ", keyid " + up(hexs(oct(kid, kid + 8))),
			"version 4, created " + std::to_string((uint32_t)sigtime) + ", md5len 0, sigclass " + cls, "digest algo " + std::to_string(ha) + ", " + dg,
			"data: [" + std::to_string(gcry_mpi_get_nbits(r)) + " bits]" });
	}
	gcry_mpi_release(r); gcry_mpi_release(s);
	g_cases += 2;
}
static void pk_pub(bool gpg) {
	static const int ALG[] = { 1, 2, 3, 16, 17, 17, 1, 21 };
	int algo = ALG[gen().below(8)]; time_t kt = 1 + gen().below(0xFFFFFFFEUL);
	gcry_mpi_t p = mpi_bits(512 + gen().below(1600)), q = mpi_bits(17 + gen().below(240)), g = mpi_bits(2 + gen().below(1000)), y = mpi_bits(100 + gen().below(1900));
	for (int sub = 0; sub < 2; sub++) for (int v5 = 0; v5 < 2; v5++) {
		oct pkt;
		if (!sub && !v5) PGP::PacketPubEncode(kt, (tmcg_openpgp_pkalgo_t)algo, p, q, g, y, pkt);
		if (!sub && v5) PGP::PacketPubEncodeV5(kt, (tmcg_openpgp_pkalgo_t)algo, p, q, g, y, pkt);
		if (sub && !v5) PGP::PacketSubEncode(kt, (tmcg_openpgp_pkalgo_t)algo, p, q, g, y, pkt);
		if (sub && v5) PGP::PacketSubEncodeV5(kt, (tmcg_openpgp_pkalgo_t)algo, p, q, g, y, pkt);
		if (!v5) { Rec("pk_pub").d(sub ? 14 : 6).u(kt).u(algo).t(hexz(p)).t(hexz(q)).t(hexz(g)).t(hexz(y)).t(pkt.empty() ? std::string("none") : xb(S(pkt))); }
		if (pkt.empty()) { if (algo != 21) propfail("packet-pub-empty", "public key encoder emitted nothing for algo " + std::to_string(algo)); continue; }
		bodyext_case(pkt); pdec_case(pkt);
		Dec d(pkt);
		bool ok = d.tag == (sub ? 14 : 6) && d.ctx.version == (v5 ? 5 : 4) && d.ctx.keycreationtime == (uint32_t)kt && d.ctx.pkalgo == algo && d.rest.empty();
		if (ok && algo <= 3) ok = mpi_eq(d.ctx.n, p) && mpi_eq(d.ctx.e, q);
		if (ok && algo == 16) ok = mpi_eq(d.ctx.p, p) && mpi_eq(d.ctx.g, g) && mpi_eq(d.ctx.y, y);
		if (ok && algo == 17) ok = mpi_eq(d.ctx.p, p) && mpi_eq(d.ctx.q, q) && mpi_eq(d.ctx.g, g) && mpi_eq(d.ctx.y, y);
		if (!ok) PF(std::string("packet-roundtrip-") + (sub ? "subkey" : "pubkey") + (v5 ? "-v5" : "-v4"), "public key packet (algo " + std::to_string(algo) + ") does not decode to the encoded fields");
		if (gpg && !v5) {
			std::vector<std::string> ex = { sub ? ":public sub key packet:" : ":public key packet:", "version 4, algo " + std::to_string(algo) + ", created " + std::to_string((uint32_t)kt) + ", expires 0",
				"pkey[0]: [" + std::to_string(gcry_mpi_get_nbits(p)) + " bits]" };
			if (algo <= 3) ex.push_back("pkey[1]: [" + std::to_string(gcry_mpi_get_nbits(q)) + " bits]");
			if (algo == 16) { ex.push_back("pkey[1]: [" + std::to_string(gcry_mpi_get_nbits(g)) + " bits]"); ex.push_back("pkey[2]: [" + std::to_string(gcry_mpi_get_nbits(y)) + " bits]"); }
			if (algo == 17) { ex.push_back("pkey[1]: [" + std::to_string(gcry_mpi_get_nbits(q)) + " bits]"); ex.push_back("pkey[3]: [" + std::to_string(gcry_mpi_get_nbits(y)) + " bits]"); }
			// gpg prints the key id = low 64 bits of SHA-1(0x99 || len || body): an independent judge of the fingerprint framing
			oct body(pkt.begin() + (pkt.size() - 1 < 192 + 1 ? 2 : 3), pkt.end()); oct kid; PGP::KeyidCompute(body, kid);
			ex.push_back("keyid: " + up(hexs(kid)));
			gpgcase("pub", pkt, ex);
		}
		g_cases++;
	}
	// elliptic-curve keys: implementation-level round trip for every curve in the OID table
	for (size_t idx = 0; tmcg_openpgp_oidtable[idx].name != NULL; idx++) {
		const tmcg_openpgp_byte_t *oid = tmcg_openpgp_oidtable[idx].oid;
		std::string name = tmcg_openpgp_oidtable[idx].name;
		int ealg = (name == "Ed25519") ? TMCG_OPENPGP_PKALGO_EDDSA : ((name == "Curve25519") ? TMCG_OPENPGP_PKALGO_ECDH : (gen().coin() ? TMCG_OPENPGP_PKALGO_ECDSA : TMCG_OPENPGP_PKALGO_ECDH));
		gcry_mpi_t pt = mpi_bits(263 + 8 * gen().below(30));
		for (int sub = 0; sub < 2; sub++) for (int v5 = 0; v5 < 2; v5++) {
			oct pkt; int kh = TMCG_OPENPGP_HASHALGO_SHA256 + gen().below(3), ks = TMCG_OPENPGP_SKALGO_AES128 + gen().below(3);
			if (!sub && !v5) PGP::PacketPubEncode(kt, (tmcg_openpgp_pkalgo_t)ealg, oid[0], oid + 1, pt, (tmcg_openpgp_hashalgo_t)kh, (tmcg_openpgp_skalgo_t)ks, pkt);
			if (!sub && v5) PGP::PacketPubEncodeV5(kt, (tmcg_openpgp_pkalgo_t)ealg, oid[0], oid + 1, pt, (tmcg_openpgp_hashalgo_t)kh, (tmcg_openpgp_skalgo_t)ks, pkt);
			if (sub && !v5) PGP::PacketSubEncode(kt, (tmcg_openpgp_pkalgo_t)ealg, oid[0], oid + 1, pt, (tmcg_openpgp_hashalgo_t)kh, (tmcg_openpgp_skalgo_t)ks, pkt);
			if (sub && v5) PGP::PacketSubEncodeV5(kt, (tmcg_openpgp_pkalgo_t)ealg, oid[0], oid + 1, pt, (tmcg_openpgp_hashalgo_t)kh, (tmcg_openpgp_skalgo_t)ks, pkt);
			if (pkt.empty()) { propfail("packet-pub-empty", "EC public key encoder emitted nothing for " + name); continue; }
			bodyext_case(pkt); pdec_case(pkt);
			Dec d(pkt);
			bool ok = d.tag == (sub ? 14 : 6) && d.ctx.version == (v5 ? 5 : 4) && d.ctx.keycreationtime == (uint32_t)kt && d.ctx.pkalgo == ealg && d.rest.empty() &&
				d.ctx.curveoidlen == oid[0] && !memcmp(d.ctx.curveoid, oid + 1, oid[0]) && mpi_eq(d.ctx.ecpk, pt);
			if (ok && ealg == TMCG_OPENPGP_PKALGO_ECDH) ok = d.ctx.kdf_hashalgo == kh && d.ctx.kdf_skalgo == ks;
			if (!ok) PF(std::string("packet-roundtrip-ec") + (sub ? "subkey" : "pubkey") + (v5 ? "-v5" : "-v4"), "EC public key packet (" + name + ", algo " + std::to_string(ealg) + ") does not decode to the encoded fields");
			g_cases++;
		}
		gcry_mpi_release(pt);
	}
	gcry_mpi_release(p); gcry_mpi_release(q); gcry_mpi_release(g); gcry_mpi_release(y);
}
// secret keys: unprotected and passphrase-protected (S2K specifier + IV + encrypted MPIs)
static void pk_sec() {
	time_t kt = 1 + gen().below(0xFFFFFFFEUL);
	static const int ALG[] = { 1, 16, 17 };
	int algo = ALG[gen().below(3)];
	gcry_mpi_t p = mpi_bits(512 + gen().below(600)), q = mpi_bits(160 + gen().below(97)), g = mpi_bits(2 + gen().below(500)), y = mpi_bits(100 + gen().below(900)), x = mpi_bits(100 + gen().below(150));
	for (int sub = 0; sub < 2; sub++) for (int prot = 0; prot < 2; prot++) {
		tmcg_openpgp_secure_string_t pw; if (prot) pw = "correct horse";
		oct pkt;
		// RSA secret keys take (n, e, d) through the (p, q, g/y/x) slots differently; use the DSA/ElGamal layout only
		if (algo == 1) continue;
		if (!sub) PGP::PacketSecEncode(kt, (tmcg_openpgp_pkalgo_t)algo, p, q, g, y, x, pw, pkt);
		else PGP::PacketSsbEncode(kt, (tmcg_openpgp_pkalgo_t)algo, p, q, g, y, x, pw, pkt);
		if (pkt.empty()) { propfail("packet-sec-empty", "secret key encoder emitted nothing for algo " + std::to_string(algo)); continue; }
		bodyext_case(pkt);
		Dec d(pkt);
		bool ok = d.tag == (sub ? 7 : 5) && d.ctx.version == 4 && d.ctx.keycreationtime == (uint32_t)kt && d.ctx.pkalgo == algo && d.rest.empty();
		if (ok && algo == 16) ok = mpi_eq(d.ctx.p, p) && mpi_eq(d.ctx.g, g) && mpi_eq(d.ctx.y, y);
		if (ok && algo == 17) ok = mpi_eq(d.ctx.p, p) && mpi_eq(d.ctx.q, q) && mpi_eq(d.ctx.g, g) && mpi_eq(d.ctx.y, y);
		if (ok && !prot) ok = d.ctx.s2kconv == 0 && mpi_eq(d.ctx.x, x);
		if (ok && prot) ok = d.ctx.s2kconv == 254 && d.ctx.s2k_type == TMCG_OPENPGP_STRINGTOKEY_ITERATED && d.ctx.encdatalen > 0;
		if (!ok) PF(std::string("packet-roundtrip-") + (sub ? "secsubkey" : "seckey") + (prot ? "-protected" : "-plain"), "secret key packet (algo " + std::to_string(algo) + ") does not decode to the encoded fields");
		g_cases++;
	}
	gcry_mpi_release(p); gcry_mpi_release(q); gcry_mpi_release(g); gcry_mpi_release(y); gcry_mpi_release(x);
}


// ============================================================================================================
// every PacketSigPrepare* overload across the octet boundaries of its parameters: octets vs the model, re-decoding
// ============================================================================================================
static std::string nota_tok(const tmcg_openpgp_notations_t &n) {
	if (n.empty()) return "_"; std::string r;
	for (size_t i = 0; i < n.size(); i++) { if (i) r += ","; r += xb(S(n[i].first)).substr(1) + ";" + xb(S(n[i].second)).substr(1); }
	return r;
}
static oct txt_oct(size_t n) { oct r(n); for (size_t i = 0; i < n; i++) r[i] = 'a' + (unsigned char)gen().below(26); return r; }
static void prep_case(const char *kind, int type, int pk, int h, uint32_t st, uint32_t t2, const oct &flags, const oct &issuer, const oct &s1, const oct &s2,
                      unsigned n1, unsigned n2, bool bis, const tmcg_openpgp_notations_t &nota, const oct &out) {
	Rec("prep").t(kind).u(type).u(pk).u(h).u(st).u(t2).b(S(flags)).b(S(issuer)).b(S(s1)).b(S(s2)).u(n1).u(n2).d(bis).t(nota_tok(nota)).b(S(out));
	g_cases++;
	// the prepared part inside a signature packet must be readable by the library itself (its context buffers hold 2047 octets per string)
	bool fits = out.size() < 65536 + 6 && s1.size() < 2048; for (auto &n : nota) if (n.first.size() >= 2048 || n.second.size() >= 2048) fits = false;
	if (std::string(kind) == "revocation" && s1.size() >= 2047) fits = false;
	if (!fits || out.size() < 6) return;
	gcry_mpi_t r = mpi_bits(200), s = mpi_bits(200); oct pkt, left = rnd_oct(2);
	if (pk == TMCG_OPENPGP_PKALGO_RSA) PGP::PacketSigEncode(out, left, r, pkt); else PGP::PacketSigEncode(out, left, r, s, pkt);
	gcry_mpi_release(r); gcry_mpi_release(s);
	pdec_case(pkt);
	Dec d(pkt);
	std::string ctx = std::string(kind) + " policy/reason " + std::to_string(s1.size()) + " octets, " + std::to_string(nota.size()) + " notations";
	if (d.tag != 2) { propfail(std::string("prepare-redecode-") + kind, "signature packet built from PacketSigPrepare (" + ctx + ") is refused by PacketDecode (" + std::to_string((int)d.tag) + ") hashed=" + xb(S(out).substr(0, 600))); return; }
	bool ok = d.ctx.type == type && d.ctx.pkalgo == pk && d.ctx.hashalgo == h && d.ctx.sigcreationtime == st && d.ctx.hspdlen == out.size() - 6 && !memcmp(d.ctx.hspd, out.data() + 6, out.size() - 6);
	size_t named = 0; for (auto &n : nota) if (!n.first.empty()) named++;
	if (ok && d.nota.size() != named) ok = false;
	if (ok) { size_t k = 0; for (auto &n : nota) { if (n.first.empty()) continue; if (d.nota[k].first != n.first || d.nota[k].second != n.second) ok = false; k++; } }
	std::string k2 = kind;
	if (ok && (k2 == "detached" || k2 == "detached5" || k2 == "certification" || k2 == "ts_hash" || k2 == "ts_sig" || k2 == "attest")) ok = std::string((const char*)d.ctx.policyuri) == S(s1);
	if (ok && k2 == "revocation") ok = d.ctx.revocationcode == n1 && std::string((const char*)d.ctx.revocationreason) == S(s1);
	if (ok && (k2 == "detached" || k2 == "detached5" || k2 == "certification")) ok = d.ctx.sigexpirationtime == t2;
	if (ok && k2 == "self") ok = d.ctx.keyexpirationtime == t2 && d.ctx.keyflagslen == flags.size() && !memcmp(d.ctx.keyflags, flags.data(), flags.size());
	if (!ok) propfail(std::string("prepare-redecode-") + kind, "signature packet built from PacketSigPrepare (" + ctx + ") does not decode to the given parameters, hashed=" + xb(S(out).substr(0, 600)));
}
static bool TT = false;
static void prep_sweep() {
	static const size_t SL[] = { 0, 1, 2, 190, 191, 255, 256, 257, 2046, 2047, 2048, 8190, 65535 };
	static const int PK[] = { TMCG_OPENPGP_PKALGO_RSA, TMCG_OPENPGP_PKALGO_DSA, TMCG_OPENPGP_PKALGO_ECDSA, TMCG_OPENPGP_PKALGO_EDDSA };
	const size_t NS = TT ? 13 : 11;
	auto issuer_of = [&](unsigned i) { static const size_t IL[] = { 8, 20, 0, 32, 7 }; return rnd_oct(IL[i % 5]); };
	auto notations = [&](unsigned variant, size_t big) {
		tmcg_openpgp_notations_t n;
		switch (variant % 6) {
		case 0: break;
		case 1: n.push_back(std::make_pair(txt_oct(5), txt_oct(big))); break;                      // long value
		case 2: n.push_back(std::make_pair(txt_oct(big % 2048 == 0 ? 1 : big % 2048), txt_oct(3))); break;   // long name
		case 3: for (int i = 0; i < 12; i++) n.push_back(std::make_pair(txt_oct(1 + gen().below(20)), txt_oct(gen().below(40)))); break;   // many
		case 4: n.push_back(std::make_pair(txt_oct(255), txt_oct(256))); n.push_back(std::make_pair(txt_oct(256), txt_oct(255))); n.push_back(std::make_pair(txt_oct(257), txt_oct(257))); break;
		case 5: n.push_back(std::make_pair(txt_oct(300), txt_oct(big > 300 ? big - 300 : 0))); break;
		}
		return n; };
	unsigned cnt = 0;
	for (size_t li = 0; li < NS; li++) for (int rep = 0; rep < 2; rep++, cnt++) {
		size_t L = SL[li]; int pk = PK[cnt % 4], h = 8 + cnt % 3; uint32_t st = 1 + gen().below(0xFFFFFFFEUL), t2 = (cnt % 3) ? 1 + gen().below(1UL << 30) : 0;
		oct policy = txt_oct(L), issuer = issuer_of(cnt), flags = rnd_oct(cnt % 4 == 3 ? 0 : 1 + cnt % 3); bool bis = cnt & 1;
		{ oct o; int ty = 0x10 + cnt % 4; if (cnt % 5 == 0) ty = 0x18;
		  PGP::PacketSigPrepareSelfSignature((tmcg_openpgp_signature_t)ty, (tmcg_openpgp_pkalgo_t)pk, (tmcg_openpgp_hashalgo_t)h, st, t2, flags, issuer, bis, o);
		  prep_case("self", ty, pk, h, st, t2, flags, issuer, oct(), oct(), 0, 0, bis, tmcg_openpgp_notations_t(), o);
		  if (rep == 0) { oct o2; PGP::PacketSigPrepareSelfSignature((tmcg_openpgp_signature_t)ty, (tmcg_openpgp_hashalgo_t)h, st, t2, flags, issuer, o2);
			prep_case("self", ty, TMCG_OPENPGP_PKALGO_DSA, h, st, t2, flags, issuer, oct(), oct(), 0, 0, true, tmcg_openpgp_notations_t(), o2); } }
		{ oct o, revoker = (cnt % 3 == 2) ? oct() : rnd_oct(20); int pk2 = PK[(cnt + 1) % 4];
		  PGP::PacketSigPrepareDesignatedRevoker((tmcg_openpgp_pkalgo_t)pk, (tmcg_openpgp_hashalgo_t)h, st, flags, issuer, (tmcg_openpgp_pkalgo_t)pk2, revoker, bis, o);
		  prep_case("revoker", 0x1F, pk, h, st, 0, flags, issuer, oct(), revoker, pk2, 0, bis, tmcg_openpgp_notations_t(), o);
		  if (rep == 0) { oct o2; PGP::PacketSigPrepareDesignatedRevoker((tmcg_openpgp_hashalgo_t)h, st, flags, issuer, (tmcg_openpgp_pkalgo_t)pk2, revoker, o2);
			prep_case("revoker", 0x1F, TMCG_OPENPGP_PKALGO_DSA, h, st, 0, flags, issuer, oct(), revoker, pk2, 0, true, tmcg_openpgp_notations_t(), o2); } }
		{ oct o; int ty = cnt % 2; PGP::PacketSigPrepareDetachedSignature((tmcg_openpgp_signature_t)ty, (tmcg_openpgp_pkalgo_t)pk, (tmcg_openpgp_hashalgo_t)h, st, t2, S(policy), issuer, o);
		  prep_case("detached", ty, pk, h, st, t2, oct(), issuer, policy, oct(), 0, 0, false, tmcg_openpgp_notations_t(), o);
		  if (rep == 0) { oct o2; PGP::PacketSigPrepareDetachedSignature((tmcg_openpgp_signature_t)ty, (tmcg_openpgp_hashalgo_t)h, st, t2, S(policy), issuer, o2);
			prep_case("detached", ty, TMCG_OPENPGP_PKALGO_DSA, h, st, t2, oct(), issuer, policy, oct(), 0, 0, false, tmcg_openpgp_notations_t(), o2); } }
		{ oct o, fpr = rnd_oct(cnt % 3 == 0 ? 20 : (cnt % 3 == 1 ? 32 : 8)); int ty = cnt % 2;
		  PGP::PacketSigPrepareDetachedSignatureV5((tmcg_openpgp_signature_t)ty, (tmcg_openpgp_pkalgo_t)pk, (tmcg_openpgp_hashalgo_t)h, st, t2, S(policy), fpr, o);
		  prep_case("detached5", ty, pk, h, st, t2, oct(), fpr, policy, oct(), 0, 0, false, tmcg_openpgp_notations_t(), o);
		  if (rep == 0) { oct o2; PGP::PacketSigPrepareDetachedSignatureV5((tmcg_openpgp_signature_t)ty, (tmcg_openpgp_hashalgo_t)h, st, t2, S(policy), fpr, o2);
			prep_case("detached5", ty, TMCG_OPENPGP_PKALGO_DSA, h, st, t2, oct(), fpr, policy, oct(), 0, 0, false, tmcg_openpgp_notations_t(), o2); } }
		{ oct o; static const int RT[] = { 0x20, 0x28, 0x30 }; int ty = RT[cnt % 3]; unsigned rc = cnt % 4;
		  PGP::PacketSigPrepareRevocationSignature((tmcg_openpgp_signature_t)ty, (tmcg_openpgp_pkalgo_t)pk, (tmcg_openpgp_hashalgo_t)h, st, (tmcg_openpgp_revcode_t)rc, S(policy), issuer, o);
		  prep_case("revocation", ty, pk, h, st, 0, oct(), issuer, policy, oct(), rc, 0, false, tmcg_openpgp_notations_t(), o);
		  if (rep == 0) { oct o2; PGP::PacketSigPrepareRevocationSignature((tmcg_openpgp_signature_t)ty, (tmcg_openpgp_hashalgo_t)h, st, (tmcg_openpgp_revcode_t)rc, S(policy), issuer, o2);
			prep_case("revocation", ty, TMCG_OPENPGP_PKALGO_DSA, h, st, 0, oct(), issuer, policy, oct(), rc, 0, false, tmcg_openpgp_notations_t(), o2); } }
		{ oct o; int ty = 0x10 + cnt % 4;
		  PGP::PacketSigPrepareCertificationSignature((tmcg_openpgp_signature_t)ty, (tmcg_openpgp_pkalgo_t)pk, (tmcg_openpgp_hashalgo_t)h, st, t2, S(policy), issuer, o);
		  prep_case("certification", ty, pk, h, st, t2, oct(), issuer, policy, oct(), 0, 0, false, tmcg_openpgp_notations_t(), o);
		  if (rep == 0) { oct o2; PGP::PacketSigPrepareCertificationSignature((tmcg_openpgp_signature_t)ty, (tmcg_openpgp_hashalgo_t)h, st, t2, S(policy), issuer, o2);
			prep_case("certification", ty, TMCG_OPENPGP_PKALGO_DSA, h, st, t2, oct(), issuer, policy, oct(), 0, 0, false, tmcg_openpgp_notations_t(), o2); } }
		// the three overloads with notations: notation name / value lengths across 255/256/257 and 2047/2048, many notations, with and without policy
		for (unsigned nv = 0; nv < 6; nv++) {
			tmcg_openpgp_notations_t nota = notations(nv + cnt, L); oct pol = (nv % 2) ? oct() : txt_oct(L % 300);
			{ oct o, th = rnd_oct(32); int tpk = PK[(cnt + 2) % 4], thh = 8 + (cnt + 1) % 3;
			  PGP::PacketSigPrepareTimestampSignature((tmcg_openpgp_pkalgo_t)pk, (tmcg_openpgp_hashalgo_t)h, st, S(pol), issuer, (tmcg_openpgp_pkalgo_t)tpk, (tmcg_openpgp_hashalgo_t)thh, th, nota, o);
			  prep_case("ts_hash", 0x40, pk, h, st, 0, oct(), issuer, pol, th, tpk, thh, false, nota, o); }
			{ oct o, tsig = rnd_oct(20 + gen().below(200));
			  PGP::PacketSigPrepareTimestampSignature((tmcg_openpgp_pkalgo_t)pk, (tmcg_openpgp_hashalgo_t)h, st, S(pol), issuer, tsig, nota, o);
			  Rec("prep").t("ts_sig").u(0x40).u(pk).u(h).u(st).u(0).b("").b(S(issuer)).b(S(pol)).b(S(tsig)).u(0).u(0).d(0).t(nota_tok(nota)).b(S(o)); g_cases++; }   // the embedded signature is random: octets only
			{ oct o, att = rnd_oct(32 * (cnt % 4));
			  PGP::PacketSigPrepareAttestationSignature((tmcg_openpgp_pkalgo_t)pk, (tmcg_openpgp_hashalgo_t)h, st, S(pol), issuer, att, nota, o);
			  prep_case("attest", 0x16, pk, h, st, 0, oct(), issuer, pol, att, 0, 0, false, nota, o); }
		}
	}
}

// ============================================================================================================
int main(int argc, char **argv) {
	Args args(argc, argv);
	bool T = args.thorough(); TT = T;
	gcry_check_version(NULL);
	gcry_control(GCRYCTL_DISABLE_SECMEM, 0);
	gcry_control(GCRYCTL_INITIALIZATION_FINISHED, 0);
	std::string part = args.only;   // run one part only (used by the check to spread the work over processes)
	auto on = [&](const char *p) { return part.empty() || part == p; };

	if (on("r64")) {
		// all octet strings of length <= 1 always; length 2: all (thorough) or a sample; lengths around the wrap boundaries
		r64_case(oct());
		for (unsigned a = 0; a < 256; a++) { oct o; o.push_back(a); r64_case(o); }
		if (T) { for (unsigned a = 0; a < 256; a++) for (unsigned b = 0; b < 256; b++) { oct o; o.push_back(a); o.push_back(b); r64_case(o); } }
		else for (int k = 0; k < 1500; k++) r64_case(rnd_oct(2));
		for (size_t n = 3; n <= (T ? 300u : 200u); n++) { r64_case(rnd_oct(n)); if (T || (n % 48) <= 2 || (n % 48) >= 46) r64_case(rnd_oct_biased(n)); }
		static const size_t BIG[] = { 1000, 4095, 4096, 4097, 12287, 12288, 12289, 65535, 65536, 65537 };
		for (size_t i = 0; i < (T ? 10u : 4u); i++) r64_case(rnd_oct(BIG[i]));
		for (int k = 0; k < (T ? 300 : 60); k++) r64_case(rnd_oct(gen().below(T ? 3000 : 600)));
		// decoder on texts that are not encoder output
		for (unsigned c = 0; c < 256; c++) { r64dec_case(std::string(1, (char)c)); r64dec_case(std::string("QUJD") + (char)c + "RA=="); r64dec_case(std::string("QQ") + (char)c); }
		for (int k = 0; k < (T ? 6000 : 1200); k++) {
			std::string t; PGP::Radix64Encode(rnd_oct(gen().below(120)), t, gen().coin());
			r64dec_case(mutate_text(t));
		}
		for (int k = 0; k < (T ? 2000 : 300); k++) r64dec_case(S(rnd_oct(gen().below(40))));
	}
	if (on("crc")) {
		crc_case(oct());
		for (unsigned a = 0; a < 256; a++) { oct o; o.push_back(a); crc_case(o); }
		for (int k = 0; k < (T ? 3000 : 500); k++) crc_case(rnd_oct_biased(gen().below(T ? 600 : 200)));
		// single-bit errors always change the checksum (implementation level)
		for (int k = 0; k < (T ? 400 : 80); k++) {
			oct a = rnd_oct(1 + gen().below(300)), c1, c2; oct b = a; size_t pos = gen().below(a.size()); b[pos] ^= (unsigned char)(1u << gen().below(8));
			PGP::CRC24Compute(a, c1); PGP::CRC24Compute(b, c2);
			if (c1 == c2) propfail("crc24-single-bit", "single-bit error not detected: " + xb(S(a)) + " bit in octet " + hx(pos));
		}
	}
	if (on("armor")) {
		for (int ti = 0; ti < 4; ti++) {
			armor_case(ARM_TYPES[ti], oct(), "", false, false);
			for (size_t n = 1; n <= (T ? 150u : 100u); n++)
				if (T || n <= 6 || (n % 48) <= 2 || (n % 48) >= 46 || gen().below(8) == 0) armor_case(ARM_TYPES[ti], rnd_oct_biased(n), "", false, n < 4 || (n % 48) <= 1 || (n % 48) == 47);
			for (int k = 0; k < (T ? 60 : 12); k++) armor_case(ARM_TYPES[ti], rnd_oct(1 + gen().below(T ? 5000 : 1200)), gen().coin() ? "" : "a comment: with text", gen().coin(), k < 3);
			armor_case(ARM_TYPES[ti], rnd_oct(20), "two\nlines", false, false);
			armor_case(ARM_TYPES[ti], rnd_oct(20), "-----x", true, false);
		}
		static const int OTHER[] = { 0, 3, 4, 200 };
		for (int ti = 0; ti < 4; ti++) armor_case(OTHER[ti], rnd_oct(30), "", false, false);
		// ARMORED FILE blocks (decoder only) and texts without any block
		for (int k = 0; k < (T ? 40 : 10); k++) {
			oct d = rnd_oct(1 + gen().below(100)); std::string r, c; PGP::Radix64Encode(d, r); PGP::CRC24Encode(d, c);
			std::string a = "-----BEGIN PGP ARMORED FILE-----\r\n" + std::string(gen().coin() ? "Comment: x\r\n" : "") + "\r\n" + r + "\r\n" + c + "\r\n-----END PGP ARMORED FILE-----\r\n";
			oct b; tmcg_openpgp_armor_t t = PGP::ArmorDecode(a, b);
			Rec("armdec").b(a).t(t == 0 ? std::string("0") : std::to_string((int)t) + ":" + xb(S(b)));
			if ((int)t != 200 || b != d) propfail("armor-file-roundtrip", "ARMORED FILE block not decoded: " + xb(a));
			std::string nl = a; nl.erase(std::remove(nl.begin(), nl.end(), '\r'), nl.end());   // LF-only line ends
			oct b2; t = PGP::ArmorDecode(nl, b2);
			Rec("armdec").b(nl).t(t == 0 ? std::string("0") : std::to_string((int)t) + ":" + xb(S(b2)));
			if ((int)t != 200 || b2 != d) propfail("armor-lf-roundtrip", "LF-only armor not decoded: " + xb(nl));
		}
		for (int k = 0; k < (T ? 200 : 40); k++) { std::string t = S(rnd_oct(gen().below(80))); oct b; tmcg_openpgp_armor_t ty = PGP::ArmorDecode(t, b);
			Rec("armdec").b(t).t(ty == 0 ? std::string("0") : std::to_string((int)ty) + ":" + xb(S(b))); }
	}
	if (on("len")) {
		// designed regression set: every boundary of RFC 4880 4.2.2 (191/192, 8383/8384), 2^16 and 2^32-1 is in BOTH tiers
		// (e.g. the two-octet bound `len < 8384` -> `len <= 8384` would emit 8384 as E0 00, a partial length header)
		static const size_t B[] = { 0, 1, 2, 100, 189, 190, 191, 192, 193, 194, 255, 256, 257, 447, 448, 449, 8381, 8382, 8383, 8384, 8385, 8386, 16383, 16384, 65534, 65535, 65536, 65537,
			(1UL << 24) - 1, 1UL << 24, (1UL << 31) - 1, 1UL << 31, (1UL << 32) - 2, (1UL << 32) - 1, 1UL << 32, (1UL << 32) + 191, (1UL << 40) + 8383 };
		for (size_t i = 0; i < sizeof(B) / sizeof(B[0]); i++) lenenc_case(B[i]);
		for (size_t n = 0; n < (T ? 9000u : 600u); n++) lenenc_case(n);
		if (!T) for (size_t n = 8300; n < 8460; n++) lenenc_case(n);
		for (int k = 0; k < (T ? 3000 : 400); k++) lenenc_case(gen().next() >> (32 + gen().below(32)));
		// decoder: every first octet x continuation x truncation x format
		for (unsigned a = 0; a < 256; a++) for (int nf = 0; nf < 2; nf++) for (unsigned lt = 0; lt < (nf ? 1u : 5u); lt++) {
			for (size_t n = 1; n <= 6; n++) { oct in = rnd_oct(n); in[0] = a; if (gen().coin()) for (size_t i = 1; i < n; i++) in[i] = gen().coin() ? 0xFF : 0x80; lendec_case(in, nf, lt == 4 ? 0xFF : lt); }
		}
		lendec_case(oct(), true, 0); lendec_case(oct(), false, 3);
		// body extraction: definite, partial chains, old format, truncated
		for (int k = 0; k < (T ? 3000 : 500); k++) {
			oct pkt; unsigned tag = gen().below(64); unsigned form = gen().below(8);
			if (form <= 2) {   // new format, definite
				oct body = rnd_oct(gen().below(4) ? gen().below(300) : 8300 + gen().below(200));
				PGP::PacketTagEncode(tag, pkt); PGP::PacketLengthEncode(body.size(), pkt); pkt.insert(pkt.end(), body.begin(), body.end());
			} else if (form <= 4) {   // partial chain
				static const unsigned DT[] = { 8, 9, 11, 18, 11, 2, 13 };
				tag = DT[gen().below(7)]; pkt.push_back(0xC0 | tag);
				unsigned parts = 1 + gen().below(3);
				for (unsigned i = 0; i < parts; i++) { unsigned e = (i == 0 && gen().below(4)) ? 9 + gen().below(2) : gen().below(11); pkt.push_back(224 + e); oct ch = rnd_oct(1UL << e); pkt.insert(pkt.end(), ch.begin(), ch.end()); }
				oct last = rnd_oct(gen().below(250)); PGP::PacketLengthEncode(last.size(), pkt); pkt.insert(pkt.end(), last.begin(), last.end());
			} else if (form <= 6) {   // old format
				unsigned lt = gen().below(4); tag = gen().below(16); pkt.push_back(0x80 | (tag << 2) | lt);
				oct body = rnd_oct(gen().below(300));
				if (lt == 0) { body.resize(body.size() % 256); pkt.push_back(body.size()); }
				if (lt == 1) { pkt.push_back(body.size() >> 8); pkt.push_back(body.size() & 0xFF); }
				if (lt == 2) { pkt.push_back(0); pkt.push_back(0); pkt.push_back(body.size() >> 8); pkt.push_back(body.size() & 0xFF); }
				pkt.insert(pkt.end(), body.begin(), body.end());
			} else pkt = rnd_oct(gen().below(12));
			if (gen().below(3) == 0 && !pkt.empty()) { if (gen().coin()) pkt.resize(gen().below(pkt.size())); else { oct tr = rnd_oct(1 + gen().below(5)); pkt.insert(pkt.end(), tr.begin(), tr.end()); } }
			bodyext_case(pkt);
		}
	}
	if (on("mpi")) {
		gcry_mpi_t z = gcry_mpi_new(8); gcry_mpi_set_ui(z, 0); mpi_case(z); gcry_mpi_release(z);
		for (unsigned b = 1; b <= (T ? 600u : 130u); b++) { gcry_mpi_t m = mpi_bits(b); mpi_case(m); gcry_mpi_release(m); }
		static const unsigned BB[] = { 255, 256, 257, 1023, 1024, 1025, 2047, 2048, 2049, 4095, 4096, 4097, 8191, 8192, 16383, 16384 };
		for (size_t i = 0; i < (T ? 16u : 9u); i++) { gcry_mpi_t m = mpi_bits(BB[i]); mpi_case(m); gcry_mpi_release(m); }
		for (unsigned b = 1; b <= 64; b++) { gcry_mpi_t m = gcry_mpi_new(80); gcry_mpi_set_ui(m, 1); gcry_mpi_mul_2exp(m, m, b); if (gen().coin()) gcry_mpi_sub_ui(m, m, 1); mpi_case(m); gcry_mpi_release(m); }
		// decoder on arbitrary octets: leading zeros, bit count not matching, truncated
		for (int k = 0; k < (T ? 4000 : 700); k++) {
			oct in; unsigned bits = gen().below(6) ? gen().below(200) : gen().below(65536); in.push_back(bits >> 8); in.push_back(bits & 0xFF);
			size_t n = (bits + 7) / 8; long dl = (long)gen().below(5) - 2; size_t have = (size_t)std::max<long>(0, (long)n + (gen().below(3) ? 0 : dl));
			if (have > 600) have = gen().coin() ? have : 600;
			oct body = rnd_oct_biased(have); in.insert(in.end(), body.begin(), body.end());
			if (gen().below(20) == 0) in.resize(gen().below(3));
			mpidec_case(in);
		}
		for (size_t n = 0; n <= (T ? 400u : 200u); n++) str_case(S(rnd_oct(n)));
		static const size_t SL[] = { 8382, 8383, 8384, 8385, 65535, 65536 };
		for (size_t i = 0; i < (T ? 6u : 4u); i++) str_case(S(rnd_oct(SL[i])));
	}
	if (on("s2kcnt")) {
		for (unsigned c = 0; c < 256; c++) { Rec("s2kcnt").u(c).u(ref_count(c)); g_cases++; }
		for (unsigned c = 0; c < 48; c++) for (size_t nzp = 0; nzp < 3; nzp++) {
			std::string data = S(rnd_oct(8 + gen().below(nzp == 2 ? 2000 : 40)));
			std::string st = ref_stream(ref_count(c), nzp, data);
			oct crc; PGP::CRC24Compute(O(st), crc);
			Rec("s2kstream").u(ref_count(c)).d(nzp).b(data).t(hx(st.size()) + ":" + xb(S(crc)));
			g_cases++;
		}
		for (int k = 0; k < 20; k++) { std::string data = S(rnd_oct(8 + gen().below(60))); size_t nzp = gen().below(4);
			std::string st = ref_stream(0, nzp, data); oct crc; PGP::CRC24Compute(O(st), crc);
			Rec("s2kstream").u(0).d(nzp).b(data).t(hx(st.size()) + ":" + xb(S(crc))); g_cases++; }
	}
	// S2K against the reference for a slice of the 256 count octets (the check spreads slices over processes)
	if (part.rfind("s2k:", 0) == 0) {
		unsigned lo = 0, hi = 0; sscanf(part.c_str() + 4, "%u-%u", &lo, &hi);
		for (unsigned c = lo; c <= hi && c < 256; c++) {
			int h = S2K_HASHES[(c + args.seed) % 6]; size_t sk = (c % 3 == 0) ? 16 : ((c % 3 == 1) ? 24 : 32);
			std::string pw = S(rnd_oct(gen().below(30))); for (auto &ch : pw) if (!ch) ch = 'x';
			s2k_case(h, sk, pw, rnd_oct(8), true, c, c < 160 || T);
		}
	}
	if (on("s2k")) {
		// all hash algorithms x key lengths x salted / iterated with small counts; passphrase lengths incl. empty and > count
		for (size_t hi = 0; hi < 6; hi++) for (size_t sk : { (size_t)16, (size_t)24, (size_t)32, (size_t)1, (size_t)64, (size_t)65 }) for (int iter = 0; iter < 2; iter++) {
			std::string pw = S(rnd_oct(gen().below(4) ? gen().below(40) : 1100 + gen().below(1000))); for (auto &ch : pw) if (!ch) ch = 'x';
			if (gen().below(10) == 0) pw = "";
			s2k_case(S2K_HASHES[hi], sk, pw, rnd_oct(8), iter, gen().below(T ? 96 : 40), true);
		}
	}
	if (on("s2k")) {
		// RFC 4880 3.7.1.3: "if the octet count is less than the size of the salt plus passphrase, the full salt plus passphrase
		// will be hashed even though that is greater than the octet count": passphrases at and above count - 8, every hash, both modes
		static const struct { unsigned c; size_t len; } LONG[] = { {0, 1015}, {0, 1016}, {0, 1017}, {0, 1100}, {0, 2500}, {1, 1081}, {16, 2040}, {16, 2041}, {16, 3000}, {40, 6200} };
		for (size_t hi = 0; hi < 6; hi++) for (size_t li = 0; li < (T ? 10u : 6u); li++) for (int iter = 0; iter < 2; iter++) {
			const auto &L = LONG[T ? li : (li * 3 + hi) % 10];
			std::string pw = S(rnd_oct(L.len)); for (auto &ch : pw) if (!ch) ch = 'y';
			s2k_case(S2K_HASHES[hi], (hi % 2) ? 32 : 16, pw, rnd_oct(8), iter, L.c, true);
		}
	}
	if (on("fpr")) {
		for (size_t n = 0; n <= (T ? 300u : 80u); n++) fpr_case(rnd_oct(n));
		static const size_t FL[] = { 255, 256, 257, 65535, 65536, 65537, 70000 };
		for (size_t i = 0; i < (T ? 7u : 5u); i++) fpr_case(rnd_oct(FL[i]));
	}
	if (on("prep")) prep_sweep();
	if (on("pkt")) {
		static const size_t DL[] = { 0, 1, 2, 184, 185, 186, 187, 190, 191, 192, 193, 8376, 8377, 8378, 8379, 8382, 8383, 8384, 8385, 65536 };
		for (size_t i = 0; i < 20; i++) { oct d = rnd_oct(DL[i]); pk_lit(d, true); pk_sed_seipd_mdc_aead(d); pk_uid(S(rnd_oct(DL[i])), false); }
		for (int k = 0; k < (T ? 200 : 30); k++) { oct d = rnd_oct(gen().below(400)); pk_lit(d, k < 5); pk_sed_seipd_mdc_aead(d); }
		pk_uid("Alice Example <alice@example.org>", true); pk_uid("a", true); pk_uid(std::string(191, 'u'), true); pk_uid(std::string(192, 'v'), true); pk_uid(std::string(2000, 'w'), true); pk_uid(std::string(8383, 'w'), false); pk_uid(std::string(8384, 'w'), false); pk_uid(std::string(65535, 'x'), false); pk_uid(std::string(65536, 'x'), false);   // gpg refuses user IDs above 2048 octets (its own limit)
		for (int k = 0; k < (T ? 300 : 50); k++) pk_subpkt();
		for (int k = 0; k < (T ? 120 : 24); k++) pk_pkesk(k < 6);
		for (int k = 0; k < (T ? 400 : 70); k++) pk_sig(k < 14);
		for (int k = 0; k < (T ? 60 : 10); k++) pk_pub(k < 6);
		for (int k = 0; k < (T ? 20 : 4); k++) pk_sec();
		// packets the library reads but does not write: built here from the RFC field lists
		for (int k = 0; k < (T ? 300 : 60); k++) {
			oct b; unsigned st = gen().below(4) == 3 ? 2 + gen().below(3) : (gen().below(3) == 2 ? 3 : gen().below(2));
			if (gen().coin()) { b.push_back(4); b.push_back(7 + gen().below(3)); b.push_back(st); b.push_back(8 + gen().below(3)); }
			else { b.push_back(5); b.push_back(7 + gen().below(3)); b.push_back(gen().below(4)); b.push_back(st); b.push_back(8 + gen().below(3)); }
			oct rest = rnd_oct(gen().below(4) ? 8 + gen().below(60) : gen().below(30)); b.insert(b.end(), rest.begin(), rest.end());
			if (gen().below(12) == 0) b[0] = 3 + gen().below(4);
			pdec_case(reframe(3, b));
		}
		for (int k = 0; k < (T ? 60 : 15); k++) { oct b; b.push_back(gen().below(4)); oct d = rnd_oct(gen().below(5) ? 1 + gen().below(300) : 0); b.insert(b.end(), d.begin(), d.end()); pdec_case(reframe(8, b)); }
		for (int k = 0; k < (T ? 120 : 30); k++) {   // version 3 signatures
			static const int PKA[] = { 1, 3, 17, 19, 22, 16 };
			int pka = PKA[gen().below(6)]; oct b; b.push_back(3); b.push_back(gen().below(10) ? 5 : 4); b.push_back(gen().below(2)); oct tm = rnd_oct(4), iss = rnd_oct(8), left = rnd_oct(2);
			b.insert(b.end(), tm.begin(), tm.end()); b.insert(b.end(), iss.begin(), iss.end()); b.push_back(pka); b.push_back(8); b.insert(b.end(), left.begin(), left.end());
			gcry_mpi_t r = mpi_bits(60 + gen().below(900)), s2 = mpi_bits(60 + gen().below(200)); PGP::PacketMPIEncode(r, b); if (pka != 1 && pka != 3) PGP::PacketMPIEncode(s2, b);
			gcry_mpi_release(r); gcry_mpi_release(s2);
			pdec_case(reframe(2, b));
		}
		for (int k = 0; k < (T ? 60 : 15); k++) {   // literal data with file name and other formats
			oct b; b.push_back(gen().coin() ? 0x74 : 0x75); std::string fn = S(rnd_oct(gen().below(4) ? gen().below(20) : 255)); b.push_back(fn.size()); b.insert(b.end(), fn.begin(), fn.end());
			oct tm = rnd_oct(4), d = rnd_oct(gen().below(6) ? 1 + gen().below(100) : 0); b.insert(b.end(), tm.begin(), tm.end()); b.insert(b.end(), d.begin(), d.end());
			pdec_case(reframe(11, b));
		}

	}
	printf("CASES %llu\n", (unsigned long long)g_cases);
	return 0;
}
