// C06 correspondence harness: CheckGroup()/CheckElement() of every class of /repo that carries group parameters.
//  * every class is constructed (stream constructor where the class has a group-only one, CRS constructor otherwise)
//    from a valid parameter set and from every corruption of the catalogue; the verdict of the real CheckGroup() is
//    compared with an independent declarative oracle written here with plain GMP calls (PROPFAIL on disagreement) and,
//    for groups small enough for the extracted Coq model, printed as REC for the model driver.
//  * CheckElement() exhaustively over -2..p+2 for groups with p < 2^12 (all classes; accepted set must equal the
//    powers of g), sampled for big groups.
//  * every constructor + check runs in a forked child: a crash (signal), an exception or a hang is an observation
//    ("crash"/"exc"/"timeout"), never fatal for the harness.
#include "common.hh"
#include <sys/wait.h>
#include <sys/resource.h>
#include <functional>
#include <map>
#include <set>
#define private public
#define protected public
#include <libTMCG.hh>
#undef private
#undef protected
using namespace verif;

// ---------------------------------------------------------------------------------------------------------
struct Z {
	mpz_t v;
	Z() { mpz_init(v); }
	Z(long x) { mpz_init_set_si(v, x); }
	Z(const Z &o) { mpz_init_set(v, o.v); }
	Z(mpz_srcptr o) { mpz_init_set(v, o); }
	Z &operator=(const Z &o) { if (this != &o) mpz_set(v, o.v); return *this; }
	~Z() { mpz_clear(v); }
	operator mpz_srcptr() const { return v; }
	mpz_ptr w() { return v; }
};
static inline int zsgn(mpz_srcptr z) { return mpz_sgn(z); }
static inline int zcmpui(mpz_srcptr z, unsigned long u) { return mpz_cmp_ui(z, u); }
static inline bool zodd(mpz_srcptr z) { return mpz_odd_p(z) != 0; }
static inline bool zeven(mpz_srcptr z) { return mpz_even_p(z) != 0; }
static std::string str(mpz_srcptr z) { std::ostringstream o; o << z; return o.str(); }
static unsigned long bits(mpz_srcptr z) { return mpz_sizeinbase(z, 2); }
static bool is_prime(mpz_srcptr z) { return zcmpui(z, 1) > 0 && mpz_probab_prime_p(z, 30) != 0; }

struct Params {
	Z p, q, k, g, h;
	std::vector<Z> gs;          // g_1..g_n of the commitment scheme
	unsigned long F = 0, G = 0; // configured sizes
};

// ---- guarded execution ------------------------------------------------------------------------------------
// returns "1"/"0" (the bool), "exc" (C++ exception), "crash<sig>", "timeout"
static std::string guarded(const std::function<bool()> &f, unsigned secs = 60) {
	fflush(stdout); fflush(stderr);
	pid_t pid = fork();
	if (pid < 0) { perror("fork"); exit(3); }
	if (pid == 0) {
		struct rlimit rl = { 0, 0 }; setrlimit(RLIMIT_CORE, &rl);
		alarm(secs);
		int code = 12;
		try { code = f() ? 11 : 10; } catch (...) { code = 12; }
		_exit(code);
	}
	int st = 0;
	if (waitpid(pid, &st, 0) < 0) { perror("waitpid"); exit(3); }
	if (WIFEXITED(st)) {
		int c = WEXITSTATUS(st);
		if (c == 11) return "1";
		if (c == 10) return "0";
		if (c == 12) return "exc";
		return "exit" + std::to_string(c);            // e.g. 134 does not occur here (abort is a signal)
	}
	if (WIFSIGNALED(st)) {
		if (WTERMSIG(st) == SIGALRM) return "timeout";
		return "crash" + std::to_string(WTERMSIG(st));
	}
	return "unknown";
}

// many cases in one child: f(j) returns a space-free token; a crash/timeout of case j is recorded and the rest continues in a
// fresh child.  (One fork per case costs ~50 ms on a loaded machine.)
static std::vector<std::string> guarded_batch(size_t n, const std::function<std::string(size_t)> &f, unsigned secs = 60) {
	std::vector<std::string> res(n, "unknown");
	size_t i = 0;
	while (i < n) {
		fflush(stdout); fflush(stderr);
		int fd[2]; if (pipe(fd)) { perror("pipe"); exit(3); }
		pid_t pid = fork();
		if (pid < 0) { perror("fork"); exit(3); }
		if (pid == 0) {
			struct rlimit rl = { 0, 0 }; setrlimit(RLIMIT_CORE, &rl);
			close(fd[0]);
			for (size_t j = i; j < n; j++) {
				alarm(secs);
				std::string t;
				try { t = f(j); } catch (...) { t = "exc"; }
				t += "\n";
				size_t off = 0; while (off < t.size()) { ssize_t w = write(fd[1], t.c_str() + off, t.size() - off); if (w <= 0) _exit(13); off += w; }
			}
			fflush(stdout);
			_exit(0);
		}
		close(fd[1]);
		std::string all; char buf[65536]; ssize_t k; while ((k = read(fd[0], buf, sizeof buf)) > 0) all.append(buf, k); close(fd[0]);
		int st = 0; if (waitpid(pid, &st, 0) < 0) { perror("waitpid"); exit(3); }
		size_t cnt = 0, pos = 0;
		for (;;) { size_t e = all.find('\n', pos); if (e == all.npos) break; if (i + cnt < n) res[i + cnt] = all.substr(pos, e - pos); cnt++; pos = e + 1; }
		if (WIFEXITED(st) && WEXITSTATUS(st) == 0 && i + cnt >= n) break;
		if (i + cnt < n) {
			if (WIFSIGNALED(st)) res[i + cnt] = WTERMSIG(st) == SIGALRM ? "timeout" : "crash" + std::to_string(WTERMSIG(st));
			else res[i + cnt] = "exit" + std::to_string(WIFEXITED(st) ? WEXITSTATUS(st) : -1);
		}
		i += cnt + 1;
	}
	return res;
}
static std::string b01(bool b) { return b ? "1" : "0"; }
static std::string vtok(const std::string &v) { return v == "1" ? "accept" : v == "0" ? "reject" : v.substr(0, 5) == "crash" ? "crash" : v; }

// ---- independent declarative oracle ---------------------------------------------------------------------------
static bool o_core(const Params &P, mpz_srcptr k) {
	if (bits(P.p) < P.F || bits(P.q) < P.G) return false;
	Z t; mpz_mul(t.w(), P.q, k); mpz_add_ui(t.w(), t.w(), 1);
	if (mpz_cmp(t, P.p)) return false;
	if (!is_prime(P.p) || !is_prime(P.q)) return false;
	if (mpz_divisible_p(k, P.q)) return false;
	return true;
}
static bool o_member(const Params &P, mpz_srcptr x) {       // 1 < x < p-1 and x^q = 1 (p > 3, q > 0 known)
	Z pm1; mpz_sub_ui(pm1.w(), P.p, 1);
	if (zcmpui(x, 1) <= 0 || mpz_cmp(x, pm1) >= 0) return false;
	Z t; mpz_powm(t.w(), x, P.q, P.p);
	return zcmpui(t, 1) == 0;
}
// the verifiably derived generator and the hash-oracle table (string, hash) the model needs; false if the loop would
// divide by zero or does not stop within 12 rounds
static bool derive_g(mpz_srcptr p, mpz_srcptr q, mpz_srcptr k, Z &gout, std::vector<std::pair<std::string, Z> > &tab) {
	if (!zsgn(p)) return false;
	std::stringstream U;
	U << "LibTMCG|" << p << "|" << q << "|ggen|";
	Z pm1, h, g2, t, ap; mpz_sub_ui(pm1.w(), p, 1); mpz_abs(ap.w(), p);
	for (int round = 0; round < 12; round++) {
		tmcg_mpz_shash(h.w(), U.str());
		tab.push_back(std::make_pair(U.str(), h));
		if (zsgn(k) < 0 && !mpz_invert(t.w(), h, ap)) return false;
		mpz_powm(g2.w(), h, k, p);
		U << g2.v << "|";
		if (zsgn(q) < 0 && !mpz_invert(t.w(), g2, ap)) return false;
		mpz_powm(t.w(), g2, q, p);
		if (zcmpui(g2, 0) && zcmpui(g2, 1) && mpz_cmp(g2, pm1) && !zcmpui(t, 1)) { gout = g2; return true; }
	}
	return false;
}
static std::string tab_tok(const std::vector<std::pair<std::string, Z> > &tab) {
	if (tab.empty()) return "_";
	std::string r;
	for (size_t i = 0; i < tab.size(); i++) { if (i) r += ","; r += xb(tab[i].first) + "=" + hx(tab[i].second); }
	return r;
}
static bool o_canonical(const Params &P, mpz_srcptr k) {
	Z g2; std::vector<std::pair<std::string, Z> > tab;
	return derive_g(P.p, P.q, k, g2, tab) && !mpz_cmp(g2, P.g);
}

// ---- the classes -------------------------------------------------------------------------------------------------
enum Shape { S_VTMF, S_QR, S_COM, S_VSSHE, S_GH, S_TRAP, S_EOTP };
struct Cls {
	const char *name;
	Shape shape;
	bool derive_k;       // CheckGroup recomputes k = (p-1) div q
	int canon;           // 0 never, 1 always, 2 constructor flag
	std::function<bool(const Params &, bool canon)> check;     // construct + CheckGroup
	std::function<std::vector<int>(const Params &, const std::vector<Z> &)> elem;    // construct once + CheckElement on every a (may be empty)
};
static std::string group_stream(const Params &P, Shape s) {
	std::ostringstream o;
	switch (s) {
	case S_VTMF: case S_QR: o << P.p.v << std::endl << P.q.v << std::endl << P.g.v << std::endl << P.k.v << std::endl; break;
	case S_COM: o << P.p.v << std::endl << P.q.v << std::endl << P.k.v << std::endl << P.h.v << std::endl;
		for (size_t i = 0; i < P.gs.size(); i++) o << P.gs[i].v << std::endl; break;
	case S_VSSHE: o << P.p.v << std::endl << P.q.v << std::endl << P.g.v << std::endl << P.h.v << std::endl;
		o << P.p.v << std::endl << P.q.v << std::endl << P.k.v << std::endl << P.h.v << std::endl;
		for (size_t i = 0; i < P.gs.size(); i++) o << P.gs[i].v << std::endl; break;
	case S_GH: o << P.p.v << std::endl << P.q.v << std::endl << P.g.v << std::endl << P.h.v << std::endl; break;
	case S_TRAP: o << P.p.v << std::endl << P.q.v << std::endl << P.k.v << std::endl << P.g.v << std::endl << P.h.v << std::endl; break;
	case S_EOTP: o << P.p.v << std::endl << P.q.v << std::endl << P.g.v << std::endl; break;
	}
	return o.str();
}
template<class T> static std::vector<int> sweep(const T &x, const std::vector<Z> &as) { std::vector<int> r; for (size_t i = 0; i < as.size(); i++) r.push_back(x.CheckElement(as[i]) ? 1 : 0); return r; }
static unsigned long QR_E = 0;
static unsigned SHARD_I = 0, SHARD_N = 1;   // class index mod SHARD_N == SHARD_I    // exponent size used for the QR class in the current case

static std::vector<Cls> classes() {
	std::vector<Cls> v;
	v.push_back({ "vtmf", S_VTMF, false, 2,
		[](const Params &P, bool c) { std::istringstream in(group_stream(P, S_VTMF)); BarnettSmartVTMF_dlog x(in, P.F, P.G, c, true); return x.CheckGroup(); },
		[](const Params &P, const std::vector<Z> &as) { std::istringstream in(group_stream(P, S_VTMF)); BarnettSmartVTMF_dlog x(in, P.F, P.G, false, true); return sweep(x, as); } });
	v.push_back({ "com", S_COM, false, 0,
		[](const Params &P, bool) { std::istringstream in(group_stream(P, S_COM)); PedersenCommitmentScheme x(P.gs.size(), in, P.F, P.G); return x.CheckGroup(); }, nullptr });
	v.push_back({ "skc", S_COM, false, 0,
		[](const Params &P, bool) { std::istringstream in(group_stream(P, S_COM)); GrothSKC x(P.gs.size(), in, P.G / 2, P.F, P.G); return x.CheckGroup(); }, nullptr });
	v.push_back({ "vsshe", S_VSSHE, false, 0,
		[](const Params &P, bool) { std::istringstream in(group_stream(P, S_VSSHE)); GrothVSSHE x(P.gs.size(), in, P.G / 2, P.F, P.G); return x.CheckGroup(); }, nullptr });
	v.push_back({ "vrhe", S_GH, true, 0,
		[](const Params &P, bool) { std::istringstream in(group_stream(P, S_GH)); HooghSchoenmakersSkoricVillegasVRHE x(in, P.F, P.G); return x.CheckGroup(); },
		[](const Params &P, const std::vector<Z> &as) { std::istringstream in(group_stream(P, S_GH)); HooghSchoenmakersSkoricVillegasVRHE x(in, P.F, P.G);
			std::vector<int> r1 = sweep(x, as), r2 = sweep(*x.pub_rot_zk, as);
			for (size_t i = 0; i < as.size(); i++) if (r1[i] != r2[i]) propfail("elem-pubrotzk-differs", "VRHE and PUBROTZK CheckElement differ on a=" + hx(as[i]) + " p=" + hx(P.p));
			return r1; } });
	v.push_back({ "vss", S_GH, true, 1,
		[](const Params &P, bool) { PedersenVSS x(3, 1, 0, P.p, P.q, P.g, P.h, P.F, P.G, false, ""); return x.CheckGroup(); },
		[](const Params &P, const std::vector<Z> &as) { PedersenVSS x(3, 1, 0, P.p, P.q, P.g, P.h, P.F, P.G, false, ""); return sweep(x, as); } });
	v.push_back({ "gjkr-dkg", S_GH, true, 2,
		[](const Params &P, bool c) { GennaroJareckiKrawczykRabinDKG x(3, 1, 0, P.p, P.q, P.g, P.h, P.F, P.G, c, false, ""); return x.CheckGroup(); },
		[](const Params &P, const std::vector<Z> &as) { GennaroJareckiKrawczykRabinDKG x(3, 1, 0, P.p, P.q, P.g, P.h, P.F, P.G, false, false, ""); return sweep(x, as); } });
	v.push_back({ "gjkr-nts", S_GH, true, 2,
		[](const Params &P, bool c) { GennaroJareckiKrawczykRabinNTS x(3, 1, 0, P.p, P.q, P.g, P.h, P.F, P.G, c, false); return x.CheckGroup(); }, nullptr });
	v.push_back({ "cgjkr-rvss", S_GH, true, 2,
		[](const Params &P, bool c) { CanettiGennaroJareckiKrawczykRabinRVSS x(3, 1, 0, 1, P.p, P.q, P.g, P.h, P.F, P.G, c, false, ""); return x.CheckGroup(); },
		[](const Params &P, const std::vector<Z> &as) { CanettiGennaroJareckiKrawczykRabinRVSS x(3, 1, 0, 1, P.p, P.q, P.g, P.h, P.F, P.G, false, false, ""); return sweep(x, as); } });
	v.push_back({ "cgjkr-zvss", S_GH, true, 2,
		[](const Params &P, bool c) { CanettiGennaroJareckiKrawczykRabinZVSS x(3, 1, 0, 1, P.p, P.q, P.g, P.h, P.F, P.G, c, false, ""); return x.CheckGroup(); },
		[](const Params &P, const std::vector<Z> &as) { CanettiGennaroJareckiKrawczykRabinZVSS x(3, 1, 0, 1, P.p, P.q, P.g, P.h, P.F, P.G, false, false, ""); return sweep(x, as); } });
	v.push_back({ "cgjkr-dkg", S_GH, true, 2,
		[](const Params &P, bool c) { CanettiGennaroJareckiKrawczykRabinDKG x(3, 1, 0, P.p, P.q, P.g, P.h, P.F, P.G, c, false, ""); return x.CheckGroup(); },
		[](const Params &P, const std::vector<Z> &as) { CanettiGennaroJareckiKrawczykRabinDKG x(3, 1, 0, P.p, P.q, P.g, P.h, P.F, P.G, false, false, ""); return sweep(x, as); } });
	v.push_back({ "cgjkr-dss", S_GH, true, 2,
		[](const Params &P, bool c) { CanettiGennaroJareckiKrawczykRabinDSS x(3, 1, 0, P.p, P.q, P.g, P.h, P.F, P.G, c, false); return x.CheckGroup(); },
		[](const Params &P, const std::vector<Z> &as) { CanettiGennaroJareckiKrawczykRabinDSS x(3, 1, 0, P.p, P.q, P.g, P.h, P.F, P.G, false, false); return sweep(x, as); } });
	v.push_back({ "jl-rvss", S_GH, true, 0,
		[](const Params &P, bool) { JareckiLysyanskayaRVSS x(3, 1, P.p, P.q, P.g, P.h, P.F, P.G); return x.CheckGroup(); },
		[](const Params &P, const std::vector<Z> &as) { JareckiLysyanskayaRVSS x(3, 1, P.p, P.q, P.g, P.h, P.F, P.G); return sweep(x, as); } });
	v.push_back({ "jl-edcf", S_GH, true, 0,
		[](const Params &P, bool) { JareckiLysyanskayaEDCF x(3, 1, P.p, P.q, P.g, P.h, P.F, P.G); return x.CheckGroup(); }, nullptr });
	v.push_back({ "trapdoor", S_TRAP, false, 0,
		[](const Params &P, bool) { std::istringstream in(group_stream(P, S_TRAP)); PedersenTrapdoorCommitmentScheme x(in, P.F, P.G); return x.CheckGroup(); }, nullptr });
	v.push_back({ "eotp", S_EOTP, true, 0,
		[](const Params &P, bool) { std::istringstream in(group_stream(P, S_EOTP)); NaorPinkasEOTP x(in, P.F, P.G); return x.CheckGroup(); },
		[](const Params &P, const std::vector<Z> &as) { std::istringstream in(group_stream(P, S_EOTP)); NaorPinkasEOTP x(in, P.F, P.G); return sweep(x, as); } });
	v.push_back({ "qr", S_QR, false, 1,
		[](const Params &P, bool) { std::istringstream in(group_stream(P, S_QR)); BarnettSmartVTMF_dlog_GroupQR x(in, P.F, QR_E); return x.CheckGroup(); },
		[](const Params &P, const std::vector<Z> &as) { std::istringstream in(group_stream(P, S_QR)); BarnettSmartVTMF_dlog_GroupQR x(in, P.F, QR_E); return sweep(x, as); } });
	return v;
}
// which fields a class reads
static bool uses(const Cls &c, const std::string &f) {
	switch (c.shape) {
	case S_VTMF: return f == "p" || f == "q" || f == "g" || f == "k";
	case S_QR: return f == "p" || f == "q";
	case S_COM: case S_VSSHE: return f == "p" || f == "q" || f == "k" || f == "h" || f == "gs";
	case S_GH: return f == "p" || f == "q" || f == "g" || f == "h";
	case S_TRAP: return f == "p" || f == "q" || f == "k" || f == "g" || f == "h";
	case S_EOTP: return f == "p" || f == "q" || f == "g";
	}
	return false;
}
// declarative expectation for class c on P (q > 0 semantics of the property statement)
static bool oracle(const Cls &c, const Params &P, bool canon) {
	if (c.shape == S_QR) {
		unsigned long G = P.F - 1;
		if (bits(P.p) < P.F || bits(P.q) < G) return false;
		Z t; mpz_mul_2exp(t.w(), P.q, 1); mpz_add_ui(t.w(), t.w(), 1);
		if (mpz_cmp(t, P.p) || !is_prime(P.p) || !is_prime(P.q)) return false;
		if (mpz_fdiv_ui(P.p, 8) != 7) return false;
		if (bits(P.p) < QR_E) return false;
		// generator recomputed by the constructor: 2^(2^(|p|-E)) is a square, and not 1/p-1 unless the group is degenerate
		Z e, g; mpz_ui_pow_ui(e.w(), 2, bits(P.p) - QR_E); mpz_set_ui(g.w(), 2); mpz_powm(g.w(), g, e, P.p);
		Z pm1; mpz_sub_ui(pm1.w(), P.p, 1);
		if (zcmpui(g, 1) <= 0 || mpz_cmp(g, pm1) >= 0) return false;
		return mpz_jacobi(g, P.p) == 1;
	}
	Z k;
	if (c.derive_k) {
		if (zsgn(P.q) <= 0) return false;
		mpz_sub_ui(k.w(), P.p, 1); mpz_fdiv_q(k.w(), k, P.q);
	} else k = P.k;
	if (zsgn(P.q) <= 0 || zsgn(P.p) <= 0) return false;
	if (!o_core(P, k)) return false;
	std::vector<Z> gens;
	switch (c.shape) {
	case S_VTMF: case S_EOTP: gens.push_back(P.g); break;
	case S_COM: case S_VSSHE: gens.push_back(P.h); for (size_t i = 0; i < P.gs.size(); i++) gens.push_back(P.gs[i]); break;
	case S_GH: case S_TRAP: gens.push_back(P.g); gens.push_back(P.h); break;
	default: break;
	}
	for (size_t i = 0; i < gens.size(); i++) {
		if (!o_member(P, gens[i])) return false;
		for (size_t j = 0; j < i; j++) if (!mpz_cmp(gens[i], gens[j])) return false;
	}
	if (c.shape == S_VSSHE && bits(P.q) < 2 * (P.G / 2)) return false;
	if ((c.canon == 1 || (c.canon == 2 && canon)) && !o_canonical(P, k)) return false;
	return true;
}

// ---- group generation (harness side, independent of the library's generators) ---------------------------------------
static void gen_prime_bits(mpz_ptr r, unsigned b) {
	do { gen_bits(r, b); mpz_setbit(r, b - 1); mpz_setbit(r, 0); if (b == 2 && gen().coin()) mpz_set_ui(r, 2); } while (!is_prime(r));
}
static void pick_member(const Params &P, mpz_ptr out, const std::vector<Z> &avoid) {
	Z pm1, x; mpz_sub_ui(pm1.w(), P.p, 1);
	for (;;) {
		gen_below(x.w(), P.p); mpz_powm(out, x, P.k, P.p);
		if (zcmpui(out, 1) <= 0 || !mpz_cmp(out, pm1)) continue;
		bool dup = false; for (size_t i = 0; i < avoid.size(); i++) if (!mpz_cmp(avoid[i], out)) dup = true;
		if (!dup) return;
	}
}
// valid Schnorr group with |p| = F, |q| = G, canonical g, h and n further generators; q >= 11 so that 5 distinct members exist
static Params make_group(unsigned F, unsigned G, size_t n, bool qsquare = false) {
	Params P; P.F = F; P.G = G;
	for (;;) {
		gen_prime_bits(P.q.w(), G);
		if (zcmpui(P.q, 11) < 0) continue;
		bool ok = false;
		for (int tries = 0; tries < 4000 && !ok; tries++) {
			unsigned kb = F - G + (gen().coin() ? 1 : 0);
			if (qsquare) {   // p = q^2 m + 1: q divides k
				if (kb <= G) return P;
				Z m; gen_bits(m.w(), kb - G); mpz_setbit(m.w(), kb - G - 1); mpz_mul(P.k.w(), m, P.q);
				if (zodd(P.k)) mpz_mul_2exp(P.k.w(), P.k, 1);
			} else {
				gen_bits(P.k.w(), kb); if (kb) mpz_setbit(P.k.w(), kb - 1); if (zodd(P.k)) mpz_add_ui(P.k.w(), P.k, 1);
				if (mpz_divisible_p(P.k, P.q)) continue;
			}
			mpz_mul(P.p.w(), P.q, P.k); mpz_add_ui(P.p.w(), P.p, 1);
			if (bits(P.p) != F || !is_prime(P.p)) continue;
			ok = true;
		}
		if (ok) break;
	}
	std::vector<std::pair<std::string, Z> > tab;
	if (!qsquare) { if (!derive_g(P.p, P.q, P.k, P.g, tab)) { fprintf(stderr, "derive_g failed\n"); exit(4); } }
	else if (derive_g(P.p, P.q, P.k, P.g, tab)) { /* the derived generator exists in this group as well: only gcd(q,k) = 1 fails */ }
	else { // any element of order q: x^(k) has order dividing q only if ... use x^((p-1)/q)
		Z e, x, pm1; mpz_sub_ui(pm1.w(), P.p, 1); mpz_divexact(e.w(), pm1, P.q);
		do { gen_below(x.w(), P.p); mpz_powm(P.g.w(), x, e, P.p); } while (zcmpui(P.g, 1) <= 0);
	}
	std::vector<Z> used; used.push_back(P.g);
	if (qsquare) { // members = powers of g
		Z e; do { gen_below(e.w(), P.q); } while (zcmpui(e, 2) < 0); mpz_powm(P.h.w(), P.g, e, P.p); used.push_back(P.h);
		for (size_t i = 0; i < n; i++) { Z t; for (;;) { gen_below(e.w(), P.q); if (zcmpui(e, 2) < 0) continue; mpz_powm(t.w(), P.g, e, P.p);
			bool dup = false; for (size_t j = 0; j < used.size(); j++) if (!mpz_cmp(used[j], t)) dup = true; if (!dup) break; } P.gs.push_back(t); used.push_back(t); }
		return P;
	}
	pick_member(P, P.h.w(), used); used.push_back(P.h);
	for (size_t i = 0; i < n; i++) { Z t; pick_member(P, t.w(), used); P.gs.push_back(t); used.push_back(t); }
	return P;
}
// safe prime p = 2q+1 with |p| = F and p mod 8 = r
// pair p = 2q+1 with |p| = F and p mod 8 = r; by default both prime, optionally exactly one of them composite
static Params make_qr(unsigned F, unsigned r, int step = 1, bool qprime = true, bool pprime = true) {
	Params P;
	for (;; F += step) {
		bool ok = false;
		for (int tries = 0; tries < 3000 && !ok; tries++) {
			if (qprime) gen_prime_bits(P.q.w(), F - 1);
			else { gen_bits(P.q.w(), F - 1); mpz_setbit(P.q.w(), F - 2); mpz_setbit(P.q.w(), 0); if (is_prime(P.q)) continue; }
			mpz_mul_2exp(P.p.w(), P.q, 1); mpz_add_ui(P.p.w(), P.p, 1);
			ok = bits(P.p) == F && (is_prime(P.p) == pprime) && mpz_fdiv_ui(P.p, 8) == r;
		}
		if (ok) break;
	}
	P.F = F; P.G = F - 1;
	mpz_set_ui(P.k.w(), 2); mpz_set_ui(P.g.w(), 4); mpz_set_ui(P.h.w(), 9);
	return P;
}

// ---- corruption catalogue ---------------------------------------------------------------------------------------------
struct Corr { std::string name; std::string field; Params P; };
static mpz_ptr fld(Params &P, const std::string &f, size_t i = 0) {
	if (f == "p") return P.p.w(); if (f == "q") return P.q.w(); if (f == "k") return P.k.w();
	if (f == "g") return P.g.w(); if (f == "h") return P.h.w(); return P.gs[i].w();
}
static std::vector<Corr> catalogue(const Params &V, const Params *shortp, const Params *qsq) {
	std::vector<Corr> r;
	auto add = [&](const std::string &name, const std::string &field, const Params &P) { r.push_back({ name, field, P }); };
	const char *fields[] = { "p", "q", "k", "g", "h", "gs" };
	for (const char *f : fields) {
		if (std::string(f) == "gs" && V.gs.empty()) continue;
		for (long val : { 0L, 1L, 2L }) { Params P = V; mpz_set_si(fld(P, f), val); add(std::string(f) + "=" + std::to_string(val), f, P); }
		{ Params P = V; mpz_neg(fld(P, f), fld(P, f)); add(std::string(f) + "=neg", f, P); }
	}
	// p: composite with the relation intact (k adjusted), another prime, p+2
	{ Params P = V; for (int j = 1; j < 200; j++) { mpz_add_ui(P.k.w(), V.k, 2 * j); mpz_mul(P.p.w(), P.q, P.k); mpz_add_ui(P.p.w(), P.p, 1);
		if (!is_prime(P.p) && bits(P.p) == bits(V.p) && !mpz_divisible_p(P.k, P.q)) { add("p=composite(k-adjusted)", "p", P); break; } } }
	{ Params P = V; mpz_nextprime(P.p.w(), V.p); add("p=nextprime", "p", P); }
	{ Params P = V; mpz_add_ui(P.p.w(), V.p, 2); add("p=p+2", "p", P); }
	{ Params P = V; mpz_mul(P.p.w(), V.p, V.p); add("p=p^2", "p", P); }
	// q: composite with the relation intact (q' = 2q, k' = k/2), other prime, q short (q' = 2)
	if (zeven(V.k)) { Params P = V; mpz_mul_2exp(P.q.w(), V.q, 1); mpz_fdiv_q_2exp(P.k.w(), V.k, 1); add("q=2q(k-adjusted)", "q", P); }
	{ Params P = V; mpz_nextprime(P.q.w(), V.q); add("q=nextprime", "q", P); }
	{ Params P = V; mpz_set_ui(P.q.w(), 2); mpz_sub_ui(P.k.w(), V.p, 1); mpz_fdiv_q_2exp(P.k.w(), P.k, 1); add("q=2(short,k-adjusted)", "q", P); }
	{ // q' = smallest odd prime factor of k below 1000, if any: a shorter, prime, consistent subgroup order
		for (unsigned long f = 3; f < 1000; f += 2) if (mpz_divisible_ui_p(V.k, f) && mpz_probab_prime_p(Z((long)f), 20)) {
			Params P = V; mpz_set_ui(P.q.w(), f); mpz_sub_ui(P.k.w(), V.p, 1); mpz_divexact_ui(P.k.w(), P.k, f);
			add("q=smallfactor(short,k-adjusted)", "q", P); break; } }
	// k
	{ Params P = V; mpz_add_ui(P.k.w(), V.k, 1); add("k=k+1", "k", P); }
	{ Params P = V; mpz_sub_ui(P.k.w(), V.k, 1); add("k=k-1", "k", P); }
	{ Params P = V; mpz_mul(P.k.w(), V.k, V.q); add("k=kq", "k", P); }
	// configured sizes larger than the set
	if (shortp) { Params P = *shortp; P.F = V.F; P.G = V.G; add("p=short(valid-smaller-field)", "p", P); }
	{ Params P = V; P.G = V.G + 1 + (bits(V.q) - V.G); add("G=|q|+1", "q", P); }
	{ Params P = V; P.F = bits(V.p) + 1; add("F=|p|+1", "p", P); }
	// q divides k
	if (qsq) { Params P = *qsq; P.F = V.F; P.G = V.G; add("q-divides-k", "p", P); }
	// generators
	auto gen_corr = [&](const std::string &f) {
		if (f == "gs" && V.gs.empty()) return;
		Z x(fld(const_cast<Params &>(V), f));
		{ Params P = V; mpz_sub_ui(fld(P, f), V.p, 1); add(f + "=p-1", f, P); }
		{ Params P = V; mpz_set(fld(P, f), V.p); add(f + "=p", f, P); }
		{ Params P = V; mpz_add_ui(fld(P, f), V.p, 1); add(f + "=p+1", f, P); }
		{ Params P = V; mpz_set_si(fld(P, f), -1); add(f + "=-1", f, P); }
		{ Params P = V; mpz_add(fld(P, f), x, V.p); add(f + "=x+p", f, P); }
		{ Params P = V; mpz_sub(fld(P, f), V.p, x); add(f + "=p-x(order-2q)", f, P); }
		{ Params P = V; mpz_sub(fld(P, f), x, V.p); add(f + "=x-p", f, P); }
		{ Params P = V; Z t, y; for (;;) { gen_below(y.w(), V.p); if (zcmpui(y, 2) < 0) continue; mpz_powm(t.w(), y, V.q, V.p); if (zcmpui(t, 1)) break; }
			mpz_set(fld(P, f), y); add(f + "=nonmember", f, P); }
		{ Params P = V; mpz_mul(fld(P, f), x, x); mpz_mod(fld(P, f), fld(P, f), V.p); add(f + "=x^2(member,not-derived)", f, P); }
	};
	gen_corr("g"); gen_corr("h"); gen_corr("gs");
	// coinciding generators
	{ Params P = V; P.h = V.g; add("h=g", "h", P); }
	{ Params P = V; P.g = V.h; add("g=h", "g", P); }
	if (V.gs.size() >= 2) {
		{ Params P = V; P.gs[0] = V.gs[1]; add("g1=g2", "gs", P); }
		{ Params P = V; P.gs[V.gs.size() - 1] = V.gs[0]; add("gn=g1", "gs", P); }
		{ Params P = V; P.gs[1] = V.h; add("g2=h", "gs", P); }
		{ Params P = V; P.gs[V.gs.size() - 1] = V.h; add("gn=h", "gs", P); }
		{ Params P = V; mpz_set_ui(P.gs[V.gs.size() - 1].w(), 1); add("gn=1", "gs", P); }
		{ Params P = V; mpz_sub_ui(P.gs[V.gs.size() - 1].w(), V.p, 1); add("gn=p-1", "gs", P); }
	}
	return r;
}

// ---- records -----------------------------------------------------------------------------------------------------------
static std::string zl(const std::vector<Z> &v) { if (v.empty()) return "_"; std::string r; for (size_t i = 0; i < v.size(); i++) { if (i) r += ","; r += hx(v[i]); } return r; }
static bool small_enough(const Params &P) { return bits(P.p) <= 72 && bits(P.q) <= 72 && bits(P.k) <= 144 && bits(P.g) <= 80 && bits(P.h) <= 80; }

static void rec_for(const Cls &c, const Params &P, bool canon, const std::string &verdict) {
	if (!small_enough(P)) return;
	bool cn = c.canon == 1 || (c.canon == 2 && canon);
	std::vector<std::pair<std::string, Z> > tab; Z g2;
	if (c.shape == S_VTMF) {
		if (cn) derive_g(P.p, P.q, P.k, g2, tab);
		Rec("cg_vtmf").u(P.F).u(P.G).d(cn).z(P.p).z(P.q).z(P.g).z(P.k).t(tab_tok(tab)).t(verdict);
	} else if (c.shape == S_QR) {
		// g of the object is recomputed by the constructor; report it through the model function qr_generator
		Rec("cg_qr").u(P.F).u(P.F - 1).u(QR_E).z(P.p).z(P.q).t(verdict);
	} else if (c.shape == S_VSSHE) {
		// own size test first, then the commitment scheme's check
		return;
	} else {
		Z k; if (c.derive_k) { if (zsgn(P.q)) { mpz_sub_ui(k.w(), P.p, 1); mpz_fdiv_q(k.w(), k, P.q); } } else k = P.k;
		if (cn) derive_g(P.p, P.q, k, g2, tab);
		Z h; std::vector<Z> gs;
		switch (c.shape) {
		case S_COM: h = P.h; gs = P.gs; break;
		case S_GH: h = P.h; gs.push_back(P.g); break;
		case S_TRAP: h = P.g; gs.push_back(P.h); break;
		case S_EOTP: h = P.g; break;
		default: break;
		}
		// sign test `mpz_sgn(q) <= 0 -> false`: every class of the family (fixes 7223137 and, for the commitment scheme, 07cfbe5)
		bool sign_test = true;
		Rec("cg_gens").t(c.name).u(P.F).u(P.G).d(sign_test).d(c.derive_k).d(cn).z(P.p).z(P.q).z(P.k).z(h).t(zl(gs)).t(tab_tok(tab)).t(verdict);
	}
}

static unsigned long n_cases = 0, n_refused = 0, n_accepted = 0;
static void judge(const Cls &c, const std::string &gname, const std::string &cname, const Params &P, bool canon, bool with_rec, const std::string &v) {
	bool want = oracle(c, P, canon);
	n_cases++;
	std::string key = std::string(c.name) + (c.canon == 2 ? (canon ? "/canon" : "/free") : "") + ":" + cname;
	if (v == "1") n_accepted++; else n_refused++;
	// a constructor that throws refuses the set as well (fix c237514: zero modulus -> std::invalid_argument)
	if (v != "1" && v != "0" && v != "exc")
		propfail("abnormal:" + key, "CheckGroup of " + std::string(c.name) + " on " + gname + " with " + cname + " ended with " + v + " stream=" + xb(group_stream(P, c.shape)));
	else if ((v == "1") != want)
		propfail((want ? "valid-refused:" : "corrupt-accepted:") + key, std::string(c.name) + " CheckGroup returned " + v + " on " + gname + " with " + cname +
			" F=" + std::to_string(P.F) + " G=" + std::to_string(P.G) + " stream=" + xb(group_stream(P, c.shape)));
	if (with_rec && v != "exc") rec_for(c, P, canon, vtok(v));
}
static void run_case(const Cls &c, const std::string &gname, const std::string &cname, const Params &P, bool canon, bool with_rec) {
	std::string v = guarded([&]() { return c.check(P, canon); });
	judge(c, gname, cname, P, canon, with_rec, v);
}

static void run_catalogue(const std::vector<Cls> &cls, const std::string &gname, const Params &V, const Params *shortp, const Params *qsq,
                          const std::string &only, bool with_rec) {
	std::vector<Corr> cat = catalogue(V, shortp, qsq);
	for (size_t ci = 0; ci < cls.size(); ci++) {
		const Cls &c = cls[ci];
		if (c.shape == S_QR) continue;
		if (!only.empty() && only != c.name) continue;
		if (ci % SHARD_N != SHARD_I) continue;
		for (int canon = 0; canon < (c.canon == 2 ? 2 : 1); canon++) {
			std::vector<const Params *> ps; std::vector<std::string> names;
			ps.push_back(&V); names.push_back("valid");
			for (const Corr &k : cat) if (uses(c, k.field)) { ps.push_back(&k.P); names.push_back(k.name); }
			std::vector<std::string> vs = guarded_batch(ps.size(), [&](size_t j) { return b01(c.check(*ps[j], canon)); });
			for (size_t j = 0; j < ps.size(); j++) judge(c, gname, names[j], *ps[j], canon, with_rec, vs[j]);
		}
	}
}

// GrothVSSHE keeps its own copy of p, q, g, h in front of the commitment scheme's parameters
static void run_vsshe_own(const Params &V, const std::string &only) {
	if ((!only.empty() && only != "vsshe") || 3 % SHARD_N != SHARD_I) return;
	struct { const char *name; const char *f; long val; } C[] = { {"g=0","g",0}, {"g=1","g",1}, {"g=p-1","g",-1}, {"h=1","h",1}, {"p=1","p",1}, {"q=1","q",1}, {"h=other","h",-2}, {"p=other","p",-2} };
	std::vector<std::string> streams;
	for (auto &c : C) {
		Params O = V;
		if (c.val >= 0) mpz_set_si(fld(O, c.f), c.val); else if (c.val == -1) mpz_sub_ui(fld(O, c.f), V.p, 1);
		else if (std::string(c.f) == "h") O.h = V.gs[0]; else mpz_nextprime(O.p.w(), V.p);
		std::ostringstream o;
		o << O.p.v << std::endl << O.q.v << std::endl << O.g.v << std::endl << O.h.v << std::endl;
		o << V.p.v << std::endl << V.q.v << std::endl << V.k.v << std::endl << V.h.v << std::endl;
		for (size_t i = 0; i < V.gs.size(); i++) o << V.gs[i].v << std::endl;
		streams.push_back(o.str());
	}
	std::vector<std::string> vs = guarded_batch(streams.size(), [&](size_t j) { std::istringstream in(streams[j]); GrothVSSHE x(V.gs.size(), in, V.G / 2, V.F, V.G); return b01(x.CheckGroup()); });
	for (size_t j = 0; j < streams.size(); j++) {
		n_cases++;
		if (vs[j] == "1") propfail("vsshe-own-params-unchecked", std::string("GrothVSSHE::CheckGroup returned 1 although its own encryption parameter is corrupt (") + C[j].name + "); the commitment part is valid; stream=" + xb(streams[j]));
		else if (vs[j] != "0" && vs[j] != "exc") propfail(std::string("abnormal:vsshe-own:") + C[j].name, "GrothVSSHE constructor/CheckGroup ended with " + vs[j] + " stream=" + xb(streams[j]));
	}
}

// the library generates, publishes, re-reads and must accept
static void own_generated(unsigned F, unsigned G, const std::string &only) {
	auto expect = [&](const char *name, const std::function<bool()> &f) {
		if (!only.empty() && only != name) return;
		std::string v = guarded(f, 600);
		n_cases++;
		if (v == "timeout") printf("OBSERVE generation-timeout %s %u/%u\n", name, F, G);      // slow machine, not a verdict
		else if (v != "1") propfail(std::string("generated-refused:") + name, std::string(name) + " refuses (" + v + ") the group its own constructor generated, sizes " + std::to_string(F) + "/" + std::to_string(G));
	};
	for (int canon = 0; canon < 2; canon++)
		expect("vtmf", [&]() { BarnettSmartVTMF_dlog a(F, G, canon, true); if (!a.CheckGroup()) return false; std::stringstream s; a.PublishGroup(s);
			BarnettSmartVTMF_dlog b(s, F, G, canon, true); return b.CheckGroup(); });
	if (F <= 1024) expect("qr", [&]() { BarnettSmartVTMF_dlog_GroupQR a(F, G); if (!a.CheckGroup()) return false; std::stringstream s; a.PublishGroup(s);
		BarnettSmartVTMF_dlog_GroupQR b(s, F, G); return b.CheckGroup(); });
	expect("com", [&]() { PedersenCommitmentScheme a(3, F, G); if (!a.CheckGroup()) return false; std::stringstream s; a.PublishGroup(s);
		PedersenCommitmentScheme b(3, s, F, G); return b.CheckGroup(); });
	expect("skc", [&]() { GrothSKC a(3, G / 2, F, G); if (!a.CheckGroup()) return false; std::stringstream s; a.PublishGroup(s);
		GrothSKC b(3, s, G / 2, F, G); return b.CheckGroup(); });
	expect("vsshe", [&]() { BarnettSmartVTMF_dlog v(F, G, true, true); Z h; v.RandomElement(h.w());
		GrothVSSHE a(3, v.p, v.q, v.k, v.g, h, G / 2, F, G); if (!a.CheckGroup()) return false; std::stringstream s; a.PublishGroup(s);
		GrothVSSHE b(3, s, G / 2, F, G); return b.CheckGroup(); });
	expect("vrhe", [&]() { HooghSchoenmakersSkoricVillegasVRHE a(F, G); if (!a.CheckGroup()) return false; std::stringstream s; a.PublishGroup(s);
		HooghSchoenmakersSkoricVillegasVRHE b(s, F, G); return b.CheckGroup(); });
	expect("trapdoor", [&]() { PedersenTrapdoorCommitmentScheme a(F, G); if (!a.CheckGroup()) return false; std::stringstream s; a.PublishGroup(s);
		PedersenTrapdoorCommitmentScheme b(s, F, G); return b.CheckGroup(); });
	expect("eotp", [&]() { NaorPinkasEOTP a(F, G); if (!a.CheckGroup()) return false; std::stringstream s; a.PublishGroup(s);
		NaorPinkasEOTP b(s, F, G); return b.CheckGroup(); });
	// the CRS classes on a VTMF-generated canonical group with a random second generator
	expect("crs", [&]() { BarnettSmartVTMF_dlog v(F, G, true, true); Z h; do v.RandomElement(h.w()); while (!mpz_cmp(h, v.g) || !zcmpui(h, 1));
		PedersenVSS a(3, 1, 0, v.p, v.q, v.g, h, F, G, false, ""); GennaroJareckiKrawczykRabinDKG b(3, 1, 0, v.p, v.q, v.g, h, F, G, true, false, "");
		GennaroJareckiKrawczykRabinNTS c(3, 1, 0, v.p, v.q, v.g, h, F, G, true, false);
		CanettiGennaroJareckiKrawczykRabinRVSS d(3, 1, 0, 1, v.p, v.q, v.g, h, F, G, true, false, ""); CanettiGennaroJareckiKrawczykRabinZVSS e(3, 1, 0, 1, v.p, v.q, v.g, h, F, G, true, false, "");
		CanettiGennaroJareckiKrawczykRabinDKG f(3, 1, 0, v.p, v.q, v.g, h, F, G, true, false, ""); CanettiGennaroJareckiKrawczykRabinDSS g(3, 1, 0, v.p, v.q, v.g, h, F, G, true, false);
		JareckiLysyanskayaRVSS i(3, 1, v.p, v.q, v.g, h, F, G); JareckiLysyanskayaEDCF j(3, 1, v.p, v.q, v.g, h, F, G);
		return a.CheckGroup() && b.CheckGroup() && c.CheckGroup() && d.CheckGroup() && e.CheckGroup() && f.CheckGroup() && g.CheckGroup() && i.CheckGroup() && j.CheckGroup(); });
}

// ---- many generators: the commitment scheme keeps fixed-base tables only for the first TMCG_MAX_FPOWM_N generators, every
// loop of CheckGroup must nevertheless run over all of them -----------------------------------------------------------------
static void run_many_gens(const std::vector<Cls> &cls, const std::string &only) {
	unsigned G = 11 + gen().below(3), F = 2 * G + 4 + gen().below(6);
	Params W = make_group(F, G, TMCG_MAX_CARDS);
	Z nonmem, t; for (;;) { gen_below(nonmem.w(), W.p); if (zcmpui(nonmem, 2) < 0) continue; mpz_powm(t.w(), nonmem, W.q, W.p); if (zcmpui(t, 1)) break; }
	std::vector<size_t> ns = { TMCG_MAX_FPOWM_N - 1, TMCG_MAX_FPOWM_N, TMCG_MAX_FPOWM_N + 1, TMCG_MAX_FPOWM_N + 2, 300, TMCG_MAX_CARDS };
	for (size_t n : ns) {
		Params V = W; V.gs.resize(n);
		std::vector<Params> ps; std::vector<std::string> names;
		ps.push_back(V); names.push_back("valid");
		std::set<size_t> idx = { 0, TMCG_MAX_FPOWM_N - 1, TMCG_MAX_FPOWM_N, n - 1 };
		for (size_t i : idx) {
			if (i >= n) continue;
			std::string at = "g[" + std::to_string(i) + "]";
			{ Params P = V; P.gs[i] = nonmem; ps.push_back(P); names.push_back(at + "=nonmember"); }
			{ Params P = V; mpz_set_ui(P.gs[i].w(), 1); ps.push_back(P); names.push_back(at + "=1"); }
			{ Params P = V; mpz_sub_ui(P.gs[i].w(), V.p, 1); ps.push_back(P); names.push_back(at + "=p-1"); }
			{ Params P = V; P.gs[i] = V.h; ps.push_back(P); names.push_back(at + "=h"); }
			{ Params P = V; P.gs[i] = V.gs[i ? i - 1 : 1]; ps.push_back(P); names.push_back(at + "=neighbour"); }
			{ Params P = V; mpz_add(P.gs[i].w(), V.gs[i], V.p); ps.push_back(P); names.push_back(at + "=x+p"); }
		}
		for (const Cls &c : cls) {
			if (c.shape != S_COM && c.shape != S_VSSHE) continue;
			if (!only.empty() && only != c.name) continue;
			std::vector<std::string> vs = guarded_batch(ps.size(), [&](size_t j) { return b01(c.check(ps[j], false)); }, 120);
			for (size_t j = 0; j < ps.size(); j++) judge(c, "many" + std::to_string(n), "n=" + std::to_string(n) + "," + names[j], ps[j], false, true, vs[j]);
		}
	}
}

// ---- QR class ---------------------------------------------------------------------------------------------------------------
static void run_qr(const std::vector<Cls> &cls, unsigned F0, bool with_rec) {
	const Cls *qc = nullptr; for (const Cls &c : cls) if (c.shape == S_QR) qc = &c;
	Params V = make_qr(F0, 7);
	unsigned F = V.F;
	std::string gname = "qr" + std::to_string(F);
	std::vector<unsigned long> Es = { (unsigned long)F / 2, (unsigned long)F, (unsigned long)F + 1, 1UL, 0UL };
	{	// valid set under several exponent sizes; the generator as recomputed by the stream constructor
		std::vector<std::string> vs = guarded_batch(Es.size(), [&](size_t j) { QR_E = Es[j]; std::istringstream in(group_stream(V, S_QR));
			BarnettSmartVTMF_dlog_GroupQR x(in, V.F, QR_E); return b01(x.CheckGroup()) + ":" + hx(x.g); });
		for (size_t j = 0; j < Es.size(); j++) {
			QR_E = Es[j];
			size_t c = vs[j].find(':');
			std::string v = c == std::string::npos ? vs[j] : vs[j].substr(0, c), g = c == std::string::npos ? "crash" : vs[j].substr(c + 1);
			judge(*qc, gname, "valid,E=" + std::to_string(Es[j]), V, true, with_rec, v);
			if (with_rec) Rec("qr_gen").u(Es[j]).z(V.p).t(g);
		}
	}
	QR_E = F / 2;
	std::vector<Corr> cat = catalogue(V, nullptr, nullptr);
	std::vector<Params> ps; std::vector<std::string> names;
	for (const Corr &k : cat) { if (k.field != "p" && k.field != "q" && k.field != "g" && k.field != "k") continue; ps.push_back(k.P); names.push_back(k.name); }
	// consistently generated pairs that violate exactly one clause
	{ Params P = make_qr(F, 3); ps.push_back(P); names.push_back("p=3mod8"); }
	{ Params P = make_qr(F, 3); ps.push_back(P); names.push_back("p=3mod8(second)"); }
	if (F >= 12) { Params P = make_qr(F, 7, 1, false, true); ps.push_back(P); names.push_back("q-composite(p=2q+1-prime)"); }
	if (F >= 12) { Params P = make_qr(F, 7, 1, true, false); ps.push_back(P); names.push_back("p-composite(q-prime)"); }
	{ Params P = make_qr(F - 1, 7, -1); P.F = F; ps.push_back(P); names.push_back("p=short(valid-smaller-field)"); }
	{ Params P = V; mpz_mul_ui(P.q.w(), V.q, 3); mpz_mul_2exp(P.p.w(), P.q, 1); mpz_add_ui(P.p.w(), P.p, 1); ps.push_back(P); names.push_back("q=3q,p=2q+1"); }
	std::vector<std::string> vs = guarded_batch(ps.size(), [&](size_t j) { return b01(qc->check(ps[j], true)); });
	for (size_t j = 0; j < ps.size(); j++) judge(*qc, gname, names[j], ps[j], true, with_rec, vs[j]);
}

// ---- CheckElement ------------------------------------------------------------------------------------------------------------
static void run_elements_small(const std::vector<Cls> &cls, unsigned F, unsigned G) {
	Params V = make_group(F, G, 0);
	long p = mpz_get_si(V.p);
	// powers of g
	std::set<long> sub; { Z t(1); for (long i = 0; i < mpz_get_si(V.q); i++) { sub.insert(mpz_get_si(t)); mpz_mul(t.w(), t, V.g); mpz_mod(t.w(), t, V.p); } }
	std::string ref; bool have_ref = false;
	for (const Cls &c : cls) {
		if (!c.elem || c.shape == S_QR) continue;
		// one child per class: the whole sweep inside, the accepted list comes back through a pipe
		int fd[2]; if (pipe(fd)) exit(3);
		std::string v = guarded([&]() {
			std::string acc; std::vector<Z> as; for (long a = -2; a <= p + 2; a++) as.push_back(Z(a));
			std::vector<int> rr = c.elem(V, as);
			for (size_t i = 0; i < as.size(); i++) if (rr[i]) { if (!acc.empty()) acc += ","; acc += hxs((long)i - 2); }
			if (acc.empty()) acc = "_"; acc += "\n";
			size_t off = 0; while (off < acc.size()) { ssize_t n = write(fd[1], acc.c_str() + off, acc.size() - off); if (n <= 0) return false; off += n; }
			return true; }, 300);
		close(fd[1]);
		std::string acc; char buf[65536]; ssize_t n; while ((n = read(fd[0], buf, sizeof buf)) > 0) acc.append(buf, n); close(fd[0]);
		if (v != "1" || acc.empty()) { propfail(std::string("elem-abnormal:") + c.name, "CheckElement sweep ended with " + v + " for p=" + hx(V.p)); continue; }
		acc.pop_back();
		Rec("elem").t(c.name).z(V.p).z(V.q).i(-2).d(p + 5).t(acc);
		// implementation-level oracle: accepted set = powers of g
		std::set<long> got; if (acc != "_") { std::stringstream ss(acc); std::string tok; while (std::getline(ss, tok, ',')) got.insert(strtol(tok.c_str(), 0, 16)); }
		if (got != sub) {
			std::string w; for (long a = -2; a <= p + 2 && w.empty(); a++) if (got.count(a) != sub.count(a)) w = std::to_string(a);
			propfail(std::string("elem-set:") + c.name, std::string(c.name) + " CheckElement accepts a set different from <g> for p=" + std::to_string(p) + " q=" + hx(V.q) + " g=" + hx(V.g) + " first difference a=" + w);
		}
		if (!have_ref) { ref = acc; have_ref = true; }
	}
}
static void run_elements_qr(const std::vector<Cls> &cls, unsigned F) {
	const Cls *qc = nullptr; for (const Cls &c : cls) if (c.shape == S_QR) qc = &c;
	Params V = make_qr(F, 7); QR_E = F / 2; long p = mpz_get_si(V.p);
	std::set<long> sq; for (long a = 1; a < p; a++) sq.insert((a * a) % p);
	std::string acc;
	{ std::istringstream in(group_stream(V, S_QR)); BarnettSmartVTMF_dlog_GroupQR x(in, V.F, QR_E);
	  for (long a = -2; a <= p + 2; a++) { Z za(a); bool r = x.CheckElement(za); if (r) { if (!acc.empty()) acc += ","; acc += hxs(a); }
		if (r != (sq.count(a) > 0)) propfail("elem-set:qr", "QR CheckElement wrong on a=" + std::to_string(a) + " p=" + std::to_string(p)); } }
	if (acc.empty()) acc = "_";
	Rec("elem_qr").z(V.p).i(-2).d(p + 5).t(acc);
	(void)qc;
}
// single calls on arbitrary (p, q, a), incl. composite p, q <= 0 (division by zero inside mpz_powm is an outcome)
static void run_elem_single(unsigned n) {
	std::vector<Z> ps(n), qs(n), as(n);
	for (unsigned i = 0; i < n; i++) {
		Z &p = ps[i], &q = qs[i], &a = as[i];
		unsigned sel = gen().below(8);
		gen_bits(p.w(), 1 + gen().below(sel < 6 ? 10 : 40));
		gen_bits(q.w(), 1 + gen().below(8)); if (gen().below(3) == 0) mpz_neg(q.w(), q); if (gen().below(10) == 0) mpz_set_ui(q.w(), 0);
		if (gen().below(12) == 0) mpz_neg(p.w(), p);
		if (sel == 0) { Params V = make_group(10 + gen().below(6), 4 + gen().below(3), 0); p = V.p; q = V.q; if (gen().coin()) mpz_neg(q.w(), q); }
		long d = (long)gen().below(5) - 2;
		switch (gen().below(5)) { case 0: mpz_set_si(a.w(), d); break; case 1: mpz_set(a.w(), p); if (d < 0) mpz_sub_ui(a.w(), a, -d); else mpz_add_ui(a.w(), a, d); break;
			default: if (zsgn(p) > 0) gen_below(a.w(), p); else gen_bits(a.w(), 8); break; }
	}
	auto mk = [&](size_t i) { Params P; P.p = ps[i]; P.q = qs[i]; mpz_set_ui(P.g.w(), 2); mpz_set_ui(P.k.w(), 2); P.F = 1; P.G = 1; return P; };
	std::vector<std::string> v = guarded_batch(n, [&](size_t i) { Params P = mk(i); std::istringstream in(group_stream(P, S_VTMF)); BarnettSmartVTMF_dlog x(in, 1, 1, false, false); return b01(x.CheckElement(as[i])); });
	std::vector<std::string> w = guarded_batch(n, [&](size_t i) { Params P = mk(i); std::istringstream in(group_stream(P, S_GH)); PedersenVSS x(3, 1, 0, P.p, P.q, P.g, P.g, 1, 1, false, ""); return b01(x.CheckElement(as[i])); });
	for (unsigned i = 0; i < n; i++) {
		if (v[i] != w[i] && (v[i] == "0" || v[i] == "1") && (w[i] == "0" || w[i] == "1"))
			propfail("elem-copies-differ", "VTMF and PedersenVSS CheckElement differ: " + v[i] + " vs " + w[i] + " p=" + hx(ps[i]) + " q=" + hx(qs[i]) + " a=" + hx(as[i]));
		Rec("elem1").z(ps[i]).z(qs[i]).z(as[i]).t(vtok(v[i]));
	}
}
// the GMP primitives as modelled
static void run_prims(unsigned n) {
	std::vector<Z> bs(n), es(n), ms(n);
	for (unsigned i = 0; i < n; i++) {
		Z &b = bs[i], &e = es[i], &m = ms[i]; gen_bits(b.w(), 1 + gen().below(24)); gen_bits(e.w(), 1 + gen().below(12)); gen_bits(m.w(), 1 + gen().below(20));
		if (gen().below(3) == 0) mpz_neg(b.w(), b); if (gen().below(3) == 0) mpz_neg(e.w(), e); if (gen().below(6) == 0) mpz_neg(m.w(), m);
		if (gen().below(15) == 0) mpz_set_ui(m.w(), gen().below(3)); if (gen().below(15) == 0) mpz_set_ui(e.w(), 0); if (gen().below(15) == 0) mpz_set_ui(b.w(), 0);
	}
	std::vector<std::string> v = guarded_batch(n, [&](size_t i) { Z r; mpz_powm(r.w(), bs[i], es[i], ms[i]); return hx(r); });
	for (unsigned i = 0; i < n; i++) {
		Rec("powm").z(bs[i]).z(es[i]).z(ms[i]).t(v[i].substr(0, 5) == "crash" ? "crash" : v[i]);
		Rec("size2").z(bs[i]).u(bits(bs[i]));
	}
	Z z0; Rec("size2").z(z0).u(bits(z0));
}

int main(int argc, char **argv) {
	Args A(argc, argv);
	// common.hh seeds the case generator with seed*golden+17: consecutive seeds are the same SplitMix64 stream shifted by one
	// draw (and converge after the first rejection loop).  Hash the seed instead.
	{ SplitMix64 m(A.seed ^ 0xD1B54A32D192ED03ULL); m.next(); gen() = SplitMix64(m.next()); }
	if (!init_libTMCG()) { fprintf(stderr, "init_libTMCG failed\n"); return 2; }
	std::string part = "all", only;
	for (int i = 1; i < argc; i++) {
		if (!strcmp(argv[i], "--part") && i + 1 < argc) part = argv[++i];
		if (!strcmp(argv[i], "--shard") && i + 1 < argc) { sscanf(argv[++i], "%u/%u", &SHARD_I, &SHARD_N); if (!SHARD_N) SHARD_N = 1; }
	}
	only = A.only;
	std::vector<Cls> cls = classes();
	auto want = [&](const char *p) { return part == "all" || part == p; };

	if (want("prims")) run_prims(A.thorough() ? 3000 : 400);
	if (want("elem")) {
		for (unsigned r = 0; r < (A.thorough() ? 6u : 2u); r++) run_elements_small(cls, 9 + gen().below(3), 4 + gen().below(2));
		for (unsigned r = 0; r < (A.thorough() ? 4u : 2u); r++) run_elements_qr(cls, 6 + gen().below(6));
		run_elem_single(A.thorough() ? 1500 : 250);
	}
	if (want("small")) {   // model-compared catalogue on groups the extracted model can handle
		unsigned rounds = A.thorough() ? 6 : 2;
		for (unsigned r = 0; r < rounds; r++) {
			unsigned G = (r % 2 == 0) ? 5 + gen().below(4) : 16 + gen().below(12);
			unsigned F = (r % 2 == 0) ? 14 + gen().below(10) : 40 + gen().below(24); if (F < 2 * G + 4) F = 2 * G + 4;
			Params V = make_group(F, G, 3), S = make_group(F - 2, G, 3), Q = make_group(F, G, 3, true);
			run_catalogue(cls, "small" + std::to_string(F) + "/" + std::to_string(G), V, &S, &Q, only, true);
			run_vsshe_own(V, only);
			// sign observations (outside the catalogue: two fields change): model comparison only
			if (SHARD_I == 0) { Params P = V; mpz_neg(P.q.w(), P.q); mpz_neg(P.k.w(), P.k);
			  std::vector<const Cls *> cs; for (const Cls &c : cls) if ((c.shape == S_VTMF || c.shape == S_COM || c.shape == S_TRAP) && (only.empty() || only == c.name)) cs.push_back(&c);
			  std::vector<std::string> vs = guarded_batch(cs.size(), [&](size_t j) { return b01(cs[j]->check(P, false)); });
			  for (size_t j = 0; j < cs.size(); j++) { if (vs[j] == "1") printf("OBSERVE negative-order-accepted %s (q,k negated)\n", cs[j]->name); rec_for(*cs[j], P, false, vtok(vs[j])); } }
			{ unsigned qf = 8 + gen().below(40); if (SHARD_I == 0 && (only.empty() || only == "qr")) run_qr(cls, qf, true); }
		}
	}
	if (want("many")) run_many_gens(cls, only);
	if (want("big")) {     // implementation-level oracle only
		unsigned F = A.thorough() ? 1024 : 512, G = 160;
		Params V = make_group(F, G, 3), S = make_group(F - 8, G, 3), Q = make_group(F, G, 3, true);
		run_catalogue(cls, "big" + std::to_string(F) + "/" + std::to_string(G), V, &S, &Q, only, false);
		run_vsshe_own(V, only);
		if (SHARD_I == 0 && (only.empty() || only == "qr")) run_qr(cls, A.thorough() ? 512 : 256, false);
		// sampled element checks on the big group
		for (size_t ci = 0; ci < cls.size(); ci++) {
			const Cls &c = cls[ci];
			if (!c.elem || c.shape == S_QR) continue;
			if (!only.empty() && only != c.name) continue;
			if (ci % SHARD_N != SHARD_I) continue;
			std::vector<Z> as(12); std::vector<int> member(12, 0);
			for (int i = 0; i < 12; i++) {
				Z &a = as[i]; Z e; member[i] = i < 4;
				switch (i) { case 0: case 1: case 2: case 3: gen_below(e.w(), V.q); mpz_powm(a.w(), V.g, e, V.p); break;
					case 4: mpz_set_ui(a.w(), 0); break; case 5: mpz_set(a.w(), V.p); break; case 6: mpz_add(a.w(), V.g, V.p); break;
					case 7: mpz_sub(a.w(), V.p, V.g); break; case 8: mpz_neg(a.w(), V.g); break; case 9: mpz_sub_ui(a.w(), V.p, 1); break;
					case 10: mpz_set_ui(a.w(), 1); member[i] = 1; break; default: gen_below(a.w(), V.p); { Z t; mpz_powm(t.w(), a, V.q, V.p); member[i] = zsgn(a) > 0 && !zcmpui(t, 1); } break; }
			}
			std::vector<std::string> vs = guarded_batch(1, [&](size_t) { std::vector<int> r = c.elem(V, as); std::string t; for (int x : r) t += x ? '1' : '0'; return t; });
			for (int i = 0; i < 12; i++) {
				n_cases++;
				bool got = vs[0].size() == 12 && vs[0][i] == '1';
				if (vs[0].size() != 12) { propfail(std::string("elem-abnormal:") + c.name, "CheckElement on the big group ended with " + vs[0]); break; }
				if (got != (member[i] != 0)) propfail(std::string("elem-big:") + c.name + ":" + std::to_string(i), std::string(c.name) + " CheckElement returned " + b01(got) + " for case " + std::to_string(i) + " a=" + hx(as[i]) + " p=" + hx(V.p) + " q=" + hx(V.q));
			}
		}
	}
	if (want("own")) {
		own_generated(96, 40, only);
		own_generated(A.thorough() ? 1024 : 384, 160, only);
		if (A.thorough()) own_generated(TMCG_DDH_SIZE, TMCG_DLSE_SIZE, only);
	}
	printf("STAT cases=%lu accepted=%lu refused=%lu\n", n_cases, n_accepted, n_refused);
	return 0;
}
