// C12 harness -- "Untrusted input never corrupts memory or kills the process".
//  (1) in-process correspondence records (REC ...) for the modelled OpenPGP length decoders / Radix-64 decoder
//      (coq/PgpLenModel.v), printed by batch 0 only;
//  (2) the implementation-level oracle: structure-aware mutations of valid exports / group descriptions / proofs /
//      keys / OpenPGP data are fed to every importer, stream constructor, parser and verifier receive side; each case
//      runs in a child process (harness/c12_run.hh).  A signal, sanitizer report, abort, CPU-time limit, allocation
//      limit or a non-standard exception escaping the library is reported as PROPFAIL <target> ...
// Usage: c12 --tier quick|thorough --seed S [--jobs J] [--only target,target,...] [--norec] [--errdir DIR]
//        c12 --one <target> <file>     run one input in-process (replay, valgrind)
//        c12 --vg                      the valgrind subset in-process (paths where libgmp writes caller buffers)
#include "common.hh"
#include <fstream>
#include <map>
#include <functional>
#include <typeinfo>
#include <algorithm>
#include <streambuf>
#define private public
#define protected public
#include <libTMCG.hh>
#undef private
#undef protected
#include "c12_run.hh"
#include "c12_mut.hh"
#include "c12_corpus.hh"
#include <sys/mman.h>
#include <new>
using namespace verif;
using namespace c12;

// ---- operator new[] / delete[] -----------------------------------------------------------------------------------------
// The stream operators of stacks allocate a line buffer of TMCG_MAX_STACK_CHARS (640 MiB) per call.  Under ASan
// every such allocation costs seconds (shadow poisoning), which would turn honest verifier runs into time-outs.
// Array allocations of 64 MiB and more are therefore served by mmap with a PROT_NONE guard page directly behind the
// buffer (an overrun still faults); everything smaller goes to malloc, i.e. stays fully instrumented by ASan.
// An array allocation above 2 GiB (the library's own TMCG_OPENPGP_MAX_ALLOC) counts as unbounded allocation.
static const size_t GIANT_MIN = (size_t)64 << 20, GIANT_MAX = (size_t)2048 << 20;
static struct { void *user, *base; size_t len; bool busy; } giant_tab[32];
static void *giant_alloc(size_t n) {
	if (n > GIANT_MAX) { fprintf(stderr, "C12-ALLOC-LIMIT: array allocation of %zu bytes requested\n", n); abort(); }
	size_t pg = 4096, body = (n + pg - 1) / pg * pg, len = body + pg;
	// mappings are kept and reused (ASan intercepts mmap/munmap and touches the shadow of the whole range each time)
	for (auto &g : giant_tab) if (g.base && !g.busy && g.len == len) { g.busy = true; g.user = (char*)g.base + ((body - n) & ~(size_t)15); return g.user; }
	char *m = (char*)mmap(0, len, PROT_READ | PROT_WRITE, MAP_PRIVATE | MAP_ANONYMOUS | MAP_NORESERVE, -1, 0);
	if (m == MAP_FAILED) throw std::bad_alloc();
	mprotect(m + body, pg, PROT_NONE);
	char *u = m + ((body - n) & ~(size_t)15);
	for (auto &g : giant_tab) if (!g.base) { g.user = u; g.base = m; g.len = len; g.busy = true; return u; }
	munmap(m, len); throw std::bad_alloc();
}
static bool giant_free(void *p) {
	if (!p) return false;
	for (auto &g : giant_tab) if (g.busy && g.user == p) { g.busy = false; g.user = 0; return true; }
	return false;
}
void *operator new[](size_t n) { if (n >= GIANT_MIN) return giant_alloc(n); void *p = malloc(n ? n : 1); if (!p) throw std::bad_alloc(); return p; }
void *operator new[](size_t n, const std::nothrow_t &) noexcept { try { return operator new[](n); } catch (...) { return 0; } }
void operator delete[](void *p) noexcept { if (!giant_free(p)) free(p); }
void operator delete[](void *p, size_t) noexcept { if (!giant_free(p)) free(p); }
void operator delete[](void *p, const std::nothrow_t &) noexcept { if (!giant_free(p)) free(p); }
typedef CallasDonnerhackeFinneyShawThayerRFC4880 R;

static const unsigned long FS = 512, GS = 160;      // small VTMF group (field / subgroup bits) for deep reach at low cost
static const unsigned long QFS = 256, QGS = 128;    // QR group
static const unsigned long SEC = 3;                 // cut-and-choose rounds
static const size_t NP = 2, TB = 3, NC = 4;         // players, type bits, cards in a stack

// ---- small helpers -----------------------------------------------------------------------------------------------
static std::string str(mpz_srcptr z) { std::ostringstream o; o << z; return o.str(); }
template<class T> static std::string exp_(const T &x) { std::ostringstream o; o << x; return o.str(); }
static tmcg_openpgp_octets_t oct(const std::string &s) { return tmcg_openpgp_octets_t(s.begin(), s.end()); }
static std::string sto(const tmcg_openpgp_octets_t &o) { return std::string(o.begin(), o.end()); }
static std::string unhex(const std::string &h) { std::string r; for (size_t i = 0; i + 1 < h.size(); i += 2) r += (char)strtoul(h.substr(i, 2).c_str(), 0, 16); return r; }

// streams over file descriptors (unbuffered; the reader can log what it consumed)
struct FdIn : std::streambuf {
	int fd; std::string *log; char c;
	FdIn(int f, std::string *l) : fd(f), log(l) {}
	int underflow() override { ssize_t n = read(fd, &c, 1); if (n <= 0) return traits_type::eof(); if (log) log->push_back(c); setg(&c, &c, &c + 1); return (unsigned char)c; }
};
struct FdOut : std::streambuf {
	int fd; explicit FdOut(int f) : fd(f) {}
	int overflow(int ch) override { if (ch != traits_type::eof()) { char c = (char)ch; if (write(fd, &c, 1) != 1) return traits_type::eof(); } return ch; }
	std::streamsize xsputn(const char *s, std::streamsize n) override { write_all(fd, std::string(s, n)); return n; }
};

// run an interactive proof once (honest prover in a child process, verifier here with the library RNG seeded by
// vseed) and return everything the verifier read: the transcript replayed (and mutated) later
static std::string record(const std::function<void(std::istream &, std::ostream &)> &prover,
	const std::function<bool(std::istream &, std::ostream &)> &verifier, uint64_t vseed, bool &accepted)
{
	int p2v[2], v2p[2]; if (pipe(p2v) || pipe(v2p)) { perror("pipe"); exit(3); }
	fflush(stdout);
	pid_t pid = fork();
	if (pid == 0) {
		close(p2v[0]); close(v2p[1]);
		FdIn ib(v2p[0], 0); FdOut ob(p2v[1]); std::istream in(&ib); std::ostream out(&ob);
		alarm(120);
		try { prover(in, out); } catch (...) {}
		_exit(0);
	}
	close(p2v[1]); close(v2p[0]);
	signal(SIGPIPE, SIG_IGN);
	std::string log; FdIn ib(p2v[0], &log); FdOut ob(v2p[1]); std::istream in(&ib); std::ostream out(&ob);
	reseed_lib(vseed);
	try { accepted = verifier(in, out); } catch (...) { accepted = false; }
	close(v2p[1]); close(p2v[0]);
	int st; waitpid(pid, &st, 0);
	return log;
}

// ---- context: valid objects every target starts from --------------------------------------------------------------
struct Ctx {
	BarnettSmartVTMF_dlog *vtmf = 0, *vtmfB = 0; std::string vtmf_group, vtmf_key2, vtmf_keyA;
	SchindelhauerTMCG *tmcg = 0;
	TMCG_SecretKey *sec[NP]; TMCG_PublicKeyRing *ring = 0;
	TMCG_SecretKey *nizk = 0;     // a key with NIZK proof (import / check targets)
	TMCG_Stack<VTMF_Card> vs, vs2; TMCG_StackSecret<VTMF_CardSecret> vss;
	TMCG_Stack<TMCG_Card> ts, ts2; TMCG_StackSecret<TMCG_CardSecret> tss;
	GrothVSSHE *vsshe = 0; HooghSchoenmakersSkoricVillegasVRHE *vrhe = 0;
	TMCG_StackSecret<VTMF_CardSecret> vss_rot; TMCG_Stack<VTMF_Card> vs2_rot;
	mpz_t a, b, c, d, e;
} C;

struct Target {
	std::string name; char fmt;          // 't' text fields, 'p' OpenPGP binary, 'a' armored text
	std::string delims; size_t lead, hugechars;
	std::vector<std::string> valid;      // valid inputs (expected: accepted)
	std::vector<Mut> pinned;             // hand-made boundary witnesses, always run
	std::function<std::string(const std::string &)> run;
	bool expect_accept = true;           // valid inputs must be accepted (harness sanity, reported as NOTE)
	unsigned weight = 1;                 // share of the random budget
};
static std::vector<Target> T;
static Target &add(const std::string &name, char fmt, const std::string &delims, size_t lead, size_t huge,
	const std::function<std::string(const std::string &)> &run) {
	T.push_back(Target()); Target &t = T.back(); t.name = name; t.fmt = fmt; t.delims = delims; t.lead = lead; t.hugechars = huge; t.run = run; return t;
}
static const char *res(bool ok) { return ok ? "accept" : "reject"; }

// ---- importers ------------------------------------------------------------------------------------------------------
template<class X> static std::string run_import(const std::string &in, bool stream_too) {
	X x; bool ok = x.import(in);
	if (ok) { std::string e = exp_(x); X y; if (!y.import(e)) return "accept-noreimport"; }
	if (stream_too) { std::istringstream is(in + "\n"); X z; is >> z; if (is.good() != ok && in.find('\n') == in.npos && in.find('\0') == in.npos) return ok ? "accept-streamreject" : "reject-streamaccept"; }
	return res(ok);
}

static void setup_importers() {
	VTMF_Card vc; C.tmcg->TMCG_CreateOpenCard(vc, C.vtmf, 3);
	VTMF_CardSecret vcs; C.tmcg->TMCG_CreateCardSecret(vcs, C.vtmf);
	TMCG_Card tc(NP, TB); C.tmcg->TMCG_CreateOpenCard(tc, *C.ring, 5);
	TMCG_CardSecret tcs(NP, TB); C.tmcg->TMCG_CreateCardSecret(tcs, *C.ring, 0);
	add("imp-vtmf-card", 't', "|", 4, 700, [](const std::string &s) { return run_import<VTMF_Card>(s, true); }).valid = { exp_(vc) };
	add("imp-vtmf-cardsecret", 't', "|", 3, 700, [](const std::string &s) { return run_import<VTMF_CardSecret>(s, true); }).valid = { exp_(vcs) };
	add("imp-tmcg-card", 't', "|", 5, 700, [](const std::string &s) { return run_import<TMCG_Card>(s, true); }).valid = { exp_(tc) };
	add("imp-tmcg-cardsecret", 't', "|", 5, 700, [](const std::string &s) { return run_import<TMCG_CardSecret>(s, true); }).valid = { exp_(tcs) };
	{
		Target &t = add("imp-tmcg-card", 't', "|", 5, 700, [](const std::string &s) { return run_import<TMCG_Card>(s, false); });
		t.name = "imp-tmcg-card-dims";   // dimension boundaries with enough fields behind them
		std::string body; for (int i = 0; i < 400; i++) body += "1|";
		for (const char *k : { "0", "1", "32", "33", "4294967297", "18446744073709551617", "-1" }) for (const char *w : { "0", "1", "10", "11", "4294967297", "-1" })
			t.pinned.push_back({ std::string("crd|") + k + "|" + w + "|" + body, std::string("dims") + k + "x" + w });
		t.expect_accept = false;
	}
	add("imp-vtmf-stack", 't', "^|", 4, 700, [](const std::string &s) { return run_import<TMCG_Stack<VTMF_Card> >(s, false); }).valid = { exp_(C.vs), exp_(C.vs2) };
	add("imp-tmcg-stack", 't', "^|", 6, 700, [](const std::string &s) { return run_import<TMCG_Stack<TMCG_Card> >(s, false); }).valid = { exp_(C.ts) };
	add("imp-vtmf-stacksecret", 't', "^|", 5, 700, [](const std::string &s) { return run_import<TMCG_StackSecret<VTMF_CardSecret> >(s, false); }).valid = { exp_(C.vss) };
	add("imp-tmcg-stacksecret", 't', "^|", 7, 700, [](const std::string &s) { return run_import<TMCG_StackSecret<TMCG_CardSecret> >(s, false); }).valid = { exp_(C.tss) };
	{   // stack sizes at the limit (count field vs. number of cards present)
		Target &t = add("imp-stack-counts", 't', "^|", 3, 700, [](const std::string &s) {
			bool a = run_import<TMCG_Stack<VTMF_Card> >(s, false) == "accept"; bool b = run_import<TMCG_StackSecret<VTMF_CardSecret> >(s, false) == "accept"; return std::string(res(a || b)); });
		std::string cards, secs; for (int i = 0; i < 514; i++) { cards += "crd|1|2|^"; secs += std::to_string(i % 512) + "^crs|5|^"; }
		for (const char *n : { "0", "1", "511", "512", "513", "514", "4294967297", "18446744073709551616", "-1", "-511" }) {
			t.pinned.push_back({ std::string("stk^") + n + "^" + cards, std::string("stk-count") + n });
			t.pinned.push_back({ std::string("sts^") + n + "^" + secs, std::string("sts-count") + n });
		}
		t.pinned.push_back({ "sts^3^5^crs|1|^0^crs|1|^1^crs|1|^", "sts-index-beyond" });
		t.pinned.push_back({ "sts^3^0^crs|1|^0^crs|1|^1^crs|1|^", "sts-index-twice" });
		t.pinned.push_back({ "sts^2^18446744073709551615^crs|1|^0^crs|1|^", "sts-index-max" });
		t.expect_accept = false;
	}
	{   // integers through operator>> (line buffer of TMCG_MAX_VALUE_CHARS)
		Target &t = add("imp-mpz-stream", 't', "\n", 2, 5000, [](const std::string &s) {
			std::istringstream is(s); mpz_t v; mpz_init(v); is >> v; std::string r = is.good() ? "accept" : "reject"; is >> v; mpz_clear(v); return r; });
		t.valid = { str(C.vtmf->p) + "\n" + str(C.vtmf->q) + "\n" };
		for (size_t n : { (size_t)TMCG_MAX_VALUE_CHARS - 3, (size_t)TMCG_MAX_VALUE_CHARS - 2, (size_t)TMCG_MAX_VALUE_CHARS - 1, (size_t)TMCG_MAX_VALUE_CHARS, (size_t)TMCG_MAX_VALUE_CHARS + 1, (size_t)3 * TMCG_MAX_VALUE_CHARS })
			t.pinned.push_back({ std::string(n, 'z') + "\n5\n", "line" + std::to_string(n) });
	}
}

// ---- keys -----------------------------------------------------------------------------------------------------------
static void random_bits(mpz_ptr r, unsigned bits, SplitMix64 &g) {
	mpz_set_ui(r, 1);
	for (unsigned i = 0; i < (bits + 63) / 64; i++) { mpz_mul_2exp(r, r, 64); mpz_add_ui(r, r, g.next()); }
	mpz_tdiv_r_2exp(r, r, bits - 1); mpz_setbit(r, bits - 1); mpz_setbit(r, 0);
}
static void setup_keys() {
	std::string pub = exp_(TMCG_PublicKey(*C.nizk)), sec = exp_(*C.nizk);
	std::string pub0 = exp_(TMCG_PublicKey(*C.sec[0])), sec0 = exp_(*C.sec[0]);
	auto keyuse = [](TMCG_PublicKey &k) {
		k.fingerprint(); k.selfid(); k.keyid(); k.keyid(5); k.sigid(k.sig); k.keyid_size(k.sig);
		bool ok = mpz_sizeinbase(k.m, 2) <= 2500 ? k.check() : false;
		if (ok && mpz_sizeinbase(k.m, 2) >= 1024 && mpz_sizeinbase(k.m, 2) <= 4200) { unsigned char v[TMCG_SAEP_S0]; memset(v, 7, sizeof v); std::string e = k.encrypt(v); }
		return ok;
	};
	add("imp-publickey", 't', "|^", 9, 700, [keyuse](const std::string &s) {
		TMCG_PublicKey k; if (!k.import(s)) return std::string("reject"); return std::string(keyuse(k) ? "accept" : "import-only"); }).valid = { pub, pub0 };
	add("imp-publickey-stream", 't', "|^", 6, 700, [](const std::string &s) {
		std::istringstream is(s + "\n"); TMCG_PublicKey k; is >> k; return std::string(res(is.good())); }).valid = { pub0 };
	add("imp-secretkey", 't', "|^", 10, 700, [](const std::string &s) {
		TMCG_SecretKey k; if (!k.import(s)) return std::string("reject");
		k.fingerprint(); k.selfid(); k.keyid(); bool ok = mpz_sizeinbase(k.m, 2) <= 2500 ? k.check() : false; return std::string(ok ? "accept" : "import-only"); }).valid = { sec, sec0 };
	add("ctor-publickey", 't', "|^", 6, 700, [](const std::string &s) { TMCG_PublicKey k(s); return std::string(res(mpz_sgn(k.m) != 0)); }).valid = { pub0 };
	add("ctor-secretkey", 't', "|^", 6, 700, [](const std::string &s) { TMCG_SecretKey k(s); return std::string(res(mpz_sgn(k.m) != 0)); }).valid = { sec0 };
	// signature verification with an untrusted signature under a trusted key
	std::string sig = C.sec[0]->sign("data to be signed");
	add("key-verify-sig", 't', "|^", 6, 700, [](const std::string &s) {
		TMCG_PublicKey k(*C.sec[0]); bool a = k.verify("data to be signed", s); bool b = C.sec[0]->verify("data to be signed", s); return std::string(res(a && b)); }).valid = { sig };
	// untrusted key AND signature: "<key>\n<value>"  (the key ID is recomputed so that the value reaches the padding check)
	{
		Target &t = add("key-verify-foreignkey", 't', "|^\n", 8, 700, [](const std::string &s) {
			size_t nl = s.find('\n'); if (nl == s.npos) return std::string("reject");
			TMCG_PublicKey k; if (!k.import(s.substr(0, nl))) return std::string("reject");
			std::string sg = "sig|" + k.keyid() + "|" + s.substr(nl + 1) + "|";
			return std::string(res(k.verify("data", sg))); });
		{ TMCG_PublicKey k(*C.sec[0]); std::string sg = C.sec[0]->sign("data"); std::string v = sg.substr(sg.find('|', 4) + 1); v = v.substr(0, v.find('|')); t.valid = { exp_(k) + "\n" + v }; }
		// moduli of every length class around the 1024-byte word limit and far above it (F7: > 8192 bits)
		SplitMix64 g(4242); mpz_t m, v; mpz_init(m); mpz_init(v);
		for (unsigned bits : { 255u, 327u, 328u, 335u, 1031u, 2055u, 8191u, 8193u, 8199u, 9003u, 12291u, 16387u, 20003u }) {
			for (int k = 0; k < 3; k++) {
				random_bits(m, bits, g); gen_bits(v, bits + 3); mpz_mod(v, v, m);
				t.pinned.push_back({ "pub|x|y|TMCG/RABIN_" + std::to_string(bits) + "|" + str(m) + "|2|nzk|sig|\n" + str(v), "modulus" + std::to_string(bits) + "-" + std::to_string(k) });
			}
		}
		mpz_clear(m); mpz_clear(v);
		t.hugechars = 3400;
	}
	// decryption of an untrusted ciphertext with the own key
	unsigned char val[TMCG_SAEP_S0]; for (size_t i = 0; i < sizeof val; i++) val[i] = (unsigned char)i;
	std::string enc = TMCG_PublicKey(*C.sec[0]).encrypt(val);   // needs >= 640-bit keys (assert in encrypt)
	add("key-decrypt", 't', "|^", 6, 700, [](const std::string &s) { unsigned char out[TMCG_SAEP_S0 + 8]; return std::string(res(C.sec[0]->decrypt(out, s))); }).valid = { enc };
}

// ---- stream constructors -----------------------------------------------------------------------------------------------
template<class F> static void add_ctor(const std::string &name, const std::string &valid, size_t lead, F f) {
	Target &t = add("ctor-" + name, 't', "\n", lead, 700, [f](const std::string &s) { std::istringstream is(s); return std::string(f(is)); });
	t.valid = { valid + "2\n0\n-1\n" };   // lines behind the description: untrusted elements offered to CheckElement / TestMembership
	// explicit zero / one / negative / short-prime classes on the first two lines (p and q)
	std::vector<std::string> lines; { std::istringstream is(valid); std::string l; while (std::getline(is, l)) lines.push_back(l); }
	auto join = [&](std::vector<std::string> v) { std::string r; for (auto &l : v) r += l + "\n"; return r + "2\n3\n0\n"; };
	for (size_t i = 0; i < lines.size() && i < 4; i++) for (const char *v : { "0", "1", "-1", "2", "3", "z", "1z", "-z", "" }) {
		std::vector<std::string> l2 = lines; l2[i] = v; t.pinned.push_back({ join(l2), "line" + std::to_string(i) + "=" + v });
	}
	{ std::vector<std::string> l2 = lines; if (l2.size() >= 2) { l2[0] = "0"; l2[1] = "0"; t.pinned.push_back({ join(l2), "p=q=0" }); } }
	{ std::vector<std::string> l2 = lines; if (l2.size() >= 2) { l2[0] = "0"; l2[1] = "5"; t.pinned.push_back({ join(l2), "p=0,q=5" }); } }
	// two and three simultaneous corruptions among the first five lines: one value negated, another one zero / doubled /
	// replaced by the first line (the modulus) / negated as well, optionally a third one zero
	auto dbl = [](const std::string &x) { mpz_t z; mpz_init(z); std::string r = x; if (mpz_set_str(z, x.c_str(), TMCG_MPZ_IO_BASE) == 0) { mpz_mul_2exp(z, z, 1); r = str(z); } mpz_clear(z); return r; };
	auto neg = [](const std::string &x) { return (!x.empty() && x[0] == '-') ? x.substr(1) : "-" + x; };
	size_t nl = std::min(lines.size(), (size_t)5);
	for (size_t i = 0; i < nl; i++) for (size_t j = 0; j < nl; j++) if (i != j) {
		for (int op = 0; op < 4; op++) {
			std::vector<std::string> l2 = lines; l2[i] = neg(lines[i]);
			l2[j] = op == 0 ? std::string("0") : op == 1 ? dbl(lines[j]) : op == 2 ? lines[0] : neg(lines[j]);
			t.pinned.push_back({ join(l2), "neg" + std::to_string(i) + "+op" + std::to_string(op) + "@" + std::to_string(j) });
			if (op == 1) for (size_t k = 0; k < nl; k++) if (k != i && k != j) { std::vector<std::string> l3 = l2; l3[k] = "0"; t.pinned.push_back({ join(l3), "neg" + std::to_string(i) + "+dbl" + std::to_string(j) + "+zero" + std::to_string(k) }); break; }
		}
	}
	// order AND stored cofactor negated together (p = qk + 1 still holds), plus one further line congruent to 0: lines 1..3 hold
	// q and k in every published format (p q g k | p q k h g.. | p q g h ..), so all pairs among them are negated
	// (GrothVSSHE embeds a commitment scheme description behind its own four lines: the same again from line 4)
	for (size_t base = 0; base <= (name == "groth-vsshe" ? 4u : 0u); base += 4)
	for (size_t i = base + 1; i < base + 4 && i < lines.size(); i++) for (size_t j = i + 1; j < base + 4 && j < lines.size(); j++)
		for (size_t k = base; k < base + 8 && k < lines.size(); k++) if (k != i && k != j) for (int z = 0; z < 2; z++) {
			std::vector<std::string> l2 = lines; l2[i] = neg(lines[i]); l2[j] = neg(lines[j]); l2[k] = z ? lines[base] : std::string("0");
			t.pinned.push_back({ join(l2), "neg" + std::to_string(i) + "+neg" + std::to_string(j) + (z ? "+mod@" : "+zero@") + std::to_string(k) });
		}
}

// elements offered to CheckElement / TestMembership after a constructor whose CheckGroup succeeded: the remaining lines of
// the stream (untrusted) and boundary values around the modulus, small numbers sharing factors with a composite modulus
struct Elems {
	std::vector<mpz_ptr> v;
	void push(mpz_srcptr x) { mpz_ptr n = new mpz_t(); mpz_init_set(n, x); v.push_back(n); }
	Elems(std::istream &is, mpz_srcptr p) {
		std::string l; mpz_t z; mpz_init(z); size_t n = 0;
		while (n++ < 12 && std::getline(is, l)) if (l.size() < 5000 && mpz_set_str(z, l.c_str(), TMCG_MPZ_IO_BASE) == 0) push(z);
		for (long c : { 0L, 1L, 2L, 3L, 5L, 6L, 7L, 10L, 15L, -1L, -2L }) { mpz_set_si(z, c); push(z); }
		mpz_set(z, p); push(z); mpz_sub_ui(z, p, 1); push(z); mpz_add_ui(z, p, 1); push(z); mpz_mul_2exp(z, p, 1); push(z); mpz_neg(z, p); push(z);
		mpz_clear(z);
	}
	~Elems() { for (auto x : v) { mpz_clear(x); delete [] x; } }
};
template<class O> static void probe_elements(const O &o, mpz_srcptr p, std::istream &is) { Elems E(is, p); for (auto e : E.v) o.CheckElement(e); }
static bool smallp(mpz_srcptr p) { return mpz_sizeinbase(p, 2) <= 2100; }

static void setup_ctors() {
	std::ostringstream g; C.vtmf->PublishGroup(g);
	add_ctor("vtmf", g.str(), 4, [](std::istream &is) { BarnettSmartVTMF_dlog v(is, FS, GS); bool ok = smallp(v.p) && v.CheckGroup(); if (ok) { mpz_t x; mpz_init(x); v.RandomElement(x); v.IndexElement(x, 3); mpz_clear(x); probe_elements(v, v.p, is); } return res(ok); });
	static BarnettSmartVTMF_dlog *cg = new BarnettSmartVTMF_dlog(FS, GS, true); cg->KeyGenerationProtocol_GenerateKey();
	std::ostringstream gc; cg->PublishGroup(gc);
	add_ctor("vtmf-canonical", gc.str(), 4, [](std::istream &is) { BarnettSmartVTMF_dlog v(is, FS, GS, true); bool ok = smallp(v.p) && v.CheckGroup(); if (ok) probe_elements(v, v.p, is); return res(ok); });
	{
		BarnettSmartVTMF_dlog_GroupQR qr(QFS, QGS); std::ostringstream o; qr.PublishGroup(o);
		add_ctor("vtmf-groupqr", o.str(), 4, [](std::istream &is) { BarnettSmartVTMF_dlog_GroupQR v(is, QFS, QGS); bool ok = smallp(v.p) && v.CheckGroup(); if (ok) probe_elements(v, v.p, is); return res(ok); });
	}
	{
		PedersenCommitmentScheme com(3, C.vtmf->p, C.vtmf->q, C.vtmf->k, C.vtmf->h, FS, GS); std::ostringstream o; com.PublishGroup(o);
		add_ctor("pedersen-com", o.str(), 5, [](std::istream &is) { PedersenCommitmentScheme v(3, is, FS, GS); bool ok = smallp(v.p) && v.CheckGroup();
			if (ok) { Elems E(is, v.p); for (auto e : E.v) v.TestMembership(e); std::vector<mpz_ptr> m(E.v.begin(), E.v.begin() + 3);
				for (size_t i = 0; i + 1 < E.v.size(); i++) { try { v.Verify(E.v[i], E.v[i + 1], m); } catch (std::exception &) {} } }
			return res(ok); });
		add_ctor("groth-skc", o.str(), 5, [](std::istream &is) { GrothSKC v(3, is, 64, FS, GS); bool ok = smallp(v.com->p) && v.CheckGroup(); if (ok) { Elems E(is, v.com->p); for (auto e : E.v) v.com->TestMembership(e); } return res(ok); });
	}
	{
		std::ostringstream o; C.vsshe->PublishGroup(o);
		add_ctor("groth-vsshe", o.str(), 6, [](std::istream &is) { GrothVSSHE v(NC, is, 64, FS, GS); bool ok = smallp(v.p) && v.CheckGroup(); if (ok) { Elems E(is, v.p); for (auto e : E.v) v.com->TestMembership(e); } return res(ok); });
	}
	{
		std::ostringstream o; C.vrhe->PublishGroup(o);
		add_ctor("hoogh-vrhe", o.str(), 4, [](std::istream &is) { HooghSchoenmakersSkoricVillegasVRHE v(is, FS, GS); bool ok = smallp(v.p) && v.CheckGroup(); if (ok) probe_elements(v, v.p, is); return res(ok); });
	}
	{
		NaorPinkasEOTP ot(FS, GS); std::ostringstream o; ot.PublishGroup(o);
		add_ctor("naorpinkas-eotp", o.str(), 3, [](std::istream &is) { NaorPinkasEOTP v(is, FS, GS); bool ok = smallp(v.p) && v.CheckGroup(); if (ok) probe_elements(v, v.p, is); return res(ok); });
	}
	{
		PedersenTrapdoorCommitmentScheme tc(FS, GS); std::ostringstream o2; tc.PublishGroup(o2);
		add_ctor("pedersen-tc", o2.str(), 4, [](std::istream &is) { PedersenTrapdoorCommitmentScheme v(is, FS, GS); bool ok = smallp(v.p) && v.CheckGroup(); if (ok) { Elems E(is, v.p); for (size_t i = 0; i + 2 < E.v.size(); i++) v.Verify(E.v[i], E.v[i + 1], E.v[i + 2]); } return res(ok); });
	}
	{
		PedersenVSS vss(3, 1, 0, cg->p, cg->q, cg->g, cg->h, FS, GS, false); std::ostringstream o; vss.PublishState(o);
		add_ctor("pedersen-vss", o.str(), 8, [](std::istream &is) { PedersenVSS v(is, FS, GS, false); bool ok = smallp(v.p) && v.CheckGroup(); if (ok) probe_elements(v, v.p, is); return res(ok); });
		GennaroJareckiKrawczykRabinDKG dkg(3, 1, 0, C.vtmf->p, C.vtmf->q, C.vtmf->g, C.vtmf->h, FS, GS, false, false); std::ostringstream o2; dkg.PublishState(o2);
		add_ctor("gjkr-dkg", o2.str(), 8, [](std::istream &is) { GennaroJareckiKrawczykRabinDKG v(is, FS, GS, false, false); bool ok = smallp(v.p) && v.CheckGroup(); std::ostringstream s; v.PublishState(s);
			if (ok) { v.CheckKey(); for (size_t i = 0; i < v.n && i < 8; i++) v.CheckKey(i); probe_elements(v, v.p, is); } return res(ok); });
		CanettiGennaroJareckiKrawczykRabinRVSS rvss(3, 1, 0, 1, C.vtmf->p, C.vtmf->q, C.vtmf->g, C.vtmf->h, FS, GS, false, false); std::ostringstream o3; rvss.PublishState(o3);
		add_ctor("cgjkr-rvss", o3.str(), 9, [](std::istream &is) { CanettiGennaroJareckiKrawczykRabinRVSS v(is, FS, GS, false, false); bool ok = smallp(v.p) && v.CheckGroup(); std::ostringstream s; v.PublishState(s); if (ok) probe_elements(v, v.p, is); return res(ok); });
		CanettiGennaroJareckiKrawczykRabinZVSS zvss(3, 1, 0, 1, C.vtmf->p, C.vtmf->q, C.vtmf->g, C.vtmf->h, FS, GS, false, false); std::ostringstream o4; zvss.PublishState(o4);
		add_ctor("cgjkr-zvss", o4.str(), 9, [](std::istream &is) { CanettiGennaroJareckiKrawczykRabinZVSS v(is, FS, GS, false, false); bool ok = smallp(v.p) && v.CheckGroup(); std::ostringstream s; v.PublishState(s); if (ok) probe_elements(v, v.p, is); return res(ok); });
		CanettiGennaroJareckiKrawczykRabinDKG cdkg(3, 1, 0, C.vtmf->p, C.vtmf->q, C.vtmf->g, C.vtmf->h, FS, GS, false, false); std::ostringstream o5; cdkg.PublishState(o5);
		add_ctor("cgjkr-dkg", o5.str(), 8, [](std::istream &is) { CanettiGennaroJareckiKrawczykRabinDKG v(is, FS, GS, false, false); bool ok = smallp(v.p) && v.CheckGroup(); std::ostringstream s; v.PublishState(s); if (ok) probe_elements(v, v.p, is); return res(ok); });
		CanettiGennaroJareckiKrawczykRabinDSS dss(3, 1, 0, C.vtmf->p, C.vtmf->q, C.vtmf->g, C.vtmf->h, FS, GS, false, false); std::ostringstream o6; dss.PublishState(o6);
		add_ctor("cgjkr-dss", o6.str(), 8, [](std::istream &is) { CanettiGennaroJareckiKrawczykRabinDSS v(is, FS, GS, false, false); bool ok = smallp(v.p) && v.CheckGroup(); std::ostringstream s; v.PublishState(s);
			if (ok) { Elems E(is, v.p); for (auto e : E.v) v.CheckElement(e); for (size_t i = 0; i + 2 < E.v.size(); i++) v.Verify(E.v[i], E.v[i + 1], E.v[i + 2]); } return res(ok); });
	}
}

// threshold Schnorr signatures (new-TSch): CRS, public key and signature all from the stream; and a trusted instance
static GennaroJareckiKrawczykRabinNTS *trusted_nts = 0;
static void setup_nts() {
	BarnettSmartVTMF_dlog *v = C.vtmf;
	mpz_t x, y, k, r, c, sg, m; mpz_init(x); mpz_init(y); mpz_init(k); mpz_init(r); mpz_init(c); mpz_init(sg); mpz_init_set_ui(m, 424242);
	tmcg_mpz_srandomm(x, v->q); mpz_powm(y, v->g, x, v->p); tmcg_mpz_srandomm(k, v->q); mpz_powm(r, v->g, k, v->p);
	tmcg_mpz_shash(c, 2, m, r); mpz_mul(sg, c, x); mpz_add(sg, sg, k); mpz_mod(sg, sg, v->q);
	trusted_nts = new GennaroJareckiKrawczykRabinNTS(3, 1, 0, v->p, v->q, v->g, v->h, FS, GS, false, false); mpz_set(trusted_nts->y, y);
	std::string sig = str(m) + "\n" + str(c) + "\n" + str(sg) + "\n";
	add("nts-verify", 't', "\n", 3, 700, [](const std::string &s) {
		std::istringstream is(s); mpz_t a, b, d; mpz_init(a); mpz_init(b); mpz_init(d); bool ok = false;
		try { is >> a >> b >> d; ok = trusted_nts->Verify(a, b, d); } catch (...) { mpz_clear(a); mpz_clear(b); mpz_clear(d); throw; }
		mpz_clear(a); mpz_clear(b); mpz_clear(d); return std::string(res(ok)); }).valid = { sig };
	std::string crs = str(v->p) + "\n" + str(v->q) + "\n" + str(v->g) + "\n" + str(v->h) + "\n" + str(y) + "\n";
	add_ctor("gjkr-nts", crs + sig, 5, [](std::istream &is) {
		mpz_t p, q, g, h, y; mpz_init(p); mpz_init(q); mpz_init(g); mpz_init(h); mpz_init(y); bool ok = false;
		try {
			is >> p >> q >> g >> h >> y;
			if (mpz_sizeinbase(p, 2) <= 2100 && mpz_sizeinbase(q, 2) <= 2100) {
				GennaroJareckiKrawczykRabinNTS n(3, 1, 0, p, q, g, h, FS, GS, false, false);
				ok = n.CheckGroup();
				if (ok) { if (mpz_cmp_ui(y, 0) > 0 && mpz_cmp(y, p) < 0) { mpz_t t; mpz_init(t); mpz_powm(t, y, q, p); if (mpz_cmp_ui(t, 1)) mpz_powm_ui(y, g, 7, p); mpz_clear(t); } else mpz_powm_ui(y, g, 7, p); mpz_set(n.y, y); }   // the key itself is not wire data: keep it a group element
				if (ok) { Elems E(is, p); ok = E.v.size() > 2 && n.Verify(E.v[0], E.v[1], E.v[2]); for (size_t i = 0; i + 2 < E.v.size(); i++) n.Verify(E.v[i], E.v[i + 1], E.v[i + 2]); }
			}
		} catch (...) { mpz_clear(p); mpz_clear(q); mpz_clear(g); mpz_clear(h); mpz_clear(y); throw; }
		mpz_clear(p); mpz_clear(q); mpz_clear(g); mpz_clear(h); mpz_clear(y); return res(ok); });
	mpz_clear(x); mpz_clear(y); mpz_clear(k); mpz_clear(r); mpz_clear(c); mpz_clear(sg); mpz_clear(m);
}

// a whole VTMF session from one untrusted stream: group, the other party's key with its NIZK, then statements and proofs
static void setup_vtmf_session() {
	BarnettSmartVTMF_dlog *B = C.vtmfB;
	std::ostringstream o; o << C.vtmf_group << C.vtmf_key2;
	mpz_t alpha, x, y, m, c1, c2, r, d1, d2; mpz_init(alpha); mpz_init(x); mpz_init(y); mpz_init(m); mpz_init(c1); mpz_init(c2); mpz_init(r); mpz_init(d1); mpz_init(d2);
	// the receiver below has only B's key registered, so its h equals B's h_i: build the proofs with a one-party instance of B
	std::istringstream gi(C.vtmf_group); BarnettSmartVTMF_dlog S(gi, FS, GS); mpz_set(S.x_i, B->x_i); mpz_set(S.h_i, B->h_i); mpz_set(S.h_i_fp, B->h_i_fp); mpz_set(S.h, B->h_i); S.KeyGenerationProtocol_Finalize();
	tmcg_mpz_srandomm(alpha, S.q); mpz_powm(x, S.g, alpha, S.p); mpz_powm(y, S.h, alpha, S.p);
	o << x << std::endl << y << std::endl; S.CP_Prove(x, y, S.g, S.h, alpha, o);
	o << x << std::endl << y << std::endl; S.OR_ProveFirst(x, y, S.g, S.h, alpha, o);
	S.IndexElement(m, 5); S.VerifiableMaskingProtocol_Mask(m, c1, c2, r);
	o << m << std::endl << c1 << std::endl << c2 << std::endl; S.VerifiableMaskingProtocol_Prove(m, c1, c2, r, o);
	S.VerifiableRemaskingProtocol_Mask(c1, c2, d1, d2, r);
	o << d1 << std::endl << d2 << std::endl; S.VerifiableRemaskingProtocol_Prove(c1, c2, d1, d2, r, o);
	S.VerifiableDecryptionProtocol_Prove(c1, o);
	Target &t = add("vtmf-session", 't', "\n", 12, 700, [](const std::string &s) {
		std::istringstream is(s); BarnettSmartVTMF_dlog v(is, FS, GS);
		if (!smallp(v.p) || !v.CheckGroup()) return std::string("reject");
		if (!v.KeyGenerationProtocol_UpdateKey(is)) return std::string("reject-key");
		v.KeyGenerationProtocol_Finalize();
		mpz_t a[9]; for (auto &z : a) mpz_init(z); unsigned okc = 0;
		try {
			// CP_Verify does not test its statement (x, y) itself: like every caller inside the library, test membership first
			// (with x = 0 mod p a negative challenge from the wire would make mpz_powm(x, c, p) divide by zero: docs/C12.md O4)
			is >> a[0] >> a[1]; if (v.CheckElement(a[0]) && v.CheckElement(a[1])) okc += v.CP_Verify(a[0], a[1], v.g, v.h, is); else { is >> a[7] >> a[8]; }
			is >> a[0] >> a[1]; okc += v.OR_Verify(a[0], a[1], v.g, v.h, is);
			is >> a[2] >> a[3] >> a[4]; okc += v.VerifiableMaskingProtocol_Verify(a[2], a[3], a[4], is);
			is >> a[5] >> a[6]; okc += v.VerifiableRemaskingProtocol_Verify(a[3], a[4], a[5], a[6], is);
			if (v.CheckElement(a[3])) {   // Verify_Initialize asserts that the caller checked c_1 (API contract, not wire data)
				v.VerifiableDecryptionProtocol_Verify_Initialize(a[3]);
				if (v.VerifiableDecryptionProtocol_Verify_Update(a[3], is)) { okc++; v.VerifiableDecryptionProtocol_Verify_Finalize(a[4], a[7]); }
			}
			for (int i = 0; i < 7; i++) v.CheckElement(a[i]);
		} catch (...) { for (auto &z : a) mpz_clear(z); throw; }
		for (auto &z : a) mpz_clear(z);
		return std::string(okc == 5 ? "accept" : "partial" + std::to_string(okc)); });
	t.valid = { o.str() };
	// the group lines corrupted in combination, proofs left intact
	std::vector<std::string> lines; { std::istringstream is(o.str()); std::string l; while (std::getline(is, l)) lines.push_back(l); }
	auto join = [&](const std::vector<std::string> &v) { std::string r; for (auto &l : v) r += l + "\n"; return r; };
	auto neg = [](const std::string &x) { return (!x.empty() && x[0] == '-') ? x.substr(1) : "-" + x; };
	for (size_t i = 0; i < 7 && i < lines.size(); i++) for (size_t j = 0; j < 14 && j < lines.size(); j++) if (i != j) for (int op = 0; op < 3; op++) {
		std::vector<std::string> l2 = lines; l2[i] = neg(lines[i]); l2[j] = op == 0 ? std::string("0") : op == 1 ? lines[0] : neg(lines[j]);
		t.pinned.push_back({ join(l2), "neg" + std::to_string(i) + "+op" + std::to_string(op) + "@" + std::to_string(j) });
	}
	mpz_clear(alpha); mpz_clear(x); mpz_clear(y); mpz_clear(m); mpz_clear(c1); mpz_clear(c2); mpz_clear(r); mpz_clear(d1); mpz_clear(d2);
}

// ---- VTMF proofs (non-interactive: prover output = verifier input) -------------------------------------------------------
static BarnettSmartVTMF_dlog *fresh_vtmf(bool with_B = true) {
	std::istringstream is(C.vtmf_group); BarnettSmartVTMF_dlog *v = new BarnettSmartVTMF_dlog(is, FS, GS);
	mpz_set(v->x_i, C.vtmf->x_i); mpz_set(v->h_i, C.vtmf->h_i); mpz_set(v->h_i_fp, C.vtmf->h_i_fp); mpz_set(v->h, C.vtmf->h_i);
	if (with_B) { std::istringstream kb(C.vtmf_key2); v->KeyGenerationProtocol_UpdateKey(kb); v->KeyGenerationProtocol_Finalize(); }
	return v;
}
static void setup_vtmf_proofs() {
	BarnettSmartVTMF_dlog *v = C.vtmf;
	// CP: x = g^alpha, y = h^alpha
	mpz_t alpha, x, y; mpz_init(alpha); mpz_init(x); mpz_init(y);
	tmcg_mpz_srandomm(alpha, v->q); mpz_powm(x, v->g, alpha, v->p); mpz_powm(y, v->h, alpha, v->p);
	mpz_set(C.a, x); mpz_set(C.b, y);
	for (int fp = 0; fp < 2; fp++) {
		std::ostringstream o; v->CP_Prove(x, y, v->g, v->h, alpha, o, fp);
		add(fp ? "vtmf-cp-verify-fpowm" : "vtmf-cp-verify", 't', "\n", 3, 700, [fp](const std::string &s) {
			std::istringstream is(s); return std::string(res(C.vtmf->CP_Verify(C.a, C.b, C.vtmf->g, C.vtmf->h, is, fp))); }).valid = { o.str() };
	}
	{ std::ostringstream o; v->OR_ProveFirst(x, y, v->g, v->h, alpha, o);
	  add("vtmf-or-verify", 't', "\n", 5, 700, [](const std::string &s) { std::istringstream is(s); return std::string(res(C.vtmf->OR_Verify(C.a, C.b, C.vtmf->g, C.vtmf->h, is))); }).valid = { o.str() }; }
	// key generation: public key + NIZK of a second party
	add("vtmf-keyupdate", 't', "\n", 4, 700, [](const std::string &s) {
		BarnettSmartVTMF_dlog *w = fresh_vtmf(false); std::istringstream is(s); bool ok = w->KeyGenerationProtocol_UpdateKey(is); if (ok) w->KeyGenerationProtocol_Finalize();
		std::istringstream is2(s); bool ok2 = ok && w->KeyGenerationProtocol_RemoveKey(is2); delete w; return std::string(res(ok && ok2)); }).valid = { C.vtmf_key2 };
	// masking / remasking / decryption
	mpz_t m, c1, c2, r, d1, d2; mpz_init(m); mpz_init(c1); mpz_init(c2); mpz_init(r); mpz_init(d1); mpz_init(d2);
	v->IndexElement(m, 7); v->VerifiableMaskingProtocol_Mask(m, c1, c2, r);
	mpz_set(C.c, m); mpz_set(C.d, c1); mpz_set(C.e, c2);
	{ std::ostringstream o; v->VerifiableMaskingProtocol_Prove(m, c1, c2, r, o);
	  add("vtmf-mask-verify", 't', "\n", 3, 700, [](const std::string &s) { std::istringstream is(s); return std::string(res(C.vtmf->VerifiableMaskingProtocol_Verify(C.c, C.d, C.e, is))); }).valid = { o.str() }; }
	v->VerifiableRemaskingProtocol_Mask(c1, c2, d1, d2, r);
	{ std::ostringstream o; v->VerifiableRemaskingProtocol_Prove(c1, c2, d1, d2, r, o);
	  static mpz_t D1, D2; mpz_init_set(D1, d1); mpz_init_set(D2, d2);
	  add("vtmf-remask-verify", 't', "\n", 3, 700, [](const std::string &s) { std::istringstream is(s); return std::string(res(C.vtmf->VerifiableRemaskingProtocol_Verify(C.d, C.e, D1, D2, is))); }).valid = { o.str() }; }
	{ std::ostringstream o; C.vtmfB->VerifiableDecryptionProtocol_Prove(c1, o);
	  add("vtmf-decrypt-verify", 't', "\n", 4, 700, [](const std::string &s) {
		BarnettSmartVTMF_dlog *w = fresh_vtmf(); w->VerifiableDecryptionProtocol_Verify_Initialize(C.d);
		std::istringstream is(s); bool ok = w->VerifiableDecryptionProtocol_Verify_Update(C.d, is);
		if (ok) { mpz_t mm; mpz_init(mm); w->VerifiableDecryptionProtocol_Verify_Finalize(C.e, mm); mpz_clear(mm); } delete w; return std::string(res(ok)); }).valid = { o.str() }; }
	// interactive proof of knowledge of the key
	{
		bool acc = false;
		std::string tr = record([](std::istream &in, std::ostream &out) { C.vtmfB->KeyGenerationProtocol_ProveKey_interactive(in, out); },
			[](std::istream &in, std::ostream &out) { return C.vtmf->KeyGenerationProtocol_VerifyKey_interactive(C.vtmfB->h_i, in, out); }, 777, acc);
		Target &t = add("vtmf-verifykey-interactive", 't', "\n", 4, 700, [](const std::string &s) {
			reseed_lib(777); std::istringstream is(s); std::ostringstream os; return std::string(res(C.vtmf->KeyGenerationProtocol_VerifyKey_interactive(C.vtmfB->h_i, is, os))); });
		t.valid = { tr }; if (!acc) t.expect_accept = false;
	}
	{   // public-coin variant: the challenge comes from a two-party coin flip (JareckiLysyanskayaEDCF) over the same stream
		static JareckiLysyanskayaEDCF *edcf = new JareckiLysyanskayaEDCF(2, 0, C.vtmf->p, C.vtmf->q, C.vtmf->g, C.vtmf->h, FS, GS);
		bool acc = false;
		std::string tr = record([](std::istream &in, std::ostream &out) { C.vtmfB->KeyGenerationProtocol_ProveKey_interactive_publiccoin(edcf, in, out); },
			[](std::istream &in, std::ostream &out) { return C.vtmf->KeyGenerationProtocol_VerifyKey_interactive_publiccoin(C.vtmfB->h_i, edcf, in, out); }, 778, acc);
		Target &t = add("vtmf-verifykey-publiccoin", 't', "\n", 6, 700, [](const std::string &s) {
			reseed_lib(778); std::istringstream is(s); std::ostringstream os; return std::string(res(C.vtmf->KeyGenerationProtocol_VerifyKey_interactive_publiccoin(C.vtmfB->h_i, edcf, is, os))); });
		t.valid = { tr }; if (!acc) { t.expect_accept = false; fprintf(stderr, "NOTE vtmf-verifykey-publiccoin: recorded honest run was not accepted\n"); }
	}
	mpz_clear(alpha); mpz_clear(x); mpz_clear(y); mpz_clear(m); mpz_clear(c1); mpz_clear(c2); mpz_clear(r); mpz_clear(d1); mpz_clear(d2);
}

// ---- card game verifiers (toolbox level) ------------------------------------------------------------------------------------
static const uint64_t VSEED = 0xC12C12;
template<class P, class V> static void add_interactive(const std::string &name, const std::string &delims, size_t lead, P prover, V verifier) {
	bool acc = false;
	std::string tr = record(prover, verifier, VSEED, acc);
	Target &t = add(name, 't', delims, lead, 700, [verifier](const std::string &s) {
		reseed_lib(VSEED); std::istringstream is(s); std::ostringstream os; return std::string(res(verifier(is, os))); });
	t.valid = { tr }; if (!acc) { t.expect_accept = false; fprintf(stderr, "NOTE %s: recorded honest run was not accepted\n", name.c_str()); }
}

static void setup_game_verifiers() {
	SchindelhauerTMCG *g = C.tmcg;
	// --- cut and choose shuffle proofs: the prover's stack secret is the untrusted part (fix 517d04b)
	add_interactive("verify-stackequality-vtmf", "\n", 3,
		[g](std::istream &in, std::ostream &out) { g->TMCG_ProveStackEquality(C.vs, C.vs2, C.vss, false, C.vtmf, in, out); },
		[g](std::istream &in, std::ostream &out) { return g->TMCG_VerifyStackEquality(C.vs, C.vs2, false, C.vtmf, in, out); });
	add_interactive("verify-stackequality-tmcg", "\n", 3,
		[g](std::istream &in, std::ostream &out) { g->TMCG_ProveStackEquality(C.ts, C.ts2, C.tss, false, *C.ring, 0, in, out); },
		[g](std::istream &in, std::ostream &out) { return g->TMCG_VerifyStackEquality(C.ts, C.ts2, false, *C.ring, in, out); });
	// the same verifiers, mutating INSIDE the stack secret lines (fields '^' and '|')
	const size_t base_idx = T.size() - 2;
	for (int enc = 0; enc < 2; enc++) {
		const Target base = T[base_idx + enc];
		Target t = base; t.name = base.name + "-secretfields"; t.delims = "^|\n"; t.lead = 8;
		// hand-made wrong-size / wrong-dimension secrets in every round: replace every stack-secret line
		std::vector<std::string> lines; { std::istringstream is(base.valid[0]); std::string l; while (std::getline(is, l)) lines.push_back(l); }
		auto variant = [&](const std::string &what, const std::function<std::string(const std::string &)> &f) {
			std::string r; for (auto &l : lines) r += (l.compare(0, 4, "sts^") == 0 ? f(l) : l) + "\n"; t.pinned.push_back({ r, what }); };
		TMCG_StackSecret<VTMF_CardSecret> small, big; TMCG_StackSecret<TMCG_CardSecret> tsmall, tbig, tdim;
		for (size_t i = 0; i < NC + 1; i++) { VTMF_CardSecret cs; g->TMCG_CreateCardSecret(cs, C.vtmf); if (i < NC - 1) small.push(i, cs); big.push(i, cs);
			TMCG_CardSecret tc(NP, TB); g->TMCG_CreateCardSecret(tc, *C.ring, 0); if (i < NC - 1) tsmall.push(i, tc); tbig.push(i, tc);
			TMCG_CardSecret td(i == 1 ? NP + 1 : NP, i == 2 ? TB + 1 : TB); for (size_t a = 0; a < td.r.size(); a++) for (size_t b = 0; b < td.r[a].size(); b++) { mpz_set_ui(&td.r[a][b], 5); mpz_set_ui(&td.b[a][b], 1); } if (i < NC) tdim.push(i, td); }
		std::string s_small = enc ? exp_(tsmall) : exp_(small), s_big = enc ? exp_(tbig) : exp_(big);
		variant("secret-one-short", [&](const std::string &) { return s_small; });
		variant("secret-one-long", [&](const std::string &) { return s_big; });
		variant("secret-single", [&](const std::string &) { return enc ? std::string("sts^1^0^") + exp_(tsmall[0].second) + "^" : std::string("sts^1^0^crs|5|^"); });
		if (enc) variant("secret-wrong-dimensions", [&](const std::string &) { return exp_(tdim); });
		else { variant("secret-negative-r", [&](const std::string &) { return std::string("sts^4^0^crs|-1|^1^crs|-1|^2^crs|-1|^3^crs|-1|^"); });
		       variant("secret-huge-r", [&](const std::string &) { std::string z(600, 'z'); return "sts^4^0^crs|" + z + "|^1^crs|" + z + "|^2^crs|" + z + "|^3^crs|" + z + "|^"; }); }
		T.push_back(t);
	}
	// --- masking proofs and card secrets
	{
		VTMF_Card c, cc; VTMF_CardSecret cs; g->TMCG_CreateOpenCard(c, C.vtmf, 2); g->TMCG_CreateCardSecret(cs, C.vtmf); g->TMCG_MaskCard(c, cc, cs, C.vtmf);
		static VTMF_Card sc, scc; static VTMF_CardSecret scs; sc = c; scc = cc; scs = cs;
		add_interactive("verify-maskcard-vtmf", "\n", 4,
			[g](std::istream &in, std::ostream &out) { g->TMCG_ProveMaskCard(sc, scc, scs, C.vtmf, in, out); },
			[g](std::istream &in, std::ostream &out) { return g->TMCG_VerifyMaskCard(sc, scc, C.vtmf, in, out); });
		add_interactive("verify-cardsecret-vtmf", "\n", 4,
			[g](std::istream &in, std::ostream &out) { g->TMCG_ProveCardSecret(scc, C.vtmfB, in, out); },
			[g](std::istream &in, std::ostream &out) { BarnettSmartVTMF_dlog *w = fresh_vtmf(); g->TMCG_SelfCardSecret(scc, w); bool ok = g->TMCG_VerifyCardSecret(scc, w, in, out); if (ok) g->TMCG_TypeOfCard(scc, w); delete w; return ok; });
	}
	{
		static TMCG_Card c(NP, TB), cc(NP, TB); static TMCG_CardSecret cs(NP, TB);
		g->TMCG_CreateOpenCard(c, *C.ring, 5); g->TMCG_CreateCardSecret(cs, *C.ring, 0); g->TMCG_MaskCard(c, cc, cs, *C.ring);
		add_interactive("verify-maskcard-tmcg", "\n", 4,
			[g](std::istream &in, std::ostream &out) { g->TMCG_ProveMaskCard(c, cc, cs, *C.ring, in, out); },
			[g](std::istream &in, std::ostream &out) { return g->TMCG_VerifyMaskCard(c, cc, *C.ring, in, out); });
		add_interactive("verify-cardsecret-tmcg", "\n|", 4,
			[g](std::istream &in, std::ostream &out) { g->TMCG_ProveCardSecret(cc, *C.sec[0], 0, in, out); },
			[g](std::istream &in, std::ostream &out) { TMCG_CardSecret r(NP, TB); return g->TMCG_VerifyCardSecret(cc, r, C.ring->keys[0], 0, in, out); });
	}
	// --- Groth shuffle argument and rotation argument (non-interactive transcripts)
	{
		std::ostringstream o; g->TMCG_ProveStackEquality_Groth_noninteractive(C.vs, C.vs2, C.vss, C.vtmf, C.vsshe, o);
		add("verify-groth-noninteractive", 't', "\n", 6, 700, [g](const std::string &s) {
			std::istringstream is(s); return std::string(res(g->TMCG_VerifyStackEquality_Groth_noninteractive(C.vs, C.vs2, C.vtmf, C.vsshe, is))); }).valid = { o.str() };
	}
	add_interactive("verify-groth-interactive", "\n", 6,
		[g](std::istream &in, std::ostream &out) { g->TMCG_ProveStackEquality_Groth(C.vs, C.vs2, C.vss, C.vtmf, C.vsshe, in, out); },
		[g](std::istream &in, std::ostream &out) { return g->TMCG_VerifyStackEquality_Groth(C.vs, C.vs2, C.vtmf, C.vsshe, in, out); });
	{
		std::ostringstream o; g->TMCG_ProveStackEquality_Hoogh_noninteractive(C.vs, C.vs2_rot, C.vss_rot, C.vtmf, C.vrhe, o);
		add("verify-hoogh-noninteractive", 't', "\n", 6, 700, [g](const std::string &s) {
			std::istringstream is(s); return std::string(res(g->TMCG_VerifyStackEquality_Hoogh_noninteractive(C.vs, C.vs2_rot, C.vtmf, C.vrhe, is))); }).valid = { o.str() };
	}
	add_interactive("verify-hoogh-interactive", "\n", 6,
		[g](std::istream &in, std::ostream &out) { g->TMCG_ProveStackEquality_Hoogh(C.vs, C.vs2_rot, C.vss_rot, C.vtmf, C.vrhe, in, out); },
		[g](std::istream &in, std::ostream &out) { return g->TMCG_VerifyStackEquality_Hoogh(C.vs, C.vs2_rot, C.vtmf, C.vrhe, in, out); });
}

// ---- OpenPGP ---------------------------------------------------------------------------------------------------------------
static std::string dearmor(const std::string &a) { tmcg_openpgp_octets_t o; R::ArmorDecode(a, o); return sto(o); }
static std::string armor(tmcg_openpgp_armor_t t, const std::string &bin) { std::string a; R::ArmorEncode(t, oct(bin), a); return a; }

static std::string run_packets(const std::string &s) {   // PacketDecode over the whole input, like every *Parse function does
	tmcg_openpgp_octets_t pkts = oct(s); size_t n = 0; tmcg_openpgp_byte_t tag = 0;
	while (pkts.size() && n < 100000) {
		tmcg_openpgp_packet_ctx_t ctx; tmcg_openpgp_octets_t cur; tmcg_openpgp_notations_t nt; tmcg_openpgp_multiple_octets_t es, rf;
		std::vector<gcry_mpi_t> qual, v_i; std::vector<std::string> capl; std::vector< std::vector<gcry_mpi_t> > c_ik;
		tag = R::PacketDecode(pkts, 0, ctx, cur, qual, capl, v_i, c_ik, nt, es, rf);
		R::PacketContextRelease(ctx);
		for (auto m : qual) gcry_mpi_release(m); for (auto m : v_i) gcry_mpi_release(m); for (auto &v : c_ik) for (auto m : v) gcry_mpi_release(m);
		n++;
		if (tag == 0) return "reject";
	}
	return "accept";
}
static TMCG_OpenPGP_Pubkey *trusted_pub = 0;
static void setup_pgp() {
	if (!R::PublicKeyBlockParse(std::string(PGP_PUBKEY), 0, trusted_pub)) trusted_pub = 0;
	std::string pub = dearmor(PGP_PUBKEY), prv = dearmor(PGP_PRVKEY), sig = dearmor(PGP_SIGNATURE), msg = dearmor(PGP_MESSAGE), inner = unhex(PGP_INNER_HEX);
	auto f_pub = [](const std::string &s, bool arm) {
		TMCG_OpenPGP_Pubkey *k = 0; bool ok = arm ? R::PublicKeyBlockParse(s, 0, k) : R::PublicKeyBlockParse(oct(s), 0, k);
		if (ok && k) { TMCG_OpenPGP_Keyring *ring = new TMCG_OpenPGP_Keyring(); k->CheckSelfSignatures(ring, 0); k->CheckSubkeys(ring, 0); k->Weak(0); tmcg_openpgp_octets_t e; k->Export(e); delete ring; }
		if (ok && k) delete k; return std::string(res(ok)); };
	add("pgp-pubkey-binary", 'p', "", 0, 0, [f_pub](const std::string &s) { return f_pub(s, false); }).valid = { pub };
	add("pgp-pubkey-armored", 'a', "\n", 6, 200, [f_pub](const std::string &s) { return f_pub(s, true); }).valid = { PGP_PUBKEY };
	auto f_prv = [](const std::string &s, bool arm) {
		TMCG_OpenPGP_Prvkey *k = 0; bool ok = arm ? R::PrivateKeyBlockParse(s, 0, "pw", k) : R::PrivateKeyBlockParse(oct(s), 0, "pw", k);
		if (ok && k) { tmcg_openpgp_octets_t e; k->Export(e); k->Weak(0); }
		if (ok && k) delete k; return std::string(res(ok)); };
	add("pgp-prvkey-binary", 'p', "", 0, 0, [f_prv](const std::string &s) { return f_prv(s, false); }).valid = { prv };
	add("pgp-prvkey-armored", 'a', "\n", 6, 200, [f_prv](const std::string &s) { return f_prv(s, true); }).valid = { PGP_PRVKEY };
	auto f_sig = [](const std::string &s, bool arm) {
		TMCG_OpenPGP_Signature *g = 0; bool ok = arm ? R::SignatureParse(s, 0, g) : R::SignatureParse(oct(s), 0, g);
		if (ok && g) {
			g->Good(); g->CheckValidity(1600000000, 0);
			if (trusted_pub) {   // the receiving side of signature verification under a trusted key
				tmcg_openpgp_octets_t data = oct("hello\n--- dash\nFrom me\n");
				g->VerifyData(trusted_pub->key, data, 0); g->VerifyData(trusted_pub->key, data, 'b', "doc.txt", 1600000000, 0);
				g->Verify(trusted_pub->key, 0); g->Verify(trusted_pub->key, "/nonexistent-c12-file", 0);
			}
		}
		if (ok && g) delete g;
		TMCG_OpenPGP_Signatures gs; bool ok2 = arm ? R::SignaturesParse(s, 0, gs) : R::SignaturesParse(oct(s), 0, gs);
		if (ok2) for (auto x : gs) delete x; return std::string(res(ok || ok2)); };
	{
		Target &t = add("pgp-signature-binary", 'p', "", 0, 0, [f_sig](const std::string &s) { return f_sig(s, false); }); t.valid = { sig };
		// a v4 signature whose hashed area holds one sub-packet with a five-octet length close to 2^32
		for (unsigned last : { 0xffu, 0xfeu, 0xfbu, 0xfau, 0x00u }) {
			std::string body = std::string("\x04\x00\x11\x08", 4) + std::string("\x00\x0c", 2) + std::string("\xff\xff\xff\xff", 4) + std::string(1, (char)last) + std::string("\x02" "123456", 7) + std::string("\x00\x00\xab\xcd\x00\x08\xff", 7);
			std::string pkt = std::string("\xc2", 1) + std::string(1, (char)body.size()) + body;
			t.pinned.push_back({ pkt, "subpacket-len5-" + std::to_string(last) });
		}
	}
	add("pgp-signature-armored", 'a', "\n", 6, 200, [f_sig](const std::string &s) { return f_sig(s, true); }).valid = { PGP_SIGNATURE };
	auto f_ring = [](const std::string &s, bool arm) {
		TMCG_OpenPGP_Keyring *r = 0; bool ok = arm ? R::PublicKeyringParse(s, 0, r) : R::PublicKeyringParse(oct(s), 0, r);
		if (ok && r) delete r; return std::string(res(ok)); };
	add("pgp-keyring-binary", 'p', "", 0, 0, [f_ring](const std::string &s) { return f_ring(s, false); }).valid = { pub + pub };
	add("pgp-keyring-armored", 'a', "\n", 6, 200, [f_ring](const std::string &s) { return f_ring(s, true); }).valid = { PGP_PUBKEY };
	auto f_msg = [](const std::string &s, bool arm) {
		TMCG_OpenPGP_Message *m = 0; bool ok = arm ? R::MessageParse(s, 0, m) : R::MessageParse(oct(s), 0, m);
		if (ok && m) {
			std::string k = unhex(PGP_SESKEY_HEX); tmcg_openpgp_secure_octets_t sk; for (unsigned char c : k) sk.push_back(c);
			tmcg_openpgp_octets_t dec; if (m->encrypted_message.size() && m->Decrypt(sk, 0, dec)) { TMCG_OpenPGP_Message *m2 = 0; if (R::MessageParse(dec, 0, m2) && m2) delete m2; }
		}
		if (ok && m) delete m; return std::string(res(ok)); };
	add("pgp-message-binary", 'p', "", 0, 0, [f_msg](const std::string &s) { return f_msg(s, false); }).valid = { msg, inner };
	add("pgp-message-armored", 'a', "\n", 6, 200, [f_msg](const std::string &s) { return f_msg(s, true); }).valid = { PGP_MESSAGE };
	add("pgp-packetdecode", 'p', "", 0, 0, run_packets).valid = { pub, prv, sig, msg, inner };
	{
		Target &t = add("pgp-armordecode", 'a', "\n", 8, 200, [](const std::string &s) {
			tmcg_openpgp_octets_t o; tmcg_openpgp_armor_t a = R::ArmorDecode(s, o); tmcg_openpgp_octets_t o2; R::Radix64Decode(s, o2); return std::string(res(a != TMCG_OPENPGP_ARMOR_UNKNOWN)); });
		t.valid = { PGP_PUBKEY, PGP_SIGNATURE, PGP_MESSAGE };
		std::string hi; for (int i = 128; i < 256; i++) hi += (char)i;
		t.pinned.push_back({ "-----BEGIN PGP MESSAGE-----\n\n" + hi + "\nAAAA\n=AAAA\n-----END PGP MESSAGE-----\n", "high-octets" });
		t.pinned.push_back({ std::string("-----BEGIN PGP MESSAGE-----\n\nAA\0AA\n=AAAA\n-----END PGP MESSAGE-----\n", 66), "nul-inside" });
		t.pinned.push_back({ "-----ENDPGPMESSAGE----- -----BEGIN PGP MESSAGE-----\n\nAAAA\n=AAAA\n-----END PGP MESSAGE-----\n", "trailer-first" });
		t.pinned.push_back({ "-----BEGIN PGP MESSAGE-----\n\n-----END PGP MESSAGE-----", "no-body" });
		t.pinned.push_back({ "-----BEGIN PGP MESSAGE----------END PGP MESSAGE-----", "adjacent" });
	}
	{   // the low-level decoders on raw octets
		Target &t = add("pgp-lowlevel", 'p', "", 0, 0, [](const std::string &s) {
			tmcg_openpgp_octets_t in = oct(s); uint32_t len = 0; bool part = false; size_t acc = 0;
			for (int nf = 0; nf < 2; nf++) for (int lt = 0; lt < 5; lt++) acc += R::PacketLengthDecode(in, nf, lt, len, part);
			gcry_mpi_t m = gcry_mpi_new(8); size_t sum = 0; acc += R::PacketMPIDecode(in, m, sum); gcry_mpi_release(m);
			tmcg_openpgp_secure_octets_t sin(in.begin(), in.end()); m = gcry_mpi_new(8); acc += R::PacketMPIDecode(sin, m, sum); gcry_mpi_release(m);
			std::string st; acc += R::PacketStringDecode(in, st);
			tmcg_openpgp_octets_t body; acc += R::PacketBodyExtract(in, 0, body);
			tmcg_openpgp_octets_t sp = in; tmcg_openpgp_packet_ctx_t ctx; memset(&ctx, 0, sizeof ctx); tmcg_openpgp_notations_t nt; tmcg_openpgp_multiple_octets_t es, rf;
			acc += R::SubpacketParse(sp, 0, ctx, nt, es, rf); R::PacketContextRelease(ctx);
			return std::string(acc ? "accept" : "reject"); });
		std::string hs = sig.size() > 12 ? sig.substr(2 + 6, ((unsigned char)sig[2 + 4] << 8) + (unsigned char)sig[2 + 5]) : std::string();
		t.valid = { hs, std::string("\x00\x09\x01\xff", 4), pub.substr(0, 40) };
		for (unsigned last : { 0xffu, 0xfeu, 0xfbu, 0xfau }) t.pinned.push_back({ std::string("\xff\xff\xff\xff", 4) + std::string(1, (char)last) + std::string("\x02" "12345678", 9), "subpacket-len5-" + std::to_string(last) });
		t.expect_accept = false;
	}
}

// ---- in-process correspondence records for coq/PgpLenModel.v -------------------------------------------------------------------
static std::string rnd_octets(size_t n) { std::string s; for (size_t i = 0; i < n; i++) s += (char)gen().below(256); return s; }
static unsigned char edge_octet() { static const unsigned char E[] = { 0, 1, 2, 127, 128, 191, 192, 193, 223, 224, 225, 254, 255 }; return gen().below(3) ? E[gen().below(sizeof E)] : (unsigned char)gen().below(256); }
static int rec_fd = -1;
static void announce(const char *kind, const std::string &s) {   // remember the input of the call that is about to be made
	if (rec_fd < 0) return;
	std::string line = std::string(kind) + "\n" + s;
	if (ftruncate(rec_fd, 0) == 0 && pwrite(rec_fd, line.data(), line.size(), 0) < 0) {}
}
static void records(bool thorough) {
	const unsigned N = thorough ? 6000 : 700;
	for (unsigned i = 0; i < N; i++) {   // PacketLengthDecode
		std::string s; size_t n = gen().below(8); for (size_t k = 0; k < n; k++) s += (char)edge_octet();
		bool nf = gen().coin(); unsigned lt = gen().below(6); if (gen().below(10) == 0) lt = 0xff;
		tmcg_openpgp_octets_t in = oct(s); uint32_t len = 0xdeadbeef; bool part = false; announce("plen", s);
		size_t hl = R::PacketLengthDecode(in, nf, (tmcg_openpgp_byte_t)lt, len, part);
		std::string o = hl == 0 ? "err" : hl == 42 ? "indet," + hx((unsigned long)len) : "ok," + std::to_string(hl) + "," + hx((unsigned long)len) + "," + (part ? "1" : "0");
		Rec("plen").b(s).d(nf).u(lt).t(o);
	}
	for (unsigned i = 0; i < N; i++) {   // PacketBodyExtract / PacketDecode framing
		std::string s; unsigned mode = gen().below(8);
		static const unsigned char TAGS[] = { 0xc8, 0xc9, 0xcb, 0xd2, 0xc2, 0xcd, 0xc0, 0xfc, 0xa0, 0xa1, 0xa2, 0xa3, 0x88, 0x8b, 0xb4, 0x40, 0x00 };
		unsigned char t = TAGS[gen().below(sizeof TAGS)]; if (gen().below(6) == 0) t = (unsigned char)gen().below(256);
		s += (char)t;
		if (mode < 3 && (t & 0xc0) == 0xc0) {   // well-formed partial chain: 512-octet first chunk, short chunks, final length
			unsigned chunks = 1 + gen().below(3);
			for (unsigned c = 0; c < chunks; c++) { unsigned e = c == 0 ? 9 : gen().below(4); if (gen().below(12) == 0) e = 8; s += (char)(0xe0 + e); s += rnd_octets((size_t)1 << e); }
			unsigned fin = gen().below(200); if (gen().coin()) { s += (char)fin; s += rnd_octets(fin); } else { s += (char)0xc0; s += (char)fin; s += rnd_octets(192 + fin); }
			if (gen().below(4) == 0) s += rnd_octets(gen().below(5));
			if (gen().below(5) == 0 && s.size() > 3) s.resize(s.size() - 1 - gen().below(3));
		} else if (mode < 6) {
			size_t n = gen().below(6); for (size_t k = 0; k < n; k++) s += (char)edge_octet(); s += rnd_octets(gen().below(300));
		} else { unsigned l = gen().below(191); s += (char)l; s += rnd_octets(l + gen().below(4)); if (gen().below(4) == 0 && !s.empty()) s.resize(s.size() - 1); }
		tmcg_openpgp_octets_t in = oct(s), body; announce("pbe/pframe", s);
		tmcg_openpgp_byte_t r = R::PacketBodyExtract(in, 0, body);
		Rec("pbe").b(s).t(hx((unsigned long)r) + "," + xb(sto(body)));
		tmcg_openpgp_octets_t rest = in, cur; tmcg_openpgp_packet_ctx_t ctx; tmcg_openpgp_notations_t nt; tmcg_openpgp_multiple_octets_t es, rf;
		R::PacketDecode(rest, 0, ctx, cur, nt, es, rf); R::PacketContextRelease(ctx);
		Rec("pframe").b(s).t(xb(sto(rest)) + "," + xb(sto(cur)));
	}
	for (unsigned i = 0; i < N; i++) {   // PacketMPIDecode
		std::string s; unsigned bits = gen().below(4) ? gen().below(80) : (unsigned)gen().below(65536); unsigned sel = gen().below(10);
		if (sel == 0) s = rnd_octets(gen().below(2));
		else { s += (char)(bits >> 8); s += (char)bits; size_t bl = (bits + 7) / 8; long d = sel < 3 ? -(long)(1 + gen().below(2)) : sel < 5 ? (long)gen().below(3) : 0; if ((long)bl + d < 0) d = 0; if (bl + d > 300) { bl = 300; d = 0; } s += rnd_octets(bl + d); }
		size_t sum0 = gen().below(65536), sum = sum0; tmcg_openpgp_octets_t in = oct(s); gcry_mpi_t m = gcry_mpi_new(8); announce("mpi", s);
		size_t r = R::PacketMPIDecode(in, m, sum);
		std::string o;
		if (!r) o = "err," + hx((unsigned long)sum);
		else { mpz_t z; mpz_init(z); tmcg_mpz_set_gcry_mpi(m, z); o = "ok," + std::to_string(r) + "," + hx(z) + "," + hx((unsigned long)sum); mpz_clear(z); }
		gcry_mpi_release(m);
		Rec("mpi").b(s).u(sum0).t(o);
	}
	for (unsigned i = 0; i < N; i++) {   // SubpacketDecode header (inputs whose slice test would wrap in uint32_t are excluded:
		std::string s; unsigned sel = gen().below(10);       // they crash the implementation, see docs/C12.md; the fork-based oracle reports them)
		static const unsigned char TY[] = { 99, 99, 99, 10, 1, 227, 100, 110, 2, 3, 16, 27, 33, 20, 130, 144, 32, 0, 127, 255 };
		unsigned char ty = TY[gen().below(sizeof TY)];
		if (sel < 5) { unsigned l = gen().below(4) == 0 ? edge_octet() % 192 : gen().below(40); s += (char)l; s += (char)ty; long d = gen().below(4) == 0 ? -1 : (long)gen().below(3); long n = (long)l - 1 + d; if (n < 0) n = 0; s += rnd_octets(n); }
		else if (sel < 8) { unsigned b0 = 192 + gen().below(63), b1 = gen().below(256); size_t l = ((b0 - 192) << 8) + b1 + 192; s += (char)b0; s += (char)b1; s += (char)ty; long d = gen().below(3) == 0 ? -1 : (long)gen().below(2); if (gen().below(3)) s += rnd_octets(l - 1 + d); else s += rnd_octets(gen().below(20)); }
		else if (sel < 9) { uint32_t l = gen().below(3) == 0 ? (uint32_t)gen().below(300) : (uint32_t)gen().next(); if (l >= 0xfffffffaU) l = 0xfffffff0U; s += (char)0xff; s += (char)(l >> 24); s += (char)(l >> 16); s += (char)(l >> 8); s += (char)l; s += (char)ty; s += rnd_octets(l < 400 ? (l ? l - 1 : 0) + gen().below(2) : gen().below(30)); if (gen().below(6) == 0) s.resize(gen().below(6)); }
		else s = rnd_octets(gen().below(3));
		if (s.size() >= 5 && (unsigned char)s[0] == 255 && (unsigned char)s[1] == 255 && (unsigned char)s[2] == 255 && (unsigned char)s[3] == 255 && (unsigned char)s[4] >= 0xfa) s[4] = (char)0xf0;
		tmcg_openpgp_octets_t in = oct(s); tmcg_openpgp_packet_ctx_t ctx; memset(&ctx, 0, sizeof ctx);
		R::MemoryGuardReset(); announce("subhdr", s);
		tmcg_openpgp_byte_t r = R::SubpacketDecode(in, 0, ctx);
		std::string o = r == 0 ? "0,0,0" : hx((unsigned long)r) + "," + std::to_string(s.size() - in.size()) + "," + (ctx.critical ? "1" : "0");
		R::PacketContextRelease(ctx);
		Rec("subhdr").b(s).t(o);
	}
	for (unsigned i = 0; i < N; i++) {   // Radix64Decode
		static const char AL[] = "ABCDEFGHIJKLMNOPQRSTUVWXYZabcdefghijklmnopqrstuvwxyz0123456789+/";
		std::string s; size_t n = gen().below(40);
		for (size_t k = 0; k < n; k++) { unsigned q = gen().below(20); s += q == 0 ? '=' : q == 1 ? '\n' : q == 2 ? (char)gen().below(256) : q == 3 ? '\0' : AL[gen().below(64)]; }
		announce("r64", s);
		tmcg_openpgp_octets_t o; R::Radix64Decode(s, o);
		Rec("r64").b(s).t(xb(sto(o)));
	}
}

// ---- building the context ---------------------------------------------------------------------------------------------------------
static void setup_context() {
	mpz_init(C.a); mpz_init(C.b); mpz_init(C.c); mpz_init(C.d); mpz_init(C.e);
	C.vtmf = new BarnettSmartVTMF_dlog(FS, GS);
	{ std::ostringstream o; C.vtmf->PublishGroup(o); C.vtmf_group = o.str(); }
	C.vtmf->KeyGenerationProtocol_GenerateKey();
	{ std::istringstream is(C.vtmf_group); C.vtmfB = new BarnettSmartVTMF_dlog(is, FS, GS); C.vtmfB->KeyGenerationProtocol_GenerateKey();
	  std::ostringstream o; C.vtmfB->KeyGenerationProtocol_PublishKey(o); C.vtmf_key2 = o.str();
	  std::ostringstream oa; C.vtmf->KeyGenerationProtocol_PublishKey(oa); C.vtmf_keyA = oa.str();
	  std::istringstream ka(C.vtmf_keyA), kb(C.vtmf_key2);
	  if (!C.vtmfB->KeyGenerationProtocol_UpdateKey(ka) || !C.vtmf->KeyGenerationProtocol_UpdateKey(kb)) { fprintf(stderr, "VTMF key exchange failed\n"); exit(2); } }
	C.vtmf->KeyGenerationProtocol_Finalize(); C.vtmfB->KeyGenerationProtocol_Finalize();
	C.tmcg = new SchindelhauerTMCG(SEC, NP, TB);
	C.ring = new TMCG_PublicKeyRing(NP);
	for (size_t i = 0; i < NP; i++) { C.sec[i] = new TMCG_SecretKey("P" + std::to_string(i), "p@example.org", 768, false); C.ring->keys[i] = TMCG_PublicKey(*C.sec[i]); }
	C.nizk = new TMCG_SecretKey("Nizk", "n@example.org", 768, true);
	for (size_t i = 0; i < NC; i++) { VTMF_Card c; C.tmcg->TMCG_CreateOpenCard(c, C.vtmf, i); C.vs.push(c); TMCG_Card t(NP, TB); C.tmcg->TMCG_CreateOpenCard(t, *C.ring, i); C.ts.push(t); }
	C.tmcg->TMCG_CreateStackSecret(C.vss, false, NC, C.vtmf); C.tmcg->TMCG_MixStack(C.vs, C.vs2, C.vss, C.vtmf);
	C.tmcg->TMCG_CreateStackSecret(C.tss, false, *C.ring, 0, NC); C.tmcg->TMCG_MixStack(C.ts, C.ts2, C.tss, *C.ring);
	C.tmcg->TMCG_CreateStackSecret(C.vss_rot, true, NC, C.vtmf); C.tmcg->TMCG_MixStack(C.vs, C.vs2_rot, C.vss_rot, C.vtmf);
	C.vsshe = new GrothVSSHE(NC, C.vtmf->p, C.vtmf->q, C.vtmf->k, C.vtmf->g, C.vtmf->h, 64, FS, GS);
	C.vrhe = new HooghSchoenmakersSkoricVillegasVRHE(C.vtmf->p, C.vtmf->q, C.vtmf->g, C.vtmf->h, FS, GS);
}

static std::string exec_case(const Case &c) {
	reseed_lib(c.rseed); R::MemoryGuardReset();
	try { return T[c.target].run(c.input); }
	catch (std::exception &e) { return "std-exception"; }
}

int main(int argc, char **argv) {
	Args A(argc, argv);
	size_t batch = 0, nbatch = 1, jobs = 1; std::string errdir = "/tmp", one_target, one_file; bool vg = false, list = false, norec = false;
	for (int i = 1; i < argc; i++) {
		std::string a = argv[i];
		if (a == "--batch" && i + 1 < argc) batch = strtoul(argv[++i], 0, 10);
		else if (a == "--nbatch" && i + 1 < argc) nbatch = strtoul(argv[++i], 0, 10);
		else if (a == "--errdir" && i + 1 < argc) errdir = argv[++i];
		else if (a == "--jobs" && i + 1 < argc) { jobs = strtoul(argv[++i], 0, 10); if (!jobs) jobs = 1; }
		else if (a == "--one" && i + 2 < argc) { one_target = argv[++i]; one_file = argv[++i]; }
		else if (a == "--vg") vg = true;
		else if (a == "--list") list = true;
		else if (a == "--norec") norec = true;
	}
	if (!init_libTMCG()) { fprintf(stderr, "init_libTMCG failed\n"); return 2; }
	// the context is the same for every seed (fixed internal seed): replay files stay valid across seeds
	reseed_lib(0xC0FFEE12ULL);
	if (vg) {   // valgrind subset: only the Rabin keys are needed (keeps the slow instrumented setup short)
		C.sec[0] = new TMCG_SecretKey("P0", "p@example.org", 768, false); C.nizk = C.sec[0];
		setup_keys();
	} else {
		setup_context();
		setup_importers(); setup_keys(); setup_ctors(); setup_nts(); setup_vtmf_session(); setup_vtmf_proofs(); setup_game_verifiers(); setup_pgp();
	}
	reseed_lib(A.seed ^ 0xABCDEF0123ULL);
	if (getenv("C12_DUMPVALID")) { for (auto &t : T) for (size_t v = 0; v < t.valid.size(); v++) { std::ofstream f((std::string(getenv("C12_DUMPVALID")) + "/" + t.name + "." + std::to_string(v)).c_str(), std::ios::binary); f.write(t.valid[v].data(), t.valid[v].size()); } return 0; }
	if (list) { for (auto &t : T) printf("%s %zu %zu\n", t.name.c_str(), t.valid.size(), t.pinned.size()); return 0; }
	if (!one_target.empty()) {
		std::ifstream f(one_file.c_str(), std::ios::binary); std::string in((std::istreambuf_iterator<char>(f)), std::istreambuf_iterator<char>());
		for (size_t k = 0; k < T.size(); k++) if (T[k].name == one_target) { Case c{ k, in, "replay", 1 }; std::string r = exec_case(c); printf("RESULT %s %s\n", one_target.c_str(), r.c_str()); return 0; }
		fprintf(stderr, "unknown target %s\n", one_target.c_str()); return 2;
	}
	if (vg) {   // valgrind subset, in-process: every pinned + valid input of the key targets
		size_t n = 0;
		for (size_t k = 0; k < T.size(); k++) {
			if (T[k].name.compare(0, 4, "key-") != 0 && T[k].name != "imp-publickey-stream") continue;
			std::vector<std::string> ins = T[k].valid; for (auto &m : T[k].pinned) ins.push_back(m.s);
			for (auto &in : ins) { Case c{ k, in, "vg", 1 }; std::string r = exec_case(c); n++; (void)r; }
		}
		printf("STAT vg-cases=%zu\n", n); return 0;
	}
	if (batch == 0 && !norec) {   // in-process decoder records, in a child: a crash there is a finding with the announced input
		std::string cur = errdir + "/c12-rec-current-" + std::to_string(getpid()), ef = errdir + "/c12-rec-stderr-" + std::to_string(getpid());
		fflush(stdout);
		pid_t rp = fork();
		if (rp == 0) {
			rec_fd = open(cur.c_str(), O_RDWR | O_CREAT | O_TRUNC, 0644);
			int efd = open(ef.c_str(), O_WRONLY | O_CREAT | O_TRUNC, 0644); if (efd >= 0) { dup2(efd, 2); close(efd); }
			records(A.thorough()); fflush(stdout); _exit(0);
		}
		int st = 0; waitpid(rp, &st, 0);
		if (!(WIFEXITED(st) && WEXITSTATUS(st) == 0)) {
			std::ifstream f(cur.c_str(), std::ios::binary); std::string all((std::istreambuf_iterator<char>(f)), std::istreambuf_iterator<char>());
			size_t nl = all.find('\n'); std::string kind = nl == all.npos ? "?" : all.substr(0, nl), in = nl == all.npos ? "" : all.substr(nl + 1);
			std::string fn = errdir + "/c12-fail-decoder-" + std::to_string(A.seed) + ".bin"; { std::ofstream o(fn.c_str(), std::ios::binary); o.write(in.data(), in.size()); }
			std::ifstream e(ef.c_str()); std::string rep((std::istreambuf_iterator<char>(e)), std::istreambuf_iterator<char>()); for (char &ch : rep) if (ch == '\n' || ch == '\r') ch = '\x1f';
			printf("\nPROPFAIL decoder-records status=%s mut=direct-call:%s case=0 saved=%s input=%s report=%s\n", status_text(st).c_str(), kind.c_str(), fn.c_str(), xb(in.substr(0, 1200)).c_str(), rep.substr(0, 6000).c_str());
		}
		unlink(cur.c_str()); unlink(ef.c_str());
	}
	// ---- case list (identical in every batch process; batch i runs the cases with index % nbatch == i) ----
	const bool th = A.thorough();
	std::vector<Case> cases; std::vector<std::string> validkeys;
	for (size_t k = 0; k < T.size(); k++) {
		Target &t = T[k];
		if (!A.only.empty() && ("," + A.only + ",").find("," + t.name + ",") == std::string::npos) continue;
		SplitMix64 g(A.seed * 1000003ULL + k * 7919ULL + 5);
		for (size_t v = 0; v < t.valid.size(); v++) cases.push_back({ k, t.valid[v], "valid" + std::to_string(v), VSEED });
		for (auto &m : t.pinned) cases.push_back({ k, m.s, "pinned:" + m.d, VSEED });
		size_t budget = (th ? 800 : 130) * t.weight;
		for (size_t v = 0; v < t.valid.size(); v++) {
			std::vector<Mut> ms;
			if (t.fmt == 'p') pgp_mutations(t.valid[v], g, th ? 400 : 60, th ? 300 : 40, ms);
			else {
				text_mutations(t.valid[v], t.delims, g, t.lead, th ? 40 : 8, th ? 300 : 48, th ? 200 : 30, t.hugechars, ms, th ? 400 : 60);
				if (t.fmt == 'a') {   // armored: also mutate the binary payload and re-armor it
					tmcg_openpgp_octets_t o; tmcg_openpgp_armor_t ty = R::ArmorDecode(t.valid[v], o);
					std::vector<Mut> bm; pgp_mutations(sto(o), g, 20, 20, bm); sample(bm, g, th ? 300 : 40);
					for (auto &m : bm) ms.push_back({ armor(ty, m.s), "bin:" + m.d });
				}
			}
			sample(ms, g, budget / t.valid.size() + 1);
			for (auto &m : ms) cases.push_back({ k, m.s, m.d, VSEED });
		}
	}
	fflush(stdout);
	Limits lim; lim.cpu_s = 300; lim.wall_s = 3000; lim.group = 64;
#if defined(__SANITIZE_ADDRESS__)
	lim.as_mb = 0;
#else
	lim.as_mb = 8192;
#endif
	// J worker processes share this (expensive) setup; worker j runs the cases with index % J == j
	std::vector<pid_t> workers; std::vector<std::string> outs;
	for (size_t j = 0; j < jobs; j++) {
		std::string of = errdir + "/c12-out-" + std::to_string(getpid()) + "-" + std::to_string(j) + ".txt"; outs.push_back(of);
		pid_t w = fork();
		if (w < 0) { perror("fork"); return 3; }
		if (w == 0) {
			if (!freopen(of.c_str(), "w", stdout)) _exit(3);
			std::vector<Case> mine; std::vector<size_t> gidx;
			for (size_t i = 0; i < cases.size(); i++) if (i % (nbatch * jobs) == batch * jobs + j) { mine.push_back(cases[i]); gidx.push_back(i); }
			std::string errpath = errdir + "/c12-stderr-" + std::to_string(getpid()) + ".txt";
			std::map<std::string, std::map<std::string, size_t> > tally; size_t fails = 0;
			run_cases(mine, exec_case, lim, errpath,
				[&](size_t idx, const std::string &r) {
					const Case &c = mine[idx]; tally[T[c.target].name][r]++;
					if (r.compare(0, 8, "uncaught") == 0) {
						fails++; printf("PROPFAIL %s status=exception mut=%s case=%zu saved=- input=%s report=non-standard exception escaped the library (%s)\n", T[c.target].name.c_str(), c.mut.c_str(), gidx[idx], xb(c.input.substr(0, 1200)).c_str(), r.c_str());
					}
					if (c.mut.compare(0, 5, "valid") == 0 && T[c.target].expect_accept && r != "accept")
						printf("NOTE valid-input-not-accepted %s %s %s\n", T[c.target].name.c_str(), c.mut.c_str(), r.c_str());
				},
				[&](const Death &d) {
					const Case &c = mine[d.idx]; fails++;
					std::string fn = errdir + "/c12-fail-" + T[c.target].name + "-" + std::to_string(A.seed) + "-" + std::to_string(gidx[d.idx]) + ".bin";
					{ std::ofstream f(fn.c_str(), std::ios::binary); f.write(c.input.data(), c.input.size()); }
					std::string rep = d.report; for (char &ch : rep) if (ch == '\n' || ch == '\r') ch = '\x1f';
					printf("PROPFAIL %s status=%s mut=%s case=%zu saved=%s input=%s report=%s\n", T[c.target].name.c_str(), status_text(d.status).c_str(), c.mut.c_str(), gidx[d.idx], fn.c_str(),
						xb(c.input.substr(0, 1200)).c_str(), rep.substr(0, 6000).c_str());
					tally[T[c.target].name]["DIED"]++;
				});
			unlink(errpath.c_str());
			for (auto &t : tally) { std::string s; for (auto &r : t.second) s += " " + r.first + "=" + std::to_string(r.second); printf("TALLY %s%s\n", t.first.c_str(), s.c_str()); }
			printf("STAT worker=%zu batch=%zu/%zu cases=%zu total=%zu targets=%zu fails=%zu\n", j, batch, nbatch, mine.size(), cases.size(), T.size(), fails);
			fflush(stdout); _exit(0);
		}
		workers.push_back(w);
	}
	int bad = 0;
	for (size_t j = 0; j < workers.size(); j++) {
		int st = 0; waitpid(workers[j], &st, 0);
		if (!(WIFEXITED(st) && WEXITSTATUS(st) == 0)) { bad++; printf("WORKERFAIL %zu %s\n", j, status_text(st).c_str()); }
		std::ifstream f(outs[j].c_str()); std::string line; while (std::getline(f, line)) printf("%s\n", line.c_str());
		unlink(outs[j].c_str());
	}
	printf("DONE workers=%zu bad=%d cases=%zu\n", workers.size(), bad, cases.size());
	return 0;
}
