// C13 correspondence harness: real aiounicast_select / aiounicast_nonblock endpoints on pipes, with the harness itself
// as the byte relay between sender and receiver (it decides how the byte stream is split, delayed and tampered with).
//  REC consts / sizeinbase / send / recv / arrtake : inputs + observed behaviour, recomputed by the extracted AioModel
//  PROPFAIL : the property itself failing on the implementation (lost / duplicated / reordered / modified deliveries,
//             tampered bytes delivered under authentication, equal plaintexts giving equal wire bytes, digits on the wire)
// The libgcrypt MAC / cipher / KDF entry points are interposed (dlsym RTLD_NEXT) only to *log* the calls (the log is the
// oracle table handed to the model, whose MAC and cipher are parameters) and to memoize the PBKDF2 key derivation.
#include "common.hh"
#include <dlfcn.h>
#include <fcntl.h>
#include <signal.h>
#include <map>
#include <list>
#include <set>
#include <algorithm>
#include <type_traits>
#include <sys/select.h>
#define private public
#define protected public
#include <libTMCG.hh>
#include <aiounicast_nonblock.hh>
#include <aiounicast_select.hh>
#undef private
#undef protected
using namespace verif;

// ------------------------------------------------------------------------------------------------
// logging interposers
// ------------------------------------------------------------------------------------------------
struct H2 {   // history hash, recomputed identically by ocaml/drv_C13.ml
	uint64_t a = 7, b = 11;
	void add(unsigned c) { a = (a * 257 + c + 1) % 1000000007ULL; b = (b * 263 + c + 1) % 998244353ULL; }
	void op(char tag, const unsigned char *p, size_t n) { add((unsigned char)tag); for (size_t i = 0; i < n; i++) add(p[i]); add(255); }
	std::string str() const { return std::to_string(a) + "." + std::to_string(b); }
};
static std::map<void*, H2> g_chist;             // per cipher handle
static std::map<void*, std::string> g_macacc;   // per MAC handle: bytes written since the last reset
static bool g_log = false;
static std::vector<std::string> g_mlog, g_elog, g_dlog;
static void log_begin() { g_log = true; g_mlog.clear(); g_elog.clear(); g_dlog.clear(); }
static void log_end() { g_log = false; }
static std::string join(const std::vector<std::string> &v, const char *sep) {
	if (v.empty()) return "_";
	std::string r; for (size_t i = 0; i < v.size(); i++) { if (i) r += sep; r += v[i]; } return r;
}
static std::string hexs(const void *p, size_t n) { return xb((const unsigned char*)p, n).substr(1); }

template<class F> static F real(const char *name) {
	void *p = dlsym(RTLD_NEXT, name);
	if (!p) { fprintf(stdout, "HARNESS-ERROR dlsym %s\n", name); exit(3); }
	return (F)p;
}

extern "C" {
gpg_error_t gcry_kdf_derive(const void *pass, size_t passlen, int algo, int subalgo, const void *salt, size_t saltlen,
		unsigned long iterations, size_t keysize, void *keybuffer) {
	static auto f = real<gpg_error_t(*)(const void*, size_t, int, int, const void*, size_t, unsigned long, size_t, void*)>("gcry_kdf_derive");
	static std::map<std::string, std::string> memo;
	std::string k = std::string((const char*)pass, passlen) + "\x01" + std::to_string(algo) + "," + std::to_string(subalgo) + ","
		+ std::to_string(iterations) + "," + std::to_string(keysize) + "\x01" + std::string((const char*)salt, saltlen);
	auto it = memo.find(k);
	if (it != memo.end()) { memcpy(keybuffer, it->second.data(), keysize); return 0; }
	gpg_error_t e = f(pass, passlen, algo, subalgo, salt, saltlen, iterations, keysize, keybuffer);
	if (!e) memo[k] = std::string((const char*)keybuffer, keysize);
	return e;
}
gcry_error_t gcry_mac_write(gcry_mac_hd_t h, const void *buf, size_t len) {
	static auto f = real<gcry_error_t(*)(gcry_mac_hd_t, const void*, size_t)>("gcry_mac_write");
	g_macacc[(void*)h].append((const char*)buf, len);
	return f(h, buf, len);
}
gcry_error_t gcry_mac_ctl(gcry_mac_hd_t h, int cmd, void *buf, size_t len) {
	static auto f = real<gcry_error_t(*)(gcry_mac_hd_t, int, void*, size_t)>("gcry_mac_ctl");
	if (cmd == GCRYCTL_RESET) g_macacc[(void*)h].clear();
	return f(h, cmd, buf, len);
}
gcry_error_t gcry_mac_read(gcry_mac_hd_t h, void *buf, size_t *len) {
	static auto f = real<gcry_error_t(*)(gcry_mac_hd_t, void*, size_t*)>("gcry_mac_read");
	gcry_error_t e = f(h, buf, len);
	if (g_log && !e) { const std::string &a = g_macacc[(void*)h]; g_mlog.push_back(hexs(a.data(), a.size()) + ":" + hexs(buf, *len)); }
	return e;
}
gcry_error_t gcry_mac_verify(gcry_mac_hd_t h, const void *buf, size_t len) {
	static auto f = real<gcry_error_t(*)(gcry_mac_hd_t, const void*, size_t)>("gcry_mac_verify");
	static auto rd = real<gcry_error_t(*)(gcry_mac_hd_t, void*, size_t*)>("gcry_mac_read");
	if (g_log) {
		unsigned char t[128]; size_t tl = len < sizeof t ? len : sizeof t;
		if (!rd(h, t, &tl)) { const std::string &a = g_macacc[(void*)h]; g_mlog.push_back(hexs(a.data(), a.size()) + ":" + hexs(t, tl)); }
	}
	return f(h, buf, len);
}
void gcry_mac_close(gcry_mac_hd_t h) {
	static auto f = real<void(*)(gcry_mac_hd_t)>("gcry_mac_close");
	g_macacc.erase((void*)h); f(h);
}
gcry_error_t gcry_cipher_setiv(gcry_cipher_hd_t h, const void *iv, size_t len) {
	static auto f = real<gcry_error_t(*)(gcry_cipher_hd_t, const void*, size_t)>("gcry_cipher_setiv");
	g_chist[(void*)h].op('I', (const unsigned char*)iv, len);
	return f(h, iv, len);
}
gpg_error_t gcry_cipher_setctr(gcry_cipher_hd_t h, const void *ctr, size_t len) {
	static auto f = real<gpg_error_t(*)(gcry_cipher_hd_t, const void*, size_t)>("gcry_cipher_setctr");
	g_chist[(void*)h].op('C', (const unsigned char*)ctr, len);
	return f(h, ctr, len);
}
gcry_error_t gcry_cipher_encrypt(gcry_cipher_hd_t h, void *out, size_t outsize, const void *in, size_t inlen) {
	static auto f = real<gcry_error_t(*)(gcry_cipher_hd_t, void*, size_t, const void*, size_t)>("gcry_cipher_encrypt");
	std::string pin = in ? std::string((const char*)in, inlen) : std::string((const char*)out, outsize);
	gcry_error_t e = f(h, out, outsize, in, inlen);
	if (!e && !pin.empty()) {
		H2 &hh = g_chist[(void*)h];
		if (g_log) g_elog.push_back(hh.str() + ":" + hexs(pin.data(), pin.size()) + ":" + hexs(out, pin.size()));
		hh.op('D', (const unsigned char*)out, pin.size());
	}
	return e;
}
gcry_error_t gcry_cipher_decrypt(gcry_cipher_hd_t h, void *out, size_t outsize, const void *in, size_t inlen) {
	static auto f = real<gcry_error_t(*)(gcry_cipher_hd_t, void*, size_t, const void*, size_t)>("gcry_cipher_decrypt");
	std::string cin = in ? std::string((const char*)in, inlen) : std::string((const char*)out, outsize);
	gcry_error_t e = f(h, out, outsize, in, inlen);
	if (!e && !cin.empty()) {
		H2 &hh = g_chist[(void*)h];
		if (g_log) g_dlog.push_back(hh.str() + ":" + hexs(cin.data(), cin.size()) + ":" + hexs(out, cin.size()));
		hh.op('D', (const unsigned char*)cin.data(), cin.size());
	}
	return e;
}
void gcry_cipher_close(gcry_cipher_hd_t h) {
	static auto f = real<void(*)(gcry_cipher_hd_t)>("gcry_cipher_close");
	g_chist.erase((void*)h); f(h);
}
}

// ------------------------------------------------------------------------------------------------
// plumbing
// ------------------------------------------------------------------------------------------------
struct Mode {
	bool a, e, c, nb;
	std::string tok() const { std::string s; s += a ? '1' : '0'; s += e ? '1' : '0'; s += c ? '1' : '0'; s += nb ? '1' : '0'; return s; }
	bool ctr() const { return c && !nb; }
};
struct Pipe {
	int r = -1, w = -1;
	Pipe() { int p[2]; if (pipe2(p, O_NONBLOCK) < 0) { perror("pipe2"); printf("HARNESS-ERROR pipe\n"); exit(3); } r = p[0]; w = p[1]; }
	void closew() { if (w >= 0) close(w); w = -1; }
	~Pipe() { if (r >= 0) close(r); if (w >= 0) close(w); }
	Pipe(const Pipe&) = delete;
};
static std::string drain(int fd) {
	std::string s; char b[65536];
	for (;;) { ssize_t n = read(fd, b, sizeof b); if (n <= 0) break; s.append(b, n); }
	return s;
}
static void put(int fd, const std::string &s) {
	size_t off = 0;
	while (off < s.size()) {
		ssize_t n = write(fd, s.data() + off, s.size() - off);
		if (n < 0) { printf("HARNESS-ERROR relay pipe full (%zu bytes pending)\n", s.size() - off); exit(3); }
		off += n;
	}
}
static std::string zhex(mpz_srcptr z) { return hx(z); }

// one endpoint with n links; T = aiounicast_select or aiounicast_nonblock
template<class T> static T *mk(const std::vector<int> &fi, const std::vector<int> &fo, const std::vector<std::string> &keys,
		size_t n, size_t j, Mode m, size_t sched = aiounicast::aio_scheduler_direct) {
	return new T(n, j, fi, fo, keys, sched, aiounicast::aio_timeout_none, m.a, m.e, m.c);
}

template<class T> struct Tx {    // sending half of a link
	Pipe out, dummy; T *ep; Mode md;
	Tx(Mode m, const std::string &key) : md(m) { ep = mk<T>({dummy.r}, {out.w}, {key}, 1, 0, m); }
	~Tx() { delete ep; }
	bool send(mpz_srcptr m) { return ep->Send(m, 0, 1); }
	std::string take() { return drain(out.r); }
	std::string iv() const { return md.e ? std::string((const char*)ep->iv_out[0], ep->blklen) : std::string(); }
	std::string st() const {   // ivsent|sqn|chunk|histhash
		std::string s;
		s += (md.e && ep->iv_flag_out[0]) ? "1" : "0"; s += "|";
		s += md.a ? zhex(ep->mac_sqn_out[0]) : std::string("1"); s += "|";
		if constexpr (std::is_same<T, aiounicast_select>::value) s += (md.e && md.c) ? zhex(ep->chunk_out[0]) : std::string("0");
		else s += "0";
		s += "|";
		s += md.e ? g_chist[(void*)*ep->enc_out[0]].str() : H2().str();
		return s;
	}
};
template<class T> struct Rx {    // receiving half of a link
	Pipe in, dummy; T *ep; Mode md;
	Rx(Mode m, const std::string &key) : md(m) { ep = mk<T>({in.r}, {dummy.w}, {key}, 1, 0, m); }
	~Rx() { delete ep; }
	void feed(const std::string &s) { put(in.w, s); }
	void eof() { in.closew(); }
	bool call(mpz_ptr m) { size_t i = 0; return ep->Receive(m, i, aiounicast::aio_scheduler_direct, 0); }
	std::string nonce() const {
		if constexpr (std::is_same<T, aiounicast_select>::value) { if (md.e && md.c) return std::string((const char*)ep->iv_in[0], ep->blklen); }
		return std::string();
	}
	std::string sqn() const { return md.a ? zhex(ep->mac_sqn_in[0]) : std::string("1"); }
	std::string brief() const { return std::to_string(ep->buf_ptr[0]) + ":" + (ep->buf_flag[0] ? "1" : "0") + ":" + sqn(); }
	std::string st() const {   // buf.flag.iv.sqn.chunk.bad.histhash
		std::string s = xb(ep->buf_in[0], ep->buf_ptr[0]);
		s += "."; s += ep->buf_flag[0] ? "1" : "0";
		s += "."; s += (md.e && ep->iv_flag_in[0]) ? "1" : "0";
		s += "." + sqn() + ".";
		if constexpr (std::is_same<T, aiounicast_select>::value) s += (md.e && md.c) ? zhex(ep->chunk_in[0]) : std::string("0");
		else s += "0";
		s += "."; s += (md.a && ep->bad_auth[0]) ? "1" : "0";
		s += "."; s += md.e ? g_chist[(void*)*ep->enc_in[0]].str() : H2().str();
		return s;
	}
};

struct Ev { char k; std::string s; };     // 'F' feed, 'C' call, 'E' close the write end
static std::string evtok(const std::vector<Ev> &evs) {
	std::vector<std::string> v;
	for (auto &e : evs) v.push_back(e.k == 'F' ? "F" + hexs(e.s.data(), e.s.size()) : std::string(1, e.k));
	return join(v, ",");
}

static const char *KEY = "c13::link-key";
static unsigned long g_runs = 0;

// run a schedule against a fresh receiver; emits REC recv; returns the delivered values (hex)
template<class T> static std::vector<std::string> run_recv(Mode md, const std::vector<Ev> &evs, bool rec = true) {
	Rx<T> rx(md, KEY);
	std::vector<std::string> del, calls;
	mpz_t m; mpz_init(m);
	log_begin();
	for (auto &e : evs) {
		if (e.k == 'F') rx.feed(e.s);
		else if (e.k == 'E') rx.eof();
		else {
			bool ok = rx.call(m);
			if (ok) { del.push_back(zhex(m)); calls.push_back("D" + zhex(m) + ":" + rx.brief()); }
			else calls.push_back("N:" + rx.brief());
		}
	}
	log_end();
	g_runs++;
	if (rec) Rec("recv").t(md.tok()).b(rx.nonce()).t(evtok(evs)).t(join(g_mlog, "/")).t(join(g_dlog, "/")).t(join(calls, ",") + "|" + rx.st());
	mpz_clear(m);
	return del;
}

// a sender session: every Send is one REC send; collects the wire pieces
template<class T> struct Session {
	Tx<T> tx; Mode md; std::vector<std::string> pieces; std::vector<std::string> sent; std::string ivbytes;
	std::vector<bool> okv;
	Session(Mode m, const char *key = KEY) : tx(m, key), md(m) {}
	bool send(mpz_srcptr v, bool rec = true) {
		std::string before = tx.st(), iv = tx.iv();
		log_begin();
		bool ok = tx.send(v);
		log_end();
		std::string w = tx.take();
		if (rec) Rec("send").t(md.tok()).b(iv).t(before).z(v).t(join(g_mlog, "/")).t(join(g_elog, "/"))
			.t(ok ? xb(w) + "|" + tx.st() : std::string("none"));
		if (ok) {
			if (md.e && ivbytes.empty()) { ivbytes = w.substr(0, tx.ep->blklen); w = w.substr(tx.ep->blklen); }
			pieces.push_back(w); sent.push_back(zhex(v));
		} else if (!w.empty()) propfail("send-partial", "Send returned false after writing " + std::to_string(w.size()) + " bytes, mode " + md.tok());
		okv.push_back(ok);
		return ok;
	}
	std::string wire() const { std::string s = ivbytes; for (auto &p : pieces) s += p; return s; }
};

static std::string vtok(const std::vector<std::string> &v) { return join(v, ","); }
static bool is_prefix(const std::vector<std::string> &a, const std::vector<std::string> &b) {
	if (a.size() > b.size()) return false;
	for (size_t i = 0; i < a.size(); i++) if (a[i] != b[i]) return false;
	return true;
}

// values aimed at the boundaries of the framing code
static unsigned long max_bits(bool enc) {   // largest bit length Send accepts: 2 * sizeinbase < TMCG_MAX_VALUE_CHARS
	mpz_t t; mpz_init(t); unsigned long b = 11000;
	for (;; b++) { mpz_set_ui(t, 1); mpz_mul_2exp(t, t, b); /* 2^b has b+1 bits */
		if (mpz_sizeinbase(t, TMCG_MPZ_IO_BASE) * 2 >= TMCG_MAX_VALUE_CHARS) break; }
	mpz_clear(t); (void)enc; return b;    // values with b bits are the largest accepted
}
static void special(mpz_ptr z, unsigned k, bool enc) {
	switch (k) {
	case 0: mpz_set_ui(z, 0); break;
	case 1: mpz_set_ui(z, 1); break;
	case 2: mpz_set_ui(z, 1); mpz_mul_2exp(z, z, 256); mpz_sub_ui(z, z, 1); break;   // 2^256 - 1
	case 3: mpz_set_ui(z, 1); mpz_mul_2exp(z, z, 256); break;                          // 2^256
	case 4: mpz_set_ui(z, 61); break;
	case 5: mpz_set_ui(z, 62); break;
	case 6: mpz_set_ui(z, 4242424242UL); break;                                        // the array delimiter as payload
	case 7: { unsigned long b = max_bits(enc); mpz_set_ui(z, 1); mpz_mul_2exp(z, z, b); mpz_sub_ui(z, z, 1);
		if (enc) { mpz_t h; mpz_init_set_ui(h, 1); mpz_mul_2exp(h, h, 256); mpz_sub(z, z, h); mpz_clear(h); } break; }   // maximal
	default: gen_bits(z, 1 + gen().below(300)); break;
	}
}
static const unsigned NSPECIAL = 8;

// ------------------------------------------------------------------------------------------------
// sections
// ------------------------------------------------------------------------------------------------
static std::vector<Mode> all_modes() {
	std::vector<Mode> v;
	for (int nb = 0; nb < 2; nb++) for (int a = 0; a < 2; a++) for (int e = 0; e < 2; e++) for (int c = 0; c < 2; c++) v.push_back(Mode{(bool)a, (bool)e, (bool)c, (bool)nb});
	return v;
}

static void sec_basic(const Args &A) {
	{   // constants of the framing
		aiounicast_select *ep; Pipe p, q;
		ep = mk<aiounicast_select>({p.r}, {q.w}, {KEY}, 1, 0, Mode{true, true, false, false});
		Rec("consts").u(ep->buf_in_size).z(ep->aio_hide_length).z(ep->aio_array_delimiter).d(ep->maclen).d(ep->blklen).t("ok");
		delete ep;
	}
	mpz_t z; mpz_init(z);
	// mpz_sizeinbase(., 62) depends on the bit length only: all bit lengths around the limits, a stride elsewhere
	unsigned long hi = A.thorough() ? 24000 : 17000;
	for (unsigned long b = 1; b <= hi; b++) {
		bool pick = b < 600 || (b > 12100 && b < 12300) || (b > 16300 && b < 16500) || b % (A.thorough() ? 23 : 61) == 0;
		if (!pick) continue;
		mpz_set_ui(z, 1); mpz_mul_2exp(z, z, b - 1);
		Rec("sizeinbase").z(z).u(mpz_sizeinbase(z, 62));
		mpz_mul_2exp(z, z, 1); mpz_sub_ui(z, z, 1);
		if (gen().coin()) mpz_neg(z, z);
		Rec("sizeinbase").z(z).u(mpz_sizeinbase(z, 62));
	}
	mpz_set_ui(z, 0); Rec("sizeinbase").z(z).u(mpz_sizeinbase(z, 62));
	mpz_clear(z);
}

// honest exchanges: every split point of a short exchange (REC + PROPFAIL)
template<class T> static void split_mode(const Args &A, Mode md, unsigned stride, unsigned variant) {
	Session<T> s(md);
	mpz_t z; mpz_init(z);
	unsigned nmsg = 3;
	for (unsigned i = 0; i < nmsg; i++) {
		unsigned k = (variant * nmsg + i) % (NSPECIAL + 2);
		if (k == 7) k = 8;                         // the maximal value has its own section (long)
		special(z, k, md.e); s.send(z);
	}
	mpz_clear(z);
	std::string w = s.wire();
	for (size_t p = 0; p <= w.size(); p += 1) {
		if (stride > 1 && (p % stride) != (variant % stride) && p > 40 && p + 40 < w.size()) continue;
		std::vector<Ev> evs;
		// Feed A, Call (reads A), Feed B, close, Calls: every parse of a partial buffer happens with B still in the pipe
		evs.push_back({'F', w.substr(0, p)}); evs.push_back({'C', ""});
		evs.push_back({'F', w.substr(p)}); evs.push_back({'E', ""});
		for (unsigned i = 0; i < 2 * nmsg + 4; i++) evs.push_back({'C', ""});
		std::vector<std::string> del = run_recv<T>(md, evs);
		if (del != s.sent) propfail("split-" + md.tok(), "sent " + vtok(s.sent) + " stream split at " + std::to_string(p) + "/" + std::to_string(w.size())
			+ " delivered " + vtok(del) + " wire " + xb(w));
	}
	(void)A;
}

static std::vector<Ev> random_schedule(const std::string &w, unsigned maxchunk, bool calls_on_empty) {
	std::vector<Ev> evs; size_t off = 0;
	while (off < w.size()) {
		size_t n = 1 + gen().below(maxchunk); if (gen().below(8) == 0) n = 1 + gen().below(3);
		if (n > w.size() - off) n = w.size() - off;
		evs.push_back({'F', w.substr(off, n)}); off += n;
		unsigned nc = gen().below(3);
		if (gen().below(10) == 0) nc = 0;           // coalescing: two feeds without a call in between
		for (unsigned i = 0; i < nc; i++) {
			evs.push_back({'C', ""});
			// a call that finds the pipe empty costs a 50 ms select() in the select variant: keep those rare
			if (!calls_on_empty && off < w.size()) { size_t n2 = 1 + gen().below(maxchunk); if (n2 > w.size() - off) n2 = w.size() - off; evs.push_back({'F', w.substr(off, n2)}); off += n2; }
		}
	}
	evs.push_back({'E', ""});
	return evs;
}

// long exchanges with random chunking, large values, more bytes in the pipe than the receive buffer holds
template<class T> static void long_mode(const Args &A, Mode md, unsigned rounds) {
	mpz_t z; mpz_init(z);
	for (unsigned r = 0; r < rounds; r++) {
		Session<T> s(md);
		unsigned nmsg = 2 + gen().below(A.thorough() ? 10 : 5);
		for (unsigned i = 0; i < nmsg; i++) {
			unsigned sel = gen().below(10);
			if (sel == 0) special(z, 7, md.e);
			else if (sel == 1) { special(z, 7, md.e); mpz_add_ui(z, z, 1); }          // one above the maximum: must be refused
			else if (sel == 2) special(z, gen().below(NSPECIAL), md.e);
			else if (sel == 3) gen_bits(z, 1 + gen().below(A.thorough() ? 12000 : 3000));
			else gen_bits(z, 1 + gen().below(700));
			bool ok = s.send(z, r % 2 == 0 || sel < 3);
			if (sel == 1 && ok) propfail("oversize-accepted", "Send accepted a value above the documented maximum " + zhex(z));
		}
		std::string w = s.wire();
		unsigned maxchunk = (r % 3 == 0) ? 7000 : (r % 3 == 1 ? 40 : 700);
		std::vector<Ev> evs = random_schedule(w, maxchunk, false);
		for (unsigned i = 0; i < 3 * nmsg + 8; i++) evs.push_back({'C', ""});
		std::vector<std::string> del = run_recv<T>(md, evs, w.size() < 9000 || r % 4 == 0);
		if (del != s.sent) propfail("long-" + md.tok(), "sent " + std::to_string(s.sent.size()) + " messages, delivered " + std::to_string(del.size())
			+ (is_prefix(del, s.sent) ? " (a prefix)" : " (not a prefix)") + " wire bytes " + std::to_string(w.size()) + " maxchunk " + std::to_string(maxchunk));
	}
	mpz_clear(z);
}

// wire faults at every byte offset of a 3-message exchange
template<class T> static void fault_mode(const Args &A, Mode md, unsigned stride, unsigned variant) {
	Session<T> s(md);
	mpz_t z; mpz_init(z);
	for (unsigned i = 0; i < 3; i++) { special(z, (variant + i * 3) % 7, md.e); if (variant % 2) gen_bits(z, 1 + gen().below(80)); s.send(z); }
	mpz_clear(z);
	std::string w = s.wire();
	auto trial = [&](const std::string &t, const std::string &what, bool strict = false, bool ivreg = false) {
		std::vector<Ev> evs; evs.push_back({'F', t}); evs.push_back({'C', ""}); evs.push_back({'E', ""});
		for (unsigned i = 0; i < 12; i++) evs.push_back({'C', ""});
		std::vector<std::string> del = run_recv<T>(md, evs);
		if (md.a && !is_prefix(del, s.sent))
			propfail(ivreg ? std::string("tamper-iv") : "tamper-" + md.tok(), what + (ivreg ? " mode " + md.tok() : std::string()) + ": sent " + vtok(s.sent) + " delivered " + vtok(del) + " wire " + xb(w) + " tampered " + xb(t));
		// a tampered stream that merely continues the honest one (w is a prefix of t) changes nothing that was sent
		if (md.a && strict && t != w && t.compare(0, w.size(), w) != 0 && del.size() == s.sent.size())
			propfail("tamper-complete-" + md.tok(), what + ": all messages delivered although the wire was modified: " + xb(t));
	};
	for (size_t o = 0; o <= w.size(); o++) {
		if (stride > 1 && (o % stride) != (variant % stride)) continue;
		// the IV of a CTR ("chunked") link is sent but not used by the receiver: changing it changes nothing
		bool ivfree = md.ctr() && o < s.ivbytes.size();
		// the IV of a CFB link is used but not covered by the MAC (known finding tamper-iv)
		bool ivreg = md.e && !md.ctr() && o < s.ivbytes.size();
		if (o < w.size()) {
			std::string t = w; t[o] ^= (char)(1u << gen().below(8)); trial(t, "flip@" + std::to_string(o), !ivfree, ivreg);
			t = w; if (t[o] != '\n') { t[o] = '\n'; trial(t, "newline@" + std::to_string(o), !ivfree, ivreg); }
			t = w; t.erase(o, 1); trial(t, "delete@" + std::to_string(o), o + 1 < w.size(), ivreg);
		}
		std::string t = w; t.insert(t.begin() + o, (char)gen().below(256)); trial(t, "insert@" + std::to_string(o), o < w.size(), ivreg);
		if (gen().below(4) == 0) { t = w; t.insert(t.begin() + o, '\n'); trial(t, "insertnl@" + std::to_string(o), o < w.size(), ivreg); }
	}
	// record boundaries in w
	std::vector<size_t> bnd; { size_t b = s.ivbytes.size(); for (auto &p : s.pieces) { bnd.push_back(b); b += p.size(); } bnd.push_back(b); }
	size_t taglen = md.a ? 32 : 0;
	for (size_t o = 0; o < w.size(); o++) {
		if (stride > 1 && (o % stride) != ((variant + 1) % stride)) continue;
		bool ivreg = md.e && !md.ctr() && o < s.ivbytes.size();
		// truncation at offset o followed by the remaining valid records (the rest of the record containing o is lost)
		size_t nxt = 0; while (nxt < bnd.size() && bnd[nxt] <= o) nxt++;          // first boundary > o
		if (nxt < bnd.size() && bnd[nxt] < w.size()) {
			std::string t = w.substr(0, o) + w.substr(bnd[nxt]);
			trial(t, "truncate@" + std::to_string(o) + "+records-from-" + std::to_string(nxt), !(md.ctr() && o < s.ivbytes.size()), ivreg);
		}
		// a different base-62 digit inside a line: the line stays a valid number
		if (o >= s.ivbytes.size()) {
			size_t rec = nxt - 1, in = o - bnd[rec], linelen = s.pieces[rec].size() - taglen - 1;
			if (in < linelen && isalnum((unsigned char)w[o])) {
				static const char D[] = "0123456789ABCDEFGHIJKLMNOPQRSTUVWXYZabcdefghijklmnopqrstuvwxyz";
				const char *q = strchr(D, w[o]); char repl = D[((q - D) + 1 + gen().below(60)) % 62];
				if (in == 0 && repl == '0') repl = '1';
				std::string t = w; t[o] = repl; trial(t, "digit@" + std::to_string(o), true, false);
			}
		}
	}
	// cross-link replay: records of another link (different key, same mode, same values) fed to this link
	{
		Session<T> other(md, "c13::another-link-key");
		mpz_t y; mpz_init(y);
		for (size_t i = 0; i < s.sent.size(); i++) { mpz_set_str(y, s.sent[i].c_str(), 16); other.send(y, false); }
		mpz_clear(y);
		if (other.pieces.size() == s.pieces.size()) {
			for (size_t i = 0; i < s.pieces.size(); i++) {
				{ std::vector<std::string> v = s.pieces; v[i] = other.pieces[i]; std::string t = s.ivbytes; for (auto &x : v) t += x;
				  trial(t, "crosslink-replace-" + std::to_string(i), true, false); }
				for (size_t at = 0; at <= s.pieces.size(); at++) { std::vector<std::string> v = s.pieces; v.insert(v.begin() + at, other.pieces[i]); std::string t = s.ivbytes; for (auto &x : v) t += x;
				  trial(t, "crosslink-insert-" + std::to_string(i) + "-at-" + std::to_string(at), false, false); }
			}
			if (md.e) { std::string t = other.ivbytes; for (auto &x : s.pieces) t += x; trial(t, "crosslink-iv", !md.ctr(), !md.ctr()); }
		}
	}
	// record level: duplicate (replay), swap (reorder), remove, insert a forged record
	std::vector<std::string> P = s.pieces;
	auto build = [&](const std::vector<std::string> &v) { std::string r = s.ivbytes; for (auto &x : v) r += x; return r; };
	for (size_t i = 0; i < P.size(); i++) {
		for (size_t at = 0; at <= P.size(); at++) { std::vector<std::string> v = P; v.insert(v.begin() + at, P[i]); trial(build(v), "replay-" + std::to_string(i) + "-at-" + std::to_string(at)); }
		{ std::vector<std::string> v = P; v.erase(v.begin() + i); trial(build(v), "remove-" + std::to_string(i)); }
		for (size_t k = i + 1; k < P.size(); k++) { std::vector<std::string> v = P; std::swap(v[i], v[k]); trial(build(v), "swap-" + std::to_string(i) + "-" + std::to_string(k)); }
		{ std::vector<std::string> v = P; std::string f = "7\n"; if (md.a) for (int q = 0; q < 32; q++) f += (char)gen().below(256); v.insert(v.begin() + i, f);
		  trial(build(v), "forged-at-" + std::to_string(i)); }
	}
	(void)A;
}

// garbage streams (model comparison of the parser on arbitrary bytes, buffer limit)
template<class T> static void garbage_mode(const Args &A, Mode md, unsigned rounds) {
	static const char AL[] = "0123456789abcXYZ \t\r|+-\n\n\n";
	for (unsigned r = 0; r < rounds; r++) {
		std::string w;
		if (md.e) for (int i = 0; i < 16; i++) w += (char)gen().below(256);
		size_t len = (r % 5 == 0) ? 4000 + gen().below(400) : gen().below(200);
		bool nonl = (r % 10 == 0);
		for (size_t i = 0; i < len; i++) {
			unsigned sel = gen().below(20);
			char c = sel == 0 ? (char)gen().below(256) : AL[gen().below(sizeof(AL) - 1)];
			if (nonl && c == '\n') c = '1';
			if (r % 5 == 0 && c == '\n' && gen().below(50) != 0) c = '2';
			w += c;
		}
		std::vector<Ev> evs = random_schedule(w, r % 5 == 0 ? 5000 : 60, false);
		for (unsigned i = 0; i < 10; i++) evs.push_back({'C', ""});
		run_recv<T>(md, evs);
	}
	(void)A;
}

// encryption: equal integers give different wire bytes, the digits never show
template<class T> static void enc_mode(const Args &A, Mode md, unsigned rounds) {
	mpz_t z, zh; mpz_init(z); mpz_init(zh);
	for (unsigned r = 0; r < rounds; r++) {
		Session<T> s1(md), s2(md);
		if (r % 3 == 0) special(z, gen().below(NSPECIAL - 1), true); else gen_bits(z, 64 + gen().below(600));
		s1.send(z, false); s1.send(z, false); s1.send(z, false); s2.send(z, false);
		if (s1.pieces.size() != 3 || s2.pieces.size() != 1) { propfail("enc-send-" + md.tok(), "Send refused " + zhex(z)); continue; }
		size_t tl = md.a ? 32 : 0;
		auto line = [&](const std::string &p) { return p.substr(0, p.size() - tl); };
		if (line(s1.pieces[0]) == line(s1.pieces[1]) || line(s1.pieces[1]) == line(s1.pieces[2]) || line(s1.pieces[0]) == line(s1.pieces[2]))
			propfail("enc-equal-" + md.tok(), "the same integer " + zhex(z) + " sent twice on a link gives the same wire bytes " + xb(s1.wire()));
		if (s1.ivbytes == s2.ivbytes && !md.ctr()) propfail("enc-iv-" + md.tok(), "two links start with the same IV " + xb(s1.ivbytes));
		if (line(s1.pieces[0]) == line(s2.pieces[0]) && !md.ctr())
			propfail("enc-equal-links-" + md.tok(), "the same integer gives the same first line on two fresh links " + xb(s1.wire()));
		// digits of the plaintext (with and without the hiding offset) must not appear on the wire
		mpz_set_ui(zh, 1); mpz_mul_2exp(zh, zh, 256); mpz_add(zh, zh, z);
		std::ostringstream o1, o2; o1 << z; o2 << zh;
		std::string w = s1.wire();
		std::string d1 = o1.str(), d2 = o2.str();
		if (d1.size() >= 8 && w.find(d1) != w.npos) propfail("enc-digits-" + md.tok(), "base-62 digits of the integer appear on the wire: " + d1);
		if (w.find(d2.substr(d2.size() > 12 ? d2.size() - 12 : 0)) != w.npos || w.find(d2.substr(0, 12)) != w.npos)
			propfail("enc-digits-" + md.tok(), "base-62 digits of integer + 2^256 appear on the wire: " + d2);
	}
	mpz_clear(z); mpz_clear(zh); (void)A;
}

// negative integers (accepted by Send; the property promises delivery)
template<class T> static void neg_mode(Mode md) {
	Session<T> s(md);
	mpz_t z; mpz_init(z);
	mpz_set_si(z, -5); s.send(z); mpz_set_ui(z, 9); s.send(z);
	mpz_set_ui(z, 1); mpz_mul_2exp(z, z, 256); mpz_neg(z, z); s.send(z);
	mpz_clear(z);
	std::vector<Ev> evs; evs.push_back({'F', s.wire()}); evs.push_back({'C', ""}); evs.push_back({'E', ""});
	for (unsigned i = 0; i < 10; i++) evs.push_back({'C', ""});
	std::vector<std::string> del = run_recv<T>(md, evs);
	if (del != s.sent) propfail(std::string("negative-") + (md.e ? "encrypted" : "plain"), "mode " + md.tok() + " sent " + vtok(s.sent) + " delivered " + vtok(del));
}

// the delivery test of the array Receive on a prepared queue (REC arrtake)
template<class T> static void arr_take(Mode md, unsigned rounds) {
	for (unsigned r = 0; r < rounds; r++) {
		Rx<T> rx(md, KEY); rx.eof();
		size_t k = gen().below(4), qn = gen().below(8);
		std::vector<std::string> q;
		for (size_t i = 0; i < qn; i++) {
			mpz_ptr t = new mpz_t(); mpz_init_set_ui(t, gen().below(3) == 0 ? 4242424242UL : gen().below(5));
			rx.ep->buf_mpz[0].push_back(t); q.push_back(zhex(t));
		}
		std::vector<mpz_ptr> m; for (size_t i = 0; i < k; i++) { mpz_ptr t = new mpz_t(); mpz_init_set_si(t, -1); m.push_back(t); }
		size_t io = 0;
		bool ok = rx.ep->Receive(m, io, aiounicast::aio_scheduler_direct, 0);
		std::vector<std::string> mv, qa;
		for (auto t : m) mv.push_back(zhex(t));
		for (auto t : rx.ep->buf_mpz[0]) qa.push_back(zhex(t));
		Rec("arrtake").t(md.tok()).d(k).t(vtok(q)).t((ok ? "T" + vtok(mv) : std::string("F")) + "|" + vtok(qa));
		for (auto t : m) { mpz_clear(t); delete [] t; }
	}
}

// arrays through the relay in every mode (PROPFAIL)
template<class T> static void array_mode(const Args &A, Mode md, unsigned rounds) {
	for (unsigned r = 0; r < rounds; r++) {
		Tx<T> tx(md, KEY); Rx<T> rx(md, KEY);
		std::vector<std::vector<std::string>> sent;
		unsigned na = 1 + gen().below(4);
		std::vector<size_t> sizes;
		for (unsigned a = 0; a < na; a++) {
			size_t k = 1 + gen().below(5); sizes.push_back(k);
			std::vector<mpz_ptr> own; std::vector<mpz_srcptr> v; std::vector<std::string> hv;
			for (size_t i = 0; i < k; i++) { mpz_ptr t = new mpz_t(); mpz_init(t); if (gen().below(6) == 0) special(t, gen().below(7), md.e); else gen_bits(t, 1 + gen().below(400));
				own.push_back(t); v.push_back(t); hv.push_back(zhex(t)); }
			if (!tx.ep->Send(v, 0, 1)) propfail("array-send-" + md.tok(), "array Send refused");
			sent.push_back(hv);
			for (auto t : own) { mpz_clear(t); delete [] t; }
		}
		std::string w = tx.take();
		size_t off = 0; unsigned idle = 0; size_t cur = 0;
		std::vector<std::vector<std::string>> got;
		while (cur < na && idle < 40) {
			if (off < w.size()) { size_t n = 1 + gen().below(r % 2 ? 30 : 500); if (n > w.size() - off) n = w.size() - off; rx.feed(w.substr(off, n)); off += n; if (off == w.size()) rx.eof(); }
			std::vector<mpz_ptr> m; for (size_t i = 0; i < sizes[cur]; i++) { mpz_ptr t = new mpz_t(); mpz_init(t); m.push_back(t); }
			size_t io = 0;
			if (rx.ep->Receive(m, io, aiounicast::aio_scheduler_direct, 0)) {
				std::vector<std::string> hv; for (auto t : m) hv.push_back(zhex(t)); got.push_back(hv); cur++; idle = 0;
			} else if (off == w.size()) idle++;
			for (auto t : m) { mpz_clear(t); delete [] t; }
		}
		if (got != sent) { std::string a, b; for (auto &x : sent) a += "[" + vtok(x) + "]"; for (auto &x : got) b += "[" + vtok(x) + "]";
			propfail("array-" + md.tok(), "arrays sent " + a + " received " + b); }
		// nothing more may arrive
		std::vector<mpz_ptr> m; mpz_ptr t = new mpz_t(); mpz_init(t); m.push_back(t); size_t io = 0; bool extra = false;
		for (int i = 0; i < 3; i++) if (rx.ep->Receive(m, io, aiounicast::aio_scheduler_direct, 0)) extra = true;
		if (extra) propfail("array-extra-" + md.tok(), "an element was delivered that was never sent");
		mpz_clear(t); delete [] t;
	}
	(void)A;
}

// several parties, all links, the three receive schedulers, relay re-chunking every link (PROPFAIL)
template<class T> static void multi_mode(const Args &A, Mode md, size_t sched, unsigned rounds) {
	const size_t n = 3;
	for (unsigned r = 0; r < rounds; r++) {
		std::vector<std::vector<Pipe*>> S(n, std::vector<Pipe*>(n)), R(n, std::vector<Pipe*>(n));
		for (size_t i = 0; i < n; i++) for (size_t j = 0; j < n; j++) { S[i][j] = new Pipe(); R[i][j] = new Pipe(); }
		std::vector<T*> ep;
		for (size_t i = 0; i < n; i++) {
			std::vector<int> fi, fo; std::vector<std::string> keys;
			for (size_t j = 0; j < n; j++) { fi.push_back(R[j][i]->r); fo.push_back(S[i][j]->w);
				keys.push_back("c13::" + std::to_string(std::min(i, j)) + "-" + std::to_string(std::max(i, j))); }
			ep.push_back(mk<T>(fi, fo, keys, n, i, md, sched == aiounicast::aio_scheduler_direct ? aiounicast::aio_scheduler_roundrobin : sched));
		}
		std::vector<std::vector<std::vector<std::string>>> sent(n, std::vector<std::vector<std::string>>(n)), got(n, std::vector<std::vector<std::string>>(n));
		mpz_t z; mpz_init(z);
		size_t total = 0;
		for (size_t i = 0; i < n; i++) for (size_t j = 0; j < n; j++) {
			unsigned cnt = gen().below(5);
			for (unsigned k = 0; k < cnt; k++) {
				if (gen().below(5) == 0) special(z, gen().below(7), md.e); else gen_bits(z, 1 + gen().below(500));
				if (!ep[i]->Send(z, j, 1)) propfail("multi-send-" + md.tok(), "Send refused"); else { sent[i][j].push_back(zhex(z)); total++; }
			}
		}
		std::vector<std::vector<std::string>> w(n, std::vector<std::string>(n)); std::vector<std::vector<size_t>> off(n, std::vector<size_t>(n, 0));
		for (size_t i = 0; i < n; i++) for (size_t j = 0; j < n; j++) { w[i][j] = drain(S[i][j]->r); if (w[i][j].empty()) R[i][j]->closew(); }
		size_t recvd = 0;
		size_t dir = 0;
		bool bad_index = false;
		auto one_call = [&](size_t p, size_t from_direct) -> bool {
			size_t from = from_direct;
			bool ok = ep[p]->Receive(z, from, sched, 0);
			if (ok) {
				if (from >= n) { if (!bad_index) propfail("multi-index-" + md.tok(), "Receive returned true with sender index " + std::to_string(from)); bad_index = true; return false; }
				got[from][p].push_back(zhex(z)); recvd++;
			}
			return ok;
		};
		// phase 1: forward a random chunk on every link that still has bytes (so no round waits on an empty descriptor),
		// then one Receive call at a random party
		for (;;) {
			bool pending = false;
			for (size_t i = 0; i < n; i++) for (size_t j = 0; j < n; j++) if (off[i][j] < w[i][j].size()) {
				size_t c = 1 + gen().below(r % 2 ? 25 : 300); if (c > w[i][j].size() - off[i][j]) c = w[i][j].size() - off[i][j];
				put(R[i][j]->w, w[i][j].substr(off[i][j], c)); off[i][j] += c;
				if (off[i][j] == w[i][j].size()) R[i][j]->closew(); else pending = true;
			}
			one_call(gen().below(n), dir++ % n);
			if (!pending) break;
		}
		// phase 2 (everything forwarded, all write ends closed: calls return at once): sweep deterministically until a
		// whole sweep delivers nothing; the random scheduler gets enough calls per party to visit every link
		for (unsigned sweep = 0; sweep < 400; sweep++) {
			bool any = false;
			for (size_t p = 0; p < n; p++) {
				if (sched == aiounicast::aio_scheduler_direct) { for (size_t f = 0; f < n; f++) for (int k = 0; k < 3; k++) if (one_call(p, f)) any = true; }
				else { unsigned calls = (sched == aiounicast::aio_scheduler_random) ? 60 : 6; for (unsigned k = 0; k < calls; k++) if (one_call(p, 0)) any = true; }
			}
			if (!any) break;
		}
		mpz_clear(z);
		for (size_t i = 0; i < n; i++) for (size_t j = 0; j < n; j++) if (got[i][j] != sent[i][j])
			propfail("multi-" + md.tok() + "-s" + std::to_string(sched), "link " + std::to_string(i) + "->" + std::to_string(j) + " sent " + vtok(sent[i][j]) + " received " + vtok(got[i][j]));
		for (auto e : ep) delete e;
		for (size_t i = 0; i < n; i++) for (size_t j = 0; j < n; j++) { delete S[i][j]; delete R[i][j]; }
		(void)total; (void)recvd;
	}
	(void)A;
}

template<class T> static void for_variant(const Args &A, const std::string &sec, Mode md, unsigned shard, unsigned nshards) {
	const bool th = A.thorough();
	if (sec == "split") {
		split_mode<T>(A, md, th ? 1 : 5, shard);
		if (th) split_mode<T>(A, md, 3, shard + 1);
	} else if (sec == "fault") {
		fault_mode<T>(A, md, th ? 1 : (md.e ? 9 : 4), shard);
	} else if (sec == "long") {
		long_mode<T>(A, md, th ? 4 : 2);
		garbage_mode<T>(A, md, th ? 30 : 10);
		neg_mode<T>(md);
	} else if (sec == "enc") {
		if (md.e) enc_mode<T>(A, md, th ? 24 : 8);
		arr_take<T>(md, th ? 120 : 40);
		array_mode<T>(A, md, th ? 8 : 3);
	} else if (sec == "multi") {
		for (size_t s = 1; s <= 3; s++) multi_mode<T>(A, md, s, th ? 2 : 1);
	}
	(void)nshards;
}

int main(int argc, char **argv) {
	Args A(argc, argv);
	signal(SIGPIPE, SIG_IGN);
	if (!getenv("VERIF_C13_STDERR")) { int fd = open("/dev/null", O_WRONLY); if (fd >= 0) { dup2(fd, 2); close(fd); } }
	if (!init_libTMCG()) { printf("HARNESS-ERROR init_libTMCG failed\n"); return 2; }
	// --only <section>[:<mode index 0..15>]   sections: basic split fault long enc multi
	std::string sec = A.only.empty() ? "all" : A.only; int mi = -1;
	size_t c = sec.find(':'); if (c != sec.npos) { mi = atoi(sec.c_str() + c + 1); sec = sec.substr(0, c); }
	std::vector<Mode> modes = all_modes();
	const char *secs[] = { "basic", "split", "fault", "long", "enc", "multi" };
	for (const char *s : secs) {
		if (sec != "all" && sec != s) continue;
		if (std::string(s) == "basic") { if (mi <= 0) sec_basic(A); continue; }
		for (size_t k = 0; k < modes.size(); k++) {
			if (mi >= 0 && (int)k != mi) continue;
			// independent generator stream per (section, mode): shards reproduce the same records as a full run
			uint64_t h = 1469598103934665603ULL; for (const char *q = s; *q; q++) h = (h ^ (unsigned char)*q) * 1099511628211ULL;
			gen() = SplitMix64(A.seed * 0x9E3779B97F4A7C15ULL + h + k * 7919);
			reseed_lib(A.seed ^ (h + k));
			if (modes[k].nb) for_variant<aiounicast_nonblock>(A, s, modes[k], (unsigned)(A.seed % 7), 1);
			else for_variant<aiounicast_select>(A, s, modes[k], (unsigned)(A.seed % 7), 1);
		}
	}
	printf("DONE runs=%lu\n", g_runs);
	return 0;
}
