// C04 harness: (1) wrong-witness provers -- the real prover code is run with a witness that does not fit the (false)
// statement; the real verifier must refuse (PROPFAIL otherwise); (2) the cut-and-choose guessing prover (public API only)
// against the real verifier under ALL 2^kappa verifier coin strings (scripted through the RNG interposer): REC cc lines
// compared with the Coq model (accepted iff coins = guess), PROPFAIL when the acceptance count is not exactly 1;
// (3) extractor records: two accepting interactive key proofs with one commitment -> REC ext, the model's extractor
// output must equal the prover's real secret.
//   c04 --tier quick|thorough --seed N --only ww|cc|ext
#include "c05_world.hh"
using namespace verif;

static unsigned long g_cases = 0, g_rejected = 0;
static std::istringstream g_nullin("");
static void expect_refusal(const std::string &key, const std::string &what, int verdict) {
	g_cases++;
	if (verdict == 1) propfail(key, "verifier accepted a proof of a false statement: " + what); else g_rejected++;
}
static std::string bits_str(unsigned long v, unsigned k) { std::string s; for (unsigned i = 0; i < k; i++) s += ((v >> i) & 1) ? '1' : '0'; return s; }

struct Deck {
	TMCG_Stack<VTMF_Card> s, s2;
	TMCG_StackSecret<VTMF_CardSecret> ss;
};
static void make_deck(Deck &D, SchindelhauerTMCG *T, BarnettSmartVTMF_dlog *A, size_t n, bool cyclic, const std::vector<size_t> *pi = 0) {
	for (size_t i = 0; i < n; i++) { VTMF_Card c; if (i % 2) { VTMF_CardSecret cs; T->TMCG_CreatePrivateCard(c, cs, A, i); } else T->TMCG_CreateOpenCard(c, A, i); D.s.push(c); }
	if (pi) T->TMCG_CreateStackSecret(D.ss, *pi, n, A); else T->TMCG_CreateStackSecret(D.ss, cyclic, n, A);
	T->TMCG_MixStack(D.s, D.s2, D.ss, A);
}
// a masked card of the given type (a fresh encryption, so it is a member of the group)
static void masked_card(VTMF_Card &out, SchindelhauerTMCG *T, BarnettSmartVTMF_dlog *A, size_t type) {
	VTMF_Card o; T->TMCG_CreateOpenCard(o, A, type); VTMF_CardSecret cs; T->TMCG_CreateCardSecret(cs, A); T->TMCG_MaskCard(o, out, cs, A);
}
static TMCG_Stack<VTMF_Card> with_card(const TMCG_Stack<VTMF_Card> &s, size_t pos, const VTMF_Card &c) {
	TMCG_Stack<VTMF_Card> r; for (size_t i = 0; i < s.size(); i++) r.push(i == pos ? c : s[i]); return r;
}

// ---------------------------------------------------------------------------------------- wrong witnesses
static void wrong_witness(World &W, const Args &a) {
	BarnettSmartVTMF_dlog *A = W.A, *B = W.B;
	unsigned long kappa = 40;                       // a non-fitting witness survives one round with probability 1/2
	std::vector<size_t> ns = a.thorough() ? std::vector<size_t>{2, 3, 4, 5, 6} : std::vector<size_t>{2, 3, 4};
	unsigned long le = W.gsz / 4;
	for (size_t n : ns) {
		SchindelhauerTMCG *T = new SchindelhauerTMCG(kappa, 2, 4);
		GrothVSSHE *va = new GrothVSSHE(n, A->p, A->q, A->k, A->g, A->h, le, W.fsz, W.gsz);
		std::stringstream pg; va->PublishGroup(pg);
		GrothVSSHE *vb = new GrothVSSHE(n, pg, le, W.fsz, W.gsz);
		HooghSchoenmakersSkoricVillegasVRHE *ra = new HooghSchoenmakersSkoricVillegasVRHE(A->p, A->q, A->g, A->h, W.fsz, W.gsz);
		HooghSchoenmakersSkoricVillegasVRHE *rb = new HooghSchoenmakersSkoricVillegasVRHE(B->p, B->q, B->g, B->h, W.fsz, W.gsz);
		Deck D; make_deck(D, T, A, n, false);
		Deck C; make_deck(C, T, A, n, true);
		// every edit position x every kind of edit of the output stack
		auto make_falses = [&](Deck &K, size_t pos) {
			std::vector<std::pair<std::string, TMCG_Stack<VTMF_Card> > > falses;
			for (size_t ty = 0; ty < (a.thorough() ? n + 1 : 2); ty++) {          // substituted / re-typed: a fresh masked card of another type
				size_t type = (K.ss[pos].first + 1 + ty) % (n + 1);
				if (type == K.ss[pos].first) continue;
				VTMF_Card c; masked_card(c, T, A, type); falses.push_back({"retyped", with_card(K.s2, pos, c)});
			}
			falses.push_back({"duplicated", with_card(K.s2, pos, K.s2[(pos + 1) % n])});
			{ VTMF_Card c; c = K.s2[pos]; mpz_mul(c.c_2, c.c_2, A->g); mpz_mod(c.c_2, c.c_2, A->p); falses.push_back({"shifted", with_card(K.s2, pos, c)}); }   // type multiplied by g
			return falses;
		};
		for (size_t pos = 0; pos < n; pos++) {
			auto falses = make_falses(D, pos); auto falsesC = make_falses(C, pos);
			size_t fidx = 0;
			for (auto &f : falses) {
				std::string what = f.first + " card at position " + std::to_string(pos) + " of " + std::to_string(n);
				TMCG_Stack<VTMF_Card> &bad = f.second; std::string p2v, v2p;
				int v = run_pair(gen().next(), gen().next(), [&](std::istream &i, std::ostream &o) { T->TMCG_ProveStackEquality(D.s, bad, D.ss, false, A, i, o); },
					[&](std::istream &i, std::ostream &o) { return T->TMCG_VerifyStackEquality(D.s, bad, false, B, i, o); }, p2v, v2p);
				expect_refusal("ww.cutchoose." + f.first, what, v);
				v = run_pair(gen().next(), gen().next(), [&](std::istream &i, std::ostream &o) { T->TMCG_ProveStackEquality_Groth(D.s, bad, D.ss, A, va, i, o); },
					[&](std::istream &i, std::ostream &o) { return T->TMCG_VerifyStackEquality_Groth(D.s, bad, B, vb, i, o); }, p2v, v2p);
				expect_refusal("ww.groth_int." + f.first, what, v);
				{ std::ostringstream o; T->TMCG_ProveStackEquality_Groth_noninteractive(D.s, bad, D.ss, A, va, o);
				  v = replay_verifier(gen().next(), o.str(), [&](std::istream &i, std::ostream&) { return T->TMCG_VerifyStackEquality_Groth_noninteractive(D.s, bad, B, vb, i); }); }
				expect_refusal("ww.groth_ni." + f.first, what, v);
				// the same edits on a rotated deck, rotation argument
				TMCG_Stack<VTMF_Card> &badc = falsesC[fidx++].second;
				v = run_pair(gen().next(), gen().next(), [&](std::istream &i, std::ostream &o) { T->TMCG_ProveStackEquality_Hoogh(C.s, badc, C.ss, A, ra, i, o); },
					[&](std::istream &i, std::ostream &o) { return T->TMCG_VerifyStackEquality_Hoogh(C.s, badc, B, rb, i, o); }, p2v, v2p);
				expect_refusal("ww.hoogh_int." + f.first, what, v);
				{ std::ostringstream o; T->TMCG_ProveStackEquality_Hoogh_noninteractive(C.s, badc, C.ss, A, ra, o);
				  v = replay_verifier(gen().next(), o.str(), [&](std::istream &i, std::ostream&) { return T->TMCG_VerifyStackEquality_Hoogh_noninteractive(C.s, badc, B, rb, i); }); }
				expect_refusal("ww.hoogh_ni." + f.first, what, v);
				v = run_pair(gen().next(), gen().next(), [&](std::istream &i, std::ostream &o) { T->TMCG_ProveStackEquality(C.s, badc, C.ss, true, A, i, o); },
					[&](std::istream &i, std::ostream &o) { return T->TMCG_VerifyStackEquality(C.s, badc, true, B, i, o); }, p2v, v2p);
				expect_refusal("ww.cutchoose_cyc." + f.first, what, v);
			}
			// dropped card: the output stack is shorter; the honest transcript for the true statement is offered
			{
				TMCG_Stack<VTMF_Card> shorter; for (size_t i = 0; i < n; i++) if (i != pos) shorter.push(D.s2[i]);
				std::string p2v, v2p;
				run_pair(gen().next(), gen().next(), [&](std::istream &i, std::ostream &o) { T->TMCG_ProveStackEquality(D.s, D.s2, D.ss, false, A, i, o); },
					[&](std::istream &i, std::ostream &o) { return T->TMCG_VerifyStackEquality(D.s, D.s2, false, B, i, o); }, p2v, v2p);
				std::string what = "dropped card at position " + std::to_string(pos) + " of " + std::to_string(n);
				expect_refusal("ww.cutchoose.dropped", what, replay_verifier(gen().next(), p2v, [&](std::istream &i, std::ostream &o) { return T->TMCG_VerifyStackEquality(D.s, shorter, false, B, i, o); }));
				std::ostringstream o; T->TMCG_ProveStackEquality_Groth_noninteractive(D.s, D.s2, D.ss, A, va, o);
				expect_refusal("ww.groth_ni.dropped", what, replay_verifier(gen().next(), o.str(), [&](std::istream &i, std::ostream&) { return T->TMCG_VerifyStackEquality_Groth_noninteractive(D.s, shorter, B, vb, i); }));
				std::ostringstream o2; T->TMCG_ProveStackEquality_Hoogh_noninteractive(C.s, C.s2, C.ss, A, ra, o2);
				TMCG_Stack<VTMF_Card> shorterc; for (size_t i = 0; i < n; i++) if (i != pos) shorterc.push(C.s2[i]);
				expect_refusal("ww.hoogh_ni.dropped", what, replay_verifier(gen().next(), o2.str(), [&](std::istream &i, std::ostream&) { return T->TMCG_VerifyStackEquality_Hoogh_noninteractive(C.s, shorterc, B, rb, i); }));
			}
		}
		// a non-cyclic permutation presented as a rotation (n >= 3: every permutation of 2 cards is cyclic)
		if (n >= 3) {
			for (size_t sw = 0; sw + 1 < n; sw++) {
				std::vector<size_t> pi; for (size_t i = 0; i < n; i++) pi.push_back((i + 1) % n);
				std::swap(pi[sw], pi[sw + 1]);
				bool cyc = true; for (size_t i = 1; i < n; i++) if (pi[i] != (pi[0] + i) % n) cyc = false;
				if (cyc) continue;
				Deck N; make_deck(N, T, A, n, false, &pi);
				std::string what = "non-cyclic permutation (swap at " + std::to_string(sw) + ") of " + std::to_string(n) + " cards presented as a rotation";
				std::string p2v, v2p;
				int v = run_pair(gen().next(), gen().next(), [&](std::istream &i, std::ostream &o) { T->TMCG_ProveStackEquality(N.s, N.s2, N.ss, true, A, i, o); },
					[&](std::istream &i, std::ostream &o) { return T->TMCG_VerifyStackEquality(N.s, N.s2, true, B, i, o); }, p2v, v2p);
				expect_refusal("ww.cutchoose_cyc.noncyclic", what, v);
				v = run_pair(gen().next(), gen().next(), [&](std::istream &i, std::ostream &o) { T->TMCG_ProveStackEquality_Hoogh(N.s, N.s2, N.ss, A, ra, i, o); },
					[&](std::istream &i, std::ostream &o) { return T->TMCG_VerifyStackEquality_Hoogh(N.s, N.s2, B, rb, i, o); }, p2v, v2p);
				expect_refusal("ww.hoogh_int.noncyclic", what, v);
				std::ostringstream o; T->TMCG_ProveStackEquality_Hoogh_noninteractive(N.s, N.s2, N.ss, A, ra, o);
				expect_refusal("ww.hoogh_ni.noncyclic", what, replay_verifier(gen().next(), o.str(), [&](std::istream &i, std::ostream&) { return T->TMCG_VerifyStackEquality_Hoogh_noninteractive(N.s, N.s2, B, rb, i); }));
			}
		}
		delete T;
	}
	// card level: a mask that changes the type / of a different message
	{
		SchindelhauerTMCG *T = new SchindelhauerTMCG(16, 2, 4);
		int reps = a.thorough() ? 12 : 4;
		for (int it = 0; it < reps; it++) {
			size_t ty = gen().below(8), ty2 = (ty + 1 + gen().below(7)) % 8;
			VTMF_Card c, cc, other, oc; VTMF_CardSecret cs;
			T->TMCG_CreateOpenCard(c, A, ty); T->TMCG_CreateCardSecret(cs, A); T->TMCG_MaskCard(c, cc, cs, A);
			T->TMCG_CreateOpenCard(other, A, ty2); T->TMCG_MaskCard(other, oc, cs, A);       // mask of another type with the same secret
			std::ostringstream o; T->TMCG_ProveMaskCard(c, oc, cs, A, g_nullin, o);
			expect_refusal("ww.maskcard.retyped", "masked card of type " + std::to_string(ty2) + " presented as a mask of type " + std::to_string(ty),
				replay_verifier(gen().next(), o.str(), [&](std::istream &i, std::ostream &oo) { return T->TMCG_VerifyMaskCard(c, oc, B, i, oo); }));
			// VTMF level: mask of m presented as mask of m'
			Z m, m2, c1, c2, r; B->RandomElement(m); B->RandomElement(m2); A->VerifiableMaskingProtocol_Mask(m, c1, c2, r);
			std::ostringstream o2; A->VerifiableMaskingProtocol_Prove(m2, c1, c2, r, o2);
			expect_refusal("ww.mask.othermessage", "mask of m presented as a mask of m'",
				replay_verifier(gen().next(), o2.str(), [&](std::istream &i, std::ostream&) { return B->VerifiableMaskingProtocol_Verify(m2, c1, c2, i); }));
			// re-mask that also changes the message
			Z d1, d2, r2; A->VerifiableRemaskingProtocol_Mask(c1, c2, d1, d2, r2); mpz_mul(d2, d2, A->g); mpz_mod(d2, d2, A->p);
			std::ostringstream o3; A->VerifiableRemaskingProtocol_Prove(c1, c2, d1, d2, r2, o3);
			expect_refusal("ww.remask.changed", "re-masking that multiplies the message by g",
				replay_verifier(gen().next(), o3.str(), [&](std::istream &i, std::ostream&) { return B->VerifiableRemaskingProtocol_Verify(c1, c2, d1, d2, i); }));
			// decryption share computed with another key / key share without knowledge: the prover's secret is replaced
			Z keep(A->x_i);
			do tmcg_mpz_srandomm(A->x_i, A->q); while (!mpz_cmp(A->x_i, keep));
			std::ostringstream o4; A->VerifiableDecryptionProtocol_Prove(c1, o4);
			B->VerifiableDecryptionProtocol_Verify_Initialize(c1);
			expect_refusal("ww.decrypt.otherkey", "decryption share computed with a key other than the registered one",
				replay_verifier(gen().next(), o4.str(), [&](std::istream &i, std::ostream&) { return B->VerifiableDecryptionProtocol_Verify_Update(c1, i); }));
			{ std::ostringstream o5; T->TMCG_ProveCardSecret(cc, A, g_nullin, o5); T->TMCG_SelfCardSecret(cc, B);
			  expect_refusal("ww.cardsecret.otherkey", "card secret share computed with a key other than the registered one",
				replay_verifier(gen().next(), o5.str(), [&](std::istream &i, std::ostream &oo) { return T->TMCG_VerifyCardSecret(cc, B, i, oo); })); }
			BarnettSmartVTMF_dlog *K = W.fresh();
			std::ostringstream o6; A->KeyGenerationProtocol_PublishKey(o6);
			expect_refusal("ww.keynizk.noknowledge", "key share published with a proof made from a different exponent",
				replay_verifier(gen().next(), o6.str(), [&](std::istream &i, std::ostream&) { return K->KeyGenerationProtocol_UpdateKey(i); }));
			std::string p2v, v2p; Z key(A->h_i);
			int v = run_pair(gen().next(), gen().next(), [&](std::istream &i, std::ostream &o) { A->KeyGenerationProtocol_ProveKey_interactive(i, o); },
				[&](std::istream &i, std::ostream &o) { return B->KeyGenerationProtocol_VerifyKey_interactive(key, i, o); }, p2v, v2p);
			expect_refusal("ww.keyint.noknowledge", "interactive key proof run with a different exponent", v);
			mpz_set(A->x_i, keep);
			delete K;
			// OR proof where neither branch holds
			Z al, y1, y2; A->MaskingValue(al); B->RandomElement(y1); B->RandomElement(y2);
			std::ostringstream o7; A->OR_ProveFirst(y1, y2, A->g, A->h, al, o7);
			expect_refusal("ww.or.neither", "OR proof for two random elements",
				replay_verifier(gen().next(), o7.str(), [&](std::istream &i, std::ostream&) { return B->OR_Verify(y1, y2, B->g, B->h, i); }));
		}
		delete T;
	}
	printf("WW cases=%lu refused=%lu\n", g_cases, g_rejected);
}

// ---------------------------------------------------------------------------------------- guessing prover
// public API only: per round re-mix of s2 (guess 1) or of s (guess 0) with a fresh stack secret, commit, answer it
static std::string guessing_transcript(SchindelhauerTMCG *T, BarnettSmartVTMF_dlog *A, const TMCG_Stack<VTMF_Card> &s, const TMCG_Stack<VTMF_Card> &s2,
                                       unsigned long guess, unsigned kappa, bool cyclic) {
	std::ostringstream out; Z foo;
	for (unsigned i = 0; i < kappa; i++) {
		TMCG_Stack<VTMF_Card> s3; TMCG_StackSecret<VTMF_CardSecret> ss2;
		T->TMCG_CreateStackSecret(ss2, cyclic, s.size(), A);
		T->TMCG_MixStack(((guess >> i) & 1) ? s2 : s, s3, ss2, A);
		if (TMCG_HASH_COMMITMENT) { std::ostringstream ost; ost << s3 << std::endl; tmcg_mpz_shash(foo, ost.str()); out << (mpz_srcptr)foo << std::endl; }
		else out << s3 << std::endl;
		out << ss2 << std::endl;
	}
	return out.str();
}
static void guessing(World &W, const Args &a) {
	BarnettSmartVTMF_dlog *A = W.A, *B = W.B;
	std::vector<unsigned> kappas = a.thorough() ? std::vector<unsigned>{1, 2, 3, 4, 6, 8} : std::vector<unsigned>{1, 2, 3, 4, 6};
	for (unsigned kappa : kappas) for (int cyc = 0; cyc < 2; cyc++) {
		SchindelhauerTMCG *T = new SchindelhauerTMCG(kappa, 2, 4);
		size_t n = 3;
		Deck D; make_deck(D, T, A, n, cyc);
		// false statement: one card of the output replaced by a masked card of another type
		VTMF_Card c; masked_card(c, T, A, 7); TMCG_Stack<VTMF_Card> bad = with_card(D.s2, 1, c);
		unsigned long all = 1UL << kappa;
		std::vector<unsigned long> guesses;
		if (kappa <= 4) for (unsigned long g = 0; g < all; g++) guesses.push_back(g);
		else { guesses.push_back(0); guesses.push_back(all - 1); for (int i = 0; i < (a.thorough() ? 6 : 2); i++) guesses.push_back(gen().below(all)); }
		for (unsigned long g : guesses) {
			std::string t = guessing_transcript(T, A, D.s, bad, g, kappa, cyc);
			unsigned long acc = 0;
			for (unsigned long coins = 0; coins < all; coins++) {
				// the verifier draws one byte per round (tmcg_mpz_srandomb(foo, 1)); its low bit is the challenge
				std::vector<unsigned char> sc; for (unsigned i = 0; i < kappa; i++) sc.push_back((unsigned char)(((coins >> i) & 1) | (gen().next() & 0xfe)));
				coin_script().clear(); script_bytes(sc);
				std::istringstream in(t); std::ostringstream out; int v;
				try { v = T->TMCG_VerifyStackEquality(D.s, bad, cyc, B, in, out) ? 1 : 0; } catch (...) { v = 2; }
				bool drained = coin_script().empty(); coin_script().clear();
				if (!drained && v == 1) printf("NOTE cc: verifier did not draw all scripted coins (kappa=%u)\n", kappa);
				if (v == 1) acc++;
				Rec("cc").d(kappa).t(bits_str(g, kappa)).t(bits_str(coins, kappa)).d(v == 1 ? 1 : 0);
			}
			g_cases++;
			if (acc != 1) propfail(std::string("cc.count") + (cyc ? "_cyc" : ""), "guessing prover (guess " + bits_str(g, kappa) + ", kappa=" + std::to_string(kappa) + ") was accepted for " + std::to_string(acc) + " of " + std::to_string(all) + " verifier coin strings (must be exactly 1)");
			else g_rejected++;
		}
		delete T;
	}
	printf("CC prover-strings=%lu exact=%lu\n", g_cases, g_rejected);
}

// ---------------------------------------------------------------------------------------- extractor records
static void extractor_records(const Args &a) {
	World W(a.thorough() ? 192 : 128, a.thorough() ? 96 : 64);
	BarnettSmartVTMF_dlog *A = W.A, *B = W.B;
	int reps = a.thorough() ? 40 : 12;
	for (int it = 0; it < reps; it++) {
		uint64_t sp = gen().next(); Z key(A->h_i);
		std::string t1, t2, c1s, c2s;
		auto P = [&](std::istream &i, std::ostream &o) { A->KeyGenerationProtocol_ProveKey_interactive(i, o); };
		auto V = [&](std::istream &i, std::ostream &o) { return B->KeyGenerationProtocol_VerifyKey_interactive(key, i, o); };
		int v1 = run_pair(sp, gen().next(), P, V, t1, c1s), v2 = run_pair(sp, gen().next(), P, V, t2, c2s);   // same prover coins, fresh challenge
		std::vector<Atom> a1 = atoms_of(t1), a2 = atoms_of(t2), b1 = atoms_of(c1s), b2 = atoms_of(c2s);
		if (v1 != 1 || v2 != 1 || a1.size() != 2 || a2.size() != 2 || b1.empty() || b2.empty()) { printf("NOTE ext: honest runs rejected (%d,%d)\n", v1, v2); continue; }
		Z m1, m1b, m2, m2b, c, cb;
		from_b62(m1, t1.substr(a1[0].pos, a1[0].len)); from_b62(m2, t1.substr(a1[1].pos, a1[1].len));
		from_b62(m1b, t2.substr(a2[0].pos, a2[0].len)); from_b62(m2b, t2.substr(a2[1].pos, a2[1].len));
		from_b62(c, c1s.substr(b1[0].pos, b1[0].len)); from_b62(cb, c2s.substr(b2[0].pos, b2[0].len));
		if (mpz_cmp(m1, m1b)) { printf("NOTE ext: commitments differ\n"); continue; }
		// inputs: q, the two (challenge, response) pairs; observed: the prover's real secret exponent
		Rec("ext").z(A->p).z(A->q).z(A->g).z(key).z(m1).z(c).z(m2).z(cb).z(m2b).z(A->x_i);
	}
}

int main(int argc, char **argv) {
	Args a(argc, argv);
	if (!init_libTMCG()) { fprintf(stderr, "init_libTMCG failed\n"); return 3; }
	if (a.only == "ext") { extractor_records(a); printf("DONE ext\n"); return 0; }
	World W(a.thorough() ? 768 : 512, a.thorough() ? 192 : 160);
	if (a.only == "ww") wrong_witness(W, a);
	if (a.only == "cc") guessing(W, a);
	printf("DONE %s\n", a.only.c_str());
	return 0;
}
