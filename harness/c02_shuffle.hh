// Shared by c02.cc and c07.cc: small real VTMF groups, token helpers, and the runner that calls the real
// TMCG_CreateStackSecret under a coin script while logging every random byte the library draws.
#ifndef VERIF_C02_SHUFFLE_HH
#define VERIF_C02_SHUFFLE_HH
#include "common.hh"
#include <algorithm>
#include <functional>
#include <utility>
#include <list>
#include <map>
#include <set>
#include <ctime>
#include <cassert>
#include <cstdarg>
#include <cstddef>
#include <inttypes.h>
// TMCG_GlueStackSecret is a private member: all standard headers are included above, so this only affects libTMCG's own classes
#define private public
#include <libTMCG.hh>
#undef private

namespace verif {

// a real Schnorr group p = kq + 1 of chosen sizes with a generator g of the order-q subgroup and a key h = g^x
struct Group {
	BarnettSmartVTMF_dlog *vtmf;
	SchindelhauerTMCG *tmcg;      // fresh per group: message_space[] is cached per object
	Group(unsigned pbits, unsigned qbits, size_t typebits) {
		mpz_t p, q, k, g, t, pm1; mpz_init(p); mpz_init(q); mpz_init(k); mpz_init(g); mpz_init(t); mpz_init(pm1);
		for (;;) {
			gen_bits(q, qbits); mpz_setbit(q, qbits - 1); mpz_nextprime(q, q);
			if (mpz_sizeinbase(q, 2) != qbits) continue;
			bool ok = false;
			for (int tries = 0; tries < 4000 && !ok; tries++) {
				gen_bits(k, pbits - qbits); mpz_setbit(k, pbits - qbits - 1); mpz_clrbit(k, 0);
				mpz_mul(p, k, q); mpz_add_ui(p, p, 1);
				if (mpz_sizeinbase(p, 2) == pbits && mpz_probab_prime_p(p, 30)) ok = true;
			}
			if (ok) break;
		}
		mpz_sub_ui(pm1, p, 1);
		do { gen_below(t, p); mpz_powm(g, t, k, p); } while (mpz_cmp_ui(g, 1) <= 0);
		std::stringstream in;
		in << p << std::endl << q << std::endl << g << std::endl << k << std::endl;
		vtmf = new BarnettSmartVTMF_dlog(in, pbits, qbits);
		vtmf->KeyGenerationProtocol_GenerateKey();
		vtmf->KeyGenerationProtocol_Finalize();
		tmcg = new SchindelhauerTMCG(16, 1, typebits);
		mpz_clear(p); mpz_clear(q); mpz_clear(k); mpz_clear(g); mpz_clear(t); mpz_clear(pm1);
	}
	~Group() { delete tmcg; delete vtmf; }
	size_t open(const VTMF_Card &c) { tmcg->TMCG_SelfCardSecret(c, vtmf); return tmcg->TMCG_TypeOfCard(c, vtmf); }
};

inline std::string tok_idx(const std::vector<size_t> &v) {
	if (v.empty()) return "_";
	std::string r; for (size_t i = 0; i < v.size(); i++) { if (i) r += ","; r += hx((unsigned long)v[i]); } return r;
}
inline std::string tok_vss(const TMCG_StackSecret<VTMF_CardSecret> &s) {
	if (s.size() == 0) return "_";
	std::string r; for (size_t i = 0; i < s.size(); i++) { if (i) r += ";"; r += hx((unsigned long)s[i].first) + "," + hx(s[i].second.r); } return r;
}
inline std::string tok_vstack(const TMCG_Stack<VTMF_Card> &s) {
	if (s.size() == 0) return "_";
	std::string r; for (size_t i = 0; i < s.size(); i++) { if (i) r += ";"; r += hx(s[i].c_1) + "," + hx(s[i].c_2); } return r;
}
inline std::vector<size_t> firsts(const TMCG_StackSecret<VTMF_CardSecret> &s) {
	std::vector<size_t> v; for (size_t i = 0; i < s.size(); i++) v.push_back(s[i].first); return v;
}
inline bool is_bijection(const std::vector<size_t> &v) {
	std::vector<bool> seen(v.size(), false);
	for (size_t x : v) { if (x >= v.size() || seen[x]) return false; seen[x] = true; }
	return true;
}

// exact acceptance bound of the bounded sampler, computed independently with 128-bit arithmetic:
// a raw word w is unbiased iff w < floor(2^64 / m) * m
inline bool word_accepted(unsigned long w, unsigned long m) {
	unsigned __int128 W = (unsigned __int128)1 << 64;
	unsigned __int128 lim = (W / m) * m;
	return (unsigned __int128)w < lim;
}
// does the real bounded sampler take the raw word w as its first word for modulus m (probe; m >= 2)?
inline bool impl_accepts(unsigned long m, unsigned long w) {
	coin_script().clear(); script_ulong(w);
	coin_log().clear(); coin_logging() = true;
	(void)tmcg_mpz_srandom_mod(m);
	coin_logging() = false;
	size_t used = coin_log().size(); coin_log().clear(); coin_script().clear();
	return used == 8;
}
// a raw word that reduces to c modulo m and that the implementation accepts (so the sweeps over "all coin vectors"
// do not depend on WHICH unbiased acceptance set the sampler uses), spread over the whole range
inline unsigned long word_for(unsigned long c, unsigned long m) {
	unsigned __int128 W = (unsigned __int128)1 << 64;
	unsigned long kmax = (unsigned long)(W / m);           // number of accepted words per residue
	unsigned long w = c;
	for (int tries = 0; tries < 64; tries++) {
		unsigned long k;
		switch (gen().below(4)) { case 0: k = 0; break; case 1: k = kmax - 1; break; default: k = gen().below(kmax); }
		w = (unsigned long)((unsigned __int128)k * m + c);
		if (impl_accepts(m, w)) return w;
	}
	return w;
}
// a raw word the sampler rejects for modulus m (none may exist): returns false then
inline bool rejected_word(unsigned long m, unsigned long &w) {
	unsigned __int128 W = (unsigned __int128)1 << 64;
	unsigned __int128 lim = (W / m) * m;
	unsigned long cand[3] = { (unsigned long)(lim == W ? 0 : lim + (gen().coin() ? 0 : gen().below((unsigned long)(W - lim)))), 0UL, ~0UL };
	for (unsigned long x : cand) if (!impl_accepts(m, x)) { w = x; return true; }
	return false;
}

// result of one real TMCG_CreateStackSecret call
struct CssResult { bool threw = false; size_t offset = 0; size_t unused = 0; std::string coins; TMCG_StackSecret<VTMF_CardSecret> ss; };

// script: the raw words for the bounded sampler (consumed first); afterwards the SplitMix stream continues
inline CssResult run_css(Group &G, bool cyclic, size_t n, const std::vector<unsigned long> &script) {
	CssResult R;
	coin_script().clear();
	for (unsigned long w : script) script_ulong(w);
	coin_log().clear(); coin_logging() = true;
	if (gen().below(3) == 0) {      // a used secret object: TMCG_CreateStackSecret must start from scratch
		VTMF_CardSecret junk; mpz_set_ui(junk.r, 4711);
		size_t k = 1 + gen().below(n + 2); for (size_t i = 0; i < k; i++) R.ss.push(i % 3, junk);
	}
	try { R.offset = G.tmcg->TMCG_CreateStackSecret(R.ss, cyclic, n, G.vtmf); }
	catch (std::invalid_argument &) { R.threw = true; }
	coin_logging() = false;
	R.coins = std::string((const char*)coin_log().data(), coin_log().size());
	coin_log().clear();
	R.unused = coin_script().size(); coin_script().clear();   // script not fully used: reported in the record, shows up as a mismatch
	return R;
}
// REC css <cyclic> <n> <q> <coins> <out>
inline void rec_css(Group &G, bool cyclic, size_t n, const CssResult &R) {
	std::string out;
	if (R.threw) out = "throw";
	else out = "ret:" + hx((unsigned long)R.offset) + ":" + tok_idx(firsts(R.ss)) + ":" + ([&]{ std::string s; for (size_t i = 0; i < R.ss.size(); i++) { if (i) s += ","; s += hx(R.ss[i].second.r); } return s.empty() ? std::string("_") : s; })();
	if (R.unused) out += ":unused-script-bytes=" + std::to_string(R.unused);
	Rec("css").d(cyclic ? 1 : 0).d((long)n).z(G.vtmf->q).b(R.coins).t(out);
}
// the implementation-level oracle for a generated secret (C02 second sentence, C07 "no value outside its range")
inline void oracle_css(Group &G, bool cyclic, size_t n, const CssResult &R, const std::string &ctx) {
	if (R.threw) { if (!(cyclic && n < 2)) propfail("css-throw", "TMCG_CreateStackSecret threw for " + ctx); return; }
	std::vector<size_t> v = firsts(R.ss);
	if (v.size() != n) { propfail("css-size", "stack secret of size " + std::to_string(v.size()) + " for " + ctx); return; }
	if (!is_bijection(v)) propfail("css-bijection", "index component is not a bijection: " + tok_idx(v) + " for " + ctx);
	if (cyclic) {
		for (size_t i = 0; i < n; i++) if (v[i] != (v[0] + i) % n) { propfail("css-rotation", "not a cyclic shift: " + tok_idx(v) + " for " + ctx); break; }
		if (R.offset >= n || v[R.offset] != 0) propfail("css-offset", "reported offset " + std::to_string(R.offset) + " does not locate card 0 in " + tok_idx(v) + " for " + ctx);
	} else if (R.offset != 0) propfail("css-offset", "non-zero offset without rotation for " + ctx);
	for (size_t i = 0; i < R.ss.size(); i++)
		if (mpz_cmp_ui(R.ss[i].second.r, 2) < 0 || mpz_cmp(R.ss[i].second.r, G.vtmf->q) >= 0) { propfail("css-secret-range", "card secret outside [2,q) for " + ctx); break; }
}

} // namespace verif
#endif
