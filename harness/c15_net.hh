// C15 harness, part 1: forked n-party runs (pipes + aiounicast_select + RBC exactly as /repo/tests/t-vss.cc,
// t-dkg.cc, t-astc2.cc set them up), result collection by the parent, barriers, deadlines.
#ifndef VERIF_C15_NET_HH
#define VERIF_C15_NET_HH
#include "common.hh"
#include <map>
#include <set>
#include <algorithm>
#include <functional>
#include <sys/wait.h>
#include <sys/types.h>
#include <poll.h>
#include <signal.h>
#include <fcntl.h>
#include <errno.h>
#include <time.h>
#include <libTMCG.hh>
#include <aiounicast_select.hh>

namespace c15 {
using namespace verif;

// ---- harness-scripted deviations of one party: its point-to-point channel is wrapped -------------------------
struct Script {
	std::set<size_t> wrong;       // recipients whose first message of a pair (the share s) is sent as s+1 mod q
	std::set<size_t> drop;        // recipients that get nothing (silence towards a subset): both messages of the pair dropped
	size_t pair_base = 0;         // index (per recipient) of the first message of the tampered pair (0 = the first sharing)
	long inject_on_send = -1;     // inject a broadcast before the k-th Send (total count) ...
	long inject_on_recv = -1;     // ... or after the k-th successful Receive (total count)
	long inject_value = -1;       // the injected broadcast value (a false complaint: index of the accused party)
	bool active() const { return !wrong.empty() || !drop.empty() || inject_value >= 0; }
};
class TamperUnicast : public aiounicast_select {
public:
	Script sc; mpz_t q; std::vector<size_t> sent; long nsend, nrecv; CachinKursawePetzoldShoupRBC **rbcp; bool injected;
	TamperUnicast(const Script &sc_in, mpz_srcptr q_in, CachinKursawePetzoldShoupRBC **rbcp_in, const size_t n_in, const size_t j_in,
		const std::vector<int> &fd_in_in, const std::vector<int> &fd_out_in, const std::vector<std::string> &key_in, const size_t sched, const time_t T)
		: aiounicast_select(n_in, j_in, fd_in_in, fd_out_in, key_in, sched, T), sc(sc_in), sent(n_in, 0), nsend(0), nrecv(0), rbcp(rbcp_in), injected(false)
	{ mpz_init_set(q, q_in); }
	void inject() { if (!injected && sc.inject_value >= 0 && *rbcp) { injected = true; mpz_t v; mpz_init_set_ui(v, (unsigned long)sc.inject_value); (*rbcp)->Broadcast(v); mpz_clear(v); } }
	using aiounicast_select::Send;
	using aiounicast_select::Receive;
	bool Send(mpz_srcptr m, const size_t i_in, time_t timeout) override {
		if (sc.inject_on_send >= 0 && nsend == sc.inject_on_send) inject();
		nsend++;
		size_t k = sent[i_in]++;
		if (sc.drop.count(i_in) && (k == sc.pair_base || k == sc.pair_base + 1)) return true;       // nothing leaves this party
		if (sc.wrong.count(i_in) && k == sc.pair_base) {
			mpz_t m2; mpz_init(m2); mpz_add_ui(m2, m, 1L); mpz_mod(m2, m2, q);
			bool r = aiounicast_select::Send(m2, i_in, timeout); mpz_clear(m2); return r;
		}
		return aiounicast_select::Send(m, i_in, timeout);
	}
	bool Receive(mpz_ptr m, size_t &i_out, size_t scheduler, time_t timeout) override {
		bool r = aiounicast_select::Receive(m, i_out, scheduler, timeout);
		if (r) { nrecv++; if (sc.inject_on_recv >= 0 && nrecv == sc.inject_on_recv) inject(); }
		return r;
	}
};

struct Party {                       // what a role function gets (inside the child process)
	size_t n, t, me;
	aiounicast_select *aiou, *aiou2;
	CachinKursawePetzoldShoupRBC *rbc;
	int out_fd, ctl_fd;
	void say(const std::string &line) {          // one result line to the parent
		std::string s = line + "\n";
		size_t off = 0;
		while (off < s.size()) { ssize_t w = write(out_fd, s.data() + off, s.size() - off); if (w <= 0) { if (errno == EINTR) continue; break; } off += (size_t)w; }
	}
	void barrier(int k) {                        // parent releases when every live party arrived
		say("BARRIER " + std::to_string(k));
		char c; while (read(ctl_fd, &c, 1) < 0 && errno == EINTR) {}
	}
};
typedef std::function<void(Party &)> Role;

struct RunResult {
	std::vector<std::vector<std::string> > lines;   // per party: result lines (without BARRIER lines)
	std::vector<int> status;                        // exit status (0 ok, -1 killed at the deadline, else raw wait status)
	bool deadline_hit;
	double wall;
};

inline double now_s() { struct timespec ts; clock_gettime(CLOCK_MONOTONIC, &ts); return ts.tv_sec + ts.tv_nsec * 1e-9; }

// run n parties; roles[i] is executed in child i.  T = default time-out (seconds) of the unicast and broadcast channels.
inline RunResult run_parties(size_t n, size_t t_rbc, const std::vector<Role> &roles, time_t T, double deadline_s, uint64_t seedbase,
                             const std::map<size_t, Script> *scripts = 0, mpz_srcptr q_for_scripts = 0)
{
	RunResult rr; rr.lines.resize(n); rr.status.assign(n, 0); rr.deadline_hit = false;
	double t0 = now_s();
	std::vector<std::vector<std::array<int, 2> > > up(n, std::vector<std::array<int, 2> >(n)), bp(n, std::vector<std::array<int, 2> >(n));
	std::vector<std::array<int, 2> > res(n), ctl(n);
	for (size_t i = 0; i < n; i++) {
		for (size_t j = 0; j < n; j++) {
			if (pipe(up[i][j].data()) < 0 || pipe(bp[i][j].data()) < 0) { perror("pipe"); exit(3); }
		}
		if (pipe(res[i].data()) < 0 || pipe(ctl[i].data()) < 0) { perror("pipe"); exit(3); }
	}
	std::vector<pid_t> pid(n);
	fflush(stdout); fflush(stderr);
	for (size_t me = 0; me < n; me++) {
		pid[me] = fork();
		if (pid[me] < 0) { perror("fork"); exit(3); }
		if (pid[me] == 0) {
			signal(SIGPIPE, SIG_IGN);
			int devnull = open("/dev/null", O_WRONLY);
			dup2(res[me][1], 2);                                     // the library reports time-outs on std::cerr: forwarded to the parent
			dup2(devnull, 1);
			reseed_lib(seedbase * 1000003ULL + 7919ULL * (me + 1));
			std::vector<int> uin, uout, bin, bout; std::vector<std::string> ukey, bkey;
			for (size_t i = 0; i < n; i++) {
				std::stringstream key; key << "c15::P_" << (i + me);
				uin.push_back(up[i][me][0]); uout.push_back(up[me][i][1]); ukey.push_back(key.str());
				bin.push_back(bp[i][me][0]); bout.push_back(bp[me][i][1]); bkey.push_back(key.str());
			}
			int rc = 0;
			try {
				Party P; P.n = n; P.t = t_rbc; P.me = me; P.out_fd = res[me][1]; P.ctl_fd = ctl[me][0];
				P.rbc = 0;
				if (scripts && scripts->count(me) && scripts->at(me).active())
					P.aiou = new TamperUnicast(scripts->at(me), q_for_scripts, &P.rbc, n, me, uin, uout, ukey, aiounicast::aio_scheduler_roundrobin, T);
				else
					P.aiou = new aiounicast_select(n, me, uin, uout, ukey, aiounicast::aio_scheduler_roundrobin, T);
				P.aiou2 = new aiounicast_select(n, me, bin, bout, bkey, aiounicast::aio_scheduler_roundrobin, T);
				P.rbc = new CachinKursawePetzoldShoupRBC(n, t_rbc, me, P.aiou2, aiounicast::aio_scheduler_roundrobin, T);
				P.rbc->setID("c15");
				roles[me](P);
				P.say("END");
			} catch (std::exception &e) {
				std::string s = std::string("EXCEPTION ") + e.what(); for (char &c : s) if (c == '\n') c = ' ';
				s += "\n"; if (write(res[me][1], s.data(), s.size())) {}
				rc = 4;
			}
			_exit(rc);                                  // no destructors, no flushing of inherited buffers
		}
	}
	// parent: collect
	std::vector<std::string> buf(n); std::vector<bool> open_(n, true); std::vector<int> at_barrier(n, -1);
	for (size_t i = 0; i < n; i++) { close(res[i][1]); res[i][1] = -1; close(ctl[i][0]); ctl[i][0] = -1; }
	size_t nopen = n;
	while (nopen > 0) {
		double left = deadline_s - (now_s() - t0);
		if (left <= 0) { rr.deadline_hit = true; break; }
		std::vector<struct pollfd> pf; std::vector<size_t> who;
		for (size_t i = 0; i < n; i++) if (open_[i]) { struct pollfd p; p.fd = res[i][0]; p.events = POLLIN; p.revents = 0; pf.push_back(p); who.push_back(i); }
		int pr = poll(pf.data(), pf.size(), (int)std::min(left * 1000.0 + 1, 1000.0));
		if (pr < 0) { if (errno == EINTR) continue; break; }
		for (size_t k = 0; k < pf.size(); k++) {
			if (!(pf[k].revents & (POLLIN | POLLHUP | POLLERR))) continue;
			size_t i = who[k]; char tmp[65536];
			ssize_t r = read(pf[k].fd, tmp, sizeof tmp);
			if (r > 0) {
				buf[i].append(tmp, (size_t)r);
				size_t pos;
				while ((pos = buf[i].find('\n')) != std::string::npos) {
					std::string line = buf[i].substr(0, pos); buf[i].erase(0, pos + 1);
					if (line.compare(0, 8, "BARRIER ") == 0) at_barrier[i] = atoi(line.c_str() + 8);
					else rr.lines[i].push_back(line);
				}
			} else if (r == 0 || (r < 0 && errno != EINTR && errno != EAGAIN)) { open_[i] = false; nopen--; }
		}
		// release a barrier when every party that is still running waits at one
		bool any = false, all = true;
		for (size_t i = 0; i < n; i++) if (open_[i]) { if (at_barrier[i] >= 0) any = true; else all = false; }
		if (any && all) for (size_t i = 0; i < n; i++) if (open_[i]) { at_barrier[i] = -1; char c = 'g'; if (write(ctl[i][1], &c, 1)) {} }
	}
	for (size_t i = 0; i < n; i++) {
		if (open_[i]) { kill(pid[i], SIGKILL); rr.status[i] = -1; }
		int ws = 0; while (waitpid(pid[i], &ws, 0) < 0 && errno == EINTR) {}
		if (!open_[i]) rr.status[i] = (WIFEXITED(ws) ? WEXITSTATUS(ws) : 1000 + (WIFSIGNALED(ws) ? WTERMSIG(ws) : 0));
	}
	for (size_t i = 0; i < n; i++) {
		for (size_t j = 0; j < n; j++) { close(up[i][j][0]); close(up[i][j][1]); close(bp[i][j][0]); close(bp[i][j][1]); }
		if (res[i][0] >= 0) close(res[i][0]);
		if (ctl[i][1] >= 0) close(ctl[i][1]);
	}
	rr.wall = now_s() - t0;
	return rr;
}

// split a line into tokens
inline std::vector<std::string> toks(const std::string &l) { std::vector<std::string> v; std::istringstream is(l); std::string s; while (is >> s) v.push_back(s); return v; }
// find the first line starting with the given key (token 0) [and token 1 == sub, if given]; returns tokens after the key(s)
inline bool find_line(const std::vector<std::string> &lines, const std::string &key, const std::string &sub, std::vector<std::string> &out) {
	for (const std::string &l : lines) {
		std::vector<std::string> v = toks(l);
		if (v.empty() || v[0] != key) continue;
		if (!sub.empty()) { if (v.size() < 2 || v[1] != sub) continue; out.assign(v.begin() + 2, v.end()); return true; }
		out.assign(v.begin() + 1, v.end()); return true;
	}
	return false;
}

// mpz value wrapper with value semantics (parent-side bookkeeping)
struct Z {
	mpz_t v;
	Z() { mpz_init(v); }
	Z(const Z &o) { mpz_init_set(v, o.v); }
	explicit Z(long x) { mpz_init_set_si(v, x); }
	explicit Z(const std::string &hex) { mpz_init(v); mpz_set_str(v, hex.c_str(), 16); }
	Z &operator=(const Z &o) { if (this != &o) mpz_set(v, o.v); return *this; }
	~Z() { mpz_clear(v); }
	bool operator==(const Z &o) const { return mpz_cmp(v, o.v) == 0; }
	bool operator!=(const Z &o) const { return mpz_cmp(v, o.v) != 0; }
	std::string h() const { return hx(v); }
};
inline std::string join(const std::vector<Z> &l) { if (l.empty()) return "_"; std::string r; for (size_t i = 0; i < l.size(); i++) { if (i) r += ","; r += l[i].h(); } return r; }
inline std::string joinp(const std::vector<mpz_ptr> &l) { if (l.empty()) return "_"; std::string r; for (size_t i = 0; i < l.size(); i++) { if (i) r += ","; r += hx(l[i]); } return r; }
inline std::vector<Z> split(const std::string &t) { std::vector<Z> r; if (t == "_" || t.empty()) return r; std::istringstream is(t); std::string s; while (std::getline(is, s, ',')) r.push_back(Z(s)); return r; }

} // namespace
#endif
