// C14 correspondence harness: n real CachinKursawePetzoldShoupRBC objects in ONE process on an in-memory
// implementation of the abstract aiounicast interface (per ordered pair a deque of messages).  One call
// Deliver(m, i, scheduler, 0) / DeliverFrom(m, i, scheduler, 0) processes at most one message, so the harness
// owns the schedule.  Byzantine parties are played by the harness (message injection / suppression).
//   REC lines (one per API call) are recomputed by the extracted Coq model (coq/RbcModel.v) and compared;
//   PROPFAIL lines = the property itself (agreement, integrity, no duplicates, FIFO order, channel
//   isolation, delivery at quiescence) failing on the implementation.
#include "common.hh"
#include <map>
#include <set>
#include <list>
#include <array>
#include <algorithm>
#include <functional>
#define private public
#define protected public
#include <libTMCG.hh>
#undef private
#undef protected
using namespace verif;

typedef std::array<std::string, 5> M;     // ID, j, s, action, payload as signed hex
static std::string mtok(const M &m) { return m[0] + "." + m[1] + "." + m[2] + "." + m[3] + "." + m[4]; }
static std::string tagkey(const M &m) { return m[0] + "." + m[1] + "." + m[2]; }
static std::string hxi(long v) { return hxs(v); }

// ---- digest hash table (the model receives H as a table) -----------------------------------------
static std::set<std::string> hdef_done;
static bool g_emit = true;
static unsigned long g_valctr = 0;
static std::string hash_of(const std::string &hexv) {
	mpz_t a, d; mpz_init(a); mpz_init(d);
	mpz_set_str(a, hexv.c_str(), 16);
	tmcg_mpz_shash(d, 1, a);
	std::string r = hx(d);
	mpz_clear(a); mpz_clear(d);
	return r;
}
static std::string H(const std::string &hexv) {
	static std::map<std::string, std::string> cache;
	auto it = cache.find(hexv);
	if (it == cache.end()) it = cache.insert(std::make_pair(hexv, hash_of(hexv))).first;
	if (g_emit && !hdef_done.count(hexv)) { hdef_done.insert(hexv); Rec("hdef").t(hexv).t(it->second).t("ok"); }
	return it->second;
}

struct World;
struct MemAio : public aiounicast {
	World *w;
	MemAio(World *w_in, size_t n_in, size_t j_in) : aiounicast(n_in, j_in), w(w_in) {}
	bool Send(mpz_srcptr, const size_t, const time_t) { return false; }
	bool Send(const std::vector<mpz_srcptr> &m, const size_t i_in, const time_t);
	bool Receive(mpz_ptr, size_t &i_out, const size_t, const time_t) { i_out = n; return false; }
	bool Receive(std::vector<mpz_ptr> &m, size_t &i_out, const size_t, const time_t);
	void Reset(const size_t, const bool) {}
};

struct Dlv { std::string id, s, v; size_t who; };

struct World {
	int wid; size_t n, t, skip; bool emit, oracle;
	std::vector<bool> byz;
	std::vector<std::vector<std::deque<M> > > q;          // q[src][dst]
	std::vector<MemAio*> aio;
	std::vector<CachinKursawePetzoldShoupRBC*> rbc;
	// per call
	long offer_src; bool used; M used_msg; std::vector<std::pair<size_t, M> > outbox;
	// channel bookkeeping per party: path of names, whether a channel ID was left by unsetID
	std::vector<std::vector<std::string> > path;
	std::vector<std::set<std::string> > left;
	std::map<std::string, bool> chan_fifo;                // channel ID -> FIFO?
	std::map<std::string, std::vector<std::string> > chan_path;
	// oracle state
	std::map<std::string, std::string> bcast;             // tag of an honest broadcast -> value
	std::map<std::string, std::string> agreed;            // tag -> first value delivered by an honest party
	std::vector<std::map<std::string, int> > ndeliv;      // per party: tag -> number of deliveries
	std::vector<std::map<std::string, int> > nanswer;     // per party: tag -> r-answers consumed
	std::vector<std::map<std::string, long> > nextseq;    // per party: ID.who -> next expected s (FIFO)
	std::vector<std::list<Dlv> > pend;                    // per party: delivered into DeliverFrom buffers, not yet returned
	std::set<std::string> ld_senders;                     // ID.who of slots delivered through the out-of-order handler (l-deliver)
	bool misuse;                                          // a channel was re-entered in a way that voids the order oracle
	unsigned long nfail;

	World(int wid_in, size_t n_in, size_t t_in, size_t skip_in, const std::vector<bool> &byz_in, bool emit_in, bool oracle_in)
		: wid(wid_in), n(n_in), t(t_in), skip(skip_in), emit(emit_in), oracle(oracle_in), byz(byz_in), offer_src(-1), used(false),
		  misuse(false), nfail(0) {
		g_emit = emit; g_valctr = 0;       // payloads are unique within a world; a world re-run alone (--only) is identical
		q.assign(n, std::vector<std::deque<M> >(n));
		path.resize(n); left.resize(n); ndeliv.resize(n); nanswer.resize(n); nextseq.resize(n); pend.resize(n);
		for (size_t i = 0; i < n; i++) {
			aio.push_back(new MemAio(this, n, i));
			rbc.push_back(new CachinKursawePetzoldShoupRBC(n, t, i, aio[i], aiounicast::aio_scheduler_roundrobin,
				aiounicast::aio_timeout_none, skip));
		}
		chan_fifo["0"] = true; chan_path["0"] = std::vector<std::string>();
		if (emit) Rec("new").d(wid).d(n).d(t).d(skip).t("ok");
	}
	~World() { for (size_t i = 0; i < n; i++) { delete rbc[i]; delete aio[i]; } }

	bool honest(size_t p) const { return !byz[p]; }
	std::string cur(size_t p) { return hx(rbc[p]->ID); }
	std::string wtok() { return std::to_string(wid); }

	void fail(const std::string &key, const std::string &what) {
		if (!oracle) return;
		nfail++;
		if (nfail <= 3) propfail(key, "world=" + wtok() + " n=" + std::to_string(n) + " t=" + std::to_string(t) + " " + what);
	}

	std::string state_tok(size_t p) {
		CachinKursawePetzoldShoupRBC *r = rbc[p];
		std::string s = hx(r->ID) + "," + hx(r->s) + "," + (r->fifo ? "1" : "0") + "," + std::to_string(r->deliver_buf.size());
		for (size_t i = 0; i < n; i++) s += "," + hx(r->deliver_s[i]);
		return s;
	}
	std::string sent_tok() {
		if (outbox.empty()) return "_";
		std::string s;
		for (size_t k = 0; k < outbox.size(); k++) { if (k) s += ";"; s += std::to_string(outbox[k].first) + ":" + mtok(outbox[k].second); }
		return s;
	}
	void push(size_t src, size_t dst, const M &m) {
		if (m[3] == "1" || m[3] == "5" || m[3] == "7") H(m[4]);
		q[src][dst].push_back(m);
	}
	std::vector<std::string> dbuf_tags(size_t p) {
		std::vector<std::string> v;
		for (RBC_VectorList::iterator it = rbc[p]->deliver_buf.begin(); it != rbc[p]->deliver_buf.end(); ++it)
			v.push_back(hx((*it)[0]) + "." + hx((*it)[1]) + "." + hx((*it)[2]));
		return v;
	}

	// ---- property oracle on one delivery of Deliver at honest p -----------------------------------
	void on_delivery(size_t p, size_t who, const std::string &v, const std::string &id, const std::string &s, bool have_tag,
	                 const std::string &how, bool via_answer) {
		std::string idnow = cur(p);
		bool fifo = rbc[p]->fifo;
		if (!have_tag) { fail("oracle-tag", "could not identify the tag of a delivery (" + how + ")"); return; }
		std::string tag = id + "." + hxi(who) + "." + s;
		std::string ctx = "party=" + std::to_string(p) + " sender=" + std::to_string(who) + " channel=" + id + " s=" + s + " value=" + v + " via=" + how;
		if (id != idnow) fail("isolation", "delivery crossed channels: current channel " + idnow + " " + ctx);
		if (who >= n) { fail("integrity", "sender index out of range " + ctx); return; }
		if (how == "action7") ld_senders.insert(id + "." + hxi(who));
		// agreement
		auto ag = agreed.find(tag);
		if (ag == agreed.end()) agreed[tag] = v;
		else if (ag->second != v) fail("agreement", "two honest parties delivered different values (" + ag->second + " first) " + ctx);
		// integrity for honest senders
		if (honest(who)) {
			auto b = bcast.find(tag);
			if (b == bcast.end()) fail("integrity", "honest sender never broadcast this slot " + ctx);
			else if (b->second != v) fail("integrity", "honest sender broadcast " + b->second + " " + ctx);
		}
		// duplicates
		int &cnt = ndeliv[p][tag];
		cnt++;
		if (cnt > 1) {
			int na = nanswer[p].count(tag) ? nanswer[p][tag] : 0;
			if (!fifo && cnt <= 1 + na)
				fail("nonfifo-r-answer-duplicate", "non-FIFO channel: slot delivered " + std::to_string(cnt) + " times after " + std::to_string(na) + " r-answer(s) " + ctx);
			else
				fail("duplicate", "slot delivered " + std::to_string(cnt) + " times " + ctx);
		}
		// FIFO order
		if (fifo && skip == 0 && !misuse) {
			std::string k = id + "." + hxi(who);
			long &nx = nextseq[p][k];
			if (nx == 0) nx = 1;
			if (s != hxi(nx)) fail("fifo-order", "expected s=" + hxi(nx) + " " + ctx);
			nx++;
		}
		(void)via_answer;
	}

	// ---- one call of Deliver at honest p; src = party whose queue head is offered (or -1) ----------
	// returns true if the call delivered
	bool do_deliver(size_t p, long src, bool from_mode = false, size_t from_i = 0) {
		if (src >= 0 && q[src][p].empty()) src = -1;
		offer_src = src; used = false; outbox.clear();
		std::string offer = "none";
		if (src >= 0) offer = std::to_string(src) + ":" + mtok(q[src][p].front());
		std::vector<std::string> before = dbuf_tags(p);
		std::vector<size_t> bsz(n);
		for (size_t i = 0; i < n; i++) bsz[i] = rbc[p]->buf_mpz[i].size();
		std::string id_before = cur(p);
		mpz_t m; mpz_init(m);
		size_t i_out = n; bool ok = false, thrown = false;
		try {
			if (from_mode) ok = rbc[p]->DeliverFrom(m, from_i, aiounicast::aio_scheduler_roundrobin, 0);
			else ok = rbc[p]->Deliver(m, i_out, aiounicast::aio_scheduler_roundrobin, 0);
		} catch (std::runtime_error &e) { thrown = true; }
		offer_src = -1;
		// what did the inner Deliver deliver?
		bool delivered = false; size_t who = n; std::string v;
		if (!from_mode) { if (ok) { delivered = true; who = i_out; v = hx(m); } }
		else {
			for (size_t i = 0; i < n; i++) if (rbc[p]->buf_mpz[i].size() > bsz[i]) { delivered = true; who = i; v = hx(rbc[p]->buf_mpz[i].back()); }
		}
		std::string res = thrown ? "T" : (delivered ? ("D" + std::to_string(who) + "," + v) : "N");
		if (emit) {
			if (!from_mode)
				Rec("dl").d(wid).d(p).t(offer).t(res + "/" + (used ? "1" : "0") + "/" + sent_tok() + "/" + state_tok(p));
			else
				Rec("df").d(wid).d(p).d(from_i).t(offer).t(std::string(ok ? hx(m) : "none") + "/" + res + "/" + (used ? "1" : "0") + "/" + sent_tok() + "/" + state_tok(p));
		}
		// progress of the sender-specific call: with a message on offer it must hand out a value, deliver, or consume the message
		if (from_mode && from_i < n && src >= 0 && !ok && !used && !delivered && !thrown)
			fail("deliverfrom-starved", "DeliverFrom(" + std::to_string(from_i) + ") at party " + std::to_string(p) + " neither returned a value nor processed the pending message " + offer);
		if (thrown) fail("exception", "Deliver threw at party " + std::to_string(p) + " offer=" + offer);
		if (used && used_msg[3] == "5") nanswer[p][tagkey(used_msg)]++;
		if (delivered) {
			// identify the tag: the consumed message, else the entry that left deliver_buf
			std::string id, s; bool have = false; std::string how;
			if (used) { id = used_msg[0]; s = used_msg[2]; have = true; how = "action" + used_msg[3];
				if (used_msg[1] != hxi(who)) fail("integrity", "delivered sender " + std::to_string(who) + " differs from tag sender " + used_msg[1]); }
			else {
				std::vector<std::string> after = dbuf_tags(p);
				std::multiset<std::string> a(after.begin(), after.end());
				std::vector<std::string> gone;
				for (size_t k = 0; k < before.size(); k++) { auto it = a.find(before[k]); if (it == a.end()) gone.push_back(before[k]); else a.erase(it); }
				how = "buffer";
				if (gone.size() == 1) {
					size_t d1 = gone[0].find('.'), d2 = gone[0].rfind('.');
					id = gone[0].substr(0, d1); s = gone[0].substr(d2 + 1); have = true;
					if (gone[0].substr(d1 + 1, d2 - d1 - 1) != hxi(who)) fail("integrity", "delivered sender differs from buffered tag " + gone[0]);
				}
			}
			// the oracle is evaluated against the channel the call started in (Deliver never switches)
			on_delivery(p, who, v, id, s, have, how, used && used_msg[3] == "5");
			if (from_mode) { Dlv d; d.id = id_before; d.s = s; d.v = v; d.who = who; pend[p].push_back(d); }
		}
		if (from_mode && ok) {
			// the value handed to the caller must be the oldest pending delivery of (from_i, current channel)
			std::string v2 = hx(m); bool found = false;
			for (std::list<Dlv>::iterator it = pend[p].begin(); it != pend[p].end(); ++it) {
				if (it->who == from_i && it->id == id_before) {
					if (it->v != v2) fail("deliverfrom-order", "DeliverFrom(" + std::to_string(from_i) + ") at party " + std::to_string(p) + " returned " + v2 + ", oldest pending on this channel is " + it->v);
					pend[p].erase(it); found = true; break;
				}
			}
			if (!found) fail("isolation", "DeliverFrom(" + std::to_string(from_i) + ") at party " + std::to_string(p) + " on channel " + id_before + " returned " + v2 + " which was never delivered on this channel");
		}
		mpz_clear(m);
		return from_mode ? ok : delivered;
	}

	void do_broadcast(size_t p, const std::string &vhex) {
		outbox.clear();
		mpz_t m; mpz_init(m); mpz_set_str(m, vhex.c_str(), 16);
		rbc[p]->Broadcast(m);
		mpz_clear(m);
		std::string s = hx(rbc[p]->s);
		if (emit) Rec("bc").d(wid).d(p).t(vhex).t(s).t(sent_tok() + "/" + s);
		bcast[cur(p) + "." + hxi(p) + "." + s] = vhex;
	}

	// channel switches.  kind 0 = setID, 1 = recoverID, 2 = unsetID
	void do_switch(size_t p, int kind, const std::string &name, bool fifo) {
		if (kind == 2) {
			left[p].insert(cur(p));
			rbc[p]->unsetID(fifo);
			if (!path[p].empty()) path[p].pop_back();
			if (emit) Rec("uid").d(wid).d(p).d(fifo ? 1 : 0).t(state_tok(p));
		} else {
			if (kind == 0) rbc[p]->setID(name, fifo); else rbc[p]->recoverID(name, fifo);
			path[p].push_back(name);
			std::string id = cur(p);
			if (kind == 0 && (left[p].count(id) || ndeliv_on(p, id))) misuse = true;   // counters reset on a used channel
			if (!chan_fifo.count(id)) { chan_fifo[id] = fifo; chan_path[id] = path[p]; }
			if (emit) Rec(kind == 0 ? "sid" : "rid").d(wid).d(p).t(id).d(fifo ? 1 : 0).t(state_tok(p));
		}
	}
	bool ndeliv_on(size_t p, const std::string &id) {
		for (auto &kv : ndeliv[p]) if (kv.first.compare(0, id.size() + 1, id + ".") == 0) return true;
		return false;
	}
	// enter child channel `name` the way a careful caller does: recoverID if it was left before, else setID
	void enter(size_t p, const std::string &name, bool fifo) {
		// compute the would-be ID with a scratch object? cheaper: try recoverID semantics by name bookkeeping
		std::string key = cur(p) + "/" + name;
		do_switch(p, entered[p].count(key) ? 1 : 0, name, fifo);
		entered[p].insert(key);
	}
	std::vector<std::set<std::string> > entered = std::vector<std::set<std::string> >(8);
	void leave(size_t p) {
		// the flag handed to unsetID is that of the parent channel
		std::vector<std::string> pp = path[p]; if (!pp.empty()) pp.pop_back();
		bool f = true;
		for (auto &kv : chan_path) if (kv.second == pp) f = chan_fifo[kv.first];
		do_switch(p, 2, "", f);
	}
	void goto_path(size_t p, const std::vector<std::string> &target, const std::function<bool(const std::string&)> &fifo_of) {
		size_t common = 0;
		while (common < path[p].size() && common < target.size() && path[p][common] == target[common]) common++;
		while (path[p].size() > common) leave(p);
		for (size_t k = common; k < target.size(); k++) enter(p, target[k], fifo_of(target[k]));
	}

	bool any_pending_to_honest() {
		for (size_t s = 0; s < n; s++) for (size_t d = 0; d < n; d++) if (honest(d) && !q[s][d].empty()) return true;
		return false;
	}
	// hand over everything (round robin) until no message to an honest party is in flight
	void drain(unsigned long maxsteps = 200000) {
		unsigned long steps = 0;
		while (any_pending_to_honest() && steps < maxsteps) {
			for (size_t d = 0; d < n; d++) if (honest(d)) for (size_t s = 0; s < n; s++) if (!q[s][d].empty()) { do_deliver(d, (long)s); steps++; }
		}
		// empty the deliver buffers of the current channel
		for (size_t d = 0; d < n; d++) if (honest(d)) { int k = 0; while (do_deliver(d, -1) && ++k < 1000) ; }
	}
};

bool MemAio::Send(const std::vector<mpz_srcptr> &m, const size_t i_in, const time_t) {
	if (i_in >= n || m.size() != 5) return false;
	M x; for (int k = 0; k < 5; k++) x[k] = hx(m[k]);
	w->push(j, i_in, x);
	w->outbox.push_back(std::make_pair(i_in, x));
	return true;
}
bool MemAio::Receive(std::vector<mpz_ptr> &m, size_t &i_out, const size_t, const time_t) {
	i_out = n;
	if (w->offer_src < 0 || w->used) return false;
	std::deque<M> &dq = w->q[w->offer_src][j];
	if (dq.empty() || m.size() != 5) return false;
	M x = dq.front(); dq.pop_front();
	for (int k = 0; k < 5; k++) mpz_set_str(m[k], x[k].c_str(), 16);
	i_out = (size_t)w->offer_src; w->used = true; w->used_msg = x;
	return true;
}

// ---- scenario helpers -------------------------------------------------------------------------
static int g_world = 0;
static unsigned long g_total_fail = 0;
static std::string g_only;

static bool fifo_of_name(const std::string &name) { return name[0] != 'x'; }

// the final part of every world with the oracle on: hand over everything, visit every channel, check delivery
static void finish_world(World &W) {
	if (!W.oracle) { return; }
	W.drain();
	// every honest party visits every channel that was used, until nothing moves any more
	for (int round = 0; round < 3; round++) {
		for (auto &kv : W.chan_path) {
			for (size_t p = 0; p < W.n; p++) if (W.honest(p)) W.goto_path(p, kv.second, fifo_of_name);
			W.drain();
			W.drain();
		}
	}
	if (W.skip != 0 || W.misuse) return;
	// validity: every honest broadcast delivered by every honest party ; totality: delivered by one => by all
	for (auto &kv : W.bcast) {
		for (size_t p = 0; p < W.n; p++) if (W.honest(p) && !W.ndeliv[p].count(kv.first))
			W.fail("liveness-validity", "all messages handed over, but party " + std::to_string(p) + " never delivered honest broadcast tag=" + kv.first + " value=" + kv.second);
	}
	for (auto &kv : W.agreed) {
		// finding F10: a slot fetched through the out-of-order handler may have been answered by parties sitting on another
		// channel (the l-retrieve handler does not compare the channel); such a slot, and the later slots of that sender on
		// that channel (FIFO), can stay undeliverable for the other honest parties
		std::string idwho = kv.first.substr(0, kv.first.rfind('.'));
		std::string key = W.ld_senders.count(idwho) ? "ldeliver-cross-channel-totality" : "liveness-totality";
		for (size_t p = 0; p < W.n; p++) if (W.honest(p) && !W.ndeliv[p].count(kv.first))
			W.fail(key, "all messages handed over, slot " + kv.first + " was delivered by an honest party but never by party " + std::to_string(p));
	}
}

static bool want_world(int wid) { return g_only.empty() || g_only == ("w" + std::to_string(wid)); }

static std::string fresh_value() { return hxi(0x1000 + (long)(++g_valctr)); }

// DESIGN finding F8: no faults; P3 hears nothing from the sender P0 until the ready quorum is there (n=4,t=1: readys of
// P1, P2 and, since 2t+1 = 3, a third ready from P3 itself after t+1 readys (amplification)), so it has to fetch the
// payload by r-request; every r-answer then delivers in non-FIFO mode
static void world_race(bool emit, bool fifo, int variant) {
	int wid = g_world++;
	if (!want_world(wid)) return;
	reseed_lib(78 + wid);
	World W(wid, 4, 1, 0, std::vector<bool>(4, false), emit, true);
	for (size_t p = 0; p < 4; p++) W.do_switch(p, 0, fifo ? "a" : "x", fifo);
	W.do_broadcast(0, fresh_value());
	for (size_t p = 0; p < 3; p++) W.do_deliver(p, 0);                       // r-send at P0..P2
	for (size_t p = 0; p < 3; p++) for (size_t s = 0; s < 3; s++) W.do_deliver(p, (long)s);   // echoes at P0..P2 -> ready
	// P3: echo+ready from P1 and P2 (q[1][3], q[2][3] hold echo, ready)
	for (int k = 0; k < 2; k++) { W.do_deliver(3, 1); W.do_deliver(3, 2); }    // after 2 readys (t+1): P3 sends its own ready
	W.do_deliver(3, 3);                                                      // own ready: third -> quorum, payload missing -> r-request to 0,1,2
	for (size_t p = 0; p < 3; p++) { while (!W.q[3][p].empty()) W.do_deliver(p, 3); }   // they answer
	if (variant == 0) { for (size_t s = 0; s < 3; s++) while (!W.q[s][3].empty()) W.do_deliver(3, (long)s); }
	else { for (int s = 2; s >= 0; s--) while (!W.q[s][3].empty()) W.do_deliver(3, s); }
	finish_world(W);
	g_total_fail += W.nfail;
}

// Counter recovery (regression for: unsetID not refreshing the saved counters on the SECOND and later unsetID of a channel):
// all parties enter channel "a" (and the nested "a"/"b"), exchange FIFO traffic, leave, come back with recoverID -- `rounds`
// times, with broadcasts of every party in every visit; every broadcast must be delivered in order by everybody.
static void world_recover(bool emit, size_t n, unsigned rounds, bool nested, int variant) {
	int wid = g_world++;
	if (!want_world(wid)) return;
	reseed_lib(9000 + wid);
	size_t t = (n - 1) / 3;
	World W(wid, n, t, 0, std::vector<bool>(n, false), emit, true);
	std::vector<std::string> pa(1, "a"), pab; pab.push_back("a"); pab.push_back("b");
	std::vector<std::string> root;
	for (unsigned r = 0; r < rounds; r++) {
		const std::vector<std::string> &target = (nested && (r % 2 == 1)) ? pab : pa;
		for (size_t p = 0; p < n; p++) W.goto_path(p, target, fifo_of_name);
		for (size_t p = 0; p < n; p++) { W.do_broadcast(p, fresh_value()); if ((p + r) % 2 == 0) W.do_broadcast(p, fresh_value()); }
		if (variant == 0) W.drain();
		else { // leave part of the traffic in flight across the switch
			for (size_t d = 0; d < n; d++) for (size_t s0 = 0; s0 < n; s0++) if (!W.q[s0][d].empty() && (s0 + d + r) % 3 != 0) W.do_deliver(d, (long)s0);
		}
		// a root-channel broadcast between the visits
		for (size_t p = 0; p < n; p++) W.goto_path(p, root, fifo_of_name);
		W.do_broadcast(r % n, fresh_value());
		if (variant == 0) W.drain();
	}
	finish_world(W);
	g_total_fail += W.nfail;
}

// Cross-channel l-deliver (candidate finding): the l-retrieve handler answers "fifo && s < deliver_s[who]" with the counter of the
// responder's CURRENT channel, whatever channel the tag names (non-FIFO responders answer always).  n = 4, t = 1, P3 faulty:
// P0 sits on channel "a", P1 and P2 on another channel; P3 gives the payload of slot (a,3,1) to P1 and P2 only and never lets a
// quorum form for it, but broadcasts slot (a,3,2) properly.  P0 fetches slot 1 through the out-of-order handler (P1, P2, P3
// answer) and delivers it; P1 and P2 can never deliver it.
static void world_cross(bool emit, bool nonfifo_responders) {
	int wid = g_world++;
	if (!want_world(wid)) return;
	reseed_lib(9500 + wid);
	std::vector<bool> byz(4, false); byz[3] = true;
	World W(wid, 4, 1, 0, byz, emit, true);
	std::vector<std::string> pa(1, "a"), py(1, nonfifo_responders ? "x" : "y");
	W.goto_path(0, pa, fifo_of_name); W.goto_path(1, py, fifo_of_name); W.goto_path(2, py, fifo_of_name);
	std::string ida = W.cur(0), idy = W.cur(1);
	auto full = [&](const std::string &id, const std::string &s, const std::string &v) {   // P3 behaves like an honest sender
		for (size_t d = 0; d < 3; d++) { M m = { id, "3", s, "1", v }; W.push(3, d, m); }
		for (size_t d = 0; d < 3; d++) { M m = { id, "3", s, "2", H(v) }; W.push(3, d, m); }
		for (size_t d = 0; d < 3; d++) { M m = { id, "3", s, "3", H(v) }; W.push(3, d, m); }
		W.drain();
	};
	if (!nonfifo_responders) full(idy, "1", "5100");          // P1, P2 deliver slot 1 of P3 on their channel: deliver_s[3] = 2 there
	for (size_t d = 1; d < 3; d++) { M m = { ida, "3", "1", "1", "5101" }; W.push(3, d, m); }   // payload of (a,3,1) to P1, P2 only
	W.drain();
	full(ida, "2", "5102");                                   // slot (a,3,2) for everybody: P0 buffers it and asks for slot 1
	W.drain();
	{ M m = { ida, "3", "1", "7", "5101" }; W.push(3, 0, m); } // P3 joins the l-deliver answers
	W.drain();
	finish_world(W);
	g_total_fail += W.nfail;
}

// ---- Byzantine behaviour ----------------------------------------------------------------------
struct Byz {
	World &W; SplitMix64 &r;
	std::vector<std::string> vals;        // values the faulty parties play with
	Byz(World &w, SplitMix64 &rr) : W(w), r(rr) { for (int k = 0; k < 3; k++) vals.push_back(hxi(0x5000 + (long)r.below(4))); vals.push_back("0"); }
	std::string some_id() {
		std::vector<std::string> ids; for (auto &kv : W.chan_fifo) ids.push_back(kv.first);
		if (r.below(12) == 0) return "abc";
		return ids[r.below(ids.size())];
	}
	std::string some_val() {
		unsigned k = r.below(10);
		if (k < 6) return vals[r.below(vals.size())];
		if (k < 8 && !W.bcast.empty()) { auto it = W.bcast.begin(); std::advance(it, r.below(W.bcast.size())); return it->second; }
		if (k == 8) return "-5";
		return hxi((long)r.below(3));
	}
	std::string some_digest() {
		unsigned k = r.below(12);
		if (k == 0) return "0";
		if (k == 1) { mpz_t z; mpz_init(z); mpz_ui_pow_ui(z, 10, 300); std::string s = hx(z); mpz_clear(z); return s; }   // too long
		return H(some_val());
	}
	size_t some_byz() { std::vector<size_t> b; for (size_t i = 0; i < W.n; i++) if (W.byz[i]) b.push_back(i); return b[r.below(b.size())]; }
	std::string some_s() { unsigned k = r.below(10); if (k == 0) return "0"; if (k == 1) return hxi(4 + (long)r.below(3)); return hxi(1 + (long)r.below(3)); }
	// an equivocating broadcast: different payloads to different receivers, followed by matching echo/ready support
	void equivocate() {
		size_t b = some_byz(); std::string id = some_id(), s = some_s();
		std::string v1 = some_val(), v2 = some_val();
		unsigned split = r.below(W.n + 1);
		bool silent_to_some = r.below(3) == 0;
		for (size_t d = 0; d < W.n; d++) {
			if (silent_to_some && r.below(3) == 0) continue;
			M m = { id, hxi(b), s, "1", d < split ? v1 : v2 }; W.push(b, d, m);
			if (r.below(2)) { M e = { id, hxi(b), s, "2", H(d < split ? v1 : v2) }; W.push(b, d, e); }
			if (r.below(2)) { M e = { id, hxi(b), s, "3", H(d < split ? v1 : v2) }; W.push(b, d, e); }
		}
	}
	// react to one message an honest party sent to a faulty one (or drop it)
	void react() {
		size_t b = some_byz();
		std::vector<size_t> srcs; for (size_t s = 0; s < W.n; s++) if (!W.q[s][b].empty()) srcs.push_back(s);
		if (srcs.empty()) return;
		size_t src = srcs[r.below(srcs.size())];
		M in = W.q[src][b].front(); W.q[src][b].pop_front();
		unsigned mode = r.below(4);           // 0 drop, 1 behave, 2 behave towards some, 3 lie
		if (mode == 0) return;
		M out = in;
		if (in[3] == "1") { out[3] = "2"; out[4] = (mode == 3) ? some_digest() : H(in[4]); }
		else if (in[3] == "2") { out[3] = "3"; if (mode == 3) out[4] = some_digest(); }
		else if (in[3] == "3") { out[3] = r.below(2) ? "3" : "2"; if (mode == 3) out[4] = some_digest(); }
		else if (in[3] == "4") { out[3] = "5"; out[4] = some_val(); W.push(b, src, out); return; }
		else if (in[3] == "6") { out[3] = "7"; out[4] = some_val(); W.push(b, src, out); return; }
		else return;
		for (size_t d = 0; d < W.n; d++) { if (mode == 2 && r.below(2)) continue; M o = out; if (mode == 3 && r.below(2)) o[4] = some_digest(); W.push(b, d, o); }
	}
	// arbitrary injection
	void inject() {
		size_t b = some_byz(); size_t d = r.below(W.n);
		std::string j;
		unsigned kj = r.below(10);
		if (kj < 5) j = hxi(b); else if (kj < 8) j = hxi((long)r.below(W.n)); else if (kj == 8) j = hxi(W.n); else j = "-1";
		unsigned a = r.below(12); long act = a < 9 ? (long)a : (long)(1 + r.below(5));
		std::string pay = (act == 2 || act == 3 || act == 4) ? some_digest() : some_val();
		M m = { some_id(), j, some_s(), hxi(act), pay };
		unsigned copies = 1 + (r.below(4) == 0 ? 1 : 0);
		for (unsigned c = 0; c < copies; c++) W.push(b, d, m);
		if (r.below(3) == 0) for (size_t dd = 0; dd < W.n; dd++) if (dd != d) W.push(b, dd, m);
	}
};

// ---- randomized world ---------------------------------------------------------------------------
static void world_random(uint64_t seed, bool emit, int flavour) {
	int wid = g_world++;
	if (!want_world(wid)) return;
	SplitMix64 r(seed * 0x9E3779B97F4A7C15ULL + 1000003ULL * (uint64_t)wid + 5);
	reseed_lib(seed * 31 + wid);
	size_t n = 2 + r.below(6);
	if (flavour == 1) n = 4; if (flavour == 2) n = 7;
	size_t tmax = (n - 1) / 3;
	size_t t = r.below(4) == 0 ? r.below(tmax + 1) : tmax;
	bool hostile = (flavour == 3);            // more faulty parties than t: correspondence only, oracle off
	size_t nbyz = t ? (r.below(5) == 0 ? r.below(t + 1) : t) : 0;
	if (hostile) { if (n < 3) n = 4; t = (n - 1) / 3; nbyz = std::min(n - 1, t + 1 + r.below(2)); }
	size_t skip = (flavour == 4) ? 1 + r.below(2) : 0;
	std::vector<bool> byz(n, false);
	for (size_t k = 0; k < nbyz; ) { size_t b = r.below(n); if (!byz[b]) { byz[b] = true; k++; } }
	World W(wid, n, t, skip, byz, emit, !hostile);
	Byz B(W, r);
	std::vector<size_t> hon; for (size_t i = 0; i < n; i++) if (!byz[i]) hon.push_back(i);
	// channel plan: root (FIFO) -> "a" (FIFO) -> "b" (FIFO) ; root -> "x" (non-FIFO) ; parties mostly move together
	bool use_nonfifo = r.below(3) == 0;
	bool together = r.below(4) != 0;
	unsigned steps = 120 + r.below(flavour == 2 ? 900 : 500);
	unsigned nb = 0, maxb = 3 + r.below(10);
	unsigned byz_rate = nbyz ? 4 + r.below(25) : 0;
	unsigned from_rate = r.below(3) == 0 ? 25 : (r.below(2) ? 5 : 0);
	std::vector<std::vector<std::string> > plans;
	plans.push_back(std::vector<std::string>());
	plans.push_back(std::vector<std::string>(1, "a"));
	{ std::vector<std::string> p2; p2.push_back("a"); p2.push_back("b"); plans.push_back(p2); }
	if (use_nonfifo) plans.push_back(std::vector<std::string>(1, "x"));
	for (unsigned st = 0; st < steps; st++) {
		unsigned c = r.below(100);
		size_t p = hon[r.below(hon.size())];
		if (c < byz_rate) {
			unsigned k = r.below(10);
			if (k < 5) B.react(); else if (k < 8) B.inject(); else B.equivocate();
		} else if (c < byz_rate + 8 && nb < maxb) {
			W.do_broadcast(p, fresh_value()); nb++;
			if (r.below(3) == 0 && nb < maxb) { W.do_broadcast(p, fresh_value()); nb++; }
		} else if (c < byz_rate + 11) {
			const std::vector<std::string> &target = plans[r.below(plans.size())];
			if (together) { for (size_t k = 0; k < hon.size(); k++) W.goto_path(hon[k], target, fifo_of_name); }
			else W.goto_path(p, target, fifo_of_name);
		} else if (c < byz_rate + 13) {
			W.do_deliver(p, -1);
		} else {
			std::vector<size_t> srcs; for (size_t s = 0; s < n; s++) if (!W.q[s][p].empty()) srcs.push_back(s);
			long src = srcs.empty() ? -1 : (long)srcs[r.below(srcs.size())];
			if (r.below(100) < from_rate) W.do_deliver(p, src, true, r.below(n + (r.below(20) == 0 ? 1 : 0)));
			else W.do_deliver(p, src);
		}
	}
	finish_world(W);
	g_total_fail += W.nfail;
}

// ---- systematic interleavings: n = 4, t = 1 ---------------------------------------------------------
// scenario: one broadcast (honest P0, or faulty P3 equivocating / silent towards some), then the first `depth` hand-overs
// are chosen exhaustively among the `width` first non-empty (src,dst) pairs in a rotating canonical order; the rest of the
// schedule is the canonical drain.  Byzantine P3 (if any) stays silent afterwards or supports both values.
static void world_systematic(int scen, const std::vector<unsigned> &choices, bool emit, bool fifo) {
	int wid = g_world++;
	if (!want_world(wid)) return;
	reseed_lib(4242 + wid);
	std::vector<bool> byz(4, false);
	if (scen >= 1) byz[3] = true;
	World W(wid, 4, 1, 0, byz, emit, true);
	if (!fifo) for (size_t p = 0; p < 4; p++) if (!byz[p]) W.do_switch(p, 0, "x", false);
	std::string id = W.cur(0);
	if (scen == 0 || scen == 1) W.do_broadcast(0, fresh_value());            // scen 1: P3 silent
	if (scen == 2 || scen == 3) {                                            // P3 equivocates: v1 to P0, v2 to P1,P2 ; echo/ready for both
		std::string v1 = "5001", v2 = "5002";
		for (size_t d = 0; d < 3; d++) { M m = { id, "3", "1", "1", d == 0 ? v1 : v2 }; W.push(3, d, m); }
		for (size_t d = 0; d < 3; d++) { M e = { id, "3", "1", "2", H(d == 0 ? v1 : v2) }; W.push(3, d, e); }
		if (scen == 3) for (size_t d = 0; d < 3; d++) { M e = { id, "3", "1", "3", H(d == 2 ? v1 : v2) }; W.push(3, d, e); }
	}
	if (scen == 4) {                                                         // honest P0 broadcasts; P3 answers requests with junk and echoes a wrong digest
		W.do_broadcast(0, fresh_value());
		for (size_t d = 0; d < 3; d++) { M e = { id, "0", "1", "2", H("5001") }; W.push(3, d, e); }
		for (size_t d = 0; d < 3; d++) { M e = { id, "0", "1", "3", H("5001") }; W.push(3, d, e); }
		for (size_t d = 0; d < 3; d++) { M e = { id, "0", "1", "5", "5001" }; W.push(3, d, e); }
	}
	unsigned rot = 0;
	for (size_t k = 0; k < choices.size(); k++) {
		std::vector<std::pair<size_t, size_t> > en;
		for (size_t x = 0; x < 16; x++) { size_t pr = (x + rot) % 16; size_t s = pr / 4, d = pr % 4; if (!byz[d] && !W.q[s][d].empty()) en.push_back(std::make_pair(s, d)); }
		if (en.empty()) break;
		std::pair<size_t, size_t> pick = en[choices[k] % en.size()];
		W.do_deliver(pick.second, (long)pick.first);
		rot = (unsigned)(pick.first * 4 + pick.second + 5);
	}
	finish_world(W);
	g_total_fail += W.nfail;
}

int main(int argc, char **argv) {
	Args args(argc, argv);
	std::cerr.setstate(std::ios_base::failbit);       // the library reports every discarded message on std::cerr
	if (!init_libTMCG()) { fprintf(stderr, "init_libTMCG failed\n"); return 2; }
	g_only = args.only;
	bool th = args.thorough();
	// 1. the scripted races (always recorded for the model)
	for (int fifo = 0; fifo < 2; fifo++) { world_race(true, fifo, 0); world_race(true, fifo, 1); }
	// 1b. counter recovery after k-fold unsetID / recoverID (k = 2..4), flat and nested, drained and with traffic in flight
	for (unsigned k = 2; k <= 4; k++) for (int nested = 0; nested < 2; nested++) for (int var = 0; var < 2; var++)
		world_recover(true, (k == 3) ? 3 : 4, k, nested, var);
	// 1c. cross-channel answers of the out-of-order handler
	world_cross(true, false); world_cross(true, true);
	// 2. systematic interleavings for n = 4, t = 1
	unsigned depth = th ? 5 : 4, width = 4;
	unsigned long total = 1; for (unsigned k = 0; k < depth; k++) total *= width;
	unsigned every = th ? 16 : 16;
	for (int scen = 0; scen < 5; scen++) for (int fifo = 0; fifo < 2; fifo++) {
		if (!fifo && !(scen == 0 || scen == 2 || scen == 4)) continue;
		for (unsigned long code = 0; code < total; code++) {
			std::vector<unsigned> ch; unsigned long c = code;
			for (unsigned k = 0; k < depth; k++) { ch.push_back(c % width); c /= width; }
			world_systematic(scen, ch, (code % every) == (args.seed % every), fifo);
		}
	}
	// 3. randomized worlds
	unsigned nrand = th ? 1500 : 260;
	for (unsigned k = 0; k < nrand; k++) {
		int flavour = 0;
		if (k % 10 == 3) flavour = 1; if (k % 10 == 5) flavour = 2; if (k % 10 == 7) flavour = 3; if (k % 20 == 9) flavour = 4;
		world_random(args.seed, th ? (k % 3 == 0) : (k % 2 == 0) , flavour);
	}
	printf("INFO worlds=%d propfails=%lu\n", g_world, g_total_fail);
	return 0;
}
