// C16 correspondence harness.
//  (a) verifiers: the real GennaroJareckiKrawczykRabinNTS::Verify and CanettiGennaroJareckiKrawczykRabinDSS::Verify on valid
//      signatures made with plain GMP and on the range-boundary / mutation catalogue; every call is a REC for the model and is
//      compared with an independent textbook evaluation (plain GMP; hash input string assembled here) -> PROPFAIL.
//  (b) forked n-party signing runs (as /repo/tests/t-dkg.cc and t-astc2.cc, small groups): every honest party's signature is
//      checked by the library verifier, by the textbook equation, and all honest parties must hold the same signature and key.
#include "common.hh"
#include <sstream>
#include <map>
#include <algorithm>
#define private public
#define protected public
#include <libTMCG.hh>
#undef private
#undef protected
#include "c17_group.hh"
#include "c17_fork.hh"
using namespace verif;

static std::string hexs(mpz_srcptr z) { char *s = mpz_get_str(NULL, 16, z); std::string r(s); free(s); return r; }
// H(m, r) exactly as a Fiat-Shamir hash over the list [m; r]: hex digits, '|' after every argument
static void hash2(mpz_ptr out, mpz_srcptr m, mpz_srcptr r) { std::string in = hexs(m) + "|" + hexs(r) + "|"; tmcg_mpz_shash(out, in); }

// textbook Schnorr with plain GMP: 0 <= s < q and c == H(m, g^(s mod q) * y^((-c) mod q) mod p); rv receives the recomputed nonce
static bool schnorr_textbook(const Grp &G, mpz_srcptr y, mpz_srcptr m, mpz_srcptr c, mpz_srcptr s, mpz_ptr rv) {
	if (mpz_sgn(s) < 0 || mpz_cmp(s, G.q) >= 0) { mpz_set_ui(rv, 0); return false; }
	mpz_t e1, e2, a, b, h; mpz_init(e1); mpz_init(e2); mpz_init(a); mpz_init(b); mpz_init(h);
	mpz_mod(e1, s, G.q); mpz_neg(e2, c); mpz_mod(e2, e2, G.q);
	mpz_powm(a, G.g, e1, G.p); mpz_powm(b, y, e2, G.p); mpz_mul(rv, a, b); mpz_mod(rv, rv, G.p);
	hash2(h, m, rv); bool ok = (mpz_cmp(h, c) == 0);
	mpz_clear(e1); mpz_clear(e2); mpz_clear(a); mpz_clear(b); mpz_clear(h); return ok;
}
// textbook DSA (FIPS 186-4 section 4.7) with plain GMP on the hash value m
static bool dsa_textbook(const Grp &G, mpz_srcptr y, mpz_srcptr m, mpz_srcptr r, mpz_srcptr s) {
	if (mpz_sgn(r) <= 0 || mpz_cmp(r, G.q) >= 0 || mpz_sgn(s) <= 0 || mpz_cmp(s, G.q) >= 0) return false;
	mpz_t w, u1, u2, a, b; mpz_init(w); mpz_init(u1); mpz_init(u2); mpz_init(a); mpz_init(b);
	bool ok = false;
	if (mpz_invert(w, s, G.q)) {
		mpz_mod(u1, m, G.q); mpz_mul(u1, u1, w); mpz_mod(u1, u1, G.q);
		mpz_mul(u2, r, w); mpz_mod(u2, u2, G.q);
		mpz_powm(a, G.g, u1, G.p); mpz_powm(b, y, u2, G.p); mpz_mul(a, a, b); mpz_mod(a, a, G.p); mpz_mod(a, a, G.q);
		ok = (mpz_cmp(a, r) == 0);
	}
	mpz_clear(w); mpz_clear(u1); mpz_clear(u2); mpz_clear(a); mpz_clear(b); return ok;
}

// ---- verifier records ------------------------------------------------------------------------------------------
static unsigned long n_ver = 0;
// oracle table for the model: the hash of [m; r] for the nonce candidates the verifier can arrive at
static std::string oracle(const Grp &G, mpz_srcptr y, mpz_srcptr m, mpz_srcptr c, mpz_srcptr s) {
	mpz_t r, a, b, h; mpz_init(r); mpz_init(a); mpz_init(b); mpz_init(h);
	std::string t;
	// exact evaluation with signed exponents (defined whenever the bases are units)
	mpz_gcd(a, y, G.p); bool yunit = (mpz_cmp_ui(a, 1) == 0);
	if (yunit || mpz_sgn(c) >= 0) {
		mpz_powm(a, G.g, s, G.p); mpz_powm(b, y, c, G.p);
		if (mpz_invert(b, b, G.p)) { mpz_mul(r, a, b); mpz_mod(r, r, G.p); hash2(h, m, r); t += hx(m) + "," + hx(r) + ":" + hx(h); }
	}
	mpz_set_ui(r, 0); hash2(h, m, r); if (!t.empty()) t += ";"; t += hx(m) + "," + hx(r) + ":" + hx(h);
	mpz_clear(r); mpz_clear(a); mpz_clear(b); mpz_clear(h); return t;
}

static void nts_case(GennaroJareckiKrawczykRabinNTS &nts, const Grp &G, mpz_srcptr y, mpz_srcptr m, mpz_srcptr c, mpz_srcptr s, const char *cls) {
	n_ver++;
	mpz_set(nts.y, y);
	std::string verdict;
	try { verdict = nts.Verify(m, c, s) ? "accept" : "reject"; } catch (std::exception &e) { verdict = "throw"; }
	Rec("nts_verify").z(G.p).z(G.q).z(G.g).z(G.h).z(y).z(m).z(c).z(s).t(oracle(G, y, m, c, s)).t(verdict);
	mpz_t rv; mpz_init(rv);
	bool tb = schnorr_textbook(G, y, m, c, s, rv);
	mpz_t as; mpz_init(as); mpz_abs(as, s);
	bool oversize = mpz_sizeinbase(as, 2) > mpz_sizeinbase(G.q, 2);
	std::string ctx = std::string(cls) + " p=" + hx(G.p) + " q=" + hx(G.q) + " g=" + hx(G.g) + " y=" + hx(y) + " m=" + hx(m) + " c=" + hx(c) + " s=" + hx(s) + " library=" + verdict + " textbook=" + (tb ? "accept" : "reject");
	if (verdict == "accept" && !tb)
		propfail(oversize ? "nts-verify-oversize-s" : "nts-verify-accepts-invalid", "NTS::Verify accepts a triple the Schnorr equation rejects: " + ctx);
	if (verdict != "accept" && tb)
		propfail("nts-verify-rejects-valid", "NTS::Verify refuses a triple the Schnorr equation accepts: " + ctx);
	mpz_clear(rv); mpz_clear(as);
}

static void dss_case(CanettiGennaroJareckiKrawczykRabinDSS &dss, const Grp &G, mpz_srcptr y, mpz_srcptr m, mpz_srcptr r, mpz_srcptr s, const char *cls) {
	n_ver++;
	mpz_set(dss.y, y);
	std::string verdict;
	try { verdict = dss.Verify(m, r, s) ? "accept" : "reject"; } catch (std::exception &e) { verdict = "throw"; }
	Rec("dss_verify").z(G.p).z(G.q).z(G.g).z(G.h).z(y).z(m).z(r).z(s).t(verdict);
	bool tb = dsa_textbook(G, y, m, r, s);
	if ((verdict == "accept") != tb)
		propfail(tb ? "dss-verify-rejects-valid" : "dss-verify-accepts-invalid", std::string("DSS::Verify and textbook DSA differ: ") + cls + " p=" + hx(G.p) + " q=" + hx(G.q) + " g=" + hx(G.g) +
			" y=" + hx(y) + " m=" + hx(m) + " r=" + hx(r) + " s=" + hx(s) + " library=" + verdict + " textbook=" + (tb ? "accept" : "reject"));
}

// the boundary / mutation catalogue for one value
static const int NCAT = 16;
static void cat_value(int k, mpz_ptr out, mpz_srcptr v, const Grp &G) {
	switch (k) {
	case 0: mpz_set_ui(out, 0); break;
	case 1: mpz_set_ui(out, 1); break;
	case 2: mpz_sub_ui(out, G.q, 1); break;
	case 3: mpz_set(out, G.q); break;
	case 4: mpz_add_ui(out, v, 1); break;
	case 5: mpz_sub_ui(out, v, 1); break;
	case 6: mpz_add(out, v, G.q); break;
	case 7: mpz_sub(out, v, G.q); break;
	case 8: mpz_neg(out, v); break;
	case 9: mpz_add_ui(out, G.q, 1); break;
	case 10: mpz_ui_pow_ui(out, 2, mpz_sizeinbase(G.q, 2)); break;                  // first value longer than the table
	case 11: mpz_ui_pow_ui(out, 2, mpz_sizeinbase(G.q, 2)); mpz_sub_ui(out, out, 1); break;   // longest value within the table
	case 12: mpz_ui_pow_ui(out, 2, 2047); break;                                   // 2048 bits: last length fpowm accepts
	case 13: mpz_ui_pow_ui(out, 2, 2048); break;                                   // 2049 bits
	case 14: mpz_set_si(out, -1); break;
	case 15: mpz_mul_ui(out, G.q, 2); mpz_add(out, out, v); break;
	}
}

static void verifier_part(const Grp &G, bool T) {
	GennaroJareckiKrawczykRabinNTS nts(3, 1, 0, G.p, G.q, G.g, G.h, mpz_sizeinbase(G.p, 2), mpz_sizeinbase(G.q, 2), false, false);
	CanettiGennaroJareckiKrawczykRabinDSS dss(3, 1, 0, G.p, G.q, G.g, G.h, mpz_sizeinbase(G.p, 2), mpz_sizeinbase(G.q, 2), false, false);
	mpz_t x, y, k, r, c, s, m, v, w, t; mpz_init(x); mpz_init(y); mpz_init(k); mpz_init(r); mpz_init(c); mpz_init(s); mpz_init(m); mpz_init(v); mpz_init(w); mpz_init(t);
	unsigned reps = (T && mpz_sizeinbase(G.q, 2) < 96) ? 4 : 1;   // the extracted model is slow on large groups
	for (unsigned rp = 0; rp < reps; rp++)
	for (int mk = 0; mk < 6; mk++) {
		// message (hash value): 0, 1, q-1, q, random below q, random longer than q
		switch (mk) { case 0: mpz_set_ui(m, 0); break; case 1: mpz_set_ui(m, 1); break; case 2: mpz_sub_ui(m, G.q, 1); break; case 3: mpz_set(m, G.q); break;
			case 4: gen_below(m, G.q); break; default: gen_bits(m, mpz_sizeinbase(G.q, 2) + 40); break; }
		gen_below(x, G.q); if (mpz_sgn(x) == 0) mpz_set_ui(x, 1);
		mpz_powm(y, G.g, x, G.p);
		// ---- Schnorr: valid signature, then the catalogue on s, c, m and on the key
		gen_below(k, G.q); mpz_powm(r, G.g, k, G.p); hash2(c, m, r);
		mpz_mul(s, c, x); mpz_add(s, s, k); mpz_mod(s, s, G.q);
		nts_case(nts, G, y, m, c, s, "valid");
		for (int kk = 0; kk < NCAT; kk++) { cat_value(kk, v, s, G); nts_case(nts, G, y, m, c, v, "s-catalogue"); }
		for (int kk = 0; kk < NCAT; kk++) { if (kk >= 12 && kk <= 13) continue; cat_value(kk, v, c, G); nts_case(nts, G, y, m, v, s, "c-catalogue"); }
		for (int kk = 0; kk < 10; kk++) { cat_value(kk, v, m, G); nts_case(nts, G, y, v, c, s, "m-catalogue"); }
		for (int kq = 1; kq <= 3; kq++) { mpz_mul_ui(v, G.q, kq); mpz_add(v, v, s); nts_case(nts, G, y, m, c, v, "s-congruent"); }
		// the nonce chosen as a fixed value: c = H(m, v) for v in {0, 1, p-1} with matching / oversize s
		for (int nv = 0; nv < 3; nv++) {
			if (nv == 0) mpz_set_ui(v, 0); else if (nv == 1) mpz_set_ui(v, 1); else mpz_sub_ui(v, G.p, 1);
			hash2(t, m, v);
			for (int kk = 0; kk < NCAT; kk++) { cat_value(kk, w, s, G); nts_case(nts, G, y, m, t, w, "fixed-nonce"); }
		}
		// another key, key = 1, key = g
		gen_below(w, G.q); mpz_powm(v, G.g, w, G.p); nts_case(nts, G, v, m, c, s, "other-key");
		mpz_set_ui(v, 1); nts_case(nts, G, v, m, c, s, "key-one");
		// swapped roles of c and s
		nts_case(nts, G, y, m, s, c, "swapped");
		// ---- DSA: valid signature, catalogue on r, s, m
		do { gen_below(k, G.q); if (mpz_sgn(k) == 0) continue; mpz_powm(r, G.g, k, G.p); mpz_mod(r, r, G.q);
			mpz_mul(s, x, r); mpz_add(s, s, m); mpz_invert(t, k, G.q); mpz_mul(s, s, t); mpz_mod(s, s, G.q); } while (mpz_sgn(k) == 0 || mpz_sgn(r) == 0 || mpz_sgn(s) == 0);
		dss_case(dss, G, y, m, r, s, "valid");
		for (int kk = 0; kk < NCAT; kk++) { cat_value(kk, v, r, G); dss_case(dss, G, y, m, v, s, "r-catalogue"); }
		for (int kk = 0; kk < NCAT; kk++) { cat_value(kk, v, s, G); dss_case(dss, G, y, m, r, v, "s-catalogue"); }
		for (int kk = 0; kk < NCAT; kk++) { cat_value(kk, v, m, G); dss_case(dss, G, y, v, r, s, "m-catalogue"); }
		// values congruent to the valid signature: s + k q for k = 1, 2, 3 and the largest k with s + k q < p; r + q; both
		for (int kq = 1; kq <= 4; kq++) {
			if (kq < 4) { mpz_mul_ui(v, G.q, kq); mpz_add(v, v, s); } else { mpz_sub(v, G.p, s); mpz_sub_ui(v, v, 1); mpz_fdiv_q(v, v, G.q); mpz_mul(v, v, G.q); mpz_add(v, v, s); }
			dss_case(dss, G, y, m, r, v, "s-congruent");
			mpz_add(w, r, G.q); dss_case(dss, G, y, m, w, v, "rs-congruent");
		}
		mpz_add(w, r, G.q); dss_case(dss, G, y, m, w, s, "r-congruent");
		mpz_sub(v, s, G.q); dss_case(dss, G, y, m, r, v, "s-congruent");
		// both at the boundary
		for (int a = 0; a < 4; a++) for (int b = 0; b < 4; b++) { cat_value(a, v, r, G); cat_value(b, w, s, G); dss_case(dss, G, y, m, v, w, "rs-boundary"); }
		gen_below(w, G.q); mpz_powm(v, G.g, w, G.p); dss_case(dss, G, v, m, r, s, "other-key");
		dss_case(dss, G, y, m, s, r, "swapped");
	}
	mpz_clear(x); mpz_clear(y); mpz_clear(k); mpz_clear(r); mpz_clear(c); mpz_clear(s); mpz_clear(m); mpz_clear(v); mpz_clear(w); mpz_clear(t);
}

// ---- unit level: GennaroJareckiKrawczykRabinDKG::Reconstruct in this process ------------------------------------------------
// party i holds the commitments of dealer d and its own share; the other parties' reconstruction shares are placed into the
// broadcast layer's delivery buffers (good, bad = +1, out of range, or check-passing but for another point is impossible);
// the result must be f(0) interpolated from the first t+1 GOOD shares (own share first, then QUAL order).
static unsigned long n_unit = 0;
static void reconstruct_unit(const Grp &G, size_t n, size_t t, size_t i, size_t d, const std::vector<int> &kind /* per party: 0 good, 1 share+1, 2 randomizer+1, 3 out of range */) {
	n_unit++;
	// a broadcast object over pipes nobody reads (only Broadcast of the own share writes into them)
	std::vector<int> fin, fout; std::vector<std::string> key;
	for (size_t k = 0; k < n; k++) { int pf[2]; if (pipe(pf) < 0) return; fin.push_back(pf[0]); fout.push_back(pf[1]); key.push_back("unit"); }
	aiounicast_select *aiou = new aiounicast_select(n, i, fin, fout, key, aiounicast::aio_scheduler_roundrobin, aiounicast::aio_timeout_extremely_short);
	CachinKursawePetzoldShoupRBC *rbc = new CachinKursawePetzoldShoupRBC(n, t, i, aiou, aiounicast::aio_scheduler_roundrobin, aiounicast::aio_timeout_extremely_short);
	rbc->setID("unit");
	GennaroJareckiKrawczykRabinDKG dkg(n, t, i, G.p, G.q, G.g, G.h, mpz_sizeinbase(G.p, 2), mpz_sizeinbase(G.q, 2), false, false, "unit");
	// dealer d's polynomials and commitments
	std::vector<mpz_t> a(t + 1), b(t + 1);
	for (size_t k = 0; k <= t; k++) { mpz_init(a[k]); mpz_init(b[k]); gen_below(a[k], G.q); gen_below(b[k], G.q); G.commit(dkg.C_ik[d][k], a[k], b[k]); }
	auto eval = [&](std::vector<mpz_t> &c, size_t x, mpz_ptr r) { mpz_set_ui(r, 0); for (size_t k = t + 1; k-- > 0; ) { mpz_mul_ui(r, r, x); mpz_add(r, r, c[k]); mpz_mod(r, r, G.q); } };
	dkg.QUAL.clear(); for (size_t j = 0; j < n; j++) dkg.QUAL.push_back(j);
	eval(a, i + 1, dkg.s_ij[d][i]); eval(b, i + 1, dkg.sprime_ij[d][i]);
	// the ID Reconstruct is going to use
	std::stringstream myID; myID << "GennaroJareckiKrawczykRabinDKG::Reconstruct()" << G.p << G.q << G.g << G.h << n << t << "[" << d << "]";
	rbc->setID(myID.str()); mpz_t id; mpz_init_set(id, rbc->ID); rbc->unsetID();
	std::string pts = hx((unsigned long)(i + 1)) + ":" + hx(dkg.s_ij[d][i]); size_t used = 1;
	mpz_t s1, s2; mpz_init(s1); mpz_init(s2);
	for (size_t j = 0; j < n; j++) if (j != i && j != d) {
		eval(a, j + 1, s1); eval(b, j + 1, s2);
		if (kind[j] == 1) { mpz_add_ui(s1, s1, 1); mpz_mod(s1, s1, G.q); } else if (kind[j] == 2) { mpz_add_ui(s2, s2, 1); mpz_mod(s2, s2, G.q); } else if (kind[j] == 3) mpz_add(s1, s1, G.q);
		else if (used < t + 1) { pts += "," + hx((unsigned long)(j + 1)) + ":" + hx(s1); used++; }
		for (int w = 0; w < 2; w++) { mpz_ptr v = new mpz_t(), vid = new mpz_t(); mpz_init_set(v, w ? s2 : s1); mpz_init_set(vid, id); rbc->buf_mpz[j].push_back(v); rbc->buf_id[j].push_back(vid); }
	}
	std::vector<mpz_ptr> z; std::vector<std::vector<mpz_ptr> > aik(n);
	for (size_t j = 0; j < n; j++) { mpz_ptr v = new mpz_t(); mpz_init(v); z.push_back(v); for (size_t k = 0; k <= t; k++) { mpz_ptr w = new mpz_t(); mpz_init(w); aik[j].push_back(w); } }
	std::ostringstream err; std::vector<size_t> complaints(1, d); bool ok = false; std::string out;
	try { ok = dkg.Reconstruct(complaints, z, aik, rbc, err); out = ok ? hx(z[d]) : "fail"; } catch (std::exception &e) { out = "throw"; }
	std::string ks; for (size_t j = 0; j < n; j++) ks += (char)('0' + kind[j]);
	if (used == t + 1) {
		Rec("gjkr_reconstruct").z(G.q).t(pts).t(out);
		if (!ok || mpz_cmp(z[d], a[0]) != 0)
			propfail("reconstruct-wrong-secret", "GJKR DKG Reconstruct: result " + out + " is not the dealer's secret " + hx(a[0]) + " although t+1 good shares were delivered: n=" + std::to_string(n) +
				" t=" + std::to_string(t) + " i=" + std::to_string(i) + " d=" + std::to_string(d) + " kinds=" + ks + " q=" + hx(G.q) + " points=" + pts);
		else for (size_t k = 0; k <= t; k++) if (mpz_cmp(aik[d][k], a[k]) != 0) { propfail("reconstruct-wrong-polynomial", "GJKR DKG Reconstruct: coefficient " + std::to_string(k) + " wrong: kinds=" + ks + " q=" + hx(G.q) + " points=" + pts); break; }
	} else if (ok) propfail("reconstruct-too-few-shares", "GJKR DKG Reconstruct succeeded with fewer than t+1 good shares: kinds=" + ks + " q=" + hx(G.q));
	for (size_t k = 0; k < n; k++) { close(fin[k]); close(fout[k]); }
	mpz_clear(s1); mpz_clear(s2); mpz_clear(id); for (size_t k = 0; k <= t; k++) { mpz_clear(a[k]); mpz_clear(b[k]); }
}
static void reconstruct_units(const Grp &G, bool T) {
	unsigned reps = T ? 40 : 10;
	for (unsigned r = 0; r < reps; r++) {
		size_t n = 3 + gen().below(5), t = (n - 1) / 2; if (gen().coin() && t > 1) t--;
		size_t i = gen().below(n), d; do d = gen().below(n); while (d == i);
		std::vector<int> kind(n, 0);
		// one bad share placed among the first t+1 interpolation points (the first parties in QUAL order), then random patterns
		size_t first = 0; while (first == i || first == d) first++;
		if (r % 3 == 0) kind[first] = 1 + (int)gen().below(3);
		else if (r % 3 == 1) { for (size_t j = 0; j < n; j++) if (j != i && j != d && gen().below(3) == 0) kind[j] = 1 + (int)gen().below(3); }
		reconstruct_unit(G, n, t, i, d, kind);
	}
}

// ---- forked signing runs -----------------------------------------------------------------------------------------
// the k-th (0-based) occurrence of "key<value>\n" in a log
static std::string nth_logged(const std::string &log, const std::string &key, int k) {
	size_t pos = 0; for (int c = 0; ; c++) { pos = log.find(key, pos); if (pos == log.npos) return ""; if (c == k) break; pos += key.size(); }
	size_t e = log.find('\n', pos); return log.substr(pos + key.size(), e == log.npos ? log.npos : e - pos - key.size());
}
static std::string b62hex(const std::string &s) { if (s.empty()) return ""; mpz_t v; mpz_init(v); std::string r; if (mpz_set_str(v, s.c_str(), TMCG_MPZ_IO_BASE) == 0) r = hx(v); mpz_clear(v); return r; }
static std::string last_logged(const std::string &log, const std::string &key) {
	size_t pos = log.rfind(key); if (pos == log.npos) return "";
	size_t e = log.find('\n', pos); return log.substr(pos + key.size(), e == log.npos ? log.npos : e - pos - key.size());
}
static std::vector<std::string> split(const std::string &s, char c) {
	std::vector<std::string> r; std::string cur; for (char x : s) { if (x == c) { r.push_back(cur); cur.clear(); } else cur += x; } r.push_back(cur); return r;
}
static unsigned long n_sign = 0;
// a record as a string (emitted only when the run is conclusive)
struct RecS { std::ostringstream o; std::vector<std::string> &dst; RecS(std::vector<std::string> &d, const char *k) : dst(d) { o << "REC " << k; }
	RecS &z(mpz_srcptr v) { o << ' ' << hx(v); return *this; } RecS &t(const std::string &x) { o << ' ' << x; return *this; }
	~RecS() { dst.push_back(o.str() + "\n"); } };

// hash values 0, 1, q-1, q, random.  DSS::Sign evaluates g^m with the fixed-base table (…ASTC.cc:3994), so a hash value longer than
// q makes the signing run throw (observation in docs/C16.md); random values for DSS therefore have exactly the bit length of q.
static void msg_value(int mk, mpz_ptr m, const Grp &G, bool dss) {
	switch (mk % 5) { case 0: mpz_set_ui(m, 0); break; case 1: mpz_set_ui(m, 1); break; case 2: mpz_sub_ui(m, G.q, 1); break; case 3: mpz_set(m, G.q); break;
		default: if (dss) { gen_bits(m, mpz_sizeinbase(G.q, 2)); mpz_setbit(m, mpz_sizeinbase(G.q, 2) - 1); } else gen_bits(m, 200); break; }
}

static bool schnorr_run_once(std::vector<std::pair<std::string, std::string> > &pending, const Grp &G, size_t n, size_t t, const std::vector<bool> &faulty_in, int mk, uint64_t seed, const std::map<size_t, Deviation> &devs, const std::set<size_t> &silent = std::set<size_t>()) {
	std::vector<std::pair<std::string, std::string> > fails; std::vector<std::string> recs;
	auto propfail = [&](const std::string &k, const std::string &w) { fails.push_back(std::make_pair(k, w)); };
	mpz_t m; mpz_init(m); msg_value(mk, m, G, false);
	// a scripted deviator (wrong private share to a subset during the key DKG or the nonce DKG) runs the honest code over a
	// tampered unicast channel; it is not counted among the honest signers
	std::vector<bool> faulty(faulty_in), lib_faulty(faulty_in); for (auto &d : devs) faulty[d.first] = true;
	for (size_t sl : silent) faulty[sl] = true;       // takes part in the key generation honestly, then does not sign at all
	bool anyf = std::find(lib_faulty.begin(), lib_faulty.end(), true) != lib_faulty.end() || !silent.empty();
	ForkResult FR = fork_parties(n, t, seed, anyf ? aiounicast::aio_timeout_short : aiounicast::aio_timeout_long, anyf ? 400 : 600, [&](size_t i, aiounicast *aiou, CachinKursawePetzoldShoupRBC *rbc, std::ostream &res) {
		GennaroJareckiKrawczykRabinNTS nts(n, t, i, G.p, G.q, G.g, G.h, mpz_sizeinbase(G.p, 2), mpz_sizeinbase(G.q, 2), false, false);
		std::ostringstream e1, e2; mpz_t c, s; mpz_init(c); mpz_init(s);
		bool g = false, ok = false; std::string exc;
		if (devs.count(i) && devs.at(i).bad_recon && tamper_broadcast()) {
			// every share of another dealer's key polynomial that this party broadcasts (public reconstruction of z_d, 4(c) complaints) is sent as share + 1
			GennaroJareckiKrawczykRabinDKG *kd = nts.dkg; mpz_srcptr q = G.q; size_t nn = n;
			tamper_broadcast()->decide = [kd, q, nn, i](mpz_srcptr pl, mpz_ptr rep) -> int {
				if (mpz_sgn(pl) == 0) return 0;
				for (size_t d = 0; d < nn; d++) if (d != i && mpz_cmp(pl, kd->s_ij[d][i]) == 0) { mpz_add_ui(rep, pl, 1); mpz_mod(rep, rep, q); return 1; }
				return 0; };
		}
		try { g = nts.Generate(aiou, rbc, e1, lib_faulty[i]); if ((g || lib_faulty[i]) && !silent.count(i)) ok = nts.Sign(m, c, s, aiou, rbc, e2, lib_faulty[i]); } catch (std::exception &e) { exc = e.what(); }
		bool v = false; try { v = ok && nts.Verify(m, c, s); } catch (...) {}
		res << "gen=" << g << "\n" << "ret=" << ok << "\n" << "exc=" << exc << "\n" << "c=" << hx(c) << "\n" << "s=" << hx(s) << "\n" << "y=" << hx(nts.y) << "\n" << "verify=" << v << "\n";
		res << "z=" << hx(nts.z_i) << "\n";
		res << "qual="; for (size_t k = 0; k < nts.QUAL.size(); k++) res << (k ? "," : "") << nts.QUAL[k]; res << "\n";
		res << "u62=" << last_logged(e2.str(), ": u_i = ") << "\n";
		res << "complaints=" << last_logged(e2.str(), "there are reconstruction complaints against ") << "\n";
		if (getenv("VERIF_DEBUG")) { std::string l = e1.str() + "|SIGN|" + e2.str(); std::replace(l.begin(), l.end(), '\n', '~'); res << "log=" << l << "\n"; }
	}, devs.empty() ? 0 : &devs, G.q);
	std::string fs; for (size_t i = 0; i < n; i++) fs += faulty[i] ? '1' : '0';
	for (auto &d : devs) fs += " deviation of P" + std::to_string(d.first) + ": " + d.second.str() + " pair=" + std::to_string(d.second.pair_base) + (d.second.bad_recon ? " bad-reconstruction-shares" : "");
	for (size_t sl : silent) fs += " P" + std::to_string(sl) + " silent in Sign";
	std::string ctx = "n=" + std::to_string(n) + " t=" + std::to_string(t) + " faulty=" + fs + " seed=" + std::to_string(seed) + " m=" + hx(m) + " p=" + hx(G.p) + " q=" + hx(G.q) + " g=" + hx(G.g) + " h=" + hx(G.h);
	auto finish = [&]() {
		if (fails.empty()) { for (auto &r : recs) fputs(r.c_str(), stdout); return true; }
		if (FR.timing_trouble(silent)) { fprintf(stderr, "c16: schnorr run inconclusive (time-out expired in the run; %s): %s\n", fails[0].first.c_str(), ctx.c_str()); pending = fails; return false; }
		for (auto &f : fails) verif::propfail(f.first, f.second);
		return true; };
	fprintf(stderr, "c16: schnorr %s wall=%.1fs\n", ctx.substr(0, 48).c_str(), FR.wall);
	if (getenv("VERIF_DEBUG")) { for (size_t i = 0; i < n; i++) fprintf(stderr, "LOG P%zu: %s\n", i, res_get(FR.text[i], "log").c_str()); fprintf(stderr, "ERRLOG: %s\n", FR.errlog.substr(0, 4000).c_str()); }
	if (FR.timed_out) { propfail("schnorr-timeout", "threshold Schnorr run did not finish within the wall-clock limit: " + ctx); mpz_clear(m); return finish(); }
	std::string c0, s0, y0, q0; bool first = true;
	for (size_t i = 0; i < n; i++) if (!faulty[i]) {
		const std::string &R = FR.text[i];
		if (FR.status[i] != 0 || res_get(R, "ret") != "1") { propfail("schnorr-honest-fails", "honest signer " + std::to_string(i) + " failed (status " + std::to_string(FR.status[i]) + " gen=" + res_get(R, "gen") + " ret=" + res_get(R, "ret") + " exc=" + res_get(R, "exc") + "): " + ctx); mpz_clear(m); return finish(); }
		if (first) { c0 = res_get(R, "c"); s0 = res_get(R, "s"); y0 = res_get(R, "y"); q0 = res_get(R, "qual"); first = false; }
		else if (c0 != res_get(R, "c") || s0 != res_get(R, "s") || y0 != res_get(R, "y"))
			propfail("schnorr-signatures-differ", "honest signers hold different results: P" + std::to_string(i) + " (c,s,y)=(" + res_get(R, "c") + "," + res_get(R, "s") + "," + res_get(R, "y") + ") vs (" + c0 + "," + s0 + "," + y0 + "): " + ctx);
		if (res_get(R, "verify") != "1") propfail("schnorr-library-verify", "the library verifier refuses the signature of honest signer " + std::to_string(i) + ": " + ctx);
	}
	if (!first) {
		mpz_t c, s, y, rv; mpz_init(c); mpz_init(s); mpz_init(y); mpz_init(rv);
		mpz_set_str(c, c0.c_str(), 16); mpz_set_str(s, s0.c_str(), 16); mpz_set_str(y, y0.c_str(), 16);
		if (!schnorr_textbook(G, y, m, c, s, rv)) propfail("schnorr-textbook", "the output (c,s)=(" + c0 + "," + s0 + ") does not satisfy c = H(m, g^s y^-c) under y=" + y0 + ": " + ctx);
		if (mpz_sgn(s) < 0 || mpz_cmp(s, G.q) >= 0) propfail("schnorr-s-range", "output s=" + s0 + " not in [0,q): " + ctx);
		RecS(recs, "nts_verify").z(G.p).z(G.q).z(G.g).z(G.h).z(y).z(m).z(c).z(s).t(oracle(G, y, m, c, s)).t("accept");
		// the sum: s = sum over QUAL of (u_i + c z_i), every party's u_i and z_i taken from its own process
		std::vector<std::string> Q = split(q0, ','); std::string zs, us; bool known = true;
		mpz_t u; mpz_init(u);
		for (auto &js : Q) { if (js.empty()) continue; size_t j = strtoul(js.c_str(), 0, 10);
			std::string zj = res_get(FR.text[j], "z"), uj = res_get(FR.text[j], "u62");
			if (zj.empty() || uj.empty() || mpz_set_str(u, uj.c_str(), TMCG_MPZ_IO_BASE) < 0) { known = false; break; }
			zs += (zs.empty() ? "" : ",") + zj; us += (us.empty() ? "" : ",") + hx(u); }
		// (a signer outside QUAL' of the nonce DKG contributes c z_i only; such runs are not recorded)
		// recorded only when every member of QUAL is honest (a deviating member's own view of its shares is not authoritative)
		for (auto &js : Q) { if (!js.empty() && faulty[strtoul(js.c_str(), 0, 10)]) known = false; }
		if (known && !zs.empty()) RecS(recs, "nts_sign").z(G.q).z(c).t(zs).t(us).z(s);
		mpz_clear(u); mpz_clear(c); mpz_clear(s); mpz_clear(y); mpz_clear(rv);
	}
	mpz_clear(m);
	return finish();
}

static bool dss_run_once(std::vector<std::pair<std::string, std::string> > &pending, const Grp &G, size_t n, size_t t, const std::vector<bool> &faulty_in, int mk, bool refresh, uint64_t seed, const std::map<size_t, Deviation> &devs) {
	std::vector<bool> faulty(faulty_in), lib_faulty(faulty_in); for (auto &d : devs) faulty[d.first] = true;
	std::vector<std::pair<std::string, std::string> > fails; std::vector<std::string> recs;
	auto propfail = [&](const std::string &k, const std::string &w) { fails.push_back(std::make_pair(k, w)); };
	mpz_t m; mpz_init(m); msg_value(mk, m, G, true);
	bool anyf = std::find(lib_faulty.begin(), lib_faulty.end(), true) != lib_faulty.end();
	// a silent faulty signer costs one time-out per delivery round (about a hundred rounds): short time-outs for such runs
	// (a scripted signer whose own VSS fails leaves Sign and is silent afterwards: short time-outs, and time-outs against it are expected)
	std::set<size_t> expected_silent; bool dsilent = false; for (auto &d : devs) if (d.second.dss_step) { expected_silent.insert(d.first); if (d.second.dss_mode == 0) dsilent = true; }
	ForkResult FR = fork_parties(n, t, seed, (anyf || dsilent) ? aiounicast::aio_timeout_very_short : aiounicast::aio_timeout_long, anyf ? 600 : 900, [&](size_t i, aiounicast *aiou, CachinKursawePetzoldShoupRBC *rbc, std::ostream &res) {
		CanettiGennaroJareckiKrawczykRabinDSS dss(n, t, i, G.p, G.q, G.g, G.h, mpz_sizeinbase(G.p, 2), mpz_sizeinbase(G.q, 2), false, false);
		std::ostringstream e1, e2, e3, e4; mpz_t r, s, r2, s2; mpz_init(r); mpz_init(s); mpz_init(r2); mpz_init(s2);
		bool g = false, ok = false, rf = false, ok2 = false; std::string exc;
		try {
			g = dss.Generate(aiou, rbc, e1, lib_faulty[i]);
			if (g && devs.count(i) && devs.at(i).dss_step && tamper_broadcast()) {
				// scripted deviation inside Step 1d / 2d of Sign: the RBC identifiers of Sign and of this party's VSS of v_i are recomputed
				// (CachinKursawePetzoldShoupRBC::setID hashes the caller's string and the previous identifier), the party runs honest code
				// and exactly one of its broadcasts is changed
				const Deviation dv = devs.at(i);
				auto nextID = [](const std::string &call, mpz_srcptr last, mpz_ptr out) { std::stringstream x; x << "CachinKursawePetzoldShoupRBC called from [" << call << "] with last ID = " << last; tmcg_mpz_shash(out, x.str()); };
				std::stringstream ss1; ss1 << "CanettiGennaroJareckiKrawczykRabinDSS::Sign()" << dss.p << dss.q << dss.g << dss.h << dss.n << dss.t << n << m;
				mpz_t *ids = new mpz_t[2]; mpz_init(ids[0]); mpz_init(ids[1]);
				nextID(ss1.str(), rbc->ID, ids[0]);
				std::stringstream ss2; ss2 << "PedersenVSS::Share()" << dss.p << dss.q << dss.g << dss.h << n << dss.t << i << (dv.dss_step == 1 ? "v_i_vss" : "vv_i_vss") << "[dealer = " << i << "]";
				nextID(ss2.str(), ids[0], ids[1]);
				struct St { bool seen_vss = false, done = false; std::vector<std::string> seqs; }; St *st = new St();
				mpz_srcptr qq = G.q;
				tamper_broadcast()->decide_full = [ids, st, dv, qq](const std::vector<mpz_srcptr> &msg, mpz_ptr rep) -> int {
					if (mpz_cmp(msg[0], ids[1]) == 0) {                       // inside the own VSS of v_i
						std::string sq = hx(msg[2]); bool first = !st->seen_vss || (!st->seqs.empty() && st->seqs[0] == sq);
						if (!st->seen_vss) { st->seen_vss = true; st->seqs.clear(); st->seqs.push_back(sq); }
						if (dv.dss_mode == 0 && first && st->seqs[0] == sq) { mpz_add_ui(rep, msg[4], 1); return 1; }
						return 0; }
					if (dv.dss_mode == 1 && st->seen_vss && mpz_cmp(msg[0], ids[0]) == 0) {          // Sign's own channel after the VSS phase
						std::string sq = "S" + hx(msg[2]); size_t idx = 0; for (; idx < st->seqs.size(); idx++) if (st->seqs[idx] == sq) break;
						if (idx == st->seqs.size()) st->seqs.push_back(sq);
						// seqs[0] is the VSS marker; own broadcasts on Sign's channel from here: DD, DD', EE, d_i, d'_i, then the responses
						if (idx == 6) { mpz_add_ui(rep, msg[4], 1); mpz_mod(rep, rep, qq); return 1; } }
					return 0; };
			}
			if (g) ok = dss.Sign(n, i, m, r, s, aiou, rbc, e2, lib_faulty[i]);
			if (refresh && g) { rf = dss.Refresh(n, i, aiou, rbc, e3, false); if (rf) ok2 = dss.Sign(n, i, m, r2, s2, aiou, rbc, e4, false); }
		} catch (std::exception &e) { exc = e.what(); }
		bool v = false, v2 = false; try { v = ok && dss.Verify(m, r, s); v2 = ok2 && dss.Verify(m, r2, s2); } catch (...) {}
		res << "gen=" << g << "\n" << "ret=" << ok << "\n" << "exc=" << exc << "\n" << "r=" << hx(r) << "\n" << "s=" << hx(s) << "\n" << "y=" << hx(dss.y) << "\n" << "verify=" << v << "\n";
		res << "x=" << hx(dss.x_i) << "\n";
		// the algebra of the first signing run as this party logged it: its products v_i (steps 1d, 2d), the signers, mu, g^a
		{ const std::string L = e2.str();
		  res << "v1=" << b62hex(nth_logged(L, ": v_i = ", 0)) << "\n" << "v2=" << b62hex(nth_logged(L, ": v_i = ", 1)) << "\n" << "mu=" << b62hex(nth_logged(L, ": mu = ", 0)) << "\n";
		  res << "sg1=" << nth_logged(L, "signers (index from DKG) in Step 1f: ", 0) << "\n" << "sg2=" << nth_logged(L, "signers (index from DKG) in Step 2f: ", 0) << "\n";
		  res << "ga=" << b62hex(nth_logged(L, "DKG(a_dkg): P_" + std::to_string(i) + ": y = ", 0)) << "\n"; }
		res << "qualx="; if (dss.dkg && dss.dkg->x_rvss) for (size_t k = 0; k < dss.dkg->x_rvss->QUAL.size(); k++) res << (k ? "," : "") << dss.dkg->x_rvss->QUAL[k]; res << "\n";
		res << "qual="; for (size_t k = 0; k < dss.QUAL.size(); k++) res << (k ? "," : "") << dss.QUAL[k]; res << "\n";
		res << "refresh=" << rf << "\n" << "ret2=" << ok2 << "\n" << "r2=" << hx(r2) << "\n" << "s2=" << hx(s2) << "\n" << "verify2=" << v2 << "\n";
		{ std::string l = e1.str().substr(e1.str().size() > 600 ? e1.str().size() - 600 : 0) + "|SIGN|" + e2.str().substr((e2.str().size() > 2500 && !getenv("VERIF_DEBUG")) ? e2.str().size() - 2500 : 0); std::replace(l.begin(), l.end(), '\n', '~'); res << "log=" << l << "\n"; }
	}, devs.empty() ? 0 : &devs, G.q, 0, &faulty);
	std::string fs; for (size_t i = 0; i < n; i++) fs += faulty[i] ? '1' : '0';
	for (auto &d : devs) fs += " P" + std::to_string(d.first) + " deviates in Step " + std::to_string(d.second.dss_step) + "d (" + (d.second.dss_mode ? "ZNPoK response" : "VSS commitment") + ")";
	std::string ctx = "n=" + std::to_string(n) + " t=" + std::to_string(t) + " faulty=" + fs + " refresh=" + std::to_string(refresh) + " seed=" + std::to_string(seed) + " m=" + hx(m) + " p=" + hx(G.p) + " q=" + hx(G.q) + " g=" + hx(G.g) + " h=" + hx(G.h);
	auto finish = [&]() {
		if (fails.empty()) { for (auto &r : recs) fputs(r.c_str(), stdout); return true; }
		if (FR.timing_trouble(expected_silent)) { fprintf(stderr, "c16: dss run inconclusive (time-out expired in the run; %s): %s\n", fails[0].first.c_str(), ctx.c_str()); pending = fails; return false; }
		for (auto &f : fails) verif::propfail(f.first, f.second);
		return true; };
	fprintf(stderr, "c16: dss %s wall=%.1fs\n", ctx.substr(0, 56).c_str(), FR.wall);
	if (getenv("VERIF_DEBUG")) { for (size_t i = 0; i < n; i++) fprintf(stderr, "LOG P%zu: %s\n", i, res_get(FR.text[i], "log").c_str()); fprintf(stderr, "ERRLOG: %s\n", FR.errlog.substr(0, 6000).c_str()); }
	if (FR.timed_out) { propfail("dss-timeout", "threshold DSS run did not finish within the wall-clock limit: " + ctx); mpz_clear(m); return finish(); }
	// the key shares of the honest signers (before any refresh) must interpolate to log_g y: C15's statement, checked here because
	// every signature is invalid otherwise
	bool key_mismatch = false;
	if (!refresh) {
		std::vector<size_t> hs; for (size_t i = 0; i < n && hs.size() < t + 1; i++) if (!faulty[i] && res_get(FR.text[i], "ret") == "1") hs.push_back(i);
		if (hs.size() == t + 1) {
			mpz_t x, num, den, xi, y, gx; mpz_init(x); mpz_init(num); mpz_init(den); mpz_init(xi); mpz_init(y); mpz_init(gx);
			for (size_t a : hs) { mpz_set_ui(num, 1); mpz_set_ui(den, 1);
				for (size_t b : hs) if (b != a) { mpz_mul_ui(num, num, b + 1); mpz_set_si(xi, (long)(b + 1) - (long)(a + 1)); mpz_mul(den, den, xi); }
				mpz_mod(den, den, G.q); mpz_invert(den, den, G.q); mpz_mul(num, num, den);
				mpz_set_str(xi, res_get(FR.text[a], "x").c_str(), 16); mpz_mul(num, num, xi); mpz_add(x, x, num); mpz_mod(x, x, G.q); }
			mpz_set_str(y, res_get(FR.text[hs[0]], "y").c_str(), 16); mpz_powm(gx, G.g, x, G.p);
			if (mpz_cmp(gx, y) != 0) { key_mismatch = true;
				propfail("dss-key-share-mismatch", "the honest signers' key shares interpolate to x=" + hx(x) + " with g^x=" + hx(gx) + " but the public key is y=" + hx(y) +
					" (QUAL of the sharing phase {" + res_get(FR.text[hs[0]], "qualx") + "}, final QUAL {" + res_get(FR.text[hs[0]], "qual") + "}); every signature of this run is invalid: " + ctx); }
			mpz_clear(x); mpz_clear(num); mpz_clear(den); mpz_clear(xi); mpz_clear(y); mpz_clear(gx);
		}
	}
	for (int round = 0; round < (refresh ? 2 : 1); round++) {
		const char *kr = round ? "r2" : "r", *ks = round ? "s2" : "s", *kret = round ? "ret2" : "ret", *kv = round ? "verify2" : "verify";
		std::string r0, s0, y0; bool first = true;
		for (size_t i = 0; i < n; i++) if (!faulty[i]) {
			const std::string &R = FR.text[i];
			if (FR.status[i] != 0 || res_get(R, kret) != "1") { propfail("dss-honest-fails", std::string("honest signer ") + std::to_string(i) + (round ? " (after refresh)" : "") + " failed (status " + std::to_string(FR.status[i]) + " gen=" + res_get(R, "gen") + " ret=" + res_get(R, "ret") + " refresh=" + res_get(R, "refresh") + " ret2=" + res_get(R, "ret2") + " exc=" + res_get(R, "exc") + "): " + ctx + " log-tail: " + res_get(R, "log")); mpz_clear(m); return finish(); }
			if (first) { r0 = res_get(R, kr); s0 = res_get(R, ks); y0 = res_get(R, "y"); first = false; }
			else if (r0 != res_get(R, kr) || s0 != res_get(R, ks) || y0 != res_get(R, "y"))
				propfail("dss-signatures-differ", "honest signers hold different results: P" + std::to_string(i) + " (r,s,y)=(" + res_get(R, kr) + "," + res_get(R, ks) + "," + res_get(R, "y") + ") vs (" + r0 + "," + s0 + "," + y0 + "): " + ctx);
			if (res_get(R, kv) != "1" && !key_mismatch) propfail("dss-library-verify", "the library verifier refuses the signature of honest signer " + std::to_string(i) + ": " + ctx);
		}
		if (!first) {
			mpz_t r, s, y; mpz_init(r); mpz_init(s); mpz_init(y);
			mpz_set_str(r, r0.c_str(), 16); mpz_set_str(s, s0.c_str(), 16); mpz_set_str(y, y0.c_str(), 16);
			if (key_mismatch) { mpz_clear(r); mpz_clear(s); mpz_clear(y); continue; }
			if (!dsa_textbook(G, y, m, r, s)) propfail("dss-textbook", std::string("the output (r,s)=(") + r0 + "," + s0 + ")" + (round ? " after refresh" : "") + " is not a valid DSA signature under y=" + y0 + ": " + ctx);
			RecS(recs, "dss_verify").z(G.p).z(G.q).z(G.g).z(G.h).z(y).z(m).z(r).z(s).t("accept");
			if (round == 0) {
				// the signing algebra: mu and s as Lagrange values of the signers' own products, r from g^a and mu
				size_t h0 = 0; while (h0 < n && faulty[h0]) h0++;
				for (int ph = 1; ph <= 2; ph++) {
					std::string sg = res_get(FR.text[h0], ph == 1 ? "sg1" : "sg2"), pts; bool ok = !sg.empty();
					std::istringstream is(sg); std::string tok;
					while (ok && is >> tok) { if (tok.compare(0, 2, "P_")) { ok = false; break; } size_t j = strtoul(tok.c_str() + 2, 0, 10);
						std::string vj = j < n ? res_get(FR.text[j], ph == 1 ? "v1" : "v2") : ""; if (j >= n || faulty[j] || vj.empty()) { ok = false; break; }
						pts += (pts.empty() ? "" : ",") + hx((unsigned long)(j + 1)) + ":" + vj; }
					std::string out = ph == 1 ? res_get(FR.text[h0], "mu") : hx(s);
					if (ok && !pts.empty() && !out.empty()) RecS(recs, "dss_lincomb").z(G.q).t(pts).t(out);
				}
				std::string ga = res_get(FR.text[h0], "ga"), mu = res_get(FR.text[h0], "mu");
				if (!ga.empty() && !mu.empty()) RecS(recs, "dss_r").z(G.p).z(G.q).z(G.g).z(G.h).t(ga).t(mu).z(r);
			}
			mpz_clear(r); mpz_clear(s); mpz_clear(y);
		}
	}
	mpz_clear(m);
	return finish();
}

// a failure of the validity kind (an honest party's output of a completed run does not verify) that repeats in every attempt is
// reported even though time-outs expired in all of them; failures to complete and disagreements under time-outs never are
static bool validity_kind(const std::string &k) { return k.find("key-share-mismatch") != k.npos || k.find("textbook") != k.npos || k.find("library-verify") != k.npos || k.find("s-range") != k.npos; }
template<class F> static void attempts(const char *what, size_t n, F once) {
	std::vector<std::vector<std::pair<std::string, std::string> > > all;
	for (int attempt = 0; attempt < 3; attempt++) { std::vector<std::pair<std::string, std::string> > pend; if (once(attempt, pend)) return; all.push_back(pend);
		// a run that hit the wall-clock limit is not repeated more than once (bounded running time)
		bool wall = false; for (auto &g : pend) if (g.first.find("-timeout") != g.first.npos) wall = true;
		if (wall && attempt >= 1) { fprintf(stderr, "c16: %s n=%zu: wall-clock limit hit twice, giving up (inconclusive)\n", what, n); return; } }
	for (auto &f : all.back()) {
		bool every = validity_kind(f.first);
		for (auto &a : all) { bool has = false; for (auto &g : a) if (g.first == f.first) has = true; every = every && has; }
		if (every) { verif::propfail(f.first, f.second + " [repeated in 3 attempts, all with expired time-outs]"); }
	}
	fprintf(stderr, "c16: %s n=%zu: no conclusive run in 3 attempts\n", what, n);
}
static void schnorr_run(const Grp &G, size_t n, size_t t, const std::vector<bool> &faulty, int mk, uint64_t seed, const std::map<size_t, Deviation> &devs = std::map<size_t, Deviation>(), const std::set<size_t> &silent = std::set<size_t>()) {
	n_sign++;
	attempts("schnorr", n, [&](int attempt, std::vector<std::pair<std::string, std::string> > &pend) { return schnorr_run_once(pend, G, n, t, faulty, mk, seed + 7777 * attempt, devs, silent); });
}
static void dss_run(const Grp &G, size_t n, size_t t, const std::vector<bool> &faulty, int mk, bool refresh, uint64_t seed, const std::map<size_t, Deviation> &devs = std::map<size_t, Deviation>()) {
	n_sign++;
	attempts("dss", n, [&](int attempt, std::vector<std::pair<std::string, std::string> > &pend) { return dss_run_once(pend, G, n, t, faulty, mk, refresh, seed + 7777 * attempt, devs); });
}
// dev >= 0 (Schnorr only): party dev sends a wrong private share to `victims` in the pair_base/2-th sharing (0 = key DKG, 1 = nonce DKG of Sign)
// silent >= 0: that signer takes part in Generate and then stays away from Sign (its key share is reconstructed in public); badrec >= 0: that
// signer broadcasts wrong reconstruction shares
struct Cfg { int kind; size_t n, t; std::vector<size_t> bad; int mk; bool refresh; long dev = -1; std::vector<size_t> victims; size_t pair_base = 0; long silent = -1; long badrec = -1; int dss_step = 0; int dss_mode = 0; };

int main(int argc, char **argv) {
	Args A(argc, argv);
	if (!init_libTMCG()) { fprintf(stderr, "init_libTMCG failed\n"); return 2; }
	const bool T = A.thorough();
	if (A.only.empty() || A.only == "verify") {
		std::vector<std::pair<unsigned, unsigned> > sizes = { {16, 40}, {32, 64}, {40, 96} };
		if (T) { sizes.push_back({64, 128}); sizes.push_back({17, 33}); sizes.push_back({61, 127}); sizes.push_back({96, 192}); sizes.push_back({160, 320}); }
		for (auto &sz : sizes) { Grp G; G.generate(sz.first, sz.second); if (!G.selfcheck()) return 2; verifier_part(G, T); if (sz.first <= 64) reconstruct_units(G, T); }
	}
	if (A.only.empty() || A.only.compare(0, 4, "sign") == 0) {
		unsigned part = 0, parts = 1;
		if (A.only.size() > 5) sscanf(A.only.c_str() + 5, "%u/%u", &part, &parts);
		Grp G; G.generate(32, 64);
		std::vector<Cfg> cfgs;
		auto pick = [&](size_t n, size_t k) { std::vector<size_t> bad; while (bad.size() < k) { size_t c = gen().below(n); if (std::find(bad.begin(), bad.end(), c) == bad.end()) bad.push_back(c); } return bad; };
		if (!T) {
			cfgs.push_back({0, 3, 1, {}, 3, false});
			cfgs.push_back({0, 5, 2, {}, 0, false});
			cfgs.push_back({0, 4, 1, pick(4, 1), 4, false});
			cfgs.push_back({1, 3, 1, {}, 4, false});
			cfgs.push_back({0, 7, 2, {}, 4, false, -1, {}, 0, 6, 0});      // P_6 silent in Sign, P_0 broadcasts a wrong reconstruction share
			{ Cfg c = {1, 4, 1, {}, 2, false}; c.dev = 1; c.dss_step = 2; c.dss_mode = 1; cfgs.push_back(c); }   // DSS: P_1 gives a wrong ZNPoK response inside Step 2d -> Step 2e reconstruction
		} else {
			int mk = 0;
			for (size_t n = 3; n <= 7; n++) { size_t t = (n - 1) / 2;
				cfgs.push_back({0, n, t, {}, mk++, false});
				for (size_t k = 1; k <= t; k++) cfgs.push_back({0, n, t, pick(n, k), mk++, false});
				cfgs.push_back({0, n, 1, pick(n, 1), mk++, false}); }
			for (size_t n = 3; n <= 5; n++) { size_t t = (n - 1) / 2;
				cfgs.push_back({1, n, t, {}, mk++, n == 3}); }
			cfgs.push_back({1, 4, 1, pick(4, 1), mk++, false});
			cfgs.push_back({1, 7, 3, {}, mk++, false});
			// a silent signer forces the public reconstruction of its key share; another signer contributes a wrong reconstruction share;
			// also with the library's fault switch during Generate (reconstruction in the extraction phase of the DKG)
			cfgs.push_back({0, 7, 2, {}, mk++, false, -1, {}, 0, 6, 0});
			cfgs.push_back({0, 5, 2, {}, mk++, false, -1, {}, 0, 2, 0});
			cfgs.push_back({0, 6, 2, {}, mk++, false, -1, {}, 0, 0, 1});
			cfgs.push_back({0, 7, 3, {}, mk++, false, -1, {}, 0, 3, 1});
			cfgs.push_back({0, 5, 2, {3}, mk++, false, -1, {}, 0, -1, 0});
			cfgs.push_back({0, 7, 2, {5}, mk++, false, -1, {}, 0, -1, 0});
			// DSS::Sign: a signer that is correct up to Step 1d resp. 2d and fails there (VSS commitment / ZNPoK response): Steps 1e, 2e
			for (int st = 1; st <= 2; st++) for (int md = 0; md < 2; md++) { if (st == 1 && md == 1) continue;   /* (the response position differs in Step 1d; that run only ran into the wall-clock limit) */ Cfg c = {1, 4, 1, {}, mk++, false}; c.dev = (long)gen().below(4); c.dss_step = st; c.dss_mode = md; cfgs.push_back(c); }
			{ Cfg c = {1, 5, 2, {}, mk++, false}; c.dev = 0; c.dss_step = 2; c.dss_mode = 1; cfgs.push_back(c); }
			// a signer deviating towards a subset only (wrong private share, complaint answered correctly) in the nonce DKG / the key DKG.
			// Observation (docs/C16.md): the victim of such a resolved complaint loses synchronisation in GennaroJareckiKrawczykRabinDKG
			// (stale cached g^s_ij), so these runs end "inconclusive" (an honest signer fails after time-outs); two configurations only.
			{ size_t d = gen().below(4); size_t v; do v = gen().below(4); while (v == d); cfgs.push_back({0, 4, 1, {}, mk++, false, (long)d, {v}, 2}); }
			{ size_t d = gen().below(5); size_t v; do v = gen().below(5); while (v == d); cfgs.push_back({0, 5, 2, {}, mk++, false, (long)d, {v}, 0}); }
		}
		for (size_t ci = 0; ci < cfgs.size(); ci++) { Cfg &c = cfgs[ci];
			std::vector<bool> f(c.n, false); for (size_t b : c.bad) f[b] = true;
			uint64_t sd = gen().next() % 1000000;
			if (ci % parts != part) continue;
			std::map<size_t, Deviation> devs;
			if (c.dev >= 0 && !c.dss_step) { Deviation d; for (size_t v : c.victims) d.wrong.insert(v); d.pair_base = c.pair_base; devs[(size_t)c.dev] = d; }
			if (c.dev >= 0 && c.dss_step) { Deviation d; d.dss_step = c.dss_step; d.dss_mode = c.dss_mode; devs[(size_t)c.dev] = d; }
			if (c.badrec >= 0) { Deviation d; d.bad_recon = true; devs[(size_t)c.badrec] = d; }
			std::set<size_t> silent; if (c.silent >= 0) silent.insert((size_t)c.silent);
			if (c.kind == 0) schnorr_run(G, c.n, c.t, f, c.mk, sd, devs, silent); else dss_run(G, c.n, c.t, f, c.mk, c.refresh, sd, devs); }
	}
	fprintf(stderr, "c16: %lu verifier calls, %lu signing runs\n", n_ver, n_sign);
	return 0;
}
