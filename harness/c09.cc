// C09 correspondence harness: arithmetic primitives of libTMCG against (a) the extracted Coq models
// (REC lines, recomputed by ocaml/drv_C09.ml) and (b) the property itself evaluated on the implementation
// with GMP as the independent reference (PROPFAIL lines).
//   sections (--only):  pow   exhaustive small moduli x bases x exponents (spowm, table powers, invm)
//                       tab   boundary-aimed random cases around the table limits, mid-size moduli
//                       big   implementation-only oracle on realistic sizes (512..2048 bit)
//                       sqrt  all primes below a bound with all residues, CRT roots for products of two
//                       interp polynomial interpolation (small exhaustive + random, colliding abscissae)
//                       prime  generator functions vs their defining relations
//                       conv   mpz <-> gcry_mpi
//                       bigint TMCG_Bigint plain vs secure back end, operation sequences
//   --part i --parts n : shard of the pow / sqrt section (run in parallel by checks/C09.py)
#include "common.hh"
#include <sys/wait.h>
#include <signal.h>
#include <libTMCG.hh>
using namespace verif;

static unsigned PART = 0, PARTS = 1;

// ---------------------------------------------------------------------------------------------
static std::string classify(const std::exception &e) {
	std::string w = e.what();
	if (w.find("p is even") != w.npos) return "even";
	if (w.find("p is zero") != w.npos) return "zeromod";
	if (w.find("wrong base") != w.npos) return "wrongbase";
	if (w.find("exponent too large") != w.npos) return "toolarge";
	if (w.find("mpz_invert failed") != w.npos) return "inv";
	if (w.find("a is zero") != w.npos) return "zero";
	if (w.find("gcd(p,q) not equal 1") != w.npos) return "gcd";
	if (w.find("bad m or q") != w.npos) return "throw";
	std::string r = "other:";
	for (char c : w) r += (c == ' ' ? '_' : c);
	return r;
}

struct Table {
	mpz_t *t;
	Table() { t = new mpz_t[TMCG_MAX_FPOWM_T]; tmcg_mpz_fpowm_init(t); }
	~Table() { tmcg_mpz_fpowm_done(t); delete [] t; }
};

template<class F> static std::string guarded(mpz_ptr res, F f) {
	try { f(); return hx(res); }
	catch (std::exception &e) { return classify(e); }
	catch (...) { return "other:unknown"; }
}

static std::string do_spowm(mpz_ptr r, mpz_srcptr m, mpz_srcptr x, mpz_srcptr p) { return guarded(r, [&]{ tmcg_mpz_spowm(r, m, x, p); }); }
static std::string do_fpowm(Table &T, mpz_ptr r, mpz_srcptr m, mpz_srcptr x, mpz_srcptr p) { return guarded(r, [&]{ tmcg_mpz_fpowm(T.t, r, m, x, p); }); }
static std::string do_fspowm(Table &T, mpz_ptr r, mpz_srcptr m, mpz_srcptr x, mpz_srcptr p) { return guarded(r, [&]{ tmcg_mpz_fspowm(T.t, r, m, x, p); }); }
static std::string do_fpowm_ui(Table &T, mpz_ptr r, mpz_srcptr m, unsigned long x, mpz_srcptr p) { return guarded(r, [&]{ tmcg_mpz_fpowm_ui(T.t, r, m, x, p); }); }

// reference: GMP's mpz_powm (negative exponents need an invertible base); "none" if undefined
static std::string ref_powm(mpz_srcptr m, mpz_srcptr x, mpz_srcptr p) {
	mpz_t g, r; mpz_init(g); mpz_init(r);
	std::string out;
	mpz_gcd(g, m, p);
	if (mpz_sgn(x) < 0 && mpz_cmp_ui(g, 1) != 0) out = "none";
	else { mpz_powm(r, m, x, p); out = hx(r); }
	mpz_clear(g); mpz_clear(r); return out;
}
static bool isnum(const std::string &o) {
	if (o.empty()) return false;
	for (size_t i = 0; i < o.size(); i++) { char c = o[i]; if (!((c >= '0' && c <= '9') || (c >= 'a' && c <= 'f') || (c == '-' && i == 0))) return false; }
	return true;
}
static bool coprime(mpz_srcptr a, mpz_srcptr b) { mpz_t g; mpz_init(g); mpz_gcd(g, a, b); bool r = mpz_cmp_ui(g, 1) == 0; mpz_clear(g); return r; }

static void rec_invm(mpz_srcptr a, mpz_srcptr p) {
	mpz_t r; mpz_init(r);
	int ok = mpz_invert(r, a, p);
	Rec("invm").z(a).z(p).t(ok ? hx(r) : "none");
	mpz_clear(r);
}

// record the observable part of a table: the first n entries and the number of non-zero entries after them
static void rec_table(Table &T, mpz_srcptr m, mpz_srcptr p, unsigned long t) {
	unsigned long n = t + 3; if (n > TMCG_MAX_FPOWM_T) n = TMCG_MAX_FPOWM_T;
	if (n > 24) n = 24;   // keep lines short: head of the table, the window around t, and the tail count
	std::string head, win;
	for (unsigned long i = 0; i < n; i++) { if (i) head += ","; head += hx(T.t[i]); }
	unsigned long lo = t > 3 ? t - 3 : 0, hi = t + 3; if (hi > TMCG_MAX_FPOWM_T) hi = TMCG_MAX_FPOWM_T; if (lo > hi) lo = hi;
	for (unsigned long i = lo; i < hi; i++) { if (i > lo) win += ","; win += hx(T.t[i]); }
	if (win.empty()) win = "_";
	unsigned long nz = 0;
	for (unsigned long i = 0; i < TMCG_MAX_FPOWM_T; i++) if (mpz_sgn(T.t[i])) nz++;
	Rec("fptab").z(m).z(p).u(t).d((long)n).t(head).d((long)lo).d((long)hi).t(win).d((long)nz);
}

// all four table/ct variants on one (table base m0, modulus p, table size t, base m, exponent x); oracle against GMP
static void powm_case(Table &T, mpz_srcptr m0, mpz_srcptr p, unsigned long t, mpz_srcptr m, mpz_srcptr x, bool rec, const char *cls) {
	mpz_t r; mpz_init(r);
	std::string ref = (mpz_sgn(p) > 0) ? ref_powm(m, x, p) : "none";
	bool unit = coprime(m, p), within = mpz_sizeinbase(x, 2) <= t && mpz_sizeinbase(x, 2) <= TMCG_MAX_FPOWM_T && t >= 1;
	bool same = mpz_cmp(m, m0) == 0, big = mpz_cmp_ui(p, 1) > 0;
	std::string o;
	// constant-time power
	o = do_spowm(r, m, x, p);
	if (rec) Rec("spowm").z(m).z(x).z(p).t(o);
	if (mpz_odd_p(p) && unit && o != ref)
		propfail(std::string("spowm-") + cls, "tmcg_mpz_spowm(m=" + hx(m) + ",x=" + hx(x) + ",p=" + hx(p) + ") = " + o + " but m^x mod p = " + ref);
	// table powers
	o = do_fpowm(T, r, m, x, p);
	if (rec) Rec("fpowm").z(m0).z(p).u(t).z(m).z(x).t(o);
	if (same && within && big && (mpz_sgn(x) >= 0 || unit) && o != ref)
		propfail(std::string("fpowm-") + cls, "tmcg_mpz_fpowm(t=" + hx(t) + ",m=" + hx(m) + ",x=" + hx(x) + ",p=" + hx(p) + ") = " + o + " but m^x mod p = " + ref);
	if (!same && o != "wrongbase") propfail(std::string("fpowm-wrongbase-") + cls, "tmcg_mpz_fpowm with base " + hx(m) + " on a table for " + hx(m0) + " returned " + o);
	if (same && mpz_sizeinbase(x, 2) > TMCG_MAX_FPOWM_T && o != "toolarge") propfail(std::string("fpowm-toolarge-") + cls, "exponent of " + hx(mpz_sizeinbase(x, 2)) + " bits returned " + o);
	o = do_fspowm(T, r, m, x, p);
	if (rec) Rec("fspowm").z(m0).z(p).u(t).z(m).z(x).t(o);
	if (same && within && big && unit && o != ref)
		propfail(std::string("fspowm-") + cls, "tmcg_mpz_fspowm(t=" + hx(t) + ",m=" + hx(m) + ",x=" + hx(x) + ",p=" + hx(p) + ") = " + o + " but m^x mod p = " + ref);
	if (!same && o != "wrongbase") propfail(std::string("fspowm-wrongbase-") + cls, "tmcg_mpz_fspowm with base " + hx(m) + " on a table for " + hx(m0) + " returned " + o);
	if (same && mpz_sizeinbase(x, 2) > TMCG_MAX_FPOWM_T && o != "toolarge") propfail(std::string("fspowm-toolarge-") + cls, "exponent of " + hx(mpz_sizeinbase(x, 2)) + " bits returned " + o);
	if (mpz_sgn(x) >= 0 && mpz_fits_ulong_p(x)) {
		unsigned long xu = mpz_get_ui(x);
		o = do_fpowm_ui(T, r, m, xu, p);
		if (rec) Rec("fpowm_ui").z(m0).z(p).u(t).z(m).u(xu).t(o);
		if (same && within && big && o != ref)
			propfail(std::string("fpowm_ui-") + cls, "tmcg_mpz_fpowm_ui(t=" + hx(t) + ",m=" + hx(m) + ",x=" + hx(xu) + ",p=" + hx(p) + ") = " + o + " but m^x mod p = " + ref);
		if (!same && o != "wrongbase") propfail(std::string("fpowm_ui-wrongbase-") + cls, "tmcg_mpz_fpowm_ui with base " + hx(m) + " on a table for " + hx(m0) + " returned " + o);
	}
	mpz_clear(r);
}

// ---- section pow: exhaustive small ------------------------------------------------------------
static void section_pow(const Args &A) {
	const long P = A.thorough() ? 127 : 33, E = A.thorough() ? 300 : 24;
	mpz_t p, m, x, m2; mpz_init(p); mpz_init(m); mpz_init(x); mpz_init(m2);
	unsigned long cnt = 0;
	for (long pi = 1; pi <= P; pi++) {
		if ((unsigned)(pi % PARTS) != PART) continue;
		mpz_set_si(p, pi);
		for (long mi = -2; mi <= pi + 1; mi++) {
			// thorough: all bases for odd moduli; even moduli and out-of-range bases on a subset of exponents
			mpz_set_si(m, mi);
			rec_invm(m, p);
			unsigned long t = 1 + (unsigned long)((pi + mi + 2) % 10);          // table sizes 1..10
			Table T;
			tmcg_mpz_fpowm_precompute(T.t, m, p, t);
			if (mi >= 0 && mi < 3) rec_table(T, m, p, t);
			long step = (pi % 2 == 0 || mi < 0 || mi >= pi) ? 7 : (A.thorough() ? 5 : 1);
			for (long xi = -E; xi <= E; xi += ((xi >= -41 && xi < 40) ? 1 : step)) {
				mpz_set_si(x, xi);
				powm_case(T, m, p, t, m, x, true, "small");
				cnt++;
			}
			// a wrong base on this table (congruent but not equal, and unrelated)
			mpz_add(m2, m, p); mpz_set_si(x, 3); powm_case(T, m, p, t, m2, x, true, "small");
		}
	}
	mpz_clear(p); mpz_clear(m); mpz_clear(x); mpz_clear(m2);
}

// ---- section tab: boundaries of the table machinery ------------------------------------------------
static void gen_modulus(mpz_ptr p, unsigned bits) {
	unsigned sel = gen().below(12);
	if (sel == 0) mpz_set_ui(p, 1 + gen().below(4));                 // 1,2,3,4
	else { gen_bits(p, bits); mpz_setbit(p, bits - 1); if (sel != 1) mpz_setbit(p, 0); }   // sel 1: maybe even
	if (mpz_sgn(p) == 0) mpz_set_ui(p, 1);
}
static void gen_base(mpz_ptr m, mpz_srcptr p) {
	unsigned sel = gen().below(12);
	switch (sel) {
	case 0: mpz_set_ui(m, 0); break;
	case 1: mpz_set_ui(m, 1); break;
	case 2: mpz_sub_ui(m, p, 1); break;
	case 3: mpz_set(m, p); break;                                     // = 0 mod p but not equal 0
	case 4: gen_below(m, p); mpz_add(m, m, p); break;                 // unreduced
	case 5: gen_below(m, p); mpz_neg(m, m); break;                    // negative
	case 6: { // shares a factor with p (if p composite) : multiple of a small prime
		gen_below(m, p); static const unsigned sp[] = {3,5,7,11,13}; mpz_mul_ui(m, m, sp[gen().below(5)]); mpz_mod(m, m, p); break; }
	default: gen_below(m, p); break;
	}
}
// exponent with exactly `bits` bits (bits = 0: zero)
static void gen_exp(mpz_ptr x, unsigned long bits) {
	if (bits == 0) { mpz_set_ui(x, 0); return; }
	unsigned sel = gen().below(4);
	if (sel == 0) { mpz_set_ui(x, 0); mpz_setbit(x, bits - 1); }                    // 2^(bits-1)
	else if (sel == 1) { mpz_set_ui(x, 0); mpz_setbit(x, bits); mpz_sub_ui(x, x, 1); } // 2^bits - 1
	else { gen_bits(x, bits); mpz_setbit(x, bits - 1); }
}
static void section_tab(const Args &A) {
	const unsigned N = A.thorough() ? 1500 : 150;
	static const unsigned long TS[] = { 1, 2, 3, 8, 16, 63, 64, 65, 160, 2047, 2048, 2049, 3000, 0 };
	mpz_t p, m, m2, x; mpz_init(p); mpz_init(m); mpz_init(m2); mpz_init(x);
	for (unsigned i = 0; i < N; i++) {
		static const unsigned PB[] = { 2, 3, 5, 8, 16, 31, 32, 33, 63, 64, 65, 96, 128 };
		gen_modulus(p, PB[gen().below(sizeof(PB) / sizeof(PB[0]))]);
		gen_base(m, p);
		unsigned long t = TS[gen().below(sizeof(TS) / sizeof(TS[0]))];
		Table T;
		tmcg_mpz_fpowm_precompute(T.t, m, p, t);
		rec_table(T, m, p, t);
		rec_invm(m, p);
		// exponent lengths around t, around the global limit, and small ones
		unsigned long lens[] = { 0, 1, 2, t ? t - 1 : 0, t, t + 1, (unsigned long)TMCG_MAX_FPOWM_T - 1, (unsigned long)TMCG_MAX_FPOWM_T,
			(unsigned long)TMCG_MAX_FPOWM_T + 1, 1 + gen().below(70), 1 + gen().below(t + 1) };
		for (unsigned long L : lens) {
			if (L > TMCG_MAX_FPOWM_T + 1) L = TMCG_MAX_FPOWM_T + 1;
			gen_exp(x, L);
			if (gen().below(3) == 0) mpz_neg(x, x);
			powm_case(T, m, p, t, m, x, true, "tab");
		}
		// wrong bases
		mpz_add(m2, m, p); gen_exp(x, 1 + gen().below(8)); powm_case(T, m, p, t, m2, x, true, "tab");
		mpz_add_ui(m2, m, 1); powm_case(T, m, p, t, m2, x, true, "tab");
	}
	// p = 0: precompute throws (fix c237514)
	{ Table T; mpz_set_ui(p, 0); mpz_set_ui(m, 5); std::string o;
	  try { tmcg_mpz_fpowm_precompute(T.t, m, p, 4); o = "ok"; } catch (std::exception &e) { o = classify(e); }
	  Rec("fpre0").z(m).z(p).u(4).t(o); }
	mpz_clear(p); mpz_clear(m); mpz_clear(m2); mpz_clear(x);
}

// ---- section big: implementation-only oracle on realistic sizes ----------------------------------
static void section_big(const Args &A) {
	const unsigned N = A.thorough() ? 160 : 24;
	mpz_t p, m, x, q; mpz_init(p); mpz_init(m); mpz_init(x); mpz_init(q);
	for (unsigned i = 0; i < N; i++) {
		static const unsigned PB[] = { 256, 512, 1024, 2048, 3072 };
		unsigned pb = PB[gen().below(5)];
		gen_bits(p, pb); mpz_setbit(p, pb - 1); mpz_setbit(p, 0);
		if (gen().below(3) == 0) mpz_nextprime(p, p);
		do gen_below(m, p); while (!coprime(m, p));
		unsigned long t = (gen().below(3) == 0) ? 160 + gen().below(100) : (pb > TMCG_MAX_FPOWM_T ? TMCG_MAX_FPOWM_T : pb);
		Table T;
		tmcg_mpz_fpowm_precompute(T.t, m, p, t);
		for (unsigned k = 0; k < 6; k++) {
			unsigned long L = (k == 0) ? t : (k == 1 ? t - 1 : 1 + gen().below(t));
			gen_exp(x, L);
			if (k >= 4) mpz_neg(x, x);
			powm_case(T, m, p, t, m, x, false, "big");
		}
		// constant-time power with exponents longer than any table
		gen_exp(x, pb); if (gen().coin()) mpz_neg(x, x);
		mpz_t r; mpz_init(r);
		std::string o = do_spowm(r, m, x, p), ref = ref_powm(m, x, p);
		if (o != ref) propfail("spowm-big", "tmcg_mpz_spowm(m=" + hx(m) + ",x=" + hx(x) + ",p=" + hx(p) + ") = " + o + " but m^x mod p = " + ref);
		mpz_clear(r);
	}
	mpz_clear(p); mpz_clear(m); mpz_clear(x); mpz_clear(q);
}

// ---- section sqrt -----------------------------------------------------------------------------------
static std::string do_sqrtmp(mpz_ptr r, mpz_srcptr a, mpz_srcptr p, bool randomized) {
	return guarded(r, [&]{ if (randomized) tmcg_mpz_sqrtmp_r(r, a, p); else tmcg_mpz_sqrtmp(r, a, p); });
}
static void smallest_nqr(mpz_ptr b, mpz_srcptr p) { mpz_set_ui(b, 2); while (mpz_jacobi(b, p) != -1) mpz_add_ui(b, b, 1); }
// the non-residue tmcg_mpz_sqrtmp_r will draw when the library RNG is seeded with s
static void drawn_nqr(mpz_ptr b, mpz_srcptr p, uint64_t s) { reseed_lib(s); do tmcg_mpz_wrandomm(b, p); while (mpz_jacobi(b, p) != -1); }

static bool squares_to(mpz_srcptr r, mpz_srcptr a, mpz_srcptr n) {
	mpz_t s, am; mpz_init(s); mpz_init(am);
	mpz_mul(s, r, r); mpz_mod(s, s, n); mpz_mod(am, a, n);
	bool ok = mpz_cmp(s, am) == 0; mpz_clear(s); mpz_clear(am); return ok;
}

static void sqrtmp_case(mpz_srcptr a, mpz_srcptr p, bool rec, const char *cls) {
	mpz_t r, b, br; mpz_init(r); mpz_init(b); mpz_init(br);
	bool qr = mpz_jacobi(a, p) == 1;
	bool need = mpz_fdiv_ui(p, 4) == 1;
	if (need) smallest_nqr(b, p);
	std::string o = do_sqrtmp(r, a, p, false);
	if (rec) Rec("sqrtmp").z(a).z(p).z(b).t(o);
	if (qr && (!isnum(o) || !squares_to(r, a, p))) propfail(std::string("sqrtmp-") + cls, "tmcg_mpz_sqrtmp(a=" + hx(a) + ",p=" + hx(p) + ") = " + o + " does not square to a");
	uint64_t s = gen().next();
	if (need) drawn_nqr(br, p, s);
	reseed_lib(s);
	o = do_sqrtmp(r, a, p, true);
	if (rec) Rec("sqrtmp").z(a).z(p).z(br).t(o);
	if (qr && (!isnum(o) || !squares_to(r, a, p))) propfail(std::string("sqrtmp_r-") + cls, "tmcg_mpz_sqrtmp_r(a=" + hx(a) + ",p=" + hx(p) + ") = " + o + " does not square to a");
	mpz_clear(r); mpz_clear(b); mpz_clear(br);
}

// square roots modulo n = p*q through every entry point; a must be a residue modulo both for the oracle
static void sqrtmn_case(mpz_srcptr a, mpz_srcptr p, mpz_srcptr q, bool rec, const char *cls) {
	mpz_t n, g, u, v, bp, bq, r, r1, r2, r3, r4; mpz_init(n); mpz_init(g); mpz_init(u); mpz_init(v); mpz_init(bp); mpz_init(bq);
	mpz_init(r); mpz_init(r1); mpz_init(r2); mpz_init(r3); mpz_init(r4);
	mpz_mul(n, p, q);
	mpz_gcdext(g, u, v, p, q);
	bool qr = tmcg_mpz_qrmn_p(a, p, q) && mpz_cmp_ui(g, 1) == 0;
	if (mpz_fdiv_ui(p, 4) == 1) smallest_nqr(bp, p);
	if (mpz_fdiv_ui(q, 4) == 1) smallest_nqr(bq, q);
	std::string o = guarded(r, [&]{ tmcg_mpz_sqrtmn(r, a, p, q, n); });
	if (rec) Rec("sqrtmn").z(a).z(p).z(q).z(n).z(u).z(v).z(bp).z(bq).t(o);
	if (qr && (!isnum(o) || !squares_to(r, a, n))) propfail(std::string("sqrtmn-") + cls, "tmcg_mpz_sqrtmn(a=" + hx(a) + ",p=" + hx(p) + ",q=" + hx(q) + ") = " + o + " does not square to a");
	std::string o4;
	try { tmcg_mpz_sqrtmn_all(r1, r2, r3, r4, a, p, q, n); o4 = hx(r1) + "," + hx(r2) + "," + hx(r3) + "," + hx(r4); } catch (std::exception &e) { o4 = classify(e); }
	if (rec) Rec("sqrtmn_all").z(a).z(p).z(q).z(n).z(u).z(v).z(bp).z(bq).t(o4);
	if (qr) {
		bool ok = o4.find(',') != o4.npos && squares_to(r1, a, n) && squares_to(r2, a, n) && squares_to(r3, a, n) && squares_to(r4, a, n);
		// four distinct roots when a is a unit
		if (ok && coprime(a, n)) { mpz_t t1; mpz_init(t1);
			mpz_srcptr rs[4] = { r1, r2, r3, r4 };
			for (int i = 0; i < 4 && ok; i++) for (int j = i + 1; j < 4; j++) { mpz_sub(t1, rs[i], rs[j]); if (mpz_divisible_p(t1, n)) ok = false; }
			mpz_clear(t1); }
		if (!ok) propfail(std::string("sqrtmn_all-") + cls, "tmcg_mpz_sqrtmn_all(a=" + hx(a) + ",p=" + hx(p) + ",q=" + hx(q) + ") = " + o4 + ": not four distinct square roots of a");
	}
	// randomized variants (implementation oracle only, plus model comparison with the drawn non-residues)
	{ uint64_t s = gen().next(); mpz_t cp, cq; mpz_init(cp); mpz_init(cq);
	  // replicate the draws in the order of the code: first modulo p, then modulo q (only where the code draws)
	  // the code draws only in some branches; reproduce by running the single roots with the same stream
	  reseed_lib(s);
	  std::string o = guarded(r, [&]{ tmcg_mpz_sqrtmn_r(r, a, p, q, n); });
	  if (qr && (!isnum(o) || !squares_to(r, a, n))) propfail(std::string("sqrtmn_r-") + cls, "tmcg_mpz_sqrtmn_r(a=" + hx(a) + ",p=" + hx(p) + ",q=" + hx(q) + ") = " + o + " does not square to a");
	  reseed_lib(s);
	  try { tmcg_mpz_sqrtmn_r_all(r1, r2, r3, r4, a, p, q, n);
	    if (qr && !(squares_to(r1, a, n) && squares_to(r2, a, n) && squares_to(r3, a, n) && squares_to(r4, a, n)))
	      propfail(std::string("sqrtmn_r_all-") + cls, "tmcg_mpz_sqrtmn_r_all(a=" + hx(a) + ",p=" + hx(p) + ",q=" + hx(q) + "): a root does not square to a");
	  } catch (std::exception &e) { if (qr) propfail(std::string("sqrtmn_r_all-") + cls, std::string("threw ") + e.what()); }
	  mpz_clear(cp); mpz_clear(cq); }
	// Blum fast path with the precomputations of TMCG_SecretKey
	if (mpz_fdiv_ui(p, 4) == 3 && mpz_fdiv_ui(q, 4) == 3 && mpz_cmp_ui(g, 1) == 0) {
		mpz_t up, vq, pa, qa; mpz_init(up); mpz_init(vq); mpz_init(pa); mpz_init(qa);
		mpz_mul(up, u, p); mpz_mul(vq, v, q);
		mpz_add_ui(pa, p, 1); mpz_fdiv_q_2exp(pa, pa, 2); mpz_add_ui(qa, q, 1); mpz_fdiv_q_2exp(qa, qa, 2);
		tmcg_mpz_sqrtmn_fast(r, a, p, q, n, up, vq, pa, qa);
		if (rec) Rec("sqrtmn_fast").z(a).z(p).z(q).z(n).z(up).z(vq).z(pa).z(qa).z(r);
		if (qr && !squares_to(r, a, n)) propfail(std::string("sqrtmn_fast-") + cls, "tmcg_mpz_sqrtmn_fast(a=" + hx(a) + ",p=" + hx(p) + ",q=" + hx(q) + ") = " + hx(r) + " does not square to a");
		tmcg_mpz_sqrtmn_fast_all(r1, r2, r3, r4, a, p, q, n, up, vq, pa, qa);
		if (rec) Rec("sqrtmn_fast_all").z(a).z(p).z(q).z(n).z(up).z(vq).z(pa).z(qa).t(hx(r1) + "," + hx(r2) + "," + hx(r3) + "," + hx(r4));
		if (qr && !(squares_to(r1, a, n) && squares_to(r2, a, n) && squares_to(r3, a, n) && squares_to(r4, a, n)))
			propfail(std::string("sqrtmn_fast_all-") + cls, "tmcg_mpz_sqrtmn_fast_all(a=" + hx(a) + ",p=" + hx(p) + ",q=" + hx(q) + "): a root does not square to a");
		mpz_clear(up); mpz_clear(vq); mpz_clear(pa); mpz_clear(qa);
	}
	mpz_clear(n); mpz_clear(g); mpz_clear(u); mpz_clear(v); mpz_clear(bp); mpz_clear(bq);
	mpz_clear(r); mpz_clear(r1); mpz_clear(r2); mpz_clear(r3); mpz_clear(r4);
}

// tmcg_mpz_sqrtmp_fast with the precomputations spelled out (implementation oracle only)
static void sqrtmp_fast_case(mpz_srcptr a, mpz_srcptr p, const char *cls) {
	mpz_t r, nqr, pa1d4, ps1d4, pa3d8, nq; mpz_init(r); mpz_init(nqr); mpz_init(pa1d4); mpz_init(ps1d4); mpz_init(pa3d8); mpz_init(nq);
	smallest_nqr(nqr, p);
	mpz_add_ui(pa1d4, p, 1); mpz_fdiv_q_2exp(pa1d4, pa1d4, 2);
	mpz_sub_ui(ps1d4, p, 1); mpz_fdiv_q_2exp(ps1d4, ps1d4, 2);
	mpz_add_ui(pa3d8, p, 3); mpz_fdiv_q_2exp(pa3d8, pa3d8, 3);
	mpz_powm(nq, nqr, ps1d4, p);
	std::string o = guarded(r, [&]{ tmcg_mpz_sqrtmp_fast(r, a, p, nqr, pa1d4, ps1d4, pa3d8, nq); });
	if (mpz_jacobi(a, p) == 1 && (!isnum(o) || !squares_to(r, a, p))) propfail(std::string("sqrtmp_fast-") + cls, "tmcg_mpz_sqrtmp_fast(a=" + hx(a) + ",p=" + hx(p) + ") = " + o + " does not square to a");
	mpz_clear(r); mpz_clear(nqr); mpz_clear(pa1d4); mpz_clear(ps1d4); mpz_clear(pa3d8); mpz_clear(nq);
}

// The prime 2 (guard added by fix 03c88a4: every residue is its own square root).  Before the fix the 1 (mod 8) branch was
// entered with s = 0 and never left its first loop, so this block runs in a child process with an alarm: a child that does
// not come back is reported as PROPFAIL (the records it printed so far are lost, the parent prints a "diverge" record).
static void sqrt_p2_block() {
	mpz_t r, a, p, q, n, g, u, v, bq, z, r1, r2, r3, r4;
	mpz_init(r); mpz_init(a); mpz_init_set_ui(p, 2); mpz_init(q); mpz_init(n); mpz_init(g); mpz_init(u); mpz_init(v); mpz_init(bq); mpz_init(z);
	mpz_init(r1); mpz_init(r2); mpz_init(r3); mpz_init(r4);
	static const long AS[] = { 1, 0, 2, 3, 5, 8, -1, -2, 1000001 };
	for (long ai : AS) {
		mpz_set_si(a, ai);
		for (int variant = 0; variant < 3; variant++) {
			std::string o = guarded(r, [&]{
				if (variant == 0) tmcg_mpz_sqrtmp(r, a, p);
				else if (variant == 1) tmcg_mpz_sqrtmp_r(r, a, p);
				else tmcg_mpz_sqrtmp_fast(r, a, p, z, z, z, z, z); });      // precomputations are not consulted for p = 2
			if (variant < 2) Rec("sqrtmp").z(a).z(p).z(z).t(o);
			if (!isnum(o) || !squares_to(r, a, p) || mpz_sgn(r) < 0 || mpz_cmp(r, p) >= 0)
				propfail("sqrtmp-modulus-2", std::string("square root modulo the prime 2, variant ") + (variant == 0 ? "sqrtmp" : variant == 1 ? "sqrtmp_r" : "sqrtmp_fast") + ", a=" + hx(a) + " gives " + o);
		}
	}
	// n = 2*q and q*2
	static const unsigned long QS[] = { 3, 5, 7, 17, 41 };
	for (unsigned long qv : QS) for (int swap = 0; swap < 2; swap++) for (unsigned long y = 1; y < 2 * qv; y += 1 + qv / 3) {
		mpz_set_ui(q, qv); mpz_mul_ui(n, q, 2);
		mpz_set_ui(a, y * y % (2 * qv)); if (mpz_sgn(a) == 0 || mpz_divisible_p(a, q)) continue;
		mpz_srcptr P = swap ? q : p, Q = swap ? p : q;
		mpz_gcdext(g, u, v, P, Q);
		mpz_set_ui(bq, 0); if (qv % 4 == 1) smallest_nqr(bq, q);
		std::string o = guarded(r, [&]{ tmcg_mpz_sqrtmn(r, a, P, Q, n); });
		Rec("sqrtmn").z(a).z(P).z(Q).z(n).z(u).z(v).z(swap ? bq : z).z(swap ? z : bq).t(o);
		if (!isnum(o) || !squares_to(r, a, n)) propfail("sqrtmn-modulus-2", "tmcg_mpz_sqrtmn(a=" + hx(a) + ",p=" + hx(P) + ",q=" + hx(Q) + ") = " + o + " does not square to a");
		std::string o4;
		try { tmcg_mpz_sqrtmn_all(r1, r2, r3, r4, a, P, Q, n); o4 = hx(r1) + "," + hx(r2) + "," + hx(r3) + "," + hx(r4); } catch (std::exception &e) { o4 = classify(e); }
		Rec("sqrtmn_all").z(a).z(P).z(Q).z(n).z(u).z(v).z(swap ? bq : z).z(swap ? z : bq).t(o4);
		if (o4.find(',') == o4.npos || !(squares_to(r1, a, n) && squares_to(r2, a, n) && squares_to(r3, a, n) && squares_to(r4, a, n)))
			propfail("sqrtmn-modulus-2", "tmcg_mpz_sqrtmn_all(a=" + hx(a) + ",p=" + hx(P) + ",q=" + hx(Q) + ") = " + o4 + ": a root does not square to a");
	}
}
static void sqrt_p2_probe() {
	fflush(stdout);
	pid_t pid = fork();
	if (pid == 0) {
		alarm(20);
		sqrt_p2_block();
		fflush(stdout);
		_exit(0);
	}
	int st = 0; waitpid(pid, &st, 0);
	if (!(WIFEXITED(st) && WEXITSTATUS(st) == 0)) {
		printf("REC sqrtmp 1 2 0 diverge\n");
		propfail("sqrtmp-modulus-2", (WIFSIGNALED(st) && WTERMSIG(st) == SIGALRM)
			? "a square root modulo the prime 2 (tmcg_mpz_sqrtmp/_r/_fast, a in {1,0,2,3,...}) does not return within 20 s"
			: "the block of square roots modulo the prime 2 ended abnormally");
	}
}

static void section_sqrt(const Args &A) {
	const unsigned long B = A.thorough() ? 2048 : 260;
	mpz_t p, q, a; mpz_init(p); mpz_init(q); mpz_init(a);
	std::vector<unsigned long> primes;
	for (mpz_set_ui(p, 3); mpz_cmp_ui(p, B) < 0; mpz_nextprime(p, p)) primes.push_back(mpz_get_ui(p));
	if (PART == 0) sqrt_p2_probe();
	// all primes below the bound, all non-zero a (residues: oracle + model; non-residues: model only, every 3rd)
	for (size_t i = 0; i < primes.size(); i++) {
		if ((unsigned)(i % PARTS) != PART) continue;
		mpz_set_ui(p, primes[i]);
		for (unsigned long ai = 1; ai < primes[i]; ai++) {
			mpz_set_ui(a, ai);
			bool qr = mpz_jacobi(a, p) == 1;
			if (!qr && (ai % 3)) continue;
			sqrtmp_case(a, p, true, "small");
			if (qr && ai % 5 == 0) sqrtmp_fast_case(a, p, "small");
		}
		// unreduced, negative and zero arguments
		mpz_set_ui(a, 0); sqrtmp_case(a, p, true, "small");
		mpz_set(a, p); sqrtmp_case(a, p, true, "small");
		mpz_set_ui(a, 4); mpz_add(a, a, p); sqrtmp_case(a, p, true, "small");
		mpz_set_si(a, -1); if (mpz_jacobi(a, p) == 1) sqrtmp_case(a, p, true, "small");
	}
	// products of two primes: every pair below a smaller bound, a few squares each
	const unsigned long B2 = A.thorough() ? 200 : 60;
	size_t pairidx = 0;
	for (size_t i = 0; i < primes.size() && primes[i] < B2; i++)
		for (size_t j = 0; j < primes.size() && primes[j] < B2; j++) {
			if (i == j) continue;
			if ((unsigned)(pairidx++ % PARTS) != PART) continue;
			mpz_set_ui(p, primes[i]); mpz_set_ui(q, primes[j]);
			unsigned long n = primes[i] * primes[j];
			for (unsigned k = 0; k < 4; k++) {
				unsigned long y = 1 + gen().below(n - 1);
				mpz_set_ui(a, y); mpz_mul(a, a, a); mpz_mod_ui(a, a, n);
				if (mpz_sgn(a) == 0) continue;
				sqrtmn_case(a, p, q, true, "small");
			}
		}
	// primes 1 (mod 8) with high 2-adic order and mid-size primes of every class
	if (PART == 0) {
		static const char *HP[] = { "257", "769", "12289", "40961", "65537", "786433", "5767169", "7340033", "23068673", "469762049",
			"2013265921", "3221225473", "4179340454199820289", "18446744069414584321", "1945555039024054273",
			"340282366920938463463374607431768211507" /* 2^128+51 */, "0" };
		for (int i = 0; HP[i][0] != '0'; i++) {
			mpz_set_str(p, HP[i], 10);
			if (!mpz_probab_prime_p(p, 30)) continue;
			for (unsigned k = 0; k < (A.thorough() ? 60u : 12u); k++) {
				gen_below(a, p); if (mpz_sgn(a) == 0) continue;
				if (k % 2 == 0) { mpz_mul(a, a, a); mpz_mod(a, a, p); if (mpz_sgn(a) == 0) continue; }
				// elements of small 2-power order: a = w^(2^j * odd part) hits the early exits of the first loop
				if (k % 5 == 4) { mpz_t e; mpz_init(e); mpz_sub_ui(e, p, 1); unsigned long tw = mpz_scan1(e, 0);
					mpz_fdiv_q_2exp(e, e, tw); mpz_mul_2exp(e, e, gen().below(tw)); mpz_powm(a, a, e, p); mpz_clear(e); if (mpz_sgn(a) == 0) continue; }
				sqrtmp_case(a, p, true, "special");
				sqrtmp_fast_case(a, p, "special");
			}
		}
		for (unsigned k = 0; k < (A.thorough() ? 300u : 40u); k++) {
			unsigned bits = 16 + gen().below(112);
			gen_bits(p, bits); mpz_setbit(p, bits - 1); mpz_nextprime(p, p);
			gen_bits(q, bits); mpz_setbit(q, bits - 1); mpz_nextprime(q, q);
			if (mpz_cmp(p, q) == 0) continue;
			gen_below(a, p); mpz_mul(a, a, a); mpz_mod(a, a, p); if (mpz_sgn(a) == 0) continue;
			sqrtmp_case(a, p, true, "mid");
			mpz_t n; mpz_init(n); mpz_mul(n, p, q); gen_below(a, n); mpz_mul(a, a, a); mpz_mod(a, a, n);
			if (mpz_sgn(a)) sqrtmn_case(a, p, q, true, "mid");
			mpz_clear(n);
		}
		// realistic sizes: implementation oracle only
		for (unsigned k = 0; k < (A.thorough() ? 12u : 3u); k++) {
			unsigned bits = 512 + 256 * gen().below(3);
			gen_bits(p, bits); mpz_setbit(p, bits - 1); mpz_nextprime(p, p);
			gen_bits(q, bits); mpz_setbit(q, bits - 1); mpz_nextprime(q, q);
			mpz_t n; mpz_init(n); mpz_mul(n, p, q); gen_below(a, n); mpz_mul(a, a, a); mpz_mod(a, a, n);
			if (mpz_sgn(a)) { sqrtmn_case(a, p, q, false, "big"); mpz_mod(a, a, p); if (mpz_sgn(a)) { sqrtmp_case(a, p, false, "big"); sqrtmp_fast_case(a, p, "big"); } }
			mpz_clear(n);
		}
	}
	mpz_clear(p); mpz_clear(q); mpz_clear(a);
}

// ---- section interp ----------------------------------------------------------------------------------
static void interp_case(const std::vector<long> &as, const std::vector<long> &bs, mpz_srcptr q, bool rec, const char *cls,
                        const std::vector<std::string> *abig = 0, const std::vector<std::string> *bbig = 0) {
	size_t m = abig ? abig->size() : as.size();
	std::vector<mpz_ptr> a, b, f;
	for (size_t k = 0; k < m; k++) {
		mpz_ptr t1 = new mpz_t(), t2 = new mpz_t(), t3 = new mpz_t(); mpz_init(t1); mpz_init(t2); mpz_init(t3);
		if (abig) { mpz_set_str(t1, (*abig)[k].c_str(), 16); mpz_set_str(t2, (*bbig)[k].c_str(), 16); }
		else { mpz_set_si(t1, as[k]); mpz_set_si(t2, bs[k]); }
		a.push_back(t1); b.push_back(t2); f.push_back(t3);
	}
	std::string o; bool ret = false, threw = false;
	try { ret = tmcg_interpolate_polynom(a, b, q, f); } catch (std::exception &e) { o = classify(e); threw = true; }
	if (!threw) {
		if (!ret) o = "false";
		else { o = ""; for (size_t k = 0; k < m; k++) { if (k) o += ","; o += hx(f[k]); } }
	}
	std::string pa, pb;
	for (size_t k = 0; k < m; k++) { if (k) { pa += ","; pb += ","; } pa += hx(a[k]); pb += hx(b[k]); }
	if (m == 0) { pa = "_"; pb = "_"; }
	if (rec) Rec("interp").t(pa).t(pb).z(q).t(o);
	// oracle: q prime. distinct abscissae (mod q) -> true and f(a_k) = b_k (mod q), deg < m, coefficients reduced;
	// colliding abscissae -> false
	if (m > 0 && mpz_probab_prime_p(q, 30)) {
		bool coll = false; mpz_t d, ev; mpz_init(d); mpz_init(ev);
		for (size_t i = 0; i < m; i++) for (size_t j = i + 1; j < m; j++) { mpz_sub(d, a[i], a[j]); if (mpz_divisible_p(d, q)) coll = true; }
		if (coll) { if (threw || ret) propfail(std::string("interp-collision-") + cls, "colliding abscissae a=" + pa + " q=" + hx(q) + " returned " + o + " instead of false"); }
		else if (threw || !ret) propfail(std::string("interp-") + cls, "distinct abscissae a=" + pa + " b=" + pb + " q=" + hx(q) + " returned " + o);
		else for (size_t k = 0; k < m; k++) {
			mpz_set_ui(ev, 0);
			for (size_t i = m; i-- > 0; ) { mpz_mul(ev, ev, a[k]); mpz_add(ev, ev, f[i]); mpz_mod(ev, ev, q); }
			mpz_sub(d, ev, b[k]);
			if (!mpz_divisible_p(d, q)) { propfail(std::string("interp-") + cls, "a=" + pa + " b=" + pb + " q=" + hx(q) + " f=" + o + ": f(a_" + std::to_string(k) + ") != b_" + std::to_string(k)); break; }
		}
		mpz_clear(d); mpz_clear(ev);
	}
	for (size_t k = 0; k < m; k++) { mpz_clear(a[k]); mpz_clear(b[k]); mpz_clear(f[k]); delete [] a[k]; delete [] b[k]; delete [] f[k]; }
}

static void section_interp(const Args &A) {
	mpz_t q; mpz_init(q);
	static const unsigned long QS[] = { 2, 3, 5, 7, 11, 13 };
	const size_t MAXM = A.thorough() ? 4 : 3;
	const unsigned nq = A.thorough() ? 6 : 4;
	// all abscissa tuples of size <= MAXM modulo small primes (incl. collisions), pseudo-random ordinates
	for (unsigned qi = 0; qi < nq; qi++) {
		unsigned long qv = QS[qi]; mpz_set_ui(q, qv);
		for (size_t m = 1; m <= MAXM; m++) {
			unsigned long total = 1; for (size_t k = 0; k < m; k++) total *= qv;
			if (total > 30000) continue;
			for (unsigned long idx = 0; idx < total; idx++) {
				std::vector<long> as, bs; unsigned long v = idx;
				for (size_t k = 0; k < m; k++) { as.push_back((long)(v % qv)); v /= qv; bs.push_back((long)gen().below(qv)); }
				interp_case(as, bs, q, true, "small");
			}
		}
	}
	// sizes up to 8, unreduced / negative points, 8..64 bit primes, forced collisions
	const unsigned N = A.thorough() ? 3000 : 300;
	for (unsigned i = 0; i < N; i++) {
		unsigned bits = 3 + gen().below(62);
		gen_bits(q, bits); mpz_setbit(q, bits - 1); mpz_nextprime(q, q);
		size_t m = 1 + gen().below(8);
		std::vector<std::string> as, bs; mpz_t t; mpz_init(t);
		for (size_t k = 0; k < m; k++) {
			gen_below(t, q); unsigned sel = gen().below(10);
			if (sel == 0) mpz_add(t, t, q); else if (sel == 1) mpz_neg(t, t); else if (sel == 2) mpz_set_ui(t, 0);
			as.push_back(hx(t));
			gen_below(t, q); sel = gen().below(10);
			if (sel == 0) mpz_add(t, t, q); else if (sel == 1) mpz_neg(t, t);
			bs.push_back(hx(t));
		}
		if (m > 1 && gen().below(6) == 0) { // collision: equal or congruent
			size_t i1 = gen().below(m), i2 = gen().below(m);
			if (i1 != i2) { if (gen().coin()) as[i2] = as[i1]; else { mpz_set_str(t, as[i1].c_str(), 16); mpz_add(t, t, q); as[i2] = hx(t); } }
		}
		mpz_clear(t);
		interp_case(std::vector<long>(), std::vector<long>(), q, true, "random", &as, &bs);
	}
	// leading points that already lie on the interpolant of their predecessors (zero correction term in round k: b[0] = 0,
	// b[1] = b[0], three collinear points, ... ), followed by points that do not: every round must still update the
	// auxiliary product polynomial even when it has nothing to add to the result
	for (unsigned i = 0; i < (A.thorough() ? 1500u : 200u); i++) {
		unsigned bits = 3 + gen().below(30);
		gen_bits(q, bits); mpz_setbit(q, bits - 1); mpz_nextprime(q, q);
		size_t m = 2 + gen().below(7);
		if (mpz_cmp_ui(q, m) <= 0) m = mpz_get_ui(q) > 2 ? mpz_get_ui(q) - 1 : 2;   // need m distinct abscissae
		long deg = (long)gen().below(m - 1) - 1;                 // -1: the zero polynomial (b[0] = 0), 0: constant (b[1] = b[0]), 1: collinear
		size_t onpoly = (size_t)(deg + 2) + gen().below(m - (deg + 2) + 1);     // at least one zero correction
		if (onpoly >= m && m > (size_t)(deg + 2) && gen().below(4)) onpoly = m - 1;    // usually followed by an off-polynomial point
		std::vector<std::string> as, bs; mpz_t t, acc; mpz_init(t); mpz_init(acc);
		std::vector<std::string> coef; for (long c = 0; c <= deg; c++) { gen_below(t, q); if (c == deg && mpz_sgn(t) == 0) mpz_set_ui(t, 1); coef.push_back(hx(t)); }
		std::vector<unsigned long> used;
		for (size_t k = 0; k < m; k++) {
			// distinct abscissae (small q: rejection sampling)
			for (;;) { gen_below(t, q); bool dup = false; for (auto &x : as) if (x == hx(t)) dup = true; if (!dup) break; }
			as.push_back(hx(t));
			if (k < onpoly) { mpz_set_ui(acc, 0); for (long c = deg; c >= 0; c--) { mpz_t cc; mpz_init(cc); mpz_set_str(cc, coef[c].c_str(), 16); mpz_mul(acc, acc, t); mpz_add(acc, acc, cc); mpz_mod(acc, acc, q); mpz_clear(cc); } bs.push_back(hx(acc)); }
			else { gen_below(acc, q); bs.push_back(hx(acc)); }
		}
		mpz_clear(t); mpz_clear(acc);
		interp_case(std::vector<long>(), std::vector<long>(), q, true, "onpoly", &as, &bs);
	}
	// q not prime (model comparison only), q = 0 and m = 0 (throw)
	for (unsigned i = 0; i < (A.thorough() ? 400u : 60u); i++) {
		mpz_set_ui(q, 1 + gen().below(40));
		std::vector<long> as, bs; size_t m = 1 + gen().below(4);
		for (size_t k = 0; k < m; k++) { as.push_back((long)gen().below(45) - 3); bs.push_back((long)gen().below(45) - 3); }
		interp_case(as, bs, q, true, "composite");
	}
	{ std::vector<long> as = {1, 2}, bs = {3, 4}; mpz_set_ui(q, 0); interp_case(as, bs, q, true, "edge");
	  std::vector<long> e; mpz_set_ui(q, 7); interp_case(e, e, q, true, "edge"); }
	mpz_clear(q);
}

// ---- section prime: generators vs defining relations ---------------------------------------------------
static bool is_prime(mpz_srcptr p) { return mpz_probab_prime_p(p, 40) != 0; }
static void section_prime(const Args &A) {
	mpz_t p, q, k, t; mpz_init(p); mpz_init(q); mpz_init(k); mpz_init(t);
	const unsigned R = A.thorough() ? 10 : 2;
	static const unsigned long QS[] = { 16, 24, 33, 64, 100, 160, 256 };
	typedef void (*sp_fn)(mpz_ptr, mpz_ptr, const unsigned long, const unsigned long);
	struct { const char *name; sp_fn f; bool g2; unsigned long maxq; } SP[] = {
		{ "sprime", tmcg_mpz_sprime, false, 256 }, { "smprime", tmcg_mpz_smprime, false, 256 },
		{ "sprime_naive", tmcg_mpz_sprime_naive, false, 100 }, { "smprime_naive", tmcg_mpz_smprime_naive, false, 100 },
		{ "sprime_noninc", tmcg_mpz_sprime_noninc, false, 100 }, { "sprime2g", tmcg_mpz_sprime2g, true, 256 } };
	for (unsigned r = 0; r < R; r++)
		for (auto &g : SP)
			for (unsigned long qs : QS) {
				if (qs > g.maxq || (!A.thorough() && qs > 100)) continue;
				g.f(p, q, qs, TMCG_MR_ITERATIONS);
				mpz_mul_2exp(t, q, 1); mpz_add_ui(t, t, 1);
				std::string why;
				if (!is_prime(q)) why = "q not prime"; else if (!is_prime(p)) why = "p not prime";
				else if (mpz_cmp(t, p)) why = "p != 2q+1"; else if (mpz_sizeinbase(q, 2) < qs) why = "q shorter than requested";
				else if (g.g2 && mpz_fdiv_ui(p, 8) != 7) why = "p != 7 mod 8";
				else if (g.g2) { mpz_set_ui(t, 2); mpz_powm(t, t, q, p); if (mpz_cmp_ui(t, 1)) why = "2 does not have order q"; }
				if (!why.empty()) propfail(std::string("prime-") + g.name, std::string(g.name) + "(qsize=" + hx(qs) + ") gave p=" + hx(p) + " q=" + hx(q) + ": " + why);
			}
	// Blum primes
	for (unsigned r = 0; r < R * 3; r++)
		for (unsigned long ps : QS) {
			if (!A.thorough() && ps > 100) continue;
			tmcg_mpz_sprime3mod4(p, ps, TMCG_MR_ITERATIONS);
			std::string why;
			if (!is_prime(p)) why = "p not prime"; else if (mpz_fdiv_ui(p, 4) != 3) why = "p != 3 mod 4"; else if (mpz_sizeinbase(p, 2) < ps) why = "p shorter than requested";
			if (!why.empty()) propfail("prime-sprime3mod4", "sprime3mod4(psize=" + hx(ps) + ") gave p=" + hx(p) + ": " + why);
		}
	// Schnorr-type primes p = kq + 1
	static const unsigned long LP[][2] = { {48, 16}, {64, 24}, {128, 40}, {256, 160}, {512, 160}, {1024, 160}, {56, 16}, {96, 47} };
	// gaps psize-qsize below ~30 bits are avoided: q is drawn once and p = kq+1 must reach psize bits, so for q close to
	// 2^(qsize-1) only a fraction 2d/(1+d) (q = 2^(qsize-1)(1+d)) of the k range qualifies; with a short k the search over k
	// need not terminate (observed: lprime(30,16) spinning for > 10 min with VERIF_SEED=2)
	for (unsigned r = 0; r < R; r++)
		for (auto &l : LP) {
			if (!A.thorough() && l[0] > 512) continue;
			for (int prefix = 0; prefix < 2; prefix++) {
				if (prefix) { mpz_set_ui(k, 1 + gen().below(1000)); try { tmcg_mpz_lprime_prefix(p, q, k, l[0], l[1], TMCG_MR_ITERATIONS); } catch (std::exception &e) { propfail("prime-lprime_prefix", e.what()); continue; } }
				else tmcg_mpz_lprime(p, q, k, l[0], l[1], TMCG_MR_ITERATIONS);
				mpz_mul(t, q, k); mpz_add_ui(t, t, 1);
				std::string why;
				if (!is_prime(q)) why = "q not prime"; else if (!is_prime(p)) why = "p not prime"; else if (mpz_cmp(t, p)) why = "p != kq+1";
				else if (mpz_sizeinbase(p, 2) < l[0]) why = "p shorter than requested"; else if (mpz_sizeinbase(q, 2) < l[1]) why = "q shorter than requested";
				else { mpz_gcd(t, k, q); if (mpz_cmp_ui(t, 1)) why = "gcd(k,q) != 1"; }
				if (!why.empty()) propfail(prefix ? "prime-lprime_prefix" : "prime-lprime", std::string("lprime(") + hx(l[0]) + "," + hx(l[1]) + ") gave p=" + hx(p) + " q=" + hx(q) + " k=" + hx(k) + ": " + why);
			}
		}
	// ---- acceptance logic against the Coq model (PrimeModel.v): replay the candidates the generators draw --------------
	{
		mpz_t qraw, qc, kc, t2; mpz_init(qraw); mpz_init(qc); mpz_init(kc); mpz_init(t2);
		struct { const char *name; int kind; } ST[] = { { "sprime", 0 }, { "smprime", 0 }, { "sprime2g", 1 }, { "sprime3mod4", 2 } };
		static const unsigned long SQ[] = { 16, 24, 33, 64, 100, 160 };
		for (unsigned r = 0; r < R * 2; r++) for (auto &g : ST) for (unsigned long qs : SQ) {
			if (!A.thorough() && qs > 100) continue;
			uint64_t sd = gen().next();
			reseed_lib(sd);
			unsigned long qsize = qs;                      // size handed to tmcg_mpz_sprime_test
			if (g.kind == 2) { tmcg_mpz_sprime3mod4(p, qs, TMCG_MR_ITERATIONS); qsize = qs - 1; mpz_sub_ui(q, p, 1); mpz_fdiv_q_2exp(q, q, 1); }
			else if (g.kind == 1) tmcg_mpz_sprime2g(p, q, qs, TMCG_MR_ITERATIONS);
			else if (g.name[1] == 'm') tmcg_mpz_smprime(p, q, qs, TMCG_MR_ITERATIONS);
			else tmcg_mpz_sprime(p, q, qs, TMCG_MR_ITERATIONS);
			reseed_lib(sd);
			do tmcg_mpz_srandomb(qraw, qsize); while (mpz_sizeinbase(qraw, 2) < qsize);      // the start value the search drew
			Rec("pr_sprime").d(g.kind).u(qsize).z(qraw).z(q).z(p).t("1");
		}
		static const unsigned long LQ[][2] = { {48, 16}, {64, 24}, {128, 40}, {96, 47}, {256, 160}, {512, 160} };
		for (unsigned r = 0; r < R * 2; r++) for (auto &l : LQ) {
			if (!A.thorough() && l[0] > 256) continue;
			uint64_t sd = gen().next();
			reseed_lib(sd);
			tmcg_mpz_lprime(p, q, k, l[0], l[1], TMCG_MR_ITERATIONS);
			reseed_lib(sd);
			std::string qcs, kcs;
			do { tmcg_mpz_wrandomb(qc, l[1]); qcs += (qcs.empty() ? "" : ",") + hx(qc); }
			while ((mpz_sizeinbase(qc, 2) < l[1]) || !mpz_probab_prime_p(qc, TMCG_MR_ITERATIONS));
			bool synced = mpz_cmp(qc, q) == 0;
			unsigned guard = 0;
			while (synced && guard++ < 100000) {
				do { tmcg_mpz_wrandomb(kc, l[0] - l[1]); kcs += (kcs.empty() ? "" : ",") + hx(kc); } while (mpz_sizeinbase(kc, 2) < (l[0] - l[1]));
				if (mpz_odd_p(kc)) mpz_add_ui(kc, kc, 1);
				if (mpz_cmp(kc, k) == 0) break;                 // the cofactor the generator returned
			}
			if (synced && guard < 100000) Rec("pr_lprime").u(l[0]).u(l[1]).t(qcs).t(kcs).t(hx(p) + "," + hx(q) + "," + hx(k));
			else fprintf(stderr, "c09: replay of the lprime draws lost synchronisation (harness, not a finding)\n");
		}
		Rec("pr_lprime").u(16).u(16).t("_").t("_").t("throw");
		mpz_clear(qraw); mpz_clear(qc); mpz_clear(kc); mpz_clear(t2);
	}
	// qsize >= psize must throw
	try { tmcg_mpz_lprime(p, q, k, 16, 16, 10); propfail("prime-lprime-sizes", "lprime(16,16) did not throw"); } catch (std::invalid_argument &) {}
	// plain odd primes
	for (unsigned r = 0; r < R * 3; r++)
		for (unsigned long ps : QS) {
			tmcg_mpz_oprime(p, ps, TMCG_MR_ITERATIONS);
			if (!is_prime(p) || mpz_sizeinbase(p, 2) < ps) propfail("prime-oprime", "oprime(" + hx(ps) + ") gave " + hx(p));
			tmcg_mpz_oprime_noninc(p, ps, TMCG_MR_ITERATIONS);
			if (!is_prime(p) || mpz_sizeinbase(p, 2) < ps) propfail("prime-oprime_noninc", "oprime_noninc(" + hx(ps) + ") gave " + hx(p));
		}
	mpz_clear(p); mpz_clear(q); mpz_clear(k); mpz_clear(t);
}

// ---- section conv: mpz <-> gcry_mpi ---------------------------------------------------------------------
static void gen_nonneg(mpz_ptr z, unsigned maxbits) {
	unsigned sel = gen().below(10);
	switch (sel) {
	case 0: mpz_set_ui(z, gen().below(3)); break;
	case 1: { mpz_set_ui(z, 1); mpz_mul_2exp(z, z, gen().below(maxbits)); long d = (long)gen().below(3) - 1; if (d < 0) mpz_sub_ui(z, z, 1); else mpz_add_ui(z, z, d); break; }
	case 2: mpz_set_ui(z, 0x7f + gen().below(3)); break;            // 7f 80 81: leading-zero byte handling of the hex format
	case 3: { mpz_set_ui(z, 0x80); mpz_mul_2exp(z, z, 8 * gen().below(maxbits / 8)); break; }
	default: gen_bits(z, 1 + gen().below(maxbits)); break;
	}
}
static void section_conv(const Args &A) {
	const unsigned N = A.thorough() ? 6000 : 600;
	mpz_t z, z2; mpz_init(z); mpz_init(z2);
	gcry_mpi_t g = gcry_mpi_new(8);
	for (unsigned i = 0; i < N; i++) {
		// TMCG_MAX_VALUE_CHARS hex characters is the documented capacity of the way back
		unsigned maxbits = (i % 40 == 0) ? 4 * (TMCG_MAX_VALUE_CHARS - 4) : (i % 7 == 0 ? 4200 : 700);
		gen_nonneg(z, maxbits);
		bool ok1 = tmcg_mpz_get_gcry_mpi(g, z);
		mpz_set_ui(z2, 12345);
		bool ok2 = ok1 && tmcg_mpz_set_gcry_mpi(g, z2);
		if (!ok1 || !ok2 || mpz_cmp(z, z2)) propfail("conv-roundtrip", "mpz " + hx(z).substr(0, 80) + " (" + hx(mpz_sizeinbase(z, 2)) + " bits) -> mpi -> mpz gives ok=" + (ok1 ? "1" : "0") + (ok2 ? "1" : "0") + " value " + hx(z2).substr(0, 80));
		else {
			// the intermediate mpi really holds the value: compare through libgcrypt's own unsigned export
			size_t n = 0; unsigned char *buf = 0;
			gcry_mpi_aprint(GCRYMPI_FMT_USG, &buf, &n, g);
			mpz_import(z2, n, 1, 1, 1, 0, buf); gcry_free(buf);
			if (mpz_cmp(z, z2)) propfail("conv-mpi-value", "mpi built from " + hx(z).substr(0, 80) + " holds " + hx(z2).substr(0, 80));
			if (mpz_fits_ulong_p(z) && tmcg_get_gcry_mpi_ui(g) != mpz_get_ui(z)) propfail("conv-get-ui", "tmcg_get_gcry_mpi_ui differs for " + hx(z));
		}
		// other direction: mpi from libgcrypt -> mpz -> mpi
		size_t nb = 1 + gen().below(maxbits / 8 + 1);
		std::vector<unsigned char> raw(nb); for (auto &c : raw) c = (unsigned char)gen().next();
		if (gen().below(4) == 0) raw[0] = 0x80;
		gcry_mpi_t h = NULL; gcry_mpi_scan(&h, GCRYMPI_FMT_USG, raw.data(), nb, NULL);
		mpz_import(z, nb, 1, 1, 1, 0, raw.data());
		bool ok3 = tmcg_mpz_set_gcry_mpi(h, z2);
		gcry_mpi_t h2 = gcry_mpi_new(8);
		bool ok4 = ok3 && tmcg_mpz_get_gcry_mpi(h2, z2);
		if (!ok3 || !ok4 || mpz_cmp(z, z2) || gcry_mpi_cmp(h, h2)) propfail("conv-roundtrip-mpi", "mpi " + hx(z).substr(0, 80) + " -> mpz -> mpi gives ok=" + (ok3 ? "1" : "0") + (ok4 ? "1" : "0") + " value " + hx(z2).substr(0, 80));
		gcry_mpi_release(h); gcry_mpi_release(h2);
	}
	gcry_mpi_release(g);
	mpz_clear(z); mpz_clear(z2);
}

// ---- section bigint: plain vs secure back end -------------------------------------------------------------
static std::string big_str(const TMCG_Bigint &b) { std::ostringstream o; o << b; return o.str(); }
static std::string mpz_str62(mpz_srcptr z) { std::ostringstream o; o << z; return o.str(); }

static void section_bigint(const Args &A) {
	const unsigned N = A.thorough() ? 400 : 60, STEPS = 40;
	for (unsigned c = 0; c < N; c++) {
		TMCG_Bigint pa(false, false), pb(false, false), pc(false, false);      // plain
		TMCG_Bigint sa(true, true), sb(true, true), sc(true, true);            // secure, exportable
		mpz_t ra, rb, rc, t; mpz_init(ra); mpz_init(rb); mpz_init(rc); mpz_init(t);
		std::string trace;
		auto fail = [&](const std::string &op) {
			propfail("bigint-" + op, "after [" + trace + "] plain=" + big_str(pa) + " secure=" + big_str(sa) + " reference=" + mpz_str62(ra));
		};
		unsigned maxbits = (c % 5 == 0) ? 1100 : 130;
		bool bad = false;
		for (unsigned s = 0; s < STEPS && !bad; s++) {
			unsigned op = gen().below(22);
			unsigned long u = (gen().below(4) == 0) ? gen().next() : gen().below(1000);
			gen_nonneg(t, maxbits);
			std::string ts = hx(t);
			TMCG_Bigint pt(false, false), st(true, true);
			pt.set_str(ts, 16); st = pt;              // the secure back end has no text input: load through assignment
			std::string name;
			switch (op) {
			case 0: name = "set_str"; pa.set_str(ts, 16); sa = pa; mpz_set(ra, t); break;
			case 1: name = "assign_ui"; pa = u; sa = u; mpz_set_ui(ra, u); break;
			case 2: name = "add"; pa += pt; sa += st; mpz_add(ra, ra, t); break;
			case 3: name = "add_ui"; pa += u; sa += u; mpz_add_ui(ra, ra, u); break;
			case 4: name = "sub"; if (mpz_cmp(ra, t) < 0) continue; pa -= pt; sa -= st; mpz_sub(ra, ra, t); break;       // stay non-negative
			case 5: name = "sub_ui"; if (mpz_cmp_ui(ra, u) < 0) continue; pa -= u; sa -= u; mpz_sub_ui(ra, ra, u); break;
			case 6: name = "mul"; if (mpz_sizeinbase(ra, 2) > 6000) continue; pa *= pt; sa *= st; mpz_mul(ra, ra, t); break;
			case 7: name = "mul_ui"; if (mpz_sizeinbase(ra, 2) > 6000) continue; pa *= u; sa *= u; mpz_mul_ui(ra, ra, u); break;
			case 8: name = "div"; if (!mpz_sgn(t)) continue; pa /= pt; sa /= st; mpz_tdiv_q(ra, ra, t); break;
			case 9: name = "div_ui"; if (!u) continue; pa /= u; sa = pa /* plain only */; mpz_tdiv_q_ui(ra, ra, u); break;
			case 10: name = "mod"; if (!mpz_sgn(t)) continue; pa %= pt; sa %= st; mpz_mod(ra, ra, t); break;
			case 11: name = "mod_ui"; if (!u) continue; pa %= u; sa %= u; mpz_mod_ui(ra, ra, u); break;
			case 12: name = "mul2exp"; { unsigned long e = gen().below(70); if (mpz_sizeinbase(ra, 2) > 6000) continue; pa.mul2exp(e); sa.mul2exp(e); mpz_mul_2exp(ra, ra, e); } break;
			case 13: name = "div2exp"; { unsigned long e = gen().below(70); pa.div2exp(e); sa = pa /* plain only */; mpz_tdiv_q_2exp(ra, ra, e); } break;
			case 14: name = "ui_pow_ui"; { unsigned long b = gen().below(20), e = gen().below(40); pa.ui_pow_ui(b, e); sa = pa /* plain only */; mpz_ui_pow_ui(ra, b, e); } break;
			case 15: name = "powm"; { // odd modulus, exponent non-negative
				mpz_setbit(t, 0); if (mpz_cmp_ui(t, 1) == 0) continue; pt.set_str(hx(t), 16); st = pt;
				gen_nonneg(rc, 200); pc.set_str(hx(rc), 16); sc = pc;
				TMCG_Bigint pbase(pa), sbase(sa);
				pa.powm(pbase, pc, pt); sa.powm(sbase, sc, st); mpz_powm(ra, ra, rc, t); } break;
			case 16: name = "powm_ui"; { mpz_setbit(t, 0); if (mpz_cmp_ui(t, 1) == 0) continue; pt.set_str(hx(t), 16); st = pt;
				TMCG_Bigint pbase(pa), sbase(sa);
				pa.powm_ui(pbase, u, pt); sa.powm_ui(sbase, u, st); mpz_powm_ui(ra, ra, u, t); } break;
			case 17: name = "spowm"; { mpz_setbit(t, 0); if (mpz_cmp_ui(t, 1) == 0) continue;
				mpz_gcd(rb, ra, t); if (mpz_cmp_ui(rb, 1)) continue;                                         // base a unit
				pt.set_str(hx(t), 16);
				gen_nonneg(rc, 200); pc.set_str(hx(rc), 16);
				TMCG_Bigint pbase(pa);
				try { pa.spowm(pbase, pc, pt); sa = pa; /* plain only */ } catch (std::exception &e) { trace += " spowm-threw:" + std::string(e.what()); fail("spowm"); bad = true; continue; }
				mpz_powm(ra, ra, rc, t); } break;
			case 18: name = "copy"; { TMCG_Bigint pcp(pa), scp(sa); pb = pcp; sb = scp; mpz_set(rb, ra);
				if (!(pb == pa) || !(sb == sa) || big_str(pb) != mpz_str62(rb) || big_str(sb) != mpz_str62(rb)) { trace += " copy"; fail("copy"); bad = true; } } break;
			case 19: name = "compare"; {
				int cr = mpz_cmp(ra, t);
				bool okp = ((pa == pt) == (cr == 0)) && ((pa != pt) == (cr != 0)) && ((pa > pt) == (cr > 0)) && ((pa < pt) == (cr < 0)) && ((pa >= pt) == (cr >= 0)) && ((pa <= pt) == (cr <= 0));
				bool oks = ((sa == st) == (cr == 0)) && ((sa != st) == (cr != 0)) && ((sa > st) == (cr > 0)) && ((sa < st) == (cr < 0)) && ((sa >= st) == (cr >= 0)) && ((sa <= st) == (cr <= 0));
				int cu = mpz_cmp_ui(ra, u);   // comparisons with machine integers exist on the plain back end only
				okp = okp && ((pa == u) == (cu == 0)) && ((pa != u) == (cu != 0)) && ((pa > u) == (cu > 0)) && ((pa < u) == (cu < 0)) && ((pa >= u) == (cu >= 0)) && ((pa <= u) == (cu <= 0));
				if (!okp || !oks) { trace += " compare(" + ts + "," + hx(u) + ")"; fail(okp ? "compare-secure" : "compare-plain"); bad = true; } } break;
			case 20: name = "misc"; {
				bool ok = pa.get_ui() == mpz_get_ui(ra) && sa.get_ui() == mpz_get_ui(ra)
					&& pa.size(2) == mpz_sizeinbase(ra, 2) && sa.size(2) == mpz_sizeinbase(ra, 2);
				if (mpz_sizeinbase(ra, 2) < 400) { bool pr = mpz_probab_prime_p(ra, 30) != 0; ok = ok && (pa.probab_prime(30) == pr) && (sa.probab_prime(30) == pr); }
				if (!ok) { trace += " misc"; fail("misc"); bad = true; } } break;
			case 21: name = "abs"; pa.abs(); sa.abs(); mpz_abs(ra, ra); break;
			}
			if (bad) break;
			trace += " " + name;
			if (trace.size() > 300) trace = "..." + trace.substr(trace.size() - 280);
			std::string want = mpz_str62(ra), gp = big_str(pa), gs = big_str(sa);
			if (gp != want || gs != want) { fail(name + (gp != want ? "-plain" : "-secure")); bad = true; }
		}
		mpz_clear(ra); mpz_clear(rb); mpz_clear(rc); mpz_clear(t);
	}
	// stream round trip on both back ends
	for (unsigned c = 0; c < N; c++) {
		mpz_t t; mpz_init(t); gen_nonneg(t, 900);
		TMCG_Bigint p1(false, false), s1(true, true), p2(false, false), s2(true, true);
		p1.set_str(hx(t), 16); s1 = p1;
		std::stringstream b; b << s1 << std::endl;
		b >> p2; s2 = p2;
		if (!(p2 == p1) || !(s2 == s1) || big_str(p2) != mpz_str62(t) || big_str(s2) != mpz_str62(t)) propfail("bigint-stream", "value " + hx(t) + " does not survive plain<->secure text transfer");
		mpz_clear(t);
	}
}

int main(int argc, char **argv) {
	Args A(argc, argv);
	for (int i = 1; i < argc; i++) {
		std::string a = argv[i];
		if (a == "--part" && i + 1 < argc) PART = atoi(argv[++i]);
		else if (a == "--parts" && i + 1 < argc) PARTS = atoi(argv[++i]);
	}
	if (PARTS < 1) PARTS = 1;
	if (!init_libTMCG()) { fprintf(stderr, "init_libTMCG failed\n"); return 2; }
	// every shard has its own generator stream
	gen() = SplitMix64((A.seed * 0x9E3779B97F4A7C15ULL + 17) ^ (0x51ed270b1ULL * (PART + 1)));
	std::string o = A.only;
	if (o.empty() || o == "pow") section_pow(A);
	if (o.empty() || o == "tab") section_tab(A);
	if (o.empty() || o == "big") section_big(A);
	if (o.empty() || o == "sqrt") section_sqrt(A);
	if (o.empty() || o == "interp") section_interp(A);
	if (o.empty() || o == "prime") section_prime(A);
	if (o.empty() || o == "conv") section_conv(A);
	if (o.empty() || o == "bigint") section_bigint(A);
	printf("DONE %s\n", o.c_str());
	return 0;
}
