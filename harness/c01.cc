// C01 correspondence harness: real BarnettSmartVTMF_dlog / _GroupQR instances (one per player, built through the
// stream constructor) and real SchindelhauerTMCG objects run "create card of type T, mask along a chain, open";
// every call that the Coq model (VtmfModel / TmcgModel) covers is printed as a REC line, the property itself
// is evaluated on the implementation (PROPFAIL).
//   sections (--only): vtmf  tiny/mid Schnorr and QR groups, records + oracle
//                      vbig  realistic group sizes, oracle only
//                      tmcg  quadratic-residue encoding with small keys, records + oracle
#include "common.hh"
#include "c01_pipe.hh"
#include <thread>
#include <signal.h>
#define private public
#define protected public
#include <libTMCG.hh>
#undef private
#undef protected
using namespace verif;

static std::string zs(mpz_srcptr z) { return hx(z); }
static std::string pair_tok(mpz_srcptr a, mpz_srcptr b) { return hx(a) + "," + hx(b); }

struct Party {
	BarnettSmartVTMF_dlog *vtmf;
	SchindelhauerTMCG *tmcg;
};

// one card game on a generated group; returns false if the set-up itself failed (reported as PROPFAIL)
static void vtmf_game(const Args &A, bool qr_group, unsigned long fsize, unsigned long gsize, bool canonical, size_t k, size_t w,
                      bool rec, const char *cls, unsigned ncards) {
	std::vector<Party> P(k);
	std::stringstream grp;
	BarnettSmartVTMF_dlog *first;
	if (qr_group) first = new BarnettSmartVTMF_dlog_GroupQR(fsize, gsize);
	else first = new BarnettSmartVTMF_dlog(fsize, gsize, canonical, true);
	first->PublishGroup(grp);
	std::string gs = grp.str();
	P[0].vtmf = first;
	for (size_t i = 1; i < k; i++) {
		std::stringstream in(gs);
		if (qr_group) P[i].vtmf = new BarnettSmartVTMF_dlog_GroupQR(in, fsize, gsize);
		else P[i].vtmf = new BarnettSmartVTMF_dlog(in, fsize, gsize, canonical, true);
	}
	std::string key = std::string(cls) + (qr_group ? "-qr" : (canonical ? "-canon" : "-schnorr"));
	for (size_t i = 0; i < k; i++) {
		P[i].tmcg = new SchindelhauerTMCG(16, k, w);
		if (!P[i].vtmf->CheckGroup()) { propfail("vtmf-group-" + key, "CheckGroup fails on a generated group p=" + zs(first->p) + " q=" + zs(first->q) + " g=" + zs(first->g)); return; }
	}
	mpz_srcptr p = first->p, q = first->q, g = first->g;
	// keys
	std::vector<std::string> pub(k);
	for (size_t i = 0; i < k; i++) {
		P[i].vtmf->KeyGenerationProtocol_GenerateKey();
		std::stringstream o; P[i].vtmf->KeyGenerationProtocol_PublishKey(o); pub[i] = o.str();
		if (rec) Rec("vt_keyshare").z(p).z(q).z(g).z(P[i].vtmf->x_i).t(hx(P[i].vtmf->h_i));
	}
	for (size_t i = 0; i < k; i++) {
		std::string others;
		for (size_t j = 0; j < k; j++) if (j != i) {
			std::stringstream in(pub[j]);
			if (!P[i].vtmf->KeyGenerationProtocol_UpdateKey(in)) { propfail("vtmf-keygen-" + key, "honest public key rejected, p=" + zs(p) + " q=" + zs(q) + " g=" + zs(g) + " h_j=" + zs(P[j].vtmf->h_i)); return; }
			others += (others.empty() ? "" : ",") + hx(P[j].vtmf->h_i);
		}
		P[i].vtmf->KeyGenerationProtocol_Finalize();
		if (rec) Rec("vt_comkey").z(p).z(P[i].vtmf->h_i).t(others.empty() ? "_" : others).t(hx(P[i].vtmf->h));
	}
	mpz_srcptr h = first->h;
	size_t maxtype = (size_t)1 << w;
	bool small_space = mpz_cmp_ui(q, maxtype) < 0;      // 2^w > q: the message space collides, outside the hypothesis
	// index elements (message space)
	if (rec) {
		mpz_t e; mpz_init(e);
		size_t idx[] = { 0, 1, 2, maxtype - 1, maxtype, (size_t)gen().below(maxtype), (size_t)gen().below(1u << 16), (size_t)1 << 20 };
		for (size_t i : idx) { P[0].vtmf->IndexElement(e, i); Rec("vt_index").z(p).z(q).z(g).u(i).t(hx(e)); }
		mpz_clear(e);
	}
	mpz_t R, Xm, E, t1; mpz_init(R); mpz_init(Xm); mpz_init(E); mpz_init(t1);
	for (unsigned cno = 0; cno < ncards; cno++) {
		size_t T;
		switch (gen().below(5)) { case 0: T = 0; break; case 1: T = 1 % maxtype; break; case 2: T = maxtype - 1; break; default: T = gen().below(maxtype); }
		size_t creator = gen().below(k);
		VTMF_Card c, cc;
		VTMF_CardSecret cs;
		std::string chain;     // r:protect,r:protect...
		mpz_set_ui(R, 0);
		bool priv = gen().below(3) == 0;
		if (priv) {
			// TMCG_CreatePrivateCard = index element + VerifiableMaskingProtocol_Mask
			P[creator].tmcg->TMCG_CreatePrivateCard(c, cs, P[creator].vtmf, T);
			mpz_t m; mpz_init(m); P[creator].vtmf->IndexElement(m, T);
			if (rec) Rec("vt_mask").z(p).z(q).z(g).z(h).z(m).z(cs.r).t(pair_tok(c.c_1, c.c_2));
			mpz_clear(m);
			mpz_add(R, R, cs.r);
			chain = hx(cs.r) + ":1";
		} else {
			P[creator].tmcg->TMCG_CreateOpenCard(c, P[creator].vtmf, T);
			if (rec) Rec("vt_opencard").z(p).z(q).z(g).u(T).t(pair_tok(c.c_1, c.c_2));
		}
		unsigned len = gen().below(9);
		for (unsigned s = 0; s < len; s++) {
			size_t who = gen().below(k);
			bool tap = gen().coin();
			unsigned sel = gen().below(10);
			if (sel == 0) mpz_set_ui(cs.r, 0);                       // boundary exponents (the API accepts any secret)
			else if (sel == 1) mpz_set_ui(cs.r, 1);
			else if (sel == 2) mpz_sub_ui(cs.r, q, 1);
			else P[who].tmcg->TMCG_CreateCardSecret(cs, P[who].vtmf);
			P[who].tmcg->TMCG_MaskCard(c, cc, cs, P[who].vtmf, tap);
			if (rec) Rec("vt_remask").z(p).z(q).z(g).z(h).z(c.c_1).z(c.c_2).z(cs.r).d(tap ? 1 : 0).t(pair_tok(cc.c_1, cc.c_2));
			mpz_add(R, R, cs.r);
			chain += (chain.empty() ? "" : ",") + hx(cs.r) + ":" + (tap ? "1" : "0");
			c = cc;
		}
		if (chain.empty()) chain = "_";
		// open: by a random player, first with all shares, then with some withheld
		for (int pass = 0; pass < 2; pass++) {
			size_t opener = gen().below(k);
			std::vector<bool> contrib(k, true);
			if (pass == 1) {
				if (k < 2) break;
				size_t nm = 1 + gen().below(k - 1), left = nm;
				while (left) { size_t j = gen().below(k); if (j != opener && contrib[j]) { contrib[j] = false; left--; } }
			}
			P[opener].tmcg->TMCG_SelfCardSecret(c, P[opener].vtmf);
			if (rec) Rec("vt_decshare").z(p).z(c.c_1).z(P[opener].vtmf->x_i).t(hx(P[opener].vtmf->d));
			std::string others, cont;
			mpz_set_ui(Xm, 0);
			bool proto_ok = true, bad_offered = false;
			for (size_t j = 0; j < k; j++) if (j != opener) {
				others += (others.empty() ? "" : ",") + hx(P[j].vtmf->x_i);
				if (!contrib[j]) { mpz_add(Xm, Xm, P[j].vtmf->x_i); continue; }
				cont += (cont.empty() ? "" : ",") + hx(P[j].vtmf->x_i);
				std::stringstream proof, dummy_in, dummy_out;
				P[j].tmcg->TMCG_ProveCardSecret(c, P[j].vtmf, dummy_in, proof);
				// the honest message: d_j, fingerprint of h_j, and the proof (c, r)
				mpz_t tk[4], dbefore; for (int i = 0; i < 4; i++) mpz_init(tk[i]); mpz_init(dbefore);
				{ std::istringstream ps(proof.str()); ps >> tk[0] >> tk[1] >> tk[2] >> tk[3]; }
				// before the correct share: zero or more shares that must be rejected and must leave d untouched
				unsigned nbad = (pass == 0) ? gen().below(3) : 0;
				for (unsigned bno = 0; bno < nbad; bno++) {
					std::stringstream bad, bout; std::string kind;
					mpz_t m[4]; for (int i = 0; i < 4; i++) mpz_init_set(m[i], tk[i]);
					switch (gen().below(7)) {
					case 0: { // share and valid proof of the same player for a different card
						kind = "other-card"; VTMF_Card oc; VTMF_CardSecret ocs;
						P[j].tmcg->TMCG_CreatePrivateCard(oc, ocs, P[j].vtmf, gen().below(maxtype));
						if (mpz_cmp(oc.c_1, c.c_1) == 0) { kind = ""; break; }
						std::stringstream di; P[j].tmcg->TMCG_ProveCardSecret(oc, P[j].vtmf, di, bad);
						std::istringstream ps(bad.str()); ps >> m[0]; bad.clear(); break; }
					case 1: kind = "proof-r+1"; mpz_add_ui(m[3], m[3], 1); if (mpz_cmpabs(m[3], q) >= 0) mpz_sub_ui(m[3], m[3], 2); break;
					case 2: kind = "proof-c+1"; mpz_add_ui(m[2], m[2], 1); break;
					case 3: kind = "r-out-of-range"; mpz_add(m[3], m[3], q); break;
					case 4: kind = "share-out-of-range"; mpz_add(m[0], m[0], p); break;
					case 5: kind = "unknown-key"; mpz_add_ui(m[1], m[1], 1); break;
					case 6: kind = "share-of-another-player"; { size_t o2 = gen().below(k); if (o2 == j || o2 == opener) { kind = ""; break; }
						std::stringstream di, pr; P[o2].tmcg->TMCG_ProveCardSecret(c, P[o2].vtmf, di, pr); std::istringstream ps(pr.str()); ps >> m[0];
						if (mpz_cmp(m[0], tk[0]) == 0) kind = ""; /* e.g. c_1 = 1: all shares coincide, the statement is true */ } break;   // foreign share under j's key and proof
					}
					if (!kind.empty()) {
						if (kind != "other-card") bad << m[0] << std::endl << m[1] << std::endl << m[2] << std::endl << m[3] << std::endl;
						mpz_set(dbefore, P[opener].vtmf->d);
						bool ret = gen().coin() ? P[opener].tmcg->TMCG_VerifyCardSecret(c, P[opener].vtmf, bad, bout)
						                        : P[opener].vtmf->VerifiableDecryptionProtocol_Verify_Update(c.c_1, bad);
						if (rec) Rec("vt_update").z(p).z(dbefore).z(m[0]).d(ret ? 1 : 0).t(std::string(ret ? "1," : "0,") + hx(P[opener].vtmf->d));
						bad_offered = true;
						if (ret) propfail("rejected-share-accepted-" + key, "a bad decryption share (" + kind + ") was accepted: p=" + zs(p) + " q=" + zs(q) + " g=" + zs(g) + " c1=" + zs(c.c_1) + " d_j=" + hx(m[0]));
						else if (mpz_cmp(dbefore, P[opener].vtmf->d)) propfail("open-after-rejected-share", "a rejected decryption share (" + kind + ") changed the accumulated value d: p=" + zs(p) + " q=" + zs(q) + " g=" + zs(g) + " c1=" + zs(c.c_1) + " d=" + hx(dbefore) + " -> " + hx(P[opener].vtmf->d) + " d_j=" + hx(m[0]));
					}
					for (int i = 0; i < 4; i++) mpz_clear(m[i]);
				}
				mpz_set(dbefore, P[opener].vtmf->d);
				bool good = P[opener].tmcg->TMCG_VerifyCardSecret(c, P[opener].vtmf, proof, dummy_out);
				if (rec) Rec("vt_update").z(p).z(dbefore).z(tk[0]).d(good ? 1 : 0).t(std::string(good ? "1," : "0,") + hx(P[opener].vtmf->d));
				if (!good) proto_ok = false;
				for (int i = 0; i < 4; i++) mpz_clear(tk[i]); mpz_clear(dbefore);
			}
			if (!proto_ok) { propfail("vtmf-decproof-" + key, "honest decryption share rejected: p=" + zs(p) + " q=" + zs(q) + " g=" + zs(g) + " c1=" + zs(c.c_1)); continue; }
			mpz_t d, m; mpz_init_set(d, P[opener].vtmf->d); mpz_init(m);
			P[opener].vtmf->VerifiableDecryptionProtocol_Verify_Finalize(c.c_2, m);
			if (rec) Rec("vt_final").z(p).z(d).z(c.c_2).t(hx(m));
			size_t type = P[opener].tmcg->TMCG_TypeOfCard(c, P[opener].vtmf);
			if (rec) Rec("vt_type").z(p).z(q).z(g).d((long)w).z(m).t(hx((unsigned long)type));
			if (rec && !priv) Rec("vt_open").z(p).z(q).z(g).d((long)w).z(P[opener].vtmf->x_i).t(others.empty() ? "_" : others).t(cont.empty() ? "_" : cont)
				.u(T).t(chain).t(hx((unsigned long)type));
			mpz_clear(d); mpz_clear(m);
			if (small_space) continue;
			// oracle: exact expected result (T + R * sum of missing keys) mod q if below 2^w, else the sentinel
			mpz_mul(E, R, Xm); mpz_add_ui(E, E, T); mpz_mod(E, E, q);
			size_t expect = (mpz_cmp_ui(E, maxtype) < 0) ? mpz_get_ui(E) : maxtype;
			std::string what = "p=" + zs(p) + " q=" + zs(q) + " g=" + zs(g) + " k=" + std::to_string(k) + " w=" + std::to_string(w) + " T=" + std::to_string(T)
				+ " chain=" + chain + " opener=" + std::to_string(opener) + " opened as " + std::to_string(type);
			if (pass == 0 && type != T) propfail(bad_offered ? std::string("open-after-rejected-share") : "vtmf-open-" + key,
				std::string(bad_offered ? "after rejected shares followed by the correct ones the card does not open to its type: " : "card does not open to its type with all shares: ") + what);
			if (pass == 1 && type != expect) propfail("vtmf-missing-" + key, "opening with a share withheld: expected " + std::to_string(expect) + ": " + what);
			if (pass == 1 && type == T && mpz_cmp_ui(E, T) != 0) propfail("vtmf-missing-" + key, "opening with a share withheld still returned T: " + what);
		}
	}
	mpz_clear(R); mpz_clear(Xm); mpz_clear(E); mpz_clear(t1);
	for (size_t i = 0; i < k; i++) { delete P[i].tmcg; delete P[i].vtmf; }
}

static void section_vtmf(const Args &A) {
	const unsigned N = A.thorough() ? 50 : 14;
	for (unsigned i = 0; i < N; i++) {
		bool qr = (i % 3 == 2);
		bool canonical = (i % 3 == 1);
		// psize - qsize >= 32: tmcg_mpz_lprime draws q once, a short cofactor range may contain no k with p = kq+1 prime of full size
		static const unsigned long FS[][2] = { {48, 16}, {56, 20}, {64, 24}, {64, 32}, {72, 40}, {80, 40}, {96, 48}, {49, 17} };
		const unsigned long *fs = FS[gen().below(8)];
		size_t k = 1 + gen().below(6);
		size_t w = 1 + gen().below(TMCG_MAX_TYPEBITS);
		if (i % 7 == 0) w = TMCG_MAX_TYPEBITS;
		if (i % 11 == 3) k = 1;
		// QR group: p = 2q+1 of fs[0] bits, exponents shortened to fs[1] bits or of full size
		unsigned long f = fs[0], g = qr ? (gen().coin() ? fs[1] : fs[0]) : fs[1];
		vtmf_game(A, qr, f, g, canonical, k, w, true, "tiny", A.thorough() ? 10 : 6);
	}
}

static void section_vbig(const Args &A) {
	const unsigned N = A.thorough() ? 12 : 3;
	for (unsigned i = 0; i < N; i++) {
		bool qr = (i % 3 == 2), canonical = (i % 3 == 1);
		unsigned long f = qr ? (A.thorough() ? 512 : 256) : (i % 2 ? 1024 : 512), g = qr ? 128 : 160;
		vtmf_game(A, qr, f, g, canonical, 2 + gen().below(4), 1 + gen().below(TMCG_MAX_TYPEBITS), false, "big", A.thorough() ? 12 : 5);
	}
}

// ---- quadratic-residue encoding ---------------------------------------------------------------------------
static std::string mat_tok(const std::vector<std::vector<MP_INT> > &m) {
	std::string r;
	for (size_t i = 0; i < m.size(); i++) {
		if (i) r += ";";
		for (size_t j = 0; j < m[i].size(); j++) { if (j) r += ","; r += hx(&m[i][j]); }
	}
	return r;
}

static void tmcg_game(const Args &A, unsigned long keysize, size_t k, size_t w, bool rec, const char *cls, unsigned ncards) {
	std::vector<TMCG_SecretKey*> sec;
	TMCG_PublicKeyRing ring(k);
	std::string keys;       // m,y,p,q;...
	for (size_t i = 0; i < k; i++) {
		sec.push_back(new TMCG_SecretKey("p" + std::to_string(i), "p@x", keysize, false));
		ring.keys[i] = TMCG_PublicKey(*sec[i]);
		keys += (i ? ";" : "") + hx(sec[i]->m) + "," + hx(sec[i]->y) + "," + hx(sec[i]->p) + "," + hx(sec[i]->q);
		// the key really is what the premises of the theorem say: Blum factors, y a non-residue of Jacobi symbol +1
		bool ok = mpz_fdiv_ui(sec[i]->p, 4) == 3 && mpz_fdiv_ui(sec[i]->q, 4) == 3 && mpz_jacobi(sec[i]->y, sec[i]->p) == -1 && mpz_jacobi(sec[i]->y, sec[i]->q) == -1;
		mpz_t n; mpz_init(n); mpz_mul(n, sec[i]->p, sec[i]->q); ok = ok && mpz_cmp(n, sec[i]->m) == 0; mpz_clear(n);
		if (!ok) propfail(std::string("tmcg-key-") + cls, "generated key is not a Blum modulus with a Jacobi +1 non-residue: m=" + hx(sec[i]->m) + " y=" + hx(sec[i]->y));
	}
	SchindelhauerTMCG *tmcg = new SchindelhauerTMCG(16, k, w);
	size_t maxtype = (size_t)1 << w;
	for (unsigned cno = 0; cno < ncards; cno++) {
		size_t T;
		switch (gen().below(5)) { case 0: T = 0; break; case 1: T = 1 % maxtype; break; case 2: T = maxtype - 1; break; default: T = gen().below(maxtype); }
		TMCG_Card c(k, w), cc(k, w);
		TMCG_CardSecret cs(k, w);
		std::string chain;   // rmatrix|bmatrix / ...
		bool priv = gen().below(3) == 0;
		std::string ytok; for (size_t i = 0; i < k; i++) ytok += (i ? "," : "") + hx(sec[i]->y);
		if (priv) {
			size_t idx = gen().below(k);
			tmcg->TMCG_CreatePrivateCard(c, cs, ring, idx, T);
			chain = mat_tok(cs.r) + "|" + mat_tok(cs.b);
			if (rec) Rec("tm_secret").d((long)k).d((long)w).d((long)idx).t(mat_tok(cs.b));
		} else {
			tmcg->TMCG_CreateOpenCard(c, ring, T);
			if (rec) Rec("tm_opencard").d((long)k).d((long)w).t(ytok).u(T).t(mat_tok(c.z));
		}
		unsigned len = gen().below(7);
		for (unsigned s = 0; s < len; s++) {
			size_t idx = gen().below(k);
			bool tap = gen().coin();
			tmcg->TMCG_CreateCardSecret(cs, ring, idx);
			if (rec) Rec("tm_secret").d((long)k).d((long)w).d((long)idx).t(mat_tok(cs.b));
			tmcg->TMCG_MaskCard(c, cc, cs, ring, tap);
			if (rec) Rec("tm_mask").d((long)k).d((long)w).t(keys).t(mat_tok(c.z)).t(mat_tok(cs.r)).t(mat_tok(cs.b)).t(mat_tok(cc.z));
			chain += (chain.empty() ? "" : "/") + mat_tok(cs.r) + "|" + mat_tok(cs.b);
			c = cc;
		}
		if (chain.empty()) chain = "_";
		// open: every player determines the bits of its own row
		TMCG_CardSecret os(k, w);
		for (size_t i = 0; i < k; i++) tmcg->TMCG_SelfCardSecret(c, os, *sec[i], i);
		if (rec) Rec("tm_self").d((long)k).d((long)w).t(keys).t(mat_tok(c.z)).t(mat_tok(os.b));
		size_t type = tmcg->TMCG_TypeOfCard(os);
		if (rec) Rec("tm_type").d((long)k).d((long)w).t(mat_tok(os.b)).t(hx((unsigned long)type));
		if (rec && !priv) Rec("tm_open").d((long)k).d((long)w).t(keys).u(T).t(chain).t(hx((unsigned long)type));
		if (type != T) propfail(std::string("tmcg-open-") + cls, "QR-encoded card of type " + std::to_string(T) + " opens as " + std::to_string(type) + " (k=" + std::to_string(k) + " w=" + std::to_string(w)
			+ " keys=" + keys.substr(0, 400) + " chain length " + std::to_string(len) + ")");
		// ---- interactive opening with deviating announcements --------------------------------------------------------
		// Every other player proves the residuosity of its row to the opener (TMCG_ProveCardSecret's loop, run in a second
		// thread over two pipes) but ANNOUNCES truth + delta instead of the bit; the sub-proof is the honest one for the true
		// residuosity.  TMCG_VerifyCardSecret selects the proof by the parity of the announced number and stores the number
		// as received; whatever it accepts must open to exactly T.
		if (k > 1 && cno % 2 == 0) {
			size_t opener = gen().below(k);
			TMCG_CardSecret vs(k, w);
			tmcg->TMCG_SelfCardSecret(c, vs, *sec[opener], opener);
			bool all_accepted = true, any_dev = false, parity_dev = false;
			std::string devs;
			for (size_t i = 0; i < k && all_accepted; i++) if (i != opener) {
				// announced values for this row
				std::vector<std::string> ann(w);
				// at most one announcement of the wrong parity per row, in one row out of six: prover and verifier then run
				// different sub-protocols and wait for each other; the prover's reads get a timeout in such rows only
				bool row_parity_dev = gen().below(6) == 0; size_t pj = gen().below(w);
				for (size_t j = 0; j < w; j++) {
					long truth = tmcg_mpz_qrmn_p(&c.z[i][j], sec[i]->p, sec[i]->q) ? 0 : 1;
					mpz_t a; mpz_init_set_si(a, truth);
					unsigned sel = gen().below(14);
					if (sel == 4 || sel == 6) sel = 7;
					if (row_parity_dev && j == pj) sel = gen().coin() ? 4 : 6;
					switch (sel) {
					case 0: mpz_add_ui(a, a, 2); break;
					case 1: mpz_add_ui(a, a, 4); break;
					case 2: mpz_sub_ui(a, a, 2); break;
					case 3: { mpz_t big; mpz_init_set_ui(big, 1); mpz_mul_2exp(big, big, 64 + gen().below(70)); mpz_add(a, a, big); mpz_clear(big); break; }  // large, same parity
					case 4: { mpz_t big; mpz_init_set_ui(big, 1); mpz_mul_2exp(big, big, 64); mpz_add_ui(big, big, 1); mpz_add(a, a, big); mpz_clear(big); parity_dev = true; break; } // large, other parity
					case 5: mpz_sub_ui(a, a, 4 + 2 * gen().below(50)); break;                   // negative, same parity
					case 6: mpz_set_si(a, 1 - truth); parity_dev = true; break;                  // the wrong bit
					default: break;
					}
					if (sel <= 6) { any_dev = true; devs += (devs.empty() ? "" : ",") + std::to_string(i) + ":" + std::to_string(j) + "=" + hx(a); }
					ann[j] = hx(a); { std::ostringstream o; o << a; ann[j] = o.str(); }
					mpz_clear(a);
				}
				int p2v[2], v2p[2];
				if (pipe(p2v) || pipe(v2p)) { perror("pipe"); exit(2); }
				SchindelhauerTMCG *ptm = new SchindelhauerTMCG(16, k, w);
				std::thread prover([&]{
					fdbuf ib(v2p[0], row_parity_dev ? 700 : -1), ob(p2v[1]); std::istream pin(&ib); std::ostream pout(&ob);
					try {
						for (size_t j = 0; j < w; j++) {
							pout << ann[j] << std::endl;
							if (tmcg_mpz_qrmn_p(&c.z[i][j], sec[i]->p, sec[i]->q)) ptm->TMCG_ProveQuadraticResidue(*sec[i], &c.z[i][j], pin, pout);
							else ptm->TMCG_ProveNonQuadraticResidue(*sec[i], &c.z[i][j], pin, pout);
							pout.flush();
							if (!pin.good() && !pin.eof()) break;
						}
					} catch (...) { }
					pout.flush();
					close(p2v[1]); close(v2p[0]);        // the verifier sees end of file instead of waiting for a prover that gave up
				});
				bool ok;
				{
					fdbuf ib(p2v[0]), ob(v2p[1]); std::istream vin(&ib); std::ostream vout(&ob);
					try { ok = tmcg->TMCG_VerifyCardSecret(c, vs, ring.keys[i], i, vin, vout); } catch (...) { ok = false; }
					vout.flush();
				}
				// release the prover whatever state it is in
				close(v2p[1]); close(p2v[0]);
				prover.join();
				delete ptm;
				if (!ok) all_accepted = false;
			}
			if (!all_accepted) {
				if (!any_dev) propfail(std::string("tmcg-honest-proof-rejected-") + cls, "TMCG_VerifyCardSecret rejected an honest residuosity proof (k=" + std::to_string(k) + " w=" + std::to_string(w) + " keys=" + keys.substr(0, 300) + ")");
				else if (!parity_dev) propfail(std::string("tmcg-honest-proof-rejected-") + cls, "announcements with the true parity and honest proofs were rejected: " + devs.substr(0, 300));
			} else {
				size_t vtype = tmcg->TMCG_TypeOfCard(vs);
				if (rec) Rec("tm_type").d((long)k).d((long)w).t(mat_tok(vs.b)).t(hx((unsigned long)vtype));
				if (vtype != T) propfail("tmcg-open-deviating-announcement", "every contribution was verified, yet the card of type " + std::to_string(T) + " opens as " + std::to_string(vtype)
					+ " (k=" + std::to_string(k) + " w=" + std::to_string(w) + " opener=" + std::to_string(opener) + " announced[player:bit=value]=" + (devs.empty() ? "honest" : devs.substr(0, 400)) + " b=" + mat_tok(vs.b).substr(0, 400) + ")");
			}
		}
	}
	delete tmcg;
	for (auto s : sec) delete s;
}

static void section_tmcg(const Args &A) {
	const unsigned N = A.thorough() ? 24 : 8;
	for (unsigned i = 0; i < N; i++) {
		static const unsigned long KS[] = { 432, 440, 448, 480, 512 };   // the self-signature needs mnsize > mdsize + TMCG_PRAB_K0
		size_t k = 1 + gen().below(5), w = 1 + gen().below(TMCG_MAX_TYPEBITS);
		if (i % 5 == 0) w = TMCG_MAX_TYPEBITS;
		tmcg_game(A, KS[gen().below(5)], k, w, true, "small", A.thorough() ? 8 : 5);
	}
	for (unsigned i = 0; i < (A.thorough() ? 4u : 1u); i++)
		tmcg_game(A, 1024, 2 + gen().below(3), 1 + gen().below(TMCG_MAX_TYPEBITS), false, "big", 4);
}

int main(int argc, char **argv) {
	Args A(argc, argv);
	if (!init_libTMCG()) { fprintf(stderr, "init_libTMCG failed\n"); return 2; }
	signal(SIGPIPE, SIG_IGN);
	std::string o = A.only;
	if (o.empty() || o == "vtmf") section_vtmf(A);
	if (o.empty() || o == "vbig") section_vbig(A);
	if (o.empty() || o == "tmcg") section_tmcg(A);
	printf("DONE %s\n", o.c_str());
	return 0;
}
