// C05 harness: (1) mutation grid over every proof system of the library (implementation-level oracle, PROPFAIL),
// (2) correspondence records for the Coq model of the Fiat-Shamir serialisation and of the VTMF-layer verifiers.
//   c05 --tier quick|thorough --seed N --only <group>      groups: vtmf cutchoose groth hoogh pedersen qr rec
#include "c05_world.hh"
using namespace verif;

// ---------------------------------------------------------------------------------------------------------
// hash interposition: every message hashed by tmcg_g has the form X || "libTMCG00" || X in its first call;
// we log X (the Fiat-Shamir input string) while logging is on.
// ---------------------------------------------------------------------------------------------------------
static bool g_hash_logging = false;
static std::vector<std::string> g_hash_log;
extern "C" void gcry_md_hash_buffer(int algo, void *digest, const void *buffer, size_t length) {
	typedef void (*fn_t)(int, void*, const void*, size_t);
	static fn_t real = 0;
	if (!real) real = (fn_t)dlsym(RTLD_NEXT, "gcry_md_hash_buffer");
	if (g_hash_logging && algo == TMCG_GCRY_MD_ALGO && length >= 9 && (length - 9) % 2 == 0) {
		size_t n = (length - 9) / 2; const char *b = (const char*)buffer;
		if (memcmp(b + n, "libTMCG00", 9) == 0 && memcmp(b, b + n + 9, n) == 0) g_hash_log.push_back(std::string(b, n));
	}
	real(algo, digest, buffer, length);
}

static std::vector<System*> g_systems;
static Z g_small_order;   // u = x^q mod p for the current VTMF group: order divides k = (p-1)/q; not 1, not p-1
static void find_small_order(mpz_srcptr p, mpz_srcptr q) {
	Z x, pm1; mpz_sub_ui(pm1, p, 1); mpz_set_ui(g_small_order, 0);
	for (unsigned long b = 2; b < 200; b++) { mpz_set_ui(x, b); mpz_powm(x, x, q, p); if (mpz_cmp_ui(x.v, 1) && mpz_cmp(x, pm1)) { mpz_set(g_small_order, x); return; } }
}
static void emit(System *S, const Args &a, int reps) {
	if (!a.replay.empty() && a.replay != S->name) { delete S; return; }
	if (mpz_sgn(S->small_order.v) == 0 && mpz_sgn(g_small_order.v) > 0 && mpz_cmp(S->p, S->q) != 0) S->small_order = g_small_order;
	GridStats st; int done = 0;
	for (int r = 0; r < reps; r++) if (run_grid(*S, st)) done++;
	{   // >= 24 fresh proofs per position and substitution (48 thorough); large statements get fewer to stay in the time budget
		size_t nrk = 0; for (auto &k : S->knobs) if (k.reprove) nrk++;
		run_reprove(*S, st, nrk > 16 ? 12 : (a.thorough() ? 48 : 24));
	}
	if (st.reproved) printf("REPROVED %s attempts=%lu thrown=%lu\n", S->name.c_str(), st.reproved, st.reproved_thrown);
	printf("GRID %s runs=%d atoms=%lu mutants=%lu rejected=%lu thrown=%lu tolerated=%lu knobmut=%lu fails=%lu\n", S->name.c_str(), done, st.atoms, st.mutants, st.rejected, st.thrown, st.tolerated_acc, st.knobmut, st.fails);
	fflush(stdout);
	delete S;
}

static std::function<std::string(size_t, size_t)> fixed_labels(std::vector<std::string> L) {
	return [L](size_t i, size_t n) { return (n == L.size() && i < L.size()) ? L[i] : std::string("tok"); };
}
static void group_knobs(System *S, BarnettSmartVTMF_dlog *V, bool with_h = true) {
	S->knobs.push_back(Knob{"p", V->p, 'p'}); S->knobs.push_back(Knob{"q", V->q, 'q'}); S->knobs.push_back(Knob{"g", V->g, 'g'});
	if (with_h) S->knobs.push_back(Knob{"h", V->h, 'g'});
}
static void rand_elem(BarnettSmartVTMF_dlog *V, mpz_ptr a) { V->RandomElement(a); }

// ------------------------------------------------------------------------------------------------ VTMF layer
static void vtmf_systems(World &W, const Args &a) {
	int reps = a.thorough() ? 6 : 2;
	BarnettSmartVTMF_dlog *A = W.A, *B = W.B;
	{   // non-interactive key-share proof: h_i, c, r  (KeyGenerationProtocol_PublishKey / _UpdateKey)
		System *S = new System; S->name = "keynizk"; S->p = Z(B->p); S->q = Z(B->q);
		BarnettSmartVTMF_dlog *K = W.fresh();
		Z *h0 = new Z(K->h);
		S->prover = [A](std::istream&, std::ostream &o) { A->KeyGenerationProtocol_PublishKey(o); };
		S->verifier = [K](std::istream &i, std::ostream&) { return K->KeyGenerationProtocol_UpdateKey(i); };
		S->reset = [K, h0]() { mpz_set(K->h, *h0); for (auto &kv : K->h_j) { mpz_clear(kv.second); delete [] kv.second; } K->h_j.clear(); };
		group_knobs(S, K, false);
		{ Knob k{"hi", nullptr, 'g'}; k.reprove = true; k.pptr = A->h_i; S->knobs.push_back(k); }   // the prover publishes a tampered key share
		S->label = fixed_labels({"hi", "c", "r"});
		emit(S, a, reps);
	}
	{   // interactive key-share proof
		System *S = new System; S->name = "keyint"; S->interactive = true; S->p = Z(B->p); S->q = Z(B->q);
		Z *key = new Z(A->h_i);
		S->prover = [A](std::istream &i, std::ostream &o) { A->KeyGenerationProtocol_ProveKey_interactive(i, o); };
		S->verifier = [B, key](std::istream &i, std::ostream &o) { return B->KeyGenerationProtocol_VerifyKey_interactive(*key, i, o); };
		group_knobs(S, B, false); S->knobs.push_back(RK("key", *key, nullptr));
		S->label = fixed_labels({"m1", "m2"});
		emit(S, a, reps);
	}
	{   // interactive key-share proof, challenge by two-party coin flip
		System *S = new System; S->name = "keypc"; S->interactive = true; S->p = Z(B->p); S->q = Z(B->q);
		Z *key = new Z(A->h_i);
		JareckiLysyanskayaEDCF *ea = new JareckiLysyanskayaEDCF(2, 0, A->p, A->q, A->g, A->h);
		JareckiLysyanskayaEDCF *eb = new JareckiLysyanskayaEDCF(2, 0, B->p, B->q, B->g, B->h);
		S->prover = [A, ea](std::istream &i, std::ostream &o) { A->KeyGenerationProtocol_ProveKey_interactive_publiccoin(ea, i, o); };
		S->verifier = [B, eb, key](std::istream &i, std::ostream &o) { return B->KeyGenerationProtocol_VerifyKey_interactive_publiccoin(*key, eb, i, o); };
		group_knobs(S, B, false); S->knobs.push_back(RK("key", *key, nullptr));
		S->label = [](size_t i, size_t n) { return i == 0 ? std::string("m1") : i + 1 == n ? std::string("m2") : std::string("coin"); };
		emit(S, a, reps);
	}
	{   // masking proof (Chaum-Pedersen, fixed-base tables)
		System *S = new System; S->name = "mask"; S->p = Z(B->p); S->q = Z(B->q);
		Z *m = new Z, *c1 = new Z, *c2 = new Z, *r = new Z, *vm = new Z, *vc1 = new Z, *vc2 = new Z;
		rand_elem(A, *m); A->VerifiableMaskingProtocol_Mask(*m, *c1, *c2, *r);
		*vm = *m; *vc1 = *c1; *vc2 = *c2;
		S->prover = [=](std::istream&, std::ostream &o) { A->VerifiableMaskingProtocol_Prove(*m, *c1, *c2, *r, o); };
		S->verifier = [=](std::istream &i, std::ostream&) { return B->VerifiableMaskingProtocol_Verify(*vm, *vc1, *vc2, i); };
		group_knobs(S, B); S->knobs.push_back(RK("m", *vm, *m)); S->knobs.push_back(RK("c1", *vc1, *c1)); S->knobs.push_back(RK("c2", *vc2, *c2));
		S->label = fixed_labels({"c", "r"});
		emit(S, a, reps);
	}
	{   // re-masking proof
		System *S = new System; S->name = "remask"; S->p = Z(B->p); S->q = Z(B->q);
		Z *m = new Z, *c1 = new Z, *c2 = new Z, *r = new Z, *d1 = new Z, *d2 = new Z, *r2 = new Z;
		rand_elem(A, *m); A->VerifiableMaskingProtocol_Mask(*m, *c1, *c2, *r);
		A->VerifiableRemaskingProtocol_Mask(*c1, *c2, *d1, *d2, *r2);
		Z *v1 = new Z(*c1), *v2 = new Z(*c2), *w1 = new Z(*d1), *w2 = new Z(*d2);
		S->prover = [=](std::istream&, std::ostream &o) { A->VerifiableRemaskingProtocol_Prove(*c1, *c2, *d1, *d2, *r2, o); };
		S->verifier = [=](std::istream &i, std::ostream&) { return B->VerifiableRemaskingProtocol_Verify(*v1, *v2, *w1, *w2, i); };
		group_knobs(S, B);
		S->knobs.push_back(RK("c1", *v1, *c1)); S->knobs.push_back(RK("c2", *v2, *c2)); S->knobs.push_back(RK("cc1", *w1, *d1)); S->knobs.push_back(RK("cc2", *w2, *d2));
		S->label = fixed_labels({"c", "r"});
		emit(S, a, reps);
	}
	{   // decryption share proof: d_i, fingerprint, c, r
		System *S = new System; S->name = "decrypt"; S->p = Z(B->p); S->q = Z(B->q);
		Z *m = new Z, *c1 = new Z, *c2 = new Z, *r = new Z;
		rand_elem(A, *m); A->VerifiableMaskingProtocol_Mask(*m, *c1, *c2, *r);
		Z *v1 = new Z(*c1);
		S->prover = [=](std::istream&, std::ostream &o) { A->VerifiableDecryptionProtocol_Prove(*c1, o); };
		B->VerifiableDecryptionProtocol_Verify_Initialize(*c1);
		S->verifier = [=](std::istream &i, std::ostream&) { return B->VerifiableDecryptionProtocol_Verify_Update(*v1, i); };
		group_knobs(S, B, false); S->knobs.push_back(Knob{"c1", *v1, 'g'});
		for (auto &kv : B->h_j) S->knobs.push_back(Knob{"hj", kv.second, 'g'});
		S->label = fixed_labels({"di", "fp", "c", "r"});
		emit(S, a, reps);
	}
	for (int which = 0; which < 2; which++) {   // OR proof
		System *S = new System; S->name = "or"; S->variant = which ? "second" : "first"; S->p = Z(B->p); S->q = Z(B->q);
		Z *al = new Z, *y1 = new Z, *y2 = new Z;
		do A->MaskingValue(*al); while (0);
		if (which == 0) { mpz_powm(*y1, A->g, *al, A->p); rand_elem(A, *y2); } else { rand_elem(A, *y1); mpz_powm(*y2, A->h, *al, A->p); }
		Z *g1 = new Z(B->g), *g2 = new Z(B->h), *w1 = new Z(*y1), *w2 = new Z(*y2);
		S->prover = [=](std::istream&, std::ostream &o) { if (which == 0) A->OR_ProveFirst(*y1, *y2, A->g, A->h, *al, o); else A->OR_ProveSecond(*y1, *y2, A->g, A->h, *al, o); };
		S->verifier = [=](std::istream &i, std::ostream&) { return B->OR_Verify(*w1, *w2, *g1, *g2, i); };
		group_knobs(S, B);
		S->knobs.push_back(RK("y1", *w1, *y1)); S->knobs.push_back(RK("y2", *w2, *y2)); S->knobs.push_back(Knob{"g1", *g1, 'g'}); S->knobs.push_back(Knob{"g2", *g2, 'g'});
		S->label = fixed_labels({"c", "c", "r", "r"});
		emit(S, a, reps);
	}
	{   // card-level wrappers of the toolbox (VTMF encoding)
		SchindelhauerTMCG *T = new SchindelhauerTMCG(8, 2, 4);
		VTMF_Card *c = new VTMF_Card, *cc = new VTMF_Card; VTMF_CardSecret *cs = new VTMF_CardSecret;
		T->TMCG_CreateOpenCard(*c, A, 5); T->TMCG_CreateCardSecret(*cs, A); T->TMCG_MaskCard(*c, *cc, *cs, A);
		VTMF_Card *vc = new VTMF_Card(*c), *vcc = new VTMF_Card(*cc);
		System *S = new System; S->name = "maskcard"; S->p = Z(B->p); S->q = Z(B->q);
		S->prover = [=](std::istream &i, std::ostream &o) { T->TMCG_ProveMaskCard(*c, *cc, *cs, A, i, o); };
		S->verifier = [=](std::istream &i, std::ostream &o) { return T->TMCG_VerifyMaskCard(*vc, *vcc, B, i, o); };
		group_knobs(S, B);
		S->knobs.push_back(RK("c.c1", vc->c_1, c->c_1)); S->knobs.push_back(RK("c.c2", vc->c_2, c->c_2)); S->knobs.push_back(RK("cc.c1", vcc->c_1, cc->c_1)); S->knobs.push_back(RK("cc.c2", vcc->c_2, cc->c_2));
		S->label = fixed_labels({"c", "r"});
		emit(S, a, reps);
		System *S2 = new System; S2->name = "cardsecret"; S2->p = Z(B->p); S2->q = Z(B->q);
		S2->prover = [=](std::istream &i, std::ostream &o) { T->TMCG_ProveCardSecret(*cc, A, i, o); };
		T->TMCG_SelfCardSecret(*cc, B);
		S2->verifier = [=](std::istream &i, std::ostream &o) { return T->TMCG_VerifyCardSecret(*vcc, B, i, o); };
		group_knobs(S2, B, false); S2->knobs.push_back(Knob{"cc.c1", vcc->c_1, 'g'});
		S2->label = fixed_labels({"di", "fp", "c", "r"});
		emit(S2, a, reps);
	}
}

// ------------------------------------------------------------------------------------------------ stacks
struct Stacks {
	TMCG_Stack<VTMF_Card> s, s2, vs, vs2;        // vs/vs2: the verifier's copies (public-input knobs point here)
	TMCG_StackSecret<VTMF_CardSecret> ss;
};
static Stacks *make_stacks(SchindelhauerTMCG *T, BarnettSmartVTMF_dlog *A, size_t n, bool cyclic) {
	Stacks *K = new Stacks;
	for (size_t i = 0; i < n; i++) {
		VTMF_Card c;
		if (i % 2) { VTMF_CardSecret cs; T->TMCG_CreatePrivateCard(c, cs, A, i); } else T->TMCG_CreateOpenCard(c, A, i);
		K->s.push(c);
	}
	T->TMCG_CreateStackSecret(K->ss, cyclic, n, A);
	T->TMCG_MixStack(K->s, K->s2, K->ss, A);
	K->vs = K->s; K->vs2 = K->s2;
	return K;
}
static void stack_knobs(System *S, Stacks *K) {
	for (size_t i = 0; i < K->vs.size(); i++) {
		S->knobs.push_back(RK("s" + std::to_string(i) + ".c1", K->vs[i].c_1, K->s[i].c_1)); S->knobs.push_back(RK("s" + std::to_string(i) + ".c2", K->vs[i].c_2, K->s[i].c_2));
		S->knobs.push_back(RK("t" + std::to_string(i) + ".c1", K->vs2[i].c_1, K->s2[i].c_1)); S->knobs.push_back(RK("t" + std::to_string(i) + ".c2", K->vs2[i].c_2, K->s2[i].c_2));
	}
}

static void cutchoose_systems(World &W, const Args &a) {
	BarnettSmartVTMF_dlog *A = W.A, *B = W.B;
	std::vector<size_t> ns = a.thorough() ? std::vector<size_t>{2, 3, 5} : std::vector<size_t>{3};
	unsigned long kappa = a.thorough() ? 8 : 6;
	for (size_t n : ns) for (int cyc = 0; cyc < 2; cyc++) {
		SchindelhauerTMCG *T = new SchindelhauerTMCG(kappa, 2, 4);
		Stacks *K = make_stacks(T, A, n, cyc);
		System *S = new System; S->name = std::string("cutchoose") + (cyc ? "_cyc" : ""); S->interactive = true; S->p = Z(B->p); S->q = Z(B->q);
		S->prover = [=](std::istream &i, std::ostream &o) { T->TMCG_ProveStackEquality(K->s, K->s2, K->ss, cyc, A, i, o); };
		S->verifier = [=](std::istream &i, std::ostream &o) { return T->TMCG_VerifyStackEquality(K->vs, K->vs2, cyc, B, i, o); };
		group_knobs(S, B); stack_knobs(S, K);
		// the re-proved-statement oracle uses 40 rounds: with few rounds a tampered INPUT stack survives with probability
		// 2^-kappa (all challenges select the other stack), which is the protocol's soundness error, not a defect
		SchindelhauerTMCG *T40 = new SchindelhauerTMCG(40, 2, 4);
		S->rprover = [=](std::istream &i, std::ostream &o) { T40->TMCG_ProveStackEquality(K->s, K->s2, K->ss, cyc, A, i, o); };
		S->rverifier = [=](std::istream &i, std::ostream &o) { return T40->TMCG_VerifyStackEquality(K->vs, K->vs2, cyc, B, i, o); };
		// per round: commitment, then sts ^ n ^ (index ^ crs|r|)*n
		S->label = [n](size_t i, size_t tot) { size_t per = 3 + 3 * n; if (tot % per) return std::string("tok"); size_t k = i % per;
			if (k == 0) return std::string("commit"); if (k == 2) return std::string("size"); if (k < 3) return std::string("magic");
			return (k - 3) % 3 == 0 ? std::string("index") : (k - 3) % 3 == 2 ? std::string("secret") : std::string("magic"); };
		// the statement's two stacks are both used only if both challenge values occur; otherwise take new coins
		S->tol = nullptr;
		for (int tries = 0; tries < 20; tries++) {
			uint64_t keep = gen().s;
			uint64_t sp = gen().next(), sv = gen().next(); std::string p2v, v2p;
			run_pair(sp, sv, S->prover, S->verifier, p2v, v2p);
			bool has0 = v2p.find("\n0\n") != std::string::npos, has1 = v2p.find("\n1\n") != std::string::npos;
			if (has0 && has1) { gen().s = keep; break; }
		}
		emit(S, a, 1);
	}
}

static void groth_systems(World &W, const Args &a) {
	BarnettSmartVTMF_dlog *A = W.A, *B = W.B;
	std::vector<size_t> ns = a.thorough() ? std::vector<size_t>{2, 3, 5} : std::vector<size_t>{3};
	unsigned long le = W.gsz / 4;   // l_e_nizk = 2 l_e = |q|/2: honest f_i >= 2^{l_e_nizk} except with negligible probability
	for (size_t n : ns) {
		SchindelhauerTMCG *T = new SchindelhauerTMCG(8, 2, 4);
		GrothVSSHE *va = new GrothVSSHE(n, A->p, A->q, A->k, A->g, A->h, le, W.fsz, W.gsz);
		std::stringstream pg; va->PublishGroup(pg);
		for (int ni = 0; ni < 2; ni++) {
			std::stringstream pg2(pg.str());
			GrothVSSHE *vb = new GrothVSSHE(n, pg2, le, W.fsz, W.gsz);
			Stacks *K = make_stacks(T, A, n, false);
			System *S = new System; S->name = ni ? "groth_ni" : "groth_int"; S->interactive = !ni; S->p = Z(B->p); S->q = Z(B->q);
			if (ni) {
				S->prover = [=](std::istream&, std::ostream &o) { T->TMCG_ProveStackEquality_Groth_noninteractive(K->s, K->s2, K->ss, A, va, o); };
				S->verifier = [=](std::istream &i, std::ostream&) { return T->TMCG_VerifyStackEquality_Groth_noninteractive(K->vs, K->vs2, B, vb, i); };
			} else {
				S->prover = [=](std::istream &i, std::ostream &o) { T->TMCG_ProveStackEquality_Groth(K->s, K->s2, K->ss, A, va, i, o); };
				S->verifier = [=](std::istream &i, std::ostream &o) { return T->TMCG_VerifyStackEquality_Groth(K->vs, K->vs2, B, vb, i, o); };
			}
			stack_knobs(S, K);
			S->knobs.push_back(Knob{"vsshe.p", vb->p, 'p'}); S->knobs.push_back(Knob{"vsshe.q", vb->q, 'q'}); S->knobs.push_back(Knob{"vsshe.g", vb->g, 'g'}); S->knobs.push_back(Knob{"vsshe.h", vb->h, 'g'});
			S->knobs.push_back(Knob{"com.p", vb->com->p, 'p'}); S->knobs.push_back(Knob{"com.q", vb->com->q, 'q'});
			// the generators (and h) of the outer commitment object are "in use" only in the non-interactive hash chain;
			// the commitments themselves are verified with the copy held by the SKC sub-argument (skc.com.*)
			if (ni) { S->knobs.push_back(Knob{"com.h", vb->com->h, 'g'}); for (size_t i = 0; i < n; i++) S->knobs.push_back(Knob{"com.g" + std::to_string(i), vb->com->g[i], 'g'}); }
			// since 25cc964 these responses must be in [0,q) (f_i of the outer argument in (0,q)): a negative representative is refused
			S->strict = {"f", "Z", "skc_f", "skc_z", "skc_fD", "skc_zD"};
			S->label = [n, ni](size_t i, size_t tot) {
				std::vector<std::string> L = {"c", "cd", "Ed", "Ed"};
				auto rep = [&](const char *x, size_t k) { for (size_t j = 0; j < k; j++) L.push_back(x); };
				if (!ni) rep("coin", 3 * n);
				rep("f", n); rep("Z", 1);
				if (!ni) rep("coin", 6);
				rep("skc_c", 3);
				if (!ni) rep("coin", 3);
				rep("skc_f", n); rep("skc_z", 1); rep("skc_fD", n - 1); rep("skc_zD", 1);
				return (L.size() == tot && i < tot) ? L[i] : std::string("tok");
			};
			S->knobs.push_back(Knob{"skc.com.p", vb->skc->com->p, 'p'}); S->knobs.push_back(Knob{"skc.com.q", vb->skc->com->q, 'q'}); S->knobs.push_back(Knob{"skc.com.h", vb->skc->com->h, 'g'});
			for (size_t i = 0; i < n; i++) S->knobs.push_back(Knob{"skc.com.g" + std::to_string(i), vb->skc->com->g[i], 'g'});
			emit(S, a, 1);
		}
	}
}

static void hoogh_systems(World &W, const Args &a) {
	BarnettSmartVTMF_dlog *A = W.A, *B = W.B;
	std::vector<size_t> ns = a.thorough() ? std::vector<size_t>{2, 3, 5} : std::vector<size_t>{3};
	for (size_t n : ns) {
		SchindelhauerTMCG *T = new SchindelhauerTMCG(8, 2, 4);
		HooghSchoenmakersSkoricVillegasVRHE *ra = new HooghSchoenmakersSkoricVillegasVRHE(A->p, A->q, A->g, A->h, W.fsz, W.gsz);
		for (int ni = 0; ni < 2; ni++) {
			HooghSchoenmakersSkoricVillegasVRHE *rb = new HooghSchoenmakersSkoricVillegasVRHE(B->p, B->q, B->g, B->h, W.fsz, W.gsz);
			Stacks *K = make_stacks(T, A, n, true);
			System *S = new System; S->name = ni ? "hoogh_ni" : "hoogh_int"; S->interactive = !ni; S->p = Z(B->p); S->q = Z(B->q);
			if (ni) {
				S->prover = [=](std::istream&, std::ostream &o) { T->TMCG_ProveStackEquality_Hoogh_noninteractive(K->s, K->s2, K->ss, A, ra, o); };
				S->verifier = [=](std::istream &i, std::ostream&) { return T->TMCG_VerifyStackEquality_Hoogh_noninteractive(K->vs, K->vs2, B, rb, i); };
			} else {
				S->prover = [=](std::istream &i, std::ostream &o) { T->TMCG_ProveStackEquality_Hoogh(K->s, K->s2, K->ss, A, ra, i, o); };
				S->verifier = [=](std::istream &i, std::ostream &o) { return T->TMCG_VerifyStackEquality_Hoogh(K->vs, K->vs2, B, rb, i, o); };
			}
			stack_knobs(S, K);
			S->knobs.push_back(Knob{"vrhe.p", rb->p, 'p'}); S->knobs.push_back(Knob{"vrhe.q", rb->q, 'q'}); S->knobs.push_back(Knob{"vrhe.g", rb->g, 'g'}); S->knobs.push_back(Knob{"vrhe.h", rb->h, 'g'});
			S->knobs.push_back(Knob{"pubrot.p", rb->pub_rot_zk->p, 'p'}); S->knobs.push_back(Knob{"pubrot.q", rb->pub_rot_zk->q, 'q'}); S->knobs.push_back(Knob{"pubrot.g", rb->pub_rot_zk->g, 'g'}); S->knobs.push_back(Knob{"pubrot.h", rb->pub_rot_zk->h, 'g'});
			emit(S, a, 1);
		}
	}
}

static void pedersen_systems(World &W, const Args &a) {
	size_t n = a.thorough() ? 4 : 2;
	PedersenCommitmentScheme *com = new PedersenCommitmentScheme(n, W.fsz, W.gsz);
	std::vector<mpz_ptr> *m = new std::vector<mpz_ptr>;
	for (size_t i = 0; i < n; i++) { mpz_ptr t = new mpz_t(); mpz_init(t); tmcg_mpz_srandomm(t, com->q); m->push_back(t); }
	Z *c = new Z, *r = new Z;
	com->Commit(*c, *r, *m);
	System *S = new System; S->name = "pedersen"; S->p = Z(com->p); S->q = Z(com->q);
	S->prover = [=](std::istream&, std::ostream &o) { o << (mpz_srcptr)*c << std::endl << (mpz_srcptr)*r << std::endl; for (size_t i = 0; i < n; i++) o << (*m)[i] << std::endl; };
	S->verifier = [=](std::istream &i, std::ostream&) {
		Z cc, rr; std::vector<Z> mm(n); std::vector<mpz_ptr> mp;
		i >> (mpz_ptr)cc >> (mpz_ptr)rr; for (size_t k = 0; k < n; k++) { i >> (mpz_ptr)mm[k]; mp.push_back(mm[k]); }
		if (!i.good()) return false;
		return com->Verify(cc, rr, mp);
	};
	// q enters an opening only through the range check r < q; it is not a knob here (an equation modulo p cannot bind it)
	S->knobs.push_back(Knob{"p", com->p, 'p'}); S->knobs.push_back(Knob{"h", com->h, 'g'});
	for (size_t i = 0; i < n; i++) S->knobs.push_back(Knob{"g" + std::to_string(i), com->g[i], 'g'});
	S->strict = {"r"};   // since 25cc964: 0 <= r < q
	S->label = [](size_t i, size_t) { return i == 0 ? std::string("c") : i == 1 ? std::string("r") : std::string("m"); };
	emit(S, a, a.thorough() ? 4 : 2);
}


// ------------------------------------------------------------------------------------------------ records
static std::string zl(const std::vector<Z> &v) { if (v.empty()) return "_"; std::string r; for (size_t i = 0; i < v.size(); i++) { if (i) r += ","; r += hx(v[i]); } return r; }
// the oracle table of everything hashed since logging was switched on: "k1,k2,..:v;..."
static std::string table_token() {
	bool keep = g_hash_logging; g_hash_logging = false;
	std::string r; std::set<std::string> seen;
	for (auto &x : g_hash_log) {
		if (seen.count(x)) continue; seen.insert(x);
		std::vector<Z> ks; bool ok = !x.empty() && x.back() == '|'; size_t i = 0;
		while (ok && i < x.size()) { size_t j = x.find('|', i); if (j == std::string::npos) { ok = false; break; } Z v; if (j == i || mpz_set_str(v, x.substr(i, j - i).c_str(), 16) != 0) { ok = false; break; } ks.push_back(v); i = j + 1; }
		if (!ok || ks.empty()) continue;
		Z h; tmcg_mpz_shash(h, x);
		if (!r.empty()) r += ";";
		r += zl(ks) + ":" + hx(h);
	}
	g_hash_logging = keep;
	return r.empty() ? "_" : r;
}
static void grp_tokens(Rec &R, BarnettSmartVTMF_dlog *V) {
	R.z(V->p).z(V->q).z(V->g).z(V->h).z(V->fpowm_table_g[0]).z(V->fpowm_table_h[0]).u(tmcg_mpz_shash_len() * 8);
}
template<class F> static int logged_verdict(F f) {
	g_hash_log.clear(); g_hash_logging = true; int v;
	try { v = f() ? 1 : 0; } catch (...) { v = 2; }
	g_hash_logging = false; return v;
}
// every single-value variant of a vector of values (honest first), knobs of the verifier object included
static void variants(std::vector<Z> vals, BarnettSmartVTMF_dlog *V, bool knobs, const std::function<void(const std::vector<Z>&)> &f) {
	f(vals);
	SplitMix64 rg(gen().next());
	for (size_t i = 0; i < vals.size(); i++) {
		Z keep = vals[i];
		for (auto &m : catalogue(keep, V->p, V->q, rg)) {
			if (m.name == "huge" && false) continue;
			vals[i] = m.val; f(vals);
		}
		vals[i] = keep;
	}
	if (knobs) {
		mpz_ptr ks[4] = { V->p, V->q, V->g, V->h };
		for (int k = 0; k < 4; k++) {
			Z keep(ks[k]);
			for (int d = 1; d <= 2; d++) { mpz_add_ui(ks[k], keep, 2 * d); f(vals); }
			mpz_set(ks[k], keep);
		}
	}
}
static std::string lines(std::initializer_list<mpz_srcptr> l) { std::ostringstream o; for (auto z : l) o << z << std::endl; return o.str(); }

static void fsser_records(const Args &a) {
	int n = a.thorough() ? 400 : 120;
	for (int it = 0; it < n; it++) {
		size_t k = 1 + gen().below(6), nv = gen().below(4), nw = gen().below(3);
		auto rnd = [&](Z &z) { unsigned sel = gen().below(8); if (sel == 0) mpz_set_ui(z, 0); else if (sel == 1) mpz_set_ui(z, gen().below(17)); else gen_bits(z, 1 + gen().below(300)); if (sel >= 6) mpz_neg(z, z);
			if (sel == 2) { mpz_set_ui(z, 1); mpz_mul_2exp(z, z, 4 * gen().below(40)); if (gen().coin()) mpz_sub_ui(z, z, 1); } };
		std::vector<Z> sc(k), v(nv), w(nw), pa(2 * nv), pb(2 * nv);
		for (auto &z : sc) rnd(z); for (auto &z : v) rnd(z); for (auto &z : w) rnd(z); for (auto &z : pa) rnd(z); for (auto &z : pb) rnd(z);
		std::vector<mpz_ptr> vp, wp; for (auto &z : v) vp.push_back(z); for (auto &z : w) wp.push_back(z);
		std::vector<std::pair<mpz_ptr, mpz_ptr> > pv, pw; for (size_t i = 0; i < nv; i++) { pv.push_back({pa[2 * i], pa[2 * i + 1]}); pw.push_back({pb[2 * i], pb[2 * i + 1]}); }
		mpz_srcptr s[6]; for (size_t i = 0; i < 6; i++) s[i] = sc[i < k ? i : 0];
		Z r; std::vector<Z> all;
		int form = gen().below(5);
		g_hash_log.clear(); g_hash_logging = true;
		switch (form) {
		case 0: switch (k) { case 1: tmcg_mpz_shash(r, 1, s[0]); break; case 2: tmcg_mpz_shash(r, 2, s[0], s[1]); break; case 3: tmcg_mpz_shash(r, 3, s[0], s[1], s[2]); break;
			case 4: tmcg_mpz_shash(r, 4, s[0], s[1], s[2], s[3]); break; case 5: tmcg_mpz_shash(r, 5, s[0], s[1], s[2], s[3], s[4]); break; default: tmcg_mpz_shash(r, 6, s[0], s[1], s[2], s[3], s[4], s[5]); }
			break;
		case 1: tmcg_mpz_shash_1vec(r, vp, 2, s[0], s[1]); all = v; break;
		case 2: tmcg_mpz_shash_2vec(r, vp, wp, 3, s[0], s[1], s[2]); all = v; all.insert(all.end(), w.begin(), w.end()); break;
		case 3: tmcg_mpz_shash_2pairvec(r, pv, pw, 1, s[0]); all = pa; all.insert(all.end(), pb.begin(), pb.end()); break;
		default: tmcg_mpz_shash_2pairvec2vec(r, pv, pw, vp, wp, 2, s[0], s[1]); all = pa; all.insert(all.end(), pb.begin(), pb.end()); all.insert(all.end(), v.begin(), v.end()); all.insert(all.end(), w.begin(), w.end()); break;
		}
		g_hash_logging = false;
		size_t used = form == 0 ? k : form == 1 ? 2 : form == 2 ? 3 : form == 3 ? 1 : 2; if (form == 0 && k > 6) used = 6;
		for (size_t i = 0; i < used; i++) all.push_back(sc[i < k ? i : 0]);
		if (g_hash_log.size() != 1) { printf("NOTE fsser: %zu strings logged for one call\n", g_hash_log.size()); continue; }
		Rec("fsser").t(zl(all)).b(g_hash_log[0]);
	}
}


// Pedersen opening / membership test and the non-interactive shuffle-of-known-content verifier (no batch verification)
static void skc_records(const Args &a) {
	size_t n = 3;
	GrothSKC *skc = new GrothSKC(n, 16, a.thorough() ? 160 : 128, a.thorough() ? 80 : 64);
	PedersenCommitmentScheme *com = skc->com;
	auto key_tokens = [&](Rec &R) { R.z(com->p).z(com->q).z(com->h); std::vector<Z> g; for (size_t i = 0; i < com->g.size(); i++) g.push_back(Z(com->g[i])); R.t(zl(g)); };
	auto variants2 = [&](std::vector<Z> vals, const std::function<void(const std::vector<Z>&)> &f) {
		f(vals); SplitMix64 rg(gen().next());
		for (size_t i = 0; i < vals.size(); i++) { Z keep = vals[i]; for (auto &m : catalogue(keep, com->p, com->q, rg)) { vals[i] = m.val; f(vals); } vals[i] = keep; }
	};
	int reps = a.thorough() ? 3 : 1;
	for (int rep = 0; rep < reps; rep++) {
		std::vector<Z> m(n); std::vector<mpz_ptr> mp; for (auto &z : m) { tmcg_mpz_srandomm(z, com->q); mp.push_back(z); }
		{   // opening (c, r, m_1..m_n) and membership of c
			Z c, r; com->Commit(c, r, mp);
			std::vector<Z> v = {c, r}; v.insert(v.end(), m.begin(), m.end());
			variants2(v, [&](const std::vector<Z> &x) {
				std::vector<mpz_ptr> xm; std::vector<Z> xs(x.begin() + 2, x.end()); for (auto &z : xs) xm.push_back(z);
				int out; try { out = com->Verify(x[0], x[1], xm) ? 1 : 0; } catch (...) { out = 2; }
				{ Rec R("pedv"); key_tokens(R); R.z(x[0]).z(x[1]).t(zl(xs)).d(out); }
				{ Rec R("tmv"); key_tokens(R); R.z(x[0]).d(com->TestMembership(x[0]) ? 1 : 0); } });
		}
		// statement: c commits to the permuted messages
		std::vector<size_t> pi; for (size_t i = 0; i < n; i++) pi.push_back(i);
		for (size_t i = n - 1; i > 0; i--) std::swap(pi[i], pi[gen().below(i + 1)]);
		Z r, c; tmcg_mpz_srandomm(r, com->q);
		std::string proof; bool ok = false;
		for (int conv = 0; conv < 2 && !ok; conv++) {
			std::vector<mpz_ptr> perm(n); for (size_t i = 0; i < n; i++) { if (conv == 0) perm[i] = m[pi[i]]; else perm[pi[i]] = m[i]; }
			com->CommitBy(c, r, perm);
			std::ostringstream o; skc->Prove_noninteractive(pi, r, mp, o); proof = o.str();
			std::istringstream i(proof); ok = skc->Verify_noninteractive(c, mp, i, false);
		}
		if (!ok) { printf("NOTE rec skc: honest proof not accepted\n"); continue; }
		std::vector<Atom> at = atoms_of(proof);
		if (at.size() != 3 + n + 1 + (n - 1) + 1) { printf("NOTE rec skc: unexpected transcript shape (%zu tokens)\n", at.size()); continue; }
		std::vector<Z> v; v.push_back(c); v.insert(v.end(), m.begin(), m.end());
		for (auto &t : at) { Z x; from_b62(x, proof.substr(t.pos, t.len)); v.push_back(x); }
		variants2(v, [&](const std::vector<Z> &x) {
			std::vector<Z> xm(x.begin() + 1, x.begin() + 1 + n); std::vector<mpz_ptr> xmp; for (auto &z : xm) xmp.push_back(z);
			std::ostringstream o; for (size_t i = 1 + n; i < x.size(); i++) o << (mpz_srcptr)x[i] << std::endl;
			int out = logged_verdict([&] { std::istringstream i(o.str()); return skc->Verify_noninteractive(x[0], xmp, i, false); });
			size_t b = 1 + n;
			std::vector<Z> f(x.begin() + b + 3, x.begin() + b + 3 + n), fD(x.begin() + b + 3 + n + 1, x.begin() + b + 3 + n + 1 + (n - 1));
			Rec R("skcv"); key_tokens(R); R.u(skc->l_e_nizk).z(x[0]).t(zl(xm)).z(x[b]).z(x[b + 1]).z(x[b + 2]).t(zl(f)).z(x[b + 3 + n]).t(zl(fD)).z(x[b + 3 + n + 1 + (n - 1)]).t(table_token()).d(out); });
	}
	delete skc;
}

static void verifier_records(const Args &a) {
	World W(a.thorough() ? 160 : 128, a.thorough() ? 80 : 64);
	BarnettSmartVTMF_dlog *A = W.A, *B = W.B;
	int reps = a.thorough() ? 2 : 1;
	for (int rep = 0; rep < reps; rep++) {
		{   // KeyGenerationProtocol_VerifyNIZK(foo, c, r)
			Z c, r; A->KeyGenerationProtocol_ComputeNIZK(c, r);
			variants({Z(A->h_i), c, r}, B, true, [&](const std::vector<Z> &v) {
				int out = logged_verdict([&] { return B->KeyGenerationProtocol_VerifyNIZK(v[0], v[1], v[2]); });
				Rec R("keyv"); grp_tokens(R, B); R.z(v[0]).z(v[1]).z(v[2]).t(table_token()).d(out); });
		}
		{   // interactive key-share proof: the verifier's challenge is read off its output
			std::string p2v, v2p; uint64_t sp = gen().next(), sv = gen().next();
			Z key(A->h_i);
			VerifierFn ver = [&](std::istream &i, std::ostream &o) { return B->KeyGenerationProtocol_VerifyKey_interactive(key, i, o); };
			int hv = run_pair(sp, sv, [&](std::istream &i, std::ostream &o) { A->KeyGenerationProtocol_ProveKey_interactive(i, o); }, ver, p2v, v2p);
			std::vector<Atom> at = atoms_of(p2v);
			if (hv == 1 && at.size() == 2) {
				Z m1, m2; from_b62(m1, p2v.substr(at[0].pos, at[0].len)); from_b62(m2, p2v.substr(at[1].pos, at[1].len));
				variants({key, m1, m2}, B, true, [&](const std::vector<Z> &v) {
					mpz_set(key, v[0]); std::string out2;
					int out = replay_verifier(sv, lines({v[1], v[2]}), ver, &out2);
					Z c; std::vector<Atom> ca = atoms_of(out2);
					if (ca.empty()) return;                  // refused before the challenge was sent
					from_b62(c, out2.substr(ca[0].pos, ca[0].len));
					Rec R("keyintv"); grp_tokens(R, B); R.z(v[0]).z(v[1]).z(c).z(v[2]).d(out); });
				mpz_set(key, A->h_i);
			} else printf("NOTE rec keyint: honest run verdict %d\n", hv);
		}
		Z m, c1, c2, r, d1, d2, r2;
		B->RandomElement(m); A->VerifiableMaskingProtocol_Mask(m, c1, c2, r); A->VerifiableRemaskingProtocol_Mask(c1, c2, d1, d2, r2);
		auto two = [](const std::string &t, Z &c, Z &rr) { std::vector<Atom> at = atoms_of(t); from_b62(c, t.substr(at[at.size() - 2].pos, at[at.size() - 2].len)); from_b62(rr, t.substr(at[at.size() - 1].pos, at[at.size() - 1].len)); };
		{   // masking proof, and CP_Verify directly with and without tables
			std::ostringstream o; A->VerifiableMaskingProtocol_Prove(m, c1, c2, r, o); Z c, rr; two(o.str(), c, rr);
			variants({m, c1, c2, c, rr}, B, true, [&](const std::vector<Z> &v) {
				int out = logged_verdict([&] { std::istringstream i(lines({v[3], v[4]})); return B->VerifiableMaskingProtocol_Verify(v[0], v[1], v[2], i); });
				Rec R("maskv"); grp_tokens(R, B); R.z(v[0]).z(v[1]).z(v[2]).z(v[3]).z(v[4]).t(table_token()).d(out); });
			Z mi, y; mpz_invert(mi, m, B->p); mpz_mul(y, mi, c2); mpz_mod(y, y, B->p);
			for (int fp = 1; fp >= 0; fp--)
				variants({c1, y, Z(B->g), Z(B->h), c, rr}, B, fp == 1, [&](const std::vector<Z> &v) {
					if (!fp && mpz_sgn(v[5].v) < 0 && (mpz_divisible_p(v[2], B->p) || mpz_divisible_p(v[3], B->p))) return;
					int out = logged_verdict([&] { std::istringstream i(lines({v[4], v[5]})); return B->CP_Verify(v[0], v[1], v[2], v[3], i, fp == 1); });
					Rec R("cpv"); grp_tokens(R, B); R.z(v[0]).z(v[1]).z(v[2]).z(v[3]).z(v[4]).z(v[5]).d(fp).t(table_token()).d(out); });
		}
		{   // re-masking proof
			std::ostringstream o; A->VerifiableRemaskingProtocol_Prove(c1, c2, d1, d2, r2, o); Z c, rr; two(o.str(), c, rr);
			variants({c1, c2, d1, d2, c, rr}, B, true, [&](const std::vector<Z> &v) {
				int out = logged_verdict([&] { std::istringstream i(lines({v[4], v[5]})); return B->VerifiableRemaskingProtocol_Verify(v[0], v[1], v[2], v[3], i); });
				Rec R("remaskv"); grp_tokens(R, B); R.z(v[0]).z(v[1]).z(v[2]).z(v[3]).z(v[4]).z(v[5]).t(table_token()).d(out); });
		}
		{   // decryption share: d_j, fingerprint, c, r
			std::ostringstream o; A->VerifiableDecryptionProtocol_Prove(c1, o); std::string t = o.str(); std::vector<Atom> at = atoms_of(t);
			Z dj, fp, c, rr; from_b62(dj, t.substr(at[0].pos, at[0].len)); from_b62(fp, t.substr(at[1].pos, at[1].len)); two(t, c, rr);
			B->VerifiableDecryptionProtocol_Verify_Initialize(c1);
			variants({c1, dj, fp, c, rr}, B, true, [&](const std::vector<Z> &v) {
				std::ostringstream f; f << (mpz_srcptr)v[2]; std::string hj = B->h_j.count(f.str()) ? hx(B->h_j[f.str()]) : std::string("none");
				int out = logged_verdict([&] { std::istringstream i(lines({v[1], v[2], v[3], v[4]})); return B->VerifiableDecryptionProtocol_Verify_Update(v[0], i); });
				Rec R("decv"); grp_tokens(R, B); R.z(v[0]).t(hj).z(v[1]).z(v[3]).z(v[4]).t(table_token()).d(out); });
		}
		for (int which = 0; which < 2; which++) {   // OR proof
			Z al, y1, y2; A->MaskingValue(al);
			if (which == 0) { mpz_powm(y1, A->g, al, A->p); B->RandomElement(y2); } else { B->RandomElement(y1); mpz_powm(y2, A->h, al, A->p); }
			std::ostringstream o; if (which == 0) A->OR_ProveFirst(y1, y2, A->g, A->h, al, o); else A->OR_ProveSecond(y1, y2, A->g, A->h, al, o);
			std::string t = o.str(); std::vector<Atom> at = atoms_of(t); Z x[4]; for (int i = 0; i < 4; i++) from_b62(x[i], t.substr(at[i].pos, at[i].len));
			variants({y1, y2, Z(B->g), Z(B->h), x[0], x[1], x[2], x[3]}, B, true, [&](const std::vector<Z> &v) {
				// mpz_powm with a negative exponent needs an invertible base (GMP divides by zero otherwise): not generated
				for (int i = 0; i < 4; i++) if (mpz_sgn(v[4 + i].v) < 0) { int b = (i == 0) ? 0 : (i == 1) ? 1 : (i == 2) ? 2 : 3; if (mpz_divisible_p(v[b], B->p)) return; }
				int out = logged_verdict([&] { std::istringstream i(lines({v[4], v[5], v[6], v[7]})); return B->OR_Verify(v[0], v[1], v[2], v[3], i); });
				Rec R("orv"); grp_tokens(R, B); for (int i = 0; i < 8; i++) R.z(v[i]); R.t(table_token()).d(out); });
		}
	}
}


// ------------------------------------------------------------------------------------------------ QR encoding
// Rabin-type values: r and m - r have the same square, and everything is computed modulo m, so an accepted mutant is
// tolerated iff it equals +-old modulo m (same square / same residue; DESIGN O2: these verifiers do not range-check).
static void qr_systems(const Args &a) {
	unsigned long ksz = 512;
	TMCG_SecretKey *secA = new TMCG_SecretKey("Alice", "alice@example.org", ksz), *secB = new TMCG_SecretKey("Bob", "bob@example.org", ksz);
	TMCG_PublicKey *pubA = new TMCG_PublicKey(*secA), *pubB = new TMCG_PublicKey(*secB);
	if (!pubA->check() || !pubB->check()) { printf("NOTE qr: generated keys do not pass check()\n"); return; }
	TMCG_PublicKeyRing *ring = new TMCG_PublicKeyRing(2), *vring = new TMCG_PublicKeyRing(2);
	ring->keys[0] = *pubA; ring->keys[1] = *pubB; vring->keys[0] = *pubA; vring->keys[1] = *pubB;
	Z *mA = new Z(pubA->m);
	auto tolm = [mA](mpz_srcptr o, mpz_srcptr n) {
		// bit-valued tokens (the b components of a card secret, challenge answers): only the parity is used
		if (mpz_cmp_ui(o, 1) <= 0 && mpz_sgn(o) >= 0) return mpz_odd_p(o) == mpz_odd_p(n);
		Z x, y, z; mpz_mod(x, o, *mA); mpz_mod(y, n, *mA); mpz_sub(z, *mA, y); return mpz_cmp(x, y) == 0 || mpz_cmp(x, z) == 0; };
	auto key_knobs = [vring](System *S) {
		for (size_t i = 0; i < 2; i++) { S->knobs.push_back(Knob{"key" + std::to_string(i) + ".m", vring->keys[i].m, 'm'}); S->knobs.push_back(Knob{"key" + std::to_string(i) + ".y", vring->keys[i].y, 'm'}); }
	};
	size_t tb = 3;
	{   // cut and choose on TMCG_Card stacks
		std::vector<size_t> ns = a.thorough() ? std::vector<size_t>{2, 3} : std::vector<size_t>{3};
		unsigned long kappa = a.thorough() ? 6 : 5;
		for (size_t n : ns) for (int cyc = 0; cyc < 2; cyc++) {
			SchindelhauerTMCG *T = new SchindelhauerTMCG(kappa, 2, tb);
			TMCG_Stack<TMCG_Card> *s = new TMCG_Stack<TMCG_Card>, *s2 = new TMCG_Stack<TMCG_Card>, *vs = new TMCG_Stack<TMCG_Card>, *vs2 = new TMCG_Stack<TMCG_Card>;
			TMCG_StackSecret<TMCG_CardSecret> *ss = new TMCG_StackSecret<TMCG_CardSecret>;
			for (size_t i = 0; i < n; i++) { TMCG_Card c(2, tb); T->TMCG_CreateOpenCard(c, *ring, i); s->push(c); }
			T->TMCG_CreateStackSecret(*ss, cyc, *ring, 0, n);
			T->TMCG_MixStack(*s, *s2, *ss, *ring);
			*vs = *s; *vs2 = *s2;
			System *S = new System; S->name = std::string("qr_cutchoose") + (cyc ? "_cyc" : ""); S->interactive = true; S->p = *mA; S->q = *mA; S->tol = tolm;
			S->prover = [=](std::istream &i, std::ostream &o) { T->TMCG_ProveStackEquality(*s, *s2, *ss, cyc, *ring, 0, i, o); };
			S->verifier = [=](std::istream &i, std::ostream &o) { return T->TMCG_VerifyStackEquality(*vs, *vs2, cyc, *vring, i, o); };
			for (size_t i = 0; i < n; i++) for (size_t k = 0; k < 2; k++) for (size_t w = 0; w < tb; w++) {
				S->knobs.push_back(Knob{"s.z", &(*vs)[i].z[k][w], 'm'}); S->knobs.push_back(Knob{"t.z", &(*vs2)[i].z[k][w], 'm'}); }
			key_knobs(S);
			for (int tries = 0; tries < 20; tries++) {
				uint64_t keep = gen().s; uint64_t sp = gen().next(), sv = gen().next(); std::string p2v, v2p;
				run_pair(sp, sv, S->prover, S->verifier, p2v, v2p);
				if (v2p.find("\n0\n") != std::string::npos && v2p.find("\n1\n") != std::string::npos) { gen().s = keep; break; }
			}
			emit(S, a, 1);
		}
	}
	{   // masking proof and card-secret proof on single cards
		// kappa = 40: a changed card entry is noticed only in the rounds whose challenge bit selects it, so with few rounds
		// an unchanged transcript survives a changed public input with probability 2^-kappa per entry (soundness error of the
		// protocol, not a defect); 2^-40 makes that negligible for the oracle
		SchindelhauerTMCG *T = new SchindelhauerTMCG(40, 2, tb);
		TMCG_Card *c = new TMCG_Card(2, tb), *cc = new TMCG_Card(2, tb), *vc = new TMCG_Card(2, tb), *vcc = new TMCG_Card(2, tb);
		TMCG_CardSecret *cs = new TMCG_CardSecret(2, tb);
		// key.y enters TMCG_VerifyCardSecret only through the non-residue branch (t = bar * y): the masked card is re-drawn until
		// at least one entry of the prover's row is a non-residue (b = 1), otherwise the proof does not speak about y at all
		for (int tries = 0; tries < 200; tries++) {
			T->TMCG_CreateOpenCard(*c, *ring, 5); T->TMCG_CreateCardSecret(*cs, *ring, 0); T->TMCG_MaskCard(*c, *cc, *cs, *ring);
			TMCG_CardSecret own(2, tb); T->TMCG_SelfCardSecret(*cc, own, *secA, 0);
			bool uses_y = false; for (size_t w = 0; w < tb; w++) if (mpz_get_ui(&own.b[0][w]) & 1UL) uses_y = true;
			if (uses_y) break;
		}
		*vc = *c; *vcc = *cc;
		System *S = new System; S->name = "qr_maskcard"; S->interactive = true; S->p = *mA; S->q = *mA; S->tol = tolm;
		S->prover = [=](std::istream &i, std::ostream &o) { T->TMCG_ProveMaskCard(*c, *cc, *cs, *ring, i, o); };
		S->verifier = [=](std::istream &i, std::ostream &o) { return T->TMCG_VerifyMaskCard(*vc, *vcc, *vring, i, o); };
		for (size_t k = 0; k < 2; k++) for (size_t w = 0; w < tb; w++) { S->knobs.push_back(Knob{"c.z", &vc->z[k][w], 'm'}); S->knobs.push_back(Knob{"cc.z", &vcc->z[k][w], 'm'}); }
		key_knobs(S);
		emit(S, a, 1);
		System *S2 = new System; S2->name = "qr_cardsecret"; S2->interactive = true; S2->p = *mA; S2->q = *mA; S2->tol = tolm;
		S2->prover = [=](std::istream &i, std::ostream &o) { T->TMCG_ProveCardSecret(*cc, *secA, 0, i, o); };
		S2->verifier = [=](std::istream &i, std::ostream &o) { TMCG_CardSecret out(2, tb); return T->TMCG_VerifyCardSecret(*vcc, out, vring->keys[0], 0, i, o); };
		for (size_t w = 0; w < tb; w++) S2->knobs.push_back(Knob{"cc.z", &vcc->z[0][w], 'm'});
		S2->knobs.push_back(Knob{"key.m", vring->keys[0].m, 'm'}); S2->knobs.push_back(Knob{"key.y", vring->keys[0].y, 'm'});
		emit(S2, a, 1);
	}
}

int main(int argc, char **argv) {
	Args a(argc, argv);
	if (!init_libTMCG()) { fprintf(stderr, "libTMCG_init failed\n"); return 3; }
	unsigned long fsz = a.thorough() ? 768 : 512, gsz = a.thorough() ? 192 : 160;
	std::string only = a.only;
	if (only == "qr") { qr_systems(a); printf("DONE qr\n"); return 0; }
	if (only == "rec") { fsser_records(a); verifier_records(a); skc_records(a); printf("DONE rec\n"); return 0; }
	World W(fsz, gsz);
	printf("WORLD p=%s q=%s\n", hx(W.A->p).c_str(), hx(W.A->q).c_str());
	find_small_order(W.A->p, W.A->q);
	if (only.empty() || only == "vtmf") vtmf_systems(W, a);
	if (only.empty() || only == "cutchoose") cutchoose_systems(W, a);
	if (only.empty() || only == "groth") groth_systems(W, a);
	if (only.empty() || only == "hoogh") hoogh_systems(W, a);
	if (only.empty() || only == "pedersen") pedersen_systems(W, a);
	if (only.empty()) qr_systems(a);
	printf("DONE %s\n", only.c_str());
	return 0;
}
