// Shared by c05.cc / c04.cc: the library objects of a small two-party game (prover A, verifier B) and the
// grid runner (honest transcript -> every position x catalogue -> verdicts).
#ifndef VERIF_C05_WORLD_HH
#define VERIF_C05_WORLD_HH

#include "c05_grid.hh"
#define private public
#define protected public
#include <libTMCG.hh>
#undef private
#undef protected

namespace verif {

typedef std::function<void(std::istream&, std::ostream&)> ProverFn;
typedef std::function<bool(std::istream&, std::ostream&)> VerifierFn;

struct World {
	unsigned long fsz, gsz;
	BarnettSmartVTMF_dlog *A = 0, *B = 0;      // A proves, B verifies
	std::string group_text;
	World(unsigned long fieldsize, unsigned long subgroupsize) : fsz(fieldsize), gsz(subgroupsize) {
		A = new BarnettSmartVTMF_dlog(fsz, gsz);
		std::stringstream g1; A->PublishGroup(g1); group_text = g1.str();
		std::stringstream g2(group_text);
		B = new BarnettSmartVTMF_dlog(g2, fsz, gsz);
		A->KeyGenerationProtocol_GenerateKey();
		B->KeyGenerationProtocol_GenerateKey();
		std::stringstream ka, kb;
		A->KeyGenerationProtocol_PublishKey(ka); B->KeyGenerationProtocol_PublishKey(kb);
		if (!B->KeyGenerationProtocol_UpdateKey(ka) || !A->KeyGenerationProtocol_UpdateKey(kb)) { fprintf(stderr, "world: key exchange failed\n"); exit(3); }
		A->KeyGenerationProtocol_Finalize(); B->KeyGenerationProtocol_Finalize();
	}
	BarnettSmartVTMF_dlog *fresh() const { std::stringstream g(group_text); return new BarnettSmartVTMF_dlog(g, fsz, gsz); }
	~World() { delete A; delete B; }
};

struct Knob { std::string name; mpz_ptr ptr; char cls; bool reprove = false; mpz_ptr pptr = 0; };   // reprove: also used by the re-proved-statement oracle; pptr: the prover's copy of the same input
inline Knob RK(const std::string &n, mpz_ptr v, mpz_ptr p) { Knob k{n, v, 'g'}; k.reprove = true; k.pptr = p; return k; }   // cls: 'g' element of the group, 'p' modulus, 'q' order, 'm' other integer

struct GridStats { unsigned long reproved = 0, reproved_thrown = 0; unsigned long atoms = 0, mutants = 0, rejected = 0, thrown = 0, tolerated_acc = 0, fails = 0, knobmut = 0; };

struct System {
	std::string name, variant;
	bool interactive = false;
	ProverFn prover, rprover;                     // rprover / rverifier: used by the re-proved-statement oracle when set
	VerifierFn verifier, rverifier;
	std::function<void()> reset;                 // undo verifier-side state changes of an accepting run
	std::vector<Knob> knobs;
	std::function<void()> after_knob;            // recompute what depends on a knob (optional)
	Z p, q;
	std::function<std::string(size_t, size_t)> label;   // (atom index, number of atoms) -> stable label
	std::set<std::string> strict;                 // token labels whose verifier refuses negative values altogether (no tolerated mutant)
	Z small_order;                                // an element of order dividing k = (p-1)/q, not 1 or p-1 (0: none)
	std::function<bool(mpz_srcptr, mpz_srcptr)> tol;     // tolerated acceptance? default: negative representative of same residue mod q
};

inline std::string strip_digits(const std::string &s) { std::string r; for (char c : s) if (c < '0' || c > '9') r += c; return r; }
inline int verdict_of(System &S, uint64_t sv, const std::string &text) {
	int v = replay_verifier(sv, text, S.verifier);
	if (S.reset) S.reset();
	return v;
}

// returns false when no accepted honest transcript could be produced (reported as NOTE, never as a failure)
inline bool run_grid(System &S, GridStats &st, std::string *honest_out = 0) {
	uint64_t sp = gen().next(), sv = gen().next();
	std::string a, b;
	int hv;
	if (S.interactive) { hv = run_pair(sp, sv, S.prover, S.verifier, a, b); if (S.reset) S.reset(); }
	else {
		SplitMix64 saved = lib_rng(); lib_rng() = SplitMix64(sp);
		std::istringstream none(""); std::ostringstream out;
		try { S.prover(none, out); } catch (...) { }
		a = out.str(); lib_rng() = saved; hv = 1;
	}
	int v0 = verdict_of(S, sv, a);
	if (hv != 1 || v0 != 1) { printf("NOTE %s honest-run verdict=%d replay=%d (no accepted transcript; grid skipped)\n", S.name.c_str(), hv, v0); return false; }
	if (honest_out) *honest_out = a;
	std::vector<Atom> at = atoms_of(a);
	SplitMix64 rg(sp ^ 0x5151);
	auto tol = [&](mpz_srcptr o, mpz_srcptr n) { return S.tol ? S.tol(o, n) : tolerated(o, n, S.q); };
	auto lab = [&](size_t i) { return S.label ? S.label(i, at.size()) : std::string("tok"); };
	for (size_t i = 0; i < at.size(); i++) {
		std::string old = a.substr(at[i].pos, at[i].len);
		if (is_magic(old)) continue;
		Z v; if (!from_b62(v, old)) continue;
		st.atoms++;
		std::vector<Mut> ms = catalogue(v, S.p, S.q, rg);
		for (auto &m : ms) {
			if (mpz_cmp(m.val, v) == 0) continue;
			std::string t = a.substr(0, at[i].pos) + b62(m.val) + a.substr(at[i].pos + at[i].len);
			int r = verdict_of(S, sv, t);
			st.mutants++;
			if (r == 0) st.rejected++; else if (r == 2) st.thrown++;
			else if (!S.strict.count(lab(i)) && tol(v, m.val)) st.tolerated_acc++;
			else { st.fails++; propfail(S.name + "." + lab(i) + "." + ((m.name == "minus2q" || m.name == "minus3q" || m.name == "minusq2k") ? std::string("negfar") : m.name), "verifier accepted the transcript with token #" + std::to_string(i) + " (" + lab(i) + ") changed from " + hx(v) + " to " + hx(m.val) + " [hex]; p=" + hx(S.p) + " q=" + hx(S.q)); }
		}
		// swap with the next token
		if (i + 1 < at.size()) {
			std::string nxt = a.substr(at[i + 1].pos, at[i + 1].len);
			if (!is_magic(nxt) && nxt != old) {
				std::string t = a.substr(0, at[i].pos) + nxt + a.substr(at[i].pos + at[i].len, at[i + 1].pos - at[i].pos - at[i].len) + old + a.substr(at[i + 1].pos + at[i + 1].len);
				int r = verdict_of(S, sv, t);
				st.mutants++;
				Z w; from_b62(w, nxt);
				if (r == 0) st.rejected++; else if (r == 2) st.thrown++;
				else { st.fails++; propfail(S.name + "." + lab(i) + ".swap", "verifier accepted the transcript with tokens #" + std::to_string(i) + " and #" + std::to_string(i + 1) + " exchanged (" + hx(v) + " <-> " + hx(w) + ")"); }
			}
		}
		// truncation before this token
		{
			std::string t = a.substr(0, at[i].pos);
			int r = verdict_of(S, sv, t);
			st.mutants++;
			if (r == 0) st.rejected++; else if (r == 2) st.thrown++;
			else { st.fails++; propfail(S.name + "." + lab(i) + ".trunc", "verifier accepted the transcript cut before token #" + std::to_string(i)); }
		}
	}
	// public inputs
	for (auto &k : S.knobs) {
		if (!k.ptr) continue;
		Z keep(k.ptr);
		std::vector<Mut> ms;
		auto add = [&](const char *n, mpz_srcptr x) { Mut m; m.name = n; mpz_set(m.val, x); ms.push_back(m); };
		Z t;
		if (k.cls == 'p' || k.cls == 'q') { mpz_add_ui(t, keep, 2); add("plus2", t); mpz_sub_ui(t, keep, 2); add("minus2", t); }
		else {
			mpz_add_ui(t, keep, 1); add("plus1", t);
			if (k.cls == 'g') {
				mpz_sub(t, S.p, keep); add("pminusv", t);
				mpz_mul(t, keep, keep); mpz_mod(t, t, S.p); add("square", t);      // another member of the group
				mpz_add(t, keep, S.p); add("plusp", t);
			} else { mpz_add(t, keep, S.q); add("plusq", t); }
			mpz_set_ui(t, 1); add("one", t);
		}
		for (auto &m : ms) {
			if (mpz_cmp(m.val, keep) == 0) continue;
			mpz_set(k.ptr, m.val);
			if (S.after_knob) S.after_knob();
			int r = verdict_of(S, sv, a);
			mpz_set(k.ptr, keep);
			if (S.after_knob) S.after_knob();
			st.mutants++; st.knobmut++;
			if (r == 0) st.rejected++; else if (r == 2) st.thrown++;
			else if (m.name == "plusp" || (k.cls == 'm' && m.name == "plusq")) { st.tolerated_acc++; printf("OBS %s.pub.%s.plusp accepted: the public input is reduced modulo p, not range-checked (same element; not counted as a change)\n", S.name.c_str(), k.name.c_str()); }
			else { st.fails++; propfail(S.name + ".pub." + strip_digits(k.name) + "." + m.name, "verifier accepted the unchanged transcript although public input " + k.name + " was changed from " + hx(keep) + " to " + hx(m.val)); }
		}
	}
	// the untouched transcript must still be accepted (state restored properly): guards the harness itself
	int v1 = verdict_of(S, sv, a);
	if (v1 != 1) printf("NOTE %s replay after grid gives %d (harness state not restored)\n", S.name.c_str(), v1);
	return true;
}

// "re-proved non-member statement": a group-element public input is replaced (for prover AND verifier) by a value
// outside the order-q subgroup or outside (0,p), then the HONEST PROVER CODE makes a fresh proof for the tampered
// statement.  The prover does not test membership; whether the proof verifies depends on the parity of the
// challenges (p - v differs from v by the element -1 of order 2), so the attempt is repeated with fresh coins.
// The verifier has to refuse every time: it must not accept a statement that contains a non-member.
inline void run_reprove(System &S, GridStats &st, int attempts) {
	const ProverFn &P = S.rprover ? S.rprover : S.prover; const VerifierFn &V = S.rverifier ? S.rverifier : S.verifier;
	for (auto &k : S.knobs) {
		if (!k.reprove) continue;
		mpz_ptr any = k.ptr ? k.ptr : k.pptr; if (!any) continue;
		Z keep(any);
		std::vector<Mut> ms; Z t;
		auto add = [&](const char *n, mpz_srcptr x) { Mut m; m.name = n; mpz_set(m.val, x); ms.push_back(m); };
		mpz_sub(t, S.p, keep); add("pminusv", t);
		if (mpz_sgn(S.small_order.v) > 0) { mpz_mul(t, keep, S.small_order); mpz_mod(t, t, S.p); add("timesu", t); }
		mpz_add(t, keep, S.p); add("plusp", t);
		for (auto &m : ms) {
			if (k.ptr) mpz_set(k.ptr, m.val); if (k.pptr) mpz_set(k.pptr, m.val);
			if (S.after_knob) S.after_knob();
			int accepted = 0;
			for (int it = 0; it < attempts && !accepted; it++) {
				uint64_t sp = gen().next(), sv = gen().next(); std::string a, b; int v;
				if (S.interactive) v = run_pair(sp, sv, P, V, a, b);
				else {
					SplitMix64 saved = lib_rng(); lib_rng() = SplitMix64(sp);
					std::istringstream none(""); std::ostringstream out; bool threw = false;
					try { P(none, out); } catch (...) { threw = true; }
					lib_rng() = saved;
					v = threw ? 2 : replay_verifier(sv, out.str(), V);
				}
				if (S.reset) S.reset();
				st.reproved++;
				if (v == 2) st.reproved_thrown++;
				if (v == 1) accepted = it + 1;
			}
			if (k.ptr) mpz_set(k.ptr, keep); if (k.pptr) mpz_set(k.pptr, keep);
			if (S.after_knob) S.after_knob();
			if (accepted) { st.fails++; propfail(S.name + ".reproved." + strip_digits(k.name) + "." + m.name, "the honest prover code run on the statement with public input " + k.name + " replaced by " + hx(m.val) + " (was " + hx(keep) + "; not a member of the order-q subgroup of Z_p^* resp. not in (0,p)) was accepted by the verifier at attempt " + std::to_string(accepted) + "; p=" + hx(S.p) + " q=" + hx(S.q)); }
		}
	}
}

} // namespace verif
#endif
