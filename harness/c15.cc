// C15 correspondence + property harness: secret sharing (PedersenVSS), distributed key generation (GJKR new-DKG,
// CGJKR DKG with Joint-RVSS / Joint-ZVSS) and share refresh, run as forked n-party protocols over pipes exactly as
// /repo/tests/t-vss.cc, t-dkg.cc, t-astc2.cc do, with small groups and small time-outs.
//  * every child prints its public results; the parent evaluates the property (PROPFAIL <key> ...) and prints
//    REC lines (inputs + observed output of the modelled functions) for the extracted Coq model.
//  * a failing scenario is re-run once with 5x longer time-outs; only a failure that reproduces is reported
//    (the protocols assume synchrony; a loaded machine must not produce alarms).
#include <array>
#include "c15_net.hh"
using namespace c15;

// ------------------------------------------------------------------------------------------------ output buffer
static std::string OUT;            // lines of the current scenario attempt
static int NFAIL = 0;
static bool RECS_ON = true;   // model records are sampled for large n (the extracted model is slow on 160-bit moduli)
static void emit(const std::string &l) { OUT += l; OUT += '\n'; }
static void fail(const std::string &key, const std::string &what) { NFAIL++; emit("PROPFAIL " + key + " " + what); }
struct R { std::ostringstream o; explicit R(const char *k) { o << "REC " << k; }
	R &t(const std::string &s) { o << ' ' << s; return *this; } R &z(mpz_srcptr v) { o << ' ' << hx(v); return *this; }
	R &z(const Z &v) { o << ' ' << v.h(); return *this; } R &u(unsigned long v) { o << ' ' << hx(v); return *this; }
	~R() { if (RECS_ON) emit(o.str()); } };

// ------------------------------------------------------------------------------------------------ groups
struct Group { Z p, q, g, h; unsigned pbits, qbits; };
static Group make_group(unsigned qbits, unsigned pbits, bool canonical) {
	Group G; G.pbits = pbits; G.qbits = qbits;
	mpz_t k, foo, bar; mpz_init(k); mpz_init(foo); mpz_init(bar);
	do { gen_bits(G.q.v, qbits); mpz_setbit(G.q.v, qbits - 1); mpz_nextprime(G.q.v, G.q.v); } while (mpz_sizeinbase(G.q.v, 2) != qbits);
	for (;;) {
		gen_bits(k, pbits - qbits); mpz_setbit(k, pbits - qbits - 1); mpz_clrbit(k, 0);
		mpz_mul(G.p.v, k, G.q.v); mpz_add_ui(G.p.v, G.p.v, 1);
		mpz_gcd(foo, k, G.q.v);
		if (mpz_sizeinbase(G.p.v, 2) == pbits && mpz_probab_prime_p(G.p.v, 30) && !mpz_cmp_ui(foo, 1)) break;
	}
	if (canonical) {                       // the verifiable generation of g that CheckGroup() re-computes
		std::stringstream U; U << "LibTMCG|" << G.p.v << "|" << G.q.v << "|ggen|";
		mpz_sub_ui(bar, G.p.v, 1);
		do { tmcg_mpz_shash(foo, U.str()); mpz_powm(G.g.v, foo, k, G.p.v); U << G.g.v << "|"; mpz_powm(foo, G.g.v, G.q.v, G.p.v); }
		while (!mpz_cmp_ui(G.g.v, 0) || !mpz_cmp_ui(G.g.v, 1) || !mpz_cmp(G.g.v, bar) || mpz_cmp_ui(foo, 1));
	} else {
		do { gen_below(foo, G.p.v); mpz_powm(G.g.v, foo, k, G.p.v); } while (mpz_cmp_ui(G.g.v, 1) <= 0);
	}
	do { gen_below(foo, G.q.v); mpz_powm(G.h.v, G.g.v, foo, G.p.v); } while (mpz_cmp_ui(G.h.v, 1) <= 0 || !mpz_cmp(G.h.v, G.g.v));
	mpz_clear(k); mpz_clear(foo); mpz_clear(bar);
	return G;
}

// ------------------------------------------------------------------------------------------------ parent-side algebra (independent of the library)
static Z powm(const Z &b, const Z &e, const Z &m) { Z r; mpz_powm(r.v, b.v, e.v, m.v); return r; }
static Z mulm(const Z &a, const Z &b, const Z &m) { Z r; mpz_mul(r.v, a.v, b.v); mpz_mod(r.v, r.v, m.v); return r; }
static Z addm(const Z &a, const Z &b, const Z &m) { Z r; mpz_add(r.v, a.v, b.v); mpz_mod(r.v, r.v, m.v); return r; }
// prod_k C_k^(x^k) mod p
static Z commit_eval(const std::vector<Z> &C, unsigned long x, const Group &G) {
	Z r(1), e;
	for (size_t k = 0; k < C.size(); k++) { mpz_ui_pow_ui(e.v, x, k); r = mulm(r, powm(C[k], e, G.p), G.p); }
	return r;
}
static Z ped(const Z &s, const Z &t, const Group &G) { return mulm(powm(G.g, s, G.p), powm(G.h, t, G.p), G.p); }
static Z poly(const std::vector<Z> &a, unsigned long x, const Z &q) {
	Z r(0), xk(1);
	for (size_t k = 0; k < a.size(); k++) { Z term; mpz_mul(term.v, a[k].v, xk.v); r = addm(r, term, q); mpz_mul_ui(xk.v, xk.v, x); }
	return r;
}
// Lagrange interpolation at 0 through (x_j, y_j), textbook form with modular inverses per factor (not the code's formula)
static bool interp0(const std::vector<std::pair<unsigned long, Z> > &pts, const Z &q, Z &out) {
	Z acc(0);
	for (size_t j = 0; j < pts.size(); j++) {
		Z lam(1);
		for (size_t l = 0; l < pts.size(); l++) if (l != j) {
			Z num((long)pts[l].first), den((long)pts[l].first - (long)pts[j].first), inv;
			mpz_mod(den.v, den.v, q.v);
			if (!mpz_invert(inv.v, den.v, q.v)) return false;
			lam = mulm(lam, mulm(num, inv, q), q);
		}
		acc = addm(acc, mulm(lam, pts[j].second, q), q);
	}
	out = acc; return true;
}
// all subsets of size k of idx; calls f(subset); stops when f returns false
static bool subsets(const std::vector<size_t> &idx, size_t k, const std::function<bool(const std::vector<size_t> &)> &f) {
	if (k > idx.size()) return true;
	std::vector<size_t> c(k); for (size_t i = 0; i < k; i++) c[i] = i;
	for (;;) {
		std::vector<size_t> s; for (size_t i = 0; i < k; i++) s.push_back(idx[c[i]]);
		if (!f(s)) return false;
		int i = (int)k - 1; while (i >= 0 && c[i] == idx.size() - k + i) i--;
		if (i < 0) return true;
		c[i]++; for (size_t j = i + 1; j < k; j++) c[j] = c[j - 1] + 1;
	}
}
static std::string setstr(const std::vector<size_t> &s) { std::string r = "{"; for (size_t i = 0; i < s.size(); i++) { if (i) r += ","; r += std::to_string(s[i]); } return r + "}"; }
static std::string setstr(const std::set<size_t> &s) { return setstr(std::vector<size_t>(s.begin(), s.end())); }

// every (t+1)-subset of the holders interpolates to the same value; returns false + message otherwise
static bool all_subsets_agree(const std::vector<size_t> &holders, const std::map<size_t, Z> &share, size_t t, const Z &q, Z &secret, std::string &msg) {
	bool have = false; bool ok = true;
	subsets(holders, t + 1, [&](const std::vector<size_t> &s) {
		std::vector<std::pair<unsigned long, Z> > pts; for (size_t i : s) pts.push_back(std::make_pair((unsigned long)i + 1, share.at(i)));
		Z v; if (!interp0(pts, q, v)) { ok = false; msg = "interpolation impossible for " + setstr(s); return false; }
		if (!have) { secret = v; have = true; return true; }
		if (v != secret) { ok = false; msg = "subset " + setstr(s) + " gives " + v.h() + " but an earlier subset gave " + secret.h(); return false; }
		return true; });
	if (ok && !have) { ok = false; msg = "fewer than t+1 holders"; }
	return ok;
}

// ------------------------------------------------------------------------------------------------ scenario description
struct Scn {
	std::string kind;            // vss | dkg | cgjkr | pure
	size_t n, t; std::set<size_t> faulty, faulty2;    // faulty2: faulty during the refresh (cgjkr)
	unsigned qbits, pbits; int variant; uint64_t id;
	// harness-scripted deviations (the faulty parties run the library code without its switches, over a tampering channel)
	std::map<size_t, Script> scripts; std::string xname; bool builtin = true; bool may_silent = false; bool silent_sharing = false;   // silent_sharing: withholds messages already in the sharing phase
	long dealer_only = -1;       // vss: only this party deals
	long expect_dq = -1, expect_kept = -1;     // party that all honest parties must disqualify / must keep
	std::string name() const {
		std::ostringstream o; o << kind << "/n" << n << "t" << t << "/F" << setstr(faulty);
		if (kind == "cgjkr") o << "/R" << setstr(faulty2);
		o << "/v" << variant << "/q" << qbits; if (!xname.empty()) o << "/X" << xname; return o.str();
	}
	bool corrupted(size_t i) const { return builtin && faulty.count(i) > 0; }
};
static uint64_t SEED = 1;
static bool SUSPECT = false;      // some honest party failed to receive something from an honest party: synchrony assumption violated in this run
// child side: lines of a protocol log that report a failed reception from / complaint against an honest party
// A suspicious line that precedes the party's qualification decision (its first "QUAL = {" log line; for PedersenVSS the whole
// Share log) is reported as SUSPECT-PRE, a later one as SUSPECT-POST: a disagreement on the qualified set that was computed
// without any earlier suspicious event is conclusive even if the parties lose synchrony afterwards (as a consequence of it).
static void report_suspects(Party &P, const Scn &S, const std::string &log, bool all_post = false) {
	std::istringstream is(log); std::string l; int cnt = 0; bool decided = all_post;
	while (std::getline(is, l)) {
		if (l.find("QUAL = {") != std::string::npos) { decided = true; continue; }
		bool rx_failed = l.find("failed") != std::string::npos && l.find("receiving") != std::string::npos;
		if (!rx_failed && l.find("no share received") == std::string::npos && l.find("no shares received") == std::string::npos) continue;
		size_t pos = l.rfind("P_"); if (pos == std::string::npos) continue;
		size_t j = strtoul(l.c_str() + pos + 2, 0, 10);
		// PedersenVSS's built-in deviations never withhold a message; the DKG ones may (a faulty party leaves the protocol)
		bool may_be_silent = (decided ? S.may_silent : S.silent_sharing) && (S.faulty.count(j) || S.faulty2.count(j));
		if (j < S.n && !may_be_silent && cnt++ < 6) P.say(std::string(decided ? "SUSPECT-POST " : "SUSPECT-PRE ") + l);
	}
}
static bool PRE_SUSPECT = false, CONCLUSIVE = false;
static const Scn *CUR = 0;
static void collect_suspects(const RunResult &rr, const std::vector<size_t> &H) {
	for (size_t i : H) for (const std::string &l : rr.lines[i]) {
		if (l.compare(0, 7, "SUSPECT") == 0) SUSPECT = true;
		if (l.compare(0, 12, "SUSPECT-PRE ") == 0) PRE_SUSPECT = true;
		// time-outs reported by the channel layers themselves: "RBC(j): timeout delivering from X", "aiounicast_select(j): timeout for X"
		if ((l.compare(0, 4, "RBC(") == 0 || l.compare(0, 18, "aiounicast_select(") == 0) && l.find("timeout") != std::string::npos) {
			size_t e = l.find_last_of("0123456789"); if (e == std::string::npos) { SUSPECT = true; continue; }
			size_t b = e; while (b > 0 && isdigit((unsigned char)l[b - 1])) b--;
			size_t x = strtoul(l.substr(b, e - b + 1).c_str(), 0, 10);
			bool may_be_silent = CUR && CUR->may_silent && (CUR->faulty.count(x) || CUR->faulty2.count(x));
			if (!may_be_silent) SUSPECT = true;
		}
	}
	if (rr.deadline_hit) SUSPECT = true;
}

// ================================================================================================ PedersenVSS
// child: like t-vss.cc - one PedersenVSS object, every party deals once, each sharing is followed by Reconstruct
static void vss_role(Party &P, const Group &G, const Scn &S, const std::vector<Z> &secrets) {
	bool corrupted = S.corrupted(P.me);
	PedersenVSS *vss = new PedersenVSS(P.n, S.t, P.me, G.p.v, G.q.v, G.g.v, G.h.v, G.pbits, G.qbits, false);
	if (S.variant == 1 && !vss->CheckGroup()) P.say("CHECKGROUP 0");
	mpz_t sigma; mpz_init(sigma);
	for (size_t d = 0; d < P.n; d++) {
		if (S.dealer_only >= 0 && (long)d != S.dealer_only) continue;
		std::stringstream err, err2; bool ret;
		if (d == P.me) {
			mpz_set(sigma, secrets[d].v);
			ret = vss->Share(sigma, P.aiou, P.rbc, err, corrupted);
			P.say("DEAL " + std::to_string(d) + " " + joinp(vss->a_j) + " " + joinp(vss->b_j));
		} else
			ret = vss->Share(d, P.aiou, P.rbc, err, corrupted);
		report_suspects(P, S, err.str());
		bool complained = err.str().find("broadcast complaint against dealer") != std::string::npos;
		bool adjusted = err.str().find("shares have been adjusted") != std::string::npos;
		bool falsec = err.str().find("false complaint against dealer") != std::string::npos;
		std::ostringstream o; o << "VSS " << d << " " << (ret ? 1 : 0) << " " << hx(vss->sigma_i) << " " << hx(vss->tau_i) << " " << (complained ? 1 : 0)
			<< " " << joinp(vss->A_j) << " " << (adjusted ? 1 : 0) << " " << (falsec ? 1 : 0);
		P.say(o.str());
		mpz_set_ui(sigma, 42L);
		bool rret = vss->Reconstruct(d, sigma, P.rbc, err2);
		report_suspects(P, S, err2.str(), true);
		std::ostringstream o2; o2 << "RCN " << d << " " << (rret ? 1 : 0) << " " << hx(sigma);
		P.say(o2.str());
	}
	mpz_clear(sigma);
}

static void vss_scenario(const Scn &S, time_t T) {
	Group G = make_group(S.qbits, S.pbits, S.variant == 1);
	size_t n = S.n, t = S.t;
	std::vector<Z> secrets(n);
	for (size_t d = 0; d < n; d++) {
		switch ((d + S.variant) % 4) { case 0: gen_below(secrets[d].v, G.q.v); break; case 1: mpz_set_ui(secrets[d].v, d + 1); break;
			case 2: mpz_sub_ui(secrets[d].v, G.q.v, 1); break; default: gen_below(secrets[d].v, G.q.v); }
		if (!mpz_cmp_ui(secrets[d].v, 0)) mpz_set_ui(secrets[d].v, 1);
	}
	std::vector<Role> roles;
	for (size_t i = 0; i < n; i++) roles.push_back([&](Party &P) { vss_role(P, G, S, secrets); });
	RunResult rr = run_parties(n, t, roles, T, 40.0 + 12.0 * T, SEED * 7777 + S.id, &S.scripts, G.q.v);
	std::string sn = S.name();
	std::vector<size_t> H; for (size_t i = 0; i < n; i++) if (!S.faulty.count(i)) H.push_back(i);
	collect_suspects(rr, H);
	for (size_t i : H) if (rr.status[i] != 0 || rr.lines[i].empty() || rr.lines[i].back() != "END") {
		std::string last = rr.lines[i].empty() ? "" : rr.lines[i].back();
		fail("vss.party-died", sn + " honest party " + std::to_string(i) + " did not finish (status " + std::to_string(rr.status[i]) + ") " + last); return; }
	for (size_t d = 0; d < n; d++) {
		if (S.dealer_only >= 0 && (long)d != S.dealer_only) continue;
		std::string ds = std::to_string(d), ctx = sn + " dealer=" + ds + (S.faulty.count(d) ? "(faulty)" : "(honest)");
		std::map<size_t, std::vector<std::string> > V, RC; bool parse_ok = true;
		for (size_t i = 0; i < n; i++) { if (!find_line(rr.lines[i], "VSS", ds, V[i]) || V[i].size() < 6) { if (!S.faulty.count(i)) parse_ok = false; V.erase(i); }
			if (!find_line(rr.lines[i], "RCN", ds, RC[i]) || RC[i].size() < 2) { if (!S.faulty.count(i)) parse_ok = false; RC.erase(i); } }
		if (!parse_ok) { fail("vss.party-died", ctx + " missing result line"); continue; }
		bool dh = !S.faulty.count(d);
		std::vector<size_t> Rv; for (size_t i : H) if (i != d) Rv.push_back(i);
		std::vector<Z> a, b;
		if (dh) { std::vector<std::string> D; if (find_line(rr.lines[d], "DEAL", ds, D) && D.size() >= 2) { a = split(D[0]); b = split(D[1]); } }
		// (1) an honest dealer is accepted by everybody
		bool any_true = false, any_false = false; std::string rets;
		for (size_t i : H) { bool r = V[i][0] == "1"; (r ? any_true : any_false) = true; rets += " P" + std::to_string(i) + "=" + V[i][0] + (V[i][3] == "1" ? "c" : ""); }
		if (!PRE_SUSPECT && ((S.expect_dq == (long)d && any_true) || (S.expect_kept == (long)d && any_false))) CONCLUSIVE = true;
		if (S.expect_dq == (long)d && any_true) { fail("vss.scripted-dealer-not-disqualified", ctx + " more than t justified complaints, but accepted by:" + rets); continue; }
		if (S.expect_kept == (long)d && any_false) { fail("vss.scripted-dealer-rejected", ctx + " at most t complaints, all answered correctly, but rejected by:" + rets); continue; }
		if (dh && any_false) { fail("vss.honest-dealer-rejected", ctx + " return values:" + rets); continue; }
		// (2) agreement on the dealer's qualification
		if (any_true && any_false) {
			bool compl_involved = false; for (size_t i : Rv) if (V[i][3] == "1") compl_involved = true;
			if (!PRE_SUSPECT) CONCLUSIVE = true;
			fail(compl_involved ? "vss.qualification-disagree-after-complaint" : "vss.qualification-disagree", ctx + " honest parties disagree whether the dealer is qualified:" + rets + " (c = complained)");
			continue;
		}
		if (!any_true) continue;                                // dealer disqualified by everybody: nothing more is claimed
		// (3) commitments agree, shares match the commitments
		std::vector<Z> A = split(V[H[0]][4]); bool okA = true;
		for (size_t i : H) if (split(V[i][4]) != A) okA = false;
		if (!okA) { fail("vss.commitments-disagree", ctx); continue; }
		// model record for the whole receiver function (honest dealer; streams of the other parties rebuilt from their logs:
		// one `dealer` per real / false complaint, then the end marker n; the dealer's answer computed from its polynomials)
		if (dh && !a.empty() && G.qbits <= 64) {
			bool all = true; for (size_t j = 0; j < n; j++) if (j != d && (!V.count(j) || V[j].size() < 7)) all = false;
			std::string res; size_t ncomp = 0;
			auto injects = [&](size_t j) { return S.scripts.count(j) && S.scripts.at(j).inject_value == (long)d; };
			for (size_t j = 0; all && j < n; j++) if (j != d && (V[j][3] == "1" || V[j][6] == "1" || injects(j))) { ncomp++;
				res += (res.empty() ? "" : ",") + hx(j) + "," + poly(a, j + 1, G.q).h() + "," + poly(b, j + 1, G.q).h(); }
			if (ncomp > t) res.clear();                       // the dealer gives up without publishing anything
			for (size_t i : Rv) if (all && V[i][5] == "0") {
				std::string st;
				for (size_t j = 0; j < n; j++) if (j != d && j != i) {
					st += (st.empty() ? "" : ";") + hx(j) + ":";
					if (injects(j)) st += hx(d) + ".";
					if (V[j][3] == "1") st += hx(d) + "."; if (V[j][6] == "1") st += hx(d) + ".";
					st += hx(n); }
				R("vss_recv").z(G.p).z(G.q).z(G.g).z(G.h).u(n).u(t).u(i).u(d).t(join(A)).t(V[i][1]).t(V[i][2]).t(st.empty() ? "_" : st).t(res.empty() ? "_" : res)
					.t(V[i][0] + "," + V[i][1] + "," + V[i][2]);
			}
		}
		std::map<size_t, Z> share; bool shares_ok = true;
		for (size_t i : H) {
			Z s(V[i][1]), tt(V[i][2]); share[i] = s;
			if (ped(s, tt, G) != commit_eval(A, i + 1, G)) {
				shares_ok = false;
				fail(V[i][3] == "1" ? "vss.complainer-share-not-corrected" : "vss.share-mismatch", ctx + " P" + std::to_string(i) + " returned true but holds sigma=" + s.h() + " tau=" + tt.h() +
					" which do not satisfy g^sigma h^tau = prod A_k^(i^k)" + (V[i][3] == "1" ? " (it complained; the dealer's public answer was never applied to its own share)" : ""));
			}
			if (dh && !a.empty() && s != poly(a, i + 1, G.q)) { shares_ok = false; fail("vss.share-not-on-polynomial", ctx + " P" + std::to_string(i)); }
		}
		// model records: the dealer's commitments and shares (honest dealer, nobody complained => shares are as received)
		if (dh && !a.empty() && shares_ok && G.qbits <= 64) {
			R("vss_commits").z(G.p).z(G.g).z(G.h).t(join(a)).t(join(b)).t(join(A));
			for (size_t i : Rv) if (V[i][3] == "0" && V[i][5] == "0") { Z x((long)i + 1); R("vss_share").z(G.q).t(join(a)).t(join(b)).u(i).t(V[i][1] + "," + V[i][2]);
				R("vss_complaint").z(G.p).z(G.q).z(G.g).z(G.h).t(join(A)).u(i + 1).t(V[i][1]).t(V[i][2]).t("0"); }
		}
		if (!shares_ok) continue;
		// (4) every (t+1)-subset of honest shares gives one secret (= the dealer's secret)
		Z secret; std::string msg;
		if (H.size() >= t + 1) {
			if (!all_subsets_agree(H, share, t, G.q, secret, msg)) { fail("vss.subset-secret", ctx + " " + msg); continue; }
			if (dh && secret != secrets[d]) { fail("vss.subset-secret", ctx + " subsets interpolate to " + secret.h() + ", dealer shared " + secrets[d].h()); continue; }
		} else continue;
		// (5) reconstruction returns that secret at every honest non-dealer
		for (size_t i : Rv) {
			if (RC[i][0] != "1") { fail("vss.reconstruct-fails", ctx + " P" + std::to_string(i) + " Reconstruct returned false"); continue; }
			if (Z(RC[i][1]) != secret) fail("vss.reconstruct-wrong", ctx + " P" + std::to_string(i) + " reconstructed " + RC[i][1] + " instead of " + secret.h());
			// model record for the reconstruction formula: own share first, then verified shares ascending, first t+1
			if (G.qbits <= 64) {
				std::string own = hx(i + 1) + ":" + V[i][1], ver;
				for (size_t j = 0; j < n; j++) if (j != i && j != d && V.count(j)) {
					Z s(V[j][1]), tt(V[j][2]); if (mpz_cmpabs(tt.v, G.q.v) >= 0) continue;
					if (ped(s, tt, G) != commit_eval(A, j + 1, G)) continue;
					if (!mpz_cmp_ui(s.v, 0) || !mpz_cmp_ui(tt.v, 0)) continue;       // such a party broadcasts nothing
					ver += (ver.empty() ? "" : ";") + hx(j + 1) + ":" + V[j][1]; }
				bool allrec = true; for (size_t j = 0; j < n; j++) if (j != i && j != d && !V.count(j)) allrec = false;
				if (allrec) R("vss_recon").z(G.q).u(t).t(own).t(ver.empty() ? "_" : ver).t(RC[i][1]);
			}
		}
	}
}

// ================================================================================================ GJKR new-DKG
static std::string qualstr(const std::vector<size_t> &Q) { if (Q.empty()) return "_"; std::string r; for (size_t i = 0; i < Q.size(); i++) { if (i) r += ","; r += std::to_string(Q[i]); } return r; }
static std::vector<size_t> qualparse(const std::string &s) { std::vector<size_t> r; if (s == "_") return r; std::istringstream is(s); std::string x; while (std::getline(is, x, ',')) r.push_back(strtoul(x.c_str(), 0, 10)); return r; }

static void dkg_role(Party &P, const Group &G, const Scn &S) {
	bool corrupted = S.corrupted(P.me);
	GennaroJareckiKrawczykRabinDKG *dkg = new GennaroJareckiKrawczykRabinDKG(P.n, S.t, P.me, G.p.v, G.q.v, G.g.v, G.h.v, G.pbits, G.qbits, S.variant == 1, false);
	if (S.variant == 1 && !dkg->CheckGroup()) P.say("CHECKGROUP 0");
	std::stringstream err;
	bool ret = dkg->Generate(P.aiou, P.rbc, err, corrupted);
	report_suspects(P, S, err.str());
	bool ck = ret ? dkg->CheckKey() : false;
	std::ostringstream o; o << "DKG " << (ret ? 1 : 0) << " " << qualstr(dkg->QUAL) << " " << hx(dkg->x_i) << " " << hx(dkg->xprime_i) << " " << hx(dkg->y)
		<< " " << joinp(dkg->v_i) << " " << (ck ? 1 : 0) << " " << joinp(dkg->y_i);
	P.say(o.str());
	std::string sl = "SIJ", cl = "CIK";
	for (size_t j = 0; j < P.n; j++) { sl += " " + hx(dkg->s_ij[j][P.me]) + "," + hx(dkg->sprime_ij[j][P.me]); cl += " " + joinp(dkg->C_ik[j]); }
	P.say(sl); P.say(cl);
	// what this party broadcast as complaints (from its log) and the row of pairs it computed for the others (as stored, i.e. incl. a built-in +1)
	{ std::string mine, e = err.str(), pat = "P_" + std::to_string(P.me) + ": broadcast complaint against P_"; size_t pos = 0;
	  while ((pos = e.find(pat, pos)) != std::string::npos) { pos += pat.size(); mine += (mine.empty() ? "" : ",") + std::to_string(strtoul(e.c_str() + pos, 0, 10)); }
	  P.say("MINE " + (mine.empty() ? std::string("_") : mine));
	  std::string row = "ROW"; for (size_t j = 0; j < P.n; j++) row += " " + hx(dkg->s_ij[P.me][j]) + ":" + hx(dkg->sprime_ij[P.me][j]);
	  P.say(row); }
	if (getenv("C15_DEBUG")) { std::string e = err.str(); for (char &c : e) if (c == '\n') c = '|'; P.say("LOG " + e); }
}

// model records for the sharing phase of GJKR-DKG: the broadcasts of all parties are rebuilt from the children's reports (own complaint
// lists, own commitment rows, own share rows; scripted modifications applied), each honest party's view (QUAL, x_i, x'_i) is the output
static void emit_dkg_view_records(const Scn &S, const Group &G, const RunResult &rr, const std::vector<size_t> &H,
                                  std::map<size_t, std::vector<std::string> > &D) {
	size_t n = S.n; if (!RECS_ON || G.qbits > 48 || PRE_SUSPECT) return;
	std::vector<std::vector<std::string> > mine(n), row(n), cik(n);
	for (size_t j = 0; j < n; j++) {
		for (const std::string &l : rr.lines[j]) if (l.compare(0, 12, "SUSPECT-PRE ") == 0) return;
		std::vector<std::string> m;
		if (!find_line(rr.lines[j], "MINE", "", m) || m.size() != 1 || !find_line(rr.lines[j], "ROW", "", row[j]) || row[j].size() != n ||
		    !find_line(rr.lines[j], "CIK", "", cik[j]) || cik[j].size() != n) return;
		if (m[0] != "_") { std::istringstream is(m[0]); std::string x; while (std::getline(is, x, ',')) mine[j].push_back(x); }
	}
	// complaint streams (hex values separated by '.'), with injected false complaints first
	std::vector<std::string> compl_(n), ans(n); std::vector<std::vector<size_t> > acc(n);
	for (size_t j = 0; j < n; j++) {
		std::string st;
		if (S.scripts.count(j) && S.scripts.at(j).inject_value >= 0) { st += hx((unsigned long)S.scripts.at(j).inject_value) + "."; acc[j].push_back((size_t)S.scripts.at(j).inject_value); }
		for (const std::string &x : mine[j]) { size_t w = strtoul(x.c_str(), 0, 10); st += hx(w) + "."; acc[j].push_back(w); }
		compl_[j] = st + hx(n);
	}
	for (size_t j = 0; j < n; j++) {          // answers of dealer j: who, s, s' for every other party that named it (ascending), then the end marker
		std::string st;
		for (size_t c = 0; c < n; c++) if (c != j && std::find(acc[c].begin(), acc[c].end(), j) != acc[c].end()) {
			size_t k = row[j][c].find(':'); st += hx(c) + "." + row[j][c].substr(0, k) + "." + row[j][c].substr(k + 1) + "."; }
		ans[j] = st + hx(n);
	}
	std::string Cm, Cs, As;
	for (size_t j = 0; j < n; j++) { Cm += (j ? ";" : "") + cik[j][j]; Cs += (j ? ";" : "") + compl_[j]; As += (j ? ";" : "") + ans[j]; }
	// for larger n only two views per scenario (the extracted model is slow): the first honest party and the first victim of a scripted deviation
	std::set<size_t> viewers;
	if (n <= 4) viewers.insert(H.begin(), H.end());
	else { viewers.insert(H[0]); for (auto &kv : S.scripts) for (size_t v : kv.second.wrong) if (viewers.size() < 2 && std::find(H.begin(), H.end(), v) != H.end()) viewers.insert(v);
	       if (viewers.size() < 2 && H.size() > 1) viewers.insert(H[1]); }
	for (size_t i : H) {
		if (!viewers.count(i)) continue;
		std::string pairs;
		for (size_t j = 0; j < n; j++) {
			size_t k = row[j][i].find(':'); Z sv(row[j][i].substr(0, k)), tv(row[j][i].substr(k + 1)); bool none = false;
			if (S.scripts.count(j) && S.scripts.at(j).pair_base == 0) {
				if (S.scripts.at(j).wrong.count(i)) { mpz_add_ui(sv.v, sv.v, 1); mpz_mod(sv.v, sv.v, G.q.v); }
				if (S.scripts.at(j).drop.count(i)) none = true; }
			pairs += (j ? ";" : "") + (none ? std::string("none") : sv.h() + ":" + tv.h());
		}
		R("dkg_view").z(G.p).z(G.q).z(G.g).z(G.h).u(n).u(S.t).u(i).t(Cm).t(pairs).t(Cs).t(As).t(D[i][1] + "|" + D[i][2] + "," + D[i][3]);
		std::string own; for (const std::string &x : mine[i]) own += hx(strtoul(x.c_str(), 0, 10)) + "."; own += hx(n);
		R("dkg_stream").z(G.p).z(G.q).z(G.g).z(G.h).u(n).u(i).t(Cm).t(pairs).t(own);
	}
	R("dkg_glob").z(G.p).z(G.q).z(G.g).z(G.h).u(n).u(S.t).t(Cm).t(Cs).t(As).t(D[H[0]][1]);
}

// checks shared by GJKR and CGJKR key generation: agreement, shares vs public values, subsets
struct KeyView { bool ret; std::vector<size_t> QUAL, QX; Z x, xp, y; std::vector<std::vector<Z> > C; };
static bool shares_match(const Group &G, const std::vector<size_t> &H, std::map<size_t, KeyView> &K, const std::vector<size_t> &Q, std::string &who) {
	bool ok = true;
	for (size_t i : H) {
		Z rhs(1); for (size_t j : Q) rhs = mulm(rhs, commit_eval(K[i].C[j], i + 1, G), G.p);
		if (ped(K[i].x, K[i].xp, G) != rhs) { ok = false; who += " P" + std::to_string(i); }
	}
	return ok;
}
// altQ: a set of dealers that the shares may still contain although QUAL was changed afterwards (selects the finding key)
static bool key_oracle(const std::string &pre, const std::string &ctx, const Group &G, size_t t, const std::vector<size_t> &H,
                       std::map<size_t, KeyView> &K, Z &secret, const std::vector<size_t> *altQ = 0, const char *altkey = 0) {
	std::string rets; bool allret = true;
	for (size_t i : H) { rets += " P" + std::to_string(i) + "=" + (K[i].ret ? "1" : "0"); if (!K[i].ret) allret = false; }
	if (!allret) { fail(pre + ".honest-party-fails", ctx + " return values:" + rets); return false; }
	for (size_t i : H) if (K[i].QUAL != K[H[0]].QUAL) { fail(pre + ".qual-disagree", ctx + " P" + std::to_string(H[0]) + ": " + qualstr(K[H[0]].QUAL) + " P" + std::to_string(i) + ": " + qualstr(K[i].QUAL)); return false; }
	const std::vector<size_t> &Q = K[H[0]].QUAL;
	for (size_t i : H) if (std::find(Q.begin(), Q.end(), i) == Q.end()) { fail(pre + ".honest-disqualified", ctx + " P" + std::to_string(i) + " not in QUAL " + qualstr(Q)); return false; }
	for (size_t i : H) if (K[i].y != K[H[0]].y) { fail(pre + ".y-disagree", ctx + " P" + std::to_string(H[0]) + ": " + K[H[0]].y.h() + " P" + std::to_string(i) + ": " + K[i].y.h()); return false; }
	for (size_t i : H) for (size_t j : Q) if (K[i].C[j] != K[H[0]].C[j]) { fail(pre + ".commitments-disagree", ctx + " C_" + std::to_string(j) + " differs at P" + std::to_string(i)); return false; }
	bool ok = true, erased = false; std::string who;
	if (!shares_match(G, H, K, Q, who)) {
		std::string who2;
		if (altQ && *altQ != Q && shares_match(G, H, K, *altQ, who2)) {
			erased = true;
			fail(pre + "." + altkey, ctx + who + ": g^x_i h^x'_i != prod_{j in QUAL} prod_k C_jk^(i^k) for QUAL=" + qualstr(Q) + " but the equation holds for the dealer set " + qualstr(*altQ) + ": the shares still contain contributions of parties that were removed from QUAL");
		} else { ok = false; fail(pre + ".share-vs-commitments", ctx + who + ": g^x_i h^x'_i != prod_{j in QUAL} prod_k C_jk^(i^k), QUAL=" + qualstr(Q)); }
	}
	if (!ok) return false;
	std::map<size_t, Z> share; for (size_t i : H) share[i] = K[i].x;
	std::string msg;
	if (!all_subsets_agree(H, share, t, G.q, secret, msg)) { fail(pre + ".subset-secret", ctx + " " + msg); return false; }
	if (powm(G.g, secret, G.p) != K[H[0]].y) {
		fail(pre + (erased ? std::string(".pubkey-") + altkey : std::string(".pubkey")), ctx + " g^x != y for the x interpolated from the honest shares: x=" + secret.h() + " y=" + K[H[0]].y.h() + " QUAL=" + qualstr(Q) + (erased ? " share dealers=" + qualstr(*altQ) : ""));
		return false; }
	return true;
}

static void dkg_scenario(const Scn &S, time_t T) {
	Group G = make_group(S.qbits, S.pbits, S.variant == 1);
	size_t n = S.n, t = S.t;
	std::vector<Role> roles; for (size_t i = 0; i < n; i++) roles.push_back([&](Party &P) { dkg_role(P, G, S); });
	RunResult rr = run_parties(n, t, roles, T, 40.0 + 14.0 * T, SEED * 7777 + S.id, &S.scripts, G.q.v);
	std::string sn = S.name();
	std::vector<size_t> H; for (size_t i = 0; i < n; i++) if (!S.faulty.count(i)) H.push_back(i);
	collect_suspects(rr, H);
	std::map<size_t, KeyView> K; std::map<size_t, std::vector<std::string> > D, SL;
	for (size_t i : H) {
		std::vector<std::string> C;
		if (rr.status[i] != 0 || !find_line(rr.lines[i], "DKG", "", D[i]) || D[i].size() < 8 || !find_line(rr.lines[i], "CIK", "", C) || C.size() != n || !find_line(rr.lines[i], "SIJ", "", SL[i])) {
			fail("dkg.party-died", sn + " honest party " + std::to_string(i) + " did not finish (status " + std::to_string(rr.status[i]) + ")" + (rr.lines[i].empty() ? "" : " " + rr.lines[i].back())); return; }
		KeyView &k = K[i]; k.ret = D[i][0] == "1"; k.QUAL = qualparse(D[i][1]); k.x = Z(D[i][2]); k.xp = Z(D[i][3]); k.y = Z(D[i][4]);
		for (size_t j = 0; j < n; j++) k.C.push_back(split(C[j]));
	}
	if (getenv("C15_DEBUG")) for (size_t i = 0; i < n; i++) for (auto &l : rr.lines[i]) fprintf(stderr, "[%s P%zu] %s\n", sn.c_str(), i, l.c_str());
	emit_dkg_view_records(S, G, rr, H, D);
	if (!PRE_SUSPECT) {            // the qualified sets were computed before anything suspicious happened: compare them as they are
		for (size_t i : H) if (K[i].QUAL != K[H[0]].QUAL) {
			CONCLUSIVE = true;
			fail("dkg.qual-disagree", sn + " (decided in a synchronous sharing phase) P" + std::to_string(H[0]) + ": " + qualstr(K[H[0]].QUAL) + " P" + std::to_string(i) + ": " + qualstr(K[i].QUAL));
			return; }
		const std::vector<size_t> &Q0 = K[H[0]].QUAL;
		if (S.expect_dq >= 0 && std::find(Q0.begin(), Q0.end(), (size_t)S.expect_dq) != Q0.end()) { CONCLUSIVE = true; fail("dkg.scripted-dealer-not-disqualified", sn + " P" + std::to_string(S.expect_dq) + " got more than t justified complaints but is in QUAL " + qualstr(Q0)); return; }
		if (S.expect_kept >= 0 && std::find(Q0.begin(), Q0.end(), (size_t)S.expect_kept) == Q0.end()) { CONCLUSIVE = true; fail("dkg.scripted-dealer-disqualified", sn + " P" + std::to_string(S.expect_kept) + " got at most t complaints and answered them correctly but is not in QUAL " + qualstr(Q0)); return; }
	}
	Z secret;
	if (!key_oracle("dkg", sn, G, t, H, K, secret)) return;
	const std::vector<size_t> &Q = K[H[0]].QUAL;
	if (S.expect_dq >= 0 && std::find(Q.begin(), Q.end(), (size_t)S.expect_dq) != Q.end()) fail("dkg.scripted-dealer-not-disqualified", sn + " P" + std::to_string(S.expect_dq) + " got more than t justified complaints but is in QUAL " + qualstr(Q));
	if (S.expect_kept >= 0 && std::find(Q.begin(), Q.end(), (size_t)S.expect_kept) == Q.end()) fail("dkg.scripted-dealer-disqualified", sn + " P" + std::to_string(S.expect_kept) + " got at most t complaints and answered them correctly but is not in QUAL " + qualstr(Q));
	// verification keys: agreement, g^x_i = v_i, CheckKey
	for (size_t i : H) {
		std::vector<Z> v = split(D[i][5]), v0 = split(D[H[0]][5]);
		for (size_t j : Q) if (v[j] != v0[j]) { fail("dkg.v-disagree", sn + " v_" + std::to_string(j) + " differs at P" + std::to_string(i)); return; }
		if (powm(G.g, K[i].x, G.p) != v[i]) fail("dkg.share-vs-v", sn + " P" + std::to_string(i) + ": g^x_i != v_i");
		if (D[i][6] != "1") fail("dkg.checkkey", sn + " P" + std::to_string(i) + ": CheckKey() false");
	}
	// model records: x_i = sum_{j in QUAL} s_ji, y = prod y_j, v_j consistency
	if (G.qbits <= 64) for (size_t i : H) {
		std::string ss, sp; for (size_t j = 0; j < n; j++) { size_t c = SL[i][j].find(','); ss += (j ? "," : "") + SL[i][j].substr(0, c); sp += (j ? "," : "") + SL[i][j].substr(c + 1); }
		R("dkg_x").z(G.q).t(qualstr(Q)).t(ss).t(sp).t(D[i][2] + "," + D[i][3]);
		R("dkg_y").z(G.p).t(qualstr(Q)).t(D[i][7]).t(D[i][4]);
	}
}

// ================================================================================================ CGJKR DKG + refresh
static void cg_say(Party &P, const char *tag, bool ret, CanettiGennaroJareckiKrawczykRabinDKG *dkg) {
	std::ostringstream o; o << tag << " " << (ret ? 1 : 0) << " " << qualstr(dkg->QUAL) << " " << hx(dkg->x_i) << " " << hx(dkg->xprime_i) << " " << hx(dkg->y) << " " << qualstr(dkg->x_rvss->QUAL);
	P.say(o.str());
	std::string cl = std::string(tag) + "C"; for (size_t j = 0; j < P.n; j++) cl += " " + joinp(dkg->x_rvss->C_ik[j]);
	P.say(cl);
}
static void cgjkr_role(Party &P, const Group &G, const Scn &S) {
	bool c1 = S.builtin && S.faulty.count(P.me) > 0, c2 = S.builtin && S.faulty2.count(P.me) > 0;
	CanettiGennaroJareckiKrawczykRabinDKG *dkg = new CanettiGennaroJareckiKrawczykRabinDKG(P.n, S.t, P.me, G.p.v, G.q.v, G.g.v, G.h.v, G.pbits, G.qbits, false, false);
	std::stringstream err, err2;
	bool ret = dkg->Generate(P.aiou, P.rbc, err, c1);
	report_suspects(P, S, err.str());
	cg_say(P, "GEN", ret, dkg);
	if (getenv("C15_DEBUG")) { std::string e = err.str(); for (char &c : e) if (c == '\n') c = '|'; P.say("LOG " + e); }
	P.barrier(1);
	bool ret2 = dkg->Refresh(P.n, P.me, P.aiou, P.rbc, err2, c2);
	report_suspects(P, S, err2.str());
	cg_say(P, "REF", ret2, dkg);
	if (getenv("C15_DEBUG")) { std::string e = err2.str(); for (char &c : e) if (c == '\n') c = '|'; P.say("LOG " + e); }
}
static bool cg_parse(const RunResult &rr, size_t i, size_t n, const char *tag, KeyView &k) {
	std::vector<std::string> D, C;
	if (!find_line(rr.lines[i], tag, "", D) || D.size() < 5 || !find_line(rr.lines[i], std::string(tag) + "C", "", C) || C.size() != n) return false;
	k.ret = D[0] == "1"; k.QUAL = qualparse(D[1]); k.x = Z(D[2]); k.xp = Z(D[3]); k.y = Z(D[4]); k.C.clear(); if (D.size() > 5) k.QX = qualparse(D[5]);
	for (size_t j = 0; j < n; j++) k.C.push_back(split(C[j]));
	return true;
}
static void cgjkr_scenario(const Scn &S, time_t T) {
	Group G = make_group(S.qbits, S.pbits, false);
	size_t n = S.n, t = S.t;
	std::vector<Role> roles; for (size_t i = 0; i < n; i++) roles.push_back([&](Party &P) { cgjkr_role(P, G, S); });
	RunResult rr = run_parties(n, t, roles, T, 60.0 + 30.0 * T, SEED * 7777 + S.id, &S.scripts, G.q.v);
	std::string sn = S.name();
	if (getenv("C15_DEBUG")) for (size_t i = 0; i < n; i++) for (auto &l : rr.lines[i]) fprintf(stderr, "[%s P%zu] %s\n", sn.c_str(), i, l.c_str());
	std::vector<size_t> H; for (size_t i = 0; i < n; i++) if (!S.faulty.count(i) && !S.faulty2.count(i)) H.push_back(i);
	collect_suspects(rr, H);
	std::map<size_t, KeyView> K1, K2;
	for (size_t i : H) if (rr.status[i] != 0 || !cg_parse(rr, i, n, "GEN", K1[i]) || !cg_parse(rr, i, n, "REF", K2[i])) {
		fail("cgjkr.party-died", sn + " honest party " + std::to_string(i) + " did not finish (status " + std::to_string(rr.status[i]) + ")" + (rr.lines[i].empty() ? "" : " " + rr.lines[i].back())); return; }
	if (!PRE_SUSPECT) for (size_t i : H) if (K1[i].QX != K1[H[0]].QX) {
		CONCLUSIVE = true;
		fail("cgjkr.gen.rvss-qual-disagree", sn + " (decided in a synchronous sharing phase) P" + std::to_string(H[0]) + ": " + qualstr(K1[H[0]].QX) + " P" + std::to_string(i) + ": " + qualstr(K1[i].QX));
		return; }
	Z s1, s2;
	std::vector<size_t> QX = K1[H[0]].QX;                        // QUAL of the Joint-RVSS that produced the shares
	if (!key_oracle("cgjkr.gen", sn, G, t, H, K1, s1, &QX, "qual-erased-share-kept")) return;
	if (S.expect_dq >= 0 && std::find(QX.begin(), QX.end(), (size_t)S.expect_dq) != QX.end()) fail("cgjkr.gen.scripted-dealer-not-disqualified", sn + " P" + std::to_string(S.expect_dq) + " got more than t justified complaints but is in the Joint-RVSS QUAL " + qualstr(QX));
	if (S.expect_kept >= 0 && std::find(QX.begin(), QX.end(), (size_t)S.expect_kept) == QX.end()) fail("cgjkr.gen.scripted-dealer-disqualified", sn + " P" + std::to_string(S.expect_kept) + " got at most t complaints and answered them correctly but is not in the Joint-RVSS QUAL " + qualstr(QX));
	std::vector<size_t> QU = K1[H[0]].QUAL; for (size_t j : K2[H[0]].QUAL) if (std::find(QU.begin(), QU.end(), j) == QU.end()) QU.push_back(j);
	std::sort(QU.begin(), QU.end());
	if (!key_oracle("cgjkr.refresh", sn + " after Refresh", G, t, H, K2, s2, &QU, "qual-overwritten")) return;
	if (s1 != s2) fail("cgjkr.refresh.secret-changed", sn + " interpolated secret before " + s1.h() + " after " + s2.h());
	for (size_t i : H) if (K1[i].y != K2[i].y) fail("cgjkr.refresh.y-changed", sn + " P" + std::to_string(i));
	if (t >= 1) { bool changed = false; for (size_t i : H) if (K1[i].x != K2[i].x) changed = true; if (!changed) fail("cgjkr.refresh.shares-unchanged", sn); }
	if (G.qbits <= 64) for (size_t i : H) R("refresh_keeps").z(G.q).t(K1[i].x.h()).t(K2[i].x.h()).t(s1.h()).t(s2.h());
}

// ================================================================================================ pure functions
static void pure_records(unsigned count) {
	for (unsigned c = 0; c < count; c++) {
		// tmcg_interpolate_polynom on small moduli (prime and composite), distinct and colliding points
		unsigned qb = 3 + gen().below(30); Z q; gen_bits(q.v, qb); mpz_setbit(q.v, qb - 1);
		if (gen().below(4)) mpz_nextprime(q.v, q.v);
		size_t m = 1 + gen().below(6);
		std::vector<mpz_ptr> a, b, f; std::string pa, pb;
		for (size_t k = 0; k < m; k++) {
			mpz_ptr x = new mpz_t(), y = new mpz_t(), z = new mpz_t(); mpz_init(x); mpz_init(y); mpz_init(z);
			if (gen().below(3)) mpz_set_ui(x, 1 + gen().below(8)); else gen_below(x, q.v);
			if (k && gen().below(12) == 0) mpz_set(x, a[gen().below(k)]);
			if (gen().below(10) == 0) mpz_add(x, x, q.v);
			gen_below(y, q.v); if (gen().below(10) == 0) mpz_neg(y, y);
			a.push_back(x); b.push_back(y); f.push_back(z);
		}
		std::string out;
		try { out = tmcg_interpolate_polynom(a, b, q.v, f) ? joinp(f) : "none"; } catch (std::exception &e) { out = "throw"; }
		std::string pts; for (size_t k = 0; k < m; k++) pts += (k ? ";" : "") + hx(a[k]) + ":" + hx(b[k]);
		R("interp").z(q).t(pts).t(out);
		if (out != "none" && out != "throw") for (size_t k = 0; k < m; k++) {    // the property of the helper: the polynomial passes through the points
			Z acc(0), xk(1); for (size_t e = 0; e < m; e++) { Z term; mpz_mul(term.v, f[e], xk.v); mpz_add(acc.v, acc.v, term.v); mpz_mul(xk.v, xk.v, a[k]); }
			mpz_sub(acc.v, acc.v, b[k]); mpz_mod(acc.v, acc.v, q.v);
			if (mpz_cmp_ui(acc.v, 0)) { fail("interp.not-through-point", "q=" + q.h() + " pts=" + pts + " f=" + out); break; }
		}
	}
}

// ================================================================================================ scheduler
static void run_scenario(const Scn &S, time_t T) {
	gen() = SplitMix64((SEED * 0x9E3779B97F4A7C15ULL) ^ (S.id * 0xD1B54A32D192ED03ULL + 99));
	CUR = &S;
	RECS_ON = S.kind == "pure" || S.n <= 5 || S.id % 4 == 0;
	if (S.kind == "vss") vss_scenario(S, T);
	else if (S.kind == "dkg") dkg_scenario(S, T);
	else if (S.kind == "cgjkr") cgjkr_scenario(S, T);
	else if (S.kind == "pure") pure_records(S.variant);
}
// executed in a worker process: attempt, on failure retry with longer time-outs; print what reproduces
static void scenario_worker(const Scn &S, time_t T) {
	double t0 = now_s();
	OUT.clear(); NFAIL = 0; SUSPECT = false; PRE_SUSPECT = false; CONCLUSIVE = false; run_scenario(S, T);
	bool s1 = SUSPECT;
	// a failure is reported at once only if the run was synchronous beyond doubt: no suspicious reception failure, and no party that may
	// legitimately be silent (with silent parties the honest ones sit in time-outs and the broadcast quorums are tight)
	bool silent_possible = S.may_silent && (!S.faulty.empty() || !S.faulty2.empty());
	if (NFAIL > 0 && !CONCLUSIVE && (SUSPECT || silent_possible) && S.kind != "pure") {        // repeat with long time-outs
		std::string first = OUT; int nf1 = NFAIL;
		OUT.clear(); NFAIL = 0; SUSPECT = false; PRE_SUSPECT = false; CONCLUSIVE = false; run_scenario(S, T * 4);
		if (NFAIL == 0) { std::string keys; std::istringstream is(first); std::string l; while (std::getline(is, l)) if (l.compare(0, 9, "PROPFAIL ") == 0) keys += " " + toks(l)[1];
			emit("NOTE not-reproduced-with-longer-timeouts " + S.name() + " first-attempt-failures=" + std::to_string(nf1) + keys); }
		else if (SUSPECT && !CONCLUSIVE) {                   // still not synchronous: nothing can be concluded from this run (no alarm)
			std::string keys; std::istringstream is(OUT); std::string l, keep; while (std::getline(is, l)) { if (l.compare(0, 9, "PROPFAIL ") == 0) keys += " " + toks(l)[1]; else keep += l + "\n"; }
			OUT = keep; NFAIL = 0; emit("NOTE inconclusive-run-not-synchronous-even-with-4x-timeouts " + S.name() + keys); }
	}
	char b[64]; snprintf(b, sizeof b, "%.1f", now_s() - t0);
	emit("SCN " + S.name() + " wall=" + b + " fails=" + std::to_string(NFAIL) + (s1 ? " first-attempt-not-synchronous" : ""));
	fputs(OUT.c_str(), stdout); fflush(stdout);
}

static std::vector<std::set<size_t> > subsets_upto(size_t n, size_t k) {
	std::vector<std::set<size_t> > r;
	for (unsigned m = 0; m < (1u << n); m++) { if ((size_t)__builtin_popcount(m) > k) continue; std::set<size_t> s; for (size_t i = 0; i < n; i++) if (m & (1u << i)) s.insert(i); r.push_back(s); }
	std::stable_sort(r.begin(), r.end(), [](const std::set<size_t> &a, const std::set<size_t> &b) { return a.size() < b.size(); });
	return r;
}

int main(int argc, char **argv) {
	Args A(argc, argv); SEED = A.seed;
	if (!init_libTMCG()) { fprintf(stderr, "init_libTMCG failed\n"); return 2; }
	time_t T = 6; size_t jobs = 16; size_t nmax = A.thorough() ? 7 : 5;
	if (getenv("C15_T")) T = atoi(getenv("C15_T"));
	if (getenv("C15_JOBS")) jobs = atoi(getenv("C15_JOBS"));
	if (getenv("C15_NMAX")) nmax = atoi(getenv("C15_NMAX"));
	std::vector<Scn> L; uint64_t id = 0;
	auto add = [&](const std::string &kind, size_t n, size_t t, const std::set<size_t> &F, const std::set<size_t> &F2, int variant, unsigned qb, unsigned pb) {
		Scn s; s.kind = kind; s.n = n; s.t = t; s.faulty = F; s.faulty2 = F2; s.variant = variant; s.qbits = qb; s.pbits = pb; s.id = ++id; s.may_silent = (kind != "vss"); L.push_back(s); };
	SplitMix64 pick(A.seed * 31 + 5);
	add("pure", 0, 0, {}, {}, A.thorough() ? 1500 : 400, 0, 0);
	for (size_t n = 2; n <= nmax; n++) for (size_t t = 0; 2 * t < n; t++) {
		bool rbc_ok = 3 * t < n;          // with 3t >= n the broadcast layer itself tolerates no silent party
		// t = 0: the broadcast needs the echo of every party, and a party that has moved on to the next (sub)protocol
		// identifier no longer echoes - such runs only complete through time-outs; they are kept for small n only
		if (t == 0 && n > (A.thorough() ? 4u : 3u)) continue;
		std::vector<std::set<size_t> > FS = subsets_upto(n, t);
		size_t cg_faulty = 0;
		// quick tier: every faulty set for n <= 4, a seed-dependent sample of them for larger n; thorough: all
		for (size_t k = 0; k < FS.size(); k++) {
			bool take = (A.thorough() && !(n == 7 && t == 3)) || n <= 4 || FS[k].empty() || pick.below(A.thorough() ? 3 : 5) == 0;
			if (!take) continue;
			unsigned qb = (k % 2) ? 64 : 48, pb = (k % 2) ? 160 : 96;
			add("vss", n, t, FS[k], {}, (int)(k % 4 == 0 ? 1 : (k % 4)), qb, pb);       // PedersenVSS switches never go silent
			if (!FS[k].empty() && !rbc_ok) continue;                                       // DKG switches may go silent
			add("dkg", n, t, FS[k], {}, (int)(k % 3), qb, pb);
			// CGJKR key generation + refresh (nested broadcast identifiers: needs t >= 1); a silent party costs ~10 time-outs,
			// so faulty sets are sampled: quick = one set, one of the three phase variants (by seed); thorough = all for n <= 5
			if (t == 0) continue;
			if (FS[k].empty()) { if (A.thorough() || n <= 5) add("cgjkr", n, t, {}, {}, 0, qb, pb); continue; }
			bool cg = A.thorough() ? (n <= 5 || pick.below(16) == 0) : (n == 4 && cg_faulty == 0 && (k == FS.size() - 1 || pick.below(3) == 0));
			if (!cg) continue;
			cg_faulty++;
			int only_variant = A.thorough() ? -1 : (int)(A.seed % 3);
			if (only_variant < 0 || only_variant == 0) add("cgjkr", n, t, FS[k], FS[k], 0, qb, pb);
			if (only_variant < 0 || only_variant == 1) add("cgjkr", n, t, FS[k], {}, 1, qb, pb);
			if (only_variant < 0 || only_variant == 2) add("cgjkr", n, t, {}, FS[k], 2, qb, pb);
		}
	}
	// ---- harness-scripted deviations (the faulty parties run the library code WITHOUT its switches over a tampering channel):
	//   W  wrong share (s+1 mod q) to a chosen subset of honest recipients, sizes 1..t+1 (t-1, t, t+1 complainers)
	//   S  silence towards a chosen subset (nothing is sent to them)
	//   C  a false complaint is injected into the faulty party's broadcast stream (against the dealer / an honest party)
	//   D  W by one faulty party + C against it by a second faulty party (t >= 2): c+1 complaints around the threshold
	{
		auto addx = [&](const std::string &kind, size_t n, size_t t, const std::set<size_t> &F, const std::map<size_t, Script> &scr, const std::string &xn,
		                long dealer_only, long complaints_against, long accused, bool silent, size_t pair_base_unused) {
			(void)pair_base_unused;
			Scn s; s.kind = kind; s.n = n; s.t = t; s.faulty = F; if (kind == "cgjkr") s.faulty2 = F; s.variant = 0; s.qbits = 48; s.pbits = 96; s.id = ++id;
			s.scripts = scr; s.xname = xn; s.builtin = false; s.dealer_only = dealer_only;
			// a deviating party runs the library code, which leaves the protocol once it finds itself disqualified: it may fall silent
			s.may_silent = silent || kind != "vss"; s.silent_sharing = silent;
			if (accused >= 0) { if (complaints_against > (long)t) s.expect_dq = accused; else s.expect_kept = accused; }
			L.push_back(s); };
		std::vector<std::pair<size_t, size_t> > NT;
		// only configurations with 3t < n: with 3t >= n the broadcast needs the readies of all n parties and a complaint round
		// desynchronises the parties (such runs end "inconclusive")
		NT.push_back({4, 1}); NT.push_back({7, 2});
		if (A.thorough()) { NT.push_back({5, 1}); NT.push_back({6, 1}); }
		for (auto nt : NT) {
			size_t n = nt.first, t = nt.second; if (getenv("C15_NMAX") && n > nmax) continue;
			size_t f = (size_t)((A.seed + n) % n);                                   // the deviating dealer
			std::vector<size_t> hon; for (size_t i = 0; i < n; i++) if (i != f) hon.push_back(i);
			bool all_subsets = (n <= 4) || (A.thorough() && n <= 6);
			size_t per_size = A.thorough() ? 4 : 1;
			for (size_t c = 1; c <= t + 1 && c <= hon.size(); c++) {
				std::vector<std::set<size_t> > subs;
				subsets(hon, c, [&](const std::vector<size_t> &sub) { subs.push_back(std::set<size_t>(sub.begin(), sub.end())); return true; });
				if (!all_subsets) { std::vector<std::set<size_t> > some; for (size_t r = 0; r < per_size && r < subs.size(); r++) some.push_back(subs[(pick.below(subs.size()) + r) % subs.size()]); subs = some; }
				for (size_t k = 0; k < subs.size(); k++) {
					Script w; w.wrong = subs[k]; std::map<size_t, Script> m; m[f] = w; std::string tag = "-P" + std::to_string(f) + "-to" + setstr(subs[k]);
					addx("vss", n, t, {f}, m, "W" + tag, (long)f, (long)c, (long)f, false, 0);
					addx("dkg", n, t, {f}, m, "W" + tag, -1, (long)c, (long)f, false, 0);
					if (k == 0) {
						// silence towards a subset delays the victims by their reception time-outs while the other parties' time-outs for the
						// victims' broadcasts run out: every such run leaves the synchrony assumption ("inconclusive"); only on request
						if (getenv("C15_SILENCE")) {
							Script d; d.drop = subs[k]; std::map<size_t, Script> md; md[f] = d;
							addx("vss", n, t, {f}, md, "S" + tag, (long)f, (long)c, (long)f, true, 0);
							addx("dkg", n, t, {f}, md, "S" + tag, -1, (long)c, (long)f, true, 0);
						}
						if (n == 4 && (A.thorough() || c == t + 1)) addx("cgjkr", n, t, {f}, m, "W" + tag, -1, (long)c, (long)f, true, 0);
						// wrong share to <= t victims + correct public answer (the dealer stays qualified) in each of the three sharings of the
						// CGJKR protocols: first Joint-RVSS (x) and second Joint-RVSS (d) of Generate, Joint-ZVSS of Refresh (message pairs 0, 2, 4)
						if (c <= t && 3 * t < n && (n == 4 || A.thorough())) {
							const char *nm[3] = { "Wx", "Wd", "Wz" };
							for (size_t b = 0; b < 3; b++) {
								Script wb; wb.wrong = subs[k]; wb.pair_base = 2 * b; std::map<size_t, Script> mb; mb[f] = wb;
								addx("cgjkr", n, t, {f}, mb, nm[b] + tag, -1, (long)c, b == 0 ? (long)f : -1, true, 0);
							}
						}
					}
					// D: a second faulty party adds a false complaint against f
					if (t >= 2 && k == 0 && c <= t) {
						size_t f2 = hon[0]; if (subs[k].count(f2)) { bool found = false; for (size_t x : hon) if (!subs[k].count(x)) { f2 = x; found = true; break; } if (!found) continue; }
						Script inj; inj.inject_value = (long)f; std::map<size_t, Script> m2 = m, m3 = m;
						inj.inject_on_recv = 2; m2[f2] = inj;                    // vss receiver: after it got its pair from the dealer
						addx("vss", n, t, {f, f2}, m2, "D" + tag + "+P" + std::to_string(f2), (long)f, (long)c + 1, (long)f, false, 0);
						inj.inject_on_recv = -1; inj.inject_on_send = 0; m3[f2] = inj;   // dkg: right before it sends its own shares
						// (only while the total stays <= t: the injecting party's own library code does not count its injected complaint, so with
						//  t+1 it alone would wait a full time-out for the disqualified dealer and split the honest parties by a timing race)
						if (c + 1 <= t) addx("dkg", n, t, {f, f2}, m3, "D" + tag + "+P" + std::to_string(f2), -1, (long)c + 1, (long)f, false, 0);
					}
				}
			}
			// C: false complaints only (<= t of them): an honest dealer / honest party must be kept by everybody
			{
				std::set<size_t> F; std::map<size_t, Script> mv, md; size_t victim = hon[0];
				for (size_t k = 0; k < t && k + 1 < hon.size(); k++) { size_t x = hon[hon.size() - 1 - k]; F.insert(x);
					Script a; a.inject_value = (long)victim; a.inject_on_recv = 2; mv[x] = a;
					Script b; b.inject_value = (long)victim; b.inject_on_send = 0; md[x] = b; }
				addx("vss", n, t, F, mv, "C-against-P" + std::to_string(victim), (long)victim, (long)F.size(), (long)victim, false, 0);
				addx("dkg", n, t, F, md, "C-against-P" + std::to_string(victim), -1, (long)F.size(), (long)victim, false, 0);
			}
		}
	}
	if (!A.only.empty()) { std::vector<Scn> L2; for (auto &s : L) if (s.name().find(A.only) != std::string::npos) L2.push_back(s); L = L2; }
	if (getenv("C15_LIST")) { for (auto &s : L) printf("%s\n", s.name().c_str()); return 0; }
	// worker pool: each scenario in its own process, output collected through a pipe and printed in scenario order
	std::vector<std::string> outs(L.size()); std::vector<int> fds(L.size(), -1); std::vector<pid_t> pids(L.size(), 0);
	size_t next = 0, running = 0, done = 0;
	fflush(stdout);
	while (done < L.size()) {
		while (running < jobs && next < L.size()) {
			int pp[2]; if (pipe(pp) < 0) { perror("pipe"); return 3; }
			fflush(stdout);
			pid_t c = fork();
			if (c == 0) { close(pp[0]); dup2(pp[1], 1); close(pp[1]); for (size_t k = 0; k < next; k++) if (fds[k] >= 0) close(fds[k]); scenario_worker(L[next], T); fflush(stdout); _exit(0); }
			close(pp[1]); fds[next] = pp[0]; pids[next] = c; next++; running++;
		}
		std::vector<struct pollfd> pf; std::vector<size_t> idx;
		for (size_t k = 0; k < next; k++) if (fds[k] >= 0) { struct pollfd p; p.fd = fds[k]; p.events = POLLIN; p.revents = 0; pf.push_back(p); idx.push_back(k); }
		if (poll(pf.data(), pf.size(), 1000) < 0 && errno != EINTR) break;
		for (size_t j = 0; j < pf.size(); j++) if (pf[j].revents & (POLLIN | POLLHUP | POLLERR)) {
			char tmp[65536]; ssize_t r = read(pf[j].fd, tmp, sizeof tmp); size_t k = idx[j];
			if (r > 0) outs[k].append(tmp, (size_t)r);
			else if (r == 0 || (errno != EINTR && errno != EAGAIN)) {
				close(fds[k]); fds[k] = -1; int ws; while (waitpid(pids[k], &ws, 0) < 0 && errno == EINTR) {}
				if (!WIFEXITED(ws) || WEXITSTATUS(ws) != 0) outs[k] += "PROPFAIL harness.worker-died " + L[k].name() + " status=" + std::to_string(ws) + "\n";
				running--; done++;
			}
		}
	}
	for (size_t k = 0; k < L.size(); k++) fputs(outs[k].c_str(), stdout);
	return 0;
}
