// C18 correspondence harness: the real NaorPinkasEOTP senders and choosers, run against each other over in-process
// streams.  Every run is sequential and deterministic: the chooser is run once with an empty input stream (it writes its
// first move and then fails reading), the sender is run on that text, and the chooser is run again with the same coins on
// the sender's answer.  On small groups the coins are scripted (every value tmcg_mpz_srandomm returns is chosen by the
// generator) and each move is printed as REC for the extracted Coq model; on big groups the library's own random stream
// (re-seeded identically for the two chooser runs) is used and only the property oracle is evaluated.
//   PROPFAIL: honest run does not deliver M_sigma; sender accepts a malformed first move (non-member or coinciding
//   query elements) or writes output although it returns false; a non-chosen ciphertext opens to its message under the
//   chooser's own secrets (s_i != 0); blinding values reused between messages (big groups).
#include "common.hh"
#define private public
#define protected public
#include <libTMCG.hh>
#undef private
#undef protected
using namespace verif;

struct Z {
	mpz_t v;
	Z() { mpz_init(v); }
	Z(long x) { mpz_init_set_si(v, x); }
	Z(const Z &o) { mpz_init_set(v, o.v); }
	Z &operator=(const Z &o) { if (this != &o) mpz_set(v, o.v); return *this; }
	~Z() { mpz_clear(v); }
	operator mpz_srcptr() const { return v; }
	mpz_ptr w() { return v; }
};
static inline int zsgn(mpz_srcptr z) { return mpz_sgn(z); }
static inline int zcmpui(mpz_srcptr z, unsigned long u) { return mpz_cmp_ui(z, u); }
static unsigned long bits(mpz_srcptr z) { return mpz_sizeinbase(z, 2); }
static bool is_prime(mpz_srcptr z) { return mpz_cmp_ui(z, 1) > 0 && mpz_probab_prime_p(z, 30) != 0; }
static std::string zl(const std::vector<Z> &v) { if (v.empty()) return "_"; std::string r; for (size_t i = 0; i < v.size(); i++) { if (i) r += ","; r += hx(v[i]); } return r; }

struct Grp { Z p, q, k, g; unsigned F, G; };
static void gen_prime_bits(mpz_ptr r, unsigned b) { do { gen_bits(r, b); mpz_setbit(r, b - 1); mpz_setbit(r, 0); } while (!is_prime(r)); }
static Grp make_group(unsigned F, unsigned G) {
	Grp P; P.F = F; P.G = G;
	for (;;) {
		gen_prime_bits(P.q.w(), G);
		if (zcmpui(P.q, 5) < 0) continue;
		bool ok = false;
		for (int tries = 0; tries < 4000 && !ok; tries++) {
			unsigned kb = F - G + (gen().coin() ? 1 : 0);
			gen_bits(P.k.w(), kb); mpz_setbit(P.k.w(), kb - 1); if (mpz_odd_p(P.k.v)) mpz_add_ui(P.k.w(), P.k, 1);
			if (mpz_divisible_p(P.k, P.q)) continue;
			mpz_mul(P.p.w(), P.q, P.k); mpz_add_ui(P.p.w(), P.p, 1);
			ok = bits(P.p) == F && is_prime(P.p);
		}
		if (ok) break;
	}
	Z x, pm1; mpz_sub_ui(pm1.w(), P.p, 1);
	do { gen_below(x.w(), P.p); mpz_powm(P.g.w(), x, P.k, P.p); } while (zcmpui(P.g, 1) <= 0 || !mpz_cmp(P.g, pm1));
	return P;
}

// a coin: the bytes tmcg_mpz_grandomm(r, q) reads, chosen such that r = v
static void script_coin(mpz_srcptr v, mpz_srcptr q) {
	size_t nbytes = (mpz_sizeinbase(q, 2) + 64 + 7) / 8;
	std::vector<unsigned char> buf(nbytes, 0);
	size_t cnt = 0; std::vector<unsigned char> tmp(nbytes + 8, 0);
	mpz_export(tmp.data(), &cnt, 1, 1, 1, 0, v);
	if (cnt > nbytes) { fprintf(stderr, "coin too large\n"); exit(4); }
	memcpy(buf.data() + (nbytes - cnt), tmp.data(), cnt);
	script_bytes(buf);
}
static std::vector<Z> parse_lines(const std::string &s) {
	std::vector<Z> r; std::istringstream in(s); std::string line;
	while (std::getline(in, line)) { Z v; if (mpz_set_str(v.w(), line.c_str(), TMCG_MPZ_IO_BASE) < 0) mpz_set_si(v.w(), -999999); r.push_back(v); }
	return r;
}
static std::string unparse(const std::vector<Z> &v) { std::ostringstream o; for (size_t i = 0; i < v.size(); i++) o << v[i].v << std::endl; return o.str(); }
static bool member(const Grp &P, mpz_srcptr a) {
	if (mpz_sgn(a) <= 0 || mpz_cmp(a, P.p.v) >= 0) return false;
	Z t; mpz_powm(t.w(), a, P.q, P.p); return mpz_cmp_ui(t.v, 1) == 0;
}

enum Variant { V2, VN, VOPT };
static const char *vname(Variant v) { return v == V2 ? "2" : v == VN ? "n" : "opt"; }

struct Coins {              // scripted = values given; otherwise the library stream seeded with `seed`
	bool scripted; uint64_t seed;
	Z a, b; std::vector<Z> cs;             // chooser (cs: one per index for VN, one for V2, none for VOPT)
	std::vector<Z> s, r;                   // sender
};
static void arm_chooser(const Grp &P, Variant v, const Coins &C) {
	if (!C.scripted) { reseed_lib(C.seed); return; }
	coin_script().clear();
	script_coin(C.a, P.q); script_coin(C.b, P.q);
	for (size_t i = 0; i < C.cs.size(); i++) script_coin(C.cs[i], P.q);
	(void)v;
}
static void arm_sender(const Grp &P, Variant v, const Coins &C) {
	if (!C.scripted) { reseed_lib(C.seed ^ 0x5555AAAAULL); return; }
	coin_script().clear();
	for (size_t i = 0; i < C.s.size(); i++) {
		if (v == V2) { script_coin(C.r[i], P.q); script_coin(C.s[i], P.q); }      // r0, s0, r1, s1
		else { script_coin(C.s[i], P.q); script_coin(C.r[i], P.q); }               // s_i, r_i
	}
}
static bool run_choose(const NaorPinkasEOTP &ot, Variant v, size_t sigma, size_t N, mpz_ptr M, const std::string &in_text, std::string &out_text, bool &threw) {
	std::istringstream in(in_text); std::ostringstream out; bool r = false; threw = false;
	try {
		if (v == V2) r = ot.Choose_interactive_OneOutOfTwo(sigma, M, in, out);
		else if (v == VN) r = ot.Choose_interactive_OneOutOfN(sigma, N, M, in, out);
		else r = ot.Choose_interactive_OneOutOfN_optimized(sigma, N, M, in, out);
	} catch (...) { threw = true; r = false; }
	out_text = out.str();
	return r;
}
static bool run_send(const NaorPinkasEOTP &ot, Variant v, const std::vector<Z> &Ms, const std::string &in_text, std::string &out_text, bool &threw) {
	std::istringstream in(in_text); std::ostringstream out; bool r = false; threw = false;
	std::vector<mpz_ptr> mv; for (size_t i = 0; i < Ms.size(); i++) mv.push_back(const_cast<mpz_ptr>(Ms[i].v));
	try {
		if (v == V2) r = ot.Send_interactive_OneOutOfTwo(Ms[0], Ms[1], in, out);
		else if (v == VN) r = ot.Send_interactive_OneOutOfN(mv, in, out);
		else r = ot.Send_interactive_OneOutOfN_optimized(mv, in, out);
	} catch (...) { threw = true; r = false; }
	out_text = out.str();
	return r;
}
static std::string coins_tok(const Coins &C) {   // (s_i:r_i) list
	if (C.s.empty()) return "_";
	std::string t; for (size_t i = 0; i < C.s.size(); i++) { if (i) t += ","; t += hx(C.s[i]) + ":" + hx(C.r[i]); } return t;
}
static std::string resp_tok(const std::vector<Z> &v) {   // w0:c0,w1:c1,...
	if (v.size() < 2) return "_";
	std::string t; for (size_t i = 0; i + 1 < v.size(); i += 2) { if (i) t += ","; t += hx(v[i]) + ":" + hx(v[i + 1]); } return t;
}

static unsigned long n_runs = 0, n_abort_collide = 0;

// one honest run (+ malformed first moves derived from it)
static void run_ot(const NaorPinkasEOTP &ot, const Grp &P, Variant v, const std::vector<Z> &Ms, size_t sigma, const Coins &C, bool rec, bool malformed) {
	size_t N = Ms.size();
	std::string key = std::string(vname(v)) + (rec ? "" : "-big");
	std::string ctx = " variant=" + std::string(vname(v)) + " N=" + std::to_string(N) + " sigma=" + std::to_string(sigma) + " p=" + hx(P.p) + " q=" + hx(P.q) + " g=" + hx(P.g) +
		(C.scripted ? " a=" + hx(C.a) + " b=" + hx(C.b) + " cs=" + zl(C.cs) + " coins=" + coins_tok(C) : " libseed=" + std::to_string(C.seed)) + " M=" + zl(Ms);
	n_runs++;
	// 1. chooser, first move only
	Z Mout; std::string first, dummy; bool threw;
	arm_chooser(P, v, C);
	run_choose(ot, v, sigma, N, Mout.w(), "", first, threw);
	std::vector<Z> fm = parse_lines(first);
	size_t want = v == V2 ? 4 : v == VN ? 2 + N : 3;
	if (fm.size() != want) { propfail("first-move-shape:" + key, "chooser wrote " + std::to_string(fm.size()) + " values in its first move" + ctx); return; }
	if (rec) {
		if (v == VN) Rec("ot_first_n").z(P.p).z(P.q).z(P.g).d(sigma).z(C.a).z(C.b).t(zl(C.cs)).t(zl(fm));
		else if (v == V2) Rec("ot_first_2").z(P.p).z(P.q).z(P.g).d(sigma).z(C.a).z(C.b).z(C.cs[0]).t(zl(fm));
		else Rec("ot_first_opt").z(P.p).z(P.q).z(P.g).d(sigma).z(C.a).z(C.b).t(zl(fm));
	}
	// 2. sender
	std::string second;
	arm_sender(P, v, C);
	bool sok = run_send(ot, v, Ms, first, second, threw);
	std::vector<Z> sm = parse_lines(second);
	if (rec) Rec(v == V2 ? "ot_send_2" : v == VN ? "ot_send_n" : "ot_send_opt").z(P.p).z(P.q).z(P.g).t(zl(Ms)).t(zl(fm)).t(coins_tok(C)).t(sok ? resp_tok(sm) : "none");
	bool collide = false;
	if (v != VOPT) for (size_t i = 2; i < fm.size(); i++) for (size_t j = 2; j < i; j++) if (!mpz_cmp(fm[i], fm[j])) collide = true;
	if (!sok) {
		if (!second.empty()) propfail("abort-but-sent:" + key, "sender returned false but wrote " + std::to_string(second.size()) + " bytes" + ctx);
		if (collide) { n_abort_collide++; }   // the chooser's random z coincides with another one: the honest sender must refuse
		else propfail("honest-refused:" + key, std::string("sender refused an honest first move") + (threw ? " (exception)" : "") + ctx);
	} else {
		if (collide) propfail("collision-accepted:" + key, "sender accepted coinciding query elements" + ctx);
		if (sm.size() != 2 * N) { propfail("second-move-shape:" + key, "sender wrote " + std::to_string(sm.size()) + " values" + ctx); return; }
		// 3. chooser again, same coins, on the sender's answer
		arm_chooser(P, v, C);
		std::string first2;
		bool cok = run_choose(ot, v, sigma, N, Mout.w(), second, first2, threw);
		if (first2 != first) propfail("harness-determinism:" + key, "chooser's first move differs between its two runs" + ctx);
		Z b; if (C.scripted) b = C.b;
		if (rec) Rec("ot_second").z(P.p).z(P.q).d(sigma).z(C.b).t(resp_tok(sm)).t(cok ? hx(Mout) : "none");
		Z want_m; mpz_mod(want_m.w(), Ms[sigma], P.p);
		if (!cok || mpz_cmp(Mout, want_m))
			propfail("wrong-output:" + key, "chooser " + (cok ? "output " + hx(Mout) : std::string("failed")) + " instead of M_sigma=" + hx(want_m) + ctx);
		// curious chooser: open the other ciphertexts with the own secret b (b is known when scripted; for the library
		// stream it is recomputed from y = g^b only on small groups, so the big-group check uses the scripted path too)
		if (C.scripted) {
			for (size_t i = 0; i < N; i++) {
				if (i == sigma) continue;
				Z t, inv, val; mpz_powm(t.w(), sm[2 * i], C.b, P.p);
				std::string out = "none";
				if (mpz_invert(inv.w(), t, P.p)) { mpz_mul(val.w(), sm[2 * i + 1], inv); mpz_mod(val.w(), val, P.p); out = hx(val); }
				if (rec) Rec("ot_curious").z(P.p).z(C.b).t(resp_tok(sm)).d(i).t(out);
				Z mi; mpz_mod(mi.w(), Ms[i], P.p);
				// optimised variant: z_i = z_0 g^i coincides with z_sigma when i = sigma mod q (only possible for N > q, tiny groups);
				// the theorem C18_opt_other_exact gives exponent ((i - sigma) mod q) * s_i, which is 0 then
				bool same_z = false; if (v == VOPT) { Z d((long)i - (long)sigma); same_z = mpz_divisible_p(d.v, P.q.v) != 0; }
				if (out != "none" && zsgn(mi) != 0 && zsgn(C.s[i]) != 0 && !same_z && !mpz_cmp(val, mi))
					propfail("other-message-opens:" + key, "ciphertext " + std::to_string(i) + " (not chosen) decrypts to its message under the chooser's secrets although s_i != 0" + ctx);
			}
		}
		// fresh blinding per message: on a big group two equal w values mean a reused (r, s) pair
		if (!C.scripted && bits(P.q) >= 100) for (size_t i = 0; i < N; i++) for (size_t j = 0; j < i; j++) if (!mpz_cmp(sm[2 * i], sm[2 * j]))
			propfail("blinding-reused:" + key, "w_" + std::to_string(i) + " = w_" + std::to_string(j) + ctx);
	}
	if (!malformed) return;
	// ---- malformed first moves: derived from the honest one ------------------------------------------------------
	struct Mut { std::string name; std::vector<Z> fm; };
	std::vector<Mut> muts;
	auto add = [&](const std::string &n, size_t idx, const Z &val) { Mut m; m.name = n; m.fm = fm; m.fm[idx] = val; muts.push_back(m); };
	Z nonmem; do { gen_below(nonmem.w(), P.p); } while (zcmpui(nonmem, 2) < 0 || member(P, nonmem));
	Z zero(0), one(1), pp(P.p), pm1; mpz_sub_ui(pm1.w(), P.p, 1);
	// every z position for N <= 3 (so that 1-of-2 always sees both z0 and z1 corrupted), a random one otherwise
	std::vector<size_t> idxs = { 0, 1 };
	if (fm.size() <= 5) for (size_t i = 2; i < fm.size(); i++) idxs.push_back(i);
	else idxs.push_back(2 + gen().below(fm.size() - 2));
	for (size_t idx : idxs) {
		std::string f = idx == 0 ? "x" : idx == 1 ? "y" : "z" + std::to_string(idx - 2);
		add(f + "=0", idx, zero); add(f + "=p", idx, pp); add(f + "=p-1", idx, pm1); add(f + "=nonmember", idx, nonmem);
		{ Z t; mpz_add(t.w(), fm[idx], P.p); add(f + "=v+p", idx, t); }
		{ Z t; mpz_sub(t.w(), P.p, fm[idx]); add(f + "=p-v", idx, t); }
		{ Z t; mpz_neg(t.w(), fm[idx]); add(f + "=-v", idx, t); }
		add(f + "=1", idx, one);                               // 1 is a group element: fine unless it coincides with another z
	}
	if (v != VOPT && fm.size() >= 4) {
		size_t i = 2 + gen().below(fm.size() - 2), j = 2 + gen().below(fm.size() - 2); if (i == j) j = (j == fm.size() - 1) ? 2 : j + 1;
		add("z_i=z_j", i, fm[j]);
		add("z_last=z_first", fm.size() - 1, fm[2]);
	}
	for (const Mut &m : muts) {
		bool okexp = true;
		for (size_t i = 0; i < m.fm.size(); i++) if (!member(P, m.fm[i])) okexp = false;
		if (v != VOPT) for (size_t i = 2; i < m.fm.size(); i++) for (size_t j = 2; j < i; j++) if (!mpz_cmp(m.fm[i], m.fm[j])) okexp = false;
		std::string out2; arm_sender(P, v, C);
		bool ok = run_send(ot, v, Ms, unparse(m.fm), out2, threw);
		if (rec) Rec(v == V2 ? "ot_send_2" : v == VN ? "ot_send_n" : "ot_send_opt").z(P.p).z(P.q).z(P.g).t(zl(Ms)).t(zl(m.fm)).t(coins_tok(C)).t(ok ? resp_tok(parse_lines(out2)) : "none");
		if (ok && !okexp) propfail("malformed-accepted:" + key + ":" + m.name, "sender answered a malformed first move (" + m.name + ") first=" + zl(m.fm) + ctx);
		if (!ok && okexp) propfail("wellformed-refused:" + key + ":" + m.name, "sender refused a well-formed first move (" + m.name + ") first=" + zl(m.fm) + ctx);
		if (!ok && !out2.empty()) propfail("abort-but-sent:" + key, "sender returned false but wrote output on " + m.name + ctx);
	}
}

static void gen_messages(const Grp &P, size_t N, std::vector<Z> &Ms) {
	Ms.clear();
	for (size_t i = 0; i < N; i++) {
		Z m, e;
		switch (gen().below(8)) {
		case 0: mpz_set_ui(m.w(), 1); break;
		case 1: if (i) { m = Ms[gen().below(i)]; break; } /* fallthrough: repeated message */
		case 2: gen_below(m.w(), P.p); break;                                   // any residue (the code does not demand a group element)
		case 3: if (gen().below(4) == 0) { gen_below(m.w(), P.p); mpz_add(m.w(), m, P.p); break; } /* fallthrough */   // not reduced
		default: gen_below(e.w(), P.q); mpz_powm(m.w(), P.g, e, P.p); break;      // group element
		}
		Ms.push_back(m);
	}
}
static Coins gen_coins(const Grp &P, Variant v, size_t N, bool scripted) {
	Coins C; C.scripted = scripted; C.seed = gen().next();
	if (!scripted) return C;
	auto coin = [&](Z &z) { switch (gen().below(10)) { case 0: mpz_set_ui(z.w(), 0); break; case 1: mpz_set_ui(z.w(), 1); break; case 2: mpz_sub_ui(z.w(), P.q, 1); break; default: gen_below(z.w(), P.q); } };
	coin(C.a); coin(C.b);
	size_t nc = v == V2 ? 1 : v == VN ? N : 0;
	for (size_t i = 0; i < nc; i++) { Z c; coin(c); C.cs.push_back(c); }
	for (size_t i = 0; i < N; i++) { Z s, r; coin(s); coin(r); C.s.push_back(s); C.r.push_back(r); }
	return C;
}

int main(int argc, char **argv) {
	Args A(argc, argv);
	// common.hh seeds the case generator with seed*golden+17: consecutive seeds are the same SplitMix64 stream shifted by one
	// draw (and converge after the first rejection loop).  Hash the seed instead.
	{ SplitMix64 m(A.seed ^ 0xD1B54A32D192ED03ULL); m.next(); gen() = SplitMix64(m.next()); }
	if (!init_libTMCG()) { fprintf(stderr, "init_libTMCG failed\n"); return 2; }
	std::string part = "all";
	for (int i = 1; i < argc; i++) if (!strcmp(argv[i], "--part") && i + 1 < argc) part = argv[++i];
	auto want = [&](const char *p) { return part == "all" || part == p; };
	const size_t NMAX = A.thorough() ? 64 : 16;

	if (want("small")) {
		// tiny groups: coin collisions, s_i = 0, a*b = 0 mod q all occur; medium groups: the ordinary case
		struct { unsigned F, G; size_t nmax; } S[] = { { 10, 4, 6 }, { 14, 6, NMAX }, { 40, 16, NMAX }, { 64, 32, A.thorough() ? (size_t)24 : (size_t)8 } };
		for (auto &sz : S) {
			Grp P = make_group(sz.F, sz.G);
			NaorPinkasEOTP ot(P.p, P.q, P.g, P.F, P.G);
			if (!ot.CheckGroup()) { propfail("group-refused", "EOTP refuses the harness group p=" + hx(P.p)); continue; }
			for (size_t N = 2; N <= sz.nmax; N++) {
				if (N > 16 && N % 8 != 0 && N != sz.nmax) continue;       // thorough: 2..16, 24, 32, ..., 64
				for (size_t sigma = 0; sigma < N; sigma++) {
					for (Variant v : { V2, VN, VOPT }) {
						if (v == V2 && N != 2) continue;
						std::vector<Z> Ms; gen_messages(P, N, Ms);
						Coins C = gen_coins(P, v, N, true);
						run_ot(ot, P, v, Ms, sigma, C, true, sigma == N / 2 || N <= 3);
					}
				}
			}
		}
	}
	if (want("big")) {
		unsigned F = A.thorough() ? 1024 : 512;
		Grp P = make_group(F, 160);
		NaorPinkasEOTP ot(P.p, P.q, P.g, P.F, P.G);
		if (!ot.CheckGroup()) propfail("group-refused", "EOTP refuses the harness group p=" + hx(P.p));
		std::vector<size_t> Ns = { 2, 3, 5, 8 }; if (A.thorough()) { Ns.push_back(16); Ns.push_back(64); }
		for (size_t N : Ns) {
			std::vector<size_t> sig = { 0, N - 1, N / 2 };
			for (size_t sigma : sig) for (Variant v : { V2, VN, VOPT }) {
				if (v == V2 && N != 2) continue;
				std::vector<Z> Ms; gen_messages(P, N, Ms);
				// scripted coins of full size (so that the curious-chooser computation knows b), and once the library's own stream
				Coins C = gen_coins(P, v, N, true);
				run_ot(ot, P, v, Ms, sigma, C, false, sigma == 0 && N <= 5);
				Coins L = gen_coins(P, v, N, false);
				run_ot(ot, P, v, Ms, sigma, L, false, false);
			}
		}
	}
	printf("STAT runs=%lu aborted-on-coinciding-z=%lu\n", n_runs, n_abort_collide);
	return 0;
}
