// Common part of every correspondence harness (DESIGN.md §2.4).
//  * deterministic randomness: gcry_randomize / gcry_create_nonce / gcry_mpi_randomize are defined here, in the
//    harness executable, so the statically linked repository objects resolve to them.  Bytes come first from a
//    script (exact coins chosen by the case generator), then from a SplitMix64 stream seeded by VERIF_SEED.
//    Every byte served can be logged (the log is the coin input of the model).
//  * a second, independent SplitMix64 state for the case generator itself.
//  * record printing helpers ("REC kind tok tok ...", integers in signed hex, byte strings as x<hex>).
#ifndef VERIF_COMMON_HH
#define VERIF_COMMON_HH

#include <cstdio>
#include <cstdlib>
#include <cstring>
#include <cstdint>
#include <string>
#include <vector>
#include <deque>
#include <sstream>
#include <iostream>
#include <stdexcept>
#include <unistd.h>
#include <gmp.h>
#include <gcrypt.h>

namespace verif {

struct SplitMix64 {
	uint64_t s;
	explicit SplitMix64(uint64_t seed = 1) : s(seed) {}
	uint64_t next() {
		uint64_t z = (s += 0x9E3779B97F4A7C15ULL);
		z = (z ^ (z >> 30)) * 0xBF58476D1CE4E5B9ULL;
		z = (z ^ (z >> 27)) * 0x94D049BB133111EBULL;
		return z ^ (z >> 31);
	}
	uint64_t below(uint64_t n) { return n ? next() % n : 0; }   // generator-side only (bias irrelevant)
	bool coin() { return next() & 1; }
};

// --- library-facing randomness --------------------------------------------------------------
inline SplitMix64 &lib_rng() { static SplitMix64 r(0x1234567ULL); return r; }
inline std::deque<unsigned char> &coin_script() { static std::deque<unsigned char> q; return q; }
inline std::vector<unsigned char> &coin_log() { static std::vector<unsigned char> v; return v; }
inline bool &coin_logging() { static bool b = false; return b; }
inline uint64_t &coin_served() { static uint64_t n = 0; return n; }

inline void serve_bytes(unsigned char *buf, size_t len) {
	for (size_t i = 0; i < len; ) {
		if (!coin_script().empty()) {
			buf[i] = coin_script().front(); coin_script().pop_front();
			if (coin_logging()) coin_log().push_back(buf[i]);
			i++;
		} else {
			uint64_t w = lib_rng().next();
			for (int k = 0; k < 8 && i < len; k++, i++) {
				buf[i] = (unsigned char)(w >> (8 * k));
				if (coin_logging()) coin_log().push_back(buf[i]);
			}
		}
	}
	coin_served() += len;
}
// script one native-endian unsigned long (what tmcg_mpz_grandom_ui reads)
inline void script_ulong(unsigned long v) {
	unsigned char b[sizeof(v)]; memcpy(b, &v, sizeof(v));
	for (size_t i = 0; i < sizeof(v); i++) coin_script().push_back(b[i]);
}
inline void script_bytes(const std::vector<unsigned char> &v) { for (unsigned char c : v) coin_script().push_back(c); }
inline void reseed_lib(uint64_t s) { lib_rng() = SplitMix64(s); coin_script().clear(); }

// --- generator-side randomness -----------------------------------------------------------------
inline SplitMix64 &gen() { static SplitMix64 r(1); return r; }
inline uint64_t env_seed() { const char *e = getenv("VERIF_SEED"); return e && *e ? strtoull(e, 0, 10) : 1; }

// --- printing ----------------------------------------------------------------------------------
inline std::string hx(mpz_srcptr z) { char *s = mpz_get_str(NULL, 16, z); std::string r(s); free(s); return r; }
inline std::string hx(unsigned long v) { char b[32]; snprintf(b, sizeof b, "%lx", v); return b; }
inline std::string hxs(long v) { char b[32]; if (v < 0) snprintf(b, sizeof b, "-%lx", (unsigned long)(-v)); else snprintf(b, sizeof b, "%lx", (unsigned long)v); return b; }
inline std::string xb(const std::string &s) {
	static const char *d = "0123456789abcdef"; std::string r = "x";
	for (unsigned char c : s) { r += d[c >> 4]; r += d[c & 15]; }
	return r;
}
inline std::string xb(const unsigned char *p, size_t n) { return xb(std::string((const char*)p, n)); }
inline std::string unxb(const std::string &t) {
	std::string r; for (size_t i = 1; i + 1 < t.size(); i += 2) r += (char)strtoul(t.substr(i, 2).c_str(), 0, 16); return r;
}

struct Rec {
	std::ostringstream o;
	explicit Rec(const char *kind) { o << "REC " << kind; }
	Rec &t(const std::string &s) { o << ' ' << s; return *this; }
	Rec &z(mpz_srcptr v) { o << ' ' << hx(v); return *this; }
	Rec &u(unsigned long v) { o << ' ' << hx(v); return *this; }
	Rec &i(long v) { o << ' ' << hxs(v); return *this; }
	Rec &d(long v) { o << ' ' << v; return *this; }          // plain decimal (nat)
	Rec &b(const std::string &bytes) { o << ' ' << xb(bytes); return *this; }
	~Rec() { std::string s = o.str(); s += '\n'; fputs(s.c_str(), stdout); }
};
inline void propfail(const std::string &key, const std::string &what) {
	// key: stable selector of the failing call site / input class (used by KNOWN_FINDINGS.txt); no spaces
	printf("PROPFAIL %s %s\n", key.c_str(), what.c_str()); fflush(stdout);
}

// random mpz helpers for generators
inline void gen_bits(mpz_ptr r, unsigned bits) {
	mpz_set_ui(r, 0);
	for (unsigned i = 0; i < (bits + 63) / 64; i++) { mpz_mul_2exp(r, r, 64); mpz_add_ui(r, r, gen().next()); }
	mpz_tdiv_r_2exp(r, r, bits);
}
inline void gen_below(mpz_ptr r, mpz_srcptr m) { gen_bits(r, mpz_sizeinbase(m, 2) + 64); mpz_mod(r, r, m); }

struct Args {
	std::string tier = "quick"; uint64_t seed = 1; std::string only; std::string replay;
	Args(int argc, char **argv) {
		seed = env_seed();
		for (int i = 1; i < argc; i++) {
			std::string a = argv[i];
			if (a == "--tier" && i + 1 < argc) tier = argv[++i];
			else if (a == "--seed" && i + 1 < argc) seed = strtoull(argv[++i], 0, 10);
			else if (a == "--only" && i + 1 < argc) only = argv[++i];
			else if (a == "--replay" && i + 1 < argc) replay = argv[++i];
		}
		// hash the seed first: SplitMix64 states of consecutive seeds must not be shifts of one stream
		SplitMix64 h1(seed ^ 0xD1B54A32D192ED03ULL), h2(~seed * 0xFF51AFD7ED558CCDULL + 0x2545F4914F6CDD1DULL);
		h1.next(); h2.next();
		gen() = SplitMix64(h1.next() ^ (h2.next() << 1));
		reseed_lib(h2.next() ^ h1.next() ^ 0xABCDEF0123ULL);
	}
	bool thorough() const { return tier == "thorough"; }
};

} // namespace verif

// ---- the interposed libgcrypt entry points (C linkage, defined in the executable) ----------------
#ifndef VERIF_NO_RNG_INTERPOSE
extern "C" {
void gcry_randomize(void *buffer, size_t length, enum gcry_random_level) { verif::serve_bytes((unsigned char*)buffer, length); }
void gcry_create_nonce(void *buffer, size_t length) { verif::serve_bytes((unsigned char*)buffer, length); }
void gcry_mpi_randomize(gcry_mpi_t w, unsigned int nbits, enum gcry_random_level) {
	size_t nbytes = (nbits + 7) / 8;
	std::vector<unsigned char> buf(nbytes ? nbytes : 1, 0);
	verif::serve_bytes(buf.data(), nbytes);
	if (nbits % 8) buf[0] &= (unsigned char)((1u << (nbits % 8)) - 1);
	gcry_mpi_t t = NULL; size_t sc = 0;
	gcry_mpi_scan(&t, GCRYMPI_FMT_USG, buf.data(), nbytes, &sc);
	gcry_mpi_set(w, t); gcry_mpi_release(t);
}
}
#endif

#endif
