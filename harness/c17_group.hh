// small Schnorr groups for the C16/C17 harnesses: p = k q + 1 prime, q prime, g and h of order q.
// Everything here uses plain GMP and the generator-side SplitMix64 (never the library's RNG).
#ifndef VERIF_C17_GROUP_HH
#define VERIF_C17_GROUP_HH
#include "common.hh"

struct Grp {
	mpz_t p, q, g, h, k;
	Grp() { mpz_init(p); mpz_init(q); mpz_init(g); mpz_init(h); mpz_init(k); }
	~Grp() { mpz_clear(p); mpz_clear(q); mpz_clear(g); mpz_clear(h); mpz_clear(k); }
	Grp(const Grp &o) { mpz_init_set(p, o.p); mpz_init_set(q, o.q); mpz_init_set(g, o.g); mpz_init_set(h, o.h); mpz_init_set(k, o.k); }
	Grp &operator=(const Grp &o) { mpz_set(p, o.p); mpz_set(q, o.q); mpz_set(g, o.g); mpz_set(h, o.h); mpz_set(k, o.k); return *this; }

	void order_q_element(mpz_ptr r) const {
		mpz_t b; mpz_init(b);
		do { verif::gen_below(b, p); mpz_powm(r, b, k, p); } while (mpz_cmp_ui(r, 1) <= 0);
		mpz_clear(b);
	}
	void generate(unsigned qbits, unsigned pbits) {
		using namespace verif;
		for (;;) {
			gen_bits(q, qbits); mpz_setbit(q, qbits - 1); mpz_setbit(q, 0);
			mpz_nextprime(q, q);
			if (mpz_sizeinbase(q, 2) != qbits) continue;
			bool found = false;
			for (unsigned tries = 0; tries < 20000 && !found; tries++) {
				gen_bits(k, pbits - qbits); mpz_setbit(k, pbits - qbits - 1); mpz_clrbit(k, 0);
				mpz_mul(p, k, q); mpz_add_ui(p, p, 1);
				if (mpz_sizeinbase(p, 2) == pbits && mpz_probab_prime_p(p, 30)) found = true;
			}
			if (!found) continue;
			// q must not divide k (then the order-q subgroup is the unique one and x^k has order 1 or q)
			if (mpz_divisible_p(k, q)) continue;
			order_q_element(g);
			do order_q_element(h); while (mpz_cmp(g, h) == 0);
			return;
		}
	}
	bool selfcheck() const {
		mpz_t t; mpz_init(t); bool ok = mpz_probab_prime_p(p, 30) && mpz_probab_prime_p(q, 30);
		mpz_powm(t, g, q, p); ok = ok && mpz_cmp_ui(t, 1) == 0 && mpz_cmp_ui(g, 1) > 0;
		mpz_powm(t, h, q, p); ok = ok && mpz_cmp_ui(t, 1) == 0 && mpz_cmp_ui(h, 1) > 0;
		mpz_clear(t); return ok;
	}
	// C = g^x h^y mod p (x, y >= 0)
	void commit(mpz_ptr C, mpz_srcptr x, mpz_srcptr y) const {
		mpz_t a, b; mpz_init(a); mpz_init(b);
		mpz_powm(a, g, x, p); mpz_powm(b, h, y, p); mpz_mul(C, a, b); mpz_mod(C, C, p);
		mpz_clear(a); mpz_clear(b);
	}
	// an element of Z_p^* that is not in the order-q subgroup
	void nonmember(mpz_ptr r) const {
		mpz_t t; mpz_init(t);
		do { verif::gen_below(r, p); if (mpz_cmp_ui(r, 2) < 0) mpz_set_ui(r, 2); mpz_powm(t, r, q, p); } while (mpz_cmp_ui(t, 1) == 0);
		mpz_clear(t);
	}
};
#endif
