// C07 correspondence harness: the interposed RNG feeds chosen raw words / bytes to the real samplers
// (tmcg_mpz_{w,s,ss}random_mod, *randomm, *randomb) and to TMCG_CreateStackSecret; every call is one REC line
// (inputs + logged coins + result) for the extracted model.  PROPFAIL = the property on the implementation:
// a value outside its range, a raw word accepted outside the unbiased range [0, floor(2^64/m)*m), too few random
// bytes for a residue, and the exact-distribution sweep (all coin vectors -> every permutation exactly once).
#include "c02_shuffle.hh"
#include <cmath>
using namespace verif;

typedef unsigned long ul;

static std::string take_log() { std::string s((const char*)coin_log().data(), coin_log().size()); coin_log().clear(); return s; }
static ul word_at(const std::string &s, size_t i) { ul w; memcpy(&w, s.data() + 8 * i, 8); return w; }

static const char *LV[3] = { "w", "s", "ss" };
static ul call_mod(int lv, ul m) { return lv == 0 ? tmcg_mpz_wrandom_mod(m) : lv == 1 ? tmcg_mpz_srandom_mod(m) : tmcg_mpz_ssrandom_mod(m); }
static void call_m(int lv, mpz_ptr r, mpz_srcptr m) { if (lv == 0) tmcg_mpz_wrandomm(r, m); else if (lv == 1) tmcg_mpz_srandomm(r, m); else tmcg_mpz_ssrandomm(r, m); }
static void call_b(int lv, mpz_ptr r, ul size) { if (lv == 0) tmcg_mpz_wrandomb(r, size); else if (lv == 1) tmcg_mpz_srandomb(r, size); else tmcg_mpz_ssrandomb(r, size); }

// one bounded-sampler call under a script of raw words
static void one_mod(int lv, ul m, const std::vector<ul> &script) {
	coin_script().clear(); for (ul w : script) script_ulong(w);
	coin_log().clear(); coin_logging() = true;
	bool threw = false; ul v = 0;
	try { v = call_mod(lv, m); } catch (std::invalid_argument &) { threw = true; }
	coin_logging() = false;
	coin_script().clear();            // scripts are deliberately longer than needed; the log holds what was consumed
	std::string coins = take_log();
	std::string out = threw ? "throw" : "ret:" + hx(v);
	Rec("rmod").t(LV[lv]).u(m).b(coins).t(out);
	std::string ctx = "tmcg_mpz_" + std::string(LV[lv]) + "random_mod(" + std::to_string(m) + ")";
	if (threw) { if (m >= 2) propfail("rmod-throw", ctx + " threw"); return; }
	if (m < 2) { propfail("rmod-throw", ctx + " did not throw"); return; }
	if (v >= m) propfail("rmod-range", ctx + " returned " + std::to_string(v));
	size_t nw = coins.size() / 8;
	if (coins.size() % 8 || nw == 0) { propfail("rmod-coins", ctx + " consumed " + std::to_string(coins.size()) + " random bytes"); return; }
	// which words are accepted is judged by the style-independent bias_oracle (rmod-bias); a different but unbiased
	// acceptance set only shows up as a model/code disagreement
	ul last = word_at(coins, nw - 1);
	if (v != last % m) propfail("rmod-value", ctx + " returned " + std::to_string(v) + " for the accepted raw word " + std::to_string(last));
}

// does the sampler accept the raw word w as its first word?  (w is scripted first; a fresh stream follows)
static bool accepts(int lv, ul m, ul w) {
	coin_script().clear(); script_ulong(w);
	coin_log().clear(); coin_logging() = true;
	(void)call_mod(lv, m);
	coin_logging() = false;
	size_t used = coin_log().size(); coin_log().clear(); coin_script().clear();
	return used == 8;
}
// Style-independent unbiasedness oracle: the set of accepted raw words is located by bisection (it is an interval
// [lo, hi) for every rejection sampler of this kind: [0, lim) here, [min, 2^64) in the arc4random style); the result
// is w mod m, so every residue is equally likely iff hi - lo is a positive multiple of m.
static void bias_oracle(int lv, ul m) {
	std::string ctx = "tmcg_mpz_" + std::string(LV[lv]) + "random_mod(" + std::to_string(m) + ")";
	bool a0 = accepts(lv, m, 0), a1 = accepts(lv, m, ULONG_MAX);
	unsigned __int128 W = (unsigned __int128)1 << 64, lo = 0, hi = W;
	ul inner = 0; bool have_inner = a0 || a1;
	if (a0) inner = 0; else if (a1) inner = ULONG_MAX;
	for (unsigned k = 0; k < 200 && !have_inner; k++) { ul w = gen().next(); if (accepts(lv, m, w)) { inner = w; have_inner = true; } }
	if (!have_inner) { propfail("rmod-bias", ctx + ": no accepted raw word found among 0, 2^64-1 and 200 random words"); return; }
	if (!a0) { ul l = 0, r = inner; while (r - l > 1) { ul mid = l + (r - l) / 2; if (accepts(lv, m, mid)) r = mid; else l = mid; } lo = r; }      // smallest accepted
	if (!a1) { ul l = inner, r = ULONG_MAX; while (r - l > 1) { ul mid = l + (r - l) / 2; if (accepts(lv, m, mid)) l = mid; else r = mid; } hi = (unsigned __int128)l + 1; }   // one past the largest accepted
	unsigned __int128 size = hi - lo;
	// spot checks that the set really is that interval
	for (unsigned k = 0; k < 24; k++) {
		ul w = gen().next(); bool in = ((unsigned __int128)w >= lo && (unsigned __int128)w < hi);
		if (accepts(lv, m, w) != in) { propfail("rmod-bias", ctx + ": the accepted raw words are not one interval (word " + std::to_string(w) + ")"); return; }
	}
	if (size % m != 0) {
		std::string his = (hi == W) ? "2^64" : std::to_string((ul)hi);
		std::string sz = (size == W) ? "2^64" : std::to_string((ul)size);
		propfail("rmod-bias", ctx + " accepts exactly the raw words [" + std::to_string((ul)lo) + ", " + his + ") and returns w mod m: " + sz +
			" words is not a multiple of the modulus, so the residues are not equally likely");
	}
}

static void one_m(int lv, mpz_srcptr m, bool record) {
	mpz_t r, e; mpz_init(r); mpz_init(e);
	coin_log().clear(); coin_logging() = true;
	call_m(lv, r, m);
	coin_logging() = false;
	std::string coins = take_log();
	if (record) Rec("rm").t(LV[lv]).z(m).b(coins).t("ret:" + hx(r));
	std::string ctx = "tmcg_mpz_" + std::string(LV[lv]) + "randomm(m=" + hx(m) + ")";
	if (mpz_sgn(r) < 0 || mpz_cmpabs(r, m) >= 0) propfail("rm-range", ctx + " returned " + hx(r));
	size_t need = (mpz_sizeinbase(m, 2) + 64 + 7) / 8;
	if (coins.size() < need) propfail("rm-bytes", ctx + " drew " + std::to_string(coins.size()) + " random bytes, fewer than bitlen(m)+64 bits: the modulo bias is no longer negligible");
	mpz_import(e, coins.size(), 1, 1, 1, 0, coins.data()); mpz_mod(e, e, m);
	if (mpz_cmp(e, r)) propfail("rm-value", ctx + " is not the big-endian value of the drawn bytes mod m");
	mpz_clear(r); mpz_clear(e);
}

static void one_b(int lv, ul size) {
	mpz_t r; mpz_init(r);
	coin_log().clear(); coin_logging() = true;
	bool threw = false;
	try { call_b(lv, r, size); } catch (std::invalid_argument &) { threw = true; }
	coin_logging() = false;
	std::string coins = take_log();
	Rec("rb").t(LV[lv]).u(size).b(coins).t(threw ? "throw" : "ret:" + hx(r));
	std::string ctx = "tmcg_mpz_" + std::string(LV[lv]) + "randomb(" + std::to_string(size) + ")";
	if (threw) { if (size) propfail("rb-throw", ctx + " threw"); mpz_clear(r); return; }
	if (size == 0) { propfail("rb-throw", ctx + " did not throw"); mpz_clear(r); return; }
	if (mpz_sgn(r) < 0 || mpz_sizeinbase(r, 2) > size) propfail("rb-range", ctx + " returned " + hx(r));
	if (coins.size() != (size + 7) / 8) propfail("rb-bytes", ctx + " drew " + std::to_string(coins.size()) + " bytes");
	mpz_clear(r);
}

// chi-square of the position x value table of m index vectors of size n (secondary, statistical)
static double chi2(const std::vector<std::vector<unsigned> > &cnt, size_t n, double m) {
	double e = m / n, x = 0;
	for (size_t i = 0; i < n; i++) for (size_t j = 0; j < n; j++) { double d = cnt[i][j] - e; x += d * d / e; }
	return x;
}

int main(int argc, char **argv) {
	Args A(argc, argv);
	if (!init_libTMCG()) { fprintf(stderr, "init_libTMCG failed\n"); return 2; }
	const bool T = A.thorough();
	std::string part = A.only;
	auto want = [&](const char *p) { return part.empty() || part == p; };

	// ---- 1. bounded sampler: boundary moduli x boundary raw words -------------------------------------------------
	if (want("mod")) {
		std::vector<ul> mods = { 2, 3, 4, 5, 6, 7, 10, 52, 255, 256, 257, 512, 1000003 };
		for (unsigned k = 3; k < 64; k += (T ? 1 : 4)) { ul p = 1UL << k; mods.push_back(p); mods.push_back(p - 1); mods.push_back(p + 1); }
		ul half = 1UL << 63;
		ul tail[] = { half - 1, half, half + 1, half + 2, half + 12345, (half / 2) * 3, ULONG_MAX / 3, ULONG_MAX / 3 + 1, ULONG_MAX / 2 + 2, ULONG_MAX - 2, ULONG_MAX - 1, ULONG_MAX };
		for (ul m : tail) mods.push_back(m);
		// well inside (2^63, 2^64): 3*2^62, 5*2^61, 7*2^61, 2^63 + 2^62 +- small, and random ones (2*m wraps around here)
		ul inside[] = { 3UL << 62, 5UL << 61, 7UL << 61, (3UL << 62) + 1, (3UL << 62) - 1, (5UL << 61) + 12345, 11UL << 60, 13UL << 60, 15UL << 60, 0xC000000000000001UL, 0xDEADBEEFCAFEF00DUL };
		for (ul m : inside) mods.push_back(m);
		for (unsigned k = 0; k < (T ? 60u : 12u); k++) mods.push_back(half + 1 + gen().below(half - 1));
		for (unsigned k = 0; k < (T ? 200u : 30u); k++) { ul m = gen().next() >> gen().below(63); if (m >= 2) mods.push_back(m); }
		unsigned __int128 W = (unsigned __int128)1 << 64;
		for (ul m : mods) {
			unsigned __int128 lim = (W / m) * m;                 // first rejected word (2^64 if none)
			ul maxw = (ul)(lim - 1);
			std::vector<ul> firstw = { 0, 1, m - 1, m, maxw - 1, maxw, (ul)(maxw + 1), ULONG_MAX, ULONG_MAX - 1, gen().next(), gen().next() };
			int lv = gen().below(3);
			for (ul w0 : firstw) {
				std::vector<ul> script = { w0 };
				unsigned more = gen().below(4);
				for (unsigned j = 0; j < more; j++) { ul w; if (gen().coin() && rejected_word(m, w)) script.push_back(w); else script.push_back(gen().next()); }
				if (!word_accepted(w0, m) && gen().coin()) { script.resize(1); script.push_back(ULONG_MAX); script.push_back(maxw); }
				one_mod(lv, m, script);
				lv = (lv + 1) % 3;
			}
			bias_oracle(lv, m);
			// the three quality levels behave identically on identical coins
			ul w = gen().next(); ul r[3];
			for (int l = 0; l < 3; l++) { coin_script().clear(); script_ulong(w); script_ulong(maxw); r[l] = call_mod(l, m); coin_script().clear(); }
			if (r[0] != r[1] || r[1] != r[2]) propfail("rmod-levels", "quality levels disagree for modulo " + std::to_string(m));
		}
		for (int lv = 0; lv < 3; lv++) { one_mod(lv, 0, {}); one_mod(lv, 1, {}); }
	}

	// ---- 2. residue sampler and bit sampler ----------------------------------------------------------------------
	if (want("resid")) {
		mpz_t m; mpz_init(m);
		unsigned reps = T ? 1500 : 250;
		for (unsigned k = 0; k < reps; k++) {
			unsigned bits = (k < 140) ? 1 + k : 1 + gen().below(260);
			switch (gen().below(5)) {
			case 0: mpz_set_ui(m, 0); mpz_setbit(m, bits - 1); break;                                     // 2^(bits-1)
			case 1: mpz_set_ui(m, 0); mpz_setbit(m, bits); mpz_sub_ui(m, m, 1); break;                    // 2^bits - 1
			case 2: mpz_set_ui(m, 0); mpz_setbit(m, bits - 1); mpz_add_ui(m, m, 1); break;                // 2^(bits-1) + 1
			default: gen_bits(m, bits); mpz_setbit(m, bits - 1); break;
			}
			if (mpz_sgn(m) == 0) mpz_set_ui(m, 1);
			if (k % 5 == 0) {      // boundary bytes: all ones / all zero
				size_t nb = (mpz_sizeinbase(m, 2) + 64 + 7) / 8;
				coin_script().clear(); script_bytes(std::vector<unsigned char>(nb, (k % 10 == 0) ? 0xff : 0x00));
			}
			one_m(k % 3, m, true);
			coin_script().clear();
		}
		for (unsigned k = 0; k < (T ? 60u : 12u); k++) {     // big moduli: implementation-level oracle only
			gen_bits(m, 1024 + gen().below(3072)); mpz_setbit(m, 1023);
			one_m(k % 3, m, false);
		}
		for (ul size = 0; size <= (T ? 300u : 140u); size++) one_b(size % 3, size);
		ul bigsz[] = { 511, 512, 513, 1023, 1024, 2048, 4095 };
		for (ul s : bigsz) one_b(gen().below(3), s);
		mpz_clear(m);
	}

	// ---- 2b. the residue cache: init for q, then queries with m = q (hits, then fresh), m < q, m > q, exhausted cache --------
	if (want("cache")) {
		mpz_t q, m, r, e; mpz_init(q); mpz_init(m); mpz_init(r); mpz_init(e);
		unsigned reps = T ? 400 : 80;
		for (unsigned k = 0; k < reps; k++) {
			unsigned bits = 2 + gen().below(k % 4 == 0 ? 200 : 40);
			gen_bits(q, bits); mpz_setbit(q, bits - 1);
			size_t ns[] = { 1, 2, 3, 5, 8, TMCG_MAX_SSRANDOMM_CACHE, 0, TMCG_MAX_SSRANDOMM_CACHE + 1 };
			size_t n = ns[k % 8]; if (k % 8 == 5 && k % 16 != 5) n = 4;
			// the query moduli
			std::vector<std::string> ms; std::vector<int> kinds;
			size_t nq = 2 + gen().below(8) + (n <= 8 ? n : 3);
			static mpz_t qs[64]; static bool qinit = false; if (!qinit) { for (auto &x : qs) mpz_init(x); qinit = true; }
			nq = std::min(nq, (size_t)64);
			for (size_t j = 0; j < nq; j++) {
				switch (gen().below(8)) {
				case 0: mpz_sub_ui(qs[j], q, 1); break;                                  // just below
				case 1: mpz_add_ui(qs[j], q, 1); break;                                  // just above
				case 2: mpz_set_ui(qs[j], 2 + gen().below(3)); break;                     // far below
				case 3: mpz_mul_ui(qs[j], q, 2 + gen().below(1000)); mpz_add_ui(qs[j], qs[j], gen().below(7)); break;   // far above
				case 4: mpz_fdiv_q_ui(qs[j], q, 2); mpz_add_ui(qs[j], qs[j], 1); break;    // about half
				default: mpz_set(qs[j], q); break;                                       // the cache modulus
				}
				if (mpz_cmp_ui(qs[j], 1) < 0) mpz_set_ui(qs[j], 1);
			}
			mpz_t cache[TMCG_MAX_SSRANDOMM_CACHE]; mpz_t cmod; size_t avail = 0;
			std::string coins, vals, mtok; bool threw = false;
			coin_script().clear(); coin_log().clear(); coin_logging() = true;
			try { tmcg_mpz_ssrandomm_cache_init(cache, cmod, avail, n, q); } catch (std::invalid_argument &) { threw = true; }
			coins = take_log();
			if (threw) {
				coin_logging() = false;
				Rec("rcache").d((long)n).z(q).t("_").b(coins).t("throw");
				if (n >= 1 && n <= TMCG_MAX_SSRANDOMM_CACHE) propfail("cache-throw", "tmcg_mpz_ssrandomm_cache_init threw for n=" + std::to_string(n));
				continue;
			}
			if (n == 0 || n > TMCG_MAX_SSRANDOMM_CACHE) propfail("cache-throw", "tmcg_mpz_ssrandomm_cache_init accepted n=" + std::to_string(n));
			if (avail != n) propfail("cache-avail", "cache of " + std::to_string(n) + " entries reports " + std::to_string(avail) + " available");
			size_t hits = 0;
			for (size_t j = 0; j < nq; j++) {
				size_t before = avail;
				tmcg_mpz_ssrandomm_cache(cache, cmod, avail, r, qs[j]);
				std::string used = take_log(); coins += used;
				if (j) { vals += ","; mtok += ","; } vals += hx(r); mtok += hx(qs[j]);
				std::string ctx = "tmcg_mpz_ssrandomm_cache(cache for q=" + hx(q) + " with " + std::to_string(before) + " entries left, m=" + hx(qs[j]) + ")";
				if (mpz_sgn(r) < 0 || mpz_cmp(r, qs[j]) >= 0) propfail("cache-range", ctx + " returned " + hx(r) + ", outside [0, m)");
				bool hit = (mpz_cmp(qs[j], q) == 0 && before > 0);
				if (hit) { hits++; if (avail != before - 1 || !used.empty()) propfail("cache-hit", ctx + ": a cache hit must consume exactly one entry and no random bytes"); }
				else {
					if (avail != before) propfail("cache-hit", ctx + ": a miss consumed a cache entry");
					size_t need = (mpz_sizeinbase(qs[j], 2) + 64 + 7) / 8;
					if (used.size() < need) propfail("cache-bytes", ctx + " drew " + std::to_string(used.size()) + " random bytes, fewer than bitlen(m)+64 bits");
					mpz_import(e, used.size(), 1, 1, 1, 0, used.data()); mpz_mod(e, e, qs[j]);
					if (mpz_cmp(e, r)) propfail("cache-value", ctx + " is not the value of the drawn bytes modulo m (a residue for a different modulus?)");
				}
			}
			coin_logging() = false;
			tmcg_mpz_ssrandomm_cache_done(cache, cmod, avail);
			if (avail != 0) propfail("cache-avail", "cache_done leaves " + std::to_string(avail) + " entries");
			Rec("rcache").d((long)n).z(q).t(mtok).b(coins).t("ret:" + vals);
		}
		mpz_clear(q); mpz_clear(m); mpz_clear(r); mpz_clear(e);
	}

	// ---- 3. exact distribution of the shuffle generators ------------------------------------------------------------
	if (want("fy")) {
		Group G(64, 20, 3);
		size_t NMAX = T ? 7 : 6;
		for (size_t n = 1; n <= NMAX; n++) {
			std::vector<ul> c(n - 1, 0);
			std::map<std::string, int> seen;
			for (;;) {
				std::vector<ul> script;
				for (size_t i = 0; i + 1 < n; i++) {
					ul m = n - i, w;
					if (gen().below(8) == 0 && rejected_word(m, w)) script.push_back(w);
					script.push_back(word_for(c[i], m));
				}
				CssResult R = run_css(G, false, n, script);
				rec_css(G, false, n, R);
				oracle_css(G, false, n, R, "n=" + std::to_string(n) + " coins=" + tok_idx(std::vector<size_t>(c.begin(), c.end())));
				seen[tok_idx(firsts(R.ss))]++;
				size_t k = 0; while (k + 1 < n && ++c[k] == n - k) c[k++] = 0;
				if (k + 1 >= n) break;
			}
			size_t fact = 1; for (size_t i = 2; i <= n; i++) fact *= i;
			std::string worst; int wc = 1;
			for (auto &kv : seen) if (kv.second != 1) { worst = kv.first; wc = kv.second; break; }
			if (seen.size() != fact || !worst.empty())
				propfail("fy-exact-distribution", "n=" + std::to_string(n) + ": the " + std::to_string(fact) + " equally likely coin vectors give " + std::to_string(seen.size()) +
					" distinct index vectors" + (worst.empty() ? std::string("") : " (" + worst + " occurs " + std::to_string(wc) + " times)") + ": not uniform");
		}
		for (size_t n = 2; n <= (T ? 64u : 24u); n++) {
			std::set<size_t> offs;
			for (ul r = 0; r < n; r++) {
				CssResult R = run_css(G, true, n, { word_for(r, n) });
				if (n <= 12 || r == 0 || r == n - 1) rec_css(G, true, n, R);
				oracle_css(G, true, n, R, "rotation n=" + std::to_string(n) + " r=" + std::to_string(r));
				offs.insert(R.offset);
			}
			if (offs.size() != n) propfail("rot-exact-distribution", "n=" + std::to_string(n) + ": the n equally likely coins give " + std::to_string(offs.size()) + " distinct offsets");
		}
		// unscripted, all sizes: correspondence + range oracle
		for (unsigned k = 0; k < (T ? 200u : 40u); k++) {
			size_t n = (k % 8 == 0) ? 65 + gen().below(TMCG_MAX_CARDS - 64) : 2 + gen().below(63); bool cyc = (k % 4 == 3);
			CssResult R = run_css(G, cyc, n, {});
			rec_css(G, cyc, n, R);
			oracle_css(G, cyc, n, R, "n=" + std::to_string(n));
		}
	}

	// ---- 4. secondary, statistical: positional marginals of sampled shuffles (chi-square, very loose bound) --------------
	if (want("stat")) {
		Group G(64, 20, 3);
		size_t ns[] = { 3, 7, 16, 64 };
		for (size_t n : ns) {
			size_t m = T ? 100000 : 20000;
			std::vector<std::vector<unsigned> > cnt(n, std::vector<unsigned>(n, 0));
			std::vector<unsigned> rot(n, 0);
			for (size_t k = 0; k < m; k++) {
				TMCG_StackSecret<VTMF_CardSecret> ss;
				G.tmcg->TMCG_CreateStackSecret(ss, false, n, G.vtmf);
				for (size_t i = 0; i < n && i < ss.size(); i++) if (ss[i].first < n) cnt[i][ss[i].first]++;
				size_t off = G.tmcg->TMCG_CreateStackSecret(ss, true, n, G.vtmf);
				if (off < n) rot[off]++;
			}
			double df = double(n - 1) * double(n - 1), x = chi2(cnt, n, (double)m);
			double bound = df + 10.0 * std::sqrt(2.0 * df) + 30.0;
			if (x > bound) propfail("stat-marginals", "n=" + std::to_string(n) + ": chi-square of the position/value table = " + std::to_string(x) + " for " + std::to_string((long)df) + " degrees of freedom (bound " + std::to_string(bound) + ")");
			double xr = 0, e = double(m) / n; for (size_t i = 0; i < n; i++) xr += (rot[i] - e) * (rot[i] - e) / e;
			double br = (n - 1) + 10.0 * std::sqrt(2.0 * (n - 1)) + 30.0;
			if (xr > br) propfail("stat-rotation", "n=" + std::to_string(n) + ": chi-square of the rotation offsets = " + std::to_string(xr) + " (bound " + std::to_string(br) + ")");
			printf("NOTE stat n=%zu samples=%zu chi2=%.1f df=%.0f rot_chi2=%.1f\n", n, m, x, df, xr);
		}
	}
	return 0;
}
