// C11, part 2: implementation-level round-trip oracle for the exportable objects that the Coq model does not
// cover: keys, open stacks, group / commitment parameter sets (PublishGroup -> stream constructor) and persisted
// protocol states (PublishState -> state constructor).  PROPFAIL when re-import is refused, the re-imported
// object differs, or the re-export is not the identical text.  (Testing, not proof; see DESIGN C11.)
#include "common.hh"
#include <libTMCG.hh>
using namespace verif;

template<class T> static std::string exp(const T &x) { std::ostringstream o; o << x; return o.str(); }
template<class T> static std::string grp(const T &x) { std::ostringstream o; x.PublishGroup(o); return o.str(); }
template<class T> static std::string sta(const T &x) { std::ostringstream o; x.PublishState(o); return o.str(); }

// fill persisted-state members with non-zero random content (a fresh instance is all zeros, which hides misaligned reads)
static void fill(mpz_ptr z) { gen_bits(z, 100); mpz_add_ui(z, z, 1); }
static void fill(std::vector<mpz_ptr> &v) { for (mpz_ptr z : v) fill(z); }
static void fill(std::vector< std::vector<mpz_ptr> > &v) { for (auto &r : v) fill(r); }

static void same(const char *key, const std::string &a, const std::string &b) {
	if (a != b) propfail(key, std::string("re-export differs: first '") + a.substr(0, 160) + "' second '" + b.substr(0, 160) + "'");
}

int main(int argc, char **argv) {
	Args A(argc, argv);
	if (!init_libTMCG()) return 2;
	const unsigned F = 256, G = 128;
	unsigned rounds = A.thorough() ? 12 : 3;
	for (unsigned it = 0; it < rounds; it++) {
		// ---- keys --------------------------------------------------------------------------------
		try {
			TMCG_SecretKey sk("Alice " + std::to_string(it), "alice@example.org", 512 + 64 * gen().below(3), it % 2 == 1);
			std::string s = exp(sk);
			TMCG_SecretKey sk2; bool ok = sk2.import(s);
			if (!ok) propfail("seckey-roundtrip", "TMCG_SecretKey export refused on import");
			else same("seckey-roundtrip", s, exp(sk2));
			TMCG_SecretKey used("Bob", "bob@example.org", 512, false);   // keys reset on import
			ok = used.import(s);
			if (!ok) propfail("seckey-roundtrip-used", "TMCG_SecretKey import into used object refused"); else same("seckey-roundtrip-used", s, exp(used));
			TMCG_PublicKey pk(sk); s = exp(pk);
			TMCG_PublicKey pk2; ok = pk2.import(s);
			if (!ok) propfail("pubkey-roundtrip", "TMCG_PublicKey export refused on import"); else same("pubkey-roundtrip", s, exp(pk2));
			TMCG_PublicKey pku(used); ok = pku.import(s);
			if (!ok) propfail("pubkey-roundtrip-used", "TMCG_PublicKey import into used object refused"); else same("pubkey-roundtrip-used", s, exp(pku));
			Rec("key").d(mpz_sizeinbase(sk.m, 2)).d(it % 2).d(s.size());
		} catch (std::exception &e) { propfail("key-exception", e.what()); }
		// ---- open stacks -----------------------------------------------------------------------------
		{
			TMCG_OpenStack<VTMF_Card> os; size_t n = 1 + gen().below(8);
			for (size_t i = 0; i < n; i++) { VTMF_Card c; gen_bits(c.c_1, 100); gen_bits(c.c_2, 100); os.push(gen().below(1024), c); }
			Rec("openstack").d(n);
			TMCG_OpenStack<VTMF_Card> o2 = os;
			if (!(o2 == os)) propfail("openstack-copy", "copy of an open stack differs");
		}
		// ---- group parameter sets ---------------------------------------------------------------------
		try {
			BarnettSmartVTMF_dlog v(F, G, it % 2 == 1);
			std::string s = grp(v); std::istringstream in(s);
			BarnettSmartVTMF_dlog v2(in, F, G, it % 2 == 1);
			if (!v2.CheckGroup()) propfail("vtmf-group-roundtrip", "re-imported VTMF group fails CheckGroup: " + s);
			same("vtmf-group-roundtrip", s, grp(v2));
			Rec("vtmfgroup").d(it % 2).d(s.size());

			// generator counts around the fixed-base table limit TMCG_MAX_FPOWM_N (only the first 256 generators have tables)
			static const size_t NGEN[] = { 1, 2, 3, 4, TMCG_MAX_FPOWM_N - 1, TMCG_MAX_FPOWM_N, TMCG_MAX_FPOWM_N + 1, 300, TMCG_MAX_CARDS };
			size_t ngen = (it == 0) ? TMCG_MAX_FPOWM_N + 1 : NGEN[gen().below(A.thorough() ? 9 : 8)];
			PedersenCommitmentScheme com(ngen, F, G);
			s = grp(com); std::istringstream in2(s);
			PedersenCommitmentScheme com2(com.g.size(), in2, F, G);
			if (!com2.CheckGroup()) propfail("pedersen-group-roundtrip", "re-imported commitment scheme fails CheckGroup");
			same("pedersen-group-roundtrip", s, grp(com2));
			Rec("comgroup").d(com.g.size()).d(s.size());

			v.KeyGenerationProtocol_GenerateKey(); v.KeyGenerationProtocol_Finalize();
			GrothVSSHE vs((it == 1) ? TMCG_MAX_FPOWM_N + 2 : 2 + gen().below(3), v.p, v.q, v.k, v.g, v.h, 24, F, G);
			s = grp(vs); std::istringstream in3(s);
			GrothVSSHE vs2(vs.com->g.size(), in3, 24, F, G);
			if (!vs2.CheckGroup()) propfail("vsshe-group-roundtrip", "re-imported GrothVSSHE parameters fail CheckGroup");
			same("vsshe-group-roundtrip", s, grp(vs2));
			Rec("vsshegroup").d(vs.com->g.size()).d(s.size());

			HooghSchoenmakersSkoricVillegasVRHE vr(v.p, v.q, v.g, v.h, F, G);
			s = grp(vr); std::istringstream in4(s);
			HooghSchoenmakersSkoricVillegasVRHE vr2(in4, F, G);
			if (!vr2.CheckGroup()) propfail("vrhe-group-roundtrip", "re-imported VRHE parameters fail CheckGroup");
			same("vrhe-group-roundtrip", s, grp(vr2));
			Rec("vrhegroup").d(s.size());

			// ---- persisted protocol states (fresh instances; states after a run are covered by C15) ------
			size_t n = 3 + gen().below(3), t = (n - 1) / 2;
			PedersenVSS vss(n, t, gen().below(n), v.p, v.q, v.g, v.h, F, G, false, "lbl");
			fill(vss.sigma_i); fill(vss.tau_i); fill(vss.a_j); fill(vss.b_j); fill(vss.A_j);
			s = sta(vss); std::istringstream in5(s);
			PedersenVSS vss2(in5, F, G, false, "lbl");
			same("vss-state-roundtrip", s, sta(vss2));
			Rec("vssstate").d(n).d(t).d(s.size());
			GennaroJareckiKrawczykRabinDKG dkg(n, t, gen().below(n), v.p, v.q, v.g, v.h, F, G, false, false, "lbl");
			fill(dkg.x_i); fill(dkg.xprime_i); fill(dkg.y); fill(dkg.y_i); fill(dkg.z_i); fill(dkg.v_i);
			fill(dkg.s_ij); fill(dkg.sprime_ij); fill(dkg.C_ik);
			for (size_t a = 0; a < n; a++) if (gen().coin()) dkg.QUAL.push_back(a);
			s = sta(dkg); std::istringstream in6(s);
			GennaroJareckiKrawczykRabinDKG dkg2(in6, F, G, false, false, "lbl");
			same("dkg-state-roundtrip", s, sta(dkg2));
			Rec("dkgstate").d(n).d(t).d(s.size());
			size_t tprime = (it % 3 == 0) ? t : ((it % 3 == 1) ? t + 1 + gen().below(2) : (t > 0 ? t - 1 : t + 1));
			CanettiGennaroJareckiKrawczykRabinRVSS rv(n, t, gen().below(n), tprime, v.p, v.q, v.g, v.h, F, G, false, false, "lbl");
			fill(rv.x_i); fill(rv.xprime_i); fill(rv.z_i); fill(rv.zprime_i); fill(rv.s_ji); fill(rv.sprime_ji); fill(rv.C_ik);
			for (size_t a = 0; a < n; a++) if (gen().coin()) rv.QUAL.push_back(a);
			s = sta(rv); std::istringstream in7(s);
			CanettiGennaroJareckiKrawczykRabinRVSS rv2(in7, F, G, false, false, "lbl");
			same("rvss-state-roundtrip", s, sta(rv2));
			Rec("rvssstate").d(n).d(t).d(s.size());
			CanettiGennaroJareckiKrawczykRabinDKG cd(n, t, gen().below(n), v.p, v.q, v.g, v.h, F, G, false, false, "lbl");
			fill(cd.x_i); fill(cd.xprime_i); fill(cd.y);
			for (size_t a = 0; a < n; a++) if (gen().coin()) cd.QUAL.push_back(a);
			s = sta(cd); std::istringstream in8(s);
			CanettiGennaroJareckiKrawczykRabinDKG cd2(in8, F, G, false, false, "lbl");
			same("cdkg-state-roundtrip", s, sta(cd2));
			Rec("cdkgstate").d(n).d(t).d(s.size());
		} catch (std::exception &e) { propfail("group-exception", e.what()); }
	}
	return 0;
}
