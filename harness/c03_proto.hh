// C03, implementation-level completeness oracle for every other verifiable operation of the library:
// honest prover -> unchanged transcript -> verifier must accept.  Interactive protocols run prover and verifier in
// two processes connected by pipes (fork; the child re-seeds the interposed RNG so the parties have different coins).
// No records for the model here: PROPFAIL <key> <details> on any rejection, one STAT line per group.
#ifndef VERIF_C03_PROTO_HH
#define VERIF_C03_PROTO_HH
#include <sys/wait.h>
#include <signal.h>
#include <functional>

namespace c03p {
using namespace verif;

// ---- fd streams -----------------------------------------------------------------------------------------------
class fdoutbuf : public std::streambuf {
	int fd; char buf[8192];
public:
	explicit fdoutbuf(int f) : fd(f) { setp(buf, buf + sizeof buf - 1); }
	int flushbuf() { size_t n = pptr() - pbase(); size_t o = 0; while (o < n) { ssize_t w = ::write(fd, pbase() + o, n - o); if (w <= 0) return -1; o += w; } pbump(-(int)n); return 0; }
	int_type overflow(int_type c) override { if (c != EOF) { *pptr() = (char)c; pbump(1); } return flushbuf() < 0 ? EOF : c; }
	int sync() override { return flushbuf(); }
};
class fdinbuf : public std::streambuf {
	int fd; char buf[8192];
public:
	explicit fdinbuf(int f) : fd(f) { setg(buf, buf, buf); }
	int_type underflow() override { if (gptr() < egptr()) return traits_type::to_int_type(*gptr());
		ssize_t n; do { n = ::read(fd, buf, sizeof buf); } while (n < 0 && errno == EINTR);
		if (n <= 0) return EOF; setg(buf, buf, buf + n); return traits_type::to_int_type(*gptr()); }
};
typedef std::function<bool(std::istream &, std::ostream &)> party_fn;
static uint64_t fork_counter = 0;
static unsigned long cases = 0;

// returns true iff both parties returned true; what = description for PROPFAIL
static bool duplex(const std::string &key, const std::string &what, party_fn prover, party_fn verifier) {
	cases++;
	int a[2], b[2]; if (pipe(a) || pipe(b)) { perror("pipe"); exit(3); }
	fflush(stdout);
	uint64_t cs = lib_rng().next() ^ (++fork_counter * 0x9E3779B97F4A7C15ULL);
	pid_t pid = fork();
	if (pid < 0) { perror("fork"); exit(3); }
	if (pid == 0) {
		close(a[0]); close(b[1]); reseed_lib(cs); alarm(120);
		bool r = false;
		{ fdinbuf ib(b[0]); fdoutbuf ob(a[1]); std::istream in(&ib); std::ostream out(&ob);
		  try { r = prover(in, out); out.flush(); } catch (std::exception &e) { r = false; } catch (bool bb) { r = false; } }
		_exit(r ? 0 : 1);
	}
	close(a[1]); close(b[0]);
	bool vr = false; std::string exc;
	{ fdinbuf ib(a[0]); fdoutbuf ob(b[1]); std::istream in(&ib); std::ostream out(&ob);
	  try { vr = verifier(in, out); out.flush(); } catch (std::exception &e) { exc = e.what(); vr = false; } }
	close(a[0]); close(b[1]);
	int st = 0; waitpid(pid, &st, 0);
	bool pr = WIFEXITED(st) && WEXITSTATUS(st) == 0;
	if (!vr || !pr) propfail(key, what + ": verifier=" + (vr ? "accept" : "REJECT") + (exc.empty() ? "" : " (exception " + exc + ")") +
		" prover-side=" + (pr ? "ok" : (WIFSIGNALED(st) ? "killed by signal " + std::to_string(WTERMSIG(st)) : "false/exit " + std::to_string(WEXITSTATUS(st)))));
	return vr && pr;
}
static bool simplex(const std::string &key, const std::string &what, std::function<void(std::ostream &)> prover, std::function<bool(std::istream &)> verifier) {
	cases++;
	std::stringstream ch; bool vr = false; std::string exc;
	try { prover(ch); vr = verifier(ch); } catch (std::exception &e) { exc = e.what(); }
	if (!vr) propfail(key, what + ": verifier=REJECT" + (exc.empty() ? "" : " (exception " + exc + ")"));
	return vr;
}

// ---- shared set-up ------------------------------------------------------------------------------------------------
struct Table { std::vector<BarnettSmartVTMF_dlog *> pl; Grp G; };
static Table make_table(const Grp &G, unsigned k) {
	Table T; T.G = G;
	for (unsigned i = 0; i < k; i++) { BarnettSmartVTMF_dlog *v = c03v::mk(G); v->KeyGenerationProtocol_GenerateKey(); T.pl.push_back(v); }
	for (unsigned i = 0; i < k; i++) { std::stringstream s; T.pl[i]->KeyGenerationProtocol_PublishKey(s); std::string t = s.str();
		for (unsigned j = 0; j < k; j++) if (j != i) { std::stringstream in(t); if (!T.pl[j]->KeyGenerationProtocol_UpdateKey(in)) propfail("keyshare-nizk-rejected", "honest key contribution refused (p bits " + std::to_string(G.pbits) + ")"); } }
	for (auto v : T.pl) v->KeyGenerationProtocol_Finalize();
	return T;
}
static void free_table(Table &T) { for (auto v : T.pl) delete v; T.pl.clear(); }
static std::string gd(const Grp &G) { return "|p|=" + std::to_string(G.pbits) + " |q|=" + std::to_string(G.qbits) + (G.qr ? " GroupQR" : ""); }

static std::vector<size_t> make_perm(size_t n, unsigned kind) {
	std::vector<size_t> pi(n); for (size_t i = 0; i < n; i++) pi[i] = i;
	switch (kind % 6) {
	case 0: break;                                                              // identity
	case 1: std::reverse(pi.begin(), pi.end()); break;
	case 2: for (size_t i = n; i > 1; i--) std::swap(pi[i - 1], pi[gen().below(i)]); break;
	case 3: std::rotate(pi.begin(), pi.begin() + (1 % n), pi.end()); break;      // rotation by 1
	case 4: std::rotate(pi.begin(), pi.begin() + ((n - 1) % n), pi.end()); break; // rotation by n-1
	case 5: std::rotate(pi.begin(), pi.begin() + gen().below(n), pi.end()); break;
	}
	return pi;
}
static const char *PK[] = { "identity", "reversal", "random", "rot1", "rot-1", "rot-random" };

// ---- vtmf: realistic sizes, interactive key proofs incl. the public-coin variant -------------------------------------
static void group_vtmf(Args &A) {
	std::vector<Grp> gs; gs.push_back(gen_group(256, 160)); gs.push_back(gen_group_qr(A.thorough() ? 512 : 256, 160));
	if (A.thorough()) { gs.push_back(gen_group(1024, 160)); gs.push_back(gen_group(2048, 256)); }
	for (Grp &G : gs) {
		Table T = make_table(G, 3);
		for (auto v : T.pl) if (!v->CheckGroup()) propfail("group-rejected", "CheckGroup false for a generated group " + gd(G));
		unsigned reps = A.thorough() ? 12 : 5;
		for (unsigned i = 0; i < reps; i++) {
			BarnettSmartVTMF_dlog *v = T.pl[i % 3], *w = T.pl[(i + 1) % 3];
			duplex("keyshare-interactive-rejected", "KeyGenerationProtocol_ProveKey_interactive " + gd(G),
				[&](std::istream &in, std::ostream &out) { return v->KeyGenerationProtocol_ProveKey_interactive(in, out); },
				[&](std::istream &in, std::ostream &out) { return w->KeyGenerationProtocol_VerifyKey_interactive(v->h_i, in, out); });
			duplex("keyshare-publiccoin-rejected", "KeyGenerationProtocol_ProveKey_interactive_publiccoin " + gd(G),
				[&](std::istream &in, std::ostream &out) { JareckiLysyanskayaEDCF cf(2, 0, v->p, v->q, v->g, v->h); return v->KeyGenerationProtocol_ProveKey_interactive_publiccoin(&cf, in, out); },
				[&](std::istream &in, std::ostream &out) { JareckiLysyanskayaEDCF cf(2, 0, w->p, w->q, w->g, w->h); return w->KeyGenerationProtocol_VerifyKey_interactive_publiccoin(v->h_i, &cf, in, out); });
			// masking / re-masking / decryption at this size (no records)
			Z m, c1, c2, r; v->RandomElement(m); v->VerifiableMaskingProtocol_Mask(m, c1, c2, r);
			simplex("masking-honest-rejected", "VerifiableMaskingProtocol " + gd(G), [&](std::ostream &o) { v->VerifiableMaskingProtocol_Prove(m, c1, c2, r, o); },
				[&](std::istream &in) { return w->VerifiableMaskingProtocol_Verify(m, c1, c2, in); });
			Z d1, d2, r2; v->VerifiableRemaskingProtocol_Mask(c1, c2, d1, d2, r2);
			simplex("remasking-honest-rejected", "VerifiableRemaskingProtocol " + gd(G), [&](std::ostream &o) { v->VerifiableRemaskingProtocol_Prove(c1, c2, d1, d2, r2, o); },
				[&](std::istream &in) { return w->VerifiableRemaskingProtocol_Verify(c1, c2, d1, d2, in); });
			w->VerifiableDecryptionProtocol_Verify_Initialize(d1);
			for (auto o : T.pl) if (o != w) simplex("decryption-honest-rejected", "VerifiableDecryptionProtocol " + gd(G), [&](std::ostream &os) { o->VerifiableDecryptionProtocol_Prove(d1, os); },
				[&](std::istream &in) { return w->VerifiableDecryptionProtocol_Verify_Update(d1, in); });
			Z mm; w->VerifiableDecryptionProtocol_Verify_Finalize(d2, mm);
			if (mpz_cmp(mm, m)) propfail("decryption-wrong-message", "decryption does not return the masked message " + gd(G));
		}
		free_table(T);
	}
}

// ---- edcf: the two-party coin flip ----------------------------------------------------------------------------------
static void group_edcf(Args &A) {
	std::vector<Grp> gs; gs.push_back(gen_group(128, 64)); gs.push_back(gen_group(256, 160)); if (A.thorough()) gs.push_back(gen_group(1024, 160));
	for (Grp &G : gs) {
		Table T = make_table(G, 2);
		unsigned reps = A.thorough() ? 40 : 12;
		for (unsigned i = 0; i < reps; i++) {
			int vp[2]; if (pipe(vp)) exit(3);
			Z mine;
			bool ok = duplex("coinflip-failed", "JareckiLysyanskayaEDCF::Flip_twoparty " + gd(G),
				[&](std::istream &in, std::ostream &out) { JareckiLysyanskayaEDCF cf(2, 0, G.p, G.q, T.pl[0]->g, T.pl[0]->h); Z a; std::stringstream err;
					bool r = cf.Flip_twoparty(0, a, in, out, err); std::string s = a.h() + "\n"; if (write(vp[1], s.c_str(), s.size()) < 0) r = false; return r; },
				[&](std::istream &in, std::ostream &out) { JareckiLysyanskayaEDCF cf(2, 0, G.p, G.q, T.pl[1]->g, T.pl[1]->h); std::stringstream err;
					return cf.Flip_twoparty(1, mine, in, out, err); });
			close(vp[1]); char buf[4096]; ssize_t n = read(vp[0], buf, sizeof buf - 1); close(vp[0]);
			if (ok) { std::string s(buf, n > 0 ? n : 0); while (!s.empty() && s.back() == '\n') s.pop_back();
				if (s != mine.h()) propfail("coinflip-differs", "the two parties of Flip_twoparty hold different coins: " + s + " vs " + mine.h() + " " + gd(G)); }
		}
		free_table(T);
	}
}

// ---- tmcg: the card toolbox over the VTMF encoding -------------------------------------------------------------------
static void stack_cases(SchindelhauerTMCG &tmcg, BarnettSmartVTMF_dlog *vp, BarnettSmartVTMF_dlog *vv, GrothVSSHE *vsshe_p, GrothVSSHE *vsshe_v,
	HooghSchoenmakersSkoricVillegasVRHE *vrhe_p, HooghSchoenmakersSkoricVillegasVRHE *vrhe_v, size_t n, unsigned kind, const std::string &d0, const std::string &which) {
	std::string d = d0 + " n=" + std::to_string(n) + " perm=" + PK[kind % 6] + " kappa=" + std::to_string(tmcg.TMCG_SecurityLevel);
	TMCG_Stack<VTMF_Card> s, s2;
	for (size_t i = 0; i < n; i++) { VTMF_Card c; tmcg.TMCG_CreateOpenCard(c, vp, gen().below(16)); if (gen().coin()) { VTMF_Card cc; VTMF_CardSecret cs; tmcg.TMCG_CreateCardSecret(cs, vp); tmcg.TMCG_MaskCard(c, cc, cs, vp); c = cc; } s.push(c); }
	std::vector<size_t> pi = make_perm(n, kind);
	bool cyclic = (kind % 6 == 0 || kind % 6 >= 3);   // identity and rotations are cyclic shifts
	TMCG_StackSecret<VTMF_CardSecret> ss;
	tmcg.TMCG_CreateStackSecret(ss, pi, n, vp);
	tmcg.TMCG_MixStack(s, s2, ss, vp);
	if (which == "cutchoose") {
		for (int cyc = 0; cyc < 2; cyc++) { if (cyc && !cyclic) continue;
			duplex(cyc ? "cutchoose-cyclic-rejected" : "cutchoose-rejected", std::string("TMCG_VerifyStackEquality(VTMF, cyclic=") + (cyc ? "true) " : "false) ") + d,
				[&](std::istream &in, std::ostream &out) { tmcg.TMCG_ProveStackEquality(s, s2, ss, cyc, vp, in, out); return true; },
				[&](std::istream &in, std::ostream &out) { return tmcg.TMCG_VerifyStackEquality(s, s2, cyc, vv, in, out); }); }
	}
	if (which == "groth" && vsshe_p) {
		duplex("groth-publiccoin-rejected", "TMCG_VerifyStackEquality_Groth " + d,
			[&](std::istream &in, std::ostream &out) { tmcg.TMCG_ProveStackEquality_Groth(s, s2, ss, vp, vsshe_p, in, out); return true; },
			[&](std::istream &in, std::ostream &out) { return tmcg.TMCG_VerifyStackEquality_Groth(s, s2, vv, vsshe_v, in, out); });
		simplex("groth-noninteractive-rejected", "TMCG_VerifyStackEquality_Groth_noninteractive " + d,
			[&](std::ostream &out) { tmcg.TMCG_ProveStackEquality_Groth_noninteractive(s, s2, ss, vp, vsshe_p, out); },
			[&](std::istream &in) { return tmcg.TMCG_VerifyStackEquality_Groth_noninteractive(s, s2, vv, vsshe_v, in); });
		// the plain interactive variant (verifier's own coins) directly on the shuffle argument
		std::vector<mpz_ptr> R; std::vector<std::pair<mpz_ptr, mpz_ptr> > e, E; std::vector<size_t> pi2;
		tmcg.TMCG_InitializeStackEquality_Groth(pi2, R, e, E, s, s2, ss);
		duplex("groth-interactive-rejected", "GrothVSSHE::Verify_interactive " + d,
			[&](std::istream &in, std::ostream &out) { vsshe_p->Prove_interactive(pi2, R, e, E, in, out); return true; },
			[&](std::istream &in, std::ostream &out) { return vsshe_v->Verify_interactive(e, E, in, out); });
		tmcg.TMCG_ReleaseStackEquality_Groth(pi2, R, e, E);
	}
	if (which == "hoogh" && vrhe_p && cyclic) {
		duplex("hoogh-publiccoin-rejected", "TMCG_VerifyStackEquality_Hoogh " + d,
			[&](std::istream &in, std::ostream &out) { tmcg.TMCG_ProveStackEquality_Hoogh(s, s2, ss, vp, vrhe_p, in, out); return true; },
			[&](std::istream &in, std::ostream &out) { return tmcg.TMCG_VerifyStackEquality_Hoogh(s, s2, vv, vrhe_v, in, out); });
		simplex("hoogh-noninteractive-rejected", "TMCG_VerifyStackEquality_Hoogh_noninteractive " + d,
			[&](std::ostream &out) { tmcg.TMCG_ProveStackEquality_Hoogh_noninteractive(s, s2, ss, vp, vrhe_p, out); },
			[&](std::istream &in) { return tmcg.TMCG_VerifyStackEquality_Hoogh_noninteractive(s, s2, vv, vrhe_v, in); });
		std::vector<mpz_ptr> R; std::vector<std::pair<mpz_ptr, mpz_ptr> > e, E;
		tmcg.TMCG_InitializeStackEquality_Hoogh(R, e, E, s, s2, ss); size_t rr = (ss.size() - ss[0].first) % ss.size();
		duplex("hoogh-interactive-rejected", "HooghSchoenmakersSkoricVillegasVRHE::Verify_interactive " + d,
			[&](std::istream &in, std::ostream &out) { vrhe_p->Prove_interactive(rr, R, e, E, in, out); return true; },
			[&](std::istream &in, std::ostream &out) { return vrhe_v->Verify_interactive(e, E, in, out); });
		tmcg.TMCG_ReleaseStackEquality_Hoogh(R, e, E);
	}
}

static void group_stacks(Args &A, const std::string &which, int sub) {
	const bool T = A.thorough();
	std::vector<unsigned long> kappas = { 0, 1, 8, 16 }; if (T) { kappas.push_back(32); kappas.push_back(64); }
	std::vector<size_t> ns = { 2, 3, 5, 8 }; if (T) { ns.push_back(13); ns.push_back(32); }   // the property quantifies over n >= 2 (the arguments assert it)
	// both quick parameter sets sit on the admissibility boundary |q| = 2*ell_e + 64.  ell_e is kept >= 32 on purpose: the
	// public-coin and non-interactive SKC verifiers `assert` that the challenge e is invertible mod q (GrothVSSHE.cc:921,1111,...),
	// so a jointly flipped / hashed e = 0 (probability 2^-ell_e) aborts the verifier -- observed with ell_e = 8, see docs/C03.md O-c
	std::vector<std::pair<Grp, unsigned long> > gs;
	gs.push_back(std::make_pair(gen_group(192, 128), 32UL)); gs.push_back(std::make_pair(gen_group(224, 160), 48UL));
	if (T) gs.push_back(std::make_pair(gen_group(512, 224), 80UL));
	if (which != "groth" && !T) gs.pop_back();     // the second group differs only in l_e
	int gi = -1;
	for (auto &ge : gs) {
		Grp &G = ge.first; unsigned long le = ge.second; gi++;
		if (which != "cutchoose" && sub >= 0 && gi != sub) continue;
		Table Tb = make_table(G, 2);
		BarnettSmartVTMF_dlog *vp = Tb.pl[0], *vv = Tb.pl[1];
		size_t nmax = *std::max_element(ns.begin(), ns.end());
		GrothVSSHE *gp = 0, *gv = 0; HooghSchoenmakersSkoricVillegasVRHE *hp = 0, *hv = 0;
		if (which == "groth") {
			gp = new GrothVSSHE(nmax, vp->p, vp->q, vp->k, vp->g, vp->h, le, G.pbits, G.qbits);
			std::stringstream pub; gp->PublishGroup(pub); gv = new GrothVSSHE(nmax, pub, le, G.pbits, G.qbits);
			if (!gp->CheckGroup() || !gv->CheckGroup()) propfail("groth-group-rejected", "GrothVSSHE::CheckGroup false " + gd(G) + " l_e=" + std::to_string(le));
		}
		if (which == "hoogh") {
			hp = new HooghSchoenmakersSkoricVillegasVRHE(vp->p, vp->q, vp->g, vp->h, G.pbits, G.qbits);
			std::stringstream pub; hp->PublishGroup(pub); hv = new HooghSchoenmakersSkoricVillegasVRHE(pub, G.pbits, G.qbits);
			if (!hp->CheckGroup() || !hv->CheckGroup()) propfail("hoogh-group-rejected", "VRHE::CheckGroup false " + gd(G));
		}
		std::string d0 = gd(G) + (which == "groth" ? " l_e=" + std::to_string(le) : "");
		int ki = -1;
		for (unsigned long kappa : kappas) {
			ki++; if (which == "cutchoose" && sub >= 0 && ki != sub) continue;
			if (which != "cutchoose" && kappa != kappas[0] && kappa != 16) continue;     // kappa only matters for cut-and-choose
			SchindelhauerTMCG tmcg(kappa, 2, 4);
			for (size_t n : ns) {
				if (which == "cutchoose" && kappa > 16 && n > 8) continue;
				for (unsigned kind = 0; kind < 6; kind++) {
					if (n > 8 && kind != 2 && kind != 5) continue;
					stack_cases(tmcg, vp, vv, gp, gv, hp, hv, n, kind, d0, which);
				}
			}
			if (which == "cutchoose") {
				// single cards: masking proof and private-card decryption through the toolbox
				for (int i = 0; i < 4; i++) {
					VTMF_Card c, cc; VTMF_CardSecret cs; size_t type = gen().below(16);
					tmcg.TMCG_CreateOpenCard(c, vp, type); tmcg.TMCG_CreateCardSecret(cs, vp); tmcg.TMCG_MaskCard(c, cc, cs, vp);
					duplex("maskcard-rejected", "TMCG_VerifyMaskCard(VTMF) " + d0,
						[&](std::istream &in, std::ostream &o) { tmcg.TMCG_ProveMaskCard(c, cc, cs, vp, in, o); return true; },
						[&](std::istream &in, std::ostream &o) { return tmcg.TMCG_VerifyMaskCard(c, cc, vv, in, o); });
					tmcg.TMCG_SelfCardSecret(cc, vv);
					bool ok = duplex("cardsecret-rejected", "TMCG_VerifyCardSecret(VTMF) " + d0,
						[&](std::istream &in, std::ostream &o) { tmcg.TMCG_ProveCardSecret(cc, vp, in, o); return true; },
						[&](std::istream &in, std::ostream &o) { return tmcg.TMCG_VerifyCardSecret(cc, vv, in, o); });
					if (ok && tmcg.TMCG_TypeOfCard(cc, vv) != type) propfail("card-type-wrong", "opened card has another type than it was created with " + d0);
				}
			}
		}
		delete gp; delete gv; delete hp; delete hv; free_table(Tb);
	}
}

// ---- rabin: key validity proof, signatures; the QR-encoding toolbox -------------------------------------------------------
static void group_rabin(Args &A) {
	const bool T = A.thorough();
	std::vector<unsigned long> sizes = { 512, 768 }; if (T) { sizes.push_back(1024); sizes.push_back(1536); }
	std::vector<TMCG_SecretKey> keys;
	for (unsigned long sz : sizes) for (int rep = 0; rep < (T ? 2 : 1); rep++) {
		cases++;
		TMCG_SecretKey sec("Alice", "alice@example.org", sz);
		TMCG_PublicKey pub(sec);
		std::string d = "keysize=" + std::to_string(sz);
		if (!sec.check()) propfail("rabin-secret-check", "TMCG_SecretKey::check false on a generated key " + d);
		if (!pub.check()) propfail("rabin-key-check", "TMCG_PublicKey::check false on an honestly generated key " + d);
		std::ostringstream os; os << pub; TMCG_PublicKey imp;
		if (!imp.import(os.str()) || !imp.check()) propfail("rabin-key-check-imported", "exported/imported public key fails check " + d);
		std::string sig = sec.sign("hello world"), sig2 = sec.sign("");
		if (!pub.verify("hello world", sig) || !sec.verify("hello world", sig) || !pub.verify("", sig2)) propfail("rabin-signature-rejected", "honest signature rejected " + d);
		keys.push_back(sec);
	}
	// TMCG_Card (QR encoding): two players with the two smallest keys
	TMCG_PublicKeyRing ring(2); ring.keys[0] = TMCG_PublicKey(keys[0]); ring.keys[1] = TMCG_PublicKey(keys[1]);
	std::vector<unsigned long> kappas = { 0, 1, 8, 16 }; if (T) kappas.push_back(32);
	for (unsigned long kappa : kappas) {
		SchindelhauerTMCG tmcg(kappa, 2, 3);
		std::string d0 = "QR encoding, 2 players, 3 type bits, kappa=" + std::to_string(kappa);
		for (int i = 0; i < (T ? 6 : 2); i++) {
			TMCG_Card c(2, 3), cc(2, 3); TMCG_CardSecret cs(2, 3); size_t type = gen().below(8);
			tmcg.TMCG_CreateOpenCard(c, ring, type); tmcg.TMCG_CreateCardSecret(cs, ring, 0); tmcg.TMCG_MaskCard(c, cc, cs, ring);
			duplex("qr-maskcard-rejected", "TMCG_VerifyMaskCard(TMCG_Card) " + d0,
				[&](std::istream &in, std::ostream &out) { tmcg.TMCG_ProveMaskCard(c, cc, cs, ring, in, out); return true; },
				[&](std::istream &in, std::ostream &out) { return tmcg.TMCG_VerifyMaskCard(c, cc, ring, in, out); });
			TMCG_CardSecret got(2, 3);
			bool ok = duplex("qr-cardsecret-rejected", "TMCG_VerifyCardSecret(TMCG_Card) " + d0,
				[&](std::istream &in, std::ostream &out) { tmcg.TMCG_ProveCardSecret(cc, keys[0], 0, in, out); return true; },
				[&](std::istream &in, std::ostream &out) { return tmcg.TMCG_VerifyCardSecret(cc, got, ring.keys[0], 0, in, out); });
			(void)ok;
		}
		std::vector<size_t> ns = { 2, 3, 5 }; if (T) ns.push_back(8);
		for (size_t n : ns) for (unsigned kind = 0; kind < 6; kind++) {
			if (kappa > 8 && (n > 3 || kind > 3)) continue;
			TMCG_Stack<TMCG_Card> s, s2;
			for (size_t i = 0; i < n; i++) { TMCG_Card c(2, 3); tmcg.TMCG_CreateOpenCard(c, ring, gen().below(8)); s.push(c); }
			std::vector<size_t> pi = make_perm(n, kind); bool cyclic = (kind % 6 == 0 || kind % 6 >= 3);
			TMCG_StackSecret<TMCG_CardSecret> ss; tmcg.TMCG_CreateStackSecret(ss, pi, ring, 0, n); tmcg.TMCG_MixStack(s, s2, ss, ring);
			std::string d = d0 + " n=" + std::to_string(n) + " perm=" + PK[kind];
			for (int cyc = 0; cyc < 2; cyc++) { if (cyc && !cyclic) continue;
				duplex(cyc ? "qr-cutchoose-cyclic-rejected" : "qr-cutchoose-rejected", std::string("TMCG_VerifyStackEquality(TMCG_Card, cyclic=") + (cyc ? "true) " : "false) ") + d,
					[&](std::istream &in, std::ostream &out) { tmcg.TMCG_ProveStackEquality(s, s2, ss, cyc, ring, 0, in, out); return true; },
					[&](std::istream &in, std::ostream &out) { return tmcg.TMCG_VerifyStackEquality(s, s2, cyc, ring, in, out); }); }
		}
	}
}

// ---- groth building blocks: Pedersen commitments and the shuffle of known content ------------------------------------------
static void group_skc(Args &A) {
	const bool T = A.thorough();
	std::vector<size_t> ns = { 2, 3, 5, 8 }; if (T) { ns.push_back(13); ns.push_back(32); }
	for (unsigned long le : { 32UL, 48UL }) {        // see the note in group_stacks about ell_e
		Grp G = gen_group(le == 32 ? 192 : 224, le == 32 ? 128 : 160);
		for (size_t n : ns) {
			PedersenCommitmentScheme com(n, G.p, G.q, G.k, G.g, G.pbits, G.qbits);
			if (!com.CheckGroup()) { propfail("pedersen-group-rejected", "PedersenCommitmentScheme::CheckGroup false " + gd(G)); continue; }
			std::stringstream pub; com.PublishGroup(pub); std::string pubs = pub.str();
			{ std::stringstream in(pubs); GrothSKC skc(n, in, le, G.pbits, G.qbits);
			  if (!skc.CheckGroup()) { propfail("skc-group-rejected", "GrothSKC::CheckGroup false " + gd(G)); continue; }
			  for (unsigned kind = 0; kind < 6; kind++) {
				std::vector<Z> ms(n); std::vector<mpz_ptr> m, mperm(n); for (size_t i = 0; i < n; i++) { gen_below(ms[i], G.q); m.push_back(ms[i]); }
				std::vector<size_t> pi = make_perm(n, kind); for (size_t i = 0; i < n; i++) mperm[i] = m[pi[i]];
				Z c, r; cases++;
				skc.com->Commit(c, r, mperm);
				if (!skc.com->Verify(c, r, mperm)) propfail("pedersen-open-rejected", "PedersenCommitmentScheme::Verify rejects the honest opening n=" + std::to_string(n));
				std::string d = gd(G) + " l_e=" + std::to_string(le) + " n=" + std::to_string(n) + " perm=" + PK[kind];
				duplex("skc-interactive-rejected", "GrothSKC::Verify_interactive " + d,
					[&](std::istream &in, std::ostream &out) { skc.Prove_interactive(pi, r, m, in, out); return true; },
					[&](std::istream &in, std::ostream &out) { return skc.Verify_interactive(c, m, in, out, gen().coin()); });
				duplex("skc-publiccoin-rejected", "GrothSKC::Verify_interactive_publiccoin " + d,
					[&](std::istream &in, std::ostream &out) { JareckiLysyanskayaEDCF cf(2, 0, G.p, G.q, skc.com->g[0], skc.com->h); skc.Prove_interactive_publiccoin(pi, r, m, &cf, in, out); return true; },
					[&](std::istream &in, std::ostream &out) { JareckiLysyanskayaEDCF cf(2, 0, G.p, G.q, skc.com->g[0], skc.com->h); return skc.Verify_interactive_publiccoin(c, m, &cf, in, out, gen().coin()); });
				for (int opt = 0; opt < 2; opt++)
					simplex("skc-noninteractive-rejected", std::string("GrothSKC::Verify_noninteractive(optimizations=") + (opt ? "true) " : "false) ") + d,
						[&](std::ostream &out) { skc.Prove_noninteractive(pi, r, m, out); },
						[&](std::istream &in) { return skc.Verify_noninteractive(c, m, in, opt); });
			  } }
		}
	}
}


// ---- direct: the shuffle / rotation / SKC arguments on raw ElGamal vectors, prover and verifier objects built through
//      DIFFERENT construction paths of the API (generated, p/q/g/h-constructed, stream-constructed, public-coin generators),
//      in particular GrothVSSHE with a commitment key that lives in an independently generated group (com->p,q != p,q) ----------
struct Vecs {
	std::vector<Z> store; std::vector<mpz_ptr> R; std::vector<std::pair<mpz_ptr, mpz_ptr> > e, E; std::vector<size_t> pi; size_t rot = 0;
	// e_i = (g^a, h^a g^m), E_i = e_{pi(i)} * (g^{R_i}, h^{R_i})
	Vecs(size_t n, unsigned kind, bool rotation, mpz_srcptr p, mpz_srcptr q, mpz_srcptr g, mpz_srcptr h) {
		store.resize(5 * n); pi = make_perm(n, rotation ? (kind % 2 ? 5 : 3 + kind % 3) : kind);
		if (rotation) { size_t r0 = pi[0]; for (size_t i = 0; i < n; i++) pi[i] = (r0 + i) % n; rot = (n - r0) % n; }
		for (size_t i = 0; i < n; i++) { e.push_back(std::make_pair((mpz_ptr)store[5 * i], (mpz_ptr)store[5 * i + 1]));
			E.push_back(std::make_pair((mpz_ptr)store[5 * i + 2], (mpz_ptr)store[5 * i + 3])); R.push_back(store[5 * i + 4]); }
		Z a, m, t;
		for (size_t i = 0; i < n; i++) { gen_below(a, q); mpz_set_ui(m, gen().below(50)); mpz_powm(e[i].first, g, a, p);
			mpz_powm(e[i].second, h, a, p); mpz_powm(t, g, m, p); mpz_mul(e[i].second, e[i].second, t); mpz_mod(e[i].second, e[i].second, p); }
		for (size_t i = 0; i < n; i++) { gen_below(R[i], q); if (gen().below(9) == 0) mpz_set_ui(R[i], gen().below(2));
			mpz_powm(E[i].first, g, R[i], p); mpz_mul(E[i].first, E[i].first, e[pi[i]].first); mpz_mod(E[i].first, E[i].first, p);
			mpz_powm(E[i].second, h, R[i], p); mpz_mul(E[i].second, E[i].second, e[pi[i]].second); mpz_mod(E[i].second, E[i].second, p); }
	}
};
static void vsshe_variants(GrothVSSHE *P, GrothVSSHE *V, size_t n, unsigned kind, const std::string &d0, unsigned forms = 7) {
	Vecs X(n, kind, false, P->p, P->q, P->g, P->h);
	std::string d = d0 + " n=" + std::to_string(n) + " perm=" + PK[kind % 6];
	if (forms & 1) duplex("vsshe-interactive-rejected", "GrothVSSHE::Verify_interactive " + d,
		[&](std::istream &in, std::ostream &out) { P->Prove_interactive(X.pi, X.R, X.e, X.E, in, out); return true; },
		[&](std::istream &in, std::ostream &out) { return V->Verify_interactive(X.e, X.E, in, out); });
	if (forms & 2) duplex("vsshe-publiccoin-rejected", "GrothVSSHE::Verify_interactive_publiccoin " + d,
		[&](std::istream &in, std::ostream &out) { JareckiLysyanskayaEDCF cf(2, 0, P->p, P->q, P->g, P->h); P->Prove_interactive_publiccoin(X.pi, X.R, X.e, X.E, &cf, in, out); return true; },
		[&](std::istream &in, std::ostream &out) { JareckiLysyanskayaEDCF cf(2, 0, V->p, V->q, V->g, V->h); return V->Verify_interactive_publiccoin(X.e, X.E, &cf, in, out); });
	if (forms & 4) simplex("vsshe-noninteractive-rejected", "GrothVSSHE::Verify_noninteractive " + d,
		[&](std::ostream &out) { P->Prove_noninteractive(X.pi, X.R, X.e, X.E, out); },
		[&](std::istream &in) { return V->Verify_noninteractive(X.e, X.E, in); });
}
static void skc_variants(GrothSKC *P, GrothSKC *V, size_t n, unsigned kind, const std::string &d0, unsigned forms = 7) {
	std::vector<Z> ms(n); std::vector<mpz_ptr> m, mperm(n); for (size_t i = 0; i < n; i++) { gen_below(ms[i], P->com->q); m.push_back(ms[i]); }
	std::vector<size_t> pi = make_perm(n, kind); for (size_t i = 0; i < n; i++) mperm[i] = m[pi[i]];
	Z c, r; P->com->Commit(c, r, mperm);
	if (!V->com->Verify(c, r, mperm)) propfail("pedersen-open-rejected", "PedersenCommitmentScheme::Verify (other object) rejects the honest opening " + d0);
	std::string d = d0 + " n=" + std::to_string(n) + " perm=" + PK[kind % 6];
	if (forms & 1) duplex("skc-interactive-rejected", "GrothSKC::Verify_interactive " + d,
		[&](std::istream &in, std::ostream &out) { P->Prove_interactive(pi, r, m, in, out); return true; },
		[&](std::istream &in, std::ostream &out) { return V->Verify_interactive(c, m, in, out, gen().coin()); });
	if (forms & 2) duplex("skc-publiccoin-rejected", "GrothSKC::Verify_interactive_publiccoin " + d,
		[&](std::istream &in, std::ostream &out) { JareckiLysyanskayaEDCF cf(2, 0, P->com->p, P->com->q, P->com->g[0], P->com->h); P->Prove_interactive_publiccoin(pi, r, m, &cf, in, out); return true; },
		[&](std::istream &in, std::ostream &out) { JareckiLysyanskayaEDCF cf(2, 0, V->com->p, V->com->q, V->com->g[0], V->com->h); return V->Verify_interactive_publiccoin(c, m, &cf, in, out, gen().coin()); });
	if (forms & 4) for (int opt = 0; opt < 2; opt++)
		simplex("skc-noninteractive-rejected", std::string("GrothSKC::Verify_noninteractive(optimizations=") + (opt ? "true) " : "false) ") + d,
			[&](std::ostream &out) { P->Prove_noninteractive(pi, r, m, out); }, [&](std::istream &in) { return V->Verify_noninteractive(c, m, in, opt); });
}
static void vrhe_variants(HooghSchoenmakersSkoricVillegasVRHE *P, HooghSchoenmakersSkoricVillegasVRHE *V, size_t n, unsigned kind, const std::string &d0, unsigned forms = 7) {
	Vecs X(n, kind, true, P->p, P->q, P->g, P->h);
	std::string d = d0 + " n=" + std::to_string(n) + " r=" + std::to_string(X.rot);
	if (forms & 1) duplex("vrhe-interactive-rejected", "VRHE::Verify_interactive " + d,
		[&](std::istream &in, std::ostream &out) { P->Prove_interactive(X.rot, X.R, X.e, X.E, in, out); return true; },
		[&](std::istream &in, std::ostream &out) { return V->Verify_interactive(X.e, X.E, in, out); });
	if (forms & 2) duplex("vrhe-publiccoin-rejected", "VRHE::Verify_interactive_publiccoin " + d,
		[&](std::istream &in, std::ostream &out) { JareckiLysyanskayaEDCF cf(2, 0, P->p, P->q, P->g, P->h); P->Prove_interactive_publiccoin(X.rot, X.R, X.e, X.E, &cf, in, out); return true; },
		[&](std::istream &in, std::ostream &out) { JareckiLysyanskayaEDCF cf(2, 0, V->p, V->q, V->g, V->h); return V->Verify_interactive_publiccoin(X.e, X.E, &cf, in, out); });
	if (forms & 4) simplex("vrhe-noninteractive-rejected", "VRHE::Verify_noninteractive " + d,
		[&](std::ostream &out) { P->Prove_noninteractive(X.rot, X.R, X.e, X.E, out); }, [&](std::istream &in) { return V->Verify_noninteractive(X.e, X.E, in); });
}
static std::string pub(mpz_srcptr a, mpz_srcptr b, mpz_srcptr c, mpz_srcptr d) { return str62(a) + "\n" + str62(b) + "\n" + str62(c) + "\n" + str62(d) + "\n"; }

static void group_direct(Args &A, int sub) {
	const bool T = A.thorough();
	std::vector<size_t> ns = { 2, 3, 5, 8 }; if (T) { ns.push_back(13); ns.push_back(32); }
	size_t nmax = ns.back();
	const unsigned long le = 32; const unsigned PB = 192, QB = 128;
	auto sweep = [&](std::function<void(size_t, unsigned)> f) { for (size_t n : ns) for (unsigned kind = 0; kind < 6; kind++) { if (n > 5 && kind != 2 && kind != 5) continue; f(n, kind); } };
	// encryption group + common key h (a random group element)
	Grp G = gen_group(PB, QB); Z h; { Z x; gen_below(x, G.q); mpz_powm(h, G.g, x, G.p); }
	if (sub < 0 || sub == 0) {   // VSSHE: commitment key in an INDEPENDENT group of the same size (p/q/k/h-constructed Pedersen scheme)
		Grp G2 = gen_group(PB, QB); Z h2; { Z x; gen_below(x, G2.q); mpz_powm(h2, G2.g, x, G2.p); }
		PedersenCommitmentScheme com2(nmax, G2.p, G2.q, G2.k, h2, PB, QB);
		std::stringstream cp; com2.PublishGroup(cp);
		std::stringstream s1(pub(G.p, G.q, G.g, h) + cp.str());
		GrothVSSHE P(nmax, s1, le, PB, QB); std::stringstream pb; P.PublishGroup(pb); GrothVSSHE V(nmax, pb, le, PB, QB);
		std::string d0 = "separate commitment group (com->q != q), both stream-constructed, " + gd(G) + " l_e=32";
		if (!P.CheckGroup() || !V.CheckGroup()) propfail("vsshe-group-rejected", "CheckGroup false: " + d0);
		else sweep([&](size_t n, unsigned k) { vsshe_variants(&P, &V, n, k, d0); });
	}
	if (sub < 0 || sub == 1) {   // VSSHE: commitment group generated by the Pedersen constructor itself (tmcg_mpz_lprime), larger q
		PedersenCommitmentScheme com3(nmax, 256, 160);
		std::stringstream cp; com3.PublishGroup(cp);
		std::stringstream s1(pub(G.p, G.q, G.g, h) + cp.str());
		GrothVSSHE P(nmax, s1, le, PB, QB); std::stringstream pb; P.PublishGroup(pb); GrothVSSHE V(nmax, pb, le, PB, QB);
		std::string d0 = "generated commitment group |p|=256 |q|=160 for an encryption group " + gd(G) + " l_e=32";
		if (!P.CheckGroup() || !V.CheckGroup()) propfail("vsshe-group-rejected", "CheckGroup false: " + d0);
		else sweep([&](size_t n, unsigned k) { if (n <= 5) vsshe_variants(&P, &V, n, k, d0); });
	}
	if (sub < 0 || sub == 2) {   // VSSHE: same group, prover p/q/k/g/h-constructed, verifier stream-constructed; then public-coin generators on both
		GrothVSSHE P(nmax, G.p, G.q, G.k, G.g, h, le, PB, QB); std::stringstream pb; P.PublishGroup(pb); GrothVSSHE V(nmax, pb, le, PB, QB);
		std::string d0 = "same group, constructed vs stream, " + gd(G);
		if (!P.CheckGroup() || !V.CheckGroup()) propfail("vsshe-group-rejected", "CheckGroup false: " + d0);
		else sweep([&](size_t n, unsigned k) { if (n <= 3) vsshe_variants(&P, &V, n, k, d0); });
		Z a; gen_bits(a, 200); P.SetupGenerators_publiccoin(a); V.SetupGenerators_publiccoin(a);
		d0 = "same group, generators from SetupGenerators_publiccoin, " + gd(G);
		if (!P.CheckGroup() || !V.CheckGroup()) propfail("vsshe-group-rejected", "CheckGroup false: " + d0);
		else sweep([&](size_t n, unsigned k) { if (n <= 5) vsshe_variants(&P, &V, n, k, d0); });
	}
	if (sub < 0 || sub == 3) {   // SKC: generated instance proves, stream-constructed instance verifies (and the other way round)
		GrothSKC P(nmax, le, 256, 160); std::stringstream pb; P.PublishGroup(pb); GrothSKC V(nmax, pb, le, 256, 160);
		std::string d0 = "SKC generated (|p|=256,|q|=160) vs stream-constructed, l_e=32";
		if (!P.CheckGroup() || !V.CheckGroup()) propfail("skc-group-rejected", "CheckGroup false: " + d0);
		else sweep([&](size_t n, unsigned k) { if (n <= 5) { skc_variants(&P, &V, n, k, d0); if (k == 2) skc_variants(&V, &P, n, k, d0 + " (roles swapped)"); } });
		Z a; gen_bits(a, 200); P.SetupGenerators_publiccoin(a); V.SetupGenerators_publiccoin(a);
		if (!P.CheckGroup() || !V.CheckGroup()) propfail("skc-group-rejected", "CheckGroup false after SetupGenerators_publiccoin");
		else sweep([&](size_t n, unsigned k) { if (n <= 3) skc_variants(&P, &V, n, k, d0 + " public-coin generators"); });
	}
	if (sub < 0 || sub == 4) {   // rotation: generated instance vs stream-constructed; p/q/g/h-constructed vs stream
		{ HooghSchoenmakersSkoricVillegasVRHE P(256, 160); std::stringstream pb; P.PublishGroup(pb); HooghSchoenmakersSkoricVillegasVRHE V(pb, 256, 160);
		  std::string d0 = "VRHE generated (|p|=256,|q|=160) vs stream-constructed";
		  if (!P.CheckGroup() || !V.CheckGroup()) propfail("hoogh-group-rejected", "CheckGroup false: " + d0);
		  else sweep([&](size_t n, unsigned k) { vrhe_variants(&P, &V, n, k, d0); if (k == 2 && n <= 5) vrhe_variants(&V, &P, n, k, d0 + " (roles swapped)"); }); }
		{ HooghSchoenmakersSkoricVillegasVRHE P(G.p, G.q, G.g, h, PB, QB); std::stringstream pb; P.PublishGroup(pb); HooghSchoenmakersSkoricVillegasVRHE V(pb, PB, QB);
		  std::string d0 = "VRHE p/q/g/h-constructed vs stream-constructed " + gd(G);
		  if (!P.CheckGroup() || !V.CheckGroup()) propfail("hoogh-group-rejected", "CheckGroup false: " + d0);
		  else sweep([&](size_t n, unsigned k) { if (n <= 5) vrhe_variants(&P, &V, n, k, d0); }); }
	}
	if (sub < 0 || sub == 5) {   // VTMF construction paths: generated (canonical / random generator, GroupQR) -> PublishGroup -> stream-constructed peers
		for (int cfg = 0; cfg < 3; cfg++) {
			BarnettSmartVTMF_dlog *a0 = cfg == 2 ? new BarnettSmartVTMF_dlog_GroupQR(256, 160) : new BarnettSmartVTMF_dlog(256, 160, cfg == 0, true);
			std::stringstream pg; a0->PublishGroup(pg); std::string t = pg.str();
			std::stringstream i1(t);
			BarnettSmartVTMF_dlog *b0 = cfg == 2 ? new BarnettSmartVTMF_dlog_GroupQR(i1, 256, 160) : new BarnettSmartVTMF_dlog(i1, 256, 160, cfg == 0, true);
			std::string d0 = std::string(cfg == 0 ? "generated canonical g" : cfg == 1 ? "generated random g" : "generated GroupQR") + " vs stream-constructed, |p|=256";
			if (!a0->CheckGroup() || !b0->CheckGroup()) { propfail("group-rejected", "CheckGroup false: " + d0); delete a0; delete b0; continue; }
			Table Tb; Tb.pl.push_back(a0); Tb.pl.push_back(b0);
			for (auto v : Tb.pl) v->KeyGenerationProtocol_GenerateKey();
			for (int i = 0; i < 2; i++) { std::stringstream s; Tb.pl[i]->KeyGenerationProtocol_PublishKey(s); if (!Tb.pl[1 - i]->KeyGenerationProtocol_UpdateKey(s)) propfail("keyshare-nizk-rejected", "honest key contribution refused: " + d0); }
			for (auto v : Tb.pl) v->KeyGenerationProtocol_Finalize();
			for (int i = 0; i < 4; i++) {
				BarnettSmartVTMF_dlog *v = Tb.pl[i % 2], *w = Tb.pl[1 - i % 2];
				duplex("keyshare-interactive-rejected", "KeyGenerationProtocol_ProveKey_interactive " + d0,
					[&](std::istream &in, std::ostream &out) { return v->KeyGenerationProtocol_ProveKey_interactive(in, out); },
					[&](std::istream &in, std::ostream &out) { return w->KeyGenerationProtocol_VerifyKey_interactive(v->h_i, in, out); });
				Z m, c1, c2, r; v->RandomElement(m); v->VerifiableMaskingProtocol_Mask(m, c1, c2, r);
				simplex("masking-honest-rejected", "VerifiableMaskingProtocol " + d0, [&](std::ostream &o) { v->VerifiableMaskingProtocol_Prove(m, c1, c2, r, o); },
					[&](std::istream &in) { return w->VerifiableMaskingProtocol_Verify(m, c1, c2, in); });
				Z d1, d2, r2; v->VerifiableRemaskingProtocol_Mask(c1, c2, d1, d2, r2);
				simplex("remasking-honest-rejected", "VerifiableRemaskingProtocol " + d0, [&](std::ostream &o) { v->VerifiableRemaskingProtocol_Prove(c1, c2, d1, d2, r2, o); },
					[&](std::istream &in) { return w->VerifiableRemaskingProtocol_Verify(c1, c2, d1, d2, in); });
				w->VerifiableDecryptionProtocol_Verify_Initialize(d1);
				simplex("decryption-honest-rejected", "VerifiableDecryptionProtocol " + d0, [&](std::ostream &os) { v->VerifiableDecryptionProtocol_Prove(d1, os); },
					[&](std::istream &in) { return w->VerifiableDecryptionProtocol_Verify_Update(d1, in); });
				Z mm; w->VerifiableDecryptionProtocol_Verify_Finalize(d2, mm);
				if (mpz_cmp(mm, m)) propfail("decryption-wrong-message", "decryption does not return the masked message: " + d0);
			}
			// toolbox shuffle with a VSSHE built by the generated instance and re-read by the peer
			if (cfg != 2) { SchindelhauerTMCG tmcg(8, 2, 4); GrothVSSHE gp(8, a0->p, a0->q, a0->k, a0->g, a0->h, 32, 256, 160); std::stringstream pb; gp.PublishGroup(pb); GrothVSSHE gv(8, pb, 32, 256, 160);
				for (unsigned kind = 0; kind < 3; kind++) stack_cases(tmcg, a0, b0, &gp, &gv, 0, 0, 3 + kind, kind, d0, "groth"); }
			free_table(Tb);
		}
	}
}


// ---- limits: stack / message counts just around the size-dependent code paths: TMCG_MAX_FPOWM_N = 256 (Pedersen generators from
//      index 256 on have no fixed-base table: spowm / mpz_powm instead of fspowm / fpowm) and TMCG_MAX_CARDS = 512 ----------------------
static void group_limits(Args &A, int sub) {
	const bool T = A.thorough();
	const std::vector<size_t> L = { TMCG_MAX_FPOWM_N - 1, TMCG_MAX_FPOWM_N, TMCG_MAX_FPOWM_N + 1, TMCG_MAX_FPOWM_N + 2, TMCG_MAX_CARDS };
	const unsigned long le = 32; const unsigned PB = 192, QB = 128; const size_t nmax = TMCG_MAX_CARDS;
	Grp G = gen_group(PB, QB); Z h; { Z x; gen_below(x, G.q); mpz_powm(h, G.g, x, G.p); }
	std::string d0 = "at the table limit, " + gd(G);
	if (sub < 0 || sub == 0) {
		PedersenCommitmentScheme com(nmax, G.p, G.q, G.k, h, PB, QB);
		std::stringstream pb; com.PublishGroup(pb); std::string pubs = pb.str();
		std::stringstream i0(pubs); PedersenCommitmentScheme com2(nmax, i0, PB, QB);
		for (size_t n : { (size_t)TMCG_MAX_FPOWM_N + 1, (size_t)TMCG_MAX_CARDS, (size_t)TMCG_MAX_FPOWM_N }) for (int rep = 0; rep < 2; rep++) {
			std::vector<Z> ms(n); std::vector<mpz_ptr> m; for (size_t i = 0; i < n; i++) { gen_below(ms[i], G.q); m.push_back(ms[i]); }
			Z c, r, c1, c2; cases++;
			com.Commit(c, r, m); com2.CommitBy(c1, r, m, true); com.CommitBy(c2, r, m, false);
			std::string d = std::to_string(n) + " messages " + d0;
			if (mpz_cmp(c, c1) || mpz_cmp(c, c2)) propfail("pedersen-commitby-differs", "Commit / CommitBy(protection on) / CommitBy(protection off) disagree for " + d);
			if (!com2.Verify(c, r, m) || !com.Verify(c1, r, m) || !com.Verify(c2, r, m)) propfail("pedersen-open-rejected", "PedersenCommitmentScheme::Verify rejects an honest opening of " + d);
			Z ref; mpz_powm(ref, com.h, r, com.p); Z t; for (size_t i = 0; i < n; i++) { mpz_powm(t, com.g[i], m[i], com.p); mpz_mul(ref, ref, t); mpz_mod(ref, ref, com.p); }
			if (mpz_cmp(ref, c)) propfail("pedersen-commit-wrong", "Commit is not h^r * prod g_i^m_i for " + d);
		}
		std::stringstream i1(pubs), i2(pubs); GrothSKC P(nmax, i1, le, PB, QB), V(nmax, i2, le, PB, QB);
		for (size_t n : L) skc_variants(&P, &V, n, 2, d0, T ? 7 : 4);
	}
	if (sub < 0 || sub == 1) {
		GrothVSSHE P(nmax, G.p, G.q, G.k, G.g, h, le, PB, QB); std::stringstream pb; P.PublishGroup(pb); GrothVSSHE V(nmax, pb, le, PB, QB);
		for (size_t n : L) vsshe_variants(&P, &V, n, 2, d0, T ? 7 : 4);
	}
	if (T && (sub < 0 || sub == 2)) {
		HooghSchoenmakersSkoricVillegasVRHE P(G.p, G.q, G.g, h, PB, QB); std::stringstream pb; P.PublishGroup(pb); HooghSchoenmakersSkoricVillegasVRHE V(pb, PB, QB);
		for (size_t n : L) vrhe_variants(&P, &V, n, 1, d0, 7);
	}
	if (T && (sub < 0 || sub == 3)) {
		Table Tb = make_table(G, 2); SchindelhauerTMCG tmcg(2, 2, 10);
		for (size_t n : L) { stack_cases(tmcg, Tb.pl[0], Tb.pl[1], 0, 0, 0, 0, n, 2, d0, "cutchoose"); stack_cases(tmcg, Tb.pl[0], Tb.pl[1], 0, 0, 0, 0, n, 5, d0, "cutchoose"); }
		free_table(Tb);
	}
}

static int proto_main(Args &A) {
	signal(SIGPIPE, SIG_IGN);
	std::string g = A.only; int sub = -1;
	size_t colon = g.find(':'); if (colon != g.npos) { sub = atoi(g.c_str() + colon + 1); g = g.substr(0, colon); }
	if (g == "vtmf") group_vtmf(A);
	else if (g == "edcf") group_edcf(A);
	else if (g == "cutchoose" || g == "groth" || g == "hoogh") group_stacks(A, g, sub);
	else if (g == "skc") group_skc(A);
	else if (g == "direct") group_direct(A, sub);
	else if (g == "limits") group_limits(A, sub);
	else if (g == "rabin") group_rabin(A);
	else { fprintf(stderr, "unknown group %s\n", g.c_str()); return 2; }
	printf("STAT proto group=%s cases=%lu\n", A.only.c_str(), cases);
	return 0;
}
} // namespace c03p
#endif
