// C02 correspondence harness: real TMCG_CreateStackSecret (scripted coins), TMCG_MixStack, TMCG_GlueStackSecret,
// TMCG_StackSecret::import on small real VTMF groups; REC lines for the extracted model, PROPFAIL lines for the
// property itself (types via the real opening, composition of shuffles, chains, import of non-bijections).
#include "c02_shuffle.hh"
#include <sys/wait.h>
using namespace verif;

static std::vector<size_t> random_perm(size_t n) {
	std::vector<size_t> v(n); for (size_t i = 0; i < n; i++) v[i] = i;
	for (size_t i = 0; i + 1 < n; i++) std::swap(v[i], v[i + gen().below(n - i)]);
	return v;
}
// a stack of n cards with chosen types (repeated types on purpose), some open, some already masked
static void make_stack(Group &G, size_t n, size_t ntypes, TMCG_Stack<VTMF_Card> &s, std::vector<size_t> &types) {
	s.clear(); types.clear();
	for (size_t i = 0; i < n; i++) {
		size_t t = gen().below(ntypes);
		VTMF_Card c;
		if (gen().coin()) G.tmcg->TMCG_CreateOpenCard(c, G.vtmf, t);
		else { VTMF_CardSecret cs; G.tmcg->TMCG_CreatePrivateCard(c, cs, G.vtmf, t); }
		s.push(c); types.push_back(t);
	}
}
static void secret_from(Group &G, const std::vector<size_t> &pi, TMCG_StackSecret<VTMF_CardSecret> &ss) {
	ss.clear(); G.tmcg->TMCG_CreateStackSecret(ss, pi, pi.size(), G.vtmf);
}
static void rec_mix(Group &G, const TMCG_Stack<VTMF_Card> &s, const TMCG_StackSecret<VTMF_CardSecret> &ss, const TMCG_Stack<VTMF_Card> &s2) {
	Rec("mix").z(G.vtmf->p).z(G.vtmf->g).z(G.vtmf->h).t(tok_vstack(s)).t(tok_vss(ss)).t("ret:" + tok_vstack(s2));
}
// the property on the implementation: size, i-th type, multiset
static void oracle_mix(Group &G, const std::vector<size_t> &types, const TMCG_StackSecret<VTMF_CardSecret> &ss,
	const TMCG_Stack<VTMF_Card> &s2, const std::string &ctx, std::vector<size_t> *out_types = 0) {
	if (s2.size() != types.size()) { propfail("mix-size", "mixed stack has " + std::to_string(s2.size()) + " cards, input " + std::to_string(types.size()) + " (" + ctx + ")"); return; }
	std::vector<size_t> t2;
	for (size_t i = 0; i < s2.size(); i++) t2.push_back(G.open(s2[i]));
	for (size_t i = 0; i < s2.size(); i++)
		if (t2[i] != types[ss[i].first]) { propfail("mix-type", "card " + std::to_string(i) + " opens to type " + std::to_string(t2[i]) + ", designated input card " + std::to_string(ss[i].first) + " has type " + std::to_string(types[ss[i].first]) + " (" + ctx + ", secret " + tok_vss(ss) + ")"); break; }
	std::vector<size_t> a = types, b = t2; std::sort(a.begin(), a.end()); std::sort(b.begin(), b.end());
	if (a != b) propfail("mix-multiset", "multiset of types changed (" + ctx + ", secret " + tok_vss(ss) + ")");
	if (out_types) *out_types = t2;
}

// all index vectors of length n over {0..n-1}: import must accept exactly the bijections
template<class CS> static void import_sweep(size_t n, bool records, const CS &proto, const char *key) {
	std::vector<size_t> v(n, 0);
	for (;;) {
		TMCG_StackSecret<CS> ss;
		for (size_t i = 0; i < n; i++) ss.push(v[i], proto);
		std::ostringstream o; o << ss;
		TMCG_StackSecret<CS> in;
		bool ok = in.import(o.str());
		bool want = is_bijection(v);
		if (ok != want) propfail(key, std::string("import of index vector ") + tok_idx(v) + (ok ? " accepted although not a bijection" : " refused although a bijection"));
		if (ok) { for (size_t i = 0; i < n; i++) if (in[i].first != v[i]) { propfail(key, "imported indices differ from " + tok_idx(v)); break; } }
		if (records) Rec("imp").b(o.str()).d(ok ? 1 : 0);
		size_t k = 0; while (k < n && ++v[k] == n) v[k++] = 0;
		if (k == n) break;
	}
}

int main(int argc, char **argv) {
	Args A(argc, argv);
	if (!init_libTMCG()) { fprintf(stderr, "init_libTMCG failed\n"); return 2; }
	const bool T = A.thorough();
	std::string part = A.only;     // optional: run one part only (parallel processes)
	auto want = [&](const char *p) { return part.empty() || part == p; };

	// ---- 1. generated secrets under scripted coins ----------------------------------------------------------------
	if (want("css")) {
		Group G(64 + gen().below(40), 24 + gen().below(30), 3);
		// all coin vectors for n <= 5 (6 thorough): every permutation and every rotation
		size_t NMAX = T ? 6 : 5;
		for (size_t n = 1; n <= NMAX; n++) {
			std::vector<unsigned long> c(n > 0 ? n - 1 : 0, 0);
			std::map<std::string, int> seen;
			for (;;) {
				std::vector<unsigned long> script;
				for (size_t i = 0; i + 1 < n; i++) {
					unsigned long m = n - i, w;
					if (gen().below(6) == 0 && rejected_word(m, w)) script.push_back(w);     // a word the loop must skip
					script.push_back(word_for(c[i], m));
				}
				CssResult R = run_css(G, false, n, script);
				rec_css(G, false, n, R);
				oracle_css(G, false, n, R, "n=" + std::to_string(n) + " coins=" + tok_idx(std::vector<size_t>(c.begin(), c.end())));
				seen[tok_idx(firsts(R.ss))]++;
				size_t k = 0; while (k + 1 < n && ++c[k] == n - k) c[k++] = 0;
				if (k + 1 >= n) break;
			}
			size_t fact = 1; for (size_t i = 2; i <= n; i++) fact *= i;
			if (seen.size() != fact) propfail("css-all-permutations", "n=" + std::to_string(n) + ": " + std::to_string(seen.size()) + " distinct index vectors from all " + std::to_string(fact) + " coin vectors");
			for (auto &kv : seen) if (kv.second != 1) { propfail("css-all-permutations", "n=" + std::to_string(n) + ": index vector " + kv.first + " produced by " + std::to_string(kv.second) + " coin vectors"); break; }
			if (n >= 2) for (unsigned long r = 0; r < n; r++) {
				std::vector<unsigned long> script; unsigned long w;
				if (gen().below(4) == 0 && rejected_word(n, w)) script.push_back(w);
				script.push_back(word_for(r, n));
				CssResult R = run_css(G, true, n, script);
				rec_css(G, true, n, R);
				oracle_css(G, true, n, R, "rotation n=" + std::to_string(n) + " r=" + std::to_string(r));
				if (!R.threw && R.ss.size() == n && R.ss[0].first != r) propfail("css-rotation", "rotation coin r=" + std::to_string(r) + " gave first index " + std::to_string(R.ss[0].first));
			}
		}
		// the sizes where the sampler throws
		for (size_t n = 0; n <= 1; n++) { CssResult R = run_css(G, true, n, {}); rec_css(G, true, n, R); oracle_css(G, true, n, R, "rotation n=" + std::to_string(n)); }
		// sampled sizes up to TMCG_MAX_CARDS, unscripted coins
		size_t sizes[] = { 6, 7, 8, 13, 32, 52, 64, 100, 255, 256, 511, TMCG_MAX_CARDS };
		unsigned reps = T ? 12 : 2;
		for (size_t n : sizes) for (unsigned k = 0; k < reps; k++) for (int cyc = 0; cyc < 2; cyc++) {
			if (!T && n > 100 && k > 0) continue;
			CssResult R = run_css(G, cyc, n, {});
			rec_css(G, cyc, n, R);
			oracle_css(G, cyc, n, R, std::string(cyc ? "rotation" : "permutation") + " n=" + std::to_string(n));
		}
		for (unsigned k = 0; k < (T ? 300u : 40u); k++) {
			size_t n = 2 + gen().below(40); bool cyc = gen().coin();
			CssResult R = run_css(G, cyc, n, {});
			rec_css(G, cyc, n, R);
			oracle_css(G, cyc, n, R, std::string(cyc ? "rotation" : "permutation") + " n=" + std::to_string(n));
		}
	}

	// ---- 2. mixing: all permutations of small stacks, sampled beyond, repeated types, both timing modes ------------
	if (want("mix")) {
		Group G(72 + gen().below(50), 28 + gen().below(30), 3);
		size_t NMAX = T ? 5 : 4;
		for (size_t n = 1; n <= NMAX; n++) {
			std::vector<size_t> pi(n); for (size_t i = 0; i < n; i++) pi[i] = i;
			do {
				TMCG_Stack<VTMF_Card> s, s2; std::vector<size_t> types;
				make_stack(G, n, 1 + gen().below(3), s, types);
				TMCG_StackSecret<VTMF_CardSecret> ss; secret_from(G, pi, ss);
				G.tmcg->TMCG_MixStack(s, s2, ss, G.vtmf, gen().coin());
				rec_mix(G, s, ss, s2);
				oracle_mix(G, types, ss, s2, "all permutations n=" + std::to_string(n));
			} while (std::next_permutation(pi.begin(), pi.end()));
		}
		unsigned reps = T ? 400 : 60;
		for (unsigned k = 0; k < reps; k++) {
			size_t n = (k % 10 == 0) ? 20 + gen().below(33) : 2 + gen().below(12);
			TMCG_Stack<VTMF_Card> s, s2; std::vector<size_t> types;
			make_stack(G, n, 1 + gen().below(8), s, types);
			TMCG_StackSecret<VTMF_CardSecret> ss; bool cyc = gen().coin();
			size_t off = G.tmcg->TMCG_CreateStackSecret(ss, cyc, n, G.vtmf);
			G.tmcg->TMCG_MixStack(s, s2, ss, G.vtmf, gen().coin());
			if (n <= 24) rec_mix(G, s, ss, s2);
			std::vector<size_t> t2;
			oracle_mix(G, types, ss, s2, std::string(cyc ? "rotation" : "permutation") + " n=" + std::to_string(n), &t2);
			if (cyc && t2.size() == n) for (size_t i = 0; i < n; i++)
				if (t2[(i + off) % n] != types[i]) { propfail("rot-offset", "after a rotation with reported offset " + std::to_string(off) + " input card " + std::to_string(i) + " is not at position (i+offset) mod n, n=" + std::to_string(n)); break; }
		}
		// state kept across calls: the result stack is NOT fresh (0, 1, n, 2n old cards); the result must be the same n cards
		for (unsigned k = 0; k < (T ? 120u : 30u); k++) {
			size_t n = 1 + gen().below(k % 5 == 0 ? 12 : 5);
			TMCG_Stack<VTMF_Card> s, s2, junk; std::vector<size_t> types, jt;
			make_stack(G, n, 1 + gen().below(4), s, types);
			size_t pre[] = { 0, 1, n, 2 * n, 3 };
			size_t np = pre[k % 5];
			make_stack(G, np, 4, junk, jt);
			for (size_t i = 0; i < np; i++) s2.push(junk[i]);
			std::string old = tok_vstack(s2);
			TMCG_StackSecret<VTMF_CardSecret> ss; secret_from(G, random_perm(n), ss);
			G.tmcg->TMCG_MixStack(s, s2, ss, G.vtmf, gen().coin());
			Rec("mixinto").z(G.vtmf->p).z(G.vtmf->g).z(G.vtmf->h).t(old).t(tok_vstack(s)).t(tok_vss(ss)).t("ret:" + tok_vstack(s2));
			oracle_mix(G, types, ss, s2, "result stack reused, it held " + std::to_string(np) + " cards before; n=" + std::to_string(n));
			// second shuffle into the same (now used) result stack
			TMCG_StackSecret<VTMF_CardSecret> ss2; secret_from(G, random_perm(n), ss2);
			G.tmcg->TMCG_MixStack(s, s2, ss2, G.vtmf, false);
			oracle_mix(G, types, ss2, s2, "second shuffle into the same result stack; n=" + std::to_string(n));
			// assignment / copy into a used object
			TMCG_Stack<VTMF_Card> a; for (size_t i = 0; i < np; i++) a.push(junk[i]);
			a = s2; TMCG_Stack<VTMF_Card> b(s2);
			if (!(a == s2) || a.size() != n || !(b == s2)) propfail("stack-assign", "assignment/copy of a stack of " + std::to_string(n) + " cards into a used object gives " + std::to_string(a.size()) + " cards");
			TMCG_StackSecret<VTMF_CardSecret> sa; secret_from(G, random_perm(np + 1), sa);
			sa = ss;
			if (sa.size() != ss.size() || firsts(sa) != firsts(ss)) propfail("stack-assign", "assignment of a stack secret into a used object changes it");
		}
		{	// near the capacity: 510 old cards, 5 new ones -> 5 cards
			TMCG_Stack<VTMF_Card> s, s2; std::vector<size_t> types; make_stack(G, 5, 3, s, types);
			VTMF_Card c; G.tmcg->TMCG_CreateOpenCard(c, G.vtmf, 0);
			for (size_t i = 0; i < TMCG_MAX_CARDS - 2; i++) s2.push(c);
			TMCG_StackSecret<VTMF_CardSecret> ss; secret_from(G, random_perm(5), ss);
			G.tmcg->TMCG_MixStack(s, s2, ss, G.vtmf, false);
			oracle_mix(G, types, ss, s2, "result stack held TMCG_MAX_CARDS-2 cards before; n=5");
		}
		// big stacks: implementation-level oracle only (sizes up to TMCG_MAX_CARDS in thorough)
		size_t big[] = { 52, 128, TMCG_MAX_CARDS };
		for (size_t n : big) {
			if (!T && n > 128) continue;
			TMCG_Stack<VTMF_Card> s, s2; std::vector<size_t> types;
			make_stack(G, n, 8, s, types);
			TMCG_StackSecret<VTMF_CardSecret> ss; G.tmcg->TMCG_CreateStackSecret(ss, false, n, G.vtmf);
			G.tmcg->TMCG_MixStack(s, s2, ss, G.vtmf, false);
			oracle_mix(G, types, ss, s2, "big n=" + std::to_string(n));
		}
		// a secret of the wrong size: the real function aborts on its assert (observed in a child process)
		for (int d = 0; d < 2; d++) {
			TMCG_Stack<VTMF_Card> s, s2; std::vector<size_t> types; make_stack(G, 3, 2, s, types);
			TMCG_StackSecret<VTMF_CardSecret> ss; secret_from(G, random_perm(d ? 4 : 2), ss);
			fflush(stdout);
			pid_t pid = fork();
			if (pid == 0) { fclose(stderr); G.tmcg->TMCG_MixStack(s, s2, ss, G.vtmf, false); _exit(0); }
			int st = 0; waitpid(pid, &st, 0);
			std::string out = (WIFSIGNALED(st) && WTERMSIG(st) == SIGABRT) ? "assert" : (WIFEXITED(st) ? "returned" : "signal" + std::to_string(WTERMSIG(st)));
			Rec("mix").z(G.vtmf->p).z(G.vtmf->g).z(G.vtmf->h).t(tok_vstack(s)).t(tok_vss(ss)).t(out);
		}
	}

	// ---- 3. glue: composition of two shuffles, chains by several players ----------------------------------------------
	if (want("glue")) {
		Group G(72 + gen().below(50), 28 + gen().below(30), 3);
		unsigned reps = T ? 500 : 80;
		for (unsigned k = 0; k < reps; k++) {
			size_t n = (k < 40) ? 1 + k % 5 : 2 + gen().below(k % 9 == 0 ? 40 : 10);
			TMCG_Stack<VTMF_Card> s, s1, s2, s3; std::vector<size_t> types;
			make_stack(G, n, 1 + gen().below(6), s, types);
			TMCG_StackSecret<VTMF_CardSecret> sigma, pi, gam;
			G.tmcg->TMCG_CreateStackSecret(sigma, gen().below(3) == 0, n < 2 ? 2 : n, G.vtmf);
			if (n < 2) secret_from(G, random_perm(n), sigma);
			secret_from(G, random_perm(n), pi);
			gam = pi; std::string sig0 = tok_vss(sigma);
			G.tmcg->TMCG_GlueStackSecret(sigma, gam, G.vtmf);
			if (tok_vss(sigma) != sig0) propfail("glue-sigma-changed", "TMCG_GlueStackSecret changed its first argument");
			if (n <= 16) Rec("glue").z(G.vtmf->q).t(tok_vss(sigma)).t(tok_vss(pi)).t("ret:" + tok_vss(gam));
			G.tmcg->TMCG_MixStack(s, s1, sigma, G.vtmf, false);
			G.tmcg->TMCG_MixStack(s1, s2, pi, G.vtmf, false);
			G.tmcg->TMCG_MixStack(s, s3, gam, G.vtmf, false);
			if (!(s2 == s3)) propfail("glue-compose", "mix(mix(s,sigma),pi) differs from mix(s,glue(sigma,pi)): n=" + std::to_string(n) + " sigma=" + tok_vss(sigma) + " pi=" + tok_vss(pi) + " glued=" + tok_vss(gam));
			if (!is_bijection(firsts(gam))) propfail("glue-bijection", "glued secret is not a bijection: " + tok_vss(gam));
			oracle_mix(G, types, gam, s3, "glued secret n=" + std::to_string(n));
		}
		// chains of shuffles by 2..4 players: the final types are the composition of all index vectors
		for (unsigned k = 0; k < (T ? 120u : 25u); k++) {
			size_t n = 2 + gen().below(14), players = 2 + gen().below(3);
			TMCG_Stack<VTMF_Card> cur; std::vector<size_t> types;
			make_stack(G, n, 1 + gen().below(5), cur, types);
			std::vector<size_t> expect = types;
			for (size_t pl = 0; pl < players; pl++) {
				TMCG_StackSecret<VTMF_CardSecret> ss; TMCG_Stack<VTMF_Card> nxt;
				G.tmcg->TMCG_CreateStackSecret(ss, gen().below(3) == 0, n, G.vtmf);
				G.tmcg->TMCG_MixStack(cur, nxt, ss, G.vtmf, gen().coin());
				if (n <= 8) rec_mix(G, cur, ss, nxt);
				std::vector<size_t> e2(n); for (size_t i = 0; i < n; i++) e2[i] = expect[ss[i].first];
				expect = e2; cur = nxt;
			}
			if (cur.size() != n) { propfail("chain", "chain of " + std::to_string(players) + " shuffles changed the size"); continue; }
			for (size_t i = 0; i < n; i++) if (G.open(cur[i]) != expect[i]) { propfail("chain", "after " + std::to_string(players) + " shuffles card " + std::to_string(i) + " has the wrong type, n=" + std::to_string(n)); break; }
		}
	}

	// ---- 4. import check: every index vector of length n over {0..n-1} -------------------------------------------------
	if (want("imp")) {
		size_t NMAX = T ? 5 : 4;
		VTMF_CardSecret vproto; mpz_set_ui(vproto.r, 12345);
		for (size_t n = 1; n <= NMAX; n++) import_sweep<VTMF_CardSecret>(n, n <= 4, vproto, "import-bijection");
		TMCG_CardSecret tproto(2, 2);
		for (size_t k = 0; k < 2; k++) for (size_t w = 0; w < 2; w++) { mpz_set_ui(&tproto.r[k][w], 7 + k + 2 * w); mpz_set_ui(&tproto.b[k][w], (k + w) & 1); }
		for (size_t n = 1; n <= (T ? 5u : 4u); n++) import_sweep<TMCG_CardSecret>(n, false, tproto, "import-bijection-qr");
		// sampled larger vectors with one defect (duplicate / out of range) and valid ones
		for (unsigned k = 0; k < (T ? 400u : 60u); k++) {
			size_t n = 5 + gen().below(k % 7 == 0 ? 200 : 20);
			std::vector<size_t> v = random_perm(n);
			unsigned kind = gen().below(4);
			if (kind == 1) v[gen().below(n)] = v[gen().below(n)];                  // (maybe) duplicate
			if (kind == 2) v[gen().below(n)] = n + gen().below(3);                 // out of range
			if (kind == 3) { size_t i = gen().below(n); v[i] = (v[i] + 1 + gen().below(n - 1)) % n; }   // certainly a duplicate
			TMCG_StackSecret<VTMF_CardSecret> ss; for (size_t i = 0; i < n; i++) { mpz_set_ui(vproto.r, 2 + gen().below(1000)); ss.push(v[i], vproto); }
			std::ostringstream o; o << ss;
			TMCG_StackSecret<VTMF_CardSecret> in; bool ok = in.import(o.str());
			if (ok != is_bijection(v)) propfail("import-bijection", "import of index vector " + tok_idx(v) + (ok ? " accepted although not a bijection" : " refused although a bijection"));
			if (n <= 40) Rec("imp").b(o.str()).d(ok ? 1 : 0);
		}
	}

	// ---- 5. the QR (Schindelhauer) encoding: real keys, k = 2, 3, 4 players, several type-bit widths ----------------------
	// (the compensation row of TMCG_CreateCardSecret only matters for k >= 3; every card is opened by ALL players)
	if (want("qr")) {
		struct Cfg { size_t P, TB; unsigned bits; };
		std::vector<Cfg> cfgs = { {3, 2, 448}, {4, 3, 512}, {2, 3, 480}, {3, 4, 512}, {4, 1, 448} };
		if (T) { cfgs.push_back({4, 5, 512}); cfgs.push_back({3, 1, 576}); cfgs.push_back({1, 3, 448}); }
		for (const Cfg &cf : cfgs) {
			const size_t P = cf.P, TB = cf.TB;
			SchindelhauerTMCG tm(16, P, TB);
			std::vector<TMCG_SecretKey*> sk; TMCG_PublicKeyRing ring(P);
			for (size_t k = 0; k < P; k++) { sk.push_back(new TMCG_SecretKey("player", "p@example.org", cf.bits, false)); ring.keys[k] = TMCG_PublicKey(*sk[k]); }
			std::string cfs = "players=" + std::to_string(P) + " typebits=" + std::to_string(TB);
			auto open = [&](const TMCG_Card &c) { TMCG_CardSecret cs(P, TB); for (size_t k = 0; k < P; k++) tm.TMCG_SelfCardSecret(c, cs, *sk[k], k); return tm.TMCG_TypeOfCard(cs); };
			auto tok_keys = [&](bool y) { std::string r; for (size_t k = 0; k < P; k++) { if (k) r += ","; r += hx(y ? ring.keys[k].y : ring.keys[k].m); } return r; };
			auto tok_mat = [&](const std::vector<std::vector<MP_INT> > &m) { std::string r; for (size_t k = 0; k < m.size(); k++) { if (k) r += ";"; for (size_t w = 0; w < m[k].size(); w++) { if (w) r += ","; r += hx(&m[k][w]); } } return r; };
			auto tok_bits = [&](const std::vector<std::vector<MP_INT> > &m) { std::string r; for (size_t k = 0; k < m.size(); k++) { if (k) r += ";"; for (size_t w = 0; w < m[k].size(); w++) r += (mpz_get_ui(&m[k][w]) & 1) ? "1" : "0"; } return r; };
			const size_t MAXT = (size_t)1 << TB;
			// 5a. card secrets: the b-matrix as a function of the coins (model-compared), every column XORs to zero
			for (unsigned k = 0; k < (T ? 40u : 12u); k++) {
				size_t index = k % P;
				TMCG_CardSecret cs(P, TB);
				coin_script().clear(); coin_log().clear(); coin_logging() = true;
				tm.TMCG_CreateCardSecret(cs, ring, index);
				coin_logging() = false;
				std::string coins((const char*)coin_log().data(), coin_log().size()); coin_log().clear();
				Rec("qcs").t(tok_keys(false)).d((long)TB).d((long)index).b(coins).t("ret:" + tok_mat(cs.r) + ":" + tok_bits(cs.b));
				for (size_t w = 0; w < TB; w++) { unsigned x = 0; for (size_t pl = 0; pl < P; pl++) x ^= mpz_get_ui(&cs.b[pl][w]) & 1; if (x) { propfail("qr-secret-column-xor", "TMCG_CreateCardSecret(index=" + std::to_string(index) + ", " + cfs + "): column " + std::to_string(w) + " of the secret bits " + tok_bits(cs.b) + " does not XOR to zero: masking with it changes the card type"); break; } }
				// masking one card with it: compared number by number, and the type must survive
				size_t t = gen().below(MAXT); TMCG_Card c(P, TB), cc(P, TB);
				if (gen().coin()) tm.TMCG_CreateOpenCard(c, ring, t); else { TMCG_CardSecret c0(P, TB); tm.TMCG_CreatePrivateCard(c, c0, ring, gen().below(P), t); }
				tm.TMCG_MaskCard(c, cc, cs, ring, gen().coin());
				Rec("qmc").t(tok_keys(false)).t(tok_keys(true)).t(tok_mat(c.z)).t(tok_mat(cs.r)).t(tok_bits(cs.b)).t("ret:" + tok_mat(cc.z));
				size_t t2 = open(cc);
				if (t2 != t) propfail("qr-mask-type", "masking a card of type " + std::to_string(t) + " with a created secret (index=" + std::to_string(index) + ", " + cfs + ") gives type " + std::to_string(t2) + ", secret bits " + tok_bits(cs.b));
			}
			// 5b. shuffles: permutation and rotation, chains by DIFFERENT players (different index rows), glue
			for (unsigned k = 0; k < (T ? 40u : 10u); k++) {
				size_t n = (k < 5) ? 1 + k : 2 + gen().below(T ? 16 : 8);
				TMCG_Stack<TMCG_Card> s; std::vector<size_t> types;
				for (size_t i = 0; i < n; i++) {
					size_t t = gen().below(1 + gen().below(MAXT)); TMCG_Card c(P, TB);
					if (gen().coin()) tm.TMCG_CreateOpenCard(c, ring, t);
					else { TMCG_CardSecret cs(P, TB); tm.TMCG_CreatePrivateCard(c, cs, ring, gen().below(P), t); }
					s.push(c); types.push_back(t);
				}
				// a chain: every player shuffles once, in turn, with his own index
				TMCG_Stack<TMCG_Card> cur = s; std::vector<size_t> expect = types; bool bad = false;
				std::vector<TMCG_StackSecret<TMCG_CardSecret> > secrets;
				for (size_t pl = 0; pl < P && !bad; pl++) {
					TMCG_StackSecret<TMCG_CardSecret> ss; TMCG_Stack<TMCG_Card> nxt;
					bool cyc = (n >= 2) && gen().below(3) == 0;
					size_t off = tm.TMCG_CreateStackSecret(ss, cyc, ring, pl, n);
					std::vector<size_t> f; for (size_t i = 0; i < ss.size(); i++) f.push_back(ss[i].first);
					if (f.size() != n || !is_bijection(f)) { propfail("qr-css-bijection", "generated QR stack secret is not a bijection: " + tok_idx(f) + " (" + cfs + ")"); bad = true; break; }
					{ size_t pre = (k + pl) % 4 == 0 ? 0 : ((k + pl) % 4 == 1 ? 1 : ((k + pl) % 4 == 2 ? n : 2 * n)); for (size_t j = 0; j < pre; j++) nxt.push(cur[j % n]); }   // used result stack
					tm.TMCG_MixStack(cur, nxt, ss, ring, gen().coin());
					if (nxt.size() != n) { propfail("qr-mix-size", "mixed QR stack has " + std::to_string(nxt.size()) + " cards instead of " + std::to_string(n) + " (result stack was not fresh; " + cfs + ")"); bad = true; break; }
					std::vector<size_t> got(n); for (size_t i = 0; i < n; i++) got[i] = open(nxt[i]);
					for (size_t i = 0; i < n; i++) if (got[i] != expect[f[i]]) { propfail("qr-mix-type", "QR encoding (" + cfs + ", shuffling player " + std::to_string(pl) + (cyc ? ", rotation" : ", permutation") + "): card " + std::to_string(i) + " opens to type " + std::to_string(got[i]) + ", designated input card " + std::to_string(f[i]) + " has type " + std::to_string(expect[f[i]]) + ", indices " + tok_idx(f)); bad = true; break; }
					if (cyc && !bad) for (size_t i = 0; i < n; i++) if (got[(i + off) % n] != expect[i]) { propfail("qr-rot-offset", "QR encoding: rotation offset " + std::to_string(off) + " wrong for indices " + tok_idx(f)); bad = true; break; }
					std::vector<size_t> a = expect, b = got; std::sort(a.begin(), a.end()); std::sort(b.begin(), b.end());
					if (a != b && !bad) { propfail("qr-mix-multiset", "QR encoding (" + cfs + "): multiset of types changed by a shuffle"); bad = true; }
					std::vector<size_t> e2(n); for (size_t i = 0; i < n; i++) e2[i] = expect[f[i]];
					expect = e2; cur = nxt; secrets.push_back(ss);
				}
				if (bad || secrets.size() < 2) continue;
				// glue of the first two shuffles = their composition
				TMCG_StackSecret<TMCG_CardSecret> gam; gam = secrets[1];
				tm.TMCG_GlueStackSecret(secrets[0], gam, ring);
				TMCG_Stack<TMCG_Card> s1, s2, s3;
				tm.TMCG_MixStack(s, s1, secrets[0], ring, false);
				tm.TMCG_MixStack(s1, s2, secrets[1], ring, false);
				tm.TMCG_MixStack(s, s3, gam, ring, false);
				if (!(s2 == s3)) propfail("qr-glue-compose", "QR encoding (" + cfs + "): mix(mix(s,sigma),pi) differs from mix(s,glue(sigma,pi))");
			}
			for (auto p : sk) delete p;
		}
	}
	return 0;
}
