// C11 correspondence harness: runs the real exporters/importers of /repo on generated objects and on mutated
// texts; prints one REC per call (inputs + observed result) for the model driver, and evaluates the property
// itself (export -> import into fresh object -> equal, re-export identical) on the implementation (PROPFAIL).
#include "common.hh"
#include <libTMCG.hh>
using namespace verif;

static std::string str(mpz_srcptr z) { std::ostringstream o; o << z; return o.str(); }

// boundary-aimed integer generator; maxbits bounds the size (the extracted model divides in Coq's binary N)
static void gen_int(mpz_ptr z, unsigned maxbits) {
	unsigned sel = gen().below(16);
	switch (sel) {
	case 0: mpz_set_ui(z, 0); break;
	case 1: mpz_set_si(z, gen().coin() ? 1 : -1); break;
	case 2: mpz_set_ui(z, 61 + gen().below(3)); break;                       // 61, 62, 63
	case 3: { mpz_ui_pow_ui(z, 62, 1 + gen().below(maxbits / 6 + 1)); if (gen().coin()) mpz_sub_ui(z, z, 1); break; }
	case 4: { mpz_ui_pow_ui(z, 2, 1 + gen().below(maxbits)); long d = (long)gen().below(3) - 1; if (d < 0) mpz_sub_ui(z, z, 1); else mpz_add_ui(z, z, d); break; }
	case 5: mpz_set_ui(z, gen().below(100)); break;
	default: gen_bits(z, 1 + gen().below(maxbits)); break;
	}
	if (sel > 1 && gen().below(4) == 0) mpz_neg(z, z);
}

// mpz_set_str exactly as the importers call it
static std::string dec62(const std::string &s) {
	mpz_t v; mpz_init(v);
	std::string r = (mpz_set_str(v, s.c_str(), TMCG_MPZ_IO_BASE) < 0) ? "none" : hx(v);
	mpz_clear(v); return r;
}

static const char MUT[] = " -|^0zZA9!\t\n+.:a";
static std::string mutate(const std::string &s) {
	std::string t = s;
	unsigned n = 1 + gen().below(2);
	for (unsigned k = 0; k < n; k++) {
		unsigned op = gen().below(6);
		size_t pos = t.empty() ? 0 : gen().below(t.size());
		char c = MUT[gen().below(sizeof(MUT) - 1)];
		if (gen().below(40) == 0) c = '\0';
		switch (op) {
		case 0: if (!t.empty()) t[pos] = c; break;
		case 1: t.insert(t.begin() + pos, c); break;
		case 2: if (!t.empty()) t.erase(pos, 1); break;
		case 3: t = t.substr(0, pos); break;                                   // truncation
		case 4: { // duplicate a field
			size_t e = t.find_first_of("|^", pos); if (e != t.npos) t.insert(pos, t.substr(pos, e - pos + 1)); break; }
		case 5: { // replace a numeric run by an interesting number
			static const char *N[] = { "0", "1", "33", "32", "11", "10", "512", "513", "-1", "+2", " 3", "18446744073709551615",
				"18446744073709551616", "-18446744073709551615", "99999999999999999999999", "", "2 ", "0x2", "2a" };
			size_t b = t.find_first_of("|^", pos); if (b == t.npos) break;
			size_t e = t.find_first_of("|^", b + 1); if (e == t.npos) break;
			t.replace(b + 1, e - b - 1, N[gen().below(sizeof(N) / sizeof(N[0]))]); break; }
		}
	}
	return t;
}

static std::string tok_vcard(const VTMF_Card &c) { return hx(c.c_1) + "," + hx(c.c_2); }
static std::string tok_tcard(const TMCG_Card &c) {
	std::string r;
	for (size_t i = 0; i < c.z.size(); i++) {
		if (i) r += ";";
		for (size_t j = 0; j < c.z[i].size(); j++) { if (j) r += ","; r += hx(&c.z[i][j]); }
		if (c.z[i].empty()) r += "_";
	}
	return r;
}
static std::string tok_tsecret(const TMCG_CardSecret &c) {
	std::string r;
	for (size_t i = 0; i < c.r.size(); i++) {
		if (i) r += ";";
		for (size_t j = 0; j < c.r[i].size(); j++) { if (j) r += ","; r += hx(&c.r[i][j]) + "," + hx(&c.b[i][j]); }
		if (c.r[i].empty()) r += "_";
	}
	return r;
}
static std::string tok_vstack(const TMCG_Stack<VTMF_Card> &s) {
	if (s.size() == 0) return "_";
	std::string r; for (size_t i = 0; i < s.size(); i++) { if (i) r += ";"; r += tok_vcard(s[i]); } return r;
}
static std::string tok_tstack(const TMCG_Stack<TMCG_Card> &s) {
	if (s.size() == 0) return "_";
	std::string r; for (size_t i = 0; i < s.size(); i++) { if (i) r += "/"; r += tok_tcard(s[i]); } return r;
}
static std::string tok_tss(const TMCG_StackSecret<TMCG_CardSecret> &s) {
	if (s.size() == 0) return "_";
	std::string r; for (size_t i = 0; i < s.size(); i++) { if (i) r += "/"; r += hx((unsigned long)s[i].first) + ":" + tok_tsecret(s[i].second); } return r;
}
static std::string tok_vss(const TMCG_StackSecret<VTMF_CardSecret> &s) {
	if (s.size() == 0) return "_";
	std::string r; for (size_t i = 0; i < s.size(); i++) { if (i) r += ";"; r += hx((unsigned long)s[i].first) + "," + hx(s[i].second.r); } return r;
}

template<class T> static std::string exp(const T &x) { std::ostringstream o; o << x; return o.str(); }

int main(int argc, char **argv) {
	Args A(argc, argv);
	if (!init_libTMCG()) { fprintf(stderr, "init_libTMCG failed\n"); return 2; }
	const unsigned N = A.thorough() ? 6000 : 500;
	const unsigned MAXB = A.thorough() ? 700 : 320;
	mpz_t z, z2; mpz_init(z); mpz_init(z2);

	// ---- integers ---------------------------------------------------------------------------
	for (unsigned i = 0; i < N; i++) {
		gen_int(z, (i % 50 == 0) ? 2100 : MAXB);
		std::string s = str(z);
		Rec("enc62").z(z).b(s);
		// property oracle on the implementation: operator>> gives the integer back, re-export identical
		std::istringstream in(s + "\n");
		try { in >> z2; } catch (...) { mpz_set_si(z2, -12345); }
		if (mpz_cmp(z, z2) != 0 || str(z2) != s) propfail("int-roundtrip", "integer " + hx(z) + " exported as '" + s + "' re-imported as " + hx(z2));
		Rec("dec62").b(s).t(dec62(s));
		std::string m = mutate(s);
		if (gen().below(3) == 0) m = std::string(gen().below(3), ' ') + m;
		Rec("dec62").b(m).t(dec62(m));
	}
	// ---- VTMF_Card / VTMF_CardSecret -------------------------------------------------------------
	for (unsigned i = 0; i < N; i++) {
		VTMF_Card c; gen_int(c.c_1, MAXB); gen_int(c.c_2, MAXB);
		std::string s = exp(c);
		Rec("vcard_exp").z(c.c_1).z(c.c_2).b(s);
		VTMF_Card d; mpz_set_ui(d.c_1, 77); mpz_set_ui(d.c_2, 78);   // used object: cards reset on import
		bool ok = d.import(s);
		if (!ok || !(d == c) || exp(d) != s) propfail("vcard-roundtrip", "VTMF_Card " + s + " does not round-trip");
		Rec("vcard_imp").b(s).t(ok ? tok_vcard(d) : "none");
		std::string m = mutate(s);
		VTMF_Card e; ok = e.import(m);
		Rec("vcard_imp").b(m).t(ok ? tok_vcard(e) : "none");

		VTMF_CardSecret cs; gen_int(cs.r, MAXB);
		s = exp(cs);
		Rec("vsec_exp").z(cs.r).b(s);
		VTMF_CardSecret ds; mpz_set_ui(ds.r, 5); ok = ds.import(s);
		if (!ok || mpz_cmp(ds.r, cs.r) || exp(ds) != s) propfail("vsecret-roundtrip", "VTMF_CardSecret " + s + " does not round-trip");
		Rec("vsec_imp").b(s).t(ok ? hx(ds.r) : "none");
		m = mutate(s);
		VTMF_CardSecret es; ok = es.import(m);
		Rec("vsec_imp").b(m).t(ok ? hx(es.r) : "none");
	}
	// ---- TMCG_Card / TMCG_CardSecret (dimensions at the limits) -------------------------------------
	for (unsigned i = 0; i < N / 2; i++) {
		size_t k, w;
		switch (gen().below(5)) { case 0: k = 1; break; case 1: k = TMCG_MAX_PLAYERS; break; default: k = 1 + gen().below(TMCG_MAX_PLAYERS); }
		switch (gen().below(5)) { case 0: w = 1; break; case 1: w = TMCG_MAX_TYPEBITS; break; default: w = 1 + gen().below(TMCG_MAX_TYPEBITS); }
		if (!A.thorough() && k * w > 60) { k = 1 + k % 6; }
		TMCG_Card c(k, w);
		for (size_t a = 0; a < k; a++) for (size_t b = 0; b < w; b++) gen_int(&c.z[a][b], (k * w > 40) ? 64 : MAXB / 2);
		std::string s = exp(c);
		Rec("tcard_exp").t(tok_tcard(c)).b(s);
		TMCG_Card d(1 + gen().below(3), 1 + gen().below(3));          // used object of other dimensions
		bool ok = d.import(s);
		if (!ok || !(d == c) || exp(d) != s) propfail("tcard-roundtrip", "TMCG_Card " + s.substr(0, 200) + " does not round-trip");
		Rec("tcard_imp").b(s).t(ok ? tok_tcard(d) : "none");
		std::string m = mutate(s);
		TMCG_Card e; ok = e.import(m);
		Rec("tcard_imp").b(m).t(ok ? tok_tcard(e) : "none");
		// TMCG_CardSecret: same layout as the card, two matrices with interleaved entries (model-compared)
		TMCG_CardSecret cs(k, w);
		for (size_t a = 0; a < k; a++) for (size_t b = 0; b < w; b++) { gen_int(&cs.r[a][b], 200); mpz_set_ui(&cs.b[a][b], gen().below(2)); }
		if (gen().below(4) == 0) for (size_t a = 0; a < k; a++) for (size_t b = 0; b < w; b++) gen_int(&cs.b[a][b], 64);   // b is parsed as a full integer
		s = exp(cs);
		Rec("tsec_exp").t(tok_tsecret(cs)).b(s);
		TMCG_CardSecret ds(1 + gen().below(3), 1 + gen().below(3)); ok = ds.import(s);   // used object of other dimensions
		if (!ok || exp(ds) != s || tok_tsecret(ds) != tok_tsecret(cs)) propfail("tcardsecret-roundtrip", "TMCG_CardSecret " + s.substr(0, 200) + " does not round-trip");
		Rec("tsec_imp").b(s).t(ok ? tok_tsecret(ds) : "none");
		m = mutate(s);
		TMCG_CardSecret es; ok = es.import(m);
		Rec("tsec_imp").b(m).t(ok ? tok_tsecret(es) : "none");
	}
	// ---- TMCG_PublicKey text: pub|name|email|type|m|y|nizk|sig (model-compared) ---------------------------------
	for (unsigned i = 0; i < N / 2; i++) {
		auto rstr = [&](size_t maxlen, bool bars) { std::string r; size_t l = gen().below(maxlen + 1);
			static const char A[] = "abcXYZ019 @.^-_~\n"; for (size_t a = 0; a < l; a++) r += A[gen().below(sizeof(A) - 1)];
			if (bars && l) r[gen().below(l)] = '|'; return r; };
		bool bars = (gen().below(8) == 0);
		TMCG_PublicKey pk;
		pk.name = rstr(12, bars && gen().below(2)); pk.email = rstr(12, false); pk.type = rstr(8, bars && gen().below(2)); pk.nizk = rstr(40, bars && gen().below(2));
		pk.sig = rstr(30, gen().below(2)); gen_int(pk.m, MAXB); gen_int(pk.y, MAXB);
		std::string s = exp(pk);
		{ Rec r("pub_exp"); r.b(pk.name).b(pk.email).b(pk.type).z(pk.m).z(pk.y).b(pk.nizk).b(pk.sig).b(s); }
		auto tokpk = [](const TMCG_PublicKey &k) { return xb(k.name) + "," + xb(k.email) + "," + xb(k.type) + "," + hx(k.m) + "," + hx(k.y) + "," + xb(k.nizk) + "," + xb(k.sig); };
		TMCG_PublicKey d; d.name = "used"; d.sig = "old"; mpz_set_ui(d.m, 77);
		bool ok = d.import(s);
		bool clean = pk.name.find('|') == pk.name.npos && pk.type.find('|') == pk.type.npos && pk.nizk.find('|') == pk.nizk.npos;
		if (clean && (!ok || tokpk(d) != tokpk(pk) || exp(d) != s)) propfail("pubkey-roundtrip", "TMCG_PublicKey " + xb(s.substr(0, 200)) + " does not round-trip");
		Rec("pub_imp").b(s).t(ok ? tokpk(d) : "none");
		std::string m = mutate(s);
		TMCG_PublicKey e; ok = e.import(m);
		Rec("pub_imp").b(m).t(ok ? tokpk(e) : "none");
	}
	// ---- stacks and stack secrets ---------------------------------------------------------------------
	for (unsigned i = 0; i < N / 4; i++) {
		size_t n;
		switch (gen().below(8)) { case 0: n = 1; break; case 1: n = 2; break; case 2: n = A.thorough() ? TMCG_MAX_CARDS : 40; break;
			case 3: n = A.thorough() ? TMCG_MAX_CARDS - 1 : 17; break; default: n = 1 + gen().below(12); }
		TMCG_Stack<VTMF_Card> st;
		for (size_t a = 0; a < n; a++) { VTMF_Card c; gen_int(c.c_1, n > 60 ? 40 : 160); gen_int(c.c_2, n > 60 ? 40 : 160); st.push(c); }
		std::string s = exp(st);
		Rec("vstack_exp").t(tok_vstack(st)).b(s);
		TMCG_Stack<VTMF_Card> d; bool ok = d.import(s);
		if (!ok || !(d == st) || exp(d) != s) propfail("vstack-roundtrip", "TMCG_Stack<VTMF_Card> of size " + std::to_string(n) + " does not round-trip");
		Rec("vstack_imp").t("_").b(s).t(ok ? tok_vstack(d) : "none");
		// import into a used object appends
		if (n <= 12) {
			TMCG_Stack<VTMF_Card> u; VTMF_Card c0; mpz_set_ui(c0.c_1, 3); mpz_set_ui(c0.c_2, 4); u.push(c0);
			std::string old = tok_vstack(u); ok = u.import(s);
			Rec("vstack_imp").t(old).b(s).t(ok ? tok_vstack(u) : "none");
		}
		std::string m = mutate(s);
		TMCG_Stack<VTMF_Card> e; ok = e.import(m);
		Rec("vstack_imp").t("_").b(m).t(ok ? tok_vstack(e) : "none");

		// stack secret: a permutation (sometimes deliberately not) plus secrets
		std::vector<size_t> pi(n); for (size_t a = 0; a < n; a++) pi[a] = a;
		for (size_t a = n; a > 1; a--) std::swap(pi[a - 1], pi[gen().below(a)]);
		bool isperm = true;
		if (gen().below(4) == 0 && n > 1) { pi[gen().below(n)] = pi[gen().below(n)]; std::vector<bool> seen(n, false); for (size_t v : pi) { if (seen[v]) isperm = false; seen[v] = true; } }
		TMCG_StackSecret<VTMF_CardSecret> ss;
		for (size_t a = 0; a < n; a++) { VTMF_CardSecret cs; gen_int(cs.r, n > 60 ? 40 : 160); ss.push(pi[a], cs); }
		s = exp(ss);
		Rec("vss_exp").t(tok_vss(ss)).b(s);
		TMCG_StackSecret<VTMF_CardSecret> dss; ok = dss.import(s);
		if (isperm && (!ok || exp(dss) != s)) propfail("vstacksecret-roundtrip", "TMCG_StackSecret<VTMF_CardSecret> of size " + std::to_string(n) + " does not round-trip");
		if (!isperm && ok) propfail("vstacksecret-nonperm-accepted", "stack secret with a non-bijective index component was imported: " + s.substr(0, 300));
		Rec("vss_imp").t("_").b(s).t(ok ? tok_vss(dss) : "none");
		m = mutate(s);
		TMCG_StackSecret<VTMF_CardSecret> ess; ok = ess.import(m);
		Rec("vss_imp").t("_").b(m).t(ok ? tok_vss(ess) : "none");
	}
	// ---- open stacks, QR-encoded stacks: implementation-level oracle ---------------------------------------
	for (unsigned i = 0; i < N / 10; i++) {
		size_t n = 1 + gen().below(6), k = 1 + gen().below(3), w = 1 + gen().below(4);
		TMCG_Stack<TMCG_Card> st; TMCG_StackSecret<TMCG_CardSecret> ss;
		for (size_t a = 0; a < n; a++) {
			TMCG_Card c(k, w); TMCG_CardSecret cs(k, w);
			for (size_t x = 0; x < k; x++) for (size_t y = 0; y < w; y++) { gen_int(&c.z[x][y], 200); gen_int(&cs.r[x][y], 200); mpz_set_ui(&cs.b[x][y], gen().below(2)); }
			st.push(c); ss.push((a + 1) % n, cs);
		}
		std::string s = exp(st); TMCG_Stack<TMCG_Card> d; bool ok = d.import(s);
		if (!ok || !(d == st) || exp(d) != s) propfail("tstack-roundtrip", "TMCG_Stack<TMCG_Card> does not round-trip: " + s.substr(0, 200));
		Rec("tstack_exp").t(tok_tstack(st)).b(s);
		Rec("tstack_imp").t("_").b(s).t(ok ? tok_tstack(d) : "none");
		{ TMCG_Stack<TMCG_Card> u; TMCG_Card c0(1 + gen().below(2), 1 + gen().below(2)); gen_int(&c0.z[0][0], 64); u.push(c0);   // import appends to a used stack
		  std::string told = tok_tstack(u); bool ok2 = u.import(s); Rec("tstack_imp").t(told).b(s).t(ok2 ? tok_tstack(u) : "none");
		  std::string mm = mutate(s); TMCG_Stack<TMCG_Card> e; ok2 = e.import(mm); Rec("tstack_imp").t("_").b(mm).t(ok2 ? tok_tstack(e) : "none"); }
		s = exp(ss); TMCG_StackSecret<TMCG_CardSecret> dss; ok = dss.import(s);
		if (!ok || exp(dss) != s) propfail("tstacksecret-roundtrip", "TMCG_StackSecret<TMCG_CardSecret> does not round-trip: " + s.substr(0, 200));
		Rec("tss_exp").t(tok_tss(ss)).b(s);
		Rec("tss_imp").t("_").b(s).t(ok ? tok_tss(dss) : "none");
		{ std::string mm = mutate(s); TMCG_StackSecret<TMCG_CardSecret> e; bool ok2 = e.import(mm); Rec("tss_imp").t("_").b(mm).t(ok2 ? tok_tss(e) : "none"); }
	}
	// ---- iostream operators at maximal line lengths (implementation-level oracle) ---------------------------
	// operator>> for integers reads at most TMCG_MAX_VALUE_CHARS - 2 characters; cards, secrets and stacks are
	// read as one line and parsed by import(), so their components may be even longer.
	{
		auto digits = [&](mpz_ptr v, size_t n) { mpz_ui_pow_ui(v, 62, n); mpz_sub_ui(v, v, 1 + gen().below(1000)); };   // exactly n base-62 digits
		const size_t LMAX = TMCG_MAX_VALUE_CHARS - 2;
		size_t lens[] = { LMAX - 1, LMAX };
		for (size_t L : lens) {
			digits(z, L);
			std::stringstream ss; ss << z << std::endl;
			bool ok = true; try { ss >> z2; } catch (...) { ok = false; }
			if (!ok || !ss.good() || mpz_cmp(z, z2)) propfail("int-stream-maxlen", "integer of " + std::to_string(L) + " base-62 digits does not survive operator<< / operator>>");
			Rec("streammax").t("int").d(L);
		}
		size_t clens[] = { LMAX - 1, LMAX, LMAX + 1500 };
		for (size_t L1 : clens) for (size_t L2 : clens) {
			VTMF_Card c, d; digits(c.c_1, L1); digits(c.c_2, L2);
			std::stringstream ss; ss << c << std::endl; ss >> d;
			if (!ss.good() || !(c == d)) propfail("vcard-stream-maxlen", "VTMF_Card with components of " + std::to_string(L1) + "/" + std::to_string(L2) + " digits does not survive operator<< / operator>>");
			Rec("streammax").t("vcard").d(L1).d(L2);
		}
		for (size_t L : clens) {
			VTMF_CardSecret cs, ds; digits(cs.r, L);
			std::stringstream ss; ss << cs << std::endl; ss >> ds;
			if (!ss.good() || mpz_cmp(cs.r, ds.r)) propfail("vsecret-stream-maxlen", "VTMF_CardSecret with " + std::to_string(L) + " digits does not survive the stream operators");
			TMCG_Card tc(2, 2), td; for (int a = 0; a < 2; a++) for (int b = 0; b < 2; b++) digits(&tc.z[a][b], L);
			std::stringstream s2; s2 << tc << std::endl; s2 >> td;
			if (!s2.good() || !(tc == td)) propfail("tcard-stream-maxlen", "TMCG_Card 2x2 with " + std::to_string(L) + "-digit entries does not survive the stream operators");
			TMCG_CardSecret ts(2, 2), tt; for (int a = 0; a < 2; a++) for (int b = 0; b < 2; b++) { digits(&ts.r[a][b], L); mpz_set_ui(&ts.b[a][b], (a + b) & 1); }
			std::stringstream s3; s3 << ts << std::endl; s3 >> tt;
			if (!s3.good() || exp(ts) != exp(tt)) propfail("tcardsecret-stream-maxlen", "TMCG_CardSecret 2x2 with " + std::to_string(L) + "-digit entries does not survive the stream operators");
			Rec("streammax").t("secrets").d(L);
		}
		{	// stacks through the stream operators (one big line)
			TMCG_Stack<VTMF_Card> st, st2; TMCG_StackSecret<VTMF_CardSecret> sc, sc2;
			for (size_t a = 0; a < 3; a++) { VTMF_Card c; digits(c.c_1, LMAX); digits(c.c_2, LMAX); st.push(c); VTMF_CardSecret cs; digits(cs.r, LMAX); sc.push((a + 1) % 3, cs); }
			std::stringstream ss; ss << st << std::endl; ss >> st2;
			if (!ss.good() || !(st == st2)) propfail("vstack-stream-maxlen", "TMCG_Stack<VTMF_Card> with maximal components does not survive the stream operators");
			std::stringstream s2; s2 << sc << std::endl; s2 >> sc2;
			if (!s2.good() || exp(sc) != exp(sc2)) propfail("vstacksecret-stream-maxlen", "TMCG_StackSecret<VTMF_CardSecret> with maximal components does not survive the stream operators");
			Rec("streammax").t("stacks").d(LMAX);
		}
	}
	mpz_clear(z); mpz_clear(z2);
	return 0;
}
