// forked n-party runs over pipes for the C16/C17 harnesses (set-up copied from /repo/tests/t-astc.cc, t-dkg.cc):
// one child per party, a full mesh of pipes for the unicast channels and a second mesh under the reliable broadcast.
// Each child gets its own deterministic coin stream, writes a small result text into a result pipe and _exit()s;
// the parent waits (wall-clock limit, children are killed individually by pid), then reads the results.
// Include after <libTMCG.hh>.
#ifndef VERIF_C17_FORK_HH
#define VERIF_C17_FORK_HH
#include "common.hh"
#include <aiounicast_select.hh>
#include <functional>
#include <sstream>
#include <set>
#include <map>
#include <sys/wait.h>
#include <sys/types.h>
#include <signal.h>
#include <fcntl.h>
#include <time.h>
#include <sys/prctl.h>

struct ForkResult { std::vector<std::string> text; std::vector<int> status; bool timed_out = false; double wall = 0; std::string errlog;
	// the library reports every expired time-out on stderr; a run with such a report is outside the synchrony assumption
	bool timing_trouble() const { return timed_out || errlog.find("timeout") != std::string::npos || errlog.find("got EOF") != std::string::npos; }
	// the same, but time-outs that expired while waiting for a party of `expected` (scripted to be silent) do not count
	bool timing_trouble(const std::set<size_t> &expected) const {
		if (timed_out || errlog.find("got EOF") != std::string::npos) return true;
		std::istringstream in(errlog); std::string l;
		while (std::getline(in, l)) { size_t p = l.find("timeout"); if (p == std::string::npos) continue;
			size_t k = l.find_last_not_of("0123456789"); if (k == std::string::npos || k + 1 >= l.size()) return true;
			if (!expected.count(strtoul(l.c_str() + k + 1, 0, 10))) return true; }
		return false; } };

typedef std::function<void(size_t, aiounicast *, CachinKursawePetzoldShoupRBC *, std::ostream &)> party_fn;

// ---- harness-scripted deviations of one party (idea taken from agent I1's c15_net.hh TamperUnicast; own copy) ----------------
// The deviating party runs the library's honest code; its two channels are wrapped:
//  * unicast: the first message of the tampered pair (the share alpha) to the recipients in `wrong` is sent as alpha+1 mod q,
//    the recipients in `drop` get nothing of that pair;
//  * broadcast: every own r-send (message (ID, j, s, r-send, payload) on the channel under the RBC) is shown to `decide`, which
//    may replace the payload (return 1; the same replacement goes to every recipient, so the broadcast stays consistent) or
//    suppress the broadcast and everything after it (return 2: the party falls silent on the broadcast channel).
struct Deviation {
	std::set<size_t> wrong, drop;     // unicast recipients
	size_t pair_base = 0;             // index (per recipient) of the first message of the tampered pair
	int answer = 0;                   // complaint answer: 0 correct, 1 incorrect (revealed share + 1), 2 none (silent from there on),
	                                  // 3 ignored: the `who` of the answer is replaced by the end marker, the party goes on normally
	int opening = 0;                  // opening of the own share: 0 correct, 1 mismatching (+1), 2 none (silent from there on), 4 out of range (a_i + q)
	bool bad_recon = false;           // the shares this party contributes to public reconstructions are broadcast as share + 1
	int dss_step = 0;                 // DSS::Sign: deviate inside Step 1d (1) or Step 2d (2): honest code, one corrupted broadcast
	int dss_mode = 0;                 // 0: the first commitment of the own VSS of v_i is broadcast as A+1; 1: the first ZNPoK response as z+1
	bool active() const { return !wrong.empty() || !drop.empty() || answer || opening || bad_recon || dss_step; }
	std::string str() const { std::string r = "wrong={"; for (size_t w : wrong) r += std::to_string(w) + " "; r += "} drop={"; for (size_t w : drop) r += std::to_string(w) + " ";
		return r + "} answer=" + std::to_string(answer) + " opening=" + std::to_string(opening); }
};
class TamperUnicast : public aiounicast_select {
public:
	Deviation dv; mpz_t q; std::vector<size_t> sent;
	TamperUnicast(const Deviation &d, mpz_srcptr q_in, size_t n_in, size_t j_in, const std::vector<int> &fi, const std::vector<int> &fo, const std::vector<std::string> &key, size_t sched, time_t T)
		: aiounicast_select(n_in, j_in, fi, fo, key, sched, T), dv(d), sent(n_in, 0) { mpz_init_set(q, q_in); }
	using aiounicast_select::Send;
	bool Send(mpz_srcptr m, const size_t i_in, time_t timeout) override {
		size_t k = sent[i_in]++;
		if (dv.drop.count(i_in) && (k == dv.pair_base || k == dv.pair_base + 1)) return true;
		if (dv.wrong.count(i_in) && k == dv.pair_base) {
			mpz_t m2; mpz_init(m2); mpz_add_ui(m2, m, 1L); mpz_mod(m2, m2, q);
			bool r = aiounicast_select::Send(m2, i_in, timeout); mpz_clear(m2); return r;
		}
		return aiounicast_select::Send(m, i_in, timeout);
	}
};
class TamperBroadcast : public aiounicast_select {
public:
	CachinKursawePetzoldShoupRBC **rbcp; bool silent = false;
	std::function<int(mpz_srcptr, mpz_ptr)> decide;     // payload -> 0 pass / 1 replaced / 2 silent from here on
	std::function<int(const std::vector<mpz_srcptr> &, mpz_ptr)> decide_full;   // the same with the whole r-send (ID, j, s, r-send, payload)
	TamperBroadcast(CachinKursawePetzoldShoupRBC **r, size_t n_in, size_t j_in, const std::vector<int> &fi, const std::vector<int> &fo, const std::vector<std::string> &key, size_t sched, time_t T)
		: aiounicast_select(n_in, j_in, fi, fo, key, sched, T), rbcp(r) {}
	using aiounicast_select::Send;
	bool Send(const std::vector<mpz_srcptr> &m, const size_t i_in, time_t timeout) override {
		if (*rbcp && m.size() == 5 && mpz_cmp(m[3], (*rbcp)->r_send) == 0 && mpz_cmp(m[1], (*rbcp)->whoami) == 0) {
			if (silent) return true;
			if (decide || decide_full) {
				mpz_t rep; mpz_init(rep); int d = decide_full ? decide_full(m, rep) : decide(m[4], rep);
				if (d == 2) { silent = true; mpz_clear(rep); return true; }
				if (d == 1) { std::vector<mpz_srcptr> m2(m); m2[4] = rep; bool r = aiounicast_select::Send(m2, i_in, timeout); mpz_clear(rep); return r; }
				mpz_clear(rep);
			}
		}
		return aiounicast_select::Send(m, i_in, timeout);
	}
};
inline TamperBroadcast *&tamper_broadcast() { static TamperBroadcast *p = 0; return p; }   // the wrapped broadcast channel of this (child) process

inline ForkResult fork_parties(size_t n, size_t t, uint64_t seed, time_t aio_timeout, unsigned wall_limit_s, party_fn f,
                               const std::map<size_t, Deviation> *devs = 0, mpz_srcptr q_dev = 0, time_t unicast_timeout = 0,
                               const std::vector<bool> *dont_wait = 0 /* parties whose result is not waited for (deviators) */) {
	// unicast_timeout: separate (shorter) time-out of the point-to-point channels, so that a party that waits in vain for a private
	// message is not in turn timed out by the others on the broadcast channel
	ForkResult R; R.text.assign(n, ""); R.status.assign(n, -1);
	std::vector<std::vector<std::array<int, 2> > > up(n, std::vector<std::array<int, 2> >(n)), bp(n, std::vector<std::array<int, 2> >(n));
	std::vector<std::array<int, 2> > rp(n);
	for (size_t i = 0; i < n; i++) {
		for (size_t j = 0; j < n; j++) {
			if (pipe(up[i][j].data()) < 0 || pipe(bp[i][j].data()) < 0) { perror("pipe"); exit(2); }
		}
		if (pipe(rp[i].data()) < 0) { perror("pipe"); exit(2); }
	}
	fflush(stdout); fflush(stderr);
	// the children's stderr goes to an unlinked temporary file that the parent reads back
	char tmpl[] = "/tmp/verif-i2-XXXXXX"; int efd = mkstemp(tmpl); if (efd >= 0) unlink(tmpl);
	std::vector<pid_t> pid(n, -1);
	struct timespec t0; clock_gettime(CLOCK_MONOTONIC, &t0);
	for (size_t w = 0; w < n; w++) {
		pid[w] = fork();
		if (pid[w] < 0) { perror("fork"); exit(2); }
		if (pid[w] == 0) {
			int rc = 0;
			prctl(PR_SET_PDEATHSIG, SIGKILL);     // never outlive the harness process
			if (efd >= 0) { fcntl(efd, F_SETFL, O_APPEND); dup2(efd, 2); }
			try {
				std::vector<int> uin, uout, bin, bout; std::vector<std::string> ukey, bkey;
				for (size_t i = 0; i < n; i++) {
					std::stringstream key; key << "verif::P_" << (i + w);
					uin.push_back(up[i][w][0]); uout.push_back(up[w][i][1]); ukey.push_back(key.str());
					bin.push_back(bp[i][w][0]); bout.push_back(bp[w][i][1]); bkey.push_back(key.str());
				}
				verif::reseed_lib(seed * 1000003ULL + 7919ULL * (w + 1));
				aiounicast_select *aiou, *aiou2; CachinKursawePetzoldShoupRBC *rbc = 0;
				static CachinKursawePetzoldShoupRBC *rbc_slot = 0;
				if (devs && devs->count(w) && devs->at(w).active()) {
					aiou = new TamperUnicast(devs->at(w), q_dev, n, w, uin, uout, ukey, aiounicast::aio_scheduler_roundrobin, unicast_timeout ? unicast_timeout : aio_timeout);
					TamperBroadcast *tb = new TamperBroadcast(&rbc_slot, n, w, bin, bout, bkey, aiounicast::aio_scheduler_roundrobin, aio_timeout);
					tamper_broadcast() = tb; aiou2 = tb;
				} else {
					aiou = new aiounicast_select(n, w, uin, uout, ukey, aiounicast::aio_scheduler_roundrobin, unicast_timeout ? unicast_timeout : aio_timeout);
					aiou2 = new aiounicast_select(n, w, bin, bout, bkey, aiounicast::aio_scheduler_roundrobin, aio_timeout);
				}
				rbc = new CachinKursawePetzoldShoupRBC(n, t, w, aiou2, aiounicast::aio_scheduler_roundrobin, aio_timeout);
				rbc_slot = rbc;
				rbc->setID("verif");
				std::ostringstream res;
				f(w, aiou, rbc, res);
				std::string s = res.str() + "END\n";
				size_t off = 0;
				while (off < s.size()) { ssize_t k = write(rp[w][1], s.data() + off, s.size() - off); if (k <= 0) break; off += (size_t)k; }
				// keep serving the reliable broadcast (echo / ready for the others' last messages) until the parent ends the run
				mpz_t m; mpz_init(m);
				for (;;) { size_t l = 0; rbc->Deliver(m, l, aiounicast::aio_scheduler_roundrobin, 1); }
			} catch (std::exception &e) {
				std::string s = std::string("EXCEPTION ") + e.what() + "\n"; if (write(rp[w][1], s.data(), s.size()) < 0) {}
				rc = 3;
			} catch (...) { rc = 4; }
			_exit(rc);
		}
	}
	// parent: close the ends it does not use (so that dead peers are seen as closed pipes by the others as far as possible)
	for (size_t i = 0; i < n; i++) { for (size_t j = 0; j < n; j++) { close(up[i][j][0]); close(up[i][j][1]); close(bp[i][j][0]); close(bp[i][j][1]); } close(rp[i][1]); }
	for (size_t w = 0; w < n; w++) fcntl(rp[w][0], F_SETFL, O_NONBLOCK);
	auto ended = [&](size_t w) { const std::string &s = R.text[w]; return s.size() >= 4 && s.compare(s.size() - 4, 4, "END\n") == 0; };
	for (;;) {
		size_t busy = 0;
		for (size_t w = 0; w < n; w++) {
			char buf[4096]; ssize_t k;
			while ((k = read(rp[w][0], buf, sizeof buf)) > 0) R.text[w].append(buf, (size_t)k);
			if (pid[w] > 0) {
				int st = 0; pid_t r = waitpid(pid[w], &st, WNOHANG);
				if (r == pid[w]) { R.status[w] = WIFEXITED(st) ? WEXITSTATUS(st) : 1000 + (WIFSIGNALED(st) ? WTERMSIG(st) : 0); pid[w] = -1; }
			}
			if (pid[w] > 0 && !ended(w) && !(dont_wait && (*dont_wait)[w])) busy++;
		}
		if (!busy) break;
		struct timespec t1; clock_gettime(CLOCK_MONOTONIC, &t1);
		R.wall = (t1.tv_sec - t0.tv_sec) + 1e-9 * (t1.tv_nsec - t0.tv_nsec);
		if (R.wall > wall_limit_s) {
			R.timed_out = true;
			for (size_t w = 0; w < n; w++) if (pid[w] > 0) { kill(pid[w], SIGKILL); int st; waitpid(pid[w], &st, 0); R.status[w] = 2000; pid[w] = -1; }
			break;
		}
		struct timespec ts = {0, 5 * 1000 * 1000}; nanosleep(&ts, NULL);
	}
	struct timespec t1; clock_gettime(CLOCK_MONOTONIC, &t1);
	R.wall = (t1.tv_sec - t0.tv_sec) + 1e-9 * (t1.tv_nsec - t0.tv_nsec);
	// every party has reported (or died): end the run
	for (size_t w = 0; w < n; w++) if (pid[w] > 0) { kill(pid[w], SIGKILL); int st; waitpid(pid[w], &st, 0); if (ended(w)) R.status[w] = 0; else if (R.status[w] < 0) R.status[w] = 2000; pid[w] = -1; }
	for (size_t w = 0; w < n; w++) {
		char buf[4096]; ssize_t k;
		while ((k = read(rp[w][0], buf, sizeof buf)) > 0) R.text[w].append(buf, (size_t)k);
		close(rp[w][0]);
	}
	if (efd >= 0) { lseek(efd, 0, SEEK_SET); char buf[4096]; ssize_t k; while ((k = read(efd, buf, sizeof buf)) > 0 && R.errlog.size() < (1u << 20)) R.errlog.append(buf, (size_t)k); close(efd); }
	return R;
}

// "key=value" lines -> lookup
inline std::string res_get(const std::string &text, const std::string &key) {
	std::istringstream in(text); std::string l;
	while (std::getline(in, l)) if (l.compare(0, key.size() + 1, key + "=") == 0) return l.substr(key.size() + 1);
	return "";
}
#endif
