// C10 correspondence harness: Rabin key operations (PRab sign/verify, SAEP encrypt/decrypt, key validation).
// Real keys of small sizes are generated with the library (deterministic coins), every operation is recorded with its
// inputs, the coins it drew, the raw digests it asked for (gcry_md_hash_buffer is interposed: the table is the hash
// oracle of the model) and its observed result (REC ...), and the property itself is evaluated on the implementation:
// honest signatures/ciphertexts/keys must be accepted, every non-equivalent mutant must be refused (PROPFAIL ...).
#include "common.hh"
#include <dlfcn.h>
#include <map>
#include <set>
#include <sys/time.h>
#define private public
#define protected public
#include <libTMCG.hh>
using namespace verif;

// ---- hash oracle log -------------------------------------------------------------------------------
static bool hlog_on = false;
static std::map<std::string, std::string> hlog;
typedef void (*md_fn)(int, void *, const void *, size_t);
static md_fn real_md() { static md_fn f = (md_fn)dlsym(RTLD_NEXT, "gcry_md_hash_buffer"); return f; }
static std::string hexs(const unsigned char *p, size_t n) {
	static const char *d = "0123456789abcdef"; std::string r;
	for (size_t i = 0; i < n; i++) { r += d[p[i] >> 4]; r += d[p[i] & 15]; }
	return r;
}
extern "C" void gcry_md_hash_buffer(int algo, void *digest, const void *buffer, size_t length) {
	bool lg = hlog_on && (algo == GCRY_MD_SHA256 || algo == GCRY_MD_SHA3_256);
	unsigned char m5[16];
	if (lg) real_md()(GCRY_MD_MD5, m5, buffer, length);      // before the call: tmcg_g hashes in place (digest overlaps buffer)
	real_md()(algo, digest, buffer, length);
	if (lg) {
		char lb[32]; snprintf(lb, sizeof lb, ":%zu", length);
		std::string key = std::string(algo == GCRY_MD_SHA256 ? "1:" : "2:") + hexs(m5, 16) + lb;
		hlog[key] = hexs((const unsigned char *)digest, 32);
	}
}
static void hl_begin() { hlog.clear(); hlog_on = true; }
static std::string hl_end() {
	hlog_on = false;
	if (hlog.empty()) return "_";
	std::string r;
	for (auto &e : hlog) { if (!r.empty()) r += ","; r += e.first + "=" + e.second; }
	hlog.clear();
	return r;
}

// ---- helpers ------------------------------------------------------------------------------------------
static std::string S(mpz_srcptr z) { std::ostringstream o; o << z; return o.str(); }
template<class T> static std::string exp(const T &x) { std::ostringstream o; o << x; return o.str(); }
static double now() { struct timeval tv; gettimeofday(&tv, 0); return tv.tv_sec + tv.tv_usec * 1e-6; }
static std::vector<std::string> split(const std::string &s, char c) {
	std::vector<std::string> v; size_t b = 0;
	for (;;) { size_t e = s.find(c, b); if (e == s.npos) { v.push_back(s.substr(b)); break; } v.push_back(s.substr(b, e - b)); b = e + 1; }
	return v;
}
static std::string join(const std::vector<std::string> &v, char c) {
	std::string r; for (size_t i = 0; i < v.size(); i++) { if (i) r += c; r += v[i]; } return r;
}
struct Z { mpz_t v; Z() { mpz_init(v); } ~Z() { mpz_clear(v); } Z(const Z &o) { mpz_init_set(v, o.v); } Z &operator=(const Z &o) { mpz_set(v, o.v); return *this; } };

// value field of "xxx|kid|value|...": false if the frame is broken or the number does not parse
static bool frame_value(const std::string &s, std::string &kid, mpz_ptr v) {
	std::vector<std::string> f = split(s, '|');
	if (f.size() < 4) return false;
	kid = f[1];
	return mpz_set_str(v, f[2].c_str(), TMCG_MPZ_IO_BASE) >= 0;
}
// is kid a (possibly abbreviated) id of this key: ID<n>^<last n characters of the self-signature value>
static bool kid_abbrev(const std::string &kid, const std::string &keysig) {
	std::vector<std::string> f = split(keysig, '|');
	if (f.size() < 4) return false;
	const std::string &val = f[2];
	if (kid.size() < 4 || kid.substr(0, 2) != "ID") return false;
	size_t h = kid.find('^'); if (h == kid.npos) return false;
	std::string suf = kid.substr(h + 1);
	return suf.size() <= val.size() && val.substr(val.size() - suf.size()) == suf;
}

struct Counters { unsigned long verify = 0, decrypt = 0, check = 0, sign = 0, encrypt = 0, mutants = 0; } cnt;

// ---- recorded calls ------------------------------------------------------------------------------------
static bool do_verify(TMCG_PublicKey &pub, const std::string &data, const std::string &sig, bool rec = true) {
	hl_begin();
	bool ok = pub.verify(data, sig);
	std::string tab = hl_end();
	cnt.verify++;
	if (rec)
		Rec("verify").z(pub.m).b(pub.sig).b(data).b(sig).t(tab).t(ok ? "A" : "R");
	return ok;
}
static void sec_toks(Rec &r, const TMCG_SecretKey &sec) {
	r.z(sec.m).z(sec.p).z(sec.q).z(sec.gcdext_up).z(sec.gcdext_vq).z(sec.pa1d4).z(sec.qa1d4);
}
static std::string do_sign(TMCG_SecretKey &sec, const std::string &data, bool rec = true) {
	coin_log().clear(); coin_logging() = true; hl_begin();
	std::string s = sec.sign(data);
	std::string tab = hl_end(); coin_logging() = false;
	cnt.sign++;
	if (rec) {
		std::string coins((const char *)coin_log().data(), coin_log().size());
		Z v, foo, r0, r1, r2, r3; std::string kid; long idx = 9;
		if (frame_value(s, kid, v.v)) {
			mpz_mul(foo.v, v.v, v.v); mpz_mod(foo.v, foo.v, sec.m);
			tmcg_mpz_sqrtmn_fast_all(r0.v, r1.v, r2.v, r3.v, foo.v, sec.p, sec.q, sec.m, sec.gcdext_up, sec.gcdext_vq, sec.pa1d4, sec.qa1d4);
			if (!mpz_cmp(v.v, r0.v)) idx = 0; else if (!mpz_cmp(v.v, r1.v)) idx = 1; else if (!mpz_cmp(v.v, r2.v)) idx = 2; else if (!mpz_cmp(v.v, r3.v)) idx = 3;
		}
		Rec r("sign"); sec_toks(r, sec); r.b(sec.sig).b(data).b(coins).d(idx).t(tab).b(s);
	}
	coin_log().clear();
	return s;
}
static std::string do_encrypt(TMCG_PublicKey &pub, const unsigned char *value, bool rec = true) {
	coin_log().clear(); coin_logging() = true; hl_begin();
	std::string s = pub.encrypt(value);
	std::string tab = hl_end(); coin_logging() = false;
	cnt.encrypt++;
	if (rec) {
		std::string coins((const char *)coin_log().data(), coin_log().size());
		Rec("encrypt").z(pub.m).b(pub.sig).b(std::string((const char *)value, TMCG_SAEP_S0)).b(coins).t(tab).b(s);
	}
	coin_log().clear();
	return s;
}
static bool do_decrypt(TMCG_SecretKey &sec, unsigned char *out, const std::string &ct, bool rec = true) {
	memset(out, 0xEE, TMCG_SAEP_S0);
	hl_begin();
	bool ok = sec.decrypt(out, ct);
	std::string tab = hl_end();
	cnt.decrypt++;
	if (rec) {
		Rec r("decrypt"); sec_toks(r, sec);
		r.b(sec.sig).b(ct).t(tab).t(ok ? "V" + xb(out, TMCG_SAEP_S0) : std::string("R"));
	}
	return ok;
}
static bool do_check(TMCG_PublicKey &pub, bool rec = true) {
	hl_begin();
	bool ok = pub.check();
	std::string tab = hl_end();
	cnt.check++;
	if (rec)
		Rec("check").b(pub.name).b(pub.email).b(pub.type).z(pub.m).z(pub.y).b(pub.nizk).b(pub.sig).t(tab).t(ok ? "1" : "0");
	return ok;
}
static std::string pub_tok(const TMCG_PublicKey &k) {
	return xb(k.name) + ";" + xb(k.email) + ";" + xb(k.type) + ";" + hx(k.m) + ";" + hx(k.y) + ";" + xb(k.nizk) + ";" + xb(k.sig);
}
static bool do_import_pub(TMCG_PublicKey &k, const std::string &text) {
	bool ok = k.import(text);
	Rec("imp_pub").b(text).t(ok ? pub_tok(k) : std::string("none"));
	return ok;
}

// ---- mutation catalogue for a numeric field (C05 catalogue) ---------------------------------------------
struct Mut { std::string label, text; bool equiv; };
static std::vector<Mut> num_mutants(mpz_srcptr v, mpz_srcptr m) {
	std::vector<Mut> r; Z t, u;
	std::string sv = S(v);
	mpz_add_ui(t.v, v, 1); r.push_back({"plus1", S(t.v), false});
	mpz_sub_ui(t.v, v, 1); r.push_back({"minus1", S(t.v), false});
	gen_below(t.v, m); r.push_back({"other", S(t.v), false});
	r.push_back({"zero", "0", false});
	r.push_back({"one", "1", false});
	mpz_sub_ui(t.v, m, 1); r.push_back({"m-1", S(t.v), false});
	r.push_back({"m", S(m), false});
	mpz_add(t.v, v, m); r.push_back({"plus-m", S(t.v), true});
	r.push_back({"negated", "-" + sv, true});
	mpz_sub(t.v, m, v); r.push_back({"m-minus", S(t.v), true});
	mpz_mul_2exp(t.v, v, 1); r.push_back({"double", S(t.v), false});
	gen_bits(t.v, 2 * mpz_sizeinbase(m, 2) + 70); r.push_back({"oversized", S(t.v), false});
	mpz_mul_2exp(t.v, m, 70); mpz_add(t.v, t.v, v); r.push_back({"oversized-equiv", S(t.v), true});
	r.push_back({"trunc-tail", sv.substr(0, sv.size() - 1), false});
	r.push_back({"trunc-head", sv.substr(1), false});
	r.push_back({"trunc-half", sv.substr(0, sv.size() / 2), false});
	r.push_back({"empty", "", false});
	{ std::string g = sv; g.insert(g.size() / 2, "!"); r.push_back({"garbage", g, false}); }
	{ std::string g = sv; size_t pos = gen().below(g.size()); g[pos] = (g[pos] == 'A') ? 'B' : 'A'; r.push_back({"digit", g, false}); }
	r.push_back({"space", " " + sv, true});
	r.push_back({"plus-sign", "+" + sv, false});
	return r;
}

// ---- one key: everything -----------------------------------------------------------------------------------
static std::string random_data(size_t len, int cls) {
	std::string d(len, '\0');
	for (size_t i = 0; i < len; i++) d[i] = cls == 0 ? (char)gen().below(256) : cls == 1 ? 'a' + (char)gen().below(26) : (char)0;
	return d;
}

static void sig_tests(TMCG_SecretKey &sec, TMCG_PublicKey &pub, TMCG_SecretKey &other_sec, TMCG_PublicKey &other, bool thorough, const std::string &tag) {
	static const size_t lens[] = { 0, 1, 55, 56, 64, 1000, 19, 20, 21, 119, 120 };
	size_t nl = thorough ? 11 : 6;
	for (size_t li = 0; li < nl; li++) {
		for (int rep = 0; rep < (thorough ? 3 : 2); rep++) {
			std::string data = random_data(lens[li], rep == 2 ? 2 : (int)gen().below(2));
			std::string sg = do_sign(sec, data);
			if (!do_verify(pub, data, sg)) propfail("sign-verify/" + tag, "honest signature refused: len=" + std::to_string(lens[li]) + " data=" + xb(data) + " sig=" + sg);
			TMCG_PublicKey copy(exp(pub));   // through export/import
			if (!do_verify(copy, data, sg, false)) propfail("sign-verify-imported/" + tag, "honest signature refused by the re-imported key: data=" + xb(data) + " sig=" + sg);
			if (rep) continue;
			// the four roots: every one of them is a valid signature
			Z v, foo, r[4]; std::string kid;
			if (!frame_value(sg, kid, v.v)) { propfail("sign-format/" + tag, "signature text does not parse: " + sg); continue; }
			mpz_mul(foo.v, v.v, v.v); mpz_mod(foo.v, foo.v, sec.m);
			tmcg_mpz_sqrtmn_fast_all(r[0].v, r[1].v, r[2].v, r[3].v, foo.v, sec.p, sec.q, sec.m, sec.gcdext_up, sec.gcdext_vq, sec.pa1d4, sec.qa1d4);
			for (int k = 0; k < 4; k++) {
				std::string s4 = "sig|" + kid + "|" + S(r[k].v) + "|";
				if (!do_verify(pub, data, s4)) propfail("four-roots/" + tag, "root " + std::to_string(k) + " refused: data=" + xb(data) + " sig=" + s4);
			}
			// value mutants
			std::vector<Mut> ms = num_mutants(v.v, pub.m);
			for (auto &mu : ms) {
				std::string s2 = "sig|" + kid + "|" + mu.text + "|";
				bool ok = do_verify(pub, data, s2); cnt.mutants++;
				if (mu.equiv && !ok) propfail("verify-equivalent/" + tag + "/" + mu.label, "equivalent representation refused: data=" + xb(data) + " sig=" + s2);
				if (ok) {
					Z v2, sq; std::string k2;
					bool same = frame_value(s2, k2, v2.v);
					if (same) { mpz_mul(sq.v, v2.v, v2.v); mpz_mod(sq.v, sq.v, pub.m); same = !mpz_cmp(sq.v, foo.v); }
					if (!same) propfail("verify-value/" + mu.label, "altered signature accepted (square differs): key=" + tag + " data=" + xb(data) + " sig=" + s2);
				}
			}
			// frame / key id mutants
			std::vector<std::string> fm;
			std::string val = S(v.v), idv = kid.substr(kid.find('^') + 1);
			fm.push_back("sgi|" + kid + "|" + val + "|"); fm.push_back("enc|" + kid + "|" + val + "|"); fm.push_back("|" + kid + "|" + val + "|");
			fm.push_back("sig|" + kid + "|" + val); fm.push_back("sig|" + val + "|" + kid + "|"); fm.push_back("sig||" + val + "|");
			fm.push_back("sig|" + kid + "||" + val + "|"); fm.push_back("sig|" + kid + "|" + val + "|trailing|"); fm.push_back("sig" + kid + "|" + val + "|");
			fm.push_back("sig|ID0^|" + val + "|"); fm.push_back("sig|ID4^" + idv.substr(idv.size() - 4) + "|" + val + "|");
			fm.push_back("sig|ID8^XXXXXXXX|" + val + "|"); fm.push_back("sig|ID7^" + idv + "|" + val + "|"); fm.push_back("sig|ID9^" + idv + "|" + val + "|");
			fm.push_back("sig|ERROR|" + val + "|"); fm.push_back("sig|ID^|" + val + "|"); fm.push_back("sig|IDx^" + idv + "|" + val + "|");
			fm.push_back("sig|ID18446744073709551624^" + idv + "|" + val + "|"); fm.push_back("sig|ID-8^" + idv + "|" + val + "|");
			fm.push_back("sig|ID 8^" + idv + "|" + val + "|"); fm.push_back("sig|ID08^" + idv + "|" + val + "|"); fm.push_back("sig|id8^" + idv + "|" + val + "|");
			fm.push_back("sig|" + other.keyid() + "|" + val + "|"); fm.push_back(""); fm.push_back("sig|"); fm.push_back("sig|" + kid + "|");
			{ std::string t = sg; t[gen().below(t.size())] ^= 1; fm.push_back(t); }
			{ std::string t = sg; fm.push_back(t.substr(0, gen().below(t.size()))); }
			for (auto &s2 : fm) {
				bool ok = do_verify(pub, data, s2); cnt.mutants++;
				if (ok) {
					Z v2, sq; std::string k2;
					bool same = frame_value(s2, k2, v2.v) && s2.substr(0, 4) == "sig|";
					if (same) { mpz_mul(sq.v, v2.v, v2.v); mpz_mod(sq.v, sq.v, pub.m); same = !mpz_cmp(sq.v, foo.v); }
					if (!same) propfail("verify-frame", "altered signature accepted (square differs or frame broken): key=" + tag + " data=" + xb(data) + " sig=" + s2);
					else if (!kid_abbrev(k2, pub.sig)) propfail("verify-keyid", "signature with a foreign key id accepted: key=" + tag + " sig=" + s2);
				}
			}
			// the three fields of the padded value (w, r*, gamma) altered one at a time, square root recomputed with the secret key
			{ size_t mn = mpz_sizeinbase(sec.m, 2) / 8, mdl = tmcg_mpz_shash_len();
			  std::vector<unsigned char> yy(mn, 0); size_t c = 1;
			  if (mpz_sizeinbase(foo.v, 2) <= 8 * mn && mpz_sgn(foo.v)) {
			    mpz_export(yy.data(), &c, -1, mn, 1, 0, foo.v);
			    size_t lo[3] = { 0, mdl, mdl + TMCG_PRAB_K0 }, hi[3] = { mdl, mdl + TMCG_PRAB_K0, mn };
			    static const char *fn[3] = { "w", "r", "gamma" };
			    for (int fld = 0; fld < 3; fld++) {
			      // three mutants per field: in its last byte, in its first byte (comparisons of a prefix/suffix only), at a random place
			      for (int phase = 0; phase < 3; phase++) {
			        bool done = false;
			        for (int tr = 0; tr < 40 && !done; tr++) {
			          std::vector<unsigned char> y2 = yy;
			          size_t pos = phase == 0 ? hi[fld] - 1 : phase == 1 ? lo[fld] : lo[fld] + gen().below(hi[fld] - lo[fld]);
			          y2[pos] ^= (unsigned char)(phase < 2 ? tr + 1 : (1u << gen().below(8)));
			          Z f2, q0, q1, q2, q3;
			          mpz_import(f2.v, 1, -1, mn, 1, 0, y2.data());
			          if (!tmcg_mpz_qrmn_p(f2.v, sec.p, sec.q)) continue;
			          tmcg_mpz_sqrtmn_fast_all(q0.v, q1.v, q2.v, q3.v, f2.v, sec.p, sec.q, sec.m, sec.gcdext_up, sec.gcdext_vq, sec.pa1d4, sec.qa1d4);
			          std::string s5 = "sig|" + kid + "|" + S(q0.v) + "|";
			          cnt.mutants++; done = true;
			          if (do_verify(pub, data, s5)) propfail(std::string("verify-field/") + fn[fld], "signature with an altered padded value accepted (byte " + std::to_string(pos) + "): key=" + tag + " data=" + xb(data) + " sig=" + s5);
			        }
			      }
			    }
			  }
			}
			// different data
			std::vector<std::string> od;
			od.push_back(data + "x"); od.push_back(data + std::string(1, '\0'));
			if (!data.empty()) { od.push_back(data.substr(0, data.size() - 1)); od.push_back(data.substr(1)); std::string t = data; t[gen().below(t.size())] ^= 0x20; od.push_back(t); od.push_back(""); }
			od.push_back(random_data(lens[li], 0));
			for (auto &d2 : od) {
				if (d2 == data) continue;
				if (do_verify(pub, d2, sg)) propfail("verify-otherdata", "signature accepted for different data: key=" + tag + " signed=" + xb(data) + " checked=" + xb(d2) + " sig=" + sg);
			}
			// different key (as is, and with the key id patched to the other key's id)
			if (do_verify(other, data, sg)) propfail("verify-otherkey", "signature accepted under a different key: sig=" + sg);
			{ std::string s2 = "sig|" + other.keyid() + "|" + val + "|";
			  if (do_verify(other, data, s2)) propfail("verify-otherkey", "signature accepted under a different key (key id patched): sig=" + s2); }
			// regression for fix 5f58cf8 (stale export buffer): a value with zero square right after a valid verification of the same data
			{ std::string zs = "sig|" + kid + "|" + std::string(S(v.v).size(), '0') + "|", ms = "sig|" + kid + "|" + S(pub.m) + "|";   // same text length: same allocation pattern
			  bool a = pub.verify(data, sg), z = pub.verify(data, zs), a2 = pub.verify(data, sg), zm = pub.verify(data, ms);
			  cnt.verify += 4;
			  if (a && a2 && (z || zm)) propfail("verify-zero-stale-buffer", "signature value with zero square (0 or m) accepted right after a valid verification of the same data: key=" + tag + " bits=" + std::to_string(mpz_sizeinbase(pub.m, 2)) + " data=" + xb(data) + " valid=" + sg + " forged=" + (z ? zs : ms));
			}
		}
	}
	(void)other_sec;
}

static void enc_tests(TMCG_SecretKey &sec, TMCG_PublicKey &pub, TMCG_SecretKey &other_sec, bool thorough, const std::string &tag) {
	unsigned char v[TMCG_SAEP_S0], o[TMCG_SAEP_S0];
	int classes = thorough ? 8 : 5;
	for (int c = 0; c < classes; c++) {
		if (c == 0) memset(v, 0, sizeof v); else if (c == 1) memset(v, 0xFF, sizeof v);
		else for (size_t i = 0; i < sizeof v; i++) v[i] = (unsigned char)gen().below(256);
		if (c == 3) { memset(v, 0, sizeof v); v[19] = 1; }
		std::string ct = do_encrypt(pub, v);
		bool ok = do_decrypt(sec, o, ct);
		if (!ok || memcmp(o, v, sizeof v)) propfail("encrypt-decrypt/" + tag, std::string("decryption ") + (ok ? "returned other bytes " + xb(o, sizeof o) : "failed") + ": value=" + xb(v, sizeof v) + " ct=" + ct);
		{ TMCG_SecretKey copy(exp(sec)); bool ok2 = do_decrypt(copy, o, ct, false);
		  if (!ok2 || memcmp(o, v, sizeof v)) propfail("encrypt-decrypt-imported/" + tag, "decryption with the re-imported secret key failed: ct=" + ct); }
		if (c >= 3 && !thorough) continue;
		Z cv; std::string kid;
		if (!frame_value(ct, kid, cv.v)) { propfail("encrypt-format/" + tag, "ciphertext does not parse: " + ct); continue; }
		std::vector<Mut> ms = num_mutants(cv.v, pub.m);
		std::vector<std::string> texts;
		for (auto &mu : ms) texts.push_back("enc|" + kid + "|" + mu.text + "|");
		std::string val = S(cv.v);
		texts.push_back("sig|" + kid + "|" + val + "|"); texts.push_back("enc|" + val + "|" + kid + "|"); texts.push_back("enc||" + val + "|");
		texts.push_back("enc|" + kid + "|" + val); texts.push_back("enc|ID0^|" + val + "|"); texts.push_back("enc|ID8^XXXXXXXX|" + val + "|");
		texts.push_back("enc|" + kid + "|" + val + "|x"); texts.push_back(""); texts.push_back("enc|" + kid + "||");
		{ std::string t = ct; t[gen().below(t.size())] ^= 1; texts.push_back(t); }
		{ std::string t = ct; texts.push_back(t.substr(0, gen().below(t.size()))); }
		for (auto &t : texts) {
			bool ok2 = do_decrypt(sec, o, t); cnt.mutants++;
			if (ok2) {
				Z v2, d; std::string k2;
				bool same = frame_value(t, k2, v2.v) && t.substr(0, 4) == "enc|";
				if (same) { mpz_sub(d.v, v2.v, cv.v); same = mpz_divisible_p(d.v, pub.m); }
				if (!same) propfail("decrypt-mutant", "altered ciphertext accepted: key=" + tag + " ct=" + t + " original=" + ct + " out=" + xb(o, sizeof o));
				else if (memcmp(o, v, sizeof v)) propfail("decrypt-mutant-value", "equivalent ciphertext decrypts to other bytes: ct=" + t);
				else if (!kid_abbrev(k2, pub.sig)) propfail("decrypt-keyid", "ciphertext with a foreign key id accepted: " + t);
			}
		}
		if (do_decrypt(other_sec, o, ct)) propfail("decrypt-otherkey", "ciphertext accepted by a different key: ct=" + ct);
		{ std::string t = "enc|" + other_sec.keyid() + "|" + val + "|";
		  if (do_decrypt(other_sec, o, t) && !memcmp(o, v, sizeof v)) propfail("decrypt-otherkey", "ciphertext decrypted by a different key (key id patched): ct=" + t); }
	}
}

// self-signature as generate() makes it
static void resign(TMCG_SecretKey &sec) {
	std::ostringstream data, repl;
	sec.sig = "";
	data << sec.name << "|" << sec.email << "|" << sec.type << "|" << sec.m << "|" << sec.y << "|" << sec.nizk << "|";
	sec.sig = do_sign(sec, data.str(), false);
	repl << "ID" << TMCG_KEYID_SIZE << "^";
	sec.sig.replace(sec.sig.find(repl.str()), (repl.str()).length() + TMCG_KEYID_SIZE, sec.keyid());
}

static void key_tests(TMCG_SecretKey &sec, TMCG_PublicKey &pub, bool nizk, bool thorough, bool recnizk, const std::string &tag) {
	// accepted as generated and after export/import (a full validity-proof record costs the model about a minute: see docs)
	if (!do_check(pub, recnizk || !nizk)) propfail("check-generated/" + tag, "generated key refused by check(): " + exp(pub).substr(0, 200));
	std::string text = exp(pub);
	Rec("exp_pub").t(pub_tok(pub)).b(text);
	{ TMCG_PublicKey k2; if (!do_import_pub(k2, text) || !do_check(k2, false)) propfail("check-imported/" + tag, "exported/imported key refused"); }
	{ std::string st = exp(sec); Rec r("exp_sec"); r.t(pub_tok(pub)).z(sec.p).z(sec.q).b(st);
	  TMCG_SecretKey s2; bool ok = s2.import(st);
	  Rec("imp_sec").b(st).t(ok ? pub_tok(TMCG_PublicKey(s2)) + ";" + hx(s2.p) + ";" + hx(s2.q) : std::string("none"));
	  if (!ok || !s2.check()) propfail("check-imported-sec/" + tag, "exported/imported secret key refused");
	  std::vector<std::string> f = split(st, '|');   // sec|name|email|type|m|y|p|q|nizk|sig|kid|val|
	  std::vector<std::string> ts;
	  { auto g = f; std::swap(g[6], g[7]); ts.push_back(join(g, '|')); }
	  { auto g = f; g[0] = "pub"; ts.push_back(join(g, '|')); }
	  { auto g = f; g[6] = g[7]; ts.push_back(join(g, '|')); }
	  { auto g = f; g[5] = g[6]; ts.push_back(join(g, '|')); }
	  { auto g = f; g[7] += "!"; ts.push_back(join(g, '|')); }
	  { auto g = f; g[6] = "-" + g[6]; ts.push_back(join(g, '|')); }
	  ts.push_back(st.substr(0, st.size() / 3)); ts.push_back(join(std::vector<std::string>(f.begin(), f.begin() + 8), '|'));
	  for (auto &t : ts) { TMCG_SecretKey s3; bool ok3 = s3.import(t);
	    Rec("imp_sec").b(t).t(ok3 ? pub_tok(TMCG_PublicKey(s3)) + ";" + hx(s3.p) + ";" + hx(s3.q) : std::string("none")); }
	}
	// key id functions
	{ static const char *ks[] = { "", "ID", "ID8^", "ID8^abcdefgh", "ID8^abcdefg", "ID08^abcdefgh", "ID 8^abcdefgh", "ID+8^abcdefgh", "ID-8^abcdefgh", "IDx^a", "ID0^", "ID1^^", "ID3^a^b",
	    "XD8^abcdefgh", "ID8abcdefgh", "ERROR", "ID18446744073709551616^a", "ID18446744073709551617^a", "ID^abc", "ID2^ab|", "I", "ID9", "ID00000000000000000000000001^a", "ID1 ^a", "ID1x^a", "ID\t1^a" };
	  for (auto s : ks) Rec("keyid_size").b(s).u(pub.keyid_size(s));
	  static const size_t sz[] = { 0, 1, 5, 8, 9, 20, 1000, 100000 };
	  for (auto n : sz) Rec("keyid").u(n).b(pub.sig).b(pub.keyid(n));
	  static const char *sg[] = { "", "sig|a|b|", "sig|a|b", "sig|a", "sig", "sig|", "sgi|a|b|", "sig||b|", "sig|a||", "sig|a|ERROR|", "sig|a|0123456789abcdefghij|", "x", "sig|a|b|c|d|" };
	  for (auto s : sg) { TMCG_PublicKey k3(pub); k3.sig = s; for (auto n : sz) Rec("keyid").u(n).b(k3.sig).b(k3.keyid(n)); }
	}
	// public key text mutants: pub|name|email|type|m|y|nizk|sig|kid|val|
	std::vector<std::string> f = split(text, '|');
	if (f.size() != 11) { propfail("key-format/" + tag, "unexpected number of fields in the key text"); return; }
	std::vector<std::pair<std::string, std::string> > kt;
	{ auto g = f; g[1] += "x"; kt.push_back({"name", join(g, '|')}); }
	{ auto g = f; g[1] = ""; kt.push_back({"name", join(g, '|')}); }
	{ auto g = f; g[2] = g[2].substr(1); kt.push_back({"email", join(g, '|')}); }
	{ auto g = f; std::swap(g[1], g[2]); kt.push_back({"swap-name-email", join(g, '|')}); }
	{ auto g = f; g[3] += "X"; kt.push_back({"type", join(g, '|')}); }
	{ auto g = f; g[3] = nizk ? g[3].substr(0, g[3].size() - 5) : g[3] + "_NIZK"; kt.push_back({"type-nizk", join(g, '|')}); }
	{ auto g = f; g[3] = "NIZK"; kt.push_back({"type", join(g, '|')}); }
	for (auto &mu : num_mutants(pub.m, pub.m)) { if (mu.label == "space") continue; auto g = f; g[4] = mu.text; kt.push_back({"m-" + mu.label, join(g, '|')}); }
	{ Z t; mpz_add_ui(t.v, pub.m, 2); auto g = f; g[4] = S(t.v); kt.push_back({"m-plus2", join(g, '|')}); mpz_mul_ui(t.v, pub.m, 3); g[4] = S(t.v); kt.push_back({"m-times3", join(g, '|')});
	  mpz_set(t.v, sec.p); g[4] = S(t.v); kt.push_back({"m-prime-factor", join(g, '|')}); mpz_mul(t.v, sec.p, sec.p); g[4] = S(t.v); kt.push_back({"m-square", join(g, '|')}); }
	for (auto &mu : num_mutants(pub.y, pub.m)) { if (mu.label == "space") continue; auto g = f; g[5] = mu.text; kt.push_back({"y-" + mu.label, join(g, '|')}); }
	{ Z t; mpz_mul_ui(t.v, pub.y, 4); auto g = f; g[5] = S(t.v); kt.push_back({"y-times-square", join(g, '|')}); g[5] = "4"; kt.push_back({"y-square", join(g, '|')}); std::swap(g[4], g[5]); g[5] = f[4]; g[4] = f[5]; kt.push_back({"swap-m-y", join(g, '|')}); }
	{ auto g = f; g[6] = ""; kt.push_back({"nizk-empty", join(g, '|')}); }
	{ auto g = f; g[6] = g[6].substr(0, g[6].size() / 2); kt.push_back({"nizk-trunc", join(g, '|')}); }
	{ auto g = f; g[6][gen().below(g[6].size())] ^= 1; kt.push_back({"nizk-flip", join(g, '|')}); }
	{ auto g = f; g[6] = "nzk^1^2^3^"; kt.push_back({"nizk-small", join(g, '|')}); }
	{ Z v; mpz_set_str(v.v, f[9].c_str(), TMCG_MPZ_IO_BASE);
	  for (auto &mu : num_mutants(v.v, pub.m)) { if (mu.equiv) continue; auto g = f; g[9] = mu.text; kt.push_back({"sig-" + mu.label, join(g, '|')}); }
	  auto g = f; g[8] = "ID8^XXXXXXXX"; kt.push_back({"sig-kid", join(g, '|')});
	  g = f; g[7] = "sgi"; kt.push_back({"sig-magic", join(g, '|')});
	  g = f; g.resize(7); kt.push_back({"sig-missing", join(g, '|') + "|"});
	  g = f; g.resize(9); kt.push_back({"sig-cut", join(g, '|')});
	  g = f; std::swap(g[8], g[9]); kt.push_back({"sig-swapped", join(g, '|')}); }
	{ auto g = f; g[0] = "sec"; kt.push_back({"magic", join(g, '|')}); }
	{ auto g = f; g.erase(g.begin() + 2); kt.push_back({"field-missing", join(g, '|')}); }
	kt.push_back({"cut", text.substr(0, gen().below(text.size()))});
	for (auto &m : kt) {
		if (m.second == text) continue;          // a catalogue entry that is the original value
		TMCG_PublicKey k2; cnt.mutants++;
		if (!do_import_pub(k2, m.second)) continue;
		if (!mpz_sgn(k2.m)) continue;          // jacobi / probab_prime on zero: outside what check() is called on (import refuses nothing here)
		if (do_check(k2)) propfail("check-mutant/" + m.first, "altered key accepted by check(): key=" + tag + " text=" + m.second.substr(0, 300));
	}
	// non-residue replaced by the key owner (self-signature recomputed): Jacobi symbol -1, and a plain square
	for (int which = 0; which < 2; which++) {
		TMCG_SecretKey s2(sec);
		if (which == 0) { mpz_set_ui(s2.y, 2); while (mpz_jacobi(s2.y, s2.m) != -1) mpz_add_ui(s2.y, s2.y, 1); }
		else mpz_set_ui(s2.y, 4);
		if (!mpz_cmp(s2.y, sec.y)) continue;
		resign(s2);
		TMCG_PublicKey p2(s2); cnt.mutants++;
		bool ok = do_check(p2, !nizk || which == 0);
		if (which == 0 && ok) propfail("check-y-jacobi", "key whose y has Jacobi symbol -1 (self-signature recomputed) accepted: key=" + tag + " y=" + S(s2.y));
		if (which == 1 && nizk && ok) propfail("check-y-square", "NIZK key whose y is a square (self-signature recomputed) accepted: key=" + tag);
	}
	if (!nizk) return;
	// validity proof altered by the key owner (self-signature recomputed): the stage checks themselves must refuse
	std::vector<std::string> z = split(sec.nizk, '^');     // nzk, n1, r.., n2, r.., n3, r.., ""
	size_t n1 = TMCG_KEY_NIZK_STAGE1, n2 = TMCG_KEY_NIZK_STAGE2, n3 = TMCG_KEY_NIZK_STAGE3;
	if (z.size() != 1 + 1 + n1 + 1 + n2 + 1 + n3 + 1) { propfail("nizk-format/" + tag, "unexpected proof layout"); return; }
	size_t h1 = 1, h2 = 2 + n1, h3 = 3 + n1 + n2;
	struct NM { std::string label; std::vector<std::string> z; bool must_refuse; bool rec; };
	std::vector<NM> nm;
	nm.push_back({"honest", z, false, false});
	auto lower = [&](size_t h, size_t n, const char *lab, bool rec) { auto g = z; g[h] = std::to_string(n - 1); g.erase(g.begin() + h + n); nm.push_back({lab, g, true, rec}); };
	lower(h1, n1, "stage1-fewer-rounds", recnizk); lower(h2, n2, "stage2-fewer-rounds", recnizk && thorough); lower(h3, n3, "stage3-fewer-rounds", recnizk && thorough);
	{ auto g = z; g[h1] = "1"; g.erase(g.begin() + h1 + 2, g.begin() + h1 + 1 + n1); nm.push_back({"stage1-one-round", g, true, false}); }
	{ auto g = z; g[h2] = "0"; g.erase(g.begin() + h2 + 1, g.begin() + h2 + 1 + n2); nm.push_back({"stage2-zero-rounds", g, true, false}); }
	{ auto g = z; g[h3] = "64"; g.erase(g.begin() + h3 + 1 + 64, g.begin() + h3 + 1 + n3); nm.push_back({"stage3-half-rounds", g, true, false}); }
	{ auto g = z; g[h1] = std::to_string(n1 + 1); nm.push_back({"stage1-counter-raised", g, true, false}); }
	{ auto g = z; g[h3] = "0128x"; nm.push_back({"stage3-counter-garbage", g, true, false}); }
	auto bump = [&](size_t idx, const char *lab, bool rec) { auto g = z; Z t; mpz_set_str(t.v, g[idx].c_str(), TMCG_MPZ_IO_BASE); mpz_add_ui(t.v, t.v, 1); g[idx] = S(t.v); nm.push_back({lab, g, true, rec}); };
	bump(h1 + 1, "stage1-first-response", recnizk); bump(h1 + n1, "stage1-last-response", false);
	bump(h2 + 1 + gen().below(n2), "stage2-response", recnizk && thorough); bump(h3 + n3, "stage3-last-response", recnizk); bump(h3 + 1 + gen().below(n3), "stage3-response", false);
	{ auto g = z; std::swap(g[h1 + 1], g[h1 + 2]); nm.push_back({"stage1-swapped-responses", g, true, false}); }
	{ auto g = z; std::swap(g[h2 + 3], g[h2 + 4]); nm.push_back({"stage2-swapped-responses", g, true, false}); }
	{ auto g = z; g[h2 + 5] = "0"; nm.push_back({"stage2-zero-response", g, true, false}); }
	{ auto g = z; g[h3 + 5] = "1"; nm.push_back({"stage3-one-response", g, true, false}); }
	{ auto g = z; g[h2 + 2] = "-" + g[h2 + 2]; nm.push_back({"stage2-negated-response", g, false, recnizk && thorough}); }
	{ auto g = z; g[h1 + 2] = "-" + g[h1 + 2]; nm.push_back({"stage1-negated-response", g, true, false}); }
	{ auto g = z; g[0] = "nzx"; nm.push_back({"magic", g, true, false}); }
	{ auto g = z; g.resize(g.size() - 2); g.push_back(""); nm.push_back({"last-response-missing", g, true, false}); }
	size_t nmi = 0;
	for (auto &m : nm) {
		if (!recnizk && !thorough && (nmi++ % 4) != 1) continue;      // quick tier: every fourth entry for keys other than the first
		TMCG_SecretKey s2(sec);
		s2.nizk = join(m.z, '^');
		resign(s2);
		TMCG_PublicKey p2(s2); cnt.mutants++;
		bool ok = do_check(p2, m.rec);
		if (m.label == "honest" && !ok) propfail("check-resigned/" + tag, "re-signed unchanged key refused");
		if (m.must_refuse && ok) propfail("check-nizk/" + m.label, "key with altered validity proof (self-signature recomputed) accepted: key=" + tag + " nizk=" + s2.nizk.substr(0, 120) + "...");
	}
}


// ---- mutation grid over the validity proof, self-signature recomputed by the key owner ------------------------------
// every (sampled: quick / all: thorough) response position of the three stages x catalogue; a mutant is "equivalent" when the
// stage equation cannot tell it from the original (value+m everywhere; negated value in stages 2 and 3: same square).
// Stage 1: x -> x^m is a permutation of Z_m^*, so a response that is not congruent to the original is refused with certainty;
// stages 2/3: a non-equivalent response passes only if a hash-derived challenge satisfies a fixed algebraic relation
// (at most 16 of the phi(m) challenges: probability < 2^-400 for the moduli used).
static void nizk_grid(TMCG_SecretKey &sec, bool thorough, size_t worker, size_t nworkers, const std::string &tag) {
	std::vector<std::string> z = split(sec.nizk, '^');
	size_t n[3] = { TMCG_KEY_NIZK_STAGE1, TMCG_KEY_NIZK_STAGE2, TMCG_KEY_NIZK_STAGE3 };
	if (z.size() != 1 + 1 + n[0] + 1 + n[1] + 1 + n[2] + 1) { propfail("nizk-format/" + tag, "unexpected proof layout"); return; }
	size_t h[3] = { 1, 2 + n[0], 3 + n[0] + n[1] };
	static const char *cat[] = { "plus1", "zero", "one", "m-1", "m", "plus-m", "negated", "swap", "drop", "duplicate" };
	size_t job = 0, done = 0, accepted_equiv = 0;
	for (int st = 0; st < 3; st++) {
		for (size_t i = 0; i < n[st]; i++) {
			if (!thorough && st > 0 && !(i == 0 || i + 1 == n[st] || i % 8 == 3)) continue;
			for (int c = 0; c < 10; c++) {
				if ((job++ % nworkers) != worker) continue;
				std::vector<std::string> g = z; size_t pos = h[st] + 1 + i;
				Z v, t; mpz_set_str(v.v, g[pos].c_str(), TMCG_MPZ_IO_BASE);
				bool equiv = false;
				switch (c) {
				case 0: mpz_add_ui(t.v, v.v, 1); g[pos] = S(t.v); break;
				case 1: g[pos] = "0"; break;
				case 2: g[pos] = "1"; break;
				case 3: mpz_sub_ui(t.v, sec.m, 1); g[pos] = S(t.v); break;
				case 4: g[pos] = S(sec.m); break;
				case 5: mpz_add(t.v, v.v, sec.m); g[pos] = S(t.v); equiv = true; break;
				case 6: g[pos] = "-" + g[pos]; equiv = (st > 0); break;
				case 7: { size_t o = (i + 1 < n[st]) ? pos + 1 : pos - 1; if (g[o] == g[pos]) equiv = true; std::swap(g[o], g[pos]); break; }
				case 8: g.erase(g.begin() + pos); break;
				case 9: g.insert(g.begin() + pos, g[pos]); equiv = (st == 2 && i + 1 == n[2]); break;   // after the last round: trailing text, never read
				}
				if (g == z) continue;
				TMCG_SecretKey s2(sec);
				s2.nizk = join(g, '^');
				resign(s2);
				TMCG_PublicKey p2(s2); cnt.mutants++; done++;
				bool ok = do_check(p2, worker == 0 && st == 0 && i == 0);       // the first stage-1 position is also model-compared (cheap records)
				if (ok && equiv) accepted_equiv++;
				if (ok && !equiv) propfail(std::string("check-nizk-grid/stage") + std::to_string(st + 1) + "/" + cat[c],
					"key with altered validity proof (self-signature recomputed) accepted: key=" + tag + " stage " + std::to_string(st + 1) + " round " + std::to_string(i) + " mutation " + cat[c] + " value=" + g[pos < g.size() ? pos : g.size() - 1]);
			}
		}
	}
	fprintf(stderr, "[c10] nizk grid worker %zu/%zu: %zu re-signed mutants checked, %zu equivalent ones accepted\n", worker, nworkers, done, accepted_equiv);
}

// ---- owner-made defective keys: own prover and signer (copies of generate()/sign()) for a given factorisation -------------
struct Owner {
	std::vector<Z> pr; std::vector<unsigned> ex;      // m = prod pr[i]^ex[i], ex[i] in {1,2}
	Z m, y, phi;
	void finish() {
		mpz_set_ui(m.v, 1); mpz_set_ui(phi.v, 1); Z t;
		for (size_t i = 0; i < pr.size(); i++) for (unsigned e = 0; e < ex[i]; e++) {
			mpz_mul(m.v, m.v, pr[i].v);
			if (e == 0) { mpz_sub_ui(t.v, pr[i].v, 1); mpz_mul(phi.v, phi.v, t.v); } else mpz_mul(phi.v, phi.v, pr[i].v);
		}
	}
	bool qr(mpz_srcptr a) const { for (auto &p : pr) if (mpz_jacobi(a, p.v) != 1) return false; return true; }
	// a square root of the residue a modulo m (Hensel step for squared primes, CRT)
	void root(mpz_ptr r, mpz_srcptr a) const {
		Z x, N, ri, ni, t, u; mpz_set_ui(x.v, 0); mpz_set_ui(N.v, 1);
		for (size_t i = 0; i < pr.size(); i++) {
			mpz_mod(t.v, a, pr[i].v);
			tmcg_mpz_sqrtmp_r(ri.v, t.v, pr[i].v);
			mpz_set(ni.v, pr[i].v);
			if (ex[i] == 2) {
				mpz_mul(ni.v, ni.v, pr[i].v);
				mpz_mul(t.v, ri.v, ri.v); mpz_sub(t.v, t.v, a);            // r^2 - a
				mpz_mul_2exp(u.v, ri.v, 1); mpz_invert(u.v, u.v, ni.v);    // (2r)^-1
				mpz_mul(t.v, t.v, u.v); mpz_sub(ri.v, ri.v, t.v); mpz_mod(ri.v, ri.v, ni.v);
			}
			mpz_sub(t.v, ri.v, x.v); mpz_invert(u.v, N.v, ni.v); mpz_mul(t.v, t.v, u.v); mpz_mod(t.v, t.v, ni.v);
			mpz_mul(t.v, t.v, N.v); mpz_add(x.v, x.v, t.v); mpz_mul(N.v, N.v, ni.v);
		}
		mpz_mod(r, x.v, m.v);
	}
	void challenge(mpz_ptr foo, std::ostringstream &input, unsigned char *mn, size_t mnsize, bool jac) const {
		Z bar;
		do {
			tmcg_g(mn, mnsize, (unsigned char*)(input.str()).c_str(), (input.str()).length());
			mpz_import(foo, 1, -1, mnsize, 1, 0, mn); mpz_mod(foo, foo, m.v); mpz_gcd(bar.v, foo, m.v);
			input << foo;
		} while (jac ? (mpz_jacobi(foo, m.v) != 1) : (mpz_cmp_ui(bar.v, 1UL) != 0));
	}
	std::string prove() const {
		std::ostringstream nizk2, input; Z foo, bar, d;
		input << m.v << "^" << y.v; nizk2 << "nzk^";
		size_t mnsize = mpz_sizeinbase(m.v, 2UL) / 8; std::vector<unsigned char> mn(mnsize + 1);
		bool dok = mpz_invert(d.v, m.v, phi.v) != 0;
		nizk2 << TMCG_KEY_NIZK_STAGE1 << "^";
		for (size_t i = 0; i < TMCG_KEY_NIZK_STAGE1; i++) {
			challenge(foo.v, input, mn.data(), mnsize, false);
			if (dok) mpz_powm(bar.v, foo.v, d.v, m.v); else mpz_set_ui(bar.v, 0);
			nizk2 << bar.v << "^";
		}
		nizk2 << TMCG_KEY_NIZK_STAGE2 << "^";
		for (size_t i = 0; i < TMCG_KEY_NIZK_STAGE2; i++) {
			challenge(foo.v, input, mn.data(), mnsize, false);
			mpz_set_ui(bar.v, 0);
			if (qr(foo.v)) root(bar.v, foo.v);
			else { mpz_neg(foo.v, foo.v);
				if (qr(foo.v)) root(bar.v, foo.v);
				else { mpz_mul_2exp(foo.v, foo.v, 1UL);
					if (qr(foo.v)) root(bar.v, foo.v);
					else { mpz_neg(foo.v, foo.v); if (qr(foo.v)) root(bar.v, foo.v); } } }
			nizk2 << bar.v << "^";
		}
		nizk2 << TMCG_KEY_NIZK_STAGE3 << "^";
		for (size_t i = 0; i < TMCG_KEY_NIZK_STAGE3; i++) {
			challenge(foo.v, input, mn.data(), mnsize, true);
			if (!qr(foo.v)) { mpz_mul(foo.v, foo.v, y.v); mpz_mod(foo.v, foo.v, m.v); }
			mpz_set_ui(bar.v, 0);
			if (qr(foo.v)) root(bar.v, foo.v);
			nizk2 << bar.v << "^";
		}
		return nizk2.str();
	}
	// PRab signature as TMCG_SecretKey::sign makes it, key id as generate() patches it
	std::string selfsign(const std::string &data) const {
		size_t mdsize = tmcg_mpz_shash_len(), mnsize = mpz_sizeinbase(m.v, 2UL) / 8; Z foo, s;
		do {
			std::vector<unsigned char> r(TMCG_PRAB_K0), Mr(data.size() + TMCG_PRAB_K0), w(mdsize), g12(mnsize), yy(mnsize);
			for (auto &b : r) b = (unsigned char)gen().below(256);
			memcpy(Mr.data(), data.data(), data.size()); memcpy(Mr.data() + data.size(), r.data(), TMCG_PRAB_K0);
			tmcg_h(w.data(), Mr.data(), Mr.size());
			tmcg_g(g12.data(), mnsize - mdsize, w.data(), mdsize);
			for (size_t i = 0; i < TMCG_PRAB_K0; i++) r[i] ^= g12[i];
			memcpy(yy.data(), w.data(), mdsize); memcpy(yy.data() + mdsize, r.data(), TMCG_PRAB_K0);
			memcpy(yy.data() + mdsize + TMCG_PRAB_K0, g12.data() + TMCG_PRAB_K0, mnsize - mdsize - TMCG_PRAB_K0);
			mpz_import(foo.v, 1, -1, mnsize, 1, 0, yy.data());
		} while (!qr(foo.v));
		root(s.v, foo.v);
		std::string val = S(s.v);
		return "sig|ID8^" + val.substr(val.size() >= 8 ? val.size() - 8 : 0) + "|" + val + "|";
	}
	void publish(TMCG_PublicKey &k) const {
		k.name = "Mallory"; k.email = "mallory@example.org";
		k.type = "TMCG/RABIN_" + std::to_string(mpz_sizeinbase(m.v, 2) - 1) + "_NIZK";
		mpz_set(k.m, m.v); mpz_set(k.y, y.v); k.nizk = prove();
		std::ostringstream data; data << k.name << "|" << k.email << "|" << k.type << "|" << k.m << "|" << k.y << "|" << k.nizk << "|";
		k.sig = selfsign(data.str());
	}
};
static void gen_prime(mpz_ptr p, unsigned bits, unsigned long res8) {
	do { gen_bits(p, bits); mpz_setbit(p, bits - 1); mpz_nextprime(p, p); } while (mpz_fdiv_ui(p, 8) != res8 || mpz_sizeinbase(p, 2) != bits);
}
// smallest y >= 2 with Jacobi symbol -1 modulo each of the first two primes and +1 modulo the others (a non-residue with Jacobi symbol 1)
static void pick_y(Owner &o) {
	mpz_set_ui(o.y.v, 1);
	for (;;) {
		mpz_add_ui(o.y.v, o.y.v, 1); bool good = true;
		for (size_t i = 0; i < o.pr.size() && good; i++) good = (mpz_jacobi(o.y.v, o.pr[i].v) == ((i < 2 && o.pr.size() > 1) ? -1 : 1));
		if (o.pr.size() == 1) good = mpz_jacobi(o.y.v, o.pr[0].v) == 1 && mpz_cmp_ui(o.y.v, 4) > 0;
		if (good) return;
	}
}
static void owner_keys(bool thorough) {
	struct Case { const char *label; std::vector<unsigned long> res8; std::vector<unsigned> bits, ex; int y_mode; int expect; const char *bound; };
	// expect: 1 = must be accepted (control), 0 = must be refused, -1 = observation only (check() has no means to refuse)
	std::vector<Case> cs = {
		{"control-blum-3-7",       {3, 7},    {215, 215},      {1, 1},    0, 1,  ""},
		{"both-3-mod-8",           {3, 3},    {215, 215},      {1, 1},    0, 0,  "2^-128 (stage 2: each round fails with probability 1/2)"},
		{"both-7-mod-8",           {7, 7},    {215, 215},      {1, 1},    0, 0,  "2^-128 (stage 2)"},
		{"p-1-mod-8",              {1, 3},    {215, 215},      {1, 1},    0, 0,  "2^-128 (stage 2: no multiplier changes the residuosity modulo p)"},
		{"three-primes",           {3, 7, 3}, {145, 145, 145}, {1, 1, 1}, 0, 0,  "2^-128 (stage 2: at most 4 of the 8 residuosity patterns have a square among +-c, +-2c)"},
		{"prime-power-p2q",        {3, 7},    {145, 145},      {2, 1},    0, 0,  "p^-16 < 2^-2300 (stage 1: m-th roots exist for a fraction 1/p of the challenges)"},
		{"prime-square",           {3},       {215},           {2},       0, 0,  "p^-16 (stage 1)"},
		{"y-is-a-square",          {3, 7},    {215, 215},      {1, 1},    1, 0,  "2^-128 (stage 3: challenges that are non-residues modulo both primes have no answer)"},
		{"y-jacobi-one-residue",   {3, 7},    {215, 215},      {1, 1},    2, 0,  "2^-128 (stage 3)"},
		{"non-blum-p-5-mod-8",     {5, 3},    {215, 215},      {1, 1},    0, -1, ""},
		{"small-factor-7",         {7, 3},    {3, 425},        {1, 1},    0, -1, ""},
	};
	for (auto &c : cs) {
		Owner o;
		for (int attempt = 0; attempt < 50; attempt++) {
			o.pr.clear(); o.ex = c.ex;
			for (size_t i = 0; i < c.res8.size(); i++) { Z p; if (c.bits[i] <= 3) mpz_set_ui(p.v, 7); else gen_prime(p.v, c.bits[i], c.res8[i]); o.pr.push_back(p); }
			bool distinct = true;
			for (size_t i = 0; i < o.pr.size(); i++) for (size_t j = 0; j < i; j++) if (!mpz_cmp(o.pr[i].v, o.pr[j].v)) distinct = false;
			o.finish();
			size_t b = mpz_sizeinbase(o.m.v, 2);
			if (distinct && b % 8 != 0 && b / 8 > 52) break;
		}
		pick_y(o);
		if (c.y_mode == 1) mpz_set_ui(o.y.v, 4);
		if (c.y_mode == 2) { Z t; mpz_set_ui(t.v, 2); while (!(mpz_jacobi(t.v, o.pr[0].v) == 1 && mpz_jacobi(t.v, o.pr[1].v) == 1 && !mpz_perfect_square_p(t.v))) mpz_add_ui(t.v, t.v, 1); mpz_set(o.y.v, t.v); }
		TMCG_PublicKey k; o.publish(k); cnt.mutants++;
		bool cheap = (c.ex[0] == 2);                       // refused in the first stage-1 round: cheap for the model
		bool ok = do_check(k, cheap || (thorough && c.expect == 0 && std::string(c.label) == "both-3-mod-8"));
		fprintf(stderr, "[c10] owner-made key %-22s bits %zu y %s: check() = %d\n", c.label, mpz_sizeinbase(o.m.v, 2), S(o.y.v).c_str(), (int)ok);
		if (c.expect == 1 && !ok) propfail(std::string("owner-key/") + c.label, "harness prover/signer control: a proper Blum-integer key with recomputed proof is refused");
		if (c.expect == 0 && ok) propfail(std::string("owner-key/") + c.label, std::string("defective key with a proof recomputed by its owner accepted (acceptance bound ") + c.bound + "): m=" + S(o.m.v) + " y=" + S(o.y.v));
		if (c.expect == -1) printf("NOTE owner-key/%s check()=%d\n", c.label, (int)ok);
		// also through export/import
		if (c.expect == 0) { TMCG_PublicKey k2(exp(k)); if (do_check(k2, false)) propfail(std::string("owner-key-imported/") + c.label, "defective key accepted after export/import"); }
	}
}

static unsigned long pick_keysize(unsigned long lo, unsigned long hi) {
	unsigned long k;
	do { k = lo + gen().below(hi - lo + 1); } while (k % 8 > 5);      // see docs/C10.md: sizes = 6,7 mod 8 can abort inside generate()
	return k;
}

static void g_records(bool thorough) {
	static const size_t os[] = { 0, 1, 8, 9, 10, 17, 18, 20, 21, 40, 53, 84, 128, 255, 300 };
	for (size_t oi = 0; oi < sizeof(os) / sizeof(os[0]); oi++) {
		for (int k = 0; k < 3; k++) {
			size_t il = k == 0 ? 0 : k == 1 ? 32 : gen().below(200);
			std::string in = random_data(il, 0);
			std::vector<unsigned char> out(os[oi] + 1);
			hl_begin(); tmcg_g(out.data(), os[oi], (const unsigned char *)in.data(), in.size()); std::string tab = hl_end();
			Rec("g").d((long)os[oi]).b(in).t(tab).b(std::string((const char *)out.data(), os[oi]));
		}
	}
	if (thorough) {     // more than 256 iterations: the (uint8_t) counter wraps
		size_t o = 2400; std::string in = "abc"; std::vector<unsigned char> out(o);
		hl_begin(); tmcg_g(out.data(), o, (const unsigned char *)in.data(), in.size()); std::string tab = hl_end();
		Rec("g").d((long)o).b(in).t(tab).b(std::string((const char *)out.data(), o));
	}
}

// verification with public keys that cannot come from generate(): small, even, negative, huge moduli
static void odd_moduli(bool thorough) {
	for (int i = 0; i < (thorough ? 40 : 16); i++) {
		TMCG_PublicKey k; Z v;
		unsigned bits = i < 4 ? 8 + gen().below(400) : i < 8 ? 416 + gen().below(20) : i < 10 ? 8 * (53 + gen().below(10)) : 424 + gen().below(400);
		gen_bits(k.m, bits); mpz_setbit(k.m, bits - 1);
		if (i % 3) mpz_setbit(k.m, 0);
		if (i == 11) mpz_neg(k.m, k.m);
		if (i == 12) mpz_set_ui(k.m, 0);
		if (i == 13) mpz_set_ui(k.m, 1);
		mpz_set_ui(k.y, 2); k.name = "n"; k.email = "e"; k.type = "t"; k.nizk = "";
		gen_bits(v.v, bits + 3);
		k.sig = "sig|ID8^" + S(v.v).substr(0, 8) + "|" + S(v.v).substr(0, 8) + "|";
		std::string kid = k.keyid();
		for (int j = 0; j < 3; j++) {
			gen_bits(v.v, bits + (j == 2 ? 100 : 0));
			do_verify(k, "data", "sig|" + kid + "|" + S(v.v) + "|");
		}
	}
}

// heap safety of the export buffers with moduli above 8192 bits: run under valgrind by the check
static void big_moduli(const std::string &what) {
	if (what == "vg-zero") {
		// a value with zero square makes mpz_export write nothing: verify then reads the uninitialised buffer.
		// control (nonzero square) first, then the marker, then the zero values
		TMCG_PublicKey k; unsigned bits = 429;
		gen_bits(k.m, bits); mpz_setbit(k.m, bits - 1); mpz_setbit(k.m, 0);
		mpz_set_ui(k.y, 2); k.sig = "sig|ID8^abcdefgh|abcdefgh|";
		bool c = k.verify("data", "sig|ID8^abcdefgh|5|");
		fprintf(stderr, "VGMARK\n"); fflush(stderr);
		bool z = k.verify("data", "sig|ID8^abcdefgh|0|");
		bool zm = k.verify("data", "sig|ID8^abcdefgh|" + S(k.m) + "|");
		printf("VGDONE zero %d %d %d\n", (int)c, (int)z, (int)zm);
	} else if (what == "vg-verify") {
		for (int i = 0; i < 3; i++) {
			TMCG_PublicKey k; Z v;
			unsigned bits = 8300 + 8 * i + 3;
			gen_bits(k.m, bits); mpz_setbit(k.m, bits - 1); mpz_setbit(k.m, bits - 2); mpz_setbit(k.m, 0);
			mpz_set_ui(k.y, 2); k.sig = "sig|ID8^abcdefgh|abcdefgh|";
			for (int j = 0; j < 6; j++) {
				gen_bits(v.v, bits - 1);
				bool ok = k.verify("data", "sig|ID8^abcdefgh|" + S(v.v) + "|");
				if (ok) propfail("verify-random-accepted", "random signature accepted");
			}
		}
		printf("VGDONE verify\n");
	} else {
		// a secret key text as import() accepts it (p, q need not be prime for the code path): m = p*q > 8192 bits
		TMCG_SecretKey s; Z p, q, m;
		unsigned pb = 4162;
		do {
			gen_bits(p.v, pb); mpz_setbit(p.v, pb - 1); mpz_setbit(p.v, 0); mpz_setbit(p.v, 1);
			gen_bits(q.v, pb); mpz_setbit(q.v, pb - 1); mpz_setbit(q.v, 0); mpz_setbit(q.v, 1);
			mpz_mul(m.v, p.v, q.v);
			std::string t = "sec|n|e|TMCG/RABIN_8300|" + S(m.v) + "|2|" + S(p.v) + "|" + S(q.v) + "|nzk^|sig|ID8^abcdefgh|abcdefgh|";
			if (s.import(t)) break;
		} while (true);
		unsigned char o[TMCG_SAEP_S0];
		for (unsigned long a = 2; a < 40; a++) {
			Z c; mpz_set_ui(c.v, a * a);
			s.decrypt(o, "enc|ID8^abcdefgh|" + S(c.v) + "|");
		}
		printf("VGDONE decrypt\n");
	}
	fflush(stdout);
}

static const size_t NGRID = 4;
int main(int argc, char **argv) {
	Args a(argc, argv);
	if (!init_libTMCG()) { fprintf(stderr, "init_libTMCG failed\n"); return 3; }
	bool th = a.thorough();
	if (a.only.substr(0, 3) == "vg-") { big_moduli(a.only); return 0; }
	if (a.only == "g") { g_records(th); odd_moduli(th); return 0; }
	// key plan: index -> (keysize, nizk, role)
	struct Plan { unsigned long ks; bool nizk; };
	std::vector<Plan> plan;
	plan.push_back({424, true});                                  // minimum that fits the signature padding (mnsize = 53)
	plan.push_back({672, false});                                 // minimum that fits the encryption padding
	plan.push_back({pick_keysize(425, 668), gen().coin()});       // signature only: decrypt must refuse
	plan.push_back({pick_keysize(673, 900), true});
	if (th) { plan.push_back({1024, true}); plan.push_back({pick_keysize(900, 1500), false}); plan.push_back({TMCG_QRA_SIZE, true}); plan.push_back({669, false}); }
	char role = a.only.empty() ? 'k' : a.only[0];      // k<i>: key i; n<w>: validity-proof grid worker w on key 0; o: owner-made defective keys
	size_t arg = a.only.empty() ? 0 : strtoul(a.only.c_str() + 1, 0, 10);
	size_t idx = role == 'k' ? arg : 0;
	if (idx >= plan.size()) return 0;
	// per-key generator/lib streams so that keys do not depend on each other
	gen() = SplitMix64(a.seed * 0x9E3779B97F4A7C15ULL + 1000 * idx + 29);
	reseed_lib(a.seed * 7919 + idx);
	Plan pl = plan[idx];
	double t0 = now();
	std::string tag = "k" + std::to_string(pl.ks) + (pl.nizk ? "n" : "");
	TMCG_SecretKey sec("Alice", "alice@example.org", pl.ks, pl.nizk);
	TMCG_PublicKey pub(sec);
	if (role == 'n') { gen() = SplitMix64(a.seed * 0x9E3779B97F4A7C15ULL + 77 * arg + 5); nizk_grid(sec, th, arg, NGRID, tag); return 0; }
	if (role == 'o') { owner_keys(th); return 0; }
	TMCG_SecretKey osec("Bob", "bob@example.org", mpz_sizeinbase(sec.m, 2) >= 673 ? 672 : 424, false);
	TMCG_PublicKey opub(osec);
	fprintf(stderr, "[c10] key %zu: keysize %lu nizk %d bits %zu generated in %.1fs\n", idx, pl.ks, (int)pl.nizk, mpz_sizeinbase(sec.m, 2), now() - t0);
	bool big = pl.ks > 1100;
	key_tests(sec, pub, pl.nizk, th && !big, (idx == 0) || (th && pl.ks <= 700), tag);
	sig_tests(sec, pub, osec, opub, th && !big, tag);
	unsigned char o[TMCG_SAEP_S0];
	if (mpz_sizeinbase(sec.m, 2) >= 673) enc_tests(sec, pub, osec, th && !big, tag);
	else {
		// the padding does not fit: decrypt refuses (encrypt would abort on its assertion)
		Z c; gen_below(c.v, sec.m); mpz_mul(c.v, c.v, c.v); mpz_mod(c.v, c.v, sec.m);
		if (do_decrypt(sec, o, "enc|" + sec.keyid() + "|" + S(c.v) + "|")) propfail("decrypt-small-key", "decrypt succeeded with a modulus too small for the padding");
	}
	fprintf(stderr, "[c10] key %zu done in %.1fs: verify %lu sign %lu encrypt %lu decrypt %lu check %lu mutants %lu\n", idx, now() - t0,
		cnt.verify, cnt.sign, cnt.encrypt, cnt.decrypt, cnt.check, cnt.mutants);
	return 0;
}
