// C03, model-compared part: the zero-knowledge proofs of the VTMF layer on tiny groups.  Every prover and verifier call
// is recorded (statement, witness, captured coins, hash-oracle table, transcript / verdict) for the extracted SigmaModel;
// honest runs that are not accepted are PROPFAILs; mutated transcripts and false statements are recorded for the model
// comparison only.
#ifndef VERIF_C03_VTMF_HH
#define VERIF_C03_VTMF_HH

namespace c03v {
using namespace verif;
typedef BarnettSmartVTMF_dlog V;

static V *mk(const Grp &G) {
	std::stringstream s; s << G.p.v << std::endl << G.q.v << std::endl << G.g.v << std::endl << G.k.v << std::endl;
	if (G.qr) return new BarnettSmartVTMF_dlog_GroupQR(s, G.pbits, G.esize);
	return new V(s, G.pbits, G.qbits, false, true);
}
static unsigned long hbits() { return tmcg_mpz_shash_len() * 8; }
static std::string gdesc(const V *v) { return "p=" + hx(v->p) + " q=" + hx(v->q) + " g=" + hx(v->g) + " h=" + hx(v->h); }
static std::string tok_map(const V *v) {
	std::vector<std::pair<Z, Z> > e;
	for (auto &kv : v->h_j) { Z fp; mpz_set_str(fp, kv.first.c_str(), TMCG_MPZ_IO_BASE); e.push_back(std::make_pair(fp, Z(kv.second))); }
	std::string r; for (auto &x : e) { if (!r.empty()) r += ";"; r += x.first.h() + "," + x.second.h(); }
	return r.empty() ? "_" : r;
}
// context tokens: p q g hbits h table_h[0] #valid-entries-of-table_h
static Rec &ctx(Rec &r, const V *v) {
	size_t nz = 0; while (nz < TMCG_MAX_FPOWM_T && mpz_sgn(v->fpowm_table_h[nz])) nz++;
	return r.z(v->p).z(v->q).z(v->g).u(hbits()).z(v->h).z(v->fpowm_table_h[0]).u(nz);
}
static const char *vd(int r) { return r == 1 ? "A" : r == 0 ? "R" : "T"; }
static void rand_elem(const V *v, mpz_ptr a) { Z e; gen_below(e, v->q); mpz_powm(a, v->g, e, v->p); }
static void rand_nonelem(const V *v, mpz_ptr a) { Z t; do { gen_below(a, v->p); mpz_powm(t, a, v->q, v->p); } while (!mpz_sgn(a) || !mpz_cmp_ui(t, 1)); }
// sometimes force the next draw to a boundary value
static void maybe_script(const V *v) {
	if (gen().below(8)) return;
	Z val(gen().below(2)); if (gen().coin()) mpz_sub_ui(val, v->q, 1 + gen().below(2)); script_draw(val, v->q);
}
struct Proof2 { Z c, r; bool ok = false; };
static std::string lines(std::initializer_list<mpz_srcptr> l, bool newline = true) {
	std::string s; size_t i = 0; for (mpz_srcptr z : l) { s += str62(z); if (++i < l.size() || newline) s += "\n"; } return s;
}

// ---- CP ------------------------------------------------------------------------------------------------------
static Proof2 cp_prove(V *v, mpz_srcptr x, mpz_srcptr y, mpz_srcptr gg, mpz_srcptr hh, mpz_srcptr alpha, bool fp) {
	Proof2 P; Capture cap; std::stringstream out;
	maybe_script(v);
	try { v->CP_Prove(x, y, gg, hh, alpha, out, fp); out >> P.c.v >> P.r.v; P.ok = true; } catch (std::exception &) { P.ok = false; }
	std::vector<Z> raws = cap.raws(v->q);
	if (raws.size() == 1) { Rec r("cpp"); ctx(r, v).z(x).z(y).z(gg).z(hh).z(alpha).z(raws[0]).d(fp).t(cap.table()).t(P.ok ? P.c.h() + "," + P.r.h() : "none"); }
	return P;
}
static int cp_verify(V *v, mpz_srcptr x, mpz_srcptr y, mpz_srcptr gg, mpz_srcptr hh, mpz_srcptr c, mpz_srcptr r, bool fp, bool good = true) {
	Capture cap; std::stringstream in(lines({ c, r }, good)); int ret;
	try { ret = v->CP_Verify(x, y, gg, hh, in, fp) ? 1 : 0; } catch (std::exception &) { ret = -1; }
	Rec rc("cpv"); ctx(rc, v).z(x).z(y).z(gg).z(hh).d(good).z(c).z(r).d(fp).t(cap.table()).t(vd(ret));
	return ret;
}
static void mutate_cr(const V *v, Z &c, Z &r) {
	switch (gen().below(9)) {
	case 0: mpz_add_ui(c, c, 1); break;
	case 1: mpz_add_ui(r, r, 1); break;
	case 2: mpz_sub(r, r, v->q); break;                 // negative representative of the same residue
	case 3: mpz_set(r, v->q); break;
	case 4: mpz_setbit(c, hbits()); break;
	case 5: mpz_neg(c, c); break;
	case 6: mpz_swap(c, r); break;
	case 7: mpz_add(r, r, v->q); break;
	case 8: mpz_neg(r, r); break;
	}
}
static void cp_cases(V *v, unsigned n) {
	for (unsigned i = 0; i < n; i++) {
		Z gg, hh, alpha, x, y;
		rand_elem(v, gg); rand_elem(v, hh); gen_below(alpha, v->q);
		if (gen().below(10) == 0) mpz_set_ui(alpha, gen().below(2));
		if (gen().below(10) == 0) mpz_set_ui(gg, 1);
		mpz_powm(x, gg, alpha, v->p); mpz_powm(y, hh, alpha, v->p);
		Proof2 P = cp_prove(v, x, y, gg, hh, alpha, false);
		int r = P.ok ? cp_verify(v, x, y, gg, hh, P.c, P.r, false) : -2;
		if (r != 1) propfail("cp-honest-rejected", "CP_Verify(fpowm_usage=false) returned " + std::to_string(r) + " on an honest proof " + gdesc(v) + " gg=" + gg.h() + " hh=" + hh.h() + " alpha=" + alpha.h());
		if (!P.ok) continue;
		// mutated transcript / false statement: model comparison only
		Z c(P.c), s(P.r); mutate_cr(v, c, s); cp_verify(v, x, y, gg, hh, c, s, false, gen().below(6) != 0);
		Z y2; rand_elem(v, y2); cp_verify(v, x, y2, gg, hh, P.c, P.r, false);
		if (gen().below(3) == 0) { Z bad; rand_nonelem(v, bad); cp_verify(v, x, y, bad, hh, P.c, P.r, false); }
		// table path with the instance's own bases
		mpz_powm(x, v->g, alpha, v->p); mpz_powm(y, v->h, alpha, v->p);
		Proof2 Q = cp_prove(v, x, y, v->g, v->h, alpha, true);
		r = Q.ok ? cp_verify(v, x, y, v->g, v->h, Q.c, Q.r, true) : -2;
		if (r != 1) propfail("cp-table-honest-rejected", "CP_Verify(fpowm_usage=true) returned " + std::to_string(r) + " on an honest proof " + gdesc(v) + " alpha=" + alpha.h());
		if (!Q.ok) continue;
		c = Q.c; s = Q.r; mutate_cr(v, c, s); cp_verify(v, x, y, v->g, v->h, c, s, true);
		// the verifier's base checks: another base than g resp. h with the table flag set
		cp_verify(v, x, y, gg, v->h, Q.c, Q.r, true); cp_verify(v, x, y, v->g, hh, Q.c, Q.r, true);
	}
}
// ---- OR ------------------------------------------------------------------------------------------------------
static void or_cases(V *v, unsigned n) {
	for (unsigned i = 0; i < n; i++) {
		Z g1, g2, y1, y2, alpha; rand_elem(v, g1); rand_elem(v, g2); gen_below(alpha, v->q);
		bool first = gen().coin();
		if (first) { mpz_powm(y1, g1, alpha, v->p); rand_elem(v, y2); } else { mpz_powm(y2, g2, alpha, v->p); rand_elem(v, y1); }
		Z c1, c2, r1, r2; bool ok = true; std::string tbl; std::vector<Z> raws;
		{ Capture cap; std::stringstream out;
		  try { if (first) v->OR_ProveFirst(y1, y2, g1, g2, alpha, out); else v->OR_ProveSecond(y1, y2, g1, g2, alpha, out);
			out >> c1.v >> c2.v >> r1.v >> r2.v; } catch (std::exception &) { ok = false; }
		  raws = cap.raws(v->q); tbl = cap.table(); }
		if (raws.size() == 3) { Rec r(first ? "orp1" : "orp2"); ctx(r, v).z(y1).z(y2).z(g1).z(g2).z(alpha).z(raws[0]).z(raws[1]).z(raws[2]).t(tbl)
			.t(ok ? c1.h() + "," + c2.h() + "," + r1.h() + "," + r2.h() : "none"); }
		auto verify = [&](mpz_srcptr a1, mpz_srcptr a2, mpz_srcptr b1, mpz_srcptr b2, bool good) {
			Capture cap; std::stringstream in(lines({ a1, a2, b1, b2 }, good)); int ret;
			try { ret = v->OR_Verify(y1, y2, g1, g2, in) ? 1 : 0; } catch (std::exception &) { ret = -1; }
			Rec r("orv"); ctx(r, v).z(y1).z(y2).z(g1).z(g2).d(good).z(a1).z(a2).z(b1).z(b2).t(cap.table()).t(vd(ret)); return ret; };
		int r = ok ? verify(c1, c2, r1, r2, true) : -2;
		if (r != 1) propfail("or-honest-rejected", std::string("OR_Verify returned ") + std::to_string(r) + " on an honest OR_Prove" + (first ? "First " : "Second ") + gdesc(v));
		if (!ok) continue;
		Z m1(c1), m2(r1); mutate_cr(v, m1, m2); verify(m1, c2, m2, r2, gen().below(6) != 0);
		verify(c2, c1, r2, r1, true);
	}
}
// ---- interactive key-share proof (3 moves; the verifier's challenge is scripted, so no second process is needed) ---
static void keyi_cases(V *v, unsigned n) {
	for (unsigned i = 0; i < n; i++) {
		Z craw, c; gen_bits(craw, mpz_sizeinbase(v->q, 2) + 60); if (gen().below(8) == 0) mpz_set_ui(craw, gen().below(2));
		mpz_mod(c, craw, v->q);
		Z m1, m2; bool pok; std::vector<Z> raws;
		{ Capture cap; maybe_script(v); std::stringstream in(lines({ c })), out;
		  pok = v->KeyGenerationProtocol_ProveKey_interactive(in, out); out >> m1.v >> m2.v; raws = cap.raws(v->q); }
		int ret; Z cseen;
		{ script_draw(craw, v->q); std::stringstream in(lines({ m1, m2 })), out;
		  try { ret = v->KeyGenerationProtocol_VerifyKey_interactive(v->h_i, in, out) ? 1 : 0; } catch (std::exception &) { ret = -1; }
		  coin_script().clear(); out >> cseen.v; }
		if (raws.size() == 1) { Rec r("keyi"); ctx(r, v).z(v->x_i).z(v->h_i).z(raws[0]).z(craw).t(m1.h() + "," + c.h() + "," + m2.h() + "," + (pok ? "1" : "0") + "," + vd(ret)); }
		if (!pok || ret != 1 || mpz_cmp(cseen, c)) propfail("keyshare-interactive-rejected", "interactive key proof: prover=" + std::to_string(pok) + " verifier=" + std::to_string(ret) + " " + gdesc(v) + " x=" + hx(v->x_i) + " c=" + c.h());
		// mutated transcripts (model comparison): wrong response, response out of range, commitment outside the group, other key
		for (int k = 0; k < 3; k++) {
			Z a(m1), b(m2), key(v->h_i); bool g1 = true, g2 = true;
			switch (gen().below(7)) { case 0: mpz_add_ui(b, b, 1); break; case 1: mpz_add(b, b, v->q); break; case 2: mpz_sub(b, b, v->q); break;
				case 3: rand_nonelem(v, a); break; case 4: rand_elem(v, key); break; case 5: g2 = false; break; case 6: mpz_set_ui(a, 0); break; }
			script_draw(craw, v->q); std::stringstream in(lines({ a }) + lines({ b }, g2)), out; int rr;
			try { rr = v->KeyGenerationProtocol_VerifyKey_interactive(key, in, out) ? 1 : 0; } catch (std::exception &) { rr = -1; }
			coin_script().clear();
			Rec r("keyv"); ctx(r, v).z(key).d(g1).z(a).z(c).d(g2).z(b).t(vd(rr));
		}
	}
}
// ---- masking / re-masking / decryption -----------------------------------------------------------------------------
static void mask_cases(V *v, std::vector<V *> &others, unsigned n) {
	for (unsigned i = 0; i < n; i++) {
		Z m, c1, c2, r; if (gen().below(4) == 0) v->IndexElement(m, gen().below(64)); else rand_elem(v, m);
		{ Capture cap; if (gen().below(5) == 0) { Z b(gen().below(2)); script_draw(b, v->q); }   // a draw that must be repeated (0 or 1)
		  v->VerifiableMaskingProtocol_Mask(m, c1, c2, r);
		  if (!dynamic_cast<BarnettSmartVTMF_dlog_GroupQR *>(v)) { std::vector<Z> raws = cap.raws(v->q); std::string l; for (Z &x : raws) { if (!l.empty()) l += ","; l += x.h(); }
			Rec("mval").z(v->q).t(l.empty() ? "_" : l).t(r.h()); } }
		{ Rec rc("mask"); ctx(rc, v).z(m).z(r).t(c1.h() + "," + c2.h()); }
		Proof2 P; { Capture cap; std::stringstream out; maybe_script(v);
		  try { v->VerifiableMaskingProtocol_Prove(m, c1, c2, r, out); out >> P.c.v >> P.r.v; P.ok = true; } catch (std::exception &) {}
		  std::vector<Z> raws = cap.raws(v->q);
		  if (raws.size() == 1) { Rec rc("mkp"); ctx(rc, v).z(m).z(c1).z(c2).z(r).z(raws[0]).t(cap.table()).t(P.ok ? P.c.h() + "," + P.r.h() : "none"); } }
		auto mverify = [&](mpz_srcptr mm, mpz_srcptr a, mpz_srcptr b, mpz_srcptr c, mpz_srcptr s, bool good) {
			Capture cap; std::stringstream in(lines({ c, s }, good)); int ret;
			try { ret = v->VerifiableMaskingProtocol_Verify(mm, a, b, in) ? 1 : 0; } catch (std::exception &) { ret = -1; }
			Rec rc("mkv"); ctx(rc, v).z(mm).z(a).z(b).d(good).z(c).z(s).t(cap.table()).t(vd(ret)); return ret; };
		int ret = P.ok ? mverify(m, c1, c2, P.c, P.r, true) : -2;
		if (ret != 1) propfail("masking-honest-rejected", "VerifiableMaskingProtocol_Verify returned " + std::to_string(ret) + " on an honest proof " + gdesc(v) + " m=" + m.h() + " r=" + r.h());
		if (P.ok) { Z c(P.c), s(P.r); mutate_cr(v, c, s); mverify(m, c1, c2, c, s, gen().below(6) != 0);
			Z m2; rand_elem(v, m2); mverify(m2, c1, c2, P.c, P.r, true);
			Z bad; rand_nonelem(v, bad); mverify(m, c1, bad, P.c, P.r, true); }
		// re-masking of (c1, c2)
		Z d1, d2, r2;
		v->VerifiableRemaskingProtocol_Mask(c1, c2, d1, d2, r2);
		{ Rec rc("rmk"); ctx(rc, v).z(c1).z(c2).z(r2).d(0).t(d1.h() + "," + d2.h()); }
		{ Z e1, e2; bool tap = gen().coin(); v->VerifiableRemaskingProtocol_Remask(c1, c2, e1, e2, r2, tap);
		  Rec rc("rmk"); ctx(rc, v).z(c1).z(c2).z(r2).d(tap ? 0 : 1).t(e1.h() + "," + e2.h());
		  if (mpz_cmp(e1, d1) || mpz_cmp(e2, d2)) propfail("remask-differs", "Remask(r) differs from Mask's result for the same r " + gdesc(v)); }
		Proof2 Q; { Capture cap; std::stringstream out; maybe_script(v);
		  try { v->VerifiableRemaskingProtocol_Prove(c1, c2, d1, d2, r2, out); out >> Q.c.v >> Q.r.v; Q.ok = true; } catch (std::exception &) {}
		  std::vector<Z> raws = cap.raws(v->q);
		  if (raws.size() == 1) { Rec rc("rmp"); ctx(rc, v).z(c1).z(c2).z(d1).z(d2).z(r2).z(raws[0]).t(cap.table()).t(Q.ok ? Q.c.h() + "," + Q.r.h() : "none"); } }
		auto rverify = [&](mpz_srcptr a1, mpz_srcptr a2, mpz_srcptr b1, mpz_srcptr b2, mpz_srcptr c, mpz_srcptr s, bool good) {
			Capture cap; std::stringstream in(lines({ c, s }, good)); int rr;
			try { rr = v->VerifiableRemaskingProtocol_Verify(a1, a2, b1, b2, in) ? 1 : 0; } catch (std::exception &) { rr = -1; }
			Rec rc("rmv"); ctx(rc, v).z(a1).z(a2).z(b1).z(b2).d(good).z(c).z(s).t(cap.table()).t(vd(rr)); return rr; };
		ret = Q.ok ? rverify(c1, c2, d1, d2, Q.c, Q.r, true) : -2;
		if (ret != 1) propfail("remasking-honest-rejected", "VerifiableRemaskingProtocol_Verify returned " + std::to_string(ret) + " on an honest proof " + gdesc(v) + " r=" + r2.h());
		if (Q.ok) { Z c(Q.c), s(Q.r); mutate_cr(v, c, s); rverify(c1, c2, d1, d2, c, s, true); rverify(c2, c1, d1, d2, Q.c, Q.r, true); }
		// decryption of (d1, d2): every other player proves its share to v
		{ v->VerifiableDecryptionProtocol_Verify_Initialize(d1);
		  { Rec rc("dci"); ctx(rc, v).z(v->x_i).z(d1).t(hx(v->d)); }
		  for (V *o : others) {
			Z di, fp; Proof2 D; { Capture cap; std::stringstream out; maybe_script(o);
			  try { o->VerifiableDecryptionProtocol_Prove(d1, out); out >> di.v >> fp.v >> D.c.v >> D.r.v; D.ok = true; } catch (std::exception &) {}
			  std::vector<Z> raws = cap.raws(o->q);
			  if (raws.size() == 1) { Rec rc("dcp"); ctx(rc, o).z(o->x_i).z(o->h_i).z(o->h_i_fp).z(d1).z(raws[0]).t(cap.table())
				.t(D.ok ? di.h() + "," + fp.h() + "," + D.c.h() + "," + D.r.h() : "none"); } }
			auto dverify = [&](mpz_srcptr a, mpz_srcptr f, mpz_srcptr c, mpz_srcptr s, bool good2) {
				Z d0(v->d); std::string m0 = tok_map(v);
				Capture cap; std::stringstream in(lines({ a, f }) + lines({ c, s }, good2)); int rr;
				try { rr = v->VerifiableDecryptionProtocol_Verify_Update(d1, in) ? 1 : 0; } catch (std::exception &) { rr = -1; }
				Rec rc("dcu"); ctx(rc, v).t(m0).z(d0).z(d1).d(1).z(a).z(f).d(good2).z(c).z(s).t(cap.table()).t(std::string(vd(rr)) + "," + hx(v->d)); return rr; };
			if (D.ok) { Z c(D.c), s(D.r); mutate_cr(v, c, s); Z dd(v->d); dverify(di, fp, c, s, gen().below(6) != 0); mpz_set(v->d, dd);
				Z f2; mpz_add_ui(f2, fp, 1); dverify(di, f2, D.c, D.r, true); mpz_set(v->d, dd);
				Z bad; rand_elem(v, bad); dverify(bad, fp, D.c, D.r, true); mpz_set(v->d, dd); }
			ret = D.ok ? dverify(di, fp, D.c, D.r, true) : -2;
			if (ret != 1) propfail("decryption-honest-rejected", "VerifiableDecryptionProtocol_Verify_Update returned " + std::to_string(ret) + " on an honest share " + gdesc(v) + " c_1=" + d1.h());
		  }
		  Z mm; bool ok = true; Z d0(v->d);
		  try { v->VerifiableDecryptionProtocol_Verify_Finalize(d2, mm); } catch (std::exception &) { ok = false; }
		  { Rec rc("dcf"); ctx(rc, v).z(d0).z(d2).t(ok ? mm.h() : "none"); }
		  if (!ok || mpz_cmp(mm, m)) propfail("decryption-wrong-message", "decrypting a masked and re-masked card gives " + mm.h() + " instead of " + m.h() + " " + gdesc(v));
		}
	}
}


// ---- Pedersen commitments: records on both sides of the table limit TMCG_MAX_FPOWM_N ---------------------------------
static std::string tok_list(const std::vector<mpz_ptr> &v) { std::string r; for (mpz_ptr z : v) { if (!r.empty()) r += ","; r += hx(z); } return r.empty() ? "_" : r; }
static void pedersen_cases(const Grp &G, size_t nmax, const std::vector<size_t> &ns) {
	Z h; { Z x; do gen_below(x, G.q); while (!mpz_sgn(x)); mpz_powm(h, G.g, x, G.p); }
	PedersenCommitmentScheme com(nmax, G.p, G.q, G.k, h, G.pbits, G.qbits);
	std::string gs = tok_list(com.g);
	auto head = [&](Rec &r) -> Rec & { return r.z(com.p).z(com.q).z(com.h).t(gs); };
	for (size_t n : ns) {
		std::vector<Z> ms(n); std::vector<mpz_ptr> m;
		for (size_t i = 0; i < n; i++) { gen_below(ms[i], G.q); if (gen().below(12) == 0) mpz_set_ui(ms[i], gen().below(2)); if (gen().below(40) == 0) mpz_sub_ui(ms[i], G.q, 1); m.push_back(ms[i]); }
		std::string mt = tok_list(m);
		Z c, r, c1, c2;
		{ Capture cap; com.Commit(c, r, m); std::vector<Z> raws = cap.raws(com.q);
		  if (raws.size() == 1) { Rec rc("pcm"); head(rc).t(mt).z(raws[0]).t(c.h() + "," + r.h()); } }
		for (int prot = 0; prot < 2; prot++) { Z &cc = prot ? c1 : c2; bool ok = true;
			try { com.CommitBy(cc, r, m, prot); } catch (std::exception &) { ok = false; }
			{ Rec rc("pcb"); head(rc).t(mt).z(r).d(prot).t(ok ? cc.h() : "none"); }
			if (!ok || mpz_cmp(cc, c)) propfail("pedersen-commitby-differs", "CommitBy(protection=" + std::to_string(prot) + ") differs from Commit for the same randomizer, " + std::to_string(n) + " messages, p=" + hx(com.p)); }
		auto verify = [&](mpz_srcptr cc, mpz_srcptr rr, const std::vector<mpz_ptr> &mm) { int ret;
			try { ret = com.Verify(cc, rr, mm) ? 1 : 0; } catch (std::exception &) { ret = -1; }
			Rec rc("pcv"); head(rc).z(cc).z(rr).t(tok_list(mm)).t(vd(ret)); return ret; };
		if (verify(c, r, m) != 1) propfail("pedersen-open-rejected", "PedersenCommitmentScheme::Verify rejects the honest opening of " + std::to_string(n) + " messages, p=" + hx(com.p));
		// wrong openings (model comparison): value at the last index / at an index below the limit changed, c off, r out of range / other representative
		{ Z sv(ms[n - 1]); mpz_add_ui(ms[n - 1], ms[n - 1], 1); verify(c, r, m); mpz_set(ms[n - 1], sv); }
		{ size_t i = gen().below(n); Z sv(ms[i]); mpz_neg(ms[i], ms[i]); verify(c, r, m); mpz_set(ms[i], sv); }
		{ Z x(c); mpz_add_ui(x, x, 1); verify(x, r, m); mpz_add(x, c, com.p); verify(x, r, m); mpz_set_ui(x, 0); verify(x, r, m); }
		{ Z x(r); mpz_sub(x, r, com.q); verify(c, x, m); mpz_set(x, com.q); verify(c, x, m); mpz_add_ui(x, r, 1); verify(c, x, m); }
		if (n > 1) { std::vector<mpz_ptr> sh(m.begin(), m.end() - 1); verify(c, r, sh); }
	}
}


// ---- cut-and-choose stack equality (VTMF encoding), one iteration per proof (TMCG_SecurityLevel = 1) so that every
//      iteration is a record: prover round (coins -> commitment, response) and verifier round (message -> verdict) -------------
static std::string tok_vst(const TMCG_Stack<VTMF_Card> &s) { std::string r; for (size_t i = 0; i < s.size(); i++) { if (i) r += ";"; r += hx(s[i].c_1) + "," + hx(s[i].c_2); } return r.empty() ? "_" : r; }
static std::string tok_vsec(const TMCG_StackSecret<VTMF_CardSecret> &s) { std::string r; for (size_t i = 0; i < s.size(); i++) { if (i) r += ";"; r += hx((unsigned long)s[i].first) + "," + hx(s[i].second.r); } return r.empty() ? "_" : r; }
static std::string stack_hash(const TMCG_Stack<VTMF_Card> &s3) { std::ostringstream ost; ost << s3 << std::endl; Z f; bool was = hash_logging(); hash_logging() = false; tmcg_mpz_shash(f, ost.str()); hash_logging() = was; return f.h(); }
static bool secret_sane(const TMCG_StackSecret<VTMF_CardSecret> &ss, size_t n, mpz_srcptr q) {
	if (ss.size() != n) return false; std::vector<bool> seen(n, false);
	for (size_t i = 0; i < n; i++) { if (ss[i].first >= n || seen[ss[i].first]) return false; seen[ss[i].first] = true; if (mpz_sgn(ss[i].second.r) < 0 || mpz_cmp(ss[i].second.r, q) >= 0) return false; }
	return true;
}
static void cutchoose_cases(V *vp, V *vv, size_t n, bool cyclic, unsigned reps) {
	SchindelhauerTMCG tmcg(1, 2, 6);
	TMCG_Stack<VTMF_Card> s, s2;
	for (size_t i = 0; i < n; i++) { VTMF_Card c; tmcg.TMCG_CreateOpenCard(c, vp, gen().below(32)); if (gen().coin()) { VTMF_Card cc; VTMF_CardSecret cs; tmcg.TMCG_CreateCardSecret(cs, vp); tmcg.TMCG_MaskCard(c, cc, cs, vp); c = cc; } s.push(c); }
	TMCG_StackSecret<VTMF_CardSecret> ss; tmcg.TMCG_CreateStackSecret(ss, cyclic, n, vp); tmcg.TMCG_MixStack(s, s2, ss, vp);
	auto head = [&](Rec &r) -> Rec & { return r.z(vp->p).z(vp->q).z(vp->g).z(vp->h); };
	for (unsigned rep = 0; rep < reps; rep++) {
		unsigned bit = gen().below(2);
		Z com; TMCG_StackSecret<VTMF_CardSecret> resp; std::string coins;
		{ Capture cap; std::stringstream in("1\n" + std::to_string(bit) + "\n"), out;
		  tmcg.TMCG_ProveStackEquality(s, s2, ss, cyclic, vp, in, out);
		  coins = xb(coin_log().data(), coin_log().size());
		  out >> com.v; out >> resp; }
		auto table = [&](const TMCG_StackSecret<VTMF_CardSecret> &r, unsigned b) -> std::string {
			if (!secret_sane(r, n, vp->q)) return "_";
			TMCG_Stack<VTMF_Card> s4; tmcg.TMCG_MixStack(b ? s2 : s, s4, r, vp, false); return tok_vst(s4) + "=" + stack_hash(s4); };
		if (!dynamic_cast<BarnettSmartVTMF_dlog_GroupQR *>(vp))   // GroupQR draws its masking values differently (srandomb of E_size bits): not modelled
		{ Rec r("ccp"); head(r).d(cyclic).t(tok_vst(s2)).t(tok_vsec(ss)).t(coins).d(bit).t(table(resp, bit)).t(com.h() + "/" + tok_vsec(resp)); }
		auto verify = [&](mpz_srcptr c, const TMCG_StackSecret<VTMF_CardSecret> &r, unsigned b, bool cyc) {
			std::ostringstream msg; msg << c << std::endl << r << std::endl;
			script_bytes(std::vector<unsigned char>(1, (unsigned char)b));
			std::stringstream in(msg.str()), out; int ret;
			try { ret = tmcg.TMCG_VerifyStackEquality(s, s2, cyc, vv, in, out) ? 1 : 0; } catch (std::exception &) { ret = -1; }
			coin_script().clear();
			Rec rc("ccv"); head(rc).t(tok_vst(s)).t(tok_vst(s2)).d(cyc).d(b).z(c).t(tok_vsec(r)).t(table(r, b)).t(ret == 1 ? "1" : ret == 0 ? "0" : "T");
			return ret; };
		int ret = verify(com, resp, bit, cyclic);
		if (ret != 1) propfail(cyclic ? "cutchoose-cyclic-rejected" : "cutchoose-rejected", "TMCG_VerifyStackEquality(VTMF) rejects an honest iteration: n=" + std::to_string(n) + " bit=" + std::to_string(bit) + " " + gdesc(vp));
		// wrong messages (model comparison only)
		{ Z c2(com); mpz_add_ui(c2, c2, 1); verify(c2, resp, bit, cyclic); }
		verify(com, resp, 1 - bit, cyclic);
		if (!cyclic) verify(com, resp, bit, true);                            // a general permutation checked as a rotation
		{ TMCG_StackSecret<VTMF_CardSecret> r2 = resp; size_t i = gen().below(n); mpz_add(r2[i].second.r, r2[i].second.r, vp->q); verify(com, r2, bit, cyclic); }
		{ TMCG_StackSecret<VTMF_CardSecret> r2 = resp; size_t i = gen().below(n); mpz_sub(r2[i].second.r, r2[i].second.r, vp->q); verify(com, r2, bit, cyclic); }
		{ TMCG_StackSecret<VTMF_CardSecret> r2 = resp; size_t i = gen().below(n); mpz_add_ui(r2[i].second.r, r2[i].second.r, 1); mpz_mod(r2[i].second.r, r2[i].second.r, vp->q); verify(com, r2, bit, cyclic); }
		if (n > 1) { TMCG_StackSecret<VTMF_CardSecret> r2; for (size_t i = 0; i + 1 < n; i++) r2.push(resp[i].first, resp[i].second); verify(com, r2, bit, cyclic); }   // wrong size (and, usually, no bijection)
		if (n > 1) { TMCG_StackSecret<VTMF_CardSecret> r2 = resp; std::swap(r2[0].first, r2[n - 1].first); verify(com, r2, bit, cyclic); }
		if (n > 1) { TMCG_StackSecret<VTMF_CardSecret> r2 = resp; r2[0].first = r2[1].first; verify(com, r2, bit, cyclic); }               // not a bijection
	}
}


// ---- Groth's shuffle of known content, non-interactive: prover (coins -> argument) and verifier (argument -> verdict) records -----
static void skc_cases(const Grp &G, unsigned long le, size_t n, unsigned reps) {
	Z h; { Z x; do gen_below(x, G.q); while (!mpz_sgn(x)); mpz_powm(h, G.g, x, G.p); }
	PedersenCommitmentScheme com0(n + gen().below(2), G.p, G.q, G.k, h, G.pbits, G.qbits);   // the key may be longer than the vector
	std::stringstream pb; com0.PublishGroup(pb); GrothSKC skc(com0.g.size(), pb, le, G.pbits, G.qbits);
	std::string gs = tok_list(skc.com->g);
	auto head = [&](Rec &r) -> Rec & { return r.z(skc.com->p).z(skc.com->q).z(skc.com->h).t(gs).u(2 * le); };
	for (unsigned rep = 0; rep < reps; rep++) {
		std::vector<Z> ms(n); std::vector<mpz_ptr> m, mperm(n);
		for (size_t i = 0; i < n; i++) { gen_below(ms[i], G.q); if (gen().below(10) == 0) mpz_set_ui(ms[i], gen().below(3)); m.push_back(ms[i]); }
		std::vector<size_t> pi(n); for (size_t i = 0; i < n; i++) pi[i] = i; for (size_t i = n; i > 1; i--) std::swap(pi[i - 1], pi[gen().below(i)]);
		for (size_t i = 0; i < n; i++) mperm[i] = m[pi[i]];
		Z c, r; skc.com->Commit(c, r, mperm);
		std::string pit; for (size_t i = 0; i < n; i++) { if (i) pit += ","; pit += std::to_string(pi[i]); }
		std::string mt = tok_list(m), proof, rawt, tbl;
		{ Capture cap; std::stringstream out; skc.Prove_noninteractive(pi, r, m, out); proof = out.str();
		  std::vector<Z> raws = cap.raws(skc.com->q); for (Z &x : raws) { if (!rawt.empty()) rawt += ","; rawt += x.h(); } tbl = cap.table(); }
		// parse the argument: c_d c_Delta c_a f_1..f_n z fD_1..fD_{n-1} zD
		std::vector<Z> vals; { std::stringstream in(proof); for (size_t i = 0; i < 3 + n + 1 + (n - 1) + 1; i++) { Z v; in >> v.v; vals.push_back(v); } }
		auto msg_tok = [&](const std::vector<Z> &v) { std::string f, fd; for (size_t i = 0; i < n; i++) { if (i) f += ","; f += v[3 + i].h(); }
			for (size_t i = 0; i + 1 < n; i++) { if (i) fd += ","; fd += v[3 + n + 1 + i].h(); }
			return v[0].h() + "/" + v[1].h() + "/" + v[2].h() + "/" + f + "/" + v[3 + n].h() + "/" + (fd.empty() ? "_" : fd) + "/" + v[3 + n + n].h(); };
		{ Rec rc("skp"); head(rc).t(pit).z(r).t(mt).t(rawt).t(tbl).t(msg_tok(vals)); }
		auto verify = [&](mpz_srcptr cc, const std::vector<Z> &v, bool opt, bool good) {
			std::string text; for (size_t i = 0; i < v.size(); i++) { text += str62(v[i]); if (i + 1 < v.size() || good) text += "\n"; }
			Capture cap; std::stringstream in(text); int ret;
			try { ret = skc.Verify_noninteractive(cc, m, in, opt) ? 1 : 0; } catch (std::exception &) { ret = -1; }
			Z alpha; if (!coin_log().empty()) { mpz_import(alpha, coin_log().size(), 1, 1, 1, 0, coin_log().data()); mpz_tdiv_r_2exp(alpha, alpha, le); }
			Rec rc("skv"); head(rc).z(cc).t(mt).d(good).t(msg_tok(v)).d(opt).z(alpha).t(cap.table()).t(vd(ret)); return ret; };
		for (int opt = 0; opt < 2; opt++)
			if (verify(c, vals, opt, true) != 1) propfail("skc-noninteractive-rejected", "GrothSKC::Verify_noninteractive(optimizations=" + std::to_string(opt) + ") rejects an honest argument, n=" + std::to_string(n) + " p=" + hx(skc.com->p));
		// wrong arguments (model comparison only): one value changed / out of range / negative, other commitment, truncated stream
		for (int k = 0; k < 4; k++) { std::vector<Z> w(vals); size_t i = gen().below(w.size());
			switch (gen().below(5)) { case 0: mpz_add_ui(w[i], w[i], 1); break; case 1: mpz_add(w[i], w[i], skc.com->q); break; case 2: mpz_sub(w[i], w[i], skc.com->q); break;
				case 3: mpz_set_ui(w[i], gen().below(2)); break; case 4: mpz_neg(w[i], w[i]); break; }
			verify(c, w, gen().coin(), true); }
		// the range rules 0 <= f_i, z, f_Delta_i, z_Delta < q: the same residue outside the range, both verifier variants
		for (size_t i : { (size_t)(3 + gen().below(n)), (size_t)(3 + n), (size_t)(3 + n + 1 + gen().below(n - 1)), (size_t)(3 + 2 * n) })
			for (int sg = 0; sg < 2; sg++) for (int opt = 0; opt < 2; opt++) { std::vector<Z> w(vals); if (sg) mpz_add(w[i], w[i], skc.com->q); else mpz_sub(w[i], w[i], skc.com->q); verify(c, w, opt, true); }
		{ Z c2; gen_below(c2, G.p); verify(c2, vals, gen().coin(), true); }
		verify(c, vals, false, false);
	}
}

static void run_group(const Grp &G, unsigned k, unsigned n) {
	std::vector<V *> pl;
	for (unsigned i = 0; i < k; i++) { V *v = mk(G); v->KeyGenerationProtocol_GenerateKey(); pl.push_back(v); }
	for (unsigned i = 0; i < k; i++) { std::stringstream s; pl[i]->KeyGenerationProtocol_PublishKey(s); std::string t = s.str();
		for (unsigned j = 0; j < k; j++) if (j != i) { std::stringstream in(t); if (!pl[j]->KeyGenerationProtocol_UpdateKey(in)) propfail("keyshare-nizk-rejected", "honest key contribution refused " + gdesc(pl[j])); } }
	// before Finalize the table of h is empty: the table path must refuse/throw identically in model and code (records only)
	{ V *v = pl[0]; Z x, y, a; gen_below(a, v->q); mpz_powm(x, v->g, a, v->p); mpz_powm(y, v->h, a, v->p); Z c(5UL), r(3UL); cp_verify(v, x, y, v->g, v->h, c, r, true); }
	for (V *v : pl) v->KeyGenerationProtocol_Finalize();
	for (unsigned i = 0; i < k; i++) {
		V *v = pl[i]; std::vector<V *> others; for (unsigned j = 0; j < k; j++) if (j != i) others.push_back(pl[j]);
		keyi_cases(v, n); cp_cases(v, n); or_cases(v, n); mask_cases(v, others, n);
		if (i + 1 < k) continue;
	}
	for (size_t cn : { (size_t)1, (size_t)2, (size_t)3, (size_t)(4 + gen().below(4)) }) { cutchoose_cases(pl[0], pl[1], cn, false, n); if (cn >= 2) cutchoose_cases(pl[1], pl[0], cn, true, n); }
	// a key added after Finalize: h changes but its table is stale -> the table path throws (records only)
	if (!G.qr) { V *v = pl[0]; V *e = mk(G); e->KeyGenerationProtocol_GenerateKey(); std::stringstream s; e->KeyGenerationProtocol_PublishKey(s);
		if (mpz_cmp(e->h_i, v->h_i) && v->KeyGenerationProtocol_UpdateKey(s)) {
			Z x, y, a; gen_below(a, v->q); mpz_powm(x, v->g, a, v->p); mpz_powm(y, v->h, a, v->p); Z c(5UL), r(3UL); cp_verify(v, x, y, v->g, v->h, c, r, true); }
		delete e; }
	for (V *v : pl) delete v;
}

static int vtmf_main(Args &A) {
	const bool T = A.thorough();
	std::vector<std::pair<unsigned, unsigned> > sizes = { {16, 8}, {24, 12}, {40, 17}, {64, 32} };
	if (T) { sizes.push_back({96, 48}); sizes.push_back({128, 64}); sizes.push_back({36, 32}); }
	unsigned rounds = T ? 4 : 2, n = T ? 4 : 3;
	{ // Pedersen: message counts around TMCG_MAX_FPOWM_N = 256 (generators from index 256 on have no table)
	  Grp P1 = gen_group(24, 12); pedersen_cases(P1, 258, T ? std::vector<size_t>{ 1, 2, 7, 255, 256, 257, 258 } : std::vector<size_t>{ 1, 3, 256, 257 });
	  Grp P2 = gen_group(64, 32); pedersen_cases(P2, T ? 300 : 258, T ? std::vector<size_t>{ 5, 257, 300 } : std::vector<size_t>{ 2, 258 }); }
	{ // shuffle of known content on small groups; l_e_nizk = 2 l_e bits of challenge, |q| > 2 l_e so that e is invertible unless it is zero
	  Grp S1 = gen_group(64, 40); for (size_t sn : { (size_t)2, (size_t)3, (size_t)5 }) skc_cases(S1, 16, sn, T ? 6 : 2);
	  Grp S2 = gen_group(96, 48); skc_cases(S2, 20, T ? 8 : 4, T ? 4 : 1); }
	for (unsigned rd = 0; rd < rounds; rd++) {
		for (auto &sz : sizes) { Grp G = gen_group(sz.first, sz.second); run_group(G, 2 + gen().below(2), n); }
		Grp Q = gen_group_qr(rd % 2 ? 32 : 16, rd % 2 ? 16 : 8); run_group(Q, 2, n);
		if (T) { Grp Q2 = gen_group_qr(64, 40); run_group(Q2, 2, n); }
	}
	return 0;
}
} // namespace c03v
#endif
