// C20 harness: OpenPGP signatures and encryption are tamper-evident.
//  * REC lines: octets actually hashed for every signature kind (captured at gcry_md_hash_buffer) and CheckValidity
//    verdicts, compared with the Coq model (PgpSigModel.v);
//  * PROPFAIL: the property itself on the implementation -- honest signatures verify; any flipped octet of signature
//    packet, signed data or key material makes verification fail; expired / too old / future-dated / weak-hash
//    signatures are refused; encrypted messages decrypt to the plaintext, every flipped ciphertext octet, reordered
//    chunk, dropped tag or changed associated data makes decryption fail; data without integrity protection is refused.
#include "common.hh"
#include <dlfcn.h>
#include <sys/wait.h>
#include <signal.h>
#include <setjmp.h>
#include <algorithm>
#include <map>
#define private public
#define protected public
#include <libTMCG.hh>
#undef private
#undef protected
using namespace verif;
typedef CallasDonnerhackeFinneyShawThayerRFC4880 PGP;
typedef tmcg_openpgp_octets_t oct;

static bool g_cap = false; static std::string g_hash_in;
extern "C" void gcry_md_hash_buffer(int algo, void *digest, const void *buffer, size_t length) {
	typedef void (*fn_t)(int, void*, const void*, size_t);
	static fn_t real = (fn_t)dlsym(RTLD_NEXT, "gcry_md_hash_buffer");
	if (g_cap) g_hash_in.assign((const char*)buffer, length);
	real(algo, digest, buffer, length);
}
// observe the nonces given to the AEAD cipher
static bool g_capiv = false; static std::vector<std::string> g_ivs;
extern "C" gcry_error_t gcry_cipher_setiv(gcry_cipher_hd_t hd, const void *iv, size_t ivlen) {
	typedef gcry_error_t (*fn_t)(gcry_cipher_hd_t, const void*, size_t);
	static fn_t real = (fn_t)dlsym(RTLD_NEXT, "gcry_cipher_setiv");
	if (g_capiv) g_ivs.push_back(std::string((const char*)iv, ivlen));
	return real(hd, iv, ivlen);
}
// observe the associated data given to the AEAD cipher
static bool g_capad = false; static std::vector<std::string> g_ads;
extern "C" gcry_error_t gcry_cipher_authenticate(gcry_cipher_hd_t hd, const void *abuf, size_t abuflen) {
	typedef gcry_error_t (*fn_t)(gcry_cipher_hd_t, const void*, size_t);
	static fn_t real = (fn_t)dlsym(RTLD_NEXT, "gcry_cipher_authenticate");
	if (g_capad) g_ads.push_back(std::string((const char*)abuf, abuflen));
	return real(hd, abuf, abuflen);
}
// observe the signature value given to the verification primitive
static bool g_capsig = false; static std::string g_sig_r, g_sig_s; static bool g_sig_seen = false;
extern "C" gcry_error_t gcry_pk_verify(gcry_sexp_t sigval, gcry_sexp_t data, gcry_sexp_t pkey) {
	typedef gcry_error_t (*fn_t)(gcry_sexp_t, gcry_sexp_t, gcry_sexp_t);
	static fn_t real = (fn_t)dlsym(RTLD_NEXT, "gcry_pk_verify");
	if (g_capsig) {
		g_sig_seen = true; g_sig_r.clear(); g_sig_s.clear();
		for (int k = 0; k < 2; k++) { gcry_sexp_t t = gcry_sexp_find_token(sigval, k ? "s" : "r", 0); if (!t) continue; size_t n = 0; const char *b = gcry_sexp_nth_data(t, 1, &n);
			if (b) (k ? g_sig_s : g_sig_r).assign(b, n); gcry_sexp_release(t); }
	}
	return real(sigval, data, pkey);
}
static std::string S(const oct &o) { return std::string(o.begin(), o.end()); }
static oct rnd_oct(size_t n) { oct r(n); for (size_t i = 0; i < n; i++) r[i] = (unsigned char)gen().next(); return r; }
static uint64_t g_cases = 0, g_benign = 0;
static bool T = false;

// ---------------------------------------------------------------------------------------------------------
// part "hash": what is hashed
// ---------------------------------------------------------------------------------------------------------
static oct gen_text(size_t n) {
	static const char A[] = "ab \r\n\n\r\t-.";
	oct r(n); for (size_t i = 0; i < n; i++) r[i] = gen().below(5) ? A[gen().below(sizeof(A) - 1)] : (unsigned char)gen().next(); return r;
}
static oct gen_trailer() {   // a v4 trailer as the Prepare functions build it
	oct t; tmcg_openpgp_octets_t issuer = rnd_oct(gen().coin() ? 20 : 8);
	switch (gen().below(3)) {
	case 0: PGP::PacketSigPrepareDetachedSignature((tmcg_openpgp_signature_t)gen().below(2), TMCG_OPENPGP_PKALGO_RSA, TMCG_OPENPGP_HASHALGO_SHA256, 1 + gen().below(1UL << 31), gen().below(1000), gen().coin() ? "" : "p", issuer, t); break;
	case 1: { oct fl; fl.push_back(3); PGP::PacketSigPrepareSelfSignature((tmcg_openpgp_signature_t)0x13, TMCG_OPENPGP_PKALGO_DSA, TMCG_OPENPGP_HASHALGO_SHA512, 1 + gen().below(1UL << 31), gen().below(1000), fl, issuer, gen().coin(), t); break; }
	default: t = rnd_oct(gen().below(40)); break;
	}
	return t;
}
static void hash_records() {
	for (int k = 0; k < (T ? 1500 : 300); k++) {
		oct data = gen().coin() ? gen_text(gen().below(60)) : rnd_oct(gen().below(200));
		oct tr = gen_trailer(); oct h, l;
		int ha = TMCG_OPENPGP_HASHALGO_SHA256;
		unsigned kind = gen().below(12);
		g_cap = true; g_hash_in.clear();
		oct key = rnd_oct(gen().below(3) ? 10 + gen().below(300) : 0), key2 = rnd_oct(20 + gen().below(300));
		std::string uid = S(gen_text(gen().below(40))); oct uat = rnd_oct(1 + gen().below(50));
		switch (kind) {
		case 0: PGP::BinaryDocumentHash(data, tr, (tmcg_openpgp_hashalgo_t)ha, h, l); g_cap = false; Rec("hin_bin4").b(S(data)).b(S(tr)).b(g_hash_in); break;
		case 1: PGP::TextDocumentHash(data, tr, (tmcg_openpgp_hashalgo_t)ha, h, l); g_cap = false; Rec("hin_text4").b(S(data)).b(S(tr)).b(g_hash_in); break;
		case 2: PGP::StandaloneHash(tr, (tmcg_openpgp_hashalgo_t)ha, h, l); g_cap = false; Rec("hin_alone4").b(S(tr)).b(g_hash_in); break;
		case 3: PGP::CertificationHash(key, uid, oct(), tr, (tmcg_openpgp_hashalgo_t)ha, h, l); g_cap = false; Rec("hin_cert4").b(S(key)).b(uid).b("").b(S(tr)).b(g_hash_in); break;
		case 4: PGP::CertificationHash(key, uid, uat, tr, (tmcg_openpgp_hashalgo_t)ha, h, l); g_cap = false; Rec("hin_cert4").b(S(key)).b(uid).b(S(uat)).b(S(tr)).b(g_hash_in); break;
		case 5: PGP::KeyHash(key, tr, (tmcg_openpgp_hashalgo_t)ha, h, l); g_cap = false; Rec("hin_key4").b(S(key)).b(S(tr)).b(g_hash_in); break;
		case 6: PGP::KeyHash(key, key2, tr, (tmcg_openpgp_hashalgo_t)ha, h, l); g_cap = false; Rec("hin_sub4").b(S(key)).b(S(key2)).b(S(tr)).b(g_hash_in); break;
		case 7: PGP::BinaryDocumentHashV3(data, tr, (tmcg_openpgp_hashalgo_t)ha, h, l); g_cap = false; if (data.size() + tr.size()) Rec("hin_bin3").b(S(data)).b(S(tr)).b(g_hash_in); break;
		case 8: PGP::TextDocumentHashV3(data, tr, (tmcg_openpgp_hashalgo_t)ha, h, l); g_cap = false; if (data.size() + tr.size()) Rec("hin_text3").b(S(data)).b(S(tr)).b(g_hash_in); break;
		case 9: PGP::BinaryDocumentHashV5(data, tr, (tmcg_openpgp_hashalgo_t)ha, h, l); g_cap = false; Rec("hin_bin5").b(S(data)).b(S(tr)).b(g_hash_in); break;
		case 10: PGP::TextDocumentHashV5(data, tr, (tmcg_openpgp_hashalgo_t)ha, h, l); g_cap = false; Rec("hin_text5").b(S(data)).b(S(tr)).b(g_hash_in); break;
		case 11: PGP::KeyHashV5(key, tr, (tmcg_openpgp_hashalgo_t)ha, h, l); g_cap = false; Rec("hin_key5").b(S(key)).b(S(tr)).b(g_hash_in); break;
		}
		g_cap = false;
		if (l.size() != 2 || h.size() < 2 || l[0] != h[0] || l[1] != h[1]) propfail("hash-left16", "left 16 bits are not the first two hash octets (kind " + std::to_string(kind) + ")");
		g_cases++;
	}
}

// ---------------------------------------------------------------------------------------------------------
// signatures
// ---------------------------------------------------------------------------------------------------------
struct Key {
	std::string name; int pkalgo; gcry_sexp_t key = NULL; std::string pubfmt; std::string params;   // params of the public key
};
static bool genkey(Key &k, const char *spec) {
	gcry_sexp_t parms = NULL; size_t eo = 0;
	if (gcry_sexp_build(&parms, &eo, spec)) return false;
	gcry_error_t e = gcry_pk_genkey(&k.key, parms); gcry_sexp_release(parms);
	return !e;
}
static const int HASHES[] = { TMCG_OPENPGP_HASHALGO_SHA256, TMCG_OPENPGP_HASHALGO_SHA384, TMCG_OPENPGP_HASHALGO_SHA512 };

struct Signed { oct pkt, hashed, left, hash; gcry_mpi_t r = NULL, s = NULL; int pkalgo, ha, type; };

static bool do_sign(const Key &k, int ha, const oct &hash, gcry_mpi_t &r, gcry_mpi_t &s) {
	r = gcry_mpi_new(2048); s = gcry_mpi_new(2048); gcry_error_t e;
	switch (k.pkalgo) {
	case TMCG_OPENPGP_PKALGO_RSA: e = PGP::AsymmetricSignRSA(hash, k.key, (tmcg_openpgp_hashalgo_t)ha, s); break;
	case TMCG_OPENPGP_PKALGO_DSA: e = PGP::AsymmetricSignDSA(hash, k.key, r, s); break;
	case TMCG_OPENPGP_PKALGO_ECDSA: e = PGP::AsymmetricSignECDSA(hash, k.key, r, s); break;
	case TMCG_OPENPGP_PKALGO_EDDSA: e = PGP::AsymmetricSignEdDSA(hash, k.key, r, s); break;
	default: return false;
	}
	return !e;
}
static bool make_doc_sig(const Key &k, int ha, int type, const oct &data, time_t sigtime, time_t sigexp, Signed &out) {
	oct issuer = rnd_oct(8);
	out.pkalgo = k.pkalgo; out.ha = ha; out.type = type;
	PGP::PacketSigPrepareDetachedSignature((tmcg_openpgp_signature_t)type, (tmcg_openpgp_pkalgo_t)k.pkalgo, (tmcg_openpgp_hashalgo_t)ha, sigtime, sigexp, "", issuer, out.hashed);
	bool ok = (type == 0) ? PGP::BinaryDocumentHash(data, out.hashed, (tmcg_openpgp_hashalgo_t)ha, out.hash, out.left)
	                      : PGP::TextDocumentHash(data, out.hashed, (tmcg_openpgp_hashalgo_t)ha, out.hash, out.left);
	if (!ok) return false;
	if (!do_sign(k, ha, out.hash, out.r, out.s)) return false;
	if (k.pkalgo == TMCG_OPENPGP_PKALGO_RSA) PGP::PacketSigEncode(out.hashed, out.left, out.s, out.pkt);
	else PGP::PacketSigEncode(out.hashed, out.left, out.r, out.s, out.pkt);
	return true;
}
// VerifyData in a child process: 1 accepted, 0 refused, -1 the process was killed by a signal
static int verify_in_child(const TMCG_OpenPGP_Signature *sig, gcry_sexp_t key, const oct &data) {
	fflush(stdout);
	pid_t pid = fork();
	if (pid == 0) { alarm(3); bool r = sig->VerifyData(key, data, 0); _exit(r ? 1 : 0); }   // libgcrypt can loop on invalid keys
	int st = 0; if (pid < 0 || waitpid(pid, &st, 0) < 0) return 0;
	if (WIFSIGNALED(st)) return -1;
	return WEXITSTATUS(st);
}
// VerifyData under a changed key: libgcrypt may abort (assertion) or spin on mathematically invalid keys; that is
// outside the library under test -- catch it in-process and count it as "not accepted"
static sigjmp_buf g_jb; static void on_sig(int) { siglongjmp(g_jb, 1); }
static int guarded_verify(const TMCG_OpenPGP_Signature *sig, gcry_sexp_t key, const oct &data) {
	struct sigaction sa, o1, o2; memset(&sa, 0, sizeof sa); sa.sa_handler = on_sig; sigemptyset(&sa.sa_mask); sa.sa_flags = SA_NODEFER;
	sigaction(SIGABRT, &sa, &o1); sigaction(SIGALRM, &sa, &o2);
	volatile int res;
	if (sigsetjmp(g_jb, 1) == 0) { alarm(5); res = sig->VerifyData(key, data, 0) ? 1 : 0; alarm(0); } else { alarm(0); res = -1; }
	sigaction(SIGABRT, &o1, NULL); sigaction(SIGALRM, &o2, NULL);
	return res;
}
static bool hash_known(int ha) { int a = PGP::AlgorithmHashGCRY((tmcg_openpgp_hashalgo_t)ha); return gcry_md_get_algo_dlen(a) > 0; }
static bool same_sig(const TMCG_OpenPGP_Signature *a, const TMCG_OpenPGP_Signature *b) {
	return a->version == b->version && a->type == b->type && a->pkalgo == b->pkalgo && a->hashalgo == b->hashalgo && a->hspd == b->hspd &&
		a->left == b->left && gcry_mpi_cmp(a->rsa_md, b->rsa_md) == 0 && gcry_mpi_cmp(a->dsa_r, b->dsa_r) == 0 && gcry_mpi_cmp(a->dsa_s, b->dsa_s) == 0;
}
// public key with one octet of one parameter changed
static gcry_sexp_t tampered_key(const Key &k, size_t which, size_t pos, unsigned bit, bool &possible) {
	possible = false;
	std::vector<gcry_mpi_t> m(k.params.size(), (gcry_mpi_t)NULL);
	gcry_error_t e = 1;
	switch (k.params.size()) {
	case 1: e = gcry_sexp_extract_param(k.key, NULL, k.params.c_str(), &m[0], NULL); break;
	case 2: e = gcry_sexp_extract_param(k.key, NULL, k.params.c_str(), &m[0], &m[1], NULL); break;
	case 4: e = gcry_sexp_extract_param(k.key, NULL, k.params.c_str(), &m[0], &m[1], &m[2], &m[3], NULL); break;
	}
	if (e) return NULL;
	unsigned nb = gcry_mpi_get_nbits(m[which]);
	gcry_sexp_t res = NULL;
	if (nb > 0) {
		size_t bitpos = (pos * 8 + bit) % nb;
		if (gcry_mpi_test_bit(m[which], bitpos)) gcry_mpi_clear_bit(m[which], bitpos); else gcry_mpi_set_bit(m[which], bitpos);
		size_t eo = 0;
		switch (k.params.size()) {
		case 1: e = gcry_sexp_build(&res, &eo, k.pubfmt.c_str(), m[0]); break;
		case 2: e = gcry_sexp_build(&res, &eo, k.pubfmt.c_str(), m[0], m[1]); break;
		case 4: e = gcry_sexp_build(&res, &eo, k.pubfmt.c_str(), m[0], m[1], m[2], m[3]); break;
		}
		possible = !e;
	}
	for (auto x : m) gcry_mpi_release(x);
	return possible ? res : NULL;
}
static void sig_suite(const Key &k) {
	static const size_t LENS[] = { 0, 1, 2, 55, 56, 63, 64, 65, 119, 127, 128, 200, 1000 };
	time_t now = time(NULL);
	for (int hi = 0; hi < 3; hi++) for (int type = 0; type < 2; type++) {
		int ha = HASHES[hi];
		size_t nl = T ? 13 : 4;
		for (size_t li = 0; li < nl; li++) {
			size_t n = T ? LENS[li] : LENS[(li * 5 + hi + type) % 13];
			oct data = type ? gen_text(n) : rnd_oct(n);
			Signed sg;
			std::string ctx = k.name + "/hash" + std::to_string(ha) + "/type" + std::to_string(type) + "/len" + std::to_string(n);
			if (!make_doc_sig(k, ha, type, data, now - 5, 0, sg)) { propfail("sign-fails-" + k.name, "cannot create signature " + ctx); continue; }
			TMCG_OpenPGP_Signature *sig = NULL;
			if (!PGP::SignatureParse(sg.pkt, 0, sig) || !sig) { propfail("sig-parse-" + k.name, "emitted signature packet does not parse " + ctx + " pkt=" + xb(S(sg.pkt))); continue; }
			bool ok = sig->VerifyData(k.key, data, 0) && sig->CheckValidity(now - 10, 0);
			if (!ok) propfail("sig-honest-rejected-" + k.name, "honest signature does not verify " + ctx + " pkt=" + xb(S(sg.pkt)));
			g_cases++;
			if (ok) {
				// text: every line-ending form of the same text verifies
				if (type == 1) {
					oct crlf; unsigned char last = '!'; for (unsigned char c : data) { if (c == '\n' && last != '\r') crlf.push_back('\r'); crlf.push_back(c); last = c; }
					if (!sig->VerifyData(k.key, crlf, 0)) propfail("sig-text-crlf-" + k.name, "CRLF form of the signed text does not verify " + ctx);
				}
				// every octet of the signed data
				size_t stepd = (T || data.size() <= 130) ? 1 : 7;
				for (size_t i = 0; i < data.size(); i += stepd) {
					oct d2 = data; d2[i] ^= (unsigned char)(1u << gen().below(8));
					if (sig->VerifyData(k.key, d2, 0)) propfail("sig-data-tamper-accepted-" + k.name, "signature verifies over changed data (octet " + std::to_string(i) + ") " + ctx + " data=" + xb(S(data)));
					g_cases++;
				}
				{ oct d2 = data; d2.push_back(0); if (sig->VerifyData(k.key, d2, 0)) propfail("sig-data-tamper-accepted-" + k.name, "signature verifies over extended data " + ctx);
				  if (!data.empty()) { d2 = data; d2.pop_back(); if (sig->VerifyData(k.key, d2, 0)) propfail("sig-data-tamper-accepted-" + k.name, "signature verifies over truncated data " + ctx); } }
				// every octet of the signature packet (all eight bits in the thorough tier)
				for (size_t i = 0; i < sg.pkt.size(); i++) for (unsigned b = 0; b < (T ? 8u : 1u); b++) {
					oct p2 = sg.pkt; p2[i] ^= (unsigned char)(1u << (T ? b : gen().below(8)));
					TMCG_OpenPGP_Signature *s2 = NULL;
					bool parsed = PGP::SignatureParse(p2, 0, s2) && s2;
					bool acc = false;
					if (parsed && !hash_known(s2->hashalgo)) {   // digest of length 0: call it in a child process
						int r = verify_in_child(s2, k.key, data);
						if (r < 0) propfail("sig-verify-crash-unknown-hash", "VerifyData is killed by a signal on a signature packet naming hash algorithm " + std::to_string((int)s2->hashalgo) + " (" + k.name + ") pkt=" + xb(S(p2)));
						acc = (r == 1);
					} else if (parsed) acc = s2->VerifyData(k.key, data, 0);
					if (acc) {
						if (same_sig(sig, s2)) g_benign++;   // another encoding of the same signature (e.g. MPI bit count)
						else propfail("sig-packet-tamper-accepted-" + k.name, "changed signature packet (octet " + std::to_string(i) + ") verifies " + ctx + " pkt=" + xb(S(p2)) + " data=" + xb(S(data)));
					}
					if (s2) delete s2;
					g_cases++;
				}
				// key material
				if (li == 0) for (size_t w = 0; w < k.params.size(); w++) for (size_t pos = 0; pos < (T ? 400u : 40u); pos++) {
					bool possible = false; gcry_sexp_t k2 = tampered_key(k, w, T ? pos : gen().below(400), gen().below(8), possible);
					if (!possible) continue;
					// libgcrypt itself may abort on mathematically invalid keys (e.g. DSA q not prime): isolate the call
					if (guarded_verify(sig, k2, data) == 1) propfail("sig-key-tamper-accepted-" + k.name, "signature verifies under a changed key (parameter " + std::string(1, k.params[w]) + ") " + ctx);
					gcry_sexp_release(k2); g_cases++;
				}
			}
			delete sig; gcry_mpi_release(sg.r); gcry_mpi_release(sg.s);
		}
	}
	// weak hashes are created by the library if asked, but must be refused by CheckValidity; v3/other types refused by VerifyData
	static const int WEAK[] = { TMCG_OPENPGP_HASHALGO_SHA1, TMCG_OPENPGP_HASHALGO_RMD160, TMCG_OPENPGP_HASHALGO_SHA224 };
	for (int wi = 0; wi < 3; wi++) {
		if (k.pkalgo == TMCG_OPENPGP_PKALGO_EDDSA) continue;
		oct data = rnd_oct(30); Signed sg;
		if (!make_doc_sig(k, WEAK[wi], 0, data, now - 5, 0, sg)) continue;   // the primitive may refuse (e.g. hash too short): fine
		TMCG_OpenPGP_Signature *sig = NULL;
		if (PGP::SignatureParse(sg.pkt, 0, sig) && sig) {
			if (sig->CheckValidity(now - 10, 0)) propfail("sig-weak-hash-accepted", "signature with hash algorithm " + std::to_string(WEAK[wi]) + " passes CheckValidity (" + k.name + ")");
			delete sig;
		}
		gcry_mpi_release(sg.r); gcry_mpi_release(sg.s); g_cases++;
	}
	// expiry, key age, future dating on real signatures
	struct VC { long dt; long exp; long dkey; bool want; const char *what; };
	static const VC V[] = { { -1000, 0, -10, true, "plain" }, { -1000, 500, -10, false, "expired" }, { -1000, 2000, -10, true, "not-yet-expired" },
		{ -1000, 0, 1, false, "older-than-key" }, { -1000, 0, 0, true, "same-time-as-key" }, { 90000 + 900, 0, -200000, false, "future" }, { 90000 - 900, 0, -200000, true, "within-25h" } };
	for (const VC &v : V) {
		oct data = rnd_oct(20); Signed sg; time_t st = time(NULL) + v.dt;
		if (!make_doc_sig(k, TMCG_OPENPGP_HASHALGO_SHA256, 0, data, st, v.exp, sg)) continue;
		TMCG_OpenPGP_Signature *sig = NULL;
		if (PGP::SignatureParse(sg.pkt, 0, sig) && sig) {
			bool got = sig->CheckValidity(st + v.dkey, 0) && sig->VerifyData(k.key, data, 0);
			if (got != v.want) propfail(std::string("sig-validity-") + v.what, std::string("signature (") + v.what + ", " + k.name + ") is " + (got ? "accepted" : "refused"));
			delete sig;
		}
		gcry_mpi_release(sg.r); gcry_mpi_release(sg.s); g_cases++;
	}
}


// what VerifyData itself hashes (the verifier builds the trailer from the parsed packet), versions 3, 4 and 5
static void verify_hash_records() {
	gcry_mpi_t p = NULL, q = NULL, g = NULL, y = NULL, r = NULL, s2 = NULL;
	{ oct b = rnd_oct(128); b[0] |= 0x80; gcry_mpi_scan(&p, GCRYMPI_FMT_USG, b.data(), b.size(), NULL); b = rnd_oct(20); b[0] |= 0x80; gcry_mpi_scan(&q, GCRYMPI_FMT_USG, b.data(), b.size(), NULL);
	  b = rnd_oct(127); gcry_mpi_scan(&g, GCRYMPI_FMT_USG, b.data(), b.size(), NULL); b = rnd_oct(127); gcry_mpi_scan(&y, GCRYMPI_FMT_USG, b.data(), b.size(), NULL);
	  b = rnd_oct(19); b[0] |= 1; gcry_mpi_scan(&r, GCRYMPI_FMT_USG, b.data(), b.size(), NULL); b = rnd_oct(19); b[0] |= 1; gcry_mpi_scan(&s2, GCRYMPI_FMT_USG, b.data(), b.size(), NULL); }
	gcry_sexp_t key = NULL; size_t eo = 0; gcry_sexp_build(&key, &eo, "(public-key (dsa (p %M) (q %M) (g %M) (y %M)))", p, q, g, y);
	for (int k = 0; k < (T ? 600 : 150); k++) {
		int version = 3 + gen().below(3), type = gen().below(2), ha = HASHES[gen().below(3)];
		uint32_t ct = 1 + gen().below(1UL << 31); oct data = type ? gen_text(gen().below(80)) : rnd_oct(gen().below(120)), issuer = rnd_oct(version == 5 ? 32 : 8), left = rnd_oct(2), pkt, hashed;
		if (version == 3) {
			oct b; b.push_back(3); b.push_back(5); b.push_back(type); oct tm; PGP::PacketTimeEncode(ct, tm); b.insert(b.end(), tm.begin(), tm.end()); b.insert(b.end(), issuer.begin(), issuer.end());
			b.push_back(TMCG_OPENPGP_PKALGO_DSA); b.push_back(ha); b.insert(b.end(), left.begin(), left.end()); PGP::PacketMPIEncode(r, b); PGP::PacketMPIEncode(s2, b);
			PGP::PacketTagEncode(2, pkt); PGP::PacketLengthEncode(b.size(), pkt); pkt.insert(pkt.end(), b.begin(), b.end());
		} else {
			if (version == 4) PGP::PacketSigPrepareDetachedSignature((tmcg_openpgp_signature_t)type, TMCG_OPENPGP_PKALGO_DSA, (tmcg_openpgp_hashalgo_t)ha, ct, gen().below(2000), gen().coin() ? "" : "pol", issuer, hashed);
			else PGP::PacketSigPrepareDetachedSignatureV5((tmcg_openpgp_signature_t)type, TMCG_OPENPGP_PKALGO_DSA, (tmcg_openpgp_hashalgo_t)ha, ct, gen().below(2000), "", issuer, hashed);
			PGP::PacketSigEncode(hashed, left, r, s2, pkt);
		}
		TMCG_OpenPGP_Signature *sig = NULL;
		if (!PGP::SignatureParse(pkt, 0, sig) || !sig) { if (version != 3) propfail("verify-parse", "prepared version " + std::to_string(version) + " signature does not parse"); continue; }
		bool lit = gen().coin(); std::string fn = S(gen_text(gen().below(12))); for (auto &c : fn) if (!c) c = 'f'; uint32_t ts = gen().below(1UL << 31); int fmt = lit ? (type ? 0x74 : 0x62) : 0;
		g_cap = true; g_hash_in.clear();
		if (lit) sig->VerifyData(key, data, fmt, fn, ts, 0); else sig->VerifyData(key, data, 0);
		g_cap = false;
		oct meta; if (version == 5) { if (lit) { meta.push_back(fmt); meta.push_back(fn.size()); meta.insert(meta.end(), fn.begin(), fn.end()); oct tm; PGP::PacketTimeEncode(ts, tm); meta.insert(meta.end(), tm.begin(), tm.end()); } else meta = oct(6, 0); }
		Rec("hin_verify").d(version).d(type).u(sig->pkalgo).u(sig->hashalgo).b(S(sig->hspd)).u((unsigned long)sig->creationtime).b(S(meta)).b(S(data)).b(g_hash_in);
		delete sig; g_cases++;
	}
	gcry_sexp_release(key); gcry_mpi_release(p); gcry_mpi_release(q); gcry_mpi_release(g); gcry_mpi_release(y); gcry_mpi_release(r); gcry_mpi_release(s2);
}


// EdDSA signature values as handed to the primitive, for generated R and S of every length (deterministic)
static void eddsa_sigval_records(const Key &ed) {
	for (int k = 0; k < (T ? 1500 : 400); k++) {
		auto val = [&](unsigned sel) { size_t n; switch (sel) { case 0: n = 32; break; case 1: n = 31; break; case 2: n = 30; break; case 3: n = 33; break; case 4: n = 1 + gen().below(29); break; default: n = 32; }
			oct b = rnd_oct(n); if (b[0] == 0) b[0] = 1; if (sel == 5) b[0] |= 0x80; if (sel == 6) b[0] &= 0x7F, b[0] |= 1; if (gen().below(40) == 0) b.assign(1, 0); return b; };
		oct rb = val(gen().below(7)), sb = val(gen().below(7)), hash = rnd_oct(32);
		gcry_mpi_t r = NULL, s = NULL; gcry_mpi_scan(&r, GCRYMPI_FMT_USG, rb.data(), rb.size(), NULL); gcry_mpi_scan(&s, GCRYMPI_FMT_USG, sb.data(), sb.size(), NULL);
		g_capsig = true; g_sig_seen = false; PGP::AsymmetricVerifyEdDSA(hash, ed.key, r, s); g_capsig = false;
		char *rh = NULL, *sh = NULL; { unsigned char *b = NULL; size_t n; gcry_mpi_aprint(GCRYMPI_FMT_HEX, &b, &n, r); rh = (char*)b; gcry_mpi_aprint(GCRYMPI_FMT_HEX, &b, &n, s); sh = (char*)b; }
		auto low = [](std::string x) { size_t i = 0; while (i + 1 < x.size() && x[i] == '0') i++; x = x.substr(i); for (auto &c : x) c = tolower(c); return x; };
		Rec("eddsa_sigval").t(low(rh)).t(low(sh)).t(g_sig_seen ? xb(g_sig_r) + ":" + xb(g_sig_s) : std::string("none"));
		gcry_free(rh); gcry_free(sh); gcry_mpi_release(r); gcry_mpi_release(s); g_cases++;
	}
}
// many honest signatures per algorithm through the whole path (prepare, hash, sign, encode, parse, verify); among them
// those whose r / s (RSA: signature value) lost one or more leading zero octets in the MPI encoding
static void many_signatures(const Key &k, size_t count) {
	size_t full = 0; time_t now = time(NULL); size_t short_r = 0, short_s = 0, short_both = 0;
	for (size_t i = 0; i < count; i++) {
		oct data = rnd_oct(1 + gen().below(40)); Signed sg; int type = i & 1, ha = HASHES[i % 3];
		if (type) for (auto &c : data) if (c == '\r') c = 'x';
		if (!make_doc_sig(k, ha, type, data, now - 5, 0, sg)) { propfail("sign-fails-" + k.name, "cannot create signature number " + std::to_string(i)); continue; }
		size_t rl = (gcry_mpi_get_nbits(sg.r) + 7) / 8, sl = (gcry_mpi_get_nbits(sg.s) + 7) / 8;
		if (rl > full) full = rl; if (sl > full) full = sl;
		TMCG_OpenPGP_Signature *sig = NULL;
		bool ok = PGP::SignatureParse(sg.pkt, 0, sig) && sig && sig->VerifyData(k.key, data, 0);
		if (!ok) propfail("sig-honest-rejected-" + k.name, "honest signature does not verify (r has " + std::to_string(rl) + " octets, s has " + std::to_string(sl) + " octets) pkt=" + xb(S(sg.pkt)) + " data=" + xb(S(data)));
		if (k.pkalgo != TMCG_OPENPGP_PKALGO_RSA) { if (rl < full && sl >= full) short_r++; if (sl < full && rl >= full) short_s++; if (rl < full && sl < full) short_both++; }
		else if (sl < full) short_s++;
		if (sig) delete sig; gcry_mpi_release(sg.r); gcry_mpi_release(sg.s); g_cases++;
	}
	printf("SHORTMPI %s r=%zu s=%zu both=%zu of %zu\n", k.name.c_str(), short_r, short_s, short_both, count);
}

// CheckValidity verdicts for the model: packets with arbitrary MPIs (no signing needed)
static void validity_records() {
	gcry_mpi_t r = gcry_mpi_new(64), s = gcry_mpi_new(64); gcry_mpi_set_ui(r, 0x123456789UL); gcry_mpi_set_ui(s, 0x1234567UL);
	static const int HA[] = { 0, 1, 2, 3, 8, 9, 10, 11, 12, 13, 14, 100 };
	for (int k = 0; k < (T ? 3000 : 600); k++) {
		time_t now = time(NULL);
		long dt; switch (gen().below(6)) { case 0: dt = 90000 + (long)gen().below(7) - 3 + (gen().coin() ? 30 : -30); break; case 1: dt = -(long)gen().below(100000); break; case 2: dt = (long)gen().below(200000); break; default: dt = -(long)gen().below(5000); }
		long ct = (long)now + dt; if (ct < 1) ct = 1;
		long ex; switch (gen().below(4)) { case 0: ex = 0; break; case 1: ex = std::max<long>(0, -dt + (long)gen().below(61) - 30 + (gen().coin() ? 40 : -40)); break; default: ex = gen().below(10000); }
		long kct = ct + (gen().below(3) ? -(long)gen().below(1000) : (long)gen().below(3) - 1);
		int ha = HA[gen().below(12)];
		oct hashed, left = rnd_oct(2), pkt, issuer = rnd_oct(8);
		PGP::PacketSigPrepareDetachedSignature((tmcg_openpgp_signature_t)0, TMCG_OPENPGP_PKALGO_DSA, (tmcg_openpgp_hashalgo_t)ha, ct, ex, "", issuer, hashed);
		PGP::PacketSigEncode(hashed, left, r, s, pkt);
		TMCG_OpenPGP_Signature *sig = NULL;
		if (!PGP::SignatureParse(pkt, 0, sig) || !sig) { propfail("validity-parse", "prepared signature does not parse"); continue; }
		bool v = sig->CheckValidity(kct, 0);
		time_t now2 = time(NULL);
		if (now2 == now && sig->creationtime == ct && sig->expirationtime == ex)
			Rec("validity").i((long)now).i(ct).i(ex).i(kct).u(ha).d(v);
		if (v == false && sig->expired != (ex != 0 && (long)now > ct + ex) && now2 == now) propfail("validity-expired-flag", "expired flag inconsistent");
		delete sig; g_cases++;
	}
	gcry_mpi_release(r); gcry_mpi_release(s);
}


// ---------------------------------------------------------------------------------------------------------
// key blocks: signatures read through PublicKeyBlockParse / PrivateKeyBlockParse / MessageParse / SignatureParse
// ---------------------------------------------------------------------------------------------------------
static const tmcg_openpgp_byte_t *oid_of(const char *name) {
	for (size_t i = 0; tmcg_openpgp_oidtable[i].name != NULL; i++) if (std::string(name) == tmcg_openpgp_oidtable[i].name) return tmcg_openpgp_oidtable[i].oid;
	return NULL;
}
static gcry_mpi_t mpi_from(const oct &b) { gcry_mpi_t t = NULL; gcry_mpi_scan(&t, GCRYMPI_FMT_USG, b.data(), b.size(), NULL); return t; }
static gcry_mpi_t gen_mpi(unsigned bits) { oct b = rnd_oct((bits + 7) / 8); b[0] |= 0x80; return mpi_from(b); }
// the hashed part of a version-4 signature with exactly the subpackets asked for
static oct mk_hashed(int type, int pkalgo, int ha, uint32_t ct, uint32_t sigexp, uint32_t keyexp, int flags, const oct &fpr) {
	oct sub, t;
	PGP::PacketTimeEncode(ct, t); PGP::SubpacketEncode(2, false, t, sub);
	if (sigexp) { t.clear(); PGP::PacketTimeEncode(sigexp, t); PGP::SubpacketEncode(3, false, t, sub); }
	if (keyexp) { t.clear(); PGP::PacketTimeEncode(keyexp, t); PGP::SubpacketEncode(9, false, t, sub); }
	if (flags >= 0) { oct f; f.push_back(flags); PGP::SubpacketEncode(27, false, f, sub); }
	if (fpr.size() == 20) { oct kid(fpr.begin() + 12, fpr.end()); PGP::SubpacketEncode(16, false, kid, sub); oct f4; f4.push_back(4); f4.insert(f4.end(), fpr.begin(), fpr.end()); PGP::SubpacketEncode(33, false, f4, sub); }
	{ oct ft; ft.push_back(1); PGP::SubpacketEncode(30, false, ft, sub); }
	oct out; out.push_back(4); out.push_back(type); out.push_back(pkalgo); out.push_back(ha); out.push_back(sub.size() >> 8); out.push_back(sub.size() & 0xFF);
	out.insert(out.end(), sub.begin(), sub.end());
	return out;
}
static std::string fields_tok(const TMCG_OpenPGP_Signature *s) {
	return hx(s->version) + ":" + hx(s->type) + ":" + hx(s->pkalgo) + ":" + hx(s->hashalgo) + ":" + hx((unsigned long)s->creationtime) + ":" + hx((unsigned long)s->expirationtime) + ":" +
		hx((unsigned long)s->keyexpirationtime) + ":" + xb(S(s->keyflags)) + ":" + xb(S(s->issuer));
}
static void fields_rec(const char *path, const TMCG_OpenPGP_Signature *s) {
	oct body; if (PGP::PacketBodyExtract(s->packet, 0, body) != 2) { propfail("sigfields-packet", std::string("signature object from path ") + path + " does not carry its packet"); return; }
	Rec("sigfields").t(path).b(S(body)).t(fields_tok(s)); g_cases++;
}
struct SigSpec { int type; uint32_t ct, sigexp, keyexp; int ha; int flags; };
static void collect(const TMCG_OpenPGP_Pubkey *pub, std::vector<const TMCG_OpenPGP_Signature*> &v) {
	auto add = [&](const TMCG_OpenPGP_Signatures &l) { for (size_t i = 0; i < l.size(); i++) v.push_back(l[i]); };
	add(pub->selfsigs); add(pub->keyrevsigs); add(pub->certrevsigs);
	for (auto u : pub->userids) { add(u->selfsigs); add(u->revsigs); add(u->certsigs); }
	for (auto u : pub->userattributes) { add(u->selfsigs); add(u->revsigs); add(u->certsigs); }
	for (auto sk : pub->subkeys) { add(sk->selfsigs); add(sk->bindsigs); add(sk->pbindsigs); add(sk->keyrevsigs); add(sk->certrevsigs); }
}
// deterministic part: every signing algorithm's packet layout through all four parse paths, fields vs model
static void sigfields_suite() {
	static const int ALG[] = { TMCG_OPENPGP_PKALGO_RSA, TMCG_OPENPGP_PKALGO_DSA, TMCG_OPENPGP_PKALGO_ECDSA, TMCG_OPENPGP_PKALGO_EDDSA, TMCG_OPENPGP_PKALGO_RSA_SIGN_ONLY };
	for (int rep = 0; rep < (T ? 12 : 3); rep++) for (int ai = 0; ai < 5; ai++) {
		int alg = ALG[ai]; uint32_t kt = 1000000 + gen().below(1UL << 30);
		gcry_mpi_t p = gen_mpi(1024), q = gen_mpi(160), g = gen_mpi(1020), y = gen_mpi(1023), x = gen_mpi(159), e = gen_mpi(17);
		oct pubpkt, secpkt, subpkt, ssbpkt;
		if (alg == TMCG_OPENPGP_PKALGO_RSA || alg == TMCG_OPENPGP_PKALGO_RSA_SIGN_ONLY) PGP::PacketPubEncode(kt, (tmcg_openpgp_pkalgo_t)alg, p, e, g, y, pubpkt);
		else if (alg == TMCG_OPENPGP_PKALGO_DSA) { PGP::PacketPubEncode(kt, (tmcg_openpgp_pkalgo_t)alg, p, q, g, y, pubpkt); tmcg_openpgp_secure_string_t nopw; PGP::PacketSecEncode(kt, (tmcg_openpgp_pkalgo_t)alg, p, q, g, y, x, nopw, secpkt); }
		else { const tmcg_openpgp_byte_t *oid = oid_of(alg == TMCG_OPENPGP_PKALGO_ECDSA ? "NIST P-256" : "Ed25519");
			oct pt = rnd_oct(alg == TMCG_OPENPGP_PKALGO_ECDSA ? 65 : 33); pt[0] = (alg == TMCG_OPENPGP_PKALGO_ECDSA) ? 0x04 : 0x40; gcry_mpi_t ec = mpi_from(pt);
			PGP::PacketPubEncode(kt, (tmcg_openpgp_pkalgo_t)alg, oid[0], oid + 1, ec, TMCG_OPENPGP_HASHALGO_SHA256, TMCG_OPENPGP_SKALGO_AES128, pubpkt); gcry_mpi_release(ec); }
		PGP::PacketSubEncode(kt + 5, TMCG_OPENPGP_PKALGO_ELGAMAL, p, q, g, y, subpkt);
		{ tmcg_openpgp_secure_string_t nopw; PGP::PacketSsbEncode(kt + 5, TMCG_OPENPGP_PKALGO_ELGAMAL, p, q, g, y, x, nopw, ssbpkt); }
		oct pubbody, fpr; PGP::PacketBodyExtract(pubpkt, 0, pubbody); PGP::FingerprintCompute(pubbody, fpr);
		std::string uidstr = "Key " + std::to_string(rep) + " <k@example.org>"; oct uidpkt; PGP::PacketUidEncode(uidstr, uidpkt);
		auto fake_sig = [&](int type, int flags) {
			uint32_t ct = kt + gen().below(100000), se = gen().below(3) ? 1 + gen().below(1UL << 20) : 0, ke = gen().below(3) ? 1 + gen().below(1UL << 20) : 0;
			if (se == ke && se) ke += 7;
			oct hashed = mk_hashed(type, alg, HASHES[gen().below(3)], ct, se, ke, flags, fpr), left = rnd_oct(2), pkt;
			gcry_mpi_t r = gen_mpi(alg == TMCG_OPENPGP_PKALGO_RSA || alg == TMCG_OPENPGP_PKALGO_RSA_SIGN_ONLY ? 1020 : 250), s2 = gen_mpi(250);
			if (alg == TMCG_OPENPGP_PKALGO_RSA || alg == TMCG_OPENPGP_PKALGO_RSA_SIGN_ONLY) PGP::PacketSigEncode(hashed, left, r, pkt); else PGP::PacketSigEncode(hashed, left, r, s2, pkt);
			gcry_mpi_release(r); gcry_mpi_release(s2); return pkt; };
		std::vector<oct> sigs;
		oct block = pubpkt, prvblock = secpkt;
		auto app = [&](const oct &o, bool both = true) { block.insert(block.end(), o.begin(), o.end()); if (both) prvblock.insert(prvblock.end(), o.begin(), o.end()); };
		{ oct s1 = fake_sig(0x1F, 3); sigs.push_back(s1); app(s1); }                                  // direct key
		{ oct s1 = fake_sig(0x20, -1); sigs.push_back(s1); app(s1); }                                 // key revocation
		app(uidpkt);
		for (int ty = 0x10; ty <= 0x13; ty++) { oct s1 = fake_sig(ty, 3); sigs.push_back(s1); app(s1); }   // certifications
		{ oct s1 = fake_sig(0x30, -1); sigs.push_back(s1); app(s1); }                                 // certification revocation
		block.insert(block.end(), subpkt.begin(), subpkt.end()); prvblock.insert(prvblock.end(), ssbpkt.begin(), ssbpkt.end());
		{ oct s1 = fake_sig(0x18, 12); sigs.push_back(s1); app(s1); }                                 // subkey binding
		{ oct s1 = fake_sig(0x28, -1); sigs.push_back(s1); app(s1); }                                 // subkey revocation
		// path 1: SignatureParse
		for (const oct &sp : sigs) { TMCG_OpenPGP_Signature *sg = NULL; if (PGP::SignatureParse(sp, 0, sg) && sg) { fields_rec("sigparse", sg); delete sg; } }
		// path 2: public key block
		{ TMCG_OpenPGP_Pubkey *pub = NULL;
		  if (!PGP::PublicKeyBlockParse(block, 0, pub) || !pub) propfail("keyblock-parse", "well-formed key block (pk algorithm " + std::to_string(alg) + ") does not parse");
		  else { std::vector<const TMCG_OpenPGP_Signature*> v; collect(pub, v);
			if (v.size() != sigs.size()) propfail("keyblock-signatures-lost", "key block with " + std::to_string(sigs.size()) + " self-signatures (pk algorithm " + std::to_string(alg) + ") yields " + std::to_string(v.size()) + " signature objects");
			for (auto sg : v) fields_rec("keyblock", sg); }
		  if (pub) delete pub; }
		// path 3: private key block (the library encodes DSA / ElGamal secret keys only)
		if (!secpkt.empty()) { TMCG_OpenPGP_Prvkey *prv = NULL; tmcg_openpgp_secure_string_t nopw;
		  if (PGP::PrivateKeyBlockParse(prvblock, 0, nopw, prv) && prv && prv->pub) { std::vector<const TMCG_OpenPGP_Signature*> v; collect(prv->pub, v); for (auto sg : v) fields_rec("prvblock", sg); }
		  else propfail("prvblock-parse", "well-formed private key block does not parse");
		  if (prv) delete prv; }
		// path 4: signature inside a message
		{ oct m; oct hashed = mk_hashed(gen().below(2), alg, HASHES[gen().below(3)], kt + 77, gen().coin() ? 4242 : 0, 0, -1, fpr), left = rnd_oct(2), sp;
		  gcry_mpi_t r = gen_mpi(alg == TMCG_OPENPGP_PKALGO_RSA || alg == TMCG_OPENPGP_PKALGO_RSA_SIGN_ONLY ? 1020 : 250), s2 = gen_mpi(250);
		  if (alg == TMCG_OPENPGP_PKALGO_RSA || alg == TMCG_OPENPGP_PKALGO_RSA_SIGN_ONLY) PGP::PacketSigEncode(hashed, left, r, sp); else PGP::PacketSigEncode(hashed, left, r, s2, sp);
		  gcry_mpi_release(r); gcry_mpi_release(s2);
		  oct lit; PGP::PacketLitEncode(rnd_oct(10), lit); for (int i = 0; i < 4; i++) lit[lit.size() - 14 + i] = 0;   // fixed date: records stay reproducible
		  m = sp; m.insert(m.end(), lit.begin(), lit.end());
		  TMCG_OpenPGP_Message *msg = NULL;
		  if (PGP::MessageParse(m, 0, msg) && msg) { for (size_t i = 0; i < msg->signatures.size(); i++) fields_rec("message", msg->signatures[i]); }
		  if (msg) delete msg; }
		gcry_mpi_release(p); gcry_mpi_release(q); gcry_mpi_release(g); gcry_mpi_release(y); gcry_mpi_release(x); gcry_mpi_release(e);
	}
}

// real keys: key blocks whose self-signatures are expired / carry an expired key / are too old / future / weakly hashed
struct Primary { const Key *k; oct pubpkt, pubbody, fpr; uint32_t kct; };
static bool primary_packet(const Key &k, uint32_t kct, Primary &P) {
	P.k = &k; P.kct = kct;
	if (k.pkalgo == TMCG_OPENPGP_PKALGO_RSA) { gcry_mpi_t n = NULL, e = NULL; if (gcry_sexp_extract_param(k.key, NULL, "ne", &n, &e, NULL)) return false;
		PGP::PacketPubEncode(kct, TMCG_OPENPGP_PKALGO_RSA, n, e, n, e, P.pubpkt); gcry_mpi_release(n); gcry_mpi_release(e); }
	else if (k.pkalgo == TMCG_OPENPGP_PKALGO_DSA) { gcry_mpi_t p = NULL, q = NULL, g = NULL, y = NULL; if (gcry_sexp_extract_param(k.key, NULL, "pqgy", &p, &q, &g, &y, NULL)) return false;
		PGP::PacketPubEncode(kct, TMCG_OPENPGP_PKALGO_DSA, p, q, g, y, P.pubpkt); gcry_mpi_release(p); gcry_mpi_release(q); gcry_mpi_release(g); gcry_mpi_release(y); }
	else { gcry_sexp_t t = gcry_sexp_find_token(k.key, "q", 0); if (!t) return false; size_t n = 0; unsigned char *b = (unsigned char*)gcry_sexp_nth_buffer(t, 1, &n); gcry_sexp_release(t); if (!b) return false;
		oct pt(b, b + n); gcry_free(b); if (k.pkalgo == TMCG_OPENPGP_PKALGO_EDDSA && pt.size() == 32) pt.insert(pt.begin(), 0x40);
		const tmcg_openpgp_byte_t *oid = oid_of(k.pkalgo == TMCG_OPENPGP_PKALGO_ECDSA ? "NIST P-256" : "Ed25519"); gcry_mpi_t ec = mpi_from(pt);
		PGP::PacketPubEncode(kct, (tmcg_openpgp_pkalgo_t)k.pkalgo, oid[0], oid + 1, ec, TMCG_OPENPGP_HASHALGO_SHA256, TMCG_OPENPGP_SKALGO_AES128, P.pubpkt); gcry_mpi_release(ec); }
	if (P.pubpkt.empty()) return false;
	PGP::PacketBodyExtract(P.pubpkt, 0, P.pubbody); PGP::FingerprintCompute(P.pubbody, P.fpr);
	return true;
}
// kind: 0 certification over uid, 1 direct key / key revocation, 2 subkey binding
static bool real_sig(const Primary &P, int kind, const SigSpec &sp, const std::string &uid, const oct &subbody, oct &pkt) {
	oct hashed = mk_hashed(sp.type, P.k->pkalgo, sp.ha, sp.ct, sp.sigexp, sp.keyexp, sp.flags, P.fpr), hash, left;
	if (kind == 0) PGP::CertificationHash(P.pubbody, uid, oct(), hashed, (tmcg_openpgp_hashalgo_t)sp.ha, hash, left);
	else if (kind == 1) PGP::KeyHash(P.pubbody, hashed, (tmcg_openpgp_hashalgo_t)sp.ha, hash, left);
	else PGP::KeyHash(P.pubbody, subbody, hashed, (tmcg_openpgp_hashalgo_t)sp.ha, hash, left);
	gcry_mpi_t r = NULL, s = NULL; if (!do_sign(*P.k, sp.ha, hash, r, s)) { gcry_mpi_release(r); gcry_mpi_release(s); return false; }
	if (P.k->pkalgo == TMCG_OPENPGP_PKALGO_RSA) PGP::PacketSigEncode(hashed, left, s, pkt); else PGP::PacketSigEncode(hashed, left, r, s, pkt);
	gcry_mpi_release(r); gcry_mpi_release(s); return true;
}
static bool ref_valid(long now, const SigSpec &s, long kct) {
	return !(s.sigexp && now > (long)s.ct + (long)s.sigexp) && (long)s.ct >= kct && (long)s.ct <= now + 90000 &&
		(s.ha == TMCG_OPENPGP_HASHALGO_SHA256 || s.ha == TMCG_OPENPGP_HASHALGO_SHA384 || s.ha == TMCG_OPENPGP_HASHALGO_SHA512);
}
static void keyblock_suite(const Key &k, const Key &subrsa) {
	gcry_mpi_t sn = NULL, se = NULL; if (gcry_sexp_extract_param(subrsa.key, NULL, "ne", &sn, &se, NULL)) return;
	const int H = TMCG_OPENPGP_HASHALGO_SHA256, W = TMCG_OPENPGP_HASHALGO_SHA1;
	struct Case { const char *name; long uid_dct, uid_se, uid_ke; int uid_ha; int direct; long d_se, d_ke; long b_dct, b_se, b_ke; int b_ha; int rev; long r_se;
		bool want_self, want_uid, want_pubexp, want_subs, want_subexp, want_revoked; int urev; long urev_se; int srev; long srev_se; };
	// times relative to now; key created at now-20000, subkey at now-19000; dct = creation time of the signature minus now
	static const Case C[] = {
		{ "honest",            -10000, 0, 0, H, 1, 0, 0,         -10000, 0, 0, H, 0, 0,       true,  true,  false, true,  false, false },
		{ "unexpired",         -10000, 100000, 100000, H, 1, 100000, 100000, -10000, 100000, 100000, H, 0, 0, true, true, false, true, false, false },
		{ "uid-sig-expired",   -10000, 1000, 0, H, 0, 0, 0,      -10000, 0, 0, H, 0, 0,       false, false, false, true,  false, false },
		{ "uid-sig-expired-keyexp-far", -10000, 1000, 900000, H, 0, 0, 0, -10000, 0, 0, H, 0, 0, false, false, false, true, false, false },
		{ "direct-sig-expired", -10000, 0, 0, H, 1, 1000, 1000,  -10000, 0, 0, H, 0, 0,       true,  true,  false, true,  false, false },
		{ "bind-sig-expired",  -10000, 0, 0, H, 0, 0, 0,         -10000, 1000, 0, H, 0, 0,    true,  true,  false, false, false, false },
		{ "bind-sig-expired-keyexp-far", -10000, 0, 0, H, 0, 0, 0, -10000, 1000, 900000, H, 0, 0, true, true, false, false, false, false },
		{ "key-expired",       -10000, 0, 1000, H, 0, 0, 0,      -10000, 0, 0, H, 0, 0,       false, true,  true,  true,  false, false },
		{ "key-expired-sigexp-far", -10000, 900000, 1000, H, 0, 0, 0, -10000, 0, 0, H, 0, 0,  false, true,  true,  true,  false, false },
		{ "subkey-expired",    -10000, 0, 0, H, 0, 0, 0,         -10000, 0, 1000, H, 0, 0,    true,  true,  false, false, true,  false },
		{ "subkey-expired-sigexp-far", -10000, 0, 0, H, 0, 0, 0, -10000, 900000, 1000, H, 0, 0, true, true, false, false, true, false },
		{ "uid-sig-older-than-key", -20100, 0, 0, H, 0, 0, 0,    -10000, 0, 0, H, 0, 0,       false, false, false, true,  false, false },
		{ "bind-sig-older-than-key", -10000, 0, 0, H, 0, 0, 0,   -19500, 0, 0, H, 0, 0,       true,  true,  false, false, false, false },
		{ "uid-sig-future",    90000 + 1800, 0, 0, H, 0, 0, 0,   -10000, 0, 0, H, 0, 0,       false, false, false, true,  false, false },
		{ "bind-sig-future",   -10000, 0, 0, H, 0, 0, 0,         90000 + 1800, 0, 0, H, 0, 0, true,  true,  false, false, false, false },
		{ "uid-sig-weak-hash", -10000, 0, 0, W, 0, 0, 0,         -10000, 0, 0, H, 0, 0,       false, false, false, true,  false, false },
		{ "bind-sig-weak-hash", -10000, 0, 0, H, 0, 0, 0,        -10000, 0, 0, W, 0, 0,       true,  true,  false, false, false, false },
		{ "revocation",        -10000, 0, 0, H, 0, 0, 0,         -10000, 0, 0, H, 1, 0,       false, true,  false, true,  false, true },
		{ "revocation-expired", -10000, 0, 0, H, 0, 0, 0,        -10000, 0, 0, H, 1, 1000,    true,  true,  false, true,  false, false },
		// certification revocation (0x30) over the user ID and subkey revocation (0x28), in force and expired
		{ "uid-revoked",       -10000, 0, 0, H, 0, 0, 0,         -10000, 0, 0, H, 0, 0,       false, false, false, true,  false, false, 1, 0, 0, 0 },
		{ "uid-revocation-expired", -10000, 0, 0, H, 0, 0, 0,    -10000, 0, 0, H, 0, 0,       true,  true,  false, true,  false, false, 1, 1000, 0, 0 },
		{ "subkey-revoked",    -10000, 0, 0, H, 0, 0, 0,         -10000, 0, 0, H, 0, 0,       true,  true,  false, false, false, false, 0, 0, 1, 0 },
		{ "subkey-revocation-expired", -10000, 0, 0, H, 0, 0, 0, -10000, 0, 0, H, 0, 0,       true,  true,  false, true,  false, false, 0, 0, 1, 1000 },
	};
	for (const Case &c : C) {
		long now = time(NULL); uint32_t kct = now - 20000;
		Primary P; if (!primary_packet(k, kct, P)) { propfail("keyblock-build-" + k.name, "cannot encode the public key packet"); break; }
		oct subpkt, subbody; PGP::PacketSubEncode(now - 19000, TMCG_OPENPGP_PKALGO_RSA, sn, se, sn, se, subpkt); PGP::PacketBodyExtract(subpkt, 0, subbody);
		std::string uid = "Test <t@example.org>"; oct uidpkt; PGP::PacketUidEncode(uid, uidpkt);
		std::vector<std::pair<SigSpec, int> > specs;   // spec, kind
		oct block = P.pubpkt; bool built = true;
		auto add = [&](int kind, SigSpec sp) { oct sp_pkt; if (!real_sig(P, kind, sp, uid, subbody, sp_pkt)) { built = false; return; } block.insert(block.end(), sp_pkt.begin(), sp_pkt.end()); specs.push_back(std::make_pair(sp, kind)); };
		if (c.direct) add(1, SigSpec{ 0x1F, (uint32_t)(now - 10000), (uint32_t)c.d_se, (uint32_t)c.d_ke, H, 3 });
		if (c.rev) add(1, SigSpec{ 0x20, (uint32_t)(now - 10000), (uint32_t)c.r_se, 0, H, -1 });
		block.insert(block.end(), uidpkt.begin(), uidpkt.end());
		add(0, SigSpec{ 0x13, (uint32_t)(now + c.uid_dct), (uint32_t)c.uid_se, (uint32_t)c.uid_ke, c.uid_ha, 3 });
		if (c.urev) add(0, SigSpec{ 0x30, (uint32_t)(now - 9000), (uint32_t)c.urev_se, 0, H, -1 });
		block.insert(block.end(), subpkt.begin(), subpkt.end());
		add(2, SigSpec{ 0x18, (uint32_t)(now + c.b_dct), (uint32_t)c.b_se, (uint32_t)c.b_ke, c.b_ha, 12 });
		if (c.srev) add(2, SigSpec{ 0x28, (uint32_t)(now - 9000), (uint32_t)c.srev_se, 0, H, -1 });
		if (!built) continue;   // the primitive refused to sign (e.g. weak hash with this algorithm): nothing to test
		std::string ctx = std::string(c.name) + "/" + k.name;
		for (int path = 0; path < 2; path++) {   // key block alone, and as first key of a keyring
			TMCG_OpenPGP_Pubkey *pub = NULL; TMCG_OpenPGP_Keyring *ring = NULL; bool ok;
			if (path == 0) { ok = PGP::PublicKeyBlockParse(block, 0, pub) && pub; ring = new TMCG_OpenPGP_Keyring(); }
			else { std::string arm, fprs; PGP::ArmorEncode(TMCG_OPENPGP_ARMOR_PUBLIC_KEY_BLOCK, block, arm); PGP::FingerprintConvertPlain(P.fpr, fprs);
				ok = PGP::PublicKeyringParse(arm, 0, ring) && ring; pub = ok ? ring->Find(fprs) : NULL; ok = ok && pub; }
			if (!ok) { propfail("keyblock-parse-" + k.name, "key block " + ctx + " does not parse"); if (ring) delete ring; continue; }
			// every signature object: validity exactly as its own fields say
			std::vector<const TMCG_OpenPGP_Signature*> v; collect(pub, v);
			if (v.size() != specs.size()) propfail("keyblock-signatures-lost", "key block " + ctx + ": " + std::to_string(specs.size()) + " signatures written, " + std::to_string(v.size()) + " read");
			for (auto sg : v) for (auto &sp : specs) if (sp.first.type == (int)sg->type) {
				const SigSpec &ss = sp.first;
				if ((uint32_t)sg->creationtime != ss.ct || (uint32_t)sg->expirationtime != ss.sigexp || (uint32_t)sg->keyexpirationtime != ss.keyexp || (int)sg->hashalgo != ss.ha)
					propfail("keyblock-sig-fields-" + k.name, "signature type " + std::to_string(ss.type) + " of " + ctx + " is read with creation/expiration/key expiration " + std::to_string((long)sg->creationtime) + "/" + std::to_string((long)sg->expirationtime) + "/" + std::to_string((long)sg->keyexpirationtime) + ", written " + std::to_string(ss.ct) + "/" + std::to_string(ss.sigexp) + "/" + std::to_string(ss.keyexp));
				bool got = const_cast<TMCG_OpenPGP_Signature*>(sg)->CheckValidity(kct, 0);
				if (got != ref_valid(now, ss, kct)) propfail("keyblock-sig-validity-" + k.name, "CheckValidity of signature type " + std::to_string(ss.type) + " read from key block " + ctx + " is " + (got ? "true" : "false"));
			}
			bool self = pub->CheckSelfSignatures(ring, 0), subs = pub->CheckSubkeys(ring, 0);
			bool uidv = pub->userids.size() == 1 && pub->userids[0]->valid;
			bool subexp = pub->subkeys.size() == 1 && pub->subkeys[0]->expired;
			std::string got = std::string(self ? "S" : "s") + (uidv ? "U" : "u") + (pub->expired ? "X" : "x") + (subs ? "B" : "b") + (subexp ? "Y" : "y") + (pub->revoked ? "R" : "r");
			std::string want = std::string(c.want_self ? "S" : "s") + (c.want_uid ? "U" : "u") + (c.want_pubexp ? "X" : "x") + (c.want_subs ? "B" : "b") + (c.want_subexp ? "Y" : "y") + (c.want_revoked ? "R" : "r");
			if ((long)time(NULL) - now < 600 && got != want)
				propfail(std::string(path ? "keyring-" : "keyblock-") + c.name, std::string(path ? "keyring entry " : "key block ") + ctx + ": self-signatures/user ID/key expired/subkeys/subkey expired/revoked = " + got + ", required " + want);
			if (path == 0) delete pub;   // the keyring owns its keys
			delete ring; g_cases++;
		}
	}
	gcry_mpi_release(sn); gcry_mpi_release(se);
}

// ---------------------------------------------------------------------------------------------------------
// encryption
// ---------------------------------------------------------------------------------------------------------
static oct mdc_for(const oct &prefix, const oct &body) {
	oct in = prefix; in.insert(in.end(), body.begin(), body.end()); in.push_back(0xD3); in.push_back(0x14);
	oct h; PGP::HashCompute(TMCG_OPENPGP_HASHALGO_SHA1, in, h); return h;
}
static bool msg_decrypt(const oct &packets, const tmcg_openpgp_secure_octets_t &key, oct &out, bool &parsed) {
	TMCG_OpenPGP_Message *msg = NULL; parsed = PGP::MessageParse(packets, 0, msg) && msg;
	if (!parsed) { if (msg) delete msg; return false; }
	bool ok = msg->Decrypt(key, 0, out);
	delete msg; return ok;
}
static void enc_mdc_suite() {
	static const size_t LENS[] = { 1, 2, 15, 16, 17, 31, 32, 33, 100, 185, 186, 187, 500, 8377, 8378 };
	for (size_t li = 0; li < (T ? 15u : 8u); li++) {
		size_t n = LENS[T ? li : (li * 2) % 15];
		oct data = rnd_oct(n), lit; PGP::PacketLitEncode(data, lit);
		oct prefix = rnd_oct(16); prefix.push_back(prefix[14]); prefix.push_back(prefix[15]);
		oct mdc = mdc_for(prefix, lit), mdcpkt; PGP::PacketMdcEncode(mdc, mdcpkt);
		oct body = lit; body.insert(body.end(), mdcpkt.begin(), mdcpkt.end());
		tmcg_openpgp_secure_octets_t sk; oct enc, pfx = prefix;
		if (PGP::SymmetricEncryptAES256(body, sk, pfx, false, enc)) { propfail("enc-mdc-fails", "SymmetricEncryptAES256 fails"); continue; }
		oct seipd; PGP::PacketSeipdEncode(enc, seipd);
		oct out; bool parsed;
		bool ok = msg_decrypt(seipd, sk, out, parsed);
		if (!ok || out.size() < lit.size() || !std::equal(lit.begin(), lit.end(), out.begin()))
			propfail("enc-mdc-roundtrip", "SEIPD message of " + std::to_string(n) + " octets does not decrypt to the plaintext");
		else {
			TMCG_OpenPGP_Message *m2 = NULL;
			if (!PGP::MessageParse(out, 0, m2) || !m2 || m2->literal_data != data) propfail("enc-mdc-roundtrip", "decrypted SEIPD content does not parse back to the literal data (" + std::to_string(n) + " octets)");
			if (m2) delete m2;
		}
		g_cases++;
		// every octet of the packet (header, version, ciphertext incl. encrypted MDC)
		size_t step = (T || seipd.size() < 400) ? 1 : 13;
		for (size_t i = 0; i < seipd.size(); i += step) {
			oct p2 = seipd; p2[i] ^= (unsigned char)(1u << gen().below(8)); oct o2; bool pr;
			if (msg_decrypt(p2, sk, o2, pr)) propfail("enc-mdc-tamper-accepted", "SEIPD packet with changed octet " + std::to_string(i) + " of " + std::to_string(seipd.size()) + " decrypts");
			g_cases++;
		}
		{ oct e2 = enc; e2.pop_back(); oct p2, o2; bool pr; PGP::PacketSeipdEncode(e2, p2); if (msg_decrypt(p2, sk, o2, pr)) propfail("enc-mdc-tamper-accepted", "truncated SEIPD ciphertext decrypts"); }
		{ oct e2 = enc; e2.push_back(0); oct p2, o2; bool pr; PGP::PacketSeipdEncode(e2, p2); if (msg_decrypt(p2, sk, o2, pr)) propfail("enc-mdc-tamper-accepted", "extended SEIPD ciphertext decrypts"); }
		// wrong session key
		{ tmcg_openpgp_secure_octets_t k2 = sk; k2[5] ^= 1; size_t cs = 0; for (size_t i = 1; i + 2 < k2.size(); i++) cs += k2[i]; cs %= 65536; k2[k2.size() - 2] = cs >> 8; k2[k2.size() - 1] = cs & 0xFF;
		  oct o2; bool pr; if (msg_decrypt(seipd, k2, o2, pr)) propfail("enc-mdc-wrong-key-accepted", "SEIPD message decrypts under a different session key"); }
		// the same plaintext without integrity protection (tag 9) must be refused; so must a SEIPD body without MDC
		{ tmcg_openpgp_secure_octets_t sk2; oct enc2, pfx2, sed, o2; bool pr;
		  if (!PGP::SymmetricEncryptAES256(lit, sk2, pfx2, true, enc2)) { PGP::PacketSedEncode(enc2, sed);
			if (msg_decrypt(sed, sk2, o2, pr)) propfail("enc-unprotected-accepted", "symmetrically encrypted data packet (tag 9, no MDC) is decrypted and released"); } }
		{ tmcg_openpgp_secure_octets_t sk2; oct enc2, pfx2, p2, o2; bool pr;
		  if (!PGP::SymmetricEncryptAES256(lit, sk2, pfx2, false, enc2)) { PGP::PacketSeipdEncode(enc2, p2);
			if (msg_decrypt(p2, sk2, o2, pr)) propfail("enc-missing-mdc-accepted", "SEIPD packet whose plaintext has no MDC packet is decrypted and released"); } }
		g_cases += 5;
	}
}
static void enc_aead_suite() {
	static const int SK[] = { TMCG_OPENPGP_SKALGO_AES128, TMCG_OPENPGP_SKALGO_AES192, TMCG_OPENPGP_SKALGO_AES256, TMCG_OPENPGP_SKALGO_TWOFISH, TMCG_OPENPGP_SKALGO_CAMELLIA128, TMCG_OPENPGP_SKALGO_CAMELLIA192, TMCG_OPENPGP_SKALGO_CAMELLIA256 };
	static const int AE[] = { TMCG_OPENPGP_AEADALGO_OCB, TMCG_OPENPGP_AEADALGO_EAX };
	for (int ai = 0; ai < 2; ai++) for (int si = 0; si < 7; si++) for (unsigned cs = 0; cs < 3; cs++) {
		int sk = SK[si], ae = AE[ai]; size_t dim = (size_t)1 << (cs + 6);
		std::vector<size_t> lens = { 1, dim - 1, dim, dim + 1, 2 * dim, 3 * dim + 5 };
		if (T) { lens.push_back(2 * dim - 1); lens.push_back(2 * dim + 1); lens.push_back(4 * dim); lens.push_back(5 * dim + 1); lens.push_back(15); }
		if (!T && (si + cs + ai) % 3 != 0) { lens = { dim, 2 * dim + 1 }; }
		for (size_t n : lens) {
			std::string ctx = "cipher" + std::to_string(sk) + "/aead" + std::to_string(ae) + "/chunksize" + std::to_string(cs) + "/len" + std::to_string(n);
			oct plain = rnd_oct(n), ad, iv, enc; tmcg_openpgp_secure_octets_t key;
			ad.push_back(0xD4); ad.push_back(1); ad.push_back(sk); ad.push_back(ae); ad.push_back(cs); for (int i = 0; i < 8; i++) ad.push_back(0);
			gcry_error_t e = PGP::SymmetricEncryptAEAD(plain, key, (tmcg_openpgp_skalgo_t)sk, (tmcg_openpgp_aeadalgo_t)ae, cs, ad, 0, iv, enc);
			if (e) { if (si < 3) propfail("enc-aead-fails", "SymmetricEncryptAEAD fails for " + ctx); continue; }
			oct out; e = PGP::SymmetricDecryptAEAD(enc, key, (tmcg_openpgp_skalgo_t)sk, (tmcg_openpgp_aeadalgo_t)ae, cs, iv, ad, 0, out);
			if (e || out != plain) { propfail("enc-aead-roundtrip", "AEAD decryption does not return the plaintext for " + ctx); continue; }
			g_cases++;
			// through the packet layer
			{ oct pkt, o2; bool pr; PGP::PacketAeadEncode((tmcg_openpgp_skalgo_t)sk, (tmcg_openpgp_aeadalgo_t)ae, cs, iv, enc, pkt);
			  tmcg_openpgp_secure_octets_t raw; size_t kl = PGP::AlgorithmKeyLength((tmcg_openpgp_skalgo_t)sk); for (size_t i = 0; i < kl; i++) raw.push_back(key[key.size() == kl ? i : 1 + i]);
			  if (!msg_decrypt(pkt, raw, o2, pr) || o2 != plain) propfail("enc-aead-packet-roundtrip", "AEAD packet does not decrypt through MessageParse/Decrypt for " + ctx);
			  // every header octet of the packet: version, cipher, mode, chunk size, IV are all authenticated
			  for (size_t i = 0; i < pkt.size() - enc.size(); i++) { oct p2 = pkt; p2[i] ^= (unsigned char)(1u << gen().below(8)); oct o3; bool pr2;
				if (msg_decrypt(p2, raw, o3, pr2)) propfail("enc-aead-header-tamper-accepted", "AEAD packet with changed header octet " + std::to_string(i) + " decrypts for " + ctx); g_cases++; } }
			// every ciphertext / tag octet
			size_t step = (T || enc.size() < 300) ? 1 : 11;
			for (size_t i = 0; i < enc.size(); i += step) {
				oct e2 = enc; e2[i] ^= (unsigned char)(1u << gen().below(8)); oct o2;
				if (!PGP::SymmetricDecryptAEAD(e2, key, (tmcg_openpgp_skalgo_t)sk, (tmcg_openpgp_aeadalgo_t)ae, cs, iv, ad, 0, o2))
					propfail("enc-aead-tamper-accepted", "AEAD ciphertext with changed octet " + std::to_string(i) + " of " + std::to_string(enc.size()) + " decrypts for " + ctx);
				g_cases++;
			}
			size_t full = (n - 1) / dim, unit = dim + 16;
			auto dec_ok = [&](const oct &c, const oct &ad2, const oct &iv2) { oct o2; return !PGP::SymmetricDecryptAEAD(c, key, (tmcg_openpgp_skalgo_t)sk, (tmcg_openpgp_aeadalgo_t)ae, cs, iv2, ad2, 0, o2); };
			if (full >= 2) {   // reorder two full chunks (with their tags)
				oct e2 = enc; std::swap_ranges(e2.begin(), e2.begin() + unit, e2.begin() + unit);
				if (e2 != enc && dec_ok(e2, ad, iv)) propfail("enc-aead-reorder-accepted", "AEAD chunks 0 and 1 swapped, still decrypts for " + ctx);
			}
			if (full >= 1) {   // drop the first chunk, duplicate the first chunk, drop the last chunk
				oct e2(enc.begin() + unit, enc.end()); if (dec_ok(e2, ad, iv)) propfail("enc-aead-drop-accepted", "first AEAD chunk dropped, still decrypts for " + ctx);
				oct e3(enc.begin(), enc.begin() + unit); e3.insert(e3.end(), enc.begin(), enc.end()); if (dec_ok(e3, ad, iv)) propfail("enc-aead-duplicate-accepted", "first AEAD chunk duplicated, still decrypts for " + ctx);
			}
			{ oct e2(enc.begin(), enc.end() - 16); if (dec_ok(e2, ad, iv)) propfail("enc-aead-final-tag-dropped-accepted", "final AEAD tag dropped, still decrypts for " + ctx); }
			{ // truncation at a chunk boundary: keep the first chunk(s) only and re-use the original final tag
			  if (full >= 1) { oct e2(enc.begin(), enc.begin() + unit); e2.insert(e2.end(), enc.end() - 16, enc.end()); if (dec_ok(e2, ad, iv)) propfail("enc-aead-truncation-accepted", "AEAD message truncated after the first chunk decrypts for " + ctx); } }
			for (size_t i = 0; i < 5; i++) { oct ad2 = ad; ad2[i] ^= (unsigned char)(1u << gen().below(8)); if (dec_ok(enc, ad2, iv)) propfail("enc-aead-ad-tamper-accepted", "AEAD associated data octet " + std::to_string(i) + " changed, still decrypts for " + ctx); }
			for (size_t i = 0; i < iv.size(); i++) { oct iv2 = iv; iv2[i] ^= (unsigned char)(1u << gen().below(8)); if (dec_ok(enc, ad, iv2)) propfail("enc-aead-iv-tamper-accepted", "AEAD IV octet " + std::to_string(i) + " changed, still decrypts for " + ctx); }
			{ tmcg_openpgp_secure_octets_t k2 = key; oct o2; size_t kl = PGP::AlgorithmKeyLength((tmcg_openpgp_skalgo_t)sk); tmcg_openpgp_secure_octets_t raw; for (size_t i = 0; i < kl; i++) raw.push_back(key[key.size() == kl ? i : 1 + i]); raw[0] ^= 1;
			  if (!PGP::SymmetricDecryptAEAD(enc, raw, (tmcg_openpgp_skalgo_t)sk, (tmcg_openpgp_aeadalgo_t)ae, cs, iv, ad, 0, o2)) propfail("enc-aead-wrong-key-accepted", "AEAD message decrypts under a different key for " + ctx); }
			g_cases += 12;
		}
	}
}
// every pair of chunks swapped / duplicated, every single chunk dropped, final tag moved (messages of 5..9 chunks)
static void aead_chunk_tamper_suite() {
	static const int AE[] = { TMCG_OPENPGP_AEADALGO_OCB, TMCG_OPENPGP_AEADALGO_EAX };
	for (int ai = 0; ai < 2; ai++) for (size_t chunks = 5; chunks <= 9; chunks++) for (int partial = 0; partial < 2; partial++) {
		int ae = AE[ai], sk = (chunks % 2) ? TMCG_OPENPGP_SKALGO_AES128 : TMCG_OPENPGP_SKALGO_AES256; unsigned cs = 0; const size_t dim = 64, unit = dim + 16;
		size_t n = chunks * dim - (partial ? 1 + gen().below(dim - 1) : 0);
		std::string ctx = "aead" + std::to_string(ae) + "/cipher" + std::to_string(sk) + "/chunks" + std::to_string(chunks) + "/len" + std::to_string(n);
		oct plain = rnd_oct(n), ad, iv, enc; tmcg_openpgp_secure_octets_t key;
		ad.push_back(0xD4); ad.push_back(1); ad.push_back(sk); ad.push_back(ae); ad.push_back(cs); for (int i = 0; i < 8; i++) ad.push_back(0);
		if (PGP::SymmetricEncryptAEAD(plain, key, (tmcg_openpgp_skalgo_t)sk, (tmcg_openpgp_aeadalgo_t)ae, cs, ad, 0, iv, enc)) { propfail("enc-aead-fails", "SymmetricEncryptAEAD fails for " + ctx); continue; }
		auto dec_ok = [&](const oct &c) { oct o2; return !PGP::SymmetricDecryptAEAD(c, key, (tmcg_openpgp_skalgo_t)sk, (tmcg_openpgp_aeadalgo_t)ae, cs, iv, ad, 0, o2); };
		if (!dec_ok(enc)) { propfail("enc-aead-roundtrip", "honest AEAD message does not decrypt for " + ctx); continue; }
		size_t sw = partial ? chunks - 1 : chunks;   // chunks of full size (same length: can be exchanged octet for octet)
		size_t lastlen = enc.size() - 16 - (chunks - 1) * unit;   // last chunk incl. its tag
		auto chunk = [&](size_t i) { size_t b = i * unit, e2 = (i + 1 == chunks) ? b + lastlen : b + unit; return oct(enc.begin() + b, enc.begin() + e2); };
		oct fin(enc.end() - 16, enc.end());
		auto join = [&](const std::vector<oct> &v, const oct &f) { oct r; for (auto &c : v) r.insert(r.end(), c.begin(), c.end()); r.insert(r.end(), f.begin(), f.end()); return r; };
		std::vector<oct> ch; for (size_t i = 0; i < chunks; i++) ch.push_back(chunk(i));
		if (join(ch, fin) != enc) { propfail("harness-aead-layout", "chunk decomposition wrong for " + ctx); continue; }
		for (size_t i = 0; i < sw; i++) for (size_t j = i + 1; j < sw; j++) {
			std::vector<oct> v = ch; std::swap(v[i], v[j]);
			if (dec_ok(join(v, fin))) propfail("enc-aead-reorder-accepted", "AEAD chunks " + std::to_string(i) + " and " + std::to_string(j) + " swapped, still decrypts for " + ctx);
			g_cases++;
		}
		for (size_t i = 0; i < sw; i++) for (size_t j = 0; j < sw; j++) if (i != j) {
			std::vector<oct> v = ch; v[j] = ch[i];
			if (dec_ok(join(v, fin))) propfail("enc-aead-duplicate-accepted", "AEAD chunk " + std::to_string(j) + " replaced by a copy of chunk " + std::to_string(i) + ", still decrypts for " + ctx);
			std::vector<oct> v2 = ch; v2.insert(v2.begin() + j, ch[i]);
			if (dec_ok(join(v2, fin))) propfail("enc-aead-duplicate-accepted", "copy of AEAD chunk " + std::to_string(i) + " inserted before chunk " + std::to_string(j) + ", still decrypts for " + ctx);
			g_cases += 2;
		}
		for (size_t i = 0; i < chunks; i++) {
			std::vector<oct> v = ch; v.erase(v.begin() + i);
			if (dec_ok(join(v, fin))) propfail("enc-aead-drop-accepted", "AEAD chunk " + std::to_string(i) + " dropped, still decrypts for " + ctx);
			g_cases++;
		}
		for (size_t i = 0; i < chunks; i++) {   // final tag moved in front of chunk i; final tag exchanged with the tag of chunk i
			std::vector<oct> v = ch; v.insert(v.begin() + i, fin);
			if (dec_ok(join(v, oct()))) propfail("enc-aead-final-tag-moved-accepted", "final AEAD tag moved before chunk " + std::to_string(i) + ", still decrypts for " + ctx);
			std::vector<oct> v2 = ch; oct f2(v2[i].end() - 16, v2[i].end()); std::copy(fin.begin(), fin.end(), v2[i].end() - 16);
			if (dec_ok(join(v2, f2))) propfail("enc-aead-final-tag-moved-accepted", "final AEAD tag exchanged with the tag of chunk " + std::to_string(i) + ", still decrypts for " + ctx);
			g_cases += 2;
		}
	}
}
// nonce schedule of the chunked AEAD encryption: records for the model, and the requirement that no nonce repeats
static void aead_nonce_suite() {
	static const int AE[] = { TMCG_OPENPGP_AEADALGO_OCB, TMCG_OPENPGP_AEADALGO_EAX };
	for (int ai = 0; ai < 2; ai++) for (size_t chunks = 1; chunks <= (T ? 12u : 6u); chunks++) {
		int ae = AE[ai]; unsigned cs = 0; size_t n = chunks * 64 - gen().below(64);
		oct plain = rnd_oct(n), ad, iv, enc; tmcg_openpgp_secure_octets_t key;
		ad.push_back(0xD4); ad.push_back(1); ad.push_back(TMCG_OPENPGP_SKALGO_AES128); ad.push_back(ae); ad.push_back(cs); for (int i = 0; i < 8; i++) ad.push_back(0);
		g_ivs.clear(); g_capiv = true; g_ads.clear(); g_capad = true;
		gcry_error_t e = PGP::SymmetricEncryptAEAD(plain, key, TMCG_OPENPGP_SKALGO_AES128, (tmcg_openpgp_aeadalgo_t)ae, cs, ad, 0, iv, enc);
		g_capiv = false; g_capad = false;
		if (e) continue;
		// associated data of every chunk and of the final tag, encoder and decoder: call k carries chunk index k, the last call also the total length
		std::vector<std::string> ads_enc = g_ads; oct dec_out;
		g_ads.clear(); g_capad = true;
		e = PGP::SymmetricDecryptAEAD(enc, key, TMCG_OPENPGP_SKALGO_AES128, (tmcg_openpgp_aeadalgo_t)ae, cs, iv, ad, 0, dec_out);
		g_capad = false;
		if (e || dec_out != plain) propfail("enc-aead-roundtrip", "AEAD decryption does not return the plaintext (" + std::to_string(n) + " octets, mode " + std::to_string(ae) + ")");
		for (int dir = 0; dir < 2; dir++) {
			const std::vector<std::string> &v = dir ? g_ads : ads_enc;
			if (v.size() != (n - 1) / 64 + 2) propfail("aead-ad-calls", std::string(dir ? "decoder" : "encoder") + " authenticates " + std::to_string(v.size()) + " buffers for " + std::to_string((n - 1) / 64 + 1) + " chunks");
			for (size_t k = 0; k < v.size(); k++)
				Rec("aead_ad").b(S(ad).substr(0, 5)).t(k + 1 == v.size() ? "f" : "c").u(k).u(n).t(dir ? "dec" : "enc").b(v[k]);
		}
		for (size_t c = 0; c < g_ivs.size(); c++) Rec("aead_nonce").b(S(iv)).d(c).b(g_ivs[c]);
		for (size_t a = 0; a < g_ivs.size(); a++) for (size_t b = a + 1; b < g_ivs.size(); b++) if (g_ivs[a] == g_ivs[b]) {
			propfail("aead-nonce-reuse", "SymmetricEncryptAEAD uses the same nonce for chunk " + std::to_string(a) + " and chunk " + std::to_string(b) + " of one message (" + std::to_string(n) + " octets, chunk size 64, mode " + std::to_string(ae) + ")");
			a = g_ivs.size(); break; }
		g_cases++;
	}
}
// public-key wrapping of the session key
static void pke_suite(const Key &rsa, const Key &elg, const Key *ecdh) {
	for (int rep = 0; rep < (T ? 6 : 2); rep++) {
		tmcg_openpgp_secure_octets_t sk; oct lit, pfx, enc; oct d = rnd_oct(40); PGP::PacketLitEncode(d, lit);
		if (PGP::SymmetricEncryptAES256(lit, sk, pfx, false, enc)) continue;   // gives a session key with algorithm octet and checksum
		{ gcry_mpi_t me = gcry_mpi_new(2048);
		  if (PGP::AsymmetricEncryptRSA(sk, rsa.key, me)) propfail("pke-rsa-fails", "AsymmetricEncryptRSA fails");
		  else { tmcg_openpgp_secure_octets_t back; if (PGP::AsymmetricDecryptRSA(me, rsa.key, back) || back != sk) propfail("pke-rsa-roundtrip", "RSA-wrapped session key does not unwrap to the original");
			unsigned nb = gcry_mpi_get_nbits(me);
			for (unsigned i = 0; i < (T ? nb : 64u); i++) { gcry_mpi_t m2 = gcry_mpi_copy(me); unsigned bp = T ? i : gen().below(nb); if (gcry_mpi_test_bit(m2, bp)) gcry_mpi_clear_bit(m2, bp); else gcry_mpi_set_bit(m2, bp);
				tmcg_openpgp_secure_octets_t b2; if (!PGP::AsymmetricDecryptRSA(m2, rsa.key, b2) && b2 == sk) propfail("pke-rsa-tamper-accepted", "changed RSA ciphertext unwraps to the same session key"); gcry_mpi_release(m2); g_cases++; } }
		  gcry_mpi_release(me); }
		{ gcry_mpi_t gk = gcry_mpi_new(2048), myk = gcry_mpi_new(2048);
		  if (PGP::AsymmetricEncryptElgamal(sk, elg.key, gk, myk)) propfail("pke-elgamal-fails", "AsymmetricEncryptElgamal fails");
		  else { tmcg_openpgp_secure_octets_t back; if (PGP::AsymmetricDecryptElgamal(gk, myk, elg.key, back) || back != sk) propfail("pke-elgamal-roundtrip", "ElGamal-wrapped session key does not unwrap to the original");
			for (unsigned i = 0; i < (T ? 400u : 48u); i++) { gcry_mpi_t a = gcry_mpi_copy(gk), b = gcry_mpi_copy(myk); gcry_mpi_t &t = (i & 1) ? a : b; unsigned nb = gcry_mpi_get_nbits(t), bp = gen().below(nb);
				if (gcry_mpi_test_bit(t, bp)) gcry_mpi_clear_bit(t, bp); else gcry_mpi_set_bit(t, bp);
				tmcg_openpgp_secure_octets_t b2; if (!PGP::AsymmetricDecryptElgamal(a, b, elg.key, b2) && b2 == sk) propfail("pke-elgamal-tamper-accepted", "changed ElGamal ciphertext unwraps to the same session key"); gcry_mpi_release(a); gcry_mpi_release(b); g_cases++; } }
		  gcry_mpi_release(gk); gcry_mpi_release(myk); }
		gcry_sexp_t ecpub = NULL, ecprv = NULL;
		if (ecdh) { gcry_mpi_t q = NULL, d = NULL; size_t eo = 0;
			if (gcry_sexp_extract_param(ecdh->key, NULL, "qd", &q, &d, NULL) || gcry_sexp_build(&ecpub, &eo, "(public-key (ecdh (curve %s) (q %m)))", "NIST P-256", q) ||
			    gcry_sexp_build(&ecprv, &eo, "(private-key (ecdh (curve %s) (q %m) (d %m)))", "NIST P-256", q, d)) ecpub = NULL;
			gcry_mpi_release(q); gcry_mpi_release(d); }
		if (ecdh && ecpub && ecprv) {
			gcry_mpi_t epk = gcry_mpi_new(1024); size_t rkwlen = 0; tmcg_openpgp_byte_t rkw[256]; memset(rkw, 0, sizeof rkw); oct fpr = rnd_oct(20);
			gcry_error_t e = PGP::AsymmetricEncryptECDH(sk, ecpub, TMCG_OPENPGP_HASHALGO_SHA256, TMCG_OPENPGP_SKALGO_AES128, "NIST P-256", fpr, epk, rkwlen, rkw);
			if (e) propfail("pke-ecdh-fails", "AsymmetricEncryptECDH fails");
			else { tmcg_openpgp_secure_octets_t back; e = PGP::AsymmetricDecryptECDH(epk, ecprv, rkwlen, rkw, TMCG_OPENPGP_HASHALGO_SHA256, TMCG_OPENPGP_SKALGO_AES128, "NIST P-256", fpr, back);
				// the ECDH unwrap returns algorithm octet + key (the two checksum octets are not returned)
				if (e || back.size() + 2 != sk.size() || !std::equal(back.begin(), back.end(), sk.begin())) propfail("pke-ecdh-roundtrip", "ECDH-wrapped session key does not unwrap to the original (rc=" + std::to_string(gcry_err_code(e)) + ", sizes " + std::to_string(back.size()) + "/" + std::to_string(sk.size()) + ")");
				for (size_t i = 0; i < rkwlen; i++) { tmcg_openpgp_byte_t r2[256]; memcpy(r2, rkw, 256); r2[i] ^= (unsigned char)(1u << gen().below(8)); tmcg_openpgp_secure_octets_t b2;
					if (!PGP::AsymmetricDecryptECDH(epk, ecprv, rkwlen, r2, TMCG_OPENPGP_HASHALGO_SHA256, TMCG_OPENPGP_SKALGO_AES128, "NIST P-256", fpr, b2)) propfail("pke-ecdh-tamper-accepted", "changed wrapped key (octet " + std::to_string(i) + ") is unwrapped"); g_cases++; }
				{ oct f2 = fpr; f2[3] ^= 4; tmcg_openpgp_secure_octets_t b2; if (!PGP::AsymmetricDecryptECDH(epk, ecprv, rkwlen, rkw, TMCG_OPENPGP_HASHALGO_SHA256, TMCG_OPENPGP_SKALGO_AES128, "NIST P-256", f2, b2)) propfail("pke-ecdh-fingerprint-unbound", "ECDH unwrapping succeeds with a different recipient fingerprint"); }
			}
			gcry_mpi_release(epk);
		}
		g_cases += 3;
	}
}

int main(int argc, char **argv) {
	Args args(argc, argv);
	T = args.thorough();
	gcry_check_version(NULL);
	gcry_control(GCRYCTL_DISABLE_SECMEM, 0);
	gcry_control(GCRYCTL_ENABLE_QUICK_RANDOM, 0);
	gcry_control(GCRYCTL_INITIALIZATION_FINISHED, 0);
	std::string part = args.only;
	auto on = [&](const char *p) { return part.empty() || part == p; };
	if (on("hash")) { hash_records(); verify_hash_records(); }
	if (on("validity")) validity_records();
	if (on("sig-rsa")) { Key k; k.name = "rsa"; k.pkalgo = TMCG_OPENPGP_PKALGO_RSA; k.params = "ne"; k.pubfmt = "(public-key (rsa (n %M) (e %M)))";
		if (!genkey(k, "(genkey (rsa (nbits 4:2048)(transient-key)))")) propfail("keygen", "cannot generate RSA key"); else { sig_suite(k); keyblock_suite(k, k); many_signatures(k, T ? 1500 : 500); } }
	if (on("sig-dsa")) { Key k; k.name = "dsa"; k.pkalgo = TMCG_OPENPGP_PKALGO_DSA; k.params = "pqgy"; k.pubfmt = "(public-key (dsa (p %M) (q %M) (g %M) (y %M)))";
		if (!genkey(k, "(genkey (dsa (nbits 4:2048)(transient-key)))")) propfail("keygen", "cannot generate DSA key"); else { sig_suite(k); many_signatures(k, T ? 2000 : 600); Key sr; if (genkey(sr, "(genkey (rsa (nbits 4:2048)(transient-key)))")) keyblock_suite(k, sr); else propfail("keygen", "cannot generate RSA subkey"); } }
	if (on("sig-ecdsa")) { Key k; k.name = "ecdsa"; k.pkalgo = TMCG_OPENPGP_PKALGO_ECDSA; k.params = "q"; k.pubfmt = "(public-key (ecc (curve \"NIST P-256\") (q %M)))";
		if (!genkey(k, "(genkey (ecdsa (curve secp256r1)))")) propfail("keygen", "cannot generate ECDSA key"); else { sig_suite(k); many_signatures(k, T ? 8000 : 2500); Key sr; if (genkey(sr, "(genkey (rsa (nbits 4:2048)(transient-key)))")) keyblock_suite(k, sr); else propfail("keygen", "cannot generate RSA subkey"); } }
	if (on("sig-eddsa")) { Key k; k.name = "eddsa"; k.pkalgo = TMCG_OPENPGP_PKALGO_EDDSA; k.params = "q"; k.pubfmt = "(public-key (ecc (curve Ed25519) (flags eddsa) (q %M)))";
		if (!genkey(k, "(genkey (ecc (curve Ed25519) (flags eddsa)))")) propfail("keygen", "cannot generate EdDSA key"); else { sig_suite(k); many_signatures(k, T ? 20000 : 4000); Key sr; if (genkey(sr, "(genkey (rsa (nbits 4:2048)(transient-key)))")) keyblock_suite(k, sr); else propfail("keygen", "cannot generate RSA subkey"); } }
	if (on("enc-mdc")) enc_mdc_suite();
	if (on("enc-aead")) enc_aead_suite();
	if (on("sigfields")) { sigfields_suite(); Key k; k.name = "eddsa"; k.pkalgo = TMCG_OPENPGP_PKALGO_EDDSA; if (genkey(k, "(genkey (ecc (curve Ed25519) (flags eddsa)))")) eddsa_sigval_records(k); }
	if (on("aead-nonce")) { aead_nonce_suite(); aead_chunk_tamper_suite(); }
	if (on("pke")) { Key rsa, elg, ec; bool a = genkey(rsa, "(genkey (rsa (nbits 4:2048)(transient-key)))"), b = genkey(elg, "(genkey (elg (nbits 4:2048)(transient-key)))"), c = genkey(ec, "(genkey (ecc (curve secp256r1)))");
		if (!a || !b) propfail("keygen", "cannot generate encryption keys"); else pke_suite(rsa, elg, c ? &ec : NULL); }
	printf("CASES %llu BENIGN %llu\n", (unsigned long long)g_cases, (unsigned long long)g_benign);
	return 0;
}
