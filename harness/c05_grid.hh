// Shared part of the C05 / C04 harnesses: in-process two-party runs (strictly alternating threads, one RNG stream
// per party), transcript tokenisation and the mutation catalogue, verdict helpers.
#ifndef VERIF_C05_GRID_HH
#define VERIF_C05_GRID_HH

#include "common.hh"
#include <thread>
#include <mutex>
#include <condition_variable>
#include <functional>
#include <streambuf>
#include <istream>
#include <ostream>
#include <map>
#include <set>
#include <list>
#include <algorithm>
#include <fstream>
#include <iomanip>
#include <cassert>
#include <csignal>
#include <dlfcn.h>

namespace verif {

// ---------------------------------------------------------------------------------------------
// two parties in one process: only the party holding the baton runs; the baton passes when a party
// needs input that is not there yet.  Each party has its own library RNG stream, swapped at hand-over,
// so a run is bit-reproducible and the verifier's coins do not depend on the prover's consumption.
// ---------------------------------------------------------------------------------------------
struct Duplex {
	std::mutex mu; std::condition_variable cv;
	int turn = 0;                      // 0 = prover, 1 = verifier
	std::string buf[2];                // buf[0]: prover -> verifier, buf[1]: verifier -> prover
	size_t rd[2] = {0, 0};
	bool done[2] = {false, false};
	SplitMix64 rng[2];
	void hand_over(int from) {         // called with mu held by the running party `from`
		rng[from] = lib_rng();
		lib_rng() = rng[1 - from];
		turn = 1 - from;
		cv.notify_all();
	}
};

class PartyBuf : public std::streambuf {
	Duplex &d; int who;                // who reads buf[1-who] and writes buf[who]
	char cur;
public:
	PartyBuf(Duplex &dd, int w) : d(dd), who(w), cur(0) {}
protected:
	int_type overflow(int_type c) override {
		if (c != traits_type::eof()) d.buf[who].push_back((char)c);
		return c;
	}
	std::streamsize xsputn(const char *s, std::streamsize n) override { d.buf[who].append(s, (size_t)n); return n; }
	int_type underflow() override {
		int src = 1 - who;
		std::unique_lock<std::mutex> lk(d.mu);
		while (d.rd[src] >= d.buf[src].size()) {
			if (d.done[src]) return traits_type::eof();
			d.hand_over(who);
			d.cv.wait(lk, [&] { return d.turn == who; });
		}
		cur = d.buf[src][d.rd[src]++];
		setg(&cur, &cur, &cur + 1);
		return traits_type::to_int_type(cur);
	}
};

// run prover(in,out) and verifier(in,out) against each other; returns the verifier's verdict
// (1 accept, 0 reject, 2 exception).  p2v / v2p receive the two directions of the conversation.
inline int run_pair(uint64_t seedP, uint64_t seedV,
                    const std::function<void(std::istream&, std::ostream&)> &prover,
                    const std::function<bool(std::istream&, std::ostream&)> &verifier,
                    std::string &p2v, std::string &v2p) {
	Duplex d;
	d.rng[0] = SplitMix64(seedP); d.rng[1] = SplitMix64(seedV);
	SplitMix64 saved = lib_rng();
	lib_rng() = d.rng[0];
	int verdict = 2;
	auto body = [&](int who) {
		{ std::unique_lock<std::mutex> lk(d.mu); d.cv.wait(lk, [&] { return d.turn == who; }); }
		PartyBuf ib(d, who), ob(d, who);
		std::istream in(&ib); std::ostream out(&ob);
		try {
			if (who == 0) prover(in, out);
			else verdict = verifier(in, out) ? 1 : 0;
		} catch (...) { if (who == 1) verdict = 2; }
		std::unique_lock<std::mutex> lk(d.mu);
		d.done[who] = true;
		d.hand_over(who);
	};
	std::thread tp(body, 0), tv(body, 1);
	tp.join(); tv.join();
	p2v = d.buf[0]; v2p = d.buf[1];
	lib_rng() = saved;
	return verdict;
}

// replay: the verifier alone on a fixed prover->verifier text with the coins of the recorded run
inline int replay_verifier(uint64_t seedV, const std::string &p2v,
                           const std::function<bool(std::istream&, std::ostream&)> &verifier, std::string *v2p = 0) {
	SplitMix64 saved = lib_rng();
	std::deque<unsigned char> saved_script = coin_script();
	lib_rng() = SplitMix64(seedV);
	std::istringstream in(p2v); std::ostringstream out;
	int verdict;
	try { verdict = verifier(in, out) ? 1 : 0; } catch (...) { verdict = 2; }
	if (v2p) *v2p = out.str();
	lib_rng() = saved; coin_script() = saved_script;
	return verdict;
}

// ---------------------------------------------------------------------------------------------
// transcript atoms: maximal runs of [0-9A-Za-z-] ; everything else ('\n', '|', '^', ' ') is a separator
// ---------------------------------------------------------------------------------------------
struct Atom { size_t pos, len; };
inline bool atomch(char c) { return (c >= '0' && c <= '9') || (c >= 'a' && c <= 'z') || (c >= 'A' && c <= 'Z') || c == '-'; }
inline std::vector<Atom> atoms_of(const std::string &t) {
	std::vector<Atom> r; size_t i = 0;
	while (i < t.size()) {
		if (!atomch(t[i])) { i++; continue; }
		size_t j = i; while (j < t.size() && atomch(t[j])) j++;
		r.push_back(Atom{i, j - i}); i = j;
	}
	return r;
}
inline bool is_magic(const std::string &a) { return a == "stk" || a == "sts" || a == "crd" || a == "crs" || a == "pub" || a == "sec" || a == "sig" || a == "nzk"; }

struct Z {   // small RAII wrapper
	mpz_t v;
	Z() { mpz_init(v); } Z(const Z &o) { mpz_init_set(v, o.v); } Z(unsigned long u) { mpz_init_set_ui(v, u); }
	Z(mpz_srcptr o) { mpz_init_set(v, o); }
	Z &operator=(const Z &o) { mpz_set(v, o.v); return *this; }
	~Z() { mpz_clear(v); }
	operator mpz_ptr() { return v; } operator mpz_srcptr() const { return v; }
};
inline std::string b62(mpz_srcptr z) { char *s = mpz_get_str(NULL, 62, z); std::string r(s); free(s); return r; }
inline bool from_b62(mpz_ptr z, const std::string &s) { return !s.empty() && mpz_set_str(z, s.c_str(), 62) == 0; }

// the fixed catalogue of single-value mutations; returns the list (name, new value)
struct Mut { std::string name; Z val; };
inline std::vector<Mut> catalogue(mpz_srcptr v, mpz_srcptr p, mpz_srcptr q, SplitMix64 &rg) {
	std::vector<Mut> r;
	auto add = [&](const char *n, mpz_srcptr x) { Mut m; m.name = n; mpz_set(m.val, x); r.push_back(m); };
	Z t, d;
	mpz_add_ui(t, v, 1); add("plus1", t);
	// another residue: v + d with d in [2, q-2]
	mpz_sub_ui(d, q, 3); if (mpz_sgn(d.v) <= 0) mpz_set_ui(d, 1);
	{ Z rr; mpz_set_ui(rr, rg.next()); mpz_mul_2exp(rr, rr, 64); mpz_add_ui(rr, rr, rg.next()); mpz_mod(rr, rr, d); mpz_add_ui(rr, rr, 2);
	  mpz_add(t, v, rr); if (mpz_cmp(v, q) < 0 && mpz_sgn(v) >= 0) mpz_mod(t, t, q); else if (mpz_cmp(v, p) < 0 && mpz_sgn(v) >= 0) mpz_mod(t, t, p);
	  add("other", t); }
	mpz_set_ui(t, 0); add("zero", t);
	mpz_set_ui(t, 1); add("one", t);
	mpz_sub_ui(t, p, 1); add("pminus1", t);
	add("p", p);
	add("q", q);
	mpz_add(t, v, q); add("plusq", t);
	mpz_sub(t, v, q); add("minusq", t);
	mpz_neg(t, v); add("neg", t);
	mpz_sub(t, p, v); add("pminusv", t);                         // -v mod p: not in the order-q subgroup when v is
	mpz_set_ui(t, 1); mpz_mul_2exp(t, t, 2049); add("huge", t);
	mpz_set_ui(t, 1); mpz_mul_2exp(t, t, mpz_sizeinbase(q, 2)); mpz_mul(t, t, q); mpz_add(t, t, v); add("plusq2k", t);   // same residue, longer than the table
	mpz_add(t, v, p); add("plusp", t);
	// congruent values further out than one period (a range check written with mpz_cmp instead of mpz_cmpabs lets the
	// negative ones pass and reduces them silently)
	mpz_submul_ui(t = Z(v), q, 2); add("minus2q", t);
	mpz_submul_ui(t = Z(v), q, 3); add("minus3q", t);
	mpz_addmul_ui(t = Z(v), q, 2); add("plus2q", t);
	{ Z w; mpz_set_ui(w, 1); mpz_mul_2exp(w, w, mpz_sizeinbase(q, 2)); mpz_mul(w, w, q); mpz_sub(t, v, w); add("minusq2k", t); }
	mpz_addmul_ui(t = Z(v), p, 2); add("plus2p", t);
	mpz_sub(t, v, p); add("minusp", t);
	mpz_submul_ui(t = Z(v), p, 2); add("minus2p", t);
	return r;
}

// may an accepted single-value mutant be tolerated?  Only a negative representative of the same residue
// modulo the order (DESIGN O3: range checks written with mpz_cmpabs / "< q" let those pass; they are below q).
// The code's own rule is |x| < q: x - q (for 0 <= x < q) is the one equivalent representation; anything further out
// (x - 2q, x - 3q, ...) has to be refused, not reduced.
inline bool tolerated(mpz_srcptr oldv, mpz_srcptr newv, mpz_srcptr q) {
	if (mpz_sgn(newv) >= 0) return false;
	if (mpz_cmpabs(newv, q) >= 0) return false;
	Z a, b; mpz_mod(a, oldv, q); mpz_mod(b, newv, q);
	return mpz_cmp(a, b) == 0;
}

} // namespace verif
#endif
