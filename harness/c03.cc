// C03 harness: --part vtmf  = model-compared records for the VTMF-layer proofs (c03_vtmf.hh)
//              --part proto = implementation-level completeness oracle for all other verifiable operations (c03_proto.hh)
#include "common.hh"
#include <map>
#include <set>
#include <algorithm>
#include <numeric>
#include <functional>
#include <cerrno>
#define private public
#define protected public
#include <libTMCG.hh>
#undef private
#undef protected
#include "c08_oracle.hh"
#include "c03_vtmf.hh"
#include "c03_proto.hh"

int main(int argc, char **argv) {
	verif::Args A(argc, argv);
	if (!init_libTMCG()) { fprintf(stderr, "init_libTMCG failed\n"); return 2; }
	std::string part = "vtmf";
	for (int i = 1; i + 1 < argc; i++) if (std::string(argv[i]) == "--part") part = argv[i + 1];
	if (part == "vtmf") return c03v::vtmf_main(A);
	if (part == "proto") return c03p::proto_main(A);
	return 2;
}
