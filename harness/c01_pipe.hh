// minimal iostream over a file descriptor (for the two directions of an interactive proof run in two threads)
#ifndef VERIF_C01_PIPE_HH
#define VERIF_C01_PIPE_HH
#include <streambuf>
#include <istream>
#include <ostream>
#include <unistd.h>
#include <poll.h>
namespace verif {
class fdbuf : public std::streambuf {
	int fd; int timeout_ms; char ibuf[4096]; char obuf[4096];
public:
	// timeout_ms >= 0: a read that stays empty that long is treated as end of file (used only where the two sides are
	// known to run different protocols and would wait for each other forever)
	explicit fdbuf(int f, int tmo = -1) : fd(f), timeout_ms(tmo) { setg(ibuf, ibuf, ibuf); setp(obuf, obuf + sizeof obuf); }
	~fdbuf() { sync(); }
protected:
	int_type underflow() override {
		if (gptr() < egptr()) return traits_type::to_int_type(*gptr());
		if (timeout_ms >= 0) { struct pollfd pf; pf.fd = fd; pf.events = POLLIN; pf.revents = 0; if (::poll(&pf, 1, timeout_ms) <= 0) return traits_type::eof(); }
		ssize_t n = ::read(fd, ibuf, sizeof ibuf);
		if (n <= 0) return traits_type::eof();
		setg(ibuf, ibuf, ibuf + n);
		return traits_type::to_int_type(*gptr());
	}
	int_type overflow(int_type c) override {
		if (sync() < 0) return traits_type::eof();
		if (!traits_type::eq_int_type(c, traits_type::eof())) { *pptr() = traits_type::to_char_type(c); pbump(1); }
		return traits_type::not_eof(c);
	}
	int sync() override {
		char *b = pbase();
		while (b < pptr()) { ssize_t n = ::write(fd, b, pptr() - b); if (n <= 0) { setp(obuf, obuf + sizeof obuf); return -1; } b += n; }
		setp(obuf, obuf + sizeof obuf);
		return 0;
	}
};
} // namespace verif
#endif
