#!/bin/bash
# usage: gen/seedtest.sh <patch.diff> <check id>...   -- run checks against a scratch copy of /repo with the patch applied
patch=$1; shift
rm -rf /tmp/lead-repo; mkdir -p /tmp/lead-repo; cp -a /repo/src /repo/libTMCG_config.h /tmp/lead-repo/
( cd /tmp/lead-repo && patch -p1 -s < $patch ) || { echo "patch failed"; exit 2; }
for c in "$@"; do
  echo "=== $c against $patch"
  VERIF_REPO=/tmp/lead-repo timeout 3400 /verif/check $c --tier ${TIER:-quick} 2>/dev/null | grep -E "^(VIOLATION|OK|KNOWN)" | cut -c1-300 | head -8
done
git -C /verif checkout -- evidence 2>/dev/null
rm -rf /tmp/lead-repo
