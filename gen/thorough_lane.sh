#!/bin/bash
# usage: gen/thorough_lane.sh C01 C04 ...   -- run the thorough tier of the given checks one after the other (used with `vp run`)
./setup.sh > setup.log 2>&1
for c in "$@"; do
  /usr/bin/time -f "%e s" timeout 5400 ./check $c --tier thorough > thorough-$c.log 2>&1
  echo "$c rc=$? $(grep -E '^(OK|VIOLATION)' thorough-$c.log | head -2 | cut -c1-140 | tr '\n' ' ') $(tail -1 thorough-$c.log)"
done
