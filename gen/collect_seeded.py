#!/usr/bin/env python3
# assembles /verif/seeded/<id>/ from the seed agents' output, the lead's confirmation runs and the detection table below
import json, os, re, shutil, glob
ROOT = "/verif/seeded"
# detection results observed by the lead (gen/seedtest.sh runs): check -> result at first try / after strengthening
DET = {
 "C01":   dict(first="C01: missed", final="C01: caught (PROPFAIL open-after-rejected-share + model mismatch)", strengthened="C01 harness offers rejected shares before each correct share; theorem C01_rejected_share_unchanged"),
 "C02":   dict(first="C02: caught; C11: caught", final="same"),
 "C03":   dict(first="C03: missed", final="C03: caught (PROPFAIL vsshe-noninteractive-rejected + FS argument agreement obligation)", strengthened="construction-path sweep (separate commitment group), C03_fiat_shamir_arguments_agree"),
 "C04":   dict(first="C02: caught (import check); C04: missed", final="C02: caught"),
 "C05":   dict(first="C05: missed", final="C05: caught (re-proved non-member statement oracle)", strengthened="re-proved oracle in the C05 grid"),
 "C06":   dict(first="C06: caught", final="same"),
 "C07":   dict(first="C07: caught", final="same"),
 "C08":   dict(first="C08: caught", final="same"),
 "C09":   dict(first="C09: caught", final="same"),
 "C10":   dict(first="C10: caught", final="same"),
 "C11":   dict(first="C11: missed (tprime == t only)", final="C11: caught", strengthened="c11b: non-zero persisted states, tprime != t"),
 "C12":   dict(first="C12: caught", final="same"),
 "C13":   dict(first="C13: caught", final="same"),
 "C14":   dict(first="C14: caught", final="same"),
 "C15":   dict(first="C15: missed", final="C15: caught (dkg.qual-disagree)", strengthened="scripted deviations through TamperUnicast"),
 "C16":   dict(first="C16: caught after the congruent-value catalogue was added (built together with the check)", final="C16: caught"),
 "C17":   dict(first="C17: caught after value-q openings were added (built together with the check)", final="C17: caught"),
 "C18":   dict(first="C18: caught", final="same"),
 "C19":   dict(first="C19: caught", final="same"),
 "C20":   dict(first="C20: missed", final="C20: caught (key-block validity oracle + per-path field comparison)", strengthened="key-block path for all four algorithms"),
}
DET2 = {}
try:
    DET2 = json.load(open("/verif/gen/seeded_wave2.json"))
except Exception:
    pass
def results(tag):
    res = {}
    for f in glob.glob("/tmp/sv/logs/*.log"):
        for l in open(f, errors="replace"):
            m = re.match(r"^%s (C\d+) (.*)$" % tag, l)
            if m:
                res[m.group(1)] = m.group(2).strip()
    return res
def one(src, dst, pid, det, conf):
    if not os.path.exists(os.path.join(src, "patch.diff")):
        return False
    if not conf or "demo_with_patch=0" in conf or "demo_without_patch=0" not in conf:
        shutil.rmtree(dst, ignore_errors=True)      # keep only what the lead has confirmed
        return False
    os.makedirs(dst, exist_ok=True)
    for f in ["patch.diff", "demo.cc", "run.sh"]:
        if os.path.exists(os.path.join(src, f)):
            shutil.copy(os.path.join(src, f), os.path.join(dst, f))
    meta = {}
    try:
        meta = json.load(open(os.path.join(src, "meta.json")))
    except Exception:
        pass
    meta["property"] = pid
    meta["lead_confirmation"] = dict(
        procedure="fresh git worktree of /repo HEAD + build outputs; git apply patch.diff; make; run demo (must exit non-zero); make -k check (full existing suite); git checkout -- src; make; run demo (must exit 0)",
        result=conf or "not yet confirmed by the lead",
        note="t-seabp is listed as flaky in the baseline (not part of the 44 stable results) and hangs under machine load; tests killed by the 25-40 min watchdog of the confirmation script under load (t-poker-aiou for C02, C15-2; t-mpz for C08-3) passed when re-run alone with the patch applied")
    meta["detection"] = det
    with open(os.path.join(dst, "meta.json"), "w") as f:
        json.dump(meta, f, indent=1)
    return True
DET3 = {}
try:
    DET3 = json.load(open("/verif/gen/seeded_wave3.json"))
except Exception:
    pass
r1, r2, r3 = results("RESULT"), results("RESULT2"), results("RESULT3")
rows = []
for i in range(1, 21):
    pid = "C%02d" % i
    if one("/tmp/seed/%s/seed_out" % pid, os.path.join(ROOT, pid), pid, DET.get(pid, {}), r1.get(pid)):
        rows.append((pid, "1", DET.get(pid, {}), r1.get(pid)))
    if one("/tmp/seed2/%s/seed_out" % pid, os.path.join(ROOT, pid + "-2"), pid, DET2.get(pid, {}), r2.get(pid)):
        rows.append((pid, "2", DET2.get(pid, {}), r2.get(pid)))
    if one("/tmp/seed3/%s/seed_out" % pid, os.path.join(ROOT, pid + "-3"), pid, DET3.get(pid, {}), r3.get(pid)):
        rows.append((pid, "3", DET3.get(pid, {}), r3.get(pid)))
with open(os.path.join(ROOT, "README.md"), "w") as f:
    f.write("# Seeded changes\n\nEach directory holds `patch.diff` (applies to /repo HEAD with `git -C /repo apply`), the demonstration (`demo.cc`, `run.sh`) and `meta.json` "
            "(what it breaks, what it needs to manifest, what was run).  Produced by independent sub-agents that saw only the property text; confirmed by the lead "
            "(builds, existing suite passes, demo fails with / passes without).  Checks were run with `gen/seedtest.sh <patch> <check>` (scratch copy, `VERIF_REPO`).\n\n"
            "| property | wave | change (summary) | first result | final result | strengthening |\n|---|---|---|---|---|---|\n")
    for pid, w, det, conf in rows:
        d = os.path.join(ROOT, pid if w == "1" else pid + "-" + w)
        try:
            summ = json.load(open(os.path.join(d, "meta.json"))).get("summary", "")
        except Exception:
            summ = ""
        f.write("| %s | %s | %s | %s | %s | %s |\n" % (pid, w, " ".join(str(summ).split())[:260].replace("|", "/"), det.get("first", "?"), det.get("final", "?"), det.get("strengthened", "-")))
print(len(rows), "seeded changes collected")
