#!/usr/bin/env python3
# regenerates /verif/MANIFEST.json from the table below (kept valid at all times)
import json, os
ROOT = os.path.dirname(os.path.dirname(os.path.abspath(__file__)))
CHECKS = {}
def chk(pid, category, text, note, technique, design):
    CHECKS[pid] = dict(property_id=pid, quick_cmd="./check %s --tier quick" % pid, thorough_cmd="./check %s --tier thorough" % pid,
        evidence_file="evidence/%s.json" % pid, replay_cmd_template="./check %s --replay {path}" % pid, engine="coq-model+correspondence",
        level_claimed=dict(category=category, text=text, design_ref=design), level_note=note, technique=technique)

COMMON_NOTE = ("Trusted: Coq 8.16.1 kernel (vm_compute used, no native_compute); no axioms declared; translator gen/translate.py; "
               "extraction with ExtrOcamlBasic only + hand-written OCaml record driver; C++ harness linked against objects rebuilt from /repo/src; "
               "the theorem is about the Gallina model, tied to the code by the differential correspondence run (testing, not proof). ")

chk("C11", "proof",
    "Coq theorems: base-62 integer codec round-trips for every Z; VTMF_Card, VTMF_CardSecret, TMCG_Card and TMCG_CardSecret (all k<=TMCG_MAX_PLAYERS, w<=TMCG_MAX_TYPEBITS), "
    "TMCG_Stack<VTMF_Card>, TMCG_Stack<TMCG_Card>, TMCG_StackSecret<VTMF_CardSecret> and TMCG_StackSecret<TMCG_CardSecret> (all sizes <= TMCG_MAX_CARDS) import(export x) = x; the TMCG_PublicKey text round-trips for every key whose string fields contain no delimiter (guard shown necessary); export is injective on every modelled type; limits regenerated from libTMCG.hh. "
    "Correspondence: every export/import call of the real code on generated and mutated texts is recomputed by the extracted model.",
    COMMON_NOTE + "Not modelled: getline buffer truncation, TMCG_SecretKey and group/state texts of the protocol classes (implementation-level round-trip oracle only).",
    "Coq proof (round-trip theorems) + extracted-model differential correspondence", "DESIGN.md §5 C11")

chk("C14", "proof",
    "Coq proof (all n > 3t, every schedule incl. Byzantine injection, FIFO and non-FIFO) on an executable model of CachinKursawePetzoldShoupRBC of: agreement and integrity over the network model "
    "(no two honest parties deliver different values for one (ID, sender, slot); an honest sender's slot is delivered only with the value it broadcast), FIFO order and no duplicate delivery on FIFO channels, "
    "channel isolation of Deliver/DeliverFrom, k-fold counter recovery across setID/unsetID/recoverID, validity and totality at quiescence on the FIFO root channel; machine-checked refutations of "
    "no-duplicate delivery on non-FIFO channels (F8) and of totality across channel switches (F10), both recorded known findings. The model is compared call by call with the real class on an in-memory "
    "transport with harness-owned scheduling (~125k calls per quick run); an oracle checks all clauses on systematic (n=4,t=1) and randomized (n<=7) schedules of the real class.",
    COMMON_NOTE + "Premises of the value statements: the digest function is injective, never 0 and never over-long on the run's values. Validity/totality with channel switches are tested, not proved; real time-outs, Sync and OS buffering are not modelled.",
    "Coq invariants over all schedules (Bracha quorum argument) + extracted-model correspondence on in-memory transport", "DESIGN.md §0.2/§5 C14, docs/C14.md")
chk("C16", "proof",
    "Coq proof (no axioms) that the models of both library verifiers (threshold Schnorr incl. the range test 0 <= s < q added by fix c546d31, threshold DSS) return exactly the textbook verdict for all inputs; "
    "that checked Schnorr shares combine to a valid signature; that the threshold DSS signing algebra yields a textbook-valid (r, s) for >= 2t+1 signers and any >= t+1 broadcast shares; that all honest outputs "
    "are equal. Tied to the code by model-compared records (verifier boundary and congruent-value catalogue, Reconstruct, linear combinations from forked runs) and an implementation-level oracle: forked n-party "
    "signing runs (incl. silent signers, bad reconstruction shares, deviations inside DSS::Sign steps 1d/2d) checked with a plain-GMP textbook verifier.",
    COMMON_NOTE + "Premise of tdss_valid: each signer's VSS carries the right product; timing is outside the model (runs in which a library time-out expired are inconclusive and repeated); known finding dss-key-share-mismatch (CGJKR DKG drops a late-failing party from y but not from the shares).",
    "Coq proof on executable model + extraction-based correspondence + forked-run oracle with scripted deviations", "DESIGN.md §0.2/§5 C16, docs/C16.md")
chk("C19", "proof",
    "Coq proof of round-trip / shortest-form / consumption theorems for Radix-64 (all octet strings; alphabet proven equal to the tables regenerated from the header), CRC-24 checksum line, "
    "packet tags and all body-length forms incl. partial lengths, packet framing, MPIs and all 256 S2K counts, about a reference model written from the RFC 4880 text; tied to the code by "
    "octet-for-octet correspondence on boundary-aimed inputs (31 record kinds); implementation-level re-decoding oracle for every Packet*Encode and GnuPG (--list-packets, --dearmor) as additional judges.",
    COMMON_NOTE + "Armor round trip, ECC/v5/secret-key packet layouts: testing level (oracle + correspondence), not proof; hash/S2K primitives are oracles.",
    "Coq reference model from the RFC + extraction-based correspondence + gpg judge", "DESIGN.md §5 C19, docs/C19.md")
chk("C20", "proof",
    "Coq proof that the hashed octets determine trailer and signed object (v4/v5 signature hash-input injectivity), of the exact validity predicate (expiry, older than key, future-dated, weak hash), "
    "of the release-only-under-integrity structure of message decryption (MDC or AEAD required, unprotected refused) and of chunk/final-tag associated-data injectivity; the model is tied to the code by "
    "correspondence on the observed hash inputs (gcry_md_hash_buffer interposition), CheckValidity verdicts and AEAD nonces (gcry_cipher_setiv interposition); exhaustive single-octet tamper oracle on the "
    "implementation for signatures (RSA/DSA/ECDSA/EdDSA x 3 hashes x binary/text) and for MDC/AEAD encryption (every octet flipped, chunks reordered/dropped/duplicated, final tag dropped).",
    COMMON_NOTE + "Cryptographic primitives idealised (Section variables); sign/verify and encrypt/decrypt round trips are tested on the implementation, not proved; AEAD nonce reuse is a recorded known finding.",
    "Coq framing/decision model + correspondence on intercepted hash inputs and nonces + byte-flip oracle", "DESIGN.md §5 C20, docs/C20.md")

chk("C02", "proof",
    "Coq proof (no axioms) about an executable model of TMCG_MixStack (double indexing modelled literally), TMCG_GlueStackSecret, the Fisher-Yates / rotation generators of TMCG_CreateStackSecret and the "
    "import check: size and i-th card, multiset of types preserved, composition law mix(mix s sigma) pi = mix s (glue sigma pi), generated secrets are bijections / cyclic shifts with exactly the reported "
    "offset for every coin list, import accepts exactly bijections; tied to the code by exhaustive small-n (all coin vectors, all n^n index vectors) and sampled correspondence on real VTMF groups.",
    COMMON_NOTE + "mask/open enter as arbitrary functions with premises open(mask c r)=open c (C01) and the homomorphism law (proved for both encodings); QR-encoded stacks are checked by implementation-level oracles only.",
    "Coq permutation/composition theorems + extraction-based correspondence with scripted libgcrypt randomness", "DESIGN.md §5 C02, docs/C02.md")
chk("C07", "proof",
    "Coq proof (no axioms), uniformity as exact counting: for every modulus 2 <= m < 2^64 the bounded sampler accepts exactly the words below floor(2^64/m)*m and every residue has exactly floor(2^64/m) "
    "accepted words (machine arithmetic mod 2^64 written out, incl. the power-of-two wrap); the Fisher-Yates map from the n! admissible coin vectors to index vectors is a bijection onto the permutations of 0..n-1; "
    "rotation offsets are a bijection of [0,n); the residue sampler is always in range and within 2^-64 of uniform. The model is compared with the real samplers under interposed randomness (boundary words), "
    "incl. an exact-distribution sweep of all coin vectors for n <= 6 (7 thorough) through the real TMCG_CreateStackSecret.",
    COMMON_NOTE + "Uniform and independent libgcrypt bytes are assumed; distribution statements are counting statements about coins -> result.",
    "Coq counting/bijection theorems + extraction-based correspondence with interposed libgcrypt randomness", "DESIGN.md §5 C07, docs/C07.md")

# every other property with a check plugin: texts come from its docs/Cxx.md ("MANIFEST text" section written by the builder)
import re, glob
def _doc(pid):
    try:
        lines = open(os.path.join(ROOT, "docs", "%s.md" % pid)).read().split("\n")
    except OSError:
        return None
    def grab(key):
        for i, l in enumerate(lines):
            if key in l and ":" in l.split(key, 1)[1]:
                txt = l.split(key, 1)[1].split(":", 1)[1]
                j = i + 1
                while j < len(lines) and lines[j].strip() and not lines[j].lstrip().startswith(("* ", "- ", "#", "|", "`level_", "`technique")):
                    txt += " " + lines[j]
                    j += 1
                return " ".join(txt.replace("`", "").split()).strip(' ".')
        return ""
    return grab("level_claimed.text"), grab("level_note"), grab("technique")
for f in sorted(glob.glob(os.path.join(ROOT, "checks", "C*.py"))):
    pid = os.path.basename(f)[:-3]
    if pid in CHECKS:
        continue
    d = _doc(pid)
    if not d or not d[0]:
        continue
    NOTE_OVERRIDE = {
        "C05": "Genuine defects found by the grid were fixed in /repo (see KNOWN_FINDINGS.txt fixed: lines for C05); known findings pedersen.m.plusq / pedersen.m.negfar (messages of PedersenCommitmentScheme::Verify unchecked). The random-oracle step is a named non-theorem.",
        "C12": "Partial by nature: memory safety of the process is established by sanitizer/valgrind-backed differential testing in forked children, not by proof; the Coq part covers the modelled index/length logic only. All crashes found (SubpacketDecode wrap, CheckGroup SIGFPE, ...) are fixed in /repo.",
    }
    if pid in NOTE_OVERRIDE:
        d = (d[0], NOTE_OVERRIDE[pid], d[2])
    lvl = re.search(r'^LEVEL\s*=\s*"(\w+)"', open(f).read(), re.M)
    chk(pid, lvl.group(1) if lvl else "proof", d[0], COMMON_NOTE + (d[1] or ""), d[2] or "Coq model + theorems + extracted-model correspondence",
        "DESIGN.md §5 %s, docs/%s.md" % (pid, pid))

NOT_YET = {}
ALL = ["C%02d" % i for i in range(1, 21)]
for p in ALL:
    if p not in CHECKS:
        NOT_YET[p] = "check not built yet in this round (planned, see DESIGN.md §5/§9); not claimed"

man = dict(version=1,
    setup_cmd="./setup.sh",
    hooks=dict(guard="LIBTMCG_VERIF", enable="checks compile /repo/src/*.cc themselves with -DLIBTMCG_VERIF into /verif/build/obj (no hook is currently present in the source)",
               baseline_off_cmd="cd /repo && make -k check", source_commits=[], add_only=True),
    engines=[dict(name="coq-model+correspondence", path="check", serves_properties=sorted(CHECKS),
                  kind_free_text="Coq 8.16 model + theorems (coq/), regenerated fragments (gen/translate.py), extraction to OCaml, C++ harness against objects rebuilt from /repo")],
    checks=[CHECKS[k] for k in sorted(CHECKS)],
    not_applicable=[dict(property_id=k, reason=v) for k, v in sorted(NOT_YET.items())],
    notes="see DESIGN.md; KNOWN_FINDINGS.txt lists recorded findings and fixes")
with open(os.path.join(ROOT, "MANIFEST.json"), "w") as f:
    json.dump(man, f, indent=1)
print("MANIFEST.json written: %d checks" % len(CHECKS))
