# Translator (data only, see DESIGN.md §2.3): regenerates Coq fragments from /repo/src
# on every run so that the theorems depending on them are re-checked against the current source.
#   gen_Consts.v   every numeric TMCG_* macro of src/libTMCG.hh (evaluated by the C preprocessor + integer eval)
#   gen_Tables.v   literal tables embedded in the code (Radix-64 alphabet / reverse table)
#   gen_FSInputs.v argument lists of every Fiat-Shamir hash call (tmcg_mpz_shash*) per enclosing function
import os, re, subprocess, sys

def _write_if_changed(path, text):
    if os.path.exists(path):
        with open(path) as f:
            if f.read() == text:
                return False
    with open(path, "w") as f:
        f.write(text)
    return True

def _strip_comments(src):
    src = re.sub(r"/\*.*?\*/", lambda m: "\n" * m.group(0).count("\n"), src, flags=re.S)
    src = re.sub(r"//[^\n]*", "", src)
    return src

def consts(repo):
    hh = os.path.join(repo, "src", "libTMCG.hh")
    with open(hh) as f:
        txt = f.read()
    names = sorted(set(re.findall(r"#define\s+(TMCG_[A-Z0-9_]+)", txt)))
    # expand with the preprocessor only on the block of #defines (no system headers needed)
    block = []
    for m in re.finditer(r"^[ \t]*#[ \t]*(define|ifndef|ifdef|endif|if|else)\b.*?(?<!\\)$", txt, re.M | re.S):
        line = m.group(0)
        if "INCLUDED_" in line:
            continue
        block.append(line)
    # keep only define lines of TMCG_ macros (with continuation lines)
    defs = re.findall(r"^[ \t]*#define[ \t]+TMCG_[A-Z0-9_]+(?:.*\\\n)*.*$", txt, re.M)
    probe = "\n".join(d.strip() for d in defs) + "\n"
    for n in names:
        probe += "VERIFCONST \"%s\" = %s ;\n" % (n, n)
    p = subprocess.run(["g++", "-E", "-P", "-x", "c++", "-"], input=probe, capture_output=True, text=True)
    res = {}
    for line in p.stdout.split("\n"):
        m = re.match(r"VERIFCONST \"(TMCG_[A-Z0-9_]+)\" = (.*) ;", line)
        if not m:
            continue
        name, expr = m.group(1), m.group(2).strip()
        e = re.sub(r"\b(0[xX][0-9a-fA-F]+|\d+)[uUlL]*\b", r"\1", expr)
        e = e.replace("true", "1").replace("false", "0")
        # C ternary -> python
        mt = re.match(r"^\(\((.*)\) \? \((.*)\) : \((.*)\)\)$", e)
        try:
            if mt:
                val = eval(mt.group(2), {}) if eval(mt.group(1), {}) else eval(mt.group(3), {})
            else:
                val = eval(e.replace("/", "//"), {"__builtins__": {}})
            if isinstance(val, bool):
                val = int(val)
            if isinstance(val, int):
                res[name] = val
        except Exception:
            pass
    return res

def radix64_tables(repo):
    cc = os.path.join(repo, "src", "CallasDonnerhackeFinneyShawThayerRFC4880.hh")
    with open(cc) as f:
        txt = _strip_comments(f.read())
    out = {}
    m = re.search(r"tmcg_openpgp_tRadix64\[\]\s*=\s*((?:\s*\"[^\"]*\")+)\s*;", txt)
    if m:
        s = "".join(re.findall(r"\"([^\"]*)\"", m.group(1)))
        out["tRadix64"] = [ord(c) for c in s]
    m = re.search(r"tmcg_openpgp_fRadix64\[\]\s*=\s*\{([^}]*)\}", txt)
    if m:
        out["fRadix64"] = [int(x, 0) for x in re.findall(r"-?\d+", m.group(1))]
    return out

def _split_args(s):
    args, depth, cur = [], 0, ""
    for ch in s:
        if ch in "([{":
            depth += 1
        elif ch in ")]}":
            depth -= 1
        if ch == "," and depth == 0:
            args.append(cur.strip()); cur = ""
        else:
            cur += ch
    if cur.strip():
        args.append(cur.strip())
    return args

def fs_inputs(repo):
    """for every call tmcg_mpz_shash*(...) in the protocol sources: (file, enclosing function, callee, args)"""
    res = []
    for fn in ["BarnettSmartVTMF_dlog.cc", "GrothVSSHE.cc", "HooghSchoenmakersSkoricVillegasVRHE.cc", "PedersenCOM.cc",
               "SchindelhauerTMCG.cc", "TMCG_PublicKey.cc", "TMCG_SecretKey.cc", "JareckiLysyanskayaASTC.cc",
               "NaorPinkasEOTP.cc", "GennaroJareckiKrawczykRabinDKG.cc", "CanettiGennaroJareckiKrawczykRabinASTC.cc",
               "BarnettSmartVTMF_dlog_GroupQR.cc"]:
        p = os.path.join(repo, "src", fn)
        if not os.path.exists(p):
            continue
        with open(p) as f:
            txt = _strip_comments(f.read())
        # enclosing function: last "Class::Name" header at column 0 before the call
        heads = [(m.start(), m.group(2)) for m in re.finditer(r"^(?:[A-Za-z_][\w:<>\*&\s]*?\s+)?\**([A-Za-z_]\w*)::(~?[A-Za-z_]\w*)\s*$", txt, re.M)]
        heads += [(m.start(), m.group(2)) for m in re.finditer(r"^(?:[A-Za-z_][\w:<>\*&\s]*?\s+)?\**([A-Za-z_]\w*)::(~?[A-Za-z_]\w*)\s*\(", txt, re.M)]
        heads.sort()
        for m in re.finditer(r"\b(tmcg_mpz_shash\w*)\s*\(", txt):
            i = m.end()
            depth, j = 1, i
            while j < len(txt) and depth > 0:
                if txt[j] == "(": depth += 1
                elif txt[j] == ")": depth -= 1
                j += 1
            args = _split_args(" ".join(txt[i:j - 1].split()))
            enc = "?"
            for pos, name in heads:
                if pos < m.start():
                    enc = name
                else:
                    break
            res.append((fn, enc, m.group(1), args))
    return res

def _coq_string(s):
    return '"' + s.replace('"', '""') + '"'

def generate(repo, coqdir):
    c = consts(repo)
    lines = ["(* GENERATED by /verif/gen/translate.py from src/libTMCG.hh -- do not edit *)",
             "From Coq Require Import ZArith.", "Local Open Scope Z_scope.", ""]
    for k in sorted(c):
        lines.append("Definition %s : Z := %d." % (k, c[k]))
    changed = _write_if_changed(os.path.join(coqdir, "gen_Consts.v"), "\n".join(lines) + "\n")
    t = radix64_tables(repo)
    lines = ["(* GENERATED by /verif/gen/translate.py from CallasDonnerhackeFinneyShawThayerRFC4880.cc -- do not edit *)",
             "From Coq Require Import ZArith NArith List.", "Import ListNotations.", "Local Open Scope N_scope.", ""]
    lines.append("Definition src_tRadix64 : list N := [%s]." % "; ".join(str(x) for x in t.get("tRadix64", [])))
    lines.append("Definition src_fRadix64 : list Z := [%s]%%Z." % "; ".join(str(x) for x in t.get("fRadix64", [])))
    changed |= _write_if_changed(os.path.join(coqdir, "gen_Tables.v"), "\n".join(lines) + "\n")
    fs = fs_inputs(repo)
    lines = ["(* GENERATED by /verif/gen/translate.py: argument lists of every Fiat-Shamir hash call -- do not edit *)",
             "From Coq Require Import String List.", "Import ListNotations.", "Local Open Scope string_scope.", "",
             "(* (file, enclosing function, hash function, argument expressions) in source order *)",
             "Definition fs_calls : list (string * string * string * list string) := ["]
    ents = []
    for (fn, enc, callee, args) in fs:
        ents.append("  (%s, %s, %s, [%s])" % (_coq_string(fn), _coq_string(enc), _coq_string(callee),
                                              "; ".join(_coq_string(a) for a in args)))
    lines.append(";\n".join(ents))
    lines.append("].")
    changed |= _write_if_changed(os.path.join(coqdir, "gen_FSInputs.v"), "\n".join(lines) + "\n")
    return changed

if __name__ == "__main__":
    repo = sys.argv[1] if len(sys.argv) > 1 else "/repo"
    out = sys.argv[2] if len(sys.argv) > 2 else os.path.join(os.path.dirname(os.path.dirname(os.path.abspath(__file__))), "coq")
    print(generate(repo, out))
