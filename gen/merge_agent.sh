#!/bin/bash
# usage: gen/merge_agent.sh <clone dir> <message>
cd /verif
git pull -q --no-edit $1 main > /tmp/merge.out 2>&1
for f in $(git diff --name-only --diff-filter=U); do
  case $f in
    evidence/*) git checkout --ours $f 2>/dev/null; git add $f;;
    coq/_CoqProject) git rm -q --cached $f 2>/dev/null;;
    KNOWN_FINDINGS.txt) python3 - <<'PY'
out=[]
for l in open('/verif/KNOWN_FINDINGS.txt').read().split('\n'):
    if l.startswith('<<<<<<<') or l.startswith('=======') or l.startswith('>>>>>>>'): continue
    if l and l in out: continue
    out.append(l)
open('/verif/KNOWN_FINDINGS.txt','w').write('\n'.join(out))
PY
      git add $f;;
    *) echo "UNRESOLVED $f";;
  esac
done
git rm -q --cached coq/_CoqProject 2>/dev/null
git commit -qm "$2" 2>&1 | tail -1
git log --oneline | head -1
