#!/bin/sh
# Build the framework from files on disk only (offline): Coq project, repository objects, drivers.
set -e
cd "$(dirname "$0")"
python3 - <<'PY'
import sys, os, glob
sys.path.insert(0, "lib")
import vpl
ok, txt = vpl.coq_make([])
print("coq make all:", ok)
if not ok:
    print(txt[-3000:])
vpl.build_objs("plain")
for d in sorted(glob.glob("ocaml/drv_C*.ml")):
    pid = os.path.basename(d)[4:-3]
    try:
        vpl.build_driver(pid)
    except Exception as e:
        print("driver", pid, "failed:", str(e)[:500])
PY
