(* model side of the C14 correspondence: every API call the harness made on a real RBC object is replayed on the
   extracted RbcModel (one model state per party and world); the outputs (result, consumed flag, messages sent,
   channel / counters after the call) are compared token by token. *)
open Model
open Drvcore

(* digest hash as a table filled by `REC hdef m d` (the harness computes tmcg_mpz_shash(d, 1, m)) *)
let htab : (string, z) Hashtbl.t = Hashtbl.create 1024
let hfun (m : z) : z =
  match Hashtbl.find_opt htab (hex_of_z m) with Some d -> d | None -> failwith ("no hdef for " ^ hex_of_z m)
(* d_string.length() > 2 * tag.length(): tags are SHA-256 values (<= 78 decimal digits); the harness only uses digests
   below 2^256 or of 301 digits *)
let lim = ZA.pow (ZA.of_int 10) 160
let toolong (_ : tagT) (d : z) : bool = ZA.geq (ZA.abs (zarith_of_z d)) lim

type world = { n : int; t : int; skip : int; st : pst array }
let worlds : (int, world) Hashtbl.t = Hashtbl.create 64
let world w = match Hashtbl.find_opt worlds (int_of_string w) with Some x -> x | None -> failwith "unknown world"

let msg_of_tok (s : string) : msg =
  match String.split_on_char '.' s with
  | [a; b; c; d; e] -> { m_id = z_of_hex a; m_j = z_of_hex b; m_s = z_of_hex c; m_act = z_of_hex d; m_pay = z_of_hex e }
  | _ -> failwith "msg"
let tok_of_msg (m : msg) : string =
  String.concat "." [hex_of_z m.m_id; hex_of_z m.m_j; hex_of_z m.m_s; hex_of_z m.m_act; hex_of_z m.m_pay]
let offer_of_tok (s : string) : (z * msg) option =
  if s = "none" then None else
    let k = String.index s ':' in
    Some (z_of_int (int_of_string (String.sub s 0 k)), msg_of_tok (String.sub s (k + 1) (String.length s - k - 1)))
let tok_of_sent (l : (z * msg) list) : string =
  if l = [] then "_" else String.concat ";" (List.map (fun (d, m) -> string_of_int (int_of_z d) ^ ":" ^ tok_of_msg m) l)
let tok_of_state (w : world) (s : pst) : string =
  String.concat "," ([hex_of_z s.cur; hex_of_z s.sq; (if s.fifo then "1" else "0"); string_of_int (List.length s.dbuf)]
                     @ List.init w.n (fun i -> hex_of_z (s.dls (z_of_int i))))
let tok_of_res (r : dres) : string =
  match r with RNone -> "N" | RThrow -> "T" | RDeliver (who, _, v) -> "D" ^ string_of_int (int_of_z who) ^ "," ^ hex_of_z v

let zi = z_of_int

let () =
  register "hdef" (function [m; d; out] -> Hashtbl.replace htab (hex_of_z (z_of_hex m)) (z_of_hex d); ("ok", out) | _ -> failwith "arity");
  register "new" (function [w; n; t; skip; out] ->
      let n = int_of_string n in
      (* the harness runs its worlds one after the other: a new world ends the previous one *)
      Hashtbl.reset worlds;
      Hashtbl.replace worlds (int_of_string w) { n; t = int_of_string t; skip = int_of_string skip; st = Array.make n pinit };
      ("ok", out) | _ -> failwith "arity");
  register "bc" (function [w; p; m; coin; out] ->
      let w = world w and p = int_of_string p in
      let (st', sent) = broadcast (zi w.n) (zi p) w.st.(p) (z_of_hex m) (z_of_hex coin) in
      w.st.(p) <- st';
      (tok_of_sent sent ^ "/" ^ hex_of_z st'.sq, out) | _ -> failwith "arity");
  register "dl" (function [w; p; offer; out] ->
      let w = world w and p = int_of_string p in
      let o = deliver (zi w.n) (zi w.t) (zi w.skip) hfun toolong (zi p) w.st.(p) (offer_of_tok offer) in
      w.st.(p) <- o.o_st;
      (String.concat "/" [tok_of_res o.o_res; (if o.o_used then "1" else "0"); tok_of_sent o.o_sent; tok_of_state w o.o_st], out)
    | _ -> failwith "arity");
  register "df" (function [w; p; i; offer; out] ->
      let w = world w and p = int_of_string p in
      let (o, ret) = deliver_from (zi w.n) (zi w.t) (zi w.skip) hfun toolong (zi p) w.st.(p) (zi (int_of_string i)) (offer_of_tok offer) in
      w.st.(p) <- o.o_st;
      (String.concat "/" [(match ret with None -> "none" | Some v -> hex_of_z v); tok_of_res o.o_res; (if o.o_used then "1" else "0");
                          tok_of_sent o.o_sent; tok_of_state w o.o_st], out)
    | _ -> failwith "arity");
  register "sid" (function [w; p; id; f; out] ->
      let w = world w and p = int_of_string p in
      w.st.(p) <- set_id w.st.(p) (z_of_hex id) (f = "1"); (tok_of_state w w.st.(p), out) | _ -> failwith "arity");
  register "rid" (function [w; p; id; f; out] ->
      let w = world w and p = int_of_string p in
      w.st.(p) <- recover_id w.st.(p) (z_of_hex id) (f = "1"); (tok_of_state w w.st.(p), out) | _ -> failwith "arity");
  register "uid" (function [w; p; f; out] ->
      let w = world w and p = int_of_string p in
      w.st.(p) <- unset_id w.st.(p) (f = "1"); (tok_of_state w w.st.(p), out) | _ -> failwith "arity");
  main ()
