(* model side of the C11 correspondence: recompute every record with the extracted CodecModel *)
open Model
open Drvcore

let opt f = function None -> "none" | Some x -> f x
let tok_pair (a, b) = hex_of_z a ^ "," ^ hex_of_z b
let tok_rows rows = String.concat ";" (List.map tok_of_zlist rows)
let tok_cards cs = if cs = [] then "_" else String.concat ";" (List.map tok_pair cs)
let tok_pairs ps = if ps = [] then "_" else String.concat ";" (List.map (fun (i, r) -> hex_of_n i ^ "," ^ hex_of_z r) ps)
let cards_of_tok t = if t = "_" then [] else
  List.map (fun s -> match String.split_on_char ',' s with [a; b] -> (z_of_hex a, z_of_hex b) | _ -> failwith "card") (String.split_on_char ';' t)
let pairs_of_tok t = if t = "_" then [] else
  List.map (fun s -> match String.split_on_char ',' s with [a; b] -> (n_of_hex a, z_of_hex b) | _ -> failwith "pair") (String.split_on_char ';' t)
let rows_of_tok t = List.map zlist_of_tok (String.split_on_char ';' t)
(* TMCG_CardSecret token: rows separated by ';', each row r,b,r,b,... *)
let rec pairs_of_list = function a :: b :: r -> (a, b) :: pairs_of_list r | [] -> [] | _ -> failwith "odd row"
let prows_of_tok t = List.map (fun r -> pairs_of_list (zlist_of_tok r)) (String.split_on_char ';' t)
let tok_prows rows = String.concat ";" (List.map (fun r -> tok_of_zlist (List.concat_map (fun (a, b) -> [a; b]) r)) rows)

(* stack of TMCG_Card: cards separated by '/', each card as rows *)
let tcards_of_tok t = if t = "_" then [] else List.map rows_of_tok (String.split_on_char '/' t)
let tok_tcards cs = if cs = [] then "_" else String.concat "/" (List.map tok_rows cs)

(* stack secret of TMCG_CardSecret: entries separated by '/', each "idx:rows" *)
let tpairs_of_tok t = if t = "_" then [] else
  List.map (fun s -> match String.index_opt s ':' with
    | Some i -> (n_of_hex (String.sub s 0 i), prows_of_tok (String.sub s (i + 1) (String.length s - i - 1)))
    | None -> failwith "tpair") (String.split_on_char '/' t)
let tok_tpairs ps = if ps = [] then "_" else String.concat "/" (List.map (fun (i, r) -> hex_of_n i ^ ":" ^ tok_prows r) ps)

let () =
  register "enc62" (function [z; out] -> (tok_of_bytes (encode62 (z_of_hex z)), out) | _ -> failwith "arity");
  register "dec62" (function [s; out] -> (opt hex_of_z (decode62 (bytes_of_tok s)), out) | _ -> failwith "arity");
  register "vcard_exp" (function [a; b; out] -> (tok_of_bytes (export_vcard (z_of_hex a, z_of_hex b)), out) | _ -> failwith "arity");
  register "vcard_imp" (function [s; out] -> (opt tok_pair (import_vcard (bytes_of_tok s)), out) | _ -> failwith "arity");
  register "vsec_exp" (function [a; out] -> (tok_of_bytes (export_vsecret (z_of_hex a)), out) | _ -> failwith "arity");
  register "vsec_imp" (function [s; out] -> (opt hex_of_z (import_vsecret (bytes_of_tok s)), out) | _ -> failwith "arity");
  register "tcard_exp" (function [rows; out] -> (tok_of_bytes (export_tcard (rows_of_tok rows)), out) | _ -> failwith "arity");
  register "tcard_imp" (function [s; out] -> (opt tok_rows (import_tcard (bytes_of_tok s)), out) | _ -> failwith "arity");
  register "tsec_exp" (function [rows; out] -> (tok_of_bytes (export_tsecret (prows_of_tok rows)), out) | _ -> failwith "arity");
  register "tsec_imp" (function [s; out] -> (opt tok_prows (import_tsecret (bytes_of_tok s)), out) | _ -> failwith "arity");
  register "tstack_exp" (function [cs; out] -> (tok_of_bytes (export_tstack (tcards_of_tok cs)), out) | _ -> failwith "arity");
  register "tstack_imp" (function [old; s; out] -> (opt tok_tcards (import_tstack (tcards_of_tok old) (bytes_of_tok s)), out) | _ -> failwith "arity");
  register "tss_exp" (function [ps; out] -> (tok_of_bytes (export_tstacksecret (tpairs_of_tok ps)), out) | _ -> failwith "arity");
  register "tss_imp" (function [old; s; out] -> (opt tok_tpairs (import_tstacksecret (tpairs_of_tok old) (bytes_of_tok s)), out) | _ -> failwith "arity");
  register "pub_exp" (function [n; e; t; m; y; z; g; out] ->
      (tok_of_bytes (export_pubkey { pk_name = bytes_of_tok n; pk_email = bytes_of_tok e; pk_type = bytes_of_tok t; pk_m = z_of_hex m; pk_y = z_of_hex y;
                                     pk_nizk = bytes_of_tok z; pk_sig = bytes_of_tok g }), out) | _ -> failwith "arity");
  register "pub_imp" (function [s; out] ->
      (opt (fun k -> String.concat "," [tok_of_bytes k.pk_name; tok_of_bytes k.pk_email; tok_of_bytes k.pk_type; hex_of_z k.pk_m; hex_of_z k.pk_y;
                                        tok_of_bytes k.pk_nizk; tok_of_bytes k.pk_sig]) (import_pubkey (bytes_of_tok s)), out) | _ -> failwith "arity");
  register "vstack_exp" (function [cs; out] -> (tok_of_bytes (export_vstack (cards_of_tok cs)), out) | _ -> failwith "arity");
  register "vstack_imp" (function [old; s; out] -> (opt tok_cards (import_vstack (cards_of_tok old) (bytes_of_tok s)), out) | _ -> failwith "arity");
  register "vss_exp" (function [ps; out] -> (tok_of_bytes (export_vstacksecret (pairs_of_tok ps)), out) | _ -> failwith "arity");
  register "vss_imp" (function [old; s; out] -> (opt tok_pairs (import_vstacksecret (pairs_of_tok old) (bytes_of_tok s)), out) | _ -> failwith "arity");
  register "streammax" (fun _ -> ("impl-only", "impl-only"));
  main ()
