(* model side of the C13 correspondence: recompute every record with the extracted AioModel.
   MAC and cipher are parameters of the model; here they are the tables of calls logged by the harness
   (MAC: input -> tag; cipher: (hash of the handle history as the model describes it, input) -> output).
   A query that is not in the table means the model performs a call the implementation did not: reported as a mismatch. *)
open Model
open Drvcore

let hexbytes s = bytes_of_tok ("x" ^ s)
let hexof l = let t = tok_of_bytes l in String.sub t 1 (String.length t - 1)

(* history hash, identical to struct H2 of harness/c13.cc *)
let add (a, b) c = ((a * 257 + c + 1) mod 1000000007, (b * 263 + c + 1) mod 998244353)
let rec hhash (h : cop list) : int * int =
  match h with
  | [] -> (7, 11)
  | OpData [m; a; b] :: _ when int_of_n m = 256 -> (int_of_n a, int_of_n b)     (* marker: history known by hash only *)
  | op :: rest ->
    let (tag, bs) = match op with OpIV x -> (73, x) | OpCtr x -> (67, x) | OpData x -> (68, x) in
    let st = add (hhash rest) tag in
    let st = List.fold_left (fun s x -> add s (int_of_n x)) st bs in
    add st 255
let hstr h = let (a, b) = hhash h in string_of_int a ^ "." ^ string_of_int b
let base_hist (s : string) : cop list =
  match String.split_on_char '.' s with
  | [a; b] -> [OpData [n_of_int 256; n_of_int (int_of_string a); n_of_int (int_of_string b)]]
  | _ -> failwith "hist"

let table (t : string) : (string, string) Hashtbl.t =
  let h = Hashtbl.create 16 in
  if t <> "_" then
    List.iter (fun e ->
      match String.split_on_char ':' e with
      | [i; o] -> Hashtbl.replace h i o
      | [k; i; o] -> Hashtbl.replace h (k ^ ":" ^ i) o
      | _ -> failwith "table entry") (String.split_on_char '/' t);
  h

let prims_of mactab enctab dectab : prims =
  let mt = table mactab and et = table enctab and dt = table dectab in
  { maclen = nat_of_int 32; blklen = nat_of_int 16;
    mac = (fun x -> match Hashtbl.find_opt mt (hexof x) with Some t -> hexbytes t | None -> failwith ("mac-oracle-miss " ^ hexof x));
    c_enc = (fun h p -> match Hashtbl.find_opt et (hstr h ^ ":" ^ hexof p) with Some t -> hexbytes t
                        | None -> failwith ("enc-oracle-miss " ^ hstr h ^ ":" ^ hexof p));
    c_dec = (fun h p -> match Hashtbl.find_opt dt (hstr h ^ ":" ^ hexof p) with Some t -> hexbytes t
                        | None -> failwith ("dec-oracle-miss " ^ hstr h ^ ":" ^ hexof p)) }

let cfg_of (m : string) : cfg =
  { auth = (m.[0] = '1'); encr = (m.[1] = '1'); chunked = (m.[2] = '1'); nonblock = (m.[3] = '1') }
let b01 b = if b then "1" else "0"

let sstr (s : sstate) = b01 s.s_iv_sent ^ "|" ^ hex_of_z s.s_sqn ^ "|" ^ hex_of_z s.s_chunk ^ "|" ^ hstr s.s_hist
let sstate_of (t : string) : sstate =
  match String.split_on_char '|' t with
  | [iv; sq; ch; h] -> { s_iv_sent = (iv = "1"); s_sqn = z_of_hex sq; s_chunk = z_of_hex ch; s_hist = base_hist h }
  | _ -> failwith "sstate"

let rec len = function [] -> 0 | _ :: r -> 1 + len r
let brief (st : rstate) = string_of_int (len st.r_buf) ^ ":" ^ b01 st.r_flag ^ ":" ^ hex_of_z st.r_sqn
let rstr (st : rstate) =
  tok_of_bytes st.r_buf ^ "." ^ b01 st.r_flag ^ "." ^ b01 st.r_iv ^ "." ^ hex_of_z st.r_sqn ^ "." ^ hex_of_z st.r_chunk ^ "."
  ^ b01 st.r_bad ^ "." ^ hstr st.r_hist

let events_of (t : string) : event list =
  if t = "_" then [] else
  List.filter_map (fun e ->
    if e = "C" then Some Call
    else if e = "E" then None                       (* closing the write end: nothing becomes readable *)
    else if String.length e >= 1 && e.[0] = 'F' then Some (Feed (hexbytes (String.sub e 1 (String.length e - 1))))
    else failwith "event") (String.split_on_char ',' t)

let zl l = if l = [] then "_" else String.concat "," (List.map hex_of_z l)

let () =
  register "consts" (function [bs; hide; delim; ml; bl; _] ->
      (hex_of_z buf_in_size ^ "," ^ hex_of_z hide_length ^ "," ^ hex_of_z array_delimiter ^ ",32,16",
       bs ^ "," ^ hide ^ "," ^ delim ^ "," ^ ml ^ "," ^ bl) | _ -> failwith "arity");
  register "sizeinbase" (function [x; out] -> (hex_of_z (sizeinbase62 (z_of_hex x)), out) | _ -> failwith "arity");
  register "send" (function [mode; iv; st; m; mactab; enctab; out] ->
      let p = prims_of mactab enctab "_" in
      let r = match send p (cfg_of mode) (bytes_of_tok iv) (sstate_of st) (z_of_hex m) with
        | None -> "none"
        | Some (w, st') -> tok_of_bytes w ^ "|" ^ sstr st' in
      (r, out) | _ -> failwith "arity");
  register "recv" (function [mode; nonce; evs; mactab; dectab; out] ->
      let p = prims_of mactab "_" dectab in
      let c = cfg_of mode and nc = bytes_of_tok nonce in
      let evl = events_of evs in
      let st = ref rstate0 and pipe = ref [] and toks = ref [] and outs = ref [] in
      List.iter (fun e ->
        match e with
        | Feed ch -> pipe := !pipe @ ch
        | Call ->
          let ((o, st'), pipe') = recv_call p c nc !st !pipe in
          st := st'; pipe := pipe'; outs := o :: !outs;
          toks := ((match o with Some (Deliver m) -> "D" ^ hex_of_z m | _ -> "N") ^ ":" ^ brief st') :: !toks) evl;
      (* the fold used by the theorems gives the same thing *)
      if String.length evs < 30000 then begin
        let ((os, st2), _) = run p c nc rstate0 [] evl in
        if delivered os <> delivered (List.rev !outs) || rstr st2 <> rstr !st then failwith "run-differs-from-recv_call-loop"
      end;
      ((if !toks = [] then "_" else String.concat "," (List.rev !toks)) ^ "|" ^ rstr !st, out) | _ -> failwith "arity");
  register "arrtake" (function [mode; k; q; out] ->
      let ql = zlist_of_tok q in
      let r = match array_take (cfg_of mode) (nat_of_int (int_of_string k)) ql with
        | None -> "F|" ^ zl ql
        | Some (Some vs, q') -> "T" ^ zl vs ^ "|" ^ zl q'
        | Some (None, q') -> "F|" ^ zl q' in
      (r, out) | _ -> failwith "arity");
  main ()
