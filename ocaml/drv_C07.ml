(* model side of the C07 correspondence: recompute every sampler call with the extracted SamplerModel / ShuffleModel *)
open Model
open Drvcore

let tok_nlist l = if l = [] then "_" else String.concat "," (List.map hex_of_n l)
let res_tok f = function
  | Ret a -> f a | NeedCoins -> "needcoins" | Throw -> "throw" | Oob -> "oob" | AssertFail -> "assert" | DivZero -> "divzero"
let left rest = if rest = [] then "" else ":model-left-coins=" ^ string_of_int (List.length rest)

let css_tok (((o, ss), rest) : (n * (n * z) list) * n list) =
  "ret:" ^ hex_of_n o ^ ":" ^ tok_nlist (List.map fst ss) ^ ":" ^ tok_of_zlist (List.map snd ss) ^ left rest

let () =
  register "rmod" (function [_lv; m; coins; out] ->
      (res_tok (fun (v, rest) -> "ret:" ^ hex_of_n v ^ left rest) (random_mod (n_of_hex m) (bytes_of_tok coins)), out)
    | _ -> failwith "arity");
  register "rm" (function [_lv; m; coins; out] ->
      (res_tok (fun (v, rest) -> "ret:" ^ hex_of_z v ^ left rest) (grandomm (z_of_hex m) (bytes_of_tok coins)), out)
    | _ -> failwith "arity");
  register "rb" (function [_lv; size; coins; out] ->
      (res_tok (fun (v, rest) -> "ret:" ^ hex_of_n v ^ left rest) (grandomb (n_of_hex size) (bytes_of_tok coins)), out)
    | _ -> failwith "arity");
  register "css" (function [cyc; n; q; coins; out] ->
      (res_tok css_tok (create_stack_secret (cyc = "1") (nat_of_int (int_of_string n)) (z_of_hex q) (bytes_of_tok coins)), out)
    | _ -> failwith "arity");
  register "rcache" (function [n; q; ms; coins; out] ->
      (res_tok (fun (vs, rest) -> "ret:" ^ tok_of_zlist vs ^ left rest)
         (cache_run (nat_of_int (int_of_string n)) (z_of_hex q) (zlist_of_tok ms) (bytes_of_tok coins)), out)
    | _ -> failwith "arity");
  main ()
