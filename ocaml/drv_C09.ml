(* model side of the C09 correspondence: recompute every record with the extracted Powm/Sqrt/Interp models *)
open Model
open Drvcore

let tok_outcome = function
  | Ok r -> hex_of_z r
  | ThrowEven -> "even" | ThrowZeroMod -> "zeromod" | ThrowWrongBase -> "wrongbase"
  | ThrowTooLarge -> "toolarge" | ThrowInvert -> "inv" | TableOverrun -> "overrun"
let tok_sq = function
  | SqOk r -> hex_of_z r | SqThrowZero -> "zero" | SqThrowGcd -> "gcd" | SqDiverge -> "diverge"
let tok4 (((a, b), c), d) = String.concat "," [hex_of_z a; hex_of_z b; hex_of_z c; hex_of_z d]

(* one-entry cache: consecutive records use the same table *)
let last_key = ref ("", "", "") and last_tab = ref None
let table m0 p t =
  if !last_key = (m0, p, t) then !last_tab
  else begin
    let tab = fpowm_precompute (z_of_hex m0) (z_of_hex p) (z_of_hex t) in
    last_key := (m0, p, t); last_tab := tab; tab
  end

let rec take n l = if n <= 0 then [] else match l with [] -> [] | x :: tl -> x :: take (n - 1) tl
let rec drop n l = if n <= 0 then l else match l with [] -> [] | _ :: tl -> drop (n - 1) tl
let toks l = if l = [] then "_" else String.concat "," (List.map hex_of_z l)

let with_table m0 p t f = match table m0 p t with None -> "zeromod" | Some tab -> tok_outcome (f tab)

let () =
  register "invm" (function [a; p; out] -> (tok_of_zopt (invm (z_of_hex a) (z_of_hex p)), out) | _ -> failwith "arity");
  register "spowm" (function [m; x; p; out] -> (tok_outcome (spowm (z_of_hex m) (z_of_hex x) (z_of_hex p)), out) | _ -> failwith "arity");
  register "fptab" (function [m; p; t; n; head; lo; hi; win; nz] ->
      (match table m p t with
       | None -> ("zeromod", head)
       | Some tab ->
         let n = int_of_string n and lo = int_of_string lo and hi = int_of_string hi in
         let cnt = List.length (List.filter (fun z -> z <> Z0) tab) in
         (toks (take n tab) ^ " " ^ toks (take (hi - lo) (drop lo tab)) ^ " " ^ string_of_int cnt,
          head ^ " " ^ win ^ " " ^ nz))
    | _ -> failwith "arity");
  register "fpre0" (function [m; p; t; out] ->
      ((match fpowm_precompute (z_of_hex m) (z_of_hex p) (z_of_hex t) with None -> "zeromod" | Some _ -> "ok"), out)
    | _ -> failwith "arity");
  register "fpowm" (function [m0; p; t; m; x; out] ->
      (with_table m0 p t (fun tab -> fpowm tab (z_of_hex m) (z_of_hex x) (z_of_hex p)), out) | _ -> failwith "arity");
  register "fspowm" (function [m0; p; t; m; x; out] ->
      (with_table m0 p t (fun tab -> fspowm tab (z_of_hex m) (z_of_hex x) (z_of_hex p)), out) | _ -> failwith "arity");
  register "fpowm_ui" (function [m0; p; t; m; x; out] ->
      (with_table m0 p t (fun tab -> fpowm_ui tab (z_of_hex m) (z_of_hex x) (z_of_hex p)), out) | _ -> failwith "arity");
  register "sqrtmp" (function [a; p; b; out] -> (tok_sq (sqrtmp_with (z_of_hex a) (z_of_hex p) (z_of_hex b)), out) | _ -> failwith "arity");
  register "sqrtmn" (function [a; p; q; n; u; v; bp; bq; out] ->
      (tok_sq (sqrtmn_with (z_of_hex a) (z_of_hex p) (z_of_hex q) (z_of_hex n) (z_of_hex u) (z_of_hex v) (z_of_hex bp) (z_of_hex bq)), out)
    | _ -> failwith "arity");
  register "sqrtmn_all" (function [a; p; q; n; u; v; bp; bq; out] ->
      ((match sqrtmn_all_with (z_of_hex a) (z_of_hex p) (z_of_hex q) (z_of_hex n) (z_of_hex u) (z_of_hex v) (z_of_hex bp) (z_of_hex bq) with
        | Inl (Some r) -> tok4 r | Inl None -> "diverge" | Inr e -> tok_sq e), out)
    | _ -> failwith "arity");
  register "sqrtmn_fast" (function [a; p; q; n; up; vq; pa; qa; out] ->
      (hex_of_z (sqrtmn_fast (z_of_hex a) (z_of_hex p) (z_of_hex q) (z_of_hex n) (z_of_hex up) (z_of_hex vq) (z_of_hex pa) (z_of_hex qa)), out)
    | _ -> failwith "arity");
  register "sqrtmn_fast_all" (function [a; p; q; n; up; vq; pa; qa; out] ->
      (tok4 (sqrtmn_fast_all (z_of_hex a) (z_of_hex p) (z_of_hex q) (z_of_hex n) (z_of_hex up) (z_of_hex vq) (z_of_hex pa) (z_of_hex qa)), out)
    | _ -> failwith "arity");
  register "interp" (function [pa; pb; q; out] ->
      let a = zlist_of_tok pa and b = zlist_of_tok pb in
      ((match interpolate (List.combine a b) (z_of_hex q) with
        | IpOk f -> toks f | IpFalse -> "false" | IpThrow -> "throw"), out)
    | _ -> failwith "arity");
  (* primality oracle of the generator models: Miller-Rabin through Zarith/GMP *)
  let is_prime z = ZA.probab_prime (zarith_of_z z) 30 <> 0 in
  register "pr_sprime" (function [kind; qsize; qraw; q; p; out] ->
      let t = (match kind with "1" -> Test7mod8 | "2" -> Test3mod4 | _ -> NoTest) in
      ((if sprime_accepts is_prime t (z_of_hex qsize) (z_of_hex qraw) (z_of_hex q) (z_of_hex p) then "1" else "0"), out)
    | _ -> failwith "arity");
  register "pr_lprime" (function [ps; qs; qc; kc; out] ->
      ((match lprime_run is_prime (z_of_hex ps) (z_of_hex qs) (zlist_of_tok qc) (zlist_of_tok kc) with
        | GenOk (p, q, k) -> String.concat "," [hex_of_z p; hex_of_z q; hex_of_z k]
        | GenThrow -> "throw" | GenMore -> "more"), out)
    | _ -> failwith "arity");
  main ()
