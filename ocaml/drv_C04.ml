(* model side of the C04 correspondence: the counting model of the cut-and-choose guessing prover and the extractor *)
open Model
open Drvcore

let bools_of s = List.init (String.length s) (fun i -> s.[i] = '1')

let () =
  (* REC cc <kappa> <guess bits> <verifier coin bits> <accepted by the real verifier> *)
  register "cc" (function [_; g; c; out] -> (tok_of_bool (guess_verdict (bools_of g) (bools_of c)), out) | _ -> failwith "arity");
  (* REC ext p q g key m1 c m2 c' m2' x : the extractor applied to two accepting interactive key proofs with the
     same commitment must return the prover's secret exponent *)
  register "ext" (function [_; q; _; _; _; c; m2; c'; m2'; x] ->
      (tok_of_zopt (ext_exp_int (z_of_hex q) (z_of_hex m2) (z_of_hex m2') (z_of_hex c) (z_of_hex c')), x) | _ -> failwith "arity");
  main ()
