(* model side of the C20 correspondence: hashed octets per signature kind and CheckValidity verdicts *)
open Model
open Drvcore

let bt = bytes_of_tok and tb = tok_of_bytes
let bad () = failwith "arity"

let () =
  register "hin_bin4" (function [d; t; out] -> (tb (hash_input_v4 (SoBinary (bt d)) (bt t)), out) | _ -> bad ());
  register "hin_text4" (function [d; t; out] -> (tb (hash_input_v4 (SoText (bt d)) (bt t)), out) | _ -> bad ());
  register "hin_alone4" (function [t; out] -> (tb (hash_input_v4 SoStandalone (bt t)), out) | _ -> bad ());
  register "hin_cert4" (function [k; u; a; t; out] -> (tb (hash_input_v4 (cert_object (bt k) (bt u) (bt a)) (bt t)), out) | _ -> bad ());
  register "hin_key4" (function [k; t; out] -> (tb (hash_input_v4 (SoKey (bt k)) (bt t)), out) | _ -> bad ());
  register "hin_sub4" (function [p; s; t; out] -> (tb (hash_input_v4 (SoSubkey (bt p, bt s)) (bt t)), out) | _ -> bad ());
  register "hin_bin3" (function [d; t; out] -> (tb (hash_input_v3 (SoBinary (bt d)) (bt t)), out) | _ -> bad ());
  register "hin_text3" (function [d; t; out] -> (tb (hash_input_v3 (SoText (bt d)) (bt t)), out) | _ -> bad ());
  register "hin_bin5" (function [d; t; out] -> (tb (hash_input_v5 (SoBinary (bt d)) (bt t)), out) | _ -> bad ());
  register "hin_text5" (function [d; t; out] -> (tb (hash_input_v5 (SoText (bt d)) (bt t)), out) | _ -> bad ());
  register "hin_key5" (function [k; t; out] -> (tb (hash_input_v5 (SoKey (bt k)) (bt t)), out) | _ -> bad ());
  register "validity" (function [cur; ct; ex; kct; ha; out] ->
      ((match check_validity (z_of_hex cur) (z_of_hex ct) (z_of_hex ex) (z_of_hex kct) (n_of_hex ha) with
        | Valid -> "1" | _ -> "0"), out) | _ -> bad ());
  register "aead_nonce" (function [iv; c; out] -> (tb (chunk_nonce_impl (bt iv) (nat_of_int (int_of_string c))), out) | _ -> bad ());
  register "hin_verify" (function [v; ty; pk; h; hspd; ct; meta; d; out] ->
      ((match verify_hash_input (n_of_int (int_of_string v)) (n_of_int (int_of_string ty)) (n_of_hex pk) (n_of_hex h) (bt hspd) (n_of_hex ct) (bt meta)
                (ty = "1") (bt d) with
        | Some l -> tb l | None -> "none"), out)
    | _ -> bad ());
  register "eddsa_sigval" (function [r; s; out] ->
      ((match eddsa_sigval (n_of_hex r) (n_of_hex s) with
        | Some (a, b) -> tb a ^ ":" ^ tb b | None -> "none"), out)
    | _ -> bad ());
  register "aead_ad" (function [pre; kind; idx; total; _; out] ->
      ((if kind = "f" then tb (final_ad (bt pre) (n_of_hex idx) (n_of_hex total)) else tb (chunk_ad (bt pre) (n_of_hex idx))), out)
    | _ -> bad ());
  (* fields of a parsed signature object: path = sigparse | message | keyblock | prvblock *)
  register "sigfields" (function [path; body; out] ->
      let kc = (path = "keyblock" || path = "prvblock") in
      ((match sig_body_fields kc (bt body) with
        | None -> "none"
        | Some f -> String.concat ":" [hex_of_n f.sf_version; hex_of_n f.sf_type; hex_of_n f.sf_pkalgo; hex_of_n f.sf_hashalgo;
                                       hex_of_n f.sf_created; hex_of_n f.sf_sigexp; hex_of_n f.sf_keyexp; tb f.sf_flags; tb f.sf_issuer]), out)
    | _ -> bad ());
  main ()
