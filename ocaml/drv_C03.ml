(* model side of the C03 correspondence: recompute every VTMF-layer prover / verifier record with the extracted SigmaModel *)
open Model
open Drvcore

let split c s = if s = "_" then [] else String.split_on_char c s
let table_of_tok t =
  List.map (fun e -> match String.split_on_char ':' e with
    | [k; v] -> (List.map z_of_hex (String.split_on_char ',' k), z_of_hex v)
    | _ -> failwith "oracle entry") (split ';' t)
(* a query outside the table (the model hashes something the code did not hash) is flagged: the model output gets the
   prefix "oracle-miss:" and therefore disagrees with whatever the implementation returned *)
let missed = ref false
let oracle t = let tbl = table_of_tok t in
  fun q -> let v = table_oracle tbl q in (if v = Zneg XH then missed := true); v
let flag (m, i) = if !missed then (missed := false; ("oracle-miss:" ^ m, i)) else (m, i)
let map_of_tok t = List.map (fun e -> match String.split_on_char ',' e with [a; b] -> (z_of_hex a, z_of_hex b) | _ -> failwith "map entry") (split ';' t)
let hz = hex_of_z
let z = z_of_hex
let vd = function Accept -> "A" | Reject -> "R" | Throw -> "T"
let b1 s = (s = "1")
let cat = String.concat ","
let opt2 = function None -> "none" | Some (a, b) -> cat [hz a; hz b]

(* context: p q g hbits h table_h[0] #entries *)
type ctx = { g : group; hb : z; h : z; th : ftable }
let ctx = function
  | p :: q :: g :: hb :: h :: tb :: tt :: rest ->
    ({ g = { gp = z p; gq = z q; gg = z g }; hb = z hb; h = z h; th = { ft_base = z tb; ft_t = nat_of_int (int_of_string ("0x" ^ tt)) } }, rest)
  | _ -> failwith "ctx"
let reg kind f = register kind (fun toks -> missed := false; let (c, rest) = ctx toks in flag (f c rest))

let () =
  reg "cpp" (fun c -> function [x; y; g2; h2; al; raw; fp; tbl; out] ->
      (opt2 (cp_prove (oracle tbl) c.g c.h c.th (z x) (z y) (z g2) (z h2) (z al) (z raw) (b1 fp)), out) | _ -> failwith "arity");
  reg "cpv" (fun c -> function [x; y; g2; h2; good; cc; r; fp; tbl; out] ->
      (vd (cp_verify (oracle tbl) c.hb c.g c.h c.th (z x) (z y) (z g2) (z h2) (b1 good) (z cc) (z r) (b1 fp)), out) | _ -> failwith "arity");
  let orp f c = function [y1; y2; g1; g2; al; r1; r2; r3; tbl; out] ->
      ((match f (oracle tbl) c.g c.h (z y1) (z y2) (z g1) (z g2) (z al) (z r1) (z r2) (z r3) with
        | None -> "none" | Some (((a, b), cc), d) -> cat [hz a; hz b; hz cc; hz d]), out) | _ -> failwith "arity" in
  reg "orp1" (orp or_prove_first);
  reg "orp2" (orp or_prove_second);
  reg "orv" (fun c -> function [y1; y2; g1; g2; good; c1; c2; r1; r2; tbl; out] ->
      (vd (or_verify (oracle tbl) c.g c.h (z y1) (z y2) (z g1) (z g2) (b1 good) (z c1) (z c2) (z r1) (z r2)), out) | _ -> failwith "arity");
  reg "keyi" (fun c -> function [x; hi; raw; craw; out] ->
      ((match keyi_commit c.g (z raw) with
        | None -> "none"
        | Some (r, m1) ->
          let ch = keyi_challenge c.g (z craw) in
          (match keyi_respond c.g (z x) r true ch with
           | None -> cat [hz m1; hz ch; "0"; "0"; "R"]
           | Some m2 -> cat [hz m1; hz ch; hz m2; "1"; vd (keyi_verify c.g (z hi) true m1 ch true m2)])), out) | _ -> failwith "arity");
  reg "keyv" (fun c -> function [key; g1; m1; ch; g2; m2; out] ->
      (vd (keyi_verify c.g (z key) (b1 g1) (z m1) (z ch) (b1 g2) (z m2)), out) | _ -> failwith "arity");
  register "mval" (function [q; raws; out] ->
      ((match vtmf_masking_value { gp = Z0; gq = z q; gg = Z0 } (List.map z (split ',' raws)) with None -> "none" | Some r -> hz r), out) | _ -> failwith "arity");
  reg "mask" (fun c -> function [m; r; out] -> (opt2 (vtmf_mask c.g c.h c.th (z m) (z r)), out) | _ -> failwith "arity");
  reg "mkp" (fun c -> function [m; c1; c2; r; raw; tbl; out] ->
      (opt2 (mask_prove (oracle tbl) c.g c.h c.th (z m) (z c1) (z c2) (z r) (z raw)), out) | _ -> failwith "arity");
  reg "mkv" (fun c -> function [m; c1; c2; good; cc; s; tbl; out] ->
      (vd (mask_verify (oracle tbl) c.hb c.g c.h c.th (z m) (z c1) (z c2) (b1 good) (z cc) (z s)), out) | _ -> failwith "arity");
  reg "rmk" (fun c -> function [c1; c2; r; fast; out] ->
      (opt2 ((if b1 fast then remask_fast else remask) c.g c.h c.th (z c1) (z c2) (z r)), out) | _ -> failwith "arity");
  reg "rmp" (fun c -> function [c1; c2; d1; d2; r; raw; tbl; out] ->
      (opt2 (remask_prove (oracle tbl) c.g c.h c.th (z c1) (z c2) (z d1) (z d2) (z r) (z raw)), out) | _ -> failwith "arity");
  reg "rmv" (fun c -> function [c1; c2; d1; d2; good; cc; s; tbl; out] ->
      (vd (remask_verify (oracle tbl) c.hb c.g c.h c.th (z c1) (z c2) (z d1) (z d2) (b1 good) (z cc) (z s)), out) | _ -> failwith "arity");
  reg "dcp" (fun c -> function [x; hi; fp; c1; raw; tbl; out] ->
      ((match decrypt_prove (oracle tbl) c.g c.h c.th (z x) (z hi) (z fp) (z c1) (z raw) with
        | None -> "none" | Some ((di, f), (cc, r)) -> cat [hz di; hz f; hz cc; hz r]), out) | _ -> failwith "arity");
  reg "dci" (fun c -> function [x; c1; out] ->
      ((match decrypt_init c.g (z x) (z c1) with None -> "none" | Some d -> hz d), out) | _ -> failwith "arity");
  reg "dcu" (fun c -> function [m0; d; c1; g1; dj; fp; g2; cc; r; tbl; out] ->
      (let (v, d') = decrypt_update (oracle tbl) c.hb c.g c.h c.th (map_of_tok m0) (z d) (z c1) (b1 g1) (z dj) (z fp) (b1 g2) (z cc) (z r) in
       cat [vd v; hz d'], out) | _ -> failwith "arity");
  reg "dcf" (fun c -> function [d; c2; out] ->
      ((match decrypt_final c.g (z d) (z c2) with None -> "none" | Some m -> hz m), out) | _ -> failwith "arity");
  let pc = function p :: q :: h :: gs :: rest -> ({ pc_p = z p; pc_q = z q; pc_h = z h; pc_g = List.map z (split ',' gs) }, rest) | _ -> failwith "pcom" in
  register "pcm" (fun toks -> match pc toks with (c, [ms; raw; out]) ->
      ((match commit c (z raw) (List.map z (split ',' ms)) with None -> "none" | Some (cc, r) -> cat [hz cc; hz r]), out) | _ -> failwith "arity");
  register "pcb" (fun toks -> match pc toks with (c, [ms; r; prot; out]) ->
      ((match commit_by c (z r) (List.map z (split ',' ms)) (b1 prot) with None -> "none" | Some cc -> hz cc), out) | _ -> failwith "arity");
  register "pcv" (fun toks -> match pc toks with (c, [cc; r; ms; out]) ->
      (vd (pverify c (z cc) (z r) (List.map z (split ',' ms))), out) | _ -> failwith "arity");
  (* cut-and-choose: stacks c1,c2;c1,c2  secrets idx,r;idx,r  commitment table stack=hash *)
  let stack_of t = List.map (fun e -> match String.split_on_char ',' e with [a; b] -> (z a, z b) | _ -> failwith "card") (split ';' t) in
  let sec_of t = List.map (fun e -> match String.split_on_char ',' e with [a; b] -> (n_of_hex a, z b) | _ -> failwith "secret") (split ';' t) in
  let tok_sec l = if l = [] then "_" else String.concat ";" (List.map (fun (a, r) -> hex_of_n a ^ "," ^ hz r) l) in
  let hc_of t = if t = "_" then (fun _ -> missed := true; Zneg XH) else
      (match String.split_on_char '=' t with
       | [st; v] -> let st = stack_of st in (fun x -> if x = st then z v else (missed := true; Zneg XH))
       | _ -> failwith "commitment table") in
  let res_tok f = function Ret a -> f a | NeedCoins -> "needcoins" | Oob -> "oob" | AssertFail -> "assert" | DivZero -> "divzero" | _ -> "throw" in
  register "ccp" (function [p; q; g; h; cyc; s2; sigma; coins; bit; tbl; out] ->
      missed := false;
      let grp = { gp = z p; gq = z q; gg = z g } in
      let s2 = stack_of s2 in
      flag (res_tok (fun ((_, ss2), rest) ->
          if rest <> [] then "model-left-coins" else
          res_tok (fun (com, resp) -> hz com ^ "/" ^ tok_sec (secZ resp))
            (prove_round (hc_of tbl) grp (z h) s2 (secN (sec_of sigma)) (secN ss2) (b1 bit)))
        (create_stack_secret (b1 cyc) (nat_of_int (List.length s2)) (z q) (bytes_of_tok coins)), out)
    | _ -> failwith "arity");
  register "ccv" (function [p; q; g; h; s; s2; cyc; bit; com; resp; tbl; out] ->
      missed := false;
      let grp = { gp = z p; gq = z q; gg = z g } in
      flag (res_tok (fun b -> if b then "1" else "0")
        (verify_round (hc_of tbl) grp (z h) (stack_of s) (stack_of s2) (b1 cyc) (b1 bit) (z com) (sec_of resp)), out)
    | _ -> failwith "arity");
  (* shuffle of known content: argument  c_d/c_Delta/c_a/f,..,f/z/fD,..,fD/zD *)
  let msg_tok t = String.concat "/" [hz t.k_cd; hz t.k_cDelta; hz t.k_ca; cat (List.map hz t.k_f); hz t.k_z;
                                     (if t.k_fD = [] then "_" else cat (List.map hz t.k_fD)); hz t.k_zD] in
  let msg_of s = match String.split_on_char '/' s with
    | [a; b; c; f; zz; fd; zd] -> { k_cd = z a; k_cDelta = z b; k_ca = z c; k_f = List.map z (split ',' f); k_z = z zz;
                                    k_fD = List.map z (split ',' fd); k_zD = z zd }
    | _ -> failwith "skc message" in
  register "skp" (fun toks -> missed := false; match pc toks with (c, [l; pi; r; m; raws; tbl; out]) ->
      flag ((match skc_prove (oracle tbl) c (z l) (List.map (fun s -> nat_of_int (int_of_string s)) (split ',' pi)) (z r)
                     (List.map z (split ',' m)) (List.map z (split ',' raws)) with None -> "none" | Some t -> msg_tok t), out)
    | _ -> failwith "arity");
  register "skv" (fun toks -> missed := false; match pc toks with (c, [l; cc; m; good; msg; opt; alpha; tbl; out]) ->
      flag (vd (skc_verify (oracle tbl) c (z l) (z cc) (List.map z (split ',' m)) (b1 good) (msg_of msg) (b1 opt) (z alpha)), out)
    | _ -> failwith "arity");
  main ()
