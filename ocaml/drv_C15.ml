(* model side of the C15 correspondence: recompute every record with the extracted VssModel / DkgModel *)
open Model
open Drvcore

let pairs_of_tok t = if t = "_" then [] else
  List.map (fun s -> match String.split_on_char ':' s with [a; b] -> (z_of_hex a, z_of_hex b) | _ -> failwith "pair") (String.split_on_char ';' t)
let qual_of_tok t = if t = "_" then [] else List.map (fun s -> z_of_int (int_of_string s)) (String.split_on_char ',' t)
(* streams: j:v.v.v;j:v  (values separated by '.', empty stream "j:") *)
let streams_of_tok t = if t = "_" then [] else
  List.map (fun s -> match String.split_on_char ':' s with
    | [j; vs] -> (z_of_hex j, if vs = "" then [] else List.map z_of_hex (String.split_on_char '.' vs))
    | _ -> failwith "stream") (String.split_on_char ';' t)
let opt f = function None -> "none" | Some x -> f x

let () =
  register "vss_commits" (function [p; g; h; a; b; out] ->
      (tok_of_zlist (commits (z_of_hex p) (z_of_hex g) (z_of_hex h) (zlist_of_tok a) (zlist_of_tok b)), out) | _ -> failwith "arity");
  register "vss_share" (function [q; a; b; j; out] ->
      let (s, t) = deal_share (z_of_hex q) (zlist_of_tok a) (zlist_of_tok b) (z_of_hex j) in (hex_of_z s ^ "," ^ hex_of_z t, out) | _ -> failwith "arity");
  register "vss_complaint" (function [p; q; g; h; a; x; s; t; out] ->
      (opt tok_of_bool (recv_complaint (z_of_hex p) (z_of_hex q) (z_of_hex g) (z_of_hex h) (zlist_of_tok a) (z_of_hex x) (z_of_hex s) (z_of_hex t)), out) | _ -> failwith "arity");
  register "vss_recon" (function [q; t; own; ver; out] ->
      let own = List.hd (pairs_of_tok own) in
      let r = match recon_parties (z_of_hex t) own (pairs_of_tok ver) with None -> "none" | Some pts -> opt hex_of_z (lagrange0 (z_of_hex q) pts) in
      (r, out) | _ -> failwith "arity");
  register "vss_recv" (function [p; q; g; h; n; t; i; d; a; s; tt; streams; res; out] ->
      let r = vss_receive (z_of_hex p) (z_of_hex q) (z_of_hex g) (z_of_hex h) (z_of_hex n) (z_of_hex t) (z_of_hex i) (z_of_hex d)
                (zlist_of_tok a) (z_of_hex s) (z_of_hex tt) (streams_of_tok streams) (zlist_of_tok res) in
      (opt (fun o -> tok_of_bool o.vo_ret ^ "," ^ hex_of_z o.vo_sigma ^ "," ^ hex_of_z o.vo_tau) r, out) | _ -> failwith "arity");
  register "vss_resolution" (function [q; n; i; a; b; streams; out] ->
      (tok_of_zlist (deal_resolution (z_of_hex q) (z_of_hex n) (z_of_hex i) (zlist_of_tok a) (zlist_of_tok b) (streams_of_tok streams)), out) | _ -> failwith "arity");
  register "interp" (function [q; pts; out] ->
      (opt tok_of_zlist (interpolate (z_of_hex q) (pairs_of_tok pts)), out) | _ -> failwith "arity");
  register "dkg_x" (function [q; qual; s; s'; out] ->
      let (x, x') = dkg_x (z_of_hex q) (qual_of_tok qual) (zlist_of_tok s) (zlist_of_tok s') in (hex_of_z x ^ "," ^ hex_of_z x', out) | _ -> failwith "arity");
  register "dkg_y" (function [p; qual; ys; out] -> (hex_of_z (dkg_y (z_of_hex p) (qual_of_tok qual) (zlist_of_tok ys)), out) | _ -> failwith "arity");
  register "refresh_keeps" (function [q; x1; x2; s1; s2] ->
      (* the refreshed share is old share + (new - old): the model's refresh_share applied to the observed zero-share; secret unchanged *)
      let q = z_of_hex q in let z = z_of_zarith (ZA.erem (ZA.sub (zarith_of_z (z_of_hex x2)) (zarith_of_z (z_of_hex x1))) (zarith_of_z q)) in
      (hex_of_z (refresh_share q (z_of_hex x1) z) ^ "," ^ s1, x2 ^ "," ^ s2) | _ -> failwith "arity");
  (* sharing phase of GJKR-DKG as a round function *)
  let dot_list t = if t = "" then [] else List.map z_of_hex (List.filter (fun x -> x <> "") (String.split_on_char '.' t)) in
  let semis t = String.split_on_char ';' t in
  let mk_b cm cs a = let rec go l1 l2 l3 = match l1, l2, l3 with
      | c :: r1, s :: r2, a :: r3 -> { b_C = zlist_of_tok c; b_compl = dot_list s; b_ans = dot_list a } :: go r1 r2 r3
      | _ -> [] in go (semis cm) (semis cs) (semis a) in
  let pairs_opt t = List.map (fun s -> if s = "none" then None else
      match String.split_on_char ':' s with [a; b] -> Some (z_of_hex a, z_of_hex b) | _ -> failwith "pair") (semis t) in
  let qual_tok l = if l = [] then "_" else String.concat "," (List.map (fun x -> string_of_int (int_of_z x)) l) in
  register "dkg_view" (function [p; q; g; h; n; t; i; cm; pairs; cs; a; out] ->
      let r = dkg_view (z_of_hex p) (z_of_hex q) (z_of_hex g) (z_of_hex h) (z_of_hex n) (z_of_hex t) (z_of_hex i) (mk_b cm cs a) (pairs_opt pairs) in
      ((match r with None -> "none" | Some (ql, (x, x')) -> qual_tok ql ^ "|" ^ hex_of_z x ^ "," ^ hex_of_z x'), out) | _ -> failwith "arity");
  register "dkg_stream" (function [p; q; g; h; n; i; cm; pairs; out] ->
      let b = List.map (fun c -> { b_C = zlist_of_tok c; b_compl = []; b_ans = [] }) (semis cm) in
      let st = dkg_own_stream (z_of_hex p) (z_of_hex q) (z_of_hex g) (z_of_hex h) (z_of_hex n) (z_of_hex i) b (pairs_opt pairs) in
      (String.concat "." (List.map hex_of_z st), out) | _ -> failwith "arity");
  register "dkg_glob" (function [p; q; g; h; n; t; cm; cs; a; out] ->
      (qual_tok (qual_glob (z_of_hex p) (z_of_hex q) (z_of_hex g) (z_of_hex h) (z_of_hex n) (z_of_hex t) (mk_b cm cs a)), out) | _ -> failwith "arity");
  main ()
