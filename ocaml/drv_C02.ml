(* model side of the C02 correspondence: recompute every record with the extracted ShuffleModel *)
open Model
open Drvcore

let tok_pair (a, b) = hex_of_z a ^ "," ^ hex_of_z b
let tok_cards cs = if cs = [] then "_" else String.concat ";" (List.map tok_pair cs)
let tok_pairs ps = if ps = [] then "_" else String.concat ";" (List.map (fun (i, r) -> hex_of_n i ^ "," ^ hex_of_z r) ps)
let cards_of_tok t = if t = "_" then [] else
  List.map (fun s -> match String.split_on_char ',' s with [a; b] -> (z_of_hex a, z_of_hex b) | _ -> failwith "card") (String.split_on_char ';' t)
let pairs_of_tok t = if t = "_" then [] else
  List.map (fun s -> match String.split_on_char ',' s with [a; b] -> (n_of_hex a, z_of_hex b) | _ -> failwith "pair") (String.split_on_char ';' t)
let tok_nlist l = if l = [] then "_" else String.concat "," (List.map hex_of_n l)

let res_tok f = function
  | Ret a -> f a | NeedCoins -> "needcoins" | Throw -> "throw" | Oob -> "oob" | AssertFail -> "assert" | DivZero -> "divzero"

let css_tok (((o, ss), rest) : (n * (n * z) list) * n list) =
  "ret:" ^ hex_of_n o ^ ":" ^ tok_nlist (List.map fst ss) ^ ":" ^ tok_of_zlist (List.map snd ss)
  ^ (if rest = [] then "" else ":model-left-coins=" ^ string_of_int (List.length rest))

let () =
  register "css" (function [cyc; n; q; coins; out] ->
      (res_tok css_tok (create_stack_secret (cyc = "1") (nat_of_int (int_of_string n)) (z_of_hex q) (bytes_of_tok coins)), out)
    | _ -> failwith "arity");
  register "mix" (function [p; g; h; s; ss; out] ->
      (res_tok (fun l -> "ret:" ^ tok_cards l) (vmix (z_of_hex p) (z_of_hex g) (z_of_hex h) (cards_of_tok s) (pairs_of_tok ss)), out)
    | _ -> failwith "arity");
  register "mixinto" (function [p; g; h; old; s; ss; out] ->
      (res_tok (fun l -> "ret:" ^ tok_cards l) (vmix_into (z_of_hex p) (z_of_hex g) (z_of_hex h) (cards_of_tok old) (cards_of_tok s) (pairs_of_tok ss)), out)
    | _ -> failwith "arity");
  register "glue" (function [q; sigma; pi; out] ->
      (res_tok (fun l -> "ret:" ^ tok_pairs l) (vglue (z_of_hex q) (pairs_of_tok sigma) (pairs_of_tok pi)), out)
    | _ -> failwith "arity");
  register "imp" (function [s; out] ->
      ((match import_vstacksecret [] (bytes_of_tok s) with Some _ -> "1" | None -> "0"), out)
    | _ -> failwith "arity");
  (* QR encoding: matrices are rows separated by ';', entries by ',' ; bits as strings of 0/1 per row *)
  let zrows t = if t = "_" then [] else List.map zlist_of_tok (String.split_on_char ';' t) in
  let tok_zrows rows = if rows = [] then "_" else String.concat ";" (List.map tok_of_zlist rows) in
  let brows t = if t = "_" then [] else List.map (fun r -> if r = "-" then [] else List.init (String.length r) (fun i -> r.[i] = '1')) (String.split_on_char ';' t) in
  let tok_brows rows = if rows = [] then "_" else String.concat ";" (List.map (fun r -> if r = [] then "-" else String.concat "" (List.map (fun b -> if b then "1" else "0") r)) rows) in
  register "qcs" (function [ms; w; idx; coins; out] ->
      (res_tok (fun (cs, rest) -> "ret:" ^ tok_zrows (List.map (List.map fst) cs) ^ ":" ^ tok_brows (List.map (List.map snd) cs)
                                  ^ (if rest = [] then "" else ":model-left-coins=" ^ string_of_int (List.length rest)))
         (create_card_secret (zlist_of_tok ms) (nat_of_int (int_of_string w)) (nat_of_int (int_of_string idx)) (bytes_of_tok coins)), out)
    | _ -> failwith "arity");
  register "qmc" (function [ms; ys; c; rs; bs; out] ->
      let keys = List.combine (zlist_of_tok ms) (zlist_of_tok ys) in
      let cs = List.map2 List.combine (zrows rs) (brows bs) in
      (res_tok (fun rows -> "ret:" ^ tok_zrows rows) (qmask_card keys (zrows c) cs), out)
    | _ -> failwith "arity");
  main ()
