(* model side of the C17 correspondence: re-run every recorded coin flip with the extracted CoinFlipModel *)
open Model
open Drvcore

let bool_of_tok t = (t = "1")
let msgs_of_tok t =
  if t = "_" then [] else
  List.map (fun s -> match String.split_on_char ':' s with
    | [x; g] -> (bytes_of_tok x, bool_of_tok g) | _ -> failwith "msg") (String.split_on_char ';' t)
let tok_outcome = function Coin z -> "coin:" ^ hex_of_z z | Reject -> "reject" | Throw -> "throw"
let tok_trace tr =
  if tr = [] then "_" else begin
    let nr = ref 0 in
    String.concat "," (List.map (function
      | Send v -> "S" ^ hex_of_z v
      | Recv _ -> let k = !nr in incr nr; "R" ^ string_of_int k) tr)
  end
let opt_z = function "none" -> None | s -> Some (z_of_hex s)

let () =
  register "flip2" (function [p; q; g; h; a; b; f; fr; msgs; out; tr] ->
      let grp = { gp = z_of_hex p; gq = z_of_hex q; gg = z_of_hex g; gh = z_of_hex h } in
      let (mt, mo) = flip2 grp (z_of_hex a) (z_of_hex b) (bool_of_tok f) (bool_of_tok fr) (script_peer (msgs_of_tok msgs)) in
      (tok_outcome mo ^ "|" ^ tok_trace mt, out ^ "|" ^ tr)
    | _ -> failwith "arity");
  (* n-party decision: group, per member of Qual "C,a|none,hata|none,rec" joined by ';' -> coin or throw *)
  register "flipN" (function [p; q; g; h; members; out] ->
      let grp = { gp = z_of_hex p; gq = z_of_hex q; gg = z_of_hex g; gh = z_of_hex h } in
      let shares = List.map (fun s -> match String.split_on_char ',' s with
        | [c; a; b; r] -> flipN_share grp { o_C = z_of_hex c; o_a = opt_z a; o_hata = opt_z b } (z_of_hex r)
        | _ -> failwith "member") (String.split_on_char ';' members) in
      let m = if List.exists (fun x -> x = None) shares then "throw"
              else "coin:" ^ hex_of_z (flipN_sum grp.gq (List.map (function Some v -> v | None -> Z0) shares)) in
      (m, out)
    | _ -> failwith "arity");
  (* a party's view of the members of Qual -> its coin.  member = idx|cm,cm,..|a or none|hata or none|ownA,ownB|k:A:B,k:A:B,.. (or _) *)
  register "flipN_view" (function [p; q; g; h; t; i; members; out] ->
      let grp = { gp = z_of_hex p; gq = z_of_hex q; gg = z_of_hex g; gh = z_of_hex h } in
      let pair s = match String.split_on_char ',' s with [a; b] -> (z_of_hex a, z_of_hex b) | _ -> failwith "pair" in
      let mb s = match String.split_on_char '|' s with
        | [idx; cm; a; b; own; shs] ->
          let cml = List.map z_of_hex (String.split_on_char ',' cm) in
          { m_idx = z_of_hex idx; m_cm = cml;
            m_open = { o_C = List.hd cml; o_a = opt_z a; o_hata = opt_z b };
            m_own = pair own;
            m_shares = (if shs = "_" then [] else List.map (fun e -> match String.split_on_char ':' e with
                          | [k; a; b] -> (z_of_hex k, (z_of_hex a, z_of_hex b)) | _ -> failwith "share") (String.split_on_char ',' shs)) }
        | _ -> failwith "member" in
      let r = flipN_party grp (z_of_hex t) (z_of_hex i) (List.map mb (String.split_on_char ';' members)) in
      ((match r with Some c -> "coin:" ^ hex_of_z c | None -> "fail"), out)
    | _ -> failwith "arity");
  (* RVSS::Share at party i for dealer d: cm, received share, number of complaints, the dealer's answers -> qualified?, final share *)
  register "rvss_dealer" (function [p; q; g; h; t; i; cm; recv; nc; answers; out] ->
      let grp = { gp = z_of_hex p; gq = z_of_hex q; gg = z_of_hex g; gh = z_of_hex h } in
      let pair s = match String.split_on_char ',' s with [a; b] -> (z_of_hex a, z_of_hex b) | _ -> failwith "pair" in
      let d = { d_cm = List.map z_of_hex (String.split_on_char ',' cm);
                d_recv = (if recv = "none" then None else Some (pair recv));
                d_ncompl = z_of_hex nc;
                d_answers = (if answers = "_" then [] else List.map (fun e -> match String.split_on_char ':' e with
                               | [k; a; b] -> (z_of_hex k, (z_of_hex a, z_of_hex b)) | _ -> failwith "answer") (String.split_on_char ',' answers)) } in
      let ql = dealer_qualified grp (z_of_hex t) d in
      let fs = match final_share grp (z_of_hex i) d with Some (a, b) -> hex_of_z a ^ "," ^ hex_of_z b | None -> "none" in
      ((if ql then "qual:" ^ fs else "disqualified"), out)
    | _ -> failwith "arity");
  (* Flip step 3: the complaints in the order they were raised -> the list handed to Reconstruct *)
  register "flip_complaints" (function [raw; out] -> (tok_of_zlist (complaint_set (zlist_of_tok raw)), out) | _ -> failwith "arity");
  main ()
