(* model side of the C18 correspondence: recompute every protocol move with the extracted OtModel *)
open Model
open Drvcore

let pairs_of_tok t = if t = "_" then [] else
  List.map (fun s -> match String.split_on_char ':' s with [a; b] -> (z_of_hex a, z_of_hex b) | _ -> failwith "pair") (String.split_on_char ',' t)
let tok_of_pairs ps = if ps = [] then "_" else String.concat "," (List.map (fun (a, b) -> hex_of_z a ^ ":" ^ hex_of_z b) ps)
let tok_resp = function None -> "none" | Some ps -> tok_of_pairs ps
let nat_of_tok t = nat_of_int (int_of_string t)

let () =
  register "ot_first_n" (function [p; q; g; sigma; a; b; cs; out] ->
      let ((x, y), zs) = choose_n_first (z_of_hex p) (z_of_hex q) (z_of_hex g) (nat_of_tok sigma) (z_of_hex a) (z_of_hex b) (zlist_of_tok cs) in
      (tok_of_zlist (x :: y :: zs), out) | _ -> failwith "arity");
  register "ot_first_2" (function [p; q; g; sigma; a; b; c; out] ->
      let ((x, y), zs) = choose_2_first (z_of_hex p) (z_of_hex q) (z_of_hex g) (nat_of_tok sigma) (z_of_hex a) (z_of_hex b) (z_of_hex c) in
      (tok_of_zlist (x :: y :: zs), out) | _ -> failwith "arity");
  register "ot_first_opt" (function [p; q; g; sigma; a; b; out] ->
      ((match choose_opt_first (z_of_hex p) (z_of_hex q) (z_of_hex g) (nat_of_tok sigma) (z_of_hex a) (z_of_hex b) with
        | Some ((x, y), z0) -> tok_of_zlist [x; y; z0] | None -> "none"), out) | _ -> failwith "arity");
  register "ot_send_n" (function [p; q; g; ms; fm; coins; out] ->
      (match zlist_of_tok fm with
       | x :: y :: zs -> (tok_resp (send_n (z_of_hex p) (z_of_hex q) (z_of_hex g) (zlist_of_tok ms) x y zs (pairs_of_tok coins)), out)
       | _ -> failwith "first move") | _ -> failwith "arity");
  register "ot_send_2" (function [p; q; g; ms; fm; coins; out] ->
      (match zlist_of_tok fm, zlist_of_tok ms, pairs_of_tok coins with
       | [x; y; z0; z1], [m0; m1], [(s0, r0); (s1, r1)] ->
         (tok_resp (send_2 (z_of_hex p) (z_of_hex q) (z_of_hex g) m0 m1 x y z0 z1 r0 s0 r1 s1), out)
       | _ -> failwith "shape") | _ -> failwith "arity");
  register "ot_send_opt" (function [p; q; g; ms; fm; coins; out] ->
      (match zlist_of_tok fm with
       | [x; y; z0] -> (tok_resp (send_opt (z_of_hex p) (z_of_hex q) (z_of_hex g) (zlist_of_tok ms) x y z0 (pairs_of_tok coins)), out)
       | _ -> failwith "first move") | _ -> failwith "arity");
  register "ot_second" (function [p; q; sigma; b; resp; out] ->
      (tok_of_zopt (choose_second (z_of_hex p) (z_of_hex q) (nat_of_tok sigma) (z_of_hex b) (pairs_of_tok resp)), out) | _ -> failwith "arity");
  register "ot_curious" (function [p; b; resp; i; out] ->
      (tok_of_zopt (curious (z_of_hex p) (z_of_hex b) (pairs_of_tok resp) (nat_of_tok i)), out) | _ -> failwith "arity");
  main ()
