(* model side of the C16 correspondence: verifiers and share arithmetic of the extracted TsigModel.
   The hash is an oracle table carried by the record: entries "m,r:h" separated by ';' (a query outside the
   table is a driver exception, i.e. a mismatch: the model asked for a nonce the harness did not foresee) *)
open Model
open Drvcore

exception Oracle_miss of string
let oracle_of_tok t : z list -> z =
  let tbl = List.map (fun e -> match String.split_on_char ':' e with
    | [k; h] -> (k, z_of_hex h) | _ -> failwith "oracle") (if t = "_" then [] else String.split_on_char ';' t) in
  fun args ->
    let k = String.concat "," (List.map hex_of_z args) in
    match List.assoc_opt k tbl with Some h -> h | None -> raise (Oracle_miss k)
let verdict = function Some true -> "accept" | Some false -> "reject" | None -> "throw"
let grp p q g h = { gp = z_of_hex p; gq = z_of_hex q; gg = z_of_hex g; gh = z_of_hex h }

let () =
  register "nts_verify" (function [p; q; g; h; y; m; c; s; orc; out] ->
      (verdict (nts_verify (oracle_of_tok orc) (grp p q g h) (z_of_hex y) (z_of_hex m) (z_of_hex c) (z_of_hex s)), out)
    | _ -> failwith "arity");
  register "dss_verify" (function [p; q; g; h; y; m; r; s; out] ->
      (verdict (dss_verify (grp p q g h) (z_of_hex y) (z_of_hex m) (z_of_hex r) (z_of_hex s)), out)
    | _ -> failwith "arity");
  register "nts_sign" (function [q; c; zs; us; out] ->
      let q = z_of_hex q and c = z_of_hex c in
      let shares = List.map2 (fun z u -> nts_share q c z u) (zlist_of_tok zs) (zlist_of_tok us) in
      (hex_of_z (nts_combine q shares), out)
    | _ -> failwith "arity");
  (* unit-level Reconstruct: q, the points "x:y,x:y,..." the function must use (its own share first, then the good shares in QUAL order) -> z *)
  register "gjkr_reconstruct" (function [q; pts; out] ->
      let pl = List.map (fun s -> match String.split_on_char ':' s with [x; y] -> (z_of_hex x, z_of_hex y) | _ -> failwith "pt") (String.split_on_char ',' pts) in
      ((match interp0 (z_of_hex q) pl with Some z -> hex_of_z z | None -> "fail"), out)
    | _ -> failwith "arity");
  (* threshold DSS runs: every signer's own product v_j (from its own process) -> the mu resp. s the honest parties logged *)
  register "dss_lincomb" (function [q; pts; out] ->
      let pl = List.map (fun s -> match String.split_on_char ':' s with [x; y] -> (z_of_hex x, z_of_hex y) | _ -> failwith "pt") (String.split_on_char ',' pts) in
      ((match dss_lincomb (z_of_hex q) (List.map fst pl) (List.map snd pl) with Some z -> hex_of_z z | None -> "fail"), out)
    | _ -> failwith "arity");
  register "dss_r" (function [p; q; g; h; ga; mu; out] ->
      ((match dss_r_from (grp p q g h) (z_of_hex ga) (z_of_hex mu) with Some z -> hex_of_z z | None -> "fail"), out)
    | _ -> failwith "arity");
  main ()
