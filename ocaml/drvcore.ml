(* Common glue of the model drivers: converts between the text records printed by the C++ harness
   and the extracted Coq datatypes (Z/N/positive/nat stay the extracted inductives; Zarith is used
   only to parse and print), and runs the per-record handlers registered by drv.ml.
   Record syntax:  REC <kind> <token> <token> ...     tokens are space-free:
     integers   signed hex   e.g. 1f  -a0  0
     byte text  x<hex>       e.g. x414243   (x alone = empty)
     lists      comma separated, "-" (single dash alone is never a number: use "_" for the empty list) *)
module ZA = Z   (* Zarith, before the extracted module Z shadows it *)
open Model

let rec pos_of_z (x : ZA.t) : positive =
  if ZA.equal x ZA.one then XH
  else if ZA.testbit x 0 then XI (pos_of_z (ZA.shift_right x 1))
  else XO (pos_of_z (ZA.shift_right x 1))

let z_of_zarith (x : ZA.t) : z =
  if ZA.sign x = 0 then Z0 else if ZA.sign x > 0 then Zpos (pos_of_z x) else Zneg (pos_of_z (ZA.neg x))

let rec zarith_of_pos (p : positive) : ZA.t =
  match p with
  | XH -> ZA.one
  | XO q -> ZA.shift_left (zarith_of_pos q) 1
  | XI q -> ZA.succ (ZA.shift_left (zarith_of_pos q) 1)

let zarith_of_z (x : z) : ZA.t =
  match x with Z0 -> ZA.zero | Zpos p -> zarith_of_pos p | Zneg p -> ZA.neg (zarith_of_pos p)

let n_of_zarith (x : ZA.t) : n = if ZA.sign x = 0 then N0 else Npos (pos_of_z x)
let zarith_of_n (x : n) : ZA.t = match x with N0 -> ZA.zero | Npos p -> zarith_of_pos p

let z_of_hex (s : string) : z = z_of_zarith (ZA.of_string_base 16 s)
let hex_of_z (x : z) : string = ZA.format "%x" (zarith_of_z x)
let n_of_hex (s : string) : n = n_of_zarith (ZA.of_string_base 16 s)
let hex_of_n (x : n) : string = ZA.format "%x" (zarith_of_n x)
let z_of_int (i : int) : z = z_of_zarith (ZA.of_int i)
let int_of_z (x : z) : int = ZA.to_int (zarith_of_z x)
let n_of_int (i : int) : n = n_of_zarith (ZA.of_int i)
let int_of_n (x : n) : int = ZA.to_int (zarith_of_n x)

let rec nat_of_int (i : int) : nat = if i <= 0 then O else S (nat_of_int (i - 1))
let rec int_of_nat (x : nat) : int = match x with O -> 0 | S y -> 1 + int_of_nat y

(* byte strings: token x<hex> <-> list of N (each < 256) *)
let bytes_of_tok (t : string) : n list =
  if String.length t = 0 || t.[0] <> 'x' then failwith ("bad byte token " ^ t);
  let l = (String.length t - 1) / 2 in
  List.init l (fun i -> n_of_int (int_of_string ("0x" ^ String.sub t (1 + 2 * i) 2)))
let tok_of_bytes (l : n list) : string =
  "x" ^ String.concat "" (List.map (fun b -> Printf.sprintf "%02x" (int_of_n b)) l)
let string_of_tok (t : string) : string =
  let l = (String.length t - 1) / 2 in
  String.init l (fun i -> Char.chr (int_of_string ("0x" ^ String.sub t (1 + 2 * i) 2)))

let split_list (t : string) : string list =
  if t = "_" then [] else String.split_on_char ',' t
let zlist_of_tok t = List.map z_of_hex (split_list t)
let tok_of_zlist l = if l = [] then "_" else String.concat "," (List.map hex_of_z l)
let natlist_of_tok t = List.map (fun s -> nat_of_int (int_of_string s)) (split_list t)
let tok_of_natlist l = if l = [] then "_" else String.concat "," (List.map (fun x -> string_of_int (int_of_nat x)) l)
let tok_of_bool b = if b then "1" else "0"
let tok_of_zopt o = match o with None -> "none" | Some x -> hex_of_z x

(* handlers: kind -> (tokens -> expected output tokens, given input tokens) ; each handler receives
   all tokens after the kind and returns (model_output, impl_output) as strings to be compared *)
let handlers : (string, string list -> string * string) Hashtbl.t = Hashtbl.create 64
let register k f = Hashtbl.replace handlers k f

let main () =
  let lineno = ref 0 in
  let nok = ref 0 and nbad = ref 0 in
  (try
    while true do
      let line = input_line stdin in
      incr lineno;
      match String.split_on_char ' ' (String.trim line) with
      | "REC" :: kind :: toks ->
        (match Hashtbl.find_opt handlers kind with
         | None -> incr nbad; Printf.printf "MISMATCH %d %s model=no-handler impl=?\n" !lineno kind
         | Some f ->
           (try
             let (m, i) = f toks in
             if m = i then (incr nok; print_string "OK\n")
             else (incr nbad; Printf.printf "MISMATCH %d %s model=%s impl=%s :: %s\n" !lineno kind m i line)
           with e ->
             incr nbad; Printf.printf "MISMATCH %d %s model=exception:%s impl=? :: %s\n" !lineno kind (Printexc.to_string e) line))
      | _ -> ()
    done
  with End_of_file -> ());
  Printf.printf "SUMMARY ok=%d mismatch=%d\n" !nok !nbad
