(* model side of the C08 correspondence: recompute every key generation record with the extracted KeyRingModel *)
open Model
open Drvcore

let split c s = if s = "_" then [] else String.split_on_char c s
(* oracle table  a,b,c:v;a,b:v *)
let table_of_tok t =
  List.map (fun e -> match String.split_on_char ':' e with
    | [k; v] -> (List.map z_of_hex (String.split_on_char ',' k), z_of_hex v)
    | _ -> failwith "oracle entry") (split ';' t)
(* a query outside the table (the model hashes something the code did not hash) is flagged: the model output gets the
   prefix "oracle-miss:" and therefore disagrees with whatever the implementation returned *)
let missed = ref false
let oracle t = let tbl = table_of_tok t in
  fun q -> let v = table_oracle tbl q in (if v = Zneg XH then missed := true); v
let flag (m, i) = if !missed then (missed := false; ("oracle-miss:" ^ m, i)) else (m, i)
let map_of_tok t = List.map (fun e -> match String.split_on_char ',' e with [a; b] -> (z_of_hex a, z_of_hex b) | _ -> failwith "map entry") (split ';' t)
let tok_of_map m =
  let l = List.map (fun (a, b) -> (zarith_of_z a, zarith_of_z b)) m in
  let l = List.sort (fun (a, _) (b, _) -> ZA.compare a b) l in
  if l = [] then "_" else String.concat ";" (List.map (fun (a, b) -> ZA.format "%x" a ^ "," ^ ZA.format "%x" b) l)
let grp p q g = { gp = z_of_hex p; gq = z_of_hex q; gg = z_of_hex g }
let hz = hex_of_z
let regf kind f = register kind (fun toks -> missed := false; flag (f toks))

let () =
  regf "kg_gen" (function [p; q; g; raw; m0; tbl; out] ->
      ((match generate_key (oracle tbl) (grp p q g) (z_of_hex raw) { ks_h = Z0; ks_hj = map_of_tok m0 } with
        | None -> "throw"
        | Some (((x, hi), fp), s) -> String.concat "," [hz x; hz hi; hz fp; hz (ks_h s); tok_of_map (ks_hj s)]), out)
    | _ -> failwith "arity");
  regf "kg_nizk" (function [p; q; g; x; hi; raw; tbl; out] ->
      ((match publish_key (oracle tbl) (grp p q g) (z_of_hex x) (z_of_hex hi) (z_of_hex raw) with
        | None -> "throw"
        | Some ((k, c), r) -> String.concat "," [hz k; hz c; hz r]), out)
    | _ -> failwith "arity");
  regf "kg_upd" (function [p; q; g; hb; h; m0; good; foo; c; r; tbl; out] ->
      let (v, s) = update_key (oracle tbl) (z_of_hex hb) (grp p q g) { ks_h = z_of_hex h; ks_hj = map_of_tok m0 } (good = "1")
          ((z_of_hex foo, z_of_hex c), z_of_hex r) in
      (String.concat "," [(match v with Accept -> "A" | Reject -> "R" | Throw -> "T"); hz (ks_h s); tok_of_map (ks_hj s)], out)
    | _ -> failwith "arity");
  regf "kg_rem" (function [p; q; g; h; m0; good; foo; tbl; out] ->
      let (b, s) = remove_key (oracle tbl) (grp p q g) { ks_h = z_of_hex h; ks_hj = map_of_tok m0 } (good = "1") (z_of_hex foo) in
      (String.concat "," [(if b then "1" else "0"); hz (ks_h s); tok_of_map (ks_hj s)], out)
    | _ -> failwith "arity");
  regf "kg_fin" (function [q; h; out] ->
      let t = finalize { gp = Z0; gq = z_of_hex q; gg = Z0 } { ks_h = z_of_hex h; ks_hj = [] } in
      (hz (ft_base t) ^ "," ^ Printf.sprintf "%x" (int_of_nat (ft_t t)), out)
    | _ -> failwith "arity");
  main ()
