(* model side of the C01 correspondence: recompute every record with the extracted VtmfModel / TmcgModel *)
open Model
open Drvcore

let tok_outcome = function
  | Ok r -> hex_of_z r
  | ThrowEven -> "even" | ThrowZeroMod -> "zeromod" | ThrowWrongBase -> "wrongbase"
  | ThrowTooLarge -> "toolarge" | ThrowInvert -> "inv" | TableOverrun -> "overrun"
let tok_res f = function Inl a -> f a | Inr e -> "throw:" ^ tok_outcome e
let tok_pair (a, b) = hex_of_z a ^ "," ^ hex_of_z b
let grp p q g = { gp = z_of_hex p; gq = z_of_hex q; gg = z_of_hex g }
let chain_of_tok t = if t = "_" then [] else
  List.map (fun s -> match String.split_on_char ':' s with [r; b] -> (z_of_hex r, b = "1") | _ -> failwith "chain") (String.split_on_char ',' t)

(* matrices: rows ';', entries ',' *)
let rows_of_tok t = List.map zlist_of_tok (String.split_on_char ';' t)
let tok_rows rows = String.concat ";" (List.map tok_of_zlist rows)
let nth_fun l = fun i -> List.nth l (int_of_nat i)
(* keys: m,y,p,q;... *)
let keys_of_tok t = List.map (fun s -> match String.split_on_char ',' s with
  | [m; y; p; q] -> (z_of_hex m, z_of_hex y, ZA.of_string_base 16 p, ZA.of_string_base 16 q) | _ -> failwith "keys") (String.split_on_char ';' t)
(* residuosity oracle of player i, by Euler's criterion with the secret factors (Zarith) *)
let euler_qr z p = ZA.equal (ZA.powm (ZA.erem z p) (ZA.shift_right (ZA.pred p) 1) p) ZA.one
let nqr_of keys = fun i z ->
  let (_, _, p, q) = List.nth keys (int_of_nat i) in
  let z' = zarith_of_z z in not (euler_qr z' p && euler_qr z' q)
let km_of keys = fun i -> let (m, _, _, _) = List.nth keys (int_of_nat i) in m
let ky_of keys = fun i -> let (_, y, _, _) = List.nth keys (int_of_nat i) in y
let secrets_of_tok t = if t = "_" then [] else
  List.map (fun s -> match String.split_on_char '|' s with
    | [r; b] -> (matrix_of (rows_of_tok r), matrix_of (rows_of_tok b)) | _ -> failwith "secret") (String.split_on_char '/' t)

let () =
  register "vt_keyshare" (function [p; q; g; x; out] -> (tok_res hex_of_z (key_share (grp p q g) (z_of_hex x)), out) | _ -> failwith "arity");
  register "vt_comkey" (function [p; own; others; out] ->
      (hex_of_z (common_key (grp p "0" "0") (z_of_hex own) (zlist_of_tok others)), out) | _ -> failwith "arity");
  register "vt_index" (function [p; q; g; i; out] -> (tok_res hex_of_z (index_element (grp p q g) (z_of_hex i)), out) | _ -> failwith "arity");
  register "vt_mask" (function [p; q; g; h; m; r; out] ->
      (tok_res tok_pair (mask (grp p q g) (z_of_hex h) (z_of_hex m) (z_of_hex r)), out) | _ -> failwith "arity");
  register "vt_opencard" (function [p; q; g; t; out] -> (tok_res tok_pair (create_open_card (grp p q g) (z_of_hex t)), out) | _ -> failwith "arity");
  register "vt_remask" (function [p; q; g; h; c1; c2; r; tap; out] ->
      (tok_res tok_pair (remask (grp p q g) (z_of_hex h) (tap = "1") (z_of_hex c1, z_of_hex c2) (z_of_hex r)), out) | _ -> failwith "arity");
  register "vt_decshare" (function [p; c1; x; out] -> (tok_res hex_of_z (dec_share (grp p "0" "0") (z_of_hex c1) (z_of_hex x)), out) | _ -> failwith "arity");
  register "vt_update" (function [p; d; dj; ok; out] ->
      let (r, d') = dec_update (grp p "0" "0") (z_of_hex d) (z_of_hex dj, ok = "1") in
      ((if r then "1," else "0,") ^ hex_of_z d', out) | _ -> failwith "arity");
  register "vt_final" (function [p; d; c2; out] -> (tok_res hex_of_z (dec_finalize (grp p "0" "0") (z_of_hex d) (z_of_hex c2)), out) | _ -> failwith "arity");
  register "vt_type" (function [p; q; g; w; m; out] ->
      (tok_res hex_of_z (type_of_message (grp p q g) (nat_of_int (int_of_string w)) (z_of_hex m)), out) | _ -> failwith "arity");
  register "vt_open" (function [p; q; g; w; xo; others; cont; t; chain; out] ->
      (tok_res hex_of_z (open_run (grp p q g) (nat_of_int (int_of_string w)) (z_of_hex xo) (zlist_of_tok others) (zlist_of_tok cont)
                           (z_of_hex t) (chain_of_tok chain)), out) | _ -> failwith "arity");
  register "tm_secret" (function [k; w; idx; b] ->
      let k = nat_of_int (int_of_string k) and w = nat_of_int (int_of_string w) in
      (tok_rows (rows_of k w (complete_secret k (nat_of_int (int_of_string idx)) (matrix_of (rows_of_tok b)))), b) | _ -> failwith "arity");
  register "tm_opencard" (function [k; w; ys; t; out] ->
      let k = nat_of_int (int_of_string k) and w = nat_of_int (int_of_string w) in
      (tok_rows (rows_of k w (open_card_qr (nth_fun (zlist_of_tok ys)) (z_of_hex t))), out) | _ -> failwith "arity");
  register "tm_mask" (function [k; w; keys; c; r; b; out] ->
      let k = nat_of_int (int_of_string k) and w = nat_of_int (int_of_string w) and keys = keys_of_tok keys in
      (tok_rows (rows_of k w (mask_card (km_of keys) (ky_of keys) (matrix_of (rows_of_tok c)) (matrix_of (rows_of_tok r)) (matrix_of (rows_of_tok b)))), out)
    | _ -> failwith "arity");
  register "tm_self" (function [k; w; keys; c; out] ->
      let k = nat_of_int (int_of_string k) and w = nat_of_int (int_of_string w) and keys = keys_of_tok keys in
      (tok_rows (rows_of k w (self_bits (nqr_of keys) (matrix_of (rows_of_tok c)))), out) | _ -> failwith "arity");
  register "tm_type" (function [k; w; b; out] ->
      let k = nat_of_int (int_of_string k) and w = nat_of_int (int_of_string w) in
      (hex_of_z (type_of_card k w (matrix_of (rows_of_tok b))), out) | _ -> failwith "arity");
  register "tm_open" (function [k; w; keys; t; chain; out] ->
      let k = nat_of_int (int_of_string k) and w = nat_of_int (int_of_string w) and keys = keys_of_tok keys in
      let km = km_of keys and ky = ky_of keys in
      (hex_of_z (type_of_card k w (self_bits (nqr_of keys) (mask_chain km ky (open_card_qr ky (z_of_hex t)) (secrets_of_tok chain)))), out)
    | _ -> failwith "arity");
  main ()
