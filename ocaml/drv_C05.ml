(* model side of the C05 correspondence: Fiat-Shamir serialisation and the VTMF-layer verifiers, recomputed with
   the extracted Coq model; the hash is the oracle table logged by the harness *)
open Model
open Drvcore

(* table token:  k1,k2,...:v;k1,...:v   ("_" = empty) *)
let table_of_tok t =
  if t = "_" then [] else
  List.map (fun e -> match String.split_on_char ':' e with
      | [ks; v] -> (zlist_of_tok ks, z_of_hex v)
      | _ -> failwith "table entry") (String.split_on_char ';' t)
let grp_of = function
  | p :: q :: g :: h :: tg :: th :: hb :: rest ->
    ({ gp = z_of_hex p; gq = z_of_hex q; gg = z_of_hex g; gh = z_of_hex h; gtg = z_of_hex tg; gth = z_of_hex th; ghb = z_of_hex hb }, rest)
  | _ -> failwith "grp"
let code v = hex_of_z (verdict_code v)
let zs l = List.map z_of_hex l

let () =
  register "fsser" (function [l; out] -> (tok_of_bytes (fs_ser (zlist_of_tok l)), out) | _ -> failwith "arity");
  register "keyv" (fun toks -> let (g, r) = grp_of toks in
    match r with [foo; c; rr; tbl; out] -> (code (key_verify (table_hash (table_of_tok tbl)) g (z_of_hex foo) (z_of_hex c) (z_of_hex rr)), out) | _ -> failwith "arity");
  register "keyintv" (fun toks -> let (g, r) = grp_of toks in
    match r with [key; m1; c; m2; out] -> (code (keyint_verify g (z_of_hex key) (z_of_hex m1) (z_of_hex c) (z_of_hex m2)), out) | _ -> failwith "arity");
  register "cpv" (fun toks -> let (g, r) = grp_of toks in
    match r with [x; y; g'; h'; c; rr; fp; tbl; out] ->
      (code (cp_verify (table_hash (table_of_tok tbl)) g (z_of_hex x) (z_of_hex y) (z_of_hex g') (z_of_hex h') (z_of_hex c) (z_of_hex rr) (fp = "1")), out) | _ -> failwith "arity");
  register "maskv" (fun toks -> let (g, r) = grp_of toks in
    match r with [m; c1; c2; c; rr; tbl; out] ->
      (code (mask_verify (table_hash (table_of_tok tbl)) g (z_of_hex m) (z_of_hex c1) (z_of_hex c2) (z_of_hex c) (z_of_hex rr)), out) | _ -> failwith "arity");
  register "remaskv" (fun toks -> let (g, r) = grp_of toks in
    match r with [c1; c2; d1; d2; c; rr; tbl; out] ->
      (code (remask_verify (table_hash (table_of_tok tbl)) g (z_of_hex c1) (z_of_hex c2) (z_of_hex d1) (z_of_hex d2) (z_of_hex c) (z_of_hex rr)), out) | _ -> failwith "arity");
  register "decv" (fun toks -> let (g, r) = grp_of toks in
    match r with [c1; hj; dj; c; rr; tbl; out] ->
      let k = if hj = "none" then None else Some (z_of_hex hj) in
      (code (decrypt_verify (table_hash (table_of_tok tbl)) g (z_of_hex c1) k (z_of_hex dj) (z_of_hex c) (z_of_hex rr)), out) | _ -> failwith "arity");
  register "orv" (fun toks -> let (g, r) = grp_of toks in
    match r with [y1; y2; g1; g2; c1; c2; r1; r2; tbl; out] ->
      (code (or_verify (table_hash (table_of_tok tbl)) g (z_of_hex y1) (z_of_hex y2) (z_of_hex g1) (z_of_hex g2) (z_of_hex c1) (z_of_hex c2) (z_of_hex r1) (z_of_hex r2)), out) | _ -> failwith "arity");
  let pkey_of = function
    | p :: q :: h :: gs :: rest -> ({ kp = z_of_hex p; kq = z_of_hex q; kh = z_of_hex h; kg = zlist_of_tok gs }, rest)
    | _ -> failwith "pkey" in
  register "tmv" (fun toks -> let (k, r) = pkey_of toks in
    match r with [c; out] -> (tok_of_bool (test_membership k (z_of_hex c)), out) | _ -> failwith "arity");
  register "pedv" (fun toks -> let (k, r) = pkey_of toks in
    match r with [c; rr; ms; out] -> (code (ped_verify k (z_of_hex c) (z_of_hex rr) (zlist_of_tok ms)), out) | _ -> failwith "arity");
  register "skcv" (fun toks -> let (k, r) = pkey_of toks in
    match r with [le; c; ms; cd; cD; ca; f; z; fD; zD; tbl; out] ->
      let pr = { s_cd = z_of_hex cd; s_cD = z_of_hex cD; s_ca = z_of_hex ca; s_f = zlist_of_tok f; s_z = z_of_hex z;
                 s_fD = zlist_of_tok fD; s_zD = z_of_hex zD } in
      (code (skc_verify (table_hash (table_of_tok tbl)) k (z_of_hex le) (z_of_hex c) (zlist_of_tok ms) pr), out)
    | _ -> failwith "arity");
  main ()
