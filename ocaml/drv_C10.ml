(* model side of the C10 correspondence: recompute every record with the extracted RabinModel.
   Oracles handed to the model:
   - raw digests H1 (SHA-256) and H2 (SHA3-256): looked up in the table the harness logged for this very call
     (key = algorithm, MD5 fingerprint and length of the input the model asks for); a query the implementation
     did not make raises Not_found and is reported as a mismatch;
   - quadratic-residue test and the four square roots: computed with Zarith from the secret-key members exactly as
     tmcg_mpz_qrmn_p / tmcg_mpz_sqrtmn_fast_all do (property C09 is about those);
   - mpz_jacobi, mpz_probab_prime_p: Zarith (GMP). *)
open Model
open Drvcore

let rec int_of_pos = function XH -> 1 | XO p -> 2 * int_of_pos p | XI p -> 2 * int_of_pos p + 1
let int_of_byte = function N0 -> 0 | Npos p -> int_of_pos p
let string_of_bytes (l : n list) : string =
  let b = Buffer.create 4096 in
  List.iter (fun x -> Buffer.add_char b (Char.unsafe_chr (int_of_byte x land 255))) l; Buffer.contents b
let n_byte = Array.init 256 n_of_int
let bytes_of_string (s : string) : n list = List.init (String.length s) (fun i -> n_byte.(Char.code s.[i]))
let bytes_of_hex (h : string) : n list =
  List.init (String.length h / 2) (fun i -> n_byte.(int_of_string ("0x" ^ String.sub h (2 * i) 2)))

(* table token: "_" or comma separated  alg:md5hex:len=digesthex *)
let oracle (tok : string) : (n list -> n list) * (n list -> n list) =
  let t = Hashtbl.create 1024 in
  if tok <> "_" then
    List.iter (fun e -> match String.index_opt e '=' with
      | Some i -> Hashtbl.replace t (String.sub e 0 i) (String.sub e (i + 1) (String.length e - i - 1))
      | None -> failwith "table entry") (String.split_on_char ',' tok);
  let h alg (input : n list) =
    let s = string_of_bytes input in
    let key = Printf.sprintf "%s:%s:%d" alg (Digest.to_hex (Digest.string s)) (String.length s) in
    match Hashtbl.find_opt t key with
    | Some d -> bytes_of_hex d
    | None -> failwith ("hash query not made by the implementation: alg " ^ alg ^ " len " ^ string_of_int (String.length s))
  in (h "1", h "2")

let zheap = List.init 4096 (fun _ -> N0)

let jacobi (a : z) (b : z) : z =
  let a' = zarith_of_z a and b' = zarith_of_z b in
  z_of_int (try ZA.jacobi a' b' with _ -> (try ZA.kronecker a' b' with _ -> 0))
let is_prime (m : z) : bool = ZA.probab_prime (ZA.abs (zarith_of_z m)) 30 <> 0

(* secret-key oracles from p q up vq pa1d4 qa1d4 *)
let sec_oracles m p q up vq pa qa =
  let m = ZA.of_string_base 16 m and p = ZA.of_string_base 16 p and q = ZA.of_string_base 16 q
  and up = ZA.of_string_base 16 up and vq = ZA.of_string_base 16 vq and pa = ZA.of_string_base 16 pa and qa = ZA.of_string_base 16 qa in
  let qr (a : z) = let a = zarith_of_z a in
    (try ZA.jacobi a p = 1 && ZA.jacobi a q = 1 with _ -> false) in
  let roots (a : z) = let a = zarith_of_z a in
    let rp = ZA.powm a pa p and rq = ZA.powm a qa q in
    let emod x = let r = ZA.rem x m in if ZA.sign r < 0 then ZA.add r (ZA.abs m) else r in
    let r1 = emod (ZA.add (ZA.mul rq up) (ZA.mul rp vq)) in
    let r2 = ZA.sub m r1 in
    let r3 = emod (ZA.add (ZA.mul (ZA.neg rq) up) (ZA.mul rp vq)) in
    let r4 = ZA.sub m r3 in
    List.map z_of_zarith [r1; r2; r3; r4] in
  (qr, roots)

let tok_outcome = function Accept -> "A" | Reject -> "R" | Overflow -> "OVERFLOW"
let tok_pub (k : pubkey) =
  String.concat ";" [tok_of_bytes k.k_name; tok_of_bytes k.k_email; tok_of_bytes k.k_type; hex_of_z k.k_m; hex_of_z k.k_y;
                     tok_of_bytes k.k_nizk; tok_of_bytes k.k_sig]
let pub_of_tok (t : string) : pubkey =
  match String.split_on_char ';' t with
  | [a; b; c; m; y; nz; sg] -> { k_name = bytes_of_tok a; k_email = bytes_of_tok b; k_type = bytes_of_tok c; k_m = z_of_hex m;
                                k_y = z_of_hex y; k_nizk = bytes_of_tok nz; k_sig = bytes_of_tok sg }
  | _ -> failwith "pub token"

let () =
  register "g" (function [osize; inp; tab; out] ->
      let (h1, h2) = oracle tab in
      (tok_of_bytes (tmcg_g h1 h2 (nat_of_int (int_of_string osize)) (bytes_of_tok inp)), out) | _ -> failwith "arity");
  register "verify" (function [m; ksig; data; s; tab; out] ->
      let (h1, h2) = oracle tab in
      (tok_outcome (verify_text h1 h2 (z_of_hex m) (bytes_of_tok ksig) zheap (bytes_of_tok data) (bytes_of_tok s)), out) | _ -> failwith "arity");
  register "sign" (function [m; p; q; up; vq; pa; qa; ksig; data; coins; idx; tab; out] ->
      let (h1, h2) = oracle tab in
      let (qr, roots) = sec_oracles m p q up vq pa qa in
      ((match sign_text h1 h2 qr roots (z_of_hex m) (bytes_of_tok ksig) (bytes_of_tok data) (bytes_of_tok coins) (nat_of_int (int_of_string idx)) with
        | Some t -> tok_of_bytes t | None -> "none"), out) | _ -> failwith "arity");
  register "encrypt" (function [m; ksig; value; coins; tab; out] ->
      let (h1, h2) = oracle tab in
      ((match encrypt_text h1 h2 (z_of_hex m) (bytes_of_tok ksig) (bytes_of_tok value) (bytes_of_tok coins) with
        | Some t -> tok_of_bytes t | None -> "none"), out) | _ -> failwith "arity");
  register "decrypt" (function [m; p; q; up; vq; pa; qa; ksig; text; tab; out] ->
      let (h1, h2) = oracle tab in
      let (qr, roots) = sec_oracles m p q up vq pa qa in
      ((match decrypt_text h1 h2 qr roots (z_of_hex m) (bytes_of_tok ksig) zheap (bytes_of_tok text) with
        | DecReject -> "R" | DecOverflow -> "OVERFLOW" | DecValue v -> "V" ^ tok_of_bytes v), out) | _ -> failwith "arity");
  register "check" (function [name; email; ty; m; y; nizk; sg; tab; out] ->
      let (h1, h2) = oracle tab in
      let k = { k_name = bytes_of_tok name; k_email = bytes_of_tok email; k_type = bytes_of_tok ty; k_m = z_of_hex m; k_y = z_of_hex y;
                k_nizk = bytes_of_tok nizk; k_sig = bytes_of_tok sg } in
      ((match check h1 h2 jacobi is_prime (nat_of_int 200) zheap k with
        | Ok true -> "1" | Ok false -> "0" | Rej -> "0" | Unmodelled -> "unmodelled"), out) | _ -> failwith "arity");
  register "imp_pub" (function [text; out] ->
      ((match import_pub (bytes_of_tok text) with Some k -> tok_pub k | None -> "none"), out) | _ -> failwith "arity");
  register "exp_pub" (function [k; out] -> (tok_of_bytes (export_pub (pub_of_tok k)), out) | _ -> failwith "arity");
  register "exp_sec" (function [k; p; q; out] -> (tok_of_bytes (export_sec (pub_of_tok k) (z_of_hex p) (z_of_hex q)), out) | _ -> failwith "arity");
  register "imp_sec" (function [text; out] ->
      ((match import_sec (bytes_of_tok text) with
        | Some ((k, p), q) -> tok_pub k ^ ";" ^ hex_of_z p ^ ";" ^ hex_of_z q | None -> "none"), out) | _ -> failwith "arity");
  register "keyid" (function [size; ksig; out] -> (tok_of_bytes (keyid (n_of_hex size) (bytes_of_tok ksig)), out) | _ -> failwith "arity");
  register "keyid_size" (function [s; out] -> (hex_of_n (keyid_size (bytes_of_tok s)), out) | _ -> failwith "arity");
  main ()
