(* model side of the C12 correspondence: recompute every record with the extracted PgpLenModel *)
open Model
open Drvcore

let bit b = if b then "1" else "0"
let dec_nat n = string_of_int (int_of_nat n)
(* sub-packet types with type-specific body checks in SubpacketDecode (not modelled: they may refuse a well-framed sub-packet) *)
let known_types = [2;3;4;5;6;7;9;11;12;16;20;21;22;23;24;25;26;27;28;29;30;31;32;33;34;35;37]

let () =
  register "plen" (function [s; nf; lt; out] ->
      let r = match packet_length_decode (bytes_of_tok s) (nf = "1") (n_of_hex lt) with
        | LenErr -> "err"
        | LenOk (hl, len, part) -> "ok," ^ dec_nat hl ^ "," ^ hex_of_n len ^ "," ^ bit part
        | LenIndet len -> "indet," ^ hex_of_n len in
      (r, out) | _ -> failwith "arity");
  register "pbe" (function [s; out] ->
      let r = match packet_body_extract (bytes_of_tok s) with
        | None -> "fuel"
        | Some (ret, body) -> hex_of_n ret ^ "," ^ tok_of_bytes body in
      (r, out) | _ -> failwith "arity");
  register "pframe" (function [s; out] ->
      let r = match packet_decode_frame (bytes_of_tok s) with
        | FrameFuel -> "fuel"
        | FrameErr (rest, cur) -> tok_of_bytes rest ^ "," ^ tok_of_bytes cur
        | FrameOk (_, _, _, _, rest, cur) -> tok_of_bytes rest ^ "," ^ tok_of_bytes cur in
      (r, out) | _ -> failwith "arity");
  register "mpi" (function [s; sum; out] ->
      let r = match mpi_decode (bytes_of_tok s) (n_of_hex sum) with
        | MpiErr s' -> "err," ^ hex_of_n s'
        | MpiOk (c, v, s') -> "ok," ^ dec_nat c ^ "," ^ hex_of_n v ^ "," ^ hex_of_n s' in
      (r, out) | _ -> failwith "arity");
  register "subhdr" (function [s; out] ->
      let r = match subpacket_header (bytes_of_tok s) with
        | SubErr -> "0,0,0"
        | SubOk (hl, len, crit, ty) ->
          let t = int_of_n ty in
          let known = List.mem t known_types in
          let consumed = int_of_nat hl + int_of_n len in
          let unrec = Printf.sprintf "fe,%d,%s" consumed (bit crit) in
          (* a recognised type may be refused (0) or downgraded to "not recognised" (0xfe) by its body checks *)
          if known && (out = "0,0,0" || out = unrec) then out
          else Printf.sprintf "%x,%d,%s" (if known then t else 0xfe) consumed (bit crit) in
      (r, out) | _ -> failwith "arity");
  register "r64" (function [s; out] ->
      let r = match radix64_decode (bytes_of_tok s) with None -> "none" | Some o -> tok_of_bytes o in
      (r, out) | _ -> failwith "arity");
  main ()
