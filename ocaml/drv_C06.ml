(* model side of the C06 correspondence: recompute every record with the extracted CheckGroupModel.
   Oracles handed to the model: primality (extracted trial division below 2^20, GMP above), the hash table printed by the
   harness (string -> value; a string the harness did not hash is an error), the Jacobi symbol (GMP). *)
open Model
open Drvcore

let is_prime (n : z) : bool =
  let v = zarith_of_z n in
  if ZA.lt v (ZA.shift_left ZA.one 20) then trial_prime n else ZA.probab_prime v 30 <> 0

let jac (a : z) (p : z) : z = z_of_int (ZA.jacobi (zarith_of_z a) (zarith_of_z p))

let table_of_tok (t : string) : (string * z) list =
  if t = "_" then [] else
  List.map (fun e -> match String.split_on_char '=' e with [s; h] -> (s, z_of_hex h) | _ -> failwith "table") (String.split_on_char ',' t)
let hash_of tab : n list -> z = fun bytes ->
  let k = tok_of_bytes bytes in
  match List.assoc_opt k tab with Some v -> v | None -> failwith ("hash oracle: no entry for " ^ k)

let tok_verdict = function Accept -> "accept" | Reject -> "reject" | Crash -> "crash" | OutOfFuel -> "fuel"
let fuel = nat_of_int 16
let bool_of_tok t = (t = "1")

let () =
  register "cg_vtmf" (function [f; g; canon; p; q; gg; k; tab; out] ->
      (tok_verdict (check_group_vtmf is_prime (hash_of (table_of_tok tab)) fuel (z_of_hex f) (z_of_hex g) (bool_of_tok canon)
                      (z_of_hex p) (z_of_hex q) (z_of_hex gg) (z_of_hex k)), out) | _ -> failwith "arity");
  register "cg_gens" (function [_name; f; g; sign; derive; canon; p; q; k0; h; gs; tab; out] ->
      (tok_verdict (check_group_gens is_prime (hash_of (table_of_tok tab)) fuel (z_of_hex f) (z_of_hex g) (bool_of_tok sign) (bool_of_tok derive) (bool_of_tok canon)
                      (z_of_hex p) (z_of_hex q) (z_of_hex k0) (z_of_hex h) (zlist_of_tok gs)), out) | _ -> failwith "arity");
  register "cg_qr" (function [f; g; e; p; q; out] ->
      ((match qr_generator (z_of_hex e) (z_of_hex p) with
        | None -> "crash"
        | Some gen -> tok_verdict (check_group_qr is_prime jac (z_of_hex f) (z_of_hex g) (z_of_hex e) true (z_of_hex p) (z_of_hex q) gen)), out)
      | _ -> failwith "arity");
  register "qr_gen" (function [e; p; out] ->
      ((match qr_generator (z_of_hex e) (z_of_hex p) with None -> "crash" | Some g -> hex_of_z g), out) | _ -> failwith "arity");
  register "elem" (function [_name; p; q; lo; n; out] ->
      (tok_of_zlist (accepted_from (z_of_hex p) (z_of_hex q) (z_of_hex lo) (nat_of_int (int_of_string n))), out) | _ -> failwith "arity");
  register "elem_qr" (function [p; lo; n; out] ->
      let pz = z_of_hex p and lo = int_of_z (z_of_hex lo) and n = int_of_string n in
      let acc = List.filter (fun a -> check_element_qr jac pz a) (List.init n (fun i -> z_of_int (lo + i))) in
      (tok_of_zlist acc, out) | _ -> failwith "arity");
  register "elem1" (function [p; q; a; out] -> (tok_verdict (check_element (z_of_hex p) (z_of_hex q) (z_of_hex a)), out) | _ -> failwith "arity");
  register "powm" (function [b; e; m; out] ->
      ((match mpz_powm (z_of_hex b) (z_of_hex e) (z_of_hex m) with None -> "crash" | Some r -> hex_of_z r), out) | _ -> failwith "arity");
  register "size2" (function [n; out] -> (hex_of_z (sizeinbase2 (z_of_hex n)), out) | _ -> failwith "arity");
  main ()
