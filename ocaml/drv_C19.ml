(* model side of the C19 correspondence: recompute every record with the extracted PgpCodecModel *)
open Model
open Drvcore

let bt = bytes_of_tok and tb = tok_of_bytes
let nh = n_of_hex and hn = hex_of_n
let bool_of_tok t = (t = "1")
let arm_of_int = function
  | 1 -> Some ArmMessage | 2 -> Some ArmSignature | 5 -> Some ArmPrivateKey | 6 -> Some ArmPublicKey | _ -> None
let int_of_arm = function ArmMessage -> 1 | ArmSignature -> 2 | ArmPrivateKey -> 5 | ArmPublicKey -> 6 | ArmFile -> 200
let nlist_of_tok t = List.map n_of_hex (split_list t)
let bad () = failwith "arity"

let () =
  register "r64enc" (function [lb; d; out] -> (tb (radix64_encode (bool_of_tok lb) (bt d)), out) | _ -> bad ());
  register "r64dec" (function [s; out] -> (tb (radix64_decode (bt s)), out) | _ -> bad ());
  register "crc24" (function [d; out] -> (tb (crc24_octets (bt d)), out) | _ -> bad ());
  register "crc24enc" (function [d; out] -> (tb (crc24_encode (bt d)), out) | _ -> bad ());
  register "armenc" (function [ty; ver; com; d; out] ->
      let v = if ver = "-" then None else Some (bt ver) in
      (tb (armor_encode (arm_of_int (int_of_string ty)) v (bt com) (bt d)), out) | _ -> bad ());
  register "armdec" (function [s; out] ->
      ((match armor_decode (bt s) with
        | ArmOk (t, d) -> string_of_int (int_of_arm t) ^ ":" ^ tb d
        | _ -> "0"), out) | _ -> bad ());
  register "lenenc" (function [n; out] -> (tb (pktlen_encode (nh n)), out) | _ -> bad ());
  register "lendec" (function [s; nf; lt; out] ->
      ((match pktlen_decode (bt s) (bool_of_tok nf) (n_of_int (int_of_string lt)) with
        | None -> "0"
        | Some (LenDefinite (n, k)) -> "D:" ^ hn n ^ ":" ^ Printf.sprintf "%x" (int_of_nat k)
        | Some (LenPartial n) -> "P:" ^ hn n
        | Some (LenIndeterminate n) -> "I:" ^ hn n), out) | _ -> bad ());
  register "bodyext" (function [s; out] ->
      ((match body_extract (bt s) with
        | None -> "0"
        | Some (t, b) -> if int_of_n t = 0 then "0" else hn t ^ ":" ^ tb b), out) | _ -> bad ());
  register "mpienc" (function [n; s0; out] ->
      let e = mpi_encode (nh n) in (tb e ^ ":" ^ hn (sum16 (nh s0) e), out) | _ -> bad ());
  register "mpidec" (function [s; s0; out] ->
      let l = bt s in
      let sum = hn (mpi_decode_sum (nh s0) l) in
      ((match mpi_decode l with
        | None -> "0:" ^ sum
        | Some (v, k) -> hn v ^ ":" ^ Printf.sprintf "%x" (int_of_nat k) ^ ":" ^ sum), out) | _ -> bad ());
  register "strenc" (function [s; out] -> (tb (string_encode (bt s)), out) | _ -> bad ());
  register "strdec" (function [s; out] ->
      ((match string_decode (bt s) with
        | None -> "0"
        | Some (v, k) -> tb v ^ ":" ^ Printf.sprintf "%x" (int_of_nat k)), out) | _ -> bad ());
  register "s2kcnt" (function [c; out] -> (hn (s2k_count (nh c)), out) | _ -> bad ());
  register "s2kstream" (function [cnt; nzp; d; out] ->
      let st = s2k_stream (nh cnt) (nat_of_int (int_of_string nzp)) (bt d) in
      (hn (len st) ^ ":" ^ tb (crc24_octets st), out) | _ -> bad ());
  register "fpr4" (function [b; out] -> (tb (fpr_v4_input (bt b)), out) | _ -> bad ());
  register "fpr5" (function [b; out] -> (tb (fpr_v5_input (bt b)), out) | _ -> bad ());
  register "keyid4" (function [f; out] -> (tb (keyid_v4 (bt f)), out) | _ -> bad ());
  register "keyid5" (function [f; out] -> (tb (keyid_v5 (bt f)), out) | _ -> bad ());
  register "pk_uid" (function [u; out] -> (tb (uid_packet (bt u)), out) | _ -> bad ());
  register "pk_lit" (function [t; d; out] -> (tb (lit_packet (nh t) (bt d)), out) | _ -> bad ());
  register "pk_sed" (function [d; out] -> (tb (sed_packet (bt d)), out) | _ -> bad ());
  register "pk_seipd" (function [d; out] -> (tb (seipd_packet (bt d)), out) | _ -> bad ());
  register "pk_mdc" (function [h; out] -> (tb (mdc_packet (bt h)), out) | _ -> bad ());
  register "pk_aead" (function [sk; ae; cs; iv; d; out] -> (tb (aead_packet (nh sk) (nh ae) (nh cs) (bt iv) (bt d)), out) | _ -> bad ());
  register "pk_pkesk_rsa" (function [k; me; out] -> (tb (pkesk_rsa (bt k) (nh me)), out) | _ -> bad ());
  register "pk_pkesk_elg" (function [k; a; b; out] -> (tb (pkesk_elg (bt k) (nh a) (nh b)), out) | _ -> bad ());
  register "pk_pkesk_ecdh" (function [k; e; r; out] -> (tb (pkesk_ecdh (bt k) (nh e) (bt r)), out) | _ -> bad ());
  register "pk_subpkt" (function [t; c; d; out] -> (tb (subpacket (nh t) (bool_of_tok c) (bt d)), out) | _ -> bad ());
  register "pk_sig" (function [h; l; ms; out] -> (tb (sig_packet (bt h) (bt l) (nlist_of_tok ms)), out) | _ -> bad ());
  register "sigprep" (function [_; _; out] -> ("ok", out) | _ -> bad ());
  register "pk_pub" (function [tag; t; a; p; q; g; y; out] ->
      ((match pub_packet (n_of_int (int_of_string tag)) (nh t) (nh a) (nh p) (nh q) (nh g) (nh y) with
        | None -> "none" | Some b -> tb b), out) | _ -> bad ());
  (* decode side: PacketDecode field for field *)
  let ml l = String.concat "," (List.map hn l) in
  let s2k = function
    | S2kSimple h -> "0:" ^ hn h
    | S2kSalted (h, salt) -> "1:" ^ hn h ^ ":" ^ tb salt
    | S2kIterated (h, salt, c) -> "3:" ^ hn h ^ ":" ^ tb salt ^ ":" ^ hn c in
  let fields_tok = function
    | PfPkesk (k, a, EskRSA me) -> "1|" ^ tb k ^ "|" ^ hn a ^ "|" ^ ml [me]
    | PfPkesk (k, a, EskElg (g, m)) -> "1|" ^ tb k ^ "|" ^ hn a ^ "|" ^ ml [g; m]
    | PfPkesk (k, a, EskECDH (e, w)) -> "1|" ^ tb k ^ "|" ^ hn a ^ "|" ^ ml [e] ^ "|" ^ tb w
    | PfSig4 (v, t, p, h, hs, _, l, ms) -> "2|" ^ hn v ^ "|" ^ hn t ^ "|" ^ hn p ^ "|" ^ hn h ^ "|" ^ tb hs ^ "|" ^ tb l ^ "|" ^ ml ms
    | PfSig3 (t, tm, i, p, h, l, ms) -> "2|3|" ^ hn t ^ "|" ^ hn tm ^ "|" ^ tb i ^ "|" ^ hn p ^ "|" ^ hn h ^ "|" ^ tb l ^ "|" ^ ml ms
    | PfSkesk4 (sk, s, e) -> "3|4|" ^ hn sk ^ "|" ^ s2k s ^ "|" ^ tb e
    | PfSkesk5 (sk, a, s, iv, e) -> "3|5|" ^ hn sk ^ "|" ^ hn a ^ "|" ^ s2k s ^ "|" ^ tb iv ^ "|" ^ tb e
    | PfKey (tag, v, tm, a, km) -> string_of_int (int_of_n tag) ^ "|" ^ hn v ^ "|" ^ hn tm ^ "|" ^ hn a ^ "|" ^
        (match km with
         | KmRSA (n, e) -> ml [n; e] | KmElg (p, g, y) -> ml [p; g; y] | KmDSA (p, q, g, y) -> ml [p; q; g; y]
         | KmECsig (oid, pk) -> tb oid ^ ":" ^ hn pk
         | KmECDH (oid, pk, h, sk) -> tb oid ^ ":" ^ hn pk ^ ":" ^ hn h ^ ":" ^ hn sk)
    | PfComp (a, d) -> "8|" ^ hn a ^ "|" ^ tb d
    | PfSed d -> "9|" ^ tb d
    | PfLit (f, fn, tm, d) -> "11|" ^ hn f ^ "|" ^ tb fn ^ "|" ^ hn tm ^ "|" ^ tb d
    | PfUid u -> "13|" ^ tb u
    | PfSeipd d -> "18|" ^ tb d
    | PfMdc h -> "19|" ^ tb h
    | PfAead (sk, a, cs, iv, d) -> "20|" ^ hn sk ^ "|" ^ hn a ^ "|" ^ hn cs ^ "|" ^ tb iv ^ "|" ^ tb d in
  register "pdec" (function [p; out] ->
      ((match packet_decode (bt p) with
        | PdOk f -> fields_tok f | PdError -> "err" | PdUnsupported -> "unsup" | PdNotModelled -> "notmodelled"), out)
    | _ -> bad ());
  let hexbytes h = bt ("x" ^ h) in
  let notas t = if t = "_" then [] else
    List.map (fun s -> match String.split_on_char ';' s with [a; b] -> (hexbytes a, hexbytes b) | _ -> failwith "notation") (String.split_on_char ',' t) in
  register "prep" (function [kind; ty; pk; h; st; t2; flags; issuer; s1; s2; n1; n2; bis; nota; out] ->
      let ty = nh ty and pk = nh pk and h = nh h and st = nh st and t2 = nh t2 and n1 = nh n1 and n2 = nh n2 in
      let flags = bt flags and issuer = bt issuer and s1 = bt s1 and s2 = bt s2 and bis = (bis = "1") and nota = notas nota in
      (tb (match kind with
        | "self" -> prep_self ty pk h st t2 flags issuer bis
        | "revoker" -> prep_revoker pk h st flags issuer n1 s2 bis
        | "detached" -> prep_detached ty pk h st t2 s1 issuer
        | "detached5" -> prep_detached_v5 ty pk h st t2 s1 issuer
        | "revocation" -> prep_revocation ty pk h st n1 s1 issuer
        | "certification" -> prep_certification ty pk h st t2 s1 issuer
        | "ts_hash" -> prep_timestamp_hash pk h st s1 issuer n1 n2 s2 nota
        | "ts_sig" -> prep_timestamp_sig pk h st s1 issuer s2 nota
        | "attest" -> prep_attestation pk h st s1 issuer s2 nota
        | _ -> failwith "kind"), out)
    | _ -> bad ());
  register "penc" (function [p; out] ->
      ((match packet_decode (bt p) with
        | PdOk f -> if packet_of f = bt p then "same" else "differs:" ^ tb (packet_of f)
        | _ -> "undecodable"), out)
    | _ -> bad ());
  main ()
